/-
  C16, dense matrix model: `symmetric_part`, `is_triu`, column / row sums.
  [S] = every scalar type, [F] = exact arithmetic.
-/
import ClarabelProofs.Lemmas.DenseMath

namespace Clarabel.Dense
open Clarabel

variable {α : Type}

theorem mapM_mem {β γ : Type} (f : β → MErr γ) : ∀ (l : List β) (os : List γ), l.mapM f = .ok os →
    (∀ o ∈ os, ∃ p ∈ l, f p = .ok o) ∧ (∀ p ∈ l, ∃ o ∈ os, f p = .ok o) := by
  intro l
  induction l with
  | nil =>
    intro os h
    have : os = [] := by cases h; rfl
    subst this
    exact ⟨fun o ho => by simp at ho, fun p hp => by simp at hp⟩
  | cons a t ih =>
    intro os h
    rw [List.mapM_cons] at h
    cases hfa : f a with
    | error e => rw [hfa] at h; cases h
    | ok v =>
      rw [hfa] at h
      cases ht : t.mapM f with
      | error e => rw [ht] at h; cases h
      | ok vs =>
        rw [ht] at h
        have : os = v :: vs := by cases h; rfl
        subst this
        obtain ⟨i1, i2⟩ := ih vs ht
        constructor
        · intro o ho
          rcases List.mem_cons.mp ho with rfl | ho'
          · exact ⟨a, by simp, hfa⟩
          · obtain ⟨p, hp, hfp⟩ := i1 o ho'
            exact ⟨p, List.mem_cons_of_mem _ hp, hfp⟩
        · intro p hp
          rcases List.mem_cons.mp hp with rfl | hp'
          · exact ⟨v, by simp, hfa⟩
          · obtain ⟨o, ho, hfo⟩ := i2 p hp'
            exact ⟨o, List.mem_cons_of_mem _ ho, hfo⟩

theorem lowerPairs_mem (m : Nat) (p : Nat × Nat) : p ∈ lowerPairs m ↔ p.2 < p.1 ∧ p.1 < m := by
  obtain ⟨r, c⟩ := p
  simp only [lowerPairs, List.mem_flatMap, List.mem_range, List.mem_map, Prod.mk.injEq]
  constructor
  · rintro ⟨r', hr', c', hc', rfl, rfl⟩; exact ⟨hc', hr'⟩
  · rintro ⟨h1, h2⟩; exact ⟨r, h2, c, h1, rfl, rfl⟩

section
variable [Add α] [Sub α] [Mul α] [Div α] [OfNat α 0] [OfNat α 1] [LT α] [DecidableLT α] [FloatLike α]

/-- the two writes of one step of `symmetric_part` -/
def symStep (A : Dense α) (p : Nat × Nat) : MErr (List (Nat × α)) := do
  let x ← get .N A p.1 p.2
  let y ← get .N A p.2 p.1
  let v : α := half * (x + y)
  pure [(p.2 + A.m * p.1, v), (p.1 + A.m * p.2, v)]

theorem symmetricPart_unfold (A : Dense α) :
    symmetricPart A = if A.m != A.n then .error (.panic "symmetric_part: assert is_square") else
      ((lowerPairs A.m).mapM (symStep A)) >>= fun ws =>
        (applyWrites A.data ws.flatten) >>= fun d => pure { A with data := d } := by
  unfold symmetricPart symStep
  split <;> rfl

/-- [S] `symmetric_part` of a well-formed square matrix: off the diagonal entry `(i, j)` and
entry `(j, i)` both become `0.5·(A[r,c] + A[c,r])` with `r = max i j`, `c = min i j` (the order
in which the Rust code adds them); the diagonal is untouched; in particular the result is
symmetric -/
theorem symmetricPart_spec (A : Dense α) (hA : WF A) (hsq : A.m = A.n) :
    ∃ R, symmetricPart A = .ok R ∧ R.m = A.m ∧ R.n = A.n ∧ WF R ∧
      (∀ i, i < A.m → at? R i i = at? A i i) ∧
      (∀ r c, c < r → r < A.m → ∃ x y, at? A r c = some x ∧ at? A c r = some y ∧
        at? R r c = some (half * (x + y)) ∧ at? R c r = some (half * (x + y))) := by
  have hrd : ∀ i j, i < A.m → j < A.m → ∃ x, get .N A i j = .ok x ∧ at? A i j = some x := by
    intro i j hi hj
    obtain ⟨x, h1, h2⟩ := get_ok .N A hA (by simp) (i := i) (j := j) hi (by simpa [ncolsV, ← hsq] using hj)
    exact ⟨x, h1, h2⟩
  have hstep : ∀ p ∈ lowerPairs A.m, ∃ x y, get .N A p.1 p.2 = .ok x ∧ get .N A p.2 p.1 = .ok y ∧
      symStep A p = .ok [(p.2 + A.m * p.1, half * (x + y)), (p.1 + A.m * p.2, half * (x + y))] := by
    intro p hp
    obtain ⟨hc, hr⟩ := (lowerPairs_mem _ _).mp hp
    obtain ⟨x, hx, _⟩ := hrd p.1 p.2 hr (by omega)
    obtain ⟨y, hy, _⟩ := hrd p.2 p.1 (by omega) hr
    refine ⟨x, y, hx, hy, ?_⟩
    unfold symStep
    rw [hx]
    show (do let y ← get .N A p.2 p.1; pure _) = _
    rw [hy]; rfl
  obtain ⟨wss, hw1, _, _⟩ := mapM_exists (symStep A) (lowerPairs A.m) (fun p hp => by
    obtain ⟨x, y, _, _, h⟩ := hstep p hp; exact ⟨_, h⟩)
  obtain ⟨hm1, hm2⟩ := mapM_mem _ _ _ hw1
  -- every write comes from a pair
  have hwr : ∀ w ∈ wss.flatten, ∃ p ∈ lowerPairs A.m, ∃ x y, get .N A p.1 p.2 = .ok x ∧
      get .N A p.2 p.1 = .ok y ∧
      (w = (p.2 + A.m * p.1, half * (x + y)) ∨ w = (p.1 + A.m * p.2, half * (x + y))) := by
    intro w hw
    obtain ⟨ws, hws, hwws⟩ := List.mem_flatten.mp hw
    obtain ⟨p, hp, hfp⟩ := hm1 ws hws
    obtain ⟨x, y, hx, hy, hst⟩ := hstep p hp
    rw [hst] at hfp
    have : ws = [(p.2 + A.m * p.1, half * (x + y)), (p.1 + A.m * p.2, half * (x + y))] := by
      cases hfp; rfl
    subst this
    refine ⟨p, hp, x, y, hx, hy, ?_⟩
    simpa using hwws
  have hin : ∀ w ∈ wss.flatten, w.1 < A.data.size := by
    intro w hw
    obtain ⟨p, hp, x, y, _, _, hw'⟩ := hwr w hw
    obtain ⟨hc, hr⟩ := (lowerPairs_mem _ _).mp hp
    rw [hA]
    rcases hw' with rfl | rfl
    · exact lin_lt (by omega) (by omega)
    · exact lin_lt hr (by omega)
  obtain ⟨d', h1, h2, h3, h4⟩ := applyWrites_spec wss.flatten A.data hin
  refine ⟨{ A with data := d' }, ?_, rfl, rfl, ?_, ?_, ?_⟩
  · rw [symmetricPart_unfold]
    have : (A.m != A.n) = false := by simp [hsq]
    simp only [this, Bool.false_eq_true, ↓reduceIte, hw1]
    show (applyWrites A.data wss.flatten >>= fun d => pure { A with data := d }) = _
    rw [h1]; rfl
  · simp only [WF, h2]; exact hA
  · intro i hi
    simp only [at?]
    apply h3
    intro w hw hk
    obtain ⟨p, hp, x, y, _, _, hw'⟩ := hwr w hw
    obtain ⟨hc, hr⟩ := (lowerPairs_mem _ _).mp hp
    rcases hw' with rfl | rfl
    · have := lin_inj (by omega : p.2 < A.m) hi hk; omega
    · have := lin_inj hr hi hk; omega
  · intro r c hc hr
    obtain ⟨x, hx, hxat⟩ := hrd r c hr (by omega)
    obtain ⟨y, hy, hyat⟩ := hrd c r (by omega) hr
    have hp : (r, c) ∈ lowerPairs A.m := (lowerPairs_mem _ _).mpr ⟨hc, hr⟩
    obtain ⟨ws, hws, hfp⟩ := hm2 (r, c) hp
    obtain ⟨x', y', hx', hy', hst⟩ := hstep (r, c) hp
    simp only at hx' hy'
    rw [hx] at hx'; rw [hy] at hy'
    cases hx'; cases hy'
    rw [hst] at hfp
    have hwsE : ws = [(c + A.m * r, half * (x + y)), (r + A.m * c, half * (x + y))] := by
      cases hfp; rfl
    -- all writes to either position carry the same value
    have hval : ∀ w ∈ wss.flatten, (w.1 = r + A.m * c ∨ w.1 = c + A.m * r) → w.2 = half * (x + y) := by
      intro w hw hk
      obtain ⟨p, hp', x2, y2, hx2, hy2, hw'⟩ := hwr w hw
      obtain ⟨hc', hr'⟩ := (lowerPairs_mem _ _).mp hp'
      have hpe : p = (r, c) := by
        rcases hw' with rfl | rfl <;> rcases hk with hk | hk
        · have := lin_inj (by omega : p.2 < A.m) hr hk; omega
        · have := lin_inj (by omega : p.2 < A.m) (by omega : c < A.m) hk
          exact Prod.ext this.2 this.1
        · have := lin_inj hr' hr hk
          exact Prod.ext this.1 this.2
        · have := lin_inj hr' (by omega : c < A.m) hk; omega
      subst hpe
      simp only at hx2 hy2
      rw [hx] at hx2; rw [hy] at hy2
      cases hx2; cases hy2
      rcases hw' with rfl | rfl <;> rfl
    refine ⟨x, y, hxat, hyat, ?_, ?_⟩
    · simp only [at?]
      apply h4
      · exact ⟨(r + A.m * c, half * (x + y)), List.mem_flatten.mpr ⟨ws, hws, by simp [hwsE]⟩, rfl⟩
      · intro w hw hk; exact hval w hw (Or.inl hk)
    · simp only [at?]
      apply h4
      · exact ⟨(c + A.m * r, half * (x + y)), List.mem_flatten.mpr ⟨ws, hws, by simp [hwsE]⟩, rfl⟩
      · intro w hw hk; exact hval w hw (Or.inr hk)

end

/-! ### is_triu -/

theorem lowerPositions_mem (m n : Nat) (p : Nat × Nat) :
    p ∈ lowerPositions m n ↔ p.2 < n ∧ p.2 < p.1 ∧ p.1 < m := by
  obtain ⟨r, c⟩ := p
  simp only [lowerPositions, List.mem_flatMap, List.mem_range, List.mem_map, Prod.mk.injEq]
  constructor
  · rintro ⟨c', hc', k, hk, rfl, rfl⟩; omega
  · rintro ⟨h1, h2, h3⟩; exact ⟨c, h1, r - (c + 1), by omega, by omega, rfl⟩

theorem isTriu_fold [OfNat α 0] [BEq α] (A : Dense α) (l : List (Nat × Nat))
    (hl : ∀ p ∈ l, ∃ x, get .N A p.1 p.2 = .ok x) : ∀ acc : Bool,
    ∃ b, l.foldlM (fun (acc : Bool) p =>
        if !acc then (pure false : MErr Bool) else do
          let v ← get .N A p.1 p.2
          pure (v == 0)) acc = .ok b ∧
      (b = true ↔ acc = true ∧ ∀ p ∈ l, ∃ x, get .N A p.1 p.2 = .ok x ∧ (x == 0) = true) := by
  induction l with
  | nil => intro acc; exact ⟨acc, rfl, by simp⟩
  | cons p t ih =>
    intro acc
    rw [List.foldlM_cons]
    cases acc with
    | false =>
      obtain ⟨b, hb1, hb2⟩ := ih (fun q hq => hl q (List.mem_cons_of_mem _ hq)) false
      refine ⟨b, ?_, ?_⟩
      · simpa using hb1
      · rw [hb2]; simp
    | true =>
      obtain ⟨x, hx⟩ := hl p (by simp)
      obtain ⟨b, hb1, hb2⟩ := ih (fun q hq => hl q (List.mem_cons_of_mem _ hq)) (x == 0)
      refine ⟨b, ?_, ?_⟩
      · simp only [Bool.not_true, Bool.false_eq_true, ↓reduceIte, hx]
        exact hb1
      · rw [hb2]
        constructor
        · rintro ⟨h0, ht⟩
          refine ⟨rfl, ?_⟩
          intro q hq
          rcases List.mem_cons.mp hq with rfl | hq'
          · exact ⟨x, hx, h0⟩
          · exact ht q hq'
        · rintro ⟨_, ht⟩
          obtain ⟨x', hx', h0⟩ := ht p (by simp)
          rw [hx] at hx'; cases hx'
          exact ⟨h0, fun q hq => ht q (List.mem_cons_of_mem _ hq)⟩

/-- [S] `is_triu` of a well-formed matrix: `true` exactly when every strictly lower entry
compares equal to zero (`!= 0` is false; a NaN makes it `false`) -/
theorem isTriu_iff [OfNat α 0] [BEq α] (A : Dense α) (hA : WF A) :
    ∃ b, isTriu A = .ok b ∧
      (b = true ↔ ∀ r c, c < A.n → c < r → r < A.m → ∃ x, at? A r c = some x ∧ (x == 0) = true) := by
  have hl : ∀ p ∈ lowerPositions A.m A.n, ∃ x, get .N A p.1 p.2 = .ok x := by
    intro p hp
    obtain ⟨h1, h2, h3⟩ := (lowerPositions_mem _ _ _).mp hp
    obtain ⟨x, hx, _⟩ := get_ok .N A hA (by simp) (i := p.1) (j := p.2) h3 h1
    exact ⟨x, hx⟩
  obtain ⟨b, hb1, hb2⟩ := isTriu_fold A _ hl true
  refine ⟨b, hb1, ?_⟩
  rw [hb2]
  constructor
  · rintro ⟨_, h⟩ r c hc hcr hr
    obtain ⟨x, hx, h0⟩ := h (r, c) ((lowerPositions_mem _ _ _).mpr ⟨hc, hcr, hr⟩)
    exact ⟨x, (get_eq_ok_iff .N A r c x).mp hx, h0⟩
  · intro h
    refine ⟨rfl, ?_⟩
    intro p hp
    obtain ⟨h1, h2, h3⟩ := (lowerPositions_mem _ _ _).mp hp
    obtain ⟨x, hx, h0⟩ := h p.1 p.2 h1 h2 h3
    exact ⟨x, (get_eq_ok_iff .N A p.1 p.2 x).mpr hx, h0⟩

end Clarabel.Dense
