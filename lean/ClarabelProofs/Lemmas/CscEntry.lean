/-
  Helper lemmas for C16: `get_entry` / `set_entry` on one sorted column.
-/
import ClarabelProofs.Lemmas.CscBasic

namespace Clarabel.Csc
open Clarabel.C16

variable {α : Type}

/-- what `set_entry` does to the column (flag: the position was already stored) -/
def upsert (r : Nat) (v : α) : List (Nat × α) → Bool × List (Nat × α)
  | [] => (false, [(r, v)])
  | e :: t =>
    if e.1 < r then ((upsert r v t).1, e :: (upsert r v t).2)
    else if e.1 = r then (true, (r, v) :: t)
    else (false, (r, v) :: e :: t)

/-- the index arithmetic of `set_entry` (partition point, overwrite or insert) is `upsert` -/
theorem setCol_eq_upsert (c : List (Nat × α)) (r : Nat) (v : α) :
    let i := (c.takeWhile (fun e => decide (e.1 < r))).length
    let found := rowAt c i r
    found = (upsert r v c).1 ∧
    (if found then c.take i ++ (r, v) :: c.drop (i + 1) else c.take i ++ (r, v) :: c.drop i)
      = (upsert r v c).2 := by
  induction c with
  | nil => simp [upsert, rowAt]
  | cons e t ih =>
    unfold rowAt at ih ⊢
    by_cases h1 : e.1 < r
    · simp only [List.takeWhile_cons, h1, decide_true, ↓reduceIte, List.length_cons,
        List.getElem?_cons_succ, List.take_succ_cons, List.drop_succ_cons, List.cons_append, upsert]
      obtain ⟨ih1, ih2⟩ := ih
      refine ⟨ih1, ?_⟩
      rw [← ih2]
      split_ifs <;> rfl
    · by_cases h2 : e.1 = r
      · simp [List.takeWhile_cons, h1, upsert, h2]
      · simp [List.takeWhile_cons, h1, upsert, h2]

theorem find_upsert_self (r : Nat) (v : α) (c : List (Nat × α)) :
    (upsert r v c).2.find? (fun e => e.1 == r) = some (r, v) := by
  induction c with
  | nil => simp [upsert]
  | cons e t ih =>
    unfold upsert
    by_cases h1 : e.1 < r
    · have : (e.1 == r) = false := by simp; omega
      simp [h1, List.find?_cons, this, ih]
    · by_cases h2 : e.1 = r <;> simp [h1, h2, List.find?_cons]

theorem find_upsert_other (r : Nat) (v : α) (c : List (Nat × α)) (i : Nat) (hi : i ≠ r) :
    (upsert r v c).2.find? (fun e => e.1 == i) = c.find? (fun e => e.1 == i) := by
  have hri : (r == i) = false := by simp; omega
  induction c with
  | nil => simp [upsert, List.find?_cons, hri]
  | cons e t ih =>
    unfold upsert
    by_cases h1 : e.1 < r
    · simp only [h1, ↓reduceIte, List.find?_cons, ih]
    · by_cases h2 : e.1 = r
      · have : (e.1 == i) = false := by simp; omega
        simp [h1, h2, List.find?_cons, hri, this]
      · simp [h1, h2, List.find?_cons, hri]

theorem find_none_of_upsert_false (r : Nat) (v : α) (c : List (Nat × α))
    (hs : (c.map (·.1)).Pairwise (· < ·)) (h : (upsert r v c).1 = false) :
    c.find? (fun e => e.1 == r) = none := by
  induction c with
  | nil => rfl
  | cons e t ih =>
    simp only [List.map_cons, List.pairwise_cons] at hs
    unfold upsert at h
    by_cases h1 : e.1 < r
    · simp only [h1, ↓reduceIte] at h
      have : (e.1 == r) = false := by simp; omega
      simp [List.find?_cons, this, ih hs.2 h]
    · by_cases h2 : e.1 = r
      · rw [if_neg h1, if_pos h2] at h
        simp at h
      · rw [List.find?_eq_none]
        intro x hx
        rcases List.mem_cons.mp hx with rfl | hx
        · simpa using h2
        · have := hs.1 x.1 (List.mem_map_of_mem hx)
          simp; omega

theorem find_some_of_upsert_true (r : Nat) (v : α) (c : List (Nat × α))
    (h : (upsert r v c).1 = true) : ∃ w, c.find? (fun e => e.1 == r) = some (r, w) := by
  induction c with
  | nil => simp [upsert] at h
  | cons e t ih =>
    unfold upsert at h
    by_cases h1 : e.1 < r
    · simp only [h1, ↓reduceIte] at h
      have : (e.1 == r) = false := by simp; omega
      obtain ⟨w, hw⟩ := ih h
      exact ⟨w, by simp [List.find?_cons, this, hw]⟩
    · by_cases h2 : e.1 = r
      · refine ⟨e.2, ?_⟩
        have hb : (e.1 == r) = true := by simpa using h2
        rw [List.find?_cons, hb]
        simp only
        congr 1
        exact Prod.ext h2 rfl
      · rw [if_neg h1, if_neg h2] at h
        simp at h

theorem colOK_upsert (m r : Nat) (v : α) (c : List (Nat × α)) (hr : r < m) (h : ColOK m c) :
    ColOK m (upsert r v c).2 := by
  induction c with
  | nil => exact ⟨by simp [upsert], by simp [upsert]; exact hr⟩
  | cons e t ih =>
    obtain ⟨hs, hb⟩ := h
    simp only [List.map_cons, List.pairwise_cons] at hs
    have iht := ih ⟨hs.2, fun x hx => hb x (List.mem_cons_of_mem _ hx)⟩
    unfold upsert
    by_cases h1 : e.1 < r
    · simp only [h1, ↓reduceIte]
      refine ⟨?_, ?_⟩
      · simp only [List.map_cons, List.pairwise_cons]
        refine ⟨?_, iht.1⟩
        intro a ha
        -- rows of the upserted tail are rows of the tail or `r`
        have key : ∀ (l : List (Nat × α)) (a : Nat), a ∈ ((upsert r v l).2).map (·.1) →
            a = r ∨ a ∈ l.map (·.1) := by
          intro l
          induction l with
          | nil => intro a ha; simp [upsert] at ha; exact Or.inl ha
          | cons y ys ihy =>
            intro a ha
            unfold upsert at ha
            by_cases g1 : y.1 < r
            · simp only [g1, ↓reduceIte, List.map_cons, List.mem_cons] at ha
              rcases ha with rfl | ha
              · exact Or.inr (by simp)
              · rcases ihy a ha with h | h
                · exact Or.inl h
                · exact Or.inr (by simp [h])
            · by_cases g2 : y.1 = r
              · rw [if_neg g1, if_pos g2] at ha
                simp only [List.map_cons, List.mem_cons] at ha
                rcases ha with rfl | ha
                · exact Or.inl rfl
                · exact Or.inr (by simp [ha])
              · rw [if_neg g1, if_neg g2] at ha
                simp only [List.map_cons, List.mem_cons] at ha
                rcases ha with rfl | rfl | ha
                · exact Or.inl rfl
                · exact Or.inr (by simp)
                · exact Or.inr (by simp [ha])
        rcases key t a ha with rfl | ha
        · exact h1
        · exact hs.1 a ha
      · intro x hx
        rcases List.mem_cons.mp hx with rfl | hx
        · exact hb _ (by simp)
        · exact iht.2 x hx
    · by_cases h2 : e.1 = r
      · rw [if_neg h1, if_pos h2]
        refine ⟨?_, ?_⟩
        · simp only [List.map_cons, List.pairwise_cons]
          exact ⟨fun a ha => by have := hs.1 a ha; omega, hs.2⟩
        · intro x hx
          rcases List.mem_cons.mp hx with rfl | hx
          · exact hr
          · exact hb x (List.mem_cons_of_mem _ hx)
      · rw [if_neg h1, if_neg h2]
        refine ⟨?_, ?_⟩
        · simp only [List.map_cons, List.pairwise_cons, List.mem_cons, forall_eq_or_imp]
          exact ⟨⟨by omega, fun a ha => by have := hs.1 a ha; omega⟩, hs.1, hs.2⟩
        · intro x hx
          rcases List.mem_cons.mp hx with rfl | hx
          · exact hr
          · exact hb x hx

end Clarabel.Csc
