/-
  C19 ∘ C04 (round 5): a record accepted by `load_from_file`'s validation (`JsonLoad.loadRecord`)
  is well-formed input (`Solver.InputOK`) of the whole-solver model's `DefaultSolver::new`
  (`Solver.new`), passes every construction guard (`NewGuards.newGuards`), and — for zero /
  nonnegative / second-order cone lists — makes `Solver.new` return a solver object.

  * `inputOK_of_newPre`     : `NewPre` (C19) ⇒ `InputOK` (C04).
  * `newGuards_of_newPre`   : `NewPre` ⇒ `newGuards … = .ok ()` (all seven cone kinds).
  * `solverNew_ok_of_modelled` : `InputOK`, modelled cone kinds, `0 < n`, `PermFor`, `PivotOK`
                              ⇒ `Solver.new … = .ok S` (totality; C04 only states `NoPanic`).
-/
import ClarabelProofs.Lemmas.JsonLoad
import ClarabelProofs.Lemmas.LoopGuards
import ClarabelProofs.Lemmas.SolverModelNoPanicC04
import ClarabelProofs.Lemmas.SolverModelNoPanicExample
import ClarabelProofs.Props.C04NoPanic

namespace Clarabel.JsonLoad
open Clarabel Clarabel.Cones Clarabel.Json

set_option linter.unusedSectionVars false

variable {α γ : Type}

section pre
variable [Add α] [Sub α] [Mul α] [Div α] [Neg α] [LT α] [LE α] [DecidableLT α] [DecidableLE α]
  [BEq α] [OfNat α 0] [OfNat α 1] [OfNat α 2] [OfNat α 3] [OfScientific α] [FloatLike α]

/-- C19's preconditions are C04's well-formed input -/
theorem inputOK_of_newPre {ft : Features} {inp : SolverInput α γ} (h : NewPre ft inp) :
    Solver.InputOK inp.P inp.q inp.A inp.b inp.cones where
  P_canon := h.canonP
  P_sq := h.squareP
  A_canon := h.canonA
  A_n := h.colsA.trans h.colsP.symm
  q := h.colsP.symm
  b := h.rowsA.symm
  cones := h.numel.trans h.rowsA.symm

/-- an accepted record passes every construction guard of `DefaultSolver::new`: the five
asserts of `_check_dimensions` and the assertions of every cone constructor reached after
`new_collapsed` (`SecondOrderCone::new`'s `dim >= 2`, `GenPowerConeData::new`'s two) — for all
seven cone kinds -/
theorem newGuards_of_newPre {ft : Features} {inp : SolverInput α γ} (h : NewPre ft inp) :
    NewGuards.newGuards inp.P.m inp.P.n inp.q.size inp.A.m inp.A.n inp.b.size inp.cones = .ok () := by
  rw [NewGuards.newGuards_ok_iff]
  refine ⟨⟨h.rowsA.symm, ?_, h.colsA.symm, h.colsP.symm, h.squareP⟩, fun al d hm _ => h.genpow al d hm⟩
  rw [Solver.foldl_nvars_eq_numel, h.numel]; omega

end pre

end Clarabel.JsonLoad

namespace Clarabel.Solver
open Clarabel Info Residuals

set_option linter.unusedSectionVars false

variable {α : Type}
variable [Add α] [Sub α] [Mul α] [Div α] [Neg α] [OfNat α 0] [OfNat α 1] [OfNat α 2]
  [OfNat α 100] [OfNat α 1000] [LT α] [DecidableLT α] [LE α] [DecidableLE α] [BEq α] [FloatLike α]

/-- [S] **`DefaultSolver::new` is total** (QDLDL backend) on well-formed input whose cones are
zero / nonnegative / second-order cones (any dimensions): it returns a solver object, and that
object satisfies the invariant of `solve()`. -/
theorem solverNew_ok_of_modelled {P : Csc α} {q : Array α} {A : Csc α} {b : Array α}
    {cones : List (ConeT α)} {st : Settings α} {perm : Array Nat} (hin : InputOK P q A b cones)
    (hm : ∀ c ∈ cones, ConeT.modelled c)
    (hn : 0 < P.n) (hperm : PermFor P q A b cones st perm) (hpiv : PivotOK st.lin) :
    ∃ S, Solver.new P q A b cones st perm = .ok S ∧ SolverInvQ S := by
  obtain ⟨d, hd⟩ := internalData_ok (st := st) hin hm
  obtain ⟨hdok, hdn, K, hK, hnum⟩ := internalData_dataOK hin hd
  have hdn' : d.n = P.n := hdn.trans hin.A_n
  obtain ⟨Ks, hKs, _⟩ := kktSolverNew_ok (st := st.lin) hdok (makeCones_full hK) hnum
    (hperm d K hd hK) (by omega) hpiv
  have hnew : ∃ S, Solver.new P q A b cones st perm = .ok S := by
    unfold Solver.new
    rw [bind_ok_of (checkDimensions_ok hin)]
    unfold SolverSt.new
    rw [bind_ok_of hd, bind_ok_of hK]
    unfold KktSys.new
    dsimp only
    rw [bind_ok_of hKs]
    exact ⟨_, rfl⟩
  obtain ⟨S, hS⟩ := hnew
  exact ⟨S, hS, solverNew_invQ hin hn hperm hpiv hS⟩

end Clarabel.Solver

/-! ### non-vacuity data: the kernel-evaluable example of the whole-solver model as a file record -/
namespace Clarabel.JsonLoad.ExampleInt
open Clarabel Clarabel.Json Clarabel.JsonLoad Clarabel.Solver.Example

attribute [local instance] intFloatLike

/-- scientific literals at the example scalar type (only `0.5` of the exponent test, which the
example — no generalized power cone — never evaluates) -/
@[reducible] def intOfScientific : OfScientific Int := ⟨fun m _ _ => (m : Int)⟩

attribute [local instance] intOfScientific

def exSettingsInt : LSettings Int Unit :=
  { timeLimit := .infinity,
    rest := { directSolveMethod := "qdldl", mergeMethod := "none", presolveEnable := false,
              chordalEnable := false, other := () } }

/-- the example problem of `SolverModelExample.lean` (`min x  s.t.  x + s = 1, s ≥ 0`, `P = 0`) as a
parsed file -/
def exRecordInt : Record Int Unit :=
  { P := Solver.Example.P, q := #[1], A := Solver.Example.A, b := #[1], cones := [.nonneg 1],
    settings := exSettingsInt }

theorem exSettingsInt_valid : validateSettings exFeatures exSettingsInt = .ok () := by
  simp [validateSettings, validDirectSolveMethod, validMergeMethod, exSettingsInt, exFeatures]

theorem exRecordInt_loads : loadRecord exFeatures exRecordInt none = .ok (inputOf exRecordInt none) :=
  (loadRecord_cases exFeatures exRecordInt none).2.2.2.2.2 (by decide) (by decide) exSettingsInt_valid rfl
    (by decide)

end Clarabel.JsonLoad.ExampleInt
