/-
  Clique-graph merge strategy, `post_process_merge` WHEN AT LEAST TWO CLIQUES ARE LEFT, part 1:
  the run (`ClarabelModel/Chordal/MergeCG.lean`, Rust `clique_graph.rs`).

  * `cliqueIntersections_ok` : `clique_intersections` never panics on a well-formed edge matrix,
    keeps the pattern, and writes cardinalities (no value `-1`);
  * `CGTree` : what `kruskal` + `determine_parent_cliques` leave in `snode_parent`;
  * `cgpm_tree` : both succeed under the loop invariant `CGInv` (via
    `kruskal_determineParentCliques`);
  * `CGPostDesc`, `post_multi_run` : `post_process_merge` DOES NOT PANIC and the explicit
    description of the tree it returns (parents, children, post-order, separators =
    clique ∩ parent clique, supernodes = clique \ parent clique, all sets sorted).
-/
import ClarabelProofs.Lemmas.ChordalCGSpecs
import ClarabelProofs.Lemmas.ChordalSplit

namespace Clarabel.Chordal
open Clarabel

/-! ## `clique_intersections` -/

/-- the body of the inner loop of `clique_intersections` -/
def ciInner (E : IMat) (snd : Array VSet) (col j : Nat) (nz : Array Int) :
    MErr (ForInStep (Array Int)) := do
  let row ← getE E.rowval j "clique_intersections"
  let sr ← getE snd row "clique_intersections"
  let sc ← getE snd col "clique_intersections"
  let nz ← setE nz j (Int.ofNat (intersectDim sr sc)) "clique_intersections"
  pure (.yield nz)

/-- the body of the outer loop of `clique_intersections` -/
def ciOuter (E : IMat) (snd : Array VSet) (col : Nat) (nz : Array Int) :
    MErr (ForInStep (Array Int)) := do
  let lo ← getE E.colptr col "clique_intersections"
  let hi ← getE E.colptr (col + 1) "clique_intersections"
  let nz ← forIn (List.range' lo (hi - lo)) nz (ciInner E snd col)
  pure (.yield nz)

/-- the first `b` values are cardinalities (`≥ 0`), and the length is `S` -/
def CiInv (S b : Nat) (nz : Array Int) : Prop := nz.size = S ∧ ∀ k, k < b → 0 ≤ nz.getD k 0

/-- [S] the inner loop of `clique_intersections` writes a cardinality at every visited position -/
theorem forIn_ciInner {E : IMat} (h : E.WFE) {snd : Array VSet} (hsz : E.n ≤ snd.size) {col : Nat}
    (hcol : col < E.n) (len : Nat) :
    ∀ (i : Nat) (nz : Array Int), i + len ≤ E.rowval.size → CiInv E.rowval.size i nz →
      ∃ nz', forIn (List.range' i len) nz (ciInner E snd col) = .ok nz' ∧
        CiInv E.rowval.size (i + len) nz' := by
  induction len with
  | zero => intro i nz _ hinv; exact ⟨nz, rfl, hinv⟩
  | succ len ih =>
    intro i nz hi hinv
    rw [List.range'_succ, List.forIn_cons]
    have hrow := h.rows i (by omega)
    simp only [ciInner, Kr.getE_ok E.rowval i _ 0 (by omega),
      Kr.getE_ok snd (E.rowval.getD i 0) _ #[] (by omega), Kr.getE_ok snd col _ #[] (by omega),
      Kr.setE_ok nz i _ _ (by rw [hinv.1]; omega), bind, Except.bind, pure, Except.pure]
    have hinv1 : CiInv E.rowval.size (i + 1) (nz.setIfInBounds i
        (Int.ofNat (intersectDim (snd.getD (E.rowval.getD i 0) #[]) (snd.getD col #[])))) := by
      refine ⟨by simpa using hinv.1, ?_⟩
      intro k hk
      have hisz : i < nz.size := by rw [hinv.1]; omega
      by_cases e : i = k
      · subst e
        simp only [Array.getD_eq_getD_getElem?, Array.getElem?_setIfInBounds_self_of_lt hisz,
          Option.getD_some]
        exact Int.natCast_nonneg _
      · simp only [Array.getD_eq_getD_getElem?, Array.getElem?_setIfInBounds_ne e]
        have := hinv.2 k (by omega)
        simpa only [Array.getD_eq_getD_getElem?] using this
    obtain ⟨nz', hrun, hinv'⟩ := ih (i + 1) _ (by omega) hinv1
    exact ⟨nz', hrun, by rw [show i + (len + 1) = i + 1 + len by omega]; exact hinv'⟩

/-- [S] the outer loop of `clique_intersections` -/
theorem forIn_ciOuter {E : IMat} (h : E.WFE) {snd : Array VSet} (hsz : E.n ≤ snd.size) (len : Nat) :
    ∀ (c : Nat) (nz : Array Int), c + len ≤ E.n → CiInv E.rowval.size (E.colptr.getD c 0) nz →
      ∃ nz', forIn (List.range' c len) nz (ciOuter E snd) = .ok nz' ∧
        CiInv E.rowval.size (E.colptr.getD (c + len) 0) nz' := by
  induction len with
  | zero => intro c nz _ hinv; exact ⟨nz, rfl, hinv⟩
  | succ len ih =>
    intro c nz hc hinv
    rw [List.range'_succ, List.forIn_cons]
    have hm := h.mono c (by omega)
    have hle : E.colptr.getD (c + 1) 0 ≤ E.rowval.size := by
      rw [← h.nnz_row]; exact colptr_mono h E.n (Nat.le_refl _) (c + 1) (by omega)
    obtain ⟨nz1, hrun1, hinv1⟩ := forIn_ciInner h hsz (show c < E.n by omega)
      (E.colptr.getD (c + 1) 0 - E.colptr.getD c 0) (E.colptr.getD c 0) nz (by omega) hinv
    simp only [ciOuter, Kr.getE_ok E.colptr c _ 0 (by have := h.cpsize; omega),
      Kr.getE_ok E.colptr (c + 1) _ 0 (by have := h.cpsize; omega), bind, Except.bind, pure,
      Except.pure, hrun1]
    rw [show E.colptr.getD c 0 + (E.colptr.getD (c + 1) 0 - E.colptr.getD c 0) =
      E.colptr.getD (c + 1) 0 by omega] at hinv1
    obtain ⟨nz', hrun, hinv'⟩ := ih (c + 1) nz1 (by omega) hinv1
    exact ⟨nz', hrun, by rw [show c + (len + 1) = c + 1 + len by omega]; exact hinv'⟩

/-- [S] `clique_intersections` with its two `for` loops turned into `forIn` over lists (no
hypotheses) -/
theorem cliqueIntersections_eq_forIn (E : IMat) (snd : Array VSet) :
    cliqueIntersections E snd = (do
      let nz ← forIn (List.range' 0 E.n) E.nzval (ciOuter E snd)
      pure { E with nzval := nz }) := by
  unfold cliqueIntersections
  simp only [Std.Legacy.Range.forIn_eq_forIn_range', Std.Legacy.Range.size, Nat.sub_zero,
    Nat.add_sub_cancel, Nat.div_one]
  rfl

/-- [S] **`clique_intersections`** on a well-formed edge matrix whose indices address stored
cliques: no panic, only the values change (the pattern `colptr`/`rowval` is kept), and every new
value is a cardinality — in particular none is `-1` -/
theorem cliqueIntersections_ok {E : IMat} (h : E.WFE) {snd : Array VSet} (hsz : E.n ≤ snd.size) :
    ∃ nz, cliqueIntersections E snd = .ok { E with nzval := nz } ∧ nz.size = E.rowval.size ∧
      ∀ k, k < nz.size → 0 ≤ nz.getD k 0 := by
  obtain ⟨nz, hrun, hsize, hpos⟩ := forIn_ciOuter h hsz E.n 0 E.nzval (by omega)
    ⟨h.nnz_val, fun k hk => by rw [h.cp0] at hk; omega⟩
  refine ⟨nz, ?_, hsize, ?_⟩
  · rw [cliqueIntersections_eq_forIn, hrun]; rfl
  · intro k hk
    rw [Nat.zero_add, h.nnz_row] at hpos
    exact hpos k (hsize ▸ hk)


/-! ## the hypotheses of `kruskal_determineParentCliques` -/

/-- [S] membership through `getD` forces the index in range and the set non-empty -/
theorem cgpm_live_of_mem {t : SuperNodeTree} {c v : Nat} (hv : v ∈ (t.snode.getD c #[]).toList) :
    CGLive t c := by
  refine ⟨?_, ?_⟩
  · by_contra hc
    have : t.snode.getD c #[] = #[] := by simp [Array.getD, hc]
    rw [this] at hv; simp at hv
  · intro he; rw [he] at hv; simp at hv

/-- [S] every edge of a well-formed strictly lower triangular matrix is a stored entry -/
theorem cgpm_edge_entry {E : IMat} (h : E.WFE) (hl : E.Lower) {e : Nat × Nat} (he : e ∈ E.edges) :
    (E.entry e.1 e.2).isSome = true := by
  unfold IMat.edges at he
  obtain ⟨k, hk, rfl⟩ := List.mem_map.1 he
  have hk' : k < E.rowval.size := List.mem_range.1 hk
  have hcol : E.colIdx.getD k 0 < E.n := by
    have hlen := colIdx_length h
    have : E.colIdx.getD k 0 = E.colIdx[k]'(by omega) := by
      simp [List.getD, List.getElem?_eq_getElem (show k < E.colIdx.length by omega)]
    rw [this]; exact colIdx_lt _ (List.getElem_mem _)
  have := (entry_eq_some_iff h hl hcol (E.nzval.getD k 0)).2 ⟨k, hk', rfl, rfl, rfl⟩
  simp only [this, Option.isSome_some]

/-- [S] THE ROOT CLIQUE IS LIVE: if the vertex `v0` lies in some clique, the first clique containing
it (the root picked by `determine_parent_cliques`) is live and contains `v0` -/
theorem cgpm_root_live {t : SuperNodeTree} {v0 c0 : Nat} (hv : v0 ∈ (t.snode.getD c0 #[]).toList) :
    (t.snode.findIdx? (fun clique => clique.contains v0)).isSome = true ∧
      CGLive t (dpcRoot t.snode v0) ∧ v0 ∈ (t.snode.getD (dpcRoot t.snode v0) #[]).toList := by
  have hc0 := (cgpm_live_of_mem hv).1
  have hsome : (t.snode.findIdx? (fun clique => clique.contains v0)).isSome = true := by
    rw [Array.findIdx?_isSome]
    refine Array.any_eq_true.2 ⟨c0, hc0, ?_⟩
    have : t.snode.getD c0 #[] = t.snode[c0] := by simp [Array.getD, hc0]
    rw [this] at hv
    simpa using hv
  obtain ⟨k, hk⟩ := Option.isSome_iff_exists.1 hsome
  obtain ⟨hlt, hp, _⟩ := Array.findIdx?_eq_some_iff_getElem.1 hk
  have hroot : dpcRoot t.snode v0 = k := by unfold dpcRoot; rw [hk]; rfl
  have hmem : v0 ∈ (t.snode.getD k #[]).toList := by
    have : t.snode.getD k #[] = t.snode[k] := by simp [Array.getD, hlt]
    rw [this]; simpa using hp
  rw [hroot]
  exact ⟨hsome, cgpm_live_of_mem hmem, hmem⟩


/-- [S] reading a constant array -/
theorem cgpm_getD_replicate {β : Type} (n : Nat) (a d : β) (i : Nat) (hi : i < n) :
    (Array.replicate n a).getD i d = a := by
  simp [Array.getD_eq_getD_getElem?, hi]

/-! ## the parent array as a tree on the live cliques -/

/-- the parent array `par` makes the cliques `Lv` a tree rooted at `r`; all other stored cliques
carry the marker `INACTIVE_NODE` -/
structure CGTree (N : Nat) (Lv : List Nat) (r : Nat) (par : Array Nat) : Prop where
  size : par.size = N
  small : N < inactiveNode
  lt : ∀ c ∈ Lv, c < N
  root_mem : r ∈ Lv
  root_par : par.getD r 0 = noParent
  par_mem : ∀ c ∈ Lv, c ≠ r → par.getD c 0 ∈ Lv
  dead : ∀ c, c < N → c ∉ Lv → par.getD c 0 = inactiveNode
  reaches : ∀ c ∈ Lv, Reaches par r c

namespace CGTree
variable {N : Nat} {Lv : List Nat} {r : Nat} {par : Array Nat}

/-- [S] an index is not a marker -/
theorem ne_markers (h : CGTree N Lv r par) {c : Nat} (hc : c ∈ Lv) :
    c ≠ inactiveNode ∧ c ≠ noParent := by
  have := h.lt c hc; have := h.small
  have : inactiveNode < noParent := by decide
  omega

/-- [S] the live cliques are those whose parent entry is not `INACTIVE_NODE` -/
theorem live_iff (h : CGTree N Lv r par) (c : Nat) :
    (c < par.size ∧ par.getD c 0 ≠ inactiveNode) ↔ c ∈ Lv := by
  constructor
  · rintro ⟨h1, h2⟩
    by_contra hc
    exact h2 (h.dead c (h.size ▸ h1) hc)
  · intro hc
    refine ⟨h.size ▸ h.lt c hc, ?_⟩
    by_cases e : c = r
    · rw [e, h.root_par]; decide
    · exact (h.ne_markers (h.par_mem c hc e)).1

/-- [S] the root is the only live clique without parent -/
theorem root_iff (h : CGTree N Lv r par) {c : Nat} (hc : c ∈ Lv) :
    par.getD c 0 = noParent ↔ c = r := by
  constructor
  · intro hp
    by_contra e
    exact (h.ne_markers (h.par_mem c hc e)).2 hp
  · rintro rfl; exact h.root_par

/-- [S] only live cliques reach the root -/
theorem mem_of_reaches (h : CGTree N Lv r par) {c : Nat} (hc : Reaches par r c) : c ∈ Lv := by
  induction hc with
  | root => exact h.root_mem
  | @step c hlt _ ih =>
    by_contra hcn
    have := h.dead c (h.size ▸ hlt) hcn
    rw [this] at ih
    exact (h.ne_markers ih).1 rfl

/-- [S] `post_order` finds the root: it is the first (and only) entry `NO_PARENT` -/
theorem findIdx (h : CGTree N Lv r par) :
    par.toList.findIdx? (· == noParent) = some r := by
  have hr : r < par.size := h.size ▸ h.lt r h.root_mem
  obtain ⟨r', hf, hlt, hp⟩ := pcl_findIdx_root par hr h.root_par
  have hmem : r' ∈ Lv := by
    apply (h.live_iff r').1
    exact ⟨hlt, by rw [hp]; decide⟩
  rw [hf, (h.root_iff hmem).1 hp]

end CGTree

/-- [S] a climb in the oriented spanning tree is a `Reaches` path of the parent array -/
theorem cgpm_reaches_of_climb {Lv : List Nat} {r : Nat} {par : Array Nat} {N : Nat}
    (hsz : par.size = N) (hlt : ∀ c ∈ Lv, c < N)
    (hpe : ∀ w ∈ Lv, w ∉ [r] → par.getD w 0 ∈ Lv)
    {w r' : Nat} (h : TreeClimb (fun v => par.getD v 0) [r] w r') (hw : w ∈ Lv) :
    Reaches par r w := by
  induction h with
  | @base w hm =>
    have : w = r := by simpa using hm
    rw [this]; exact Reaches.root
  | @step w r' hn _ ih =>
    exact Reaches.step (hsz ▸ hlt w hw) (ih (hpe w hw hn))

/-- [S] **the clique tree from the clique graph**: under the loop invariant with at least two live
cliques, `clique_intersections`, `kruskal` and `determine_parent_cliques` do not panic, and the
parent array is a tree on the live cliques rooted at the first clique containing `v0`, the
children sets being its inverse -/
theorem cgpm_tree {N nv : Nat} {s : CGStrategy} {t : SuperNodeTree} (hinv : CGInv N nv s t)
    (h2 : 2 ≤ t.nCliques) (hch : t.snodeChildren = Array.replicate N #[])
    {v0 c0 : Nat} (hpost : t.post.back? = some v0) (hv0 : v0 ∈ (t.snode.getD c0 #[]).toList) :
    ∃ nz E2 par' ch',
      cliqueIntersections s.edges t.snode = .ok { s.edges with nzval := nz } ∧
      kruskal { s.edges with nzval := nz } t.nCliques = .ok E2 ∧
      determineParentCliques (Array.replicate t.snode.size inactiveNode) t.snodeChildren t.snode
        t.post E2 = .ok (par', ch') ∧
      CGTree N (cgLiveList t) (dpcRoot t.snode v0) par' ∧ ChildrenOf par' ch' := by
  have hwf := hinv.good.wfe
  have hlow := hinv.good.lower
  obtain ⟨nz, hci, hnzs, hnzp⟩ := cliqueIntersections_ok hwf (snd := t.snode)
    (by rw [hinv.en, hinv.sz])
  have hwf1 : ({ s.edges with nzval := nz } : IMat).WFE :=
    ⟨hwf.cpsize, hwf.cp0, hwf.mono, hwf.nnz_row, hnzs, hwf.rows⟩
  have hlow1 : ({ s.edges with nzval := nz } : IMat).Lower := ⟨hlow.sq, hlow.lower, hlow.nodup⟩
  have hLlt : ∀ v ∈ cgLiveList t, v < N := fun v hv =>
    hinv.sz ▸ ((mem_cgLiveList t v).1 hv).1
  have hsm := hinv.small
  have hmk : inactiveNode < noParent := by decide
  obtain ⟨hsome, hrl, _⟩ := cgpm_root_live hv0
  obtain ⟨E2, par', ch', hkr, hdpc, hps, hcs, _, hor, hrp, hoth, hkids, hnd⟩ :=
    kruskal_determineParentCliques (E := { s.edges with nzval := nz }) hwf1 hlow1
      (numCliques := t.nCliques) (by omega)
      (fun k hk e => by have := hnzp k hk; rw [e] at this; omega)
      (Lv := cgLiveList t) (cgLiveList_nodup t) hinv.ncl.symm
      (fun v hv => by show v < s.edges.n; rw [hinv.en]; exact hLlt v hv)
      (fun e he => by
        have := hinv.edge_live e.1 e.2 (cgpm_edge_entry hwf hlow he)
        exact ⟨(mem_cgLiveList t _).2 this.1, (mem_cgLiveList t _).2 this.2⟩)
      (fun u hu v hv => hinv.conn u v ((mem_cgLiveList t u).1 hu) ((mem_cgLiveList t v).1 hv))
      (par0 := Array.replicate t.snode.size inactiveNode) (ch0 := t.snodeChildren)
      (cliques := t.snode) (post := t.post) (v0 := v0)
      (by show _ = s.edges.n; rw [hinv.en, hinv.sz]; simp)
      (by show _ = s.edges.n; rw [hinv.en, hch]; simp)
      hpost ((mem_cgLiveList t _).2 hrl)
      (fun v hv w hw => by
        rw [cgpm_getD_replicate _ _ _ _ (by rw [hinv.sz]; exact hLlt w hw)]
        have := hLlt v hv; omega)
      (fun v hv => by have := hLlt v hv; omega)
      (fun c hc => by
        rw [hch, cgpm_getD_replicate _ _ _ _ (by rw [← hinv.en]; exact hc)]; simp)
  have hn : ({ s.edges with nzval := nz } : IMat).n = N := hinv.en
  rw [hn] at hps hcs hkids hnd
  rw [hsome, if_pos rfl] at hrp
  have hoth' : ∀ c, c < N → c ∉ cgLiveList t → par'.getD c 0 = inactiveNode := by
    intro c hc hcn
    rw [hoth c hcn, cgpm_getD_replicate _ _ _ _ (by rw [hinv.sz]; exact hc)]
  have hpm : ∀ w ∈ cgLiveList t, w ∉ [dpcRoot t.snode v0] → par'.getD w 0 ∈ cgLiveList t :=
    fun w hw hn => (hor.parent_edge w hw hn).1
  have htree : CGTree N (cgLiveList t) (dpcRoot t.snode v0) par' :=
    { size := hps
      small := hsm
      lt := hLlt
      root_mem := (mem_cgLiveList t _).2 hrl
      root_par := hrp
      par_mem := fun c hc e => hpm c hc (by simpa using e)
      dead := hoth'
      reaches := by
        intro c hc
        obtain ⟨r', _, hclimb⟩ := hor.reach c hc
        exact cgpm_reaches_of_climb hps hLlt hpm hclimb hc }
  refine ⟨nz, E2, par', ch', hci, hkr, hdpc, htree, ?_⟩
  refine childrenOf_of_tree (N := N) (L := cgLiveList t) (r := dpcRoot t.snode v0)
    (par0 := Array.replicate t.snode.size inactiveNode) (ch0 := t.snodeChildren)
    hps hcs hLlt (by rw [hrp]; omega) hoth ?_ ?_ hkids hnd
  · intro v hv
    rw [cgpm_getD_replicate _ _ _ _ (by rw [hinv.sz]; exact hv)]; omega
  · intro c hc
    rw [hch, cgpm_getD_replicate _ _ _ _ hc]

/-! ## `post_order`, `split_cliques`, and the run as a whole -/

/-- [S] in a duplicate-free list, nothing at or before position `j` equals an element listed
after `l[j]` -/
theorem cgpm_before_ne {l : List Nat} (hnd : l.Nodup) {j : Nat} (hj : j < l.length) {p : Nat}
    (hsub : List.Sublist [l[j], p] l) : ∀ i (hi : i < l.length), i ≤ j → l[i] ≠ p := by
  intro i hi hij e
  obtain ⟨a, b, hab, ha, hb⟩ := brg_sublist_pair l hsub
  obtain ⟨ha1, ha2⟩ := List.getElem?_eq_some_iff.1 ha
  obtain ⟨hb1, hb2⟩ := List.getElem?_eq_some_iff.1 hb
  have e1 : a = j := (hnd.getElem_inj_iff).1 ha2
  have e2 : b = i := (hnd.getElem_inj_iff).1 (hb2.trans e.symm)
  omega

/-- [S] reading the array of sorted sets -/
theorem cgpm_getD_map_sort (a : Array VSet) (c : Nat) :
    (a.map VSet.sort).getD c #[] = (a.getD c #[]).sort := by
  by_cases hc : c < a.size
  · simp [Array.getD, hc]
  · simp [Array.getD, hc, VSet.sort]

/-- [S] reading the array of cleared separators -/
theorem cgpm_getD_map_clear (a : Array VSet) (c : Nat) :
    (a.map (fun _ => (#[] : VSet))).getD c #[] = #[] := by
  by_cases hc : c < a.size
  · simp [Array.getD, hc]
  · simp [Array.getD, hc]

/-- [S] `post_process_merge` with at least two cliques, given the results of its five stages -/
theorem cgpm_run_eq (s : CGStrategy) (t : SuperNodeTree) (h2 : 1 < t.nCliques)
    {E1 E2 : IMat} {par' post' : Array Nat} {ch' ch'' sn' sp' : Array VSet}
    (h1 : cliqueIntersections s.edges t.snode = .ok E1)
    (hk : kruskal E1 t.nCliques = .ok E2)
    (hd : determineParentCliques (Array.replicate t.snode.size inactiveNode) t.snodeChildren
      t.snode t.post E2 = .ok (par', ch'))
    (hp : postOrder par' ch' t.nCliques = .ok (post', ch''))
    (hs : splitCliques t.snode (t.separators.map (fun _ => (#[] : VSet))) par' post' t.nCliques =
      .ok (sn', sp')) :
    s.postProcessMerge t = .ok ({ s with edges := E2 },
      { t with snode := sn'.map VSet.sort, separators := sp'.map VSet.sort, snodeParent := par',
               snodeChildren := ch'', snodePost := post' }) := by
  unfold CGStrategy.postProcessMerge
  simp only [gt_iff_lt, h2, if_true]
  unfold CGStrategy.cliqueTreeFromGraph
  simp only [h1, hk, hd, hp, hs, bind, Except.bind, pure, Except.pure]

/-- THE TREE RETURNED BY `post_process_merge` (`t` = the state at loop exit, `t'` = the result,
`r` = the root clique): the parent array is a tree on the live cliques of `t` rooted at `r`
(`CGTree`), the children sets are its inverse, `snode_post` is a permutation of the live cliques
listing children before parents with `r` last; a live non-root clique gets
`separator = clique ∩ parent clique` and `supernode = clique \ separator`, the root keeps its
clique and an empty separator, dead cliques stay empty; all sets are sorted. -/
structure CGPostDesc (N : Nat) (t t' : SuperNodeTree) (r : Nat) : Prop where
  tree : CGTree N (cgLiveList t) r t'.snodeParent
  children : ChildrenOf t'.snodeParent t'.snodeChildren
  sn_size : t'.snode.size = N
  sep_size : t'.separators.size = N
  post : t'.post = t.post
  ncl : t'.nCliques = t.nCliques
  nblk : t'.nblk = t.nblk
  post_nodup : t'.snodePost.toList.Nodup
  post_perm : t'.snodePost.toList.Perm (cgLiveList t)
  before : ∀ c ∈ cgLiveList t, c ≠ r →
    List.Sublist [c, t'.snodeParent.getD c 0] t'.snodePost.toList
  last : t'.snodePost.toList.getLast? = some r
  sn_root : t'.snode.getD r #[] = (t.snode.getD r #[]).sort
  sep_root : t'.separators.getD r #[] = #[]
  sn_eq : ∀ c ∈ cgLiveList t, c ≠ r → t'.snode.getD c #[] =
    ((t.snode.getD c #[]).diff ((t.snode.getD c #[]).inter
      (t.snode.getD (t'.snodeParent.getD c 0) #[]))).sort
  sep_eq : ∀ c ∈ cgLiveList t, c ≠ r → t'.separators.getD c #[] =
    ((t.snode.getD c #[]).inter (t.snode.getD (t'.snodeParent.getD c 0) #[])).sort
  dead_sn : ∀ c, c ∉ cgLiveList t → t'.snode.getD c #[] = #[]
  dead_sep : ∀ c, c ∉ cgLiveList t → t'.separators.getD c #[] = #[]

/-- [S] **`post_process_merge` DOES NOT PANIC** when at least two cliques are left, and returns
the tree described by `CGPostDesc`.  Hypotheses: the loop invariant, all children sets empty and
as many separators as cliques (both set up by `initialise` and untouched by the loop), and the
last vertex `v0` of the vertex post-order lies in some clique. -/
theorem post_multi_run {N nv : Nat} {s : CGStrategy} {t : SuperNodeTree} (hinv : CGInv N nv s t)
    (h2 : 2 ≤ t.nCliques) (hch : t.snodeChildren = Array.replicate N #[])
    (hsep : t.separators.size = N)
    {v0 c0 : Nat} (hpost : t.post.back? = some v0) (hv0 : v0 ∈ (t.snode.getD c0 #[]).toList) :
    ∃ s' t', s.postProcessMerge t = .ok (s', t') ∧ CGPostDesc N t t' (dpcRoot t.snode v0) := by
  obtain ⟨nz, E2, par', ch', hci, hkr, hdpc, htree, hchof⟩ := cgpm_tree hinv h2 hch hpost hv0
  generalize hr : dpcRoot t.snode v0 = r at htree ⊢
  have hsm := hinv.small
  have hmk : inactiveNode < noParent := by decide
  have hrN : r < N := htree.lt r htree.root_mem
  -- `post_order`
  obtain ⟨post', ch'', hpo, hnd, hplt, hpsz, hchof', hsub, hall⟩ :=
    post_order_spec par' ch' t.nCliques r hchof (by rw [htree.size]; omega)
      (by rw [htree.size]; exact hrN) htree.findIdx
      (by
        intro l hl hreach
        rw [hinv.ncl]
        exact hl.length_le_of_subset (fun c hc => htree.mem_of_reaches (hreach c hc).2))
  have hlen_le : (cgLiveList t).length ≤ N := by
    unfold cgLiveList
    exact Nat.le_trans (List.length_filter_le _ _) (by rw [List.length_range, hinv.sz])
  have hpsz' : post'.size = t.nCliques := by
    rw [hpsz, htree.size, hinv.ncl]; omega
  have hmem : ∀ c ∈ cgLiveList t, c ∈ post'.toList := fun c hc => hall c (htree.reaches c hc)
  have hperm : (cgLiveList t).Perm post'.toList :=
    ((cgLiveList_nodup t).subperm hmem).perm_of_length_le
      (by rw [Array.length_toList, hpsz', hinv.ncl])
  have hbefore : ∀ c ∈ cgLiveList t, c ≠ r →
      List.Sublist [c, par'.getD c 0] post'.toList := by
    intro c hc hcr
    exact hsub c _ (hmem c hc) (hmem _ (htree.par_mem c hc hcr)) (htree.reaches c hc) hcr rfl
  have hlast : post'.toList.getLast? = some r := by
    refine pcl_last_of_sublist hnd (hmem r htree.root_mem) ?_
    intro c hc hcr
    exact ⟨_, hbefore c (hperm.mem_iff.2 hc) hcr⟩
  -- position of the root
  have hnc1 : t.nCliques - 1 < post'.size := by omega
  have hlastD : post'.getD (t.nCliques - 1) 0 = r := by
    rw [List.getLast?_eq_getElem?, Array.length_toList, hpsz'] at hlast
    have := List.getElem?_eq_some_iff.1 hlast
    obtain ⟨_, h⟩ := this
    rw [pcl_getD_eq_toList hnc1]; exact h
  have hne_root : ∀ j, j < t.nCliques - 1 → post'.getD j 0 ≠ r := by
    intro j hj
    rw [← hlastD]
    exact pcl_getD_ne_of_nodup hnd (by omega) hnc1 (by omega)
  have hjmem : ∀ j, j < post'.size → post'.getD j 0 ∈ cgLiveList t := by
    intro j hj
    rw [pcl_getD_eq_toList hj]
    exact hperm.mem_iff.2 (List.getElem_mem _)
  -- `split_cliques`
  obtain ⟨sn', sp', hsplit, hsnsz, hspsz, hvis, hunt⟩ :=
    split_cliques_spec t.snode (t.separators.map (fun _ => (#[] : VSet))) par' post' t.nCliques
      (by rw [Array.size_map, hsep, hinv.sz]) hnd (by omega) (by omega)
      (by
        intro j hj
        have hjs : j < post'.size := by omega
        have hm := hjmem j hjs
        have hcr := hne_root j hj
        refine ⟨by rw [hinv.sz]; exact htree.lt _ hm, by rw [htree.size]; exact htree.lt _ hm,
          by rw [hinv.sz]; exact htree.lt _ (htree.par_mem _ hm hcr), ?_⟩
        intro i hij
        have hb := hbefore _ hm hcr
        have hjl : j < post'.toList.length := by simpa using hjs
        have hil : i < post'.toList.length := by omega
        rw [pcl_getD_eq_toList hjs] at hb ⊢
        rw [pcl_getD_eq_toList (show i < post'.size by omega)]
        exact cgpm_before_ne hnd hjl hb i hil hij)
  refine ⟨_, _, cgpm_run_eq s t (by omega) hci hkr hdpc hpo hsplit, ?_⟩
  -- every live non-root clique is visited
  have hvisited : ∀ c ∈ cgLiveList t, c ≠ r → ∃ j, j < t.nCliques - 1 ∧ post'.getD j 0 = c := by
    intro c hc hcr
    obtain ⟨j, hj, e⟩ := List.getElem_of_mem (hmem c hc)
    have hj' : j < post'.size := by simpa using hj
    have e' : post'.getD j 0 = c := by rw [pcl_getD_eq_toList hj']; exact e
    refine ⟨j, ?_, e'⟩
    by_contra hlt
    have : j = t.nCliques - 1 := by omega
    rw [this, hlastD] at e'
    exact hcr e'.symm
  have hunvisited : ∀ c, (c ∉ cgLiveList t ∨ c = r) → ∀ j, j < t.nCliques - 1 →
      post'.getD j 0 ≠ c := by
    intro c hc j hj e
    rcases hc with hc | hc
    · exact hc (e ▸ hjmem j (by omega))
    · exact hne_root j hj (e.trans hc)
  refine
    { tree := htree
      children := hchof'
      sn_size := by show (sn'.map VSet.sort).size = N; rw [Array.size_map, hsnsz, hinv.sz]
      sep_size := by
        show (sp'.map VSet.sort).size = N
        rw [Array.size_map, hspsz, Array.size_map, hsep]
      post := rfl
      ncl := rfl
      nblk := rfl
      post_nodup := hnd
      post_perm := hperm.symm
      before := hbefore
      last := hlast
      sn_root := ?_
      sep_root := ?_
      sn_eq := ?_
      sep_eq := ?_
      dead_sn := ?_
      dead_sep := ?_ }
  · show (sn'.map VSet.sort).getD r #[] = _
    rw [cgpm_getD_map_sort, (hunt r (hunvisited r (.inr rfl))).1]
  · show (sp'.map VSet.sort).getD r #[] = _
    rw [cgpm_getD_map_sort, (hunt r (hunvisited r (.inr rfl))).2, cgpm_getD_map_clear]
    simp [VSet.sort]
  · intro c hc hcr
    obtain ⟨j, hj, e⟩ := hvisited c hc hcr
    show (sn'.map VSet.sort).getD c #[] = _
    have := (hvis j hj).2
    simp only [e] at this
    rw [cgpm_getD_map_sort, this]
  · intro c hc hcr
    obtain ⟨j, hj, e⟩ := hvisited c hc hcr
    show (sp'.map VSet.sort).getD c #[] = _
    have := (hvis j hj).1
    simp only [e] at this
    rw [cgpm_getD_map_sort, this]
  · intro c hc
    show (sn'.map VSet.sort).getD c #[] = _
    rw [cgpm_getD_map_sort, (hunt c (hunvisited c (.inl hc))).1]
    have : t.snode.getD c #[] = #[] := by
      by_contra hne
      apply hc
      rw [mem_cgLiveList]
      refine ⟨?_, hne⟩
      by_contra hlt
      exact hne (by simp [Array.getD, hlt])
    rw [this]; simp [VSet.sort]
  · intro c hc
    show (sp'.map VSet.sort).getD c #[] = _
    rw [cgpm_getD_map_sort, (hunt c (hunvisited c (.inl hc))).2, cgpm_getD_map_clear]
    simp [VSet.sort]

end Clarabel.Chordal
