/-
  The scaled packed-triangle ("svec") representation of the PSD cone
  (`ClarabelModel/Cones/PsdTriangle.lean`, C13): packed index arithmetic, `svec_to_mat` /
  `mat_to_svec` are mutually inverse on symmetric matrices, and the `√2` scaling makes the
  Euclidean inner product of two svecs the trace inner product of the matrices.
-/
import ClarabelModel.Cones.PsdTriangle
import ClarabelProofs.Lemmas.ScalarInst
import Mathlib.Algebra.BigOperators.Fin
import Mathlib.Algebra.BigOperators.Intervals
import Mathlib.Algebra.BigOperators.Group.Finset.Basic
import Mathlib.Data.Matrix.Mul
import Mathlib.LinearAlgebra.Matrix.Trace
import Mathlib.Tactic.Ring
import Mathlib.Tactic.Linarith
import Mathlib.Tactic.FieldSimp
import Mathlib.Tactic.LinearCombination

namespace Clarabel.PsdTri
open PsdIndex (triangularNumber triangularIndex)
open Finset

/-! ## triangular numbers -/

theorem tri_succ (k : Nat) : triangularNumber (k + 1) = triangularNumber k + (k + 1) := by
  unfold triangularNumber
  have h : (k + 1) * (k + 1 + 1) = k * (k + 1) + 2 * (k + 1) := by ring
  rw [h, Nat.add_mul_div_left _ _ (by decide : 0 < 2)]

@[simp] theorem tri_zero : triangularNumber 0 = 0 := rfl

theorem tri_mono {a b : Nat} (h : a ≤ b) : triangularNumber a ≤ triangularNumber b := by
  induction h with
  | refl => exact Nat.le_refl _
  | step _ ih => rw [tri_succ]; omega

/-- the packed position of `(i,j)`, `i ≤ j < n`, is in range -/
theorem tri_add_lt {i j n : Nat} (hij : i ≤ j) (hj : j < n) :
    triangularNumber j + i < triangularNumber n := by
  have h1 : triangularNumber (j + 1) ≤ triangularNumber n := tri_mono hj
  rw [tri_succ] at h1
  omega

/-- `triangular_index(k)` is the packed position of the diagonal entry `(k,k)` -/
theorem triangularIndex_eq (k : Nat) : triangularIndex k = triangularNumber k + k := by
  unfold triangularIndex triangularNumber
  have h : k * (k + 3) = k * (k + 1) + 2 * k := by ring
  rw [h, Nat.add_mul_div_left _ _ (by decide : 0 < 2)]

/-- every packed index is the position of exactly one pair -/
theorem exists_pair {p n : Nat} (hp : p < triangularNumber n) :
    ∃ i j, i ≤ j ∧ j < n ∧ p = triangularNumber j + i := by
  induction n with
  | zero => simp at hp
  | succ n ih =>
    by_cases h : p < triangularNumber n
    · obtain ⟨i, j, h1, h2, h3⟩ := ih h
      exact ⟨i, j, h1, by omega, h3⟩
    · rw [tri_succ] at hp
      exact ⟨p - triangularNumber n, n, by omega, by omega, by omega⟩

/-- the packed position determines the pair -/
theorem pair_unique {i j k l : Nat} (hij : i ≤ j) (hkl : k ≤ l)
    (h : triangularNumber j + i = triangularNumber l + k) : i = k ∧ j = l := by
  have key : ∀ {a b c d : Nat}, a ≤ b → c ≤ d → b < d →
      triangularNumber b + a ≠ triangularNumber d + c := by
    intro a b c d hab _ hbd he
    have h1 : triangularNumber (b + 1) ≤ triangularNumber d := tri_mono hbd
    rw [tri_succ] at h1
    omega
  rcases Nat.lt_trichotomy j l with hlt | heq | hgt
  · exact absurd h (key hij hkl hlt)
  · subst heq; exact ⟨by omega, rfl⟩
  · exact absurd h.symm (key hkl hij hgt)

/-! ## `unpack` -/

theorem unpackGo_spec (fuel i j c : Nat) (hij : i ≤ j) (hc : c ≤ j)
    (hf : triangularNumber j - triangularNumber c + i ≤ fuel) :
    unpackGo fuel (triangularNumber j - triangularNumber c + i) c = (i, j) := by
  induction fuel generalizing c with
  | zero =>
    have hcj : triangularNumber c ≤ triangularNumber j := tri_mono hc
    have h0 : triangularNumber j - triangularNumber c + i = 0 := by omega
    have hi : i = 0 := by omega
    have hjc : c = j := by
      by_contra hne
      have hlt : c < j := by omega
      have h1 : triangularNumber (c + 1) ≤ triangularNumber j := tri_mono hlt
      rw [tri_succ] at h1
      omega
    subst hi; subst hjc
    simp [unpackGo]
  | succ fuel ih =>
    have hcj : triangularNumber c ≤ triangularNumber j := tri_mono hc
    by_cases hjc : c = j
    · subst hjc
      simp only [Nat.sub_self, Nat.zero_add, unpackGo, hij, if_true]
    · have hlt : c < j := by omega
      have h1 : triangularNumber (c + 1) ≤ triangularNumber j := tri_mono hlt
      have h2 := tri_succ c
      have hnot : ¬ (triangularNumber j - triangularNumber c + i ≤ c) := by omega
      simp only [unpackGo, hnot, if_false]
      have e : triangularNumber j - triangularNumber c + i - (c + 1)
          = triangularNumber j - triangularNumber (c + 1) + i := by omega
      rw [e]
      exact ih (c + 1) hlt (by omega)

/-- [S] `unpack` inverts the packed position -/
theorem unpack_pair {i j : Nat} (hij : i ≤ j) : unpack (triangularNumber j + i) = (i, j) := by
  have := unpackGo_spec (triangularNumber j + i) i j 0 hij (Nat.zero_le _) (by simp)
  simpa [unpack] using this

/-! ## the packed list -/

theorem packed_succ {β : Type} (n : Nat) (e : Nat → Nat → β) :
    packed (n + 1) e = packed n e ++ (List.range (n + 1)).map (fun r => e r n) := by
  simp only [packed]
  rw [List.range_succ, List.flatMap_append]
  simp [List.range_succ]

theorem length_packed {β : Type} (n : Nat) (e : Nat → Nat → β) :
    (packed n e).length = triangularNumber n := by
  induction n with
  | zero => simp [packed]
  | succ n ih => rw [packed_succ, List.length_append, ih, tri_succ]; simp

theorem getElem?_packed {β : Type} {i j n : Nat} (e : Nat → Nat → β) (hij : i ≤ j) (hj : j < n) :
    (packed n e)[triangularNumber j + i]? = some (e i j) := by
  induction n with
  | zero => omega
  | succ n ih =>
    rw [packed_succ]
    by_cases h : j < n
    · rw [List.getElem?_append_left (by rw [length_packed]; exact tri_add_lt hij h)]
      exact ih h
    · have hjn : j = n := by omega
      subst hjn
      rw [List.getElem?_append_right (by rw [length_packed]; omega), length_packed]
      simp only [Nat.add_sub_cancel_left]
      rw [List.getElem?_map, List.getElem?_range (by omega)]
      rfl

theorem size_packed {β : Type} (n : Nat) (e : Nat → Nat → β) :
    (packed n e).toArray.size = triangularNumber n := by
  simp [length_packed]

theorem getD_packed {β : Type} {i j n : Nat} (e : Nat → Nat → β) (d : β) (hij : i ≤ j)
    (hj : j < n) : (packed n e).toArray.getD (triangularNumber j + i) d = e i j := by
  have h := getElem?_packed e hij hj
  simp only [Array.getD_eq_getD_getElem?, List.getElem?_toArray, h, Option.getD_some]

/-- two packed lists agree when the entry functions agree on the upper triangle -/
theorem packed_congr {β : Type} {n : Nat} {e g : Nat → Nat → β}
    (h : ∀ i j, i ≤ j → j < n → e i j = g i j) : packed n e = packed n g := by
  induction n with
  | zero => simp [packed]
  | succ n ih =>
    rw [packed_succ, packed_succ, ih (fun i j h1 h2 => h i j h1 (by omega))]
    congr 1
    apply List.map_congr_left
    intro r hr
    exact h r n (by simp at hr; omega) (by omega)

/-- an array of the right size is the packed list of its own entries -/
theorem eq_packed_self (n : Nat) (x : Array ℝ) (hx : x.size = triangularNumber n) :
    x = (packed n fun r c => x.getD (triangularNumber c + r) 0).toArray := by
  apply Array.ext
  · rw [size_packed, hx]
  · intro p h1 h2
    rw [hx] at h1
    obtain ⟨i, j, hij, hj, rfl⟩ := exists_pair h1
    have := getD_packed (fun r c => x.getD (triangularNumber c + r) 0) (0 : ℝ) hij hj
    rw [Array.getD_eq_getD_getElem?, Array.getElem?_eq_getElem h2] at this
    simp only [Option.getD_some] at this
    rw [this, Array.getD_eq_getD_getElem?, Array.getElem?_eq_getElem (by omega)]
    simp

/-! ## sums -/

theorem foldl_add_init (l : List Nat) (f : Nat → ℝ) (init : ℝ) :
    l.foldl (fun acc k => acc + f k) init = init + (l.map f).sum := by
  induction l generalizing init with
  | nil => simp
  | cons a t ih => simp only [List.foldl_cons, List.map_cons, List.sum_cons]; rw [ih]; ring

/-- the left fold of the model is the finite sum -/
theorem sumN_eq (n : Nat) (f : Nat → ℝ) : sumN n f = ∑ k ∈ range n, f k := by
  unfold sumN
  rw [foldl_add_init, zero_add]
  induction n with
  | zero => simp
  | succ n ih => rw [List.range_succ, List.map_append, List.sum_append, ih, sum_range_succ]; simp

/-- re-indexing a sum over packed positions as a sum over the pairs `i ≤ j < n` -/
theorem sum_tri (n : Nat) (f : Nat → ℝ) :
    ∑ p ∈ range (triangularNumber n), f p
      = ∑ j ∈ range n, ∑ i ∈ range (j + 1), f (triangularNumber j + i) := by
  induction n with
  | zero => simp
  | succ n ih =>
    rw [tri_succ, sum_range_add, ih]
    conv_rhs => rw [sum_range_succ]

/-- a full double sum split along the diagonal -/
theorem sum_square_split (n : Nat) (F : Nat → Nat → ℝ) :
    ∑ j ∈ range n, ∑ i ∈ range n, F i j
      = ∑ j ∈ range n, ((∑ i ∈ range j, (F i j + F j i)) + F j j) := by
  induction n with
  | zero => simp
  | succ n ih =>
    rw [sum_range_succ, sum_range_succ (fun j => (∑ i ∈ range j, (F i j + F j i)) + F j j), ← ih]
    have h1 : ∑ j ∈ range n, ∑ i ∈ range (n + 1), F i j
        = ∑ j ∈ range n, ∑ i ∈ range n, F i j + ∑ j ∈ range n, F n j := by
      rw [← sum_add_distrib]
      exact sum_congr rfl (fun j _ => sum_range_succ _ _)
    rw [h1, sum_range_succ, sum_add_distrib]
    ring

/-- the dot product of two packed vectors, as a sum over the upper triangle -/
theorem dot_packed (n : Nat) (e g : Nat → Nat → ℝ) :
    Vec.dot (packed n e).toArray (packed n g).toArray
      = ∑ j ∈ range n, ∑ i ∈ range (j + 1), e i j * g i j := by
  have gen : ∀ (l m : List ℝ) (init : ℝ), l.length = m.length →
      (l.zip m).foldl (fun acc p => acc + p.1 * p.2) init
        = init + (List.zipWith (· * ·) l m).sum := by
    intro l
    induction l with
    | nil => intro m init _; simp
    | cons a t ih =>
      intro m init h
      cases m with
      | nil => simp at h
      | cons b u =>
        simp only [List.zip_cons_cons, List.foldl_cons, List.zipWith_cons_cons, List.sum_cons]
        rw [ih u _ (by simpa using h)]; ring
  unfold Vec.dot
  rw [gen _ _ 0 (by rw [length_packed, length_packed]), zero_add]
  induction n with
  | zero => simp [packed]
  | succ n ih =>
    rw [packed_succ, packed_succ, List.zipWith_append (by rw [length_packed, length_packed]),
      List.sum_append, ih, sum_range_succ]
    congr 1
    rw [List.zipWith_map_left, List.zipWith_map_right]
    generalize n + 1 = m
    induction m with
    | zero => simp
    | succ m ihm =>
      rw [List.range_succ, List.zipWith_append (by simp), List.sum_append, ihm, sum_range_succ]
      simp

/-! ## the constants -/

theorem isqrt2_sq : (isqrt2 : ℝ) * isqrt2 = 1 / 2 := by
  show Real.sqrt (1 / (1 + 1)) * Real.sqrt (1 / (1 + 1)) = 1 / 2
  rw [Real.mul_self_sqrt (by norm_num)]; norm_num

theorem sqrt2_sq : (sqrt2 : ℝ) * sqrt2 = 2 := by
  show Real.sqrt (1 + 1) * Real.sqrt (1 + 1) = 2
  rw [Real.mul_self_sqrt (by norm_num)]; norm_num

theorem isqrt2_pos : (0 : ℝ) < isqrt2 := by
  show 0 < Real.sqrt (1 / (1 + 1))
  exact Real.sqrt_pos.mpr (by norm_num)

theorem sqrt2_pos : (0 : ℝ) < sqrt2 := by
  show 0 < Real.sqrt (1 + 1)
  exact Real.sqrt_pos.mpr (by norm_num)

/-- `√2 · (1/√2) = 1` -/
theorem sqrt2_mul_isqrt2 : (sqrt2 : ℝ) * isqrt2 = 1 := by
  have h : ((sqrt2 : ℝ) * isqrt2) * (sqrt2 * isqrt2) = 1 := by
    have := isqrt2_sq; have := sqrt2_sq
    calc ((sqrt2 : ℝ) * isqrt2) * (sqrt2 * isqrt2) = (sqrt2 * sqrt2) * (isqrt2 * isqrt2) := by ring
      _ = 1 := by rw [sqrt2_sq, isqrt2_sq]; norm_num
  have hpos : (0 : ℝ) < sqrt2 * isqrt2 := mul_pos sqrt2_pos isqrt2_pos
  nlinarith [h, hpos]

/-- `√2 = 2·(1/√2)` -/
theorem sqrt2_eq : (sqrt2 : ℝ) = 2 * isqrt2 := by
  have h1 := sqrt2_mul_isqrt2
  have h2 := isqrt2_sq
  have hne : (isqrt2 : ℝ) ≠ 0 := isqrt2_pos.ne'
  have : ((sqrt2 : ℝ) - 2 * isqrt2) * isqrt2 = 0 := by linear_combination h1 - 2 * h2
  rcases mul_eq_zero.mp this with h | h
  · linarith
  · exact absurd h hne

/-! ## `svec_to_mat` and `mat_to_svec` -/

/-- symmetric on the leading `n × n` part -/
def IsSymm (n : Nat) (M : MatFn ℝ) : Prop := ∀ i j, i < n → j < n → M i j = M j i

/-- [S] the matrix built by `svec_to_mat` is symmetric -/
theorem svecToMat_symm (x : Array ℝ) (i j : Nat) : svecToMat x i j = svecToMat x j i := by
  unfold svecToMat
  rcases Nat.lt_trichotomy i j with h | h | h
  · have h1 : i ≠ j := by omega
    have h2 : j ≠ i := by omega
    have h3 : ¬ j < i := by omega
    simp only [h1, h2, h, h3, if_true, if_false]
  · subst h; rfl
  · have h1 : i ≠ j := by omega
    have h2 : j ≠ i := by omega
    have h3 : ¬ i < j := by omega
    simp only [h1, h2, h, h3, if_true, if_false]

theorem svecToMat_isSymm (n : Nat) (x : Array ℝ) : IsSymm n (svecToMat x) :=
  fun i j _ _ => svecToMat_symm x i j

theorem size_matToSvec (n : Nat) (M : MatFn ℝ) : (matToSvec n M).size = triangularNumber n := by
  unfold matToSvec; rw [size_packed]

/-- entry of `mat_to_svec` at the packed position of `(i,j)` -/
theorem getD_matToSvec {i j n : Nat} (M : MatFn ℝ) (hij : i ≤ j) (hj : j < n) :
    (matToSvec n M).getD (triangularNumber j + i) 0
      = if i = j then M i j else (M i j + M j i) * isqrt2 := by
  unfold matToSvec
  rw [getD_packed _ _ hij hj]

/-- `mat_to_svec` only reads the leading `n × n` part -/
theorem matToSvec_congr {n : Nat} {M M' : MatFn ℝ}
    (h : ∀ i j, i < n → j < n → M i j = M' i j) : matToSvec n M = matToSvec n M' := by
  unfold matToSvec
  congr 1
  apply packed_congr
  intro i j hij hj
  rw [h i j (by omega) hj, h j i hj (by omega)]

/-- [R] `svec_to_mat ∘ mat_to_svec = id` on symmetric matrices -/
theorem svecToMat_matToSvec (n : Nat) (M : MatFn ℝ) (hM : IsSymm n M) (i j : Nat) (hi : i < n)
    (hj : j < n) : svecToMat (matToSvec n M) i j = M i j := by
  have key : ∀ a b, a < b → b < n →
      (matToSvec n M).getD (triangularNumber b + a) 0 * isqrt2 = M a b := by
    intro a b hab hb
    rw [getD_matToSvec M hab.le hb]
    have hne : a ≠ b := by omega
    simp only [hne, if_false]
    rw [← hM a b (by omega) hb]
    have := isqrt2_sq
    linear_combination (2 * M a b) * this
  unfold svecToMat
  rcases Nat.lt_trichotomy i j with h | h | h
  · have h1 : i ≠ j := by omega
    simp only [h1, h, if_true, if_false]
    exact key i j h hj
  · subst h
    simp only [if_true]
    rw [getD_matToSvec M (Nat.le_refl _) hj]
    simp
  · have h1 : i ≠ j := by omega
    have h3 : ¬ i < j := by omega
    simp only [h1, h3, if_false]
    rw [key j i h hi]
    exact (hM i j hi hj).symm

/-- [R] `mat_to_svec ∘ svec_to_mat = id` on vectors of length `n(n+1)/2` -/
theorem matToSvec_svecToMat (n : Nat) (x : Array ℝ) (hx : x.size = triangularNumber n) :
    matToSvec n (svecToMat x) = x := by
  conv_rhs => rw [eq_packed_self n x hx]
  unfold matToSvec
  congr 1
  apply packed_congr
  intro i j hij hj
  by_cases h : i = j
  · subst h
    simp [svecToMat]
  · have hlt : i < j := by omega
    have h2 : j ≠ i := by omega
    have h3 : ¬ j < i := by omega
    simp only [h, if_false, svecToMat, hlt, if_true, h2, h3]
    have := isqrt2_sq
    linear_combination (2 * x.getD (triangularNumber j + i) 0) * this

/-- [R] `⟨svec A, svec B⟩ = Σᵢⱼ AᵢⱼBᵢⱼ = tr(AB)` for symmetric `A`, `B` — the reason for the
`√2` scaling of the off-diagonal entries -/
theorem dot_matToSvec (n : Nat) (A B : MatFn ℝ) (hA : IsSymm n A) (hB : IsSymm n B) :
    Vec.dot (matToSvec n A) (matToSvec n B) = ∑ j ∈ range n, ∑ i ∈ range n, A i j * B i j := by
  unfold matToSvec
  rw [dot_packed, sum_square_split]
  apply sum_congr rfl
  intro j hj
  have hjn : j < n := by simpa using hj
  rw [sum_range_succ]
  congr 1
  · apply sum_congr rfl
    intro i hi
    have hij : i < j := by simpa using hi
    have hne : i ≠ j := by omega
    simp only [hne, if_false]
    rw [← hA i j (by omega) hjn, ← hB i j (by omega) hjn]
    have := isqrt2_sq
    linear_combination (4 * A i j * B i j) * this
  · simp

end Clarabel.PsdTri
