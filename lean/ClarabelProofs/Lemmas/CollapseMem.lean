/-
  Membership in the product cone is the same for the user's cone list and for its normal form
  `Cones.newCollapsed` (`SupportedConeT::new_collapsed`: empty cones dropped,
  `SecondOrderConeT(1)` counted as `NonnegativeConeT(1)`, runs of nonnegative cones merged), for
  cone lists made of zero / nonnegative / second-order cones of any dimensions (0 and 1 included).

  * `compositeMem_collapseGo` : the invariant of the worker `collapseGo acc cs` — the `acc` rows
    of the open run are nonnegative and the rest of the vector is in the product of `cs`;
  * `compositeMem_newCollapsed` : `s ∈ K(new_collapsed cones) ↔ s ∈ K(cones)`, likewise for `K*`.
-/
import ClarabelProofs.Lemmas.EquilComposite
import ClarabelProofs.Lemmas.PresolveCollapse

namespace Clarabel.Equil
open Clarabel Cones

/-- zero / nonnegative / second-order cones (the cone kinds of the whole-solver model) -/
def SimpleCone : ConeT ℝ → Prop
  | .zero _ => True
  | .nonneg _ => True
  | .soc _ => True
  | _ => False

/-- what the collapse argument uses about a membership predicate (`ConeMem` and `ConeMemDual`
both have it): nonnegative cones are the orthant, second-order cones are `SocMem`, an empty
zero cone accepts the empty segment -/
structure CollapseOK (mem : ConeT ℝ → List ℝ → Prop) : Prop where
  nonneg : ∀ n s, mem (.nonneg n) s ↔ ∀ x ∈ s, 0 ≤ x
  soc : ∀ n s, mem (.soc n) s ↔ SocMem s
  zero_nil : ∀ n, mem (.zero n) []

theorem collapseOK_coneMem : CollapseOK ConeMem :=
  ⟨fun _ _ => Iff.rfl, fun _ _ => Iff.rfl, fun _ => by simp [ConeMem]⟩

theorem collapseOK_coneMemDual : CollapseOK ConeMemDual :=
  ⟨fun _ _ => Iff.rfl, fun _ _ => Iff.rfl, fun _ => by simp [ConeMemDual]⟩

/-- the empty second-order cone accepts the empty segment -/
theorem socMem_nil : SocMem ([] : List ℝ) := trivial

/-- `SecondOrderConeT(1)` is the half line -/
theorem socMem_singleton (t : ℝ) : SocMem [t] ↔ 0 ≤ t := by
  simp only [SocMem, sumSq]
  exact ⟨fun h => h.1, fun h => ⟨h, mul_nonneg h h⟩⟩

/-- an empty simple cone accepts the empty segment -/
theorem CollapseOK.mem_nil {mem : ConeT ℝ → List ℝ → Prop} (hm : CollapseOK mem) (c : ConeT ℝ)
    (hc : SimpleCone c) (h0 : c.nvars = 0) : mem c [] := by
  cases c with
  | zero n => exact hm.zero_nil n
  | nonneg n => rw [hm.nonneg]; simp
  | soc n => rw [hm.soc]; exact socMem_nil
  | exp | pow _ | genpow _ _ | psd _ => exact absurd hc (by simp [SimpleCone])

/-- the pending run, emitted in front of a cone list -/
theorem compositeMem_flush_append {mem : ConeT ℝ → List ℝ → Prop} (hm : CollapseOK mem) (acc : Nat)
    (l : List (ConeT ℝ)) (s : List ℝ) :
    CompositeMem mem (flush acc ++ l) s ↔
      (∀ x ∈ s.take acc, 0 ≤ x) ∧ CompositeMem mem l (s.drop acc) := by
  unfold flush
  split
  · rename_i h0
    subst h0
    simp
  · simp only [List.singleton_append, CompositeMem, ConeT.nvars, hm.nonneg]

/-- a collapsible simple cone of `d ≥ 1` rows asks for exactly `d` nonnegative rows -/
theorem CollapseOK.mem_collapsible {mem : ConeT ℝ → List ℝ → Prop} (hm : CollapseOK mem) (c : ConeT ℝ)
    (hc : SimpleCone c) (d : Nat) (hd : c.collapsibleDim? = some d) (seg : List ℝ)
    (hlen : seg.length = d) : mem c seg ↔ ∀ x ∈ seg, 0 ≤ x := by
  cases c with
  | nonneg n => exact hm.nonneg n seg
  | soc n =>
    by_cases hn : n = 1
    · subst hn
      simp only [ConeT.collapsibleDim?, Option.some.injEq] at hd
      subst hd
      match seg, hlen with
      | [t], _ =>
        rw [hm.soc, socMem_singleton]
        simp
    · unfold ConeT.collapsibleDim? at hd
      split at hd
      · rename_i heq; cases heq
      · rename_i heq; cases heq; exact absurd rfl hn
      · rename_i heq; cases heq
      · cases hd
  | zero n => simp [ConeT.collapsibleDim?] at hd
  | exp | pow _ | genpow _ _ | psd _ => exact absurd hc (by simp [SimpleCone])

/-- **invariant of `collapseGo`**: with `acc` rows collected in the open nonnegative run, the
output accepts `s` iff the first `acc` rows are nonnegative and the rest is in the product of the
remaining cones -/
theorem compositeMem_collapseGo {mem : ConeT ℝ → List ℝ → Prop} (hm : CollapseOK mem) (acc : Nat)
    (cs : List (ConeT ℝ)) (h : ∀ c ∈ cs, SimpleCone c) (s : List ℝ)
    (hlen : acc + numel cs ≤ s.length) :
    CompositeMem mem (collapseGo acc cs) s ↔
      (∀ x ∈ s.take acc, 0 ≤ x) ∧ CompositeMem mem cs (s.drop acc) := by
  induction cs generalizing acc s with
  | nil =>
    have := compositeMem_flush_append hm acc [] s
    simpa [collapseGo] using this
  | cons c rest ih =>
    have hc : SimpleCone c := h c (by simp)
    have hrest : ∀ c' ∈ rest, SimpleCone c' := fun c' hc' => h c' (by simp [hc'])
    simp only [numel] at hlen
    unfold collapseGo
    split
    · rename_i h0
      rw [ih acc hrest s (by omega)]
      simp only [CompositeMem, h0, List.take_zero, List.drop_zero]
      simp [hm.mem_nil c hc h0]
    · rename_i h0
      split
      · rename_i d hd
        have hdn : d = c.nvars := collapsibleDim_eq_nvars hd
        rw [ih (acc + d) hrest s (by omega)]
        have hseg : ((s.drop acc).take d).length = d := by simp; omega
        simp only [CompositeMem, ← hdn, hm.mem_collapsible c hc d hd _ hseg, List.take_add,
          List.mem_append, List.drop_drop]
        constructor
        · rintro ⟨h1, h2⟩
          exact ⟨fun x hx => h1 x (Or.inl hx), fun x hx => h1 x (Or.inr hx), h2⟩
        · rintro ⟨h1, h2, h3⟩
          exact ⟨fun x hx => hx.elim (h1 x) (h2 x), h3⟩
      · rw [compositeMem_flush_append hm]
        simp only [CompositeMem]
        rw [ih 0 hrest _ (by simp; omega)]
        simp

/-- **`new_collapsed` does not change the product cone** (nor its dual): for a list of zero /
nonnegative / second-order cones of any dimensions, a vector with at least as many rows as the
cones have is in `K(new_collapsed cones)` iff it is in `K(cones)`. -/
theorem compositeMem_newCollapsed (cones : List (ConeT ℝ)) (h : ∀ c ∈ cones, SimpleCone c)
    (s : List ℝ) (hlen : Cones.numel cones ≤ s.length) :
    (CompositeMem ConeMem (Cones.newCollapsed cones) s ↔ CompositeMem ConeMem cones s)
    ∧ (CompositeMem ConeMemDual (Cones.newCollapsed cones) s ↔ CompositeMem ConeMemDual cones s) := by
  unfold Cones.newCollapsed
  constructor
  · rw [compositeMem_collapseGo collapseOK_coneMem 0 cones h s (by omega)]; simp
  · rw [compositeMem_collapseGo collapseOK_coneMemDual 0 cones h s (by omega)]; simp

/-! ### concrete instances -/

example : Cones.newCollapsed ([.nonneg 1, .soc 1, .zero 0, .nonneg 2] : List (ConeT ℝ)) = [.nonneg 4] := by
  simp [Cones.newCollapsed, collapseGo, flush, ConeT.nvars, ConeT.collapsibleDim?]

example : Cones.newCollapsed ([.soc 0, .zero 2, .nonneg 0, .soc 1, .soc 3, .nonneg 1, .soc 1] : List (ConeT ℝ))
    = [.zero 2, .nonneg 1, .soc 3, .nonneg 2] := by
  simp [Cones.newCollapsed, collapseGo, flush, ConeT.nvars, ConeT.collapsibleDim?]

/-- the iff on the first list: four rows, all of them asked to be nonnegative on both sides -/
example (a b c d : ℝ) :
    CompositeMem ConeMem [.nonneg 4] [a, b, c, d] ↔
      CompositeMem ConeMem [.nonneg 1, .soc 1, .zero 0, .nonneg 2] [a, b, c, d] := by
  have h := (compositeMem_newCollapsed [.nonneg 1, .soc 1, .zero 0, .nonneg 2]
    (by simp [SimpleCone]) [a, b, c, d] (by simp [numel, ConeT.nvars])).1
  have e : Cones.newCollapsed ([.nonneg 1, .soc 1, .zero 0, .nonneg 2] : List (ConeT ℝ)) = [.nonneg 4] := by
    simp [Cones.newCollapsed, collapseGo, flush, ConeT.nvars, ConeT.collapsibleDim?]
  rwa [e] at h

/-- the hypotheses are satisfiable with cones of dimension 0 and 1 and a vector that is in the cone -/
example : CompositeMem ConeMem (Cones.newCollapsed [.soc 0, .zero 1, .soc 1, .nonneg 1]) [0, 2, 3] :=
  (compositeMem_newCollapsed [.soc 0, .zero 1, .soc 1, .nonneg 1] (by simp [SimpleCone]) [0, 2, 3]
    (by simp [numel, ConeT.nvars])).1.mpr (by simp [CompositeMem, ConeMem, ConeT.nvars, SocMem, sumSq])

end Clarabel.Equil
