/-
  Round 4 (composition) — the BRIDGE between the whole-solver model's own step functions
  (`Solver.calcStepLength`, `Solver.addStep`, `SolverSt.defaultStart`) and C07's StepK theorems:
  every accepted step of the whole-solver model keeps the iterate strictly inside the cone
  (`τ, κ > 0`, `z ∈ int K*`, `s ∈ int K` for zero / nonnegative / second-order cones), and
  `default_start()` establishes it.  Scalar type ℝ.
-/
import ClarabelProofs.Lemmas.SolverFullDefs
import ClarabelProofs.Lemmas.StepKInterior
import ClarabelProofs.Lemmas.StepKInit
import ClarabelProofs.Lemmas.StepKAccept
import ClarabelProofs.Lemmas.EquilComposite

namespace Clarabel.Solver.Bridge
open Clarabel Residuals

set_option linter.unusedVariables false

/-! ## the predicate -/

/-- `(z, s)` of one cone's rows lies strictly inside `K* × K` (the rows as lists) -/
def BlkInt : Composite.Spec → List ℝ → List ℝ → Prop
  | .zero _, _, _ => True
  | .nonneg _, z, s => z.length = s.length ∧ (∀ v ∈ z, 0 < v) ∧ (∀ v ∈ s, 0 < v)
  | .soc _, z, s => ∃ z0 z1 s0 s1, z = z0 :: z1 ∧ s = s0 :: s1 ∧ Soc.Interior z0 z1 ∧ Soc.Interior s0 s1
  | .psd _, _, _ => False

/-- block-wise strict interior of the flat `(z, s)` cut along the cone layout -/
def IntRows : List Composite.Spec → List ℝ → List ℝ → Prop
  | [], _, _ => True
  | sp :: rest, z, s => BlkInt sp (z.take sp.numel) (s.take sp.numel) ∧
      IntRows rest (z.drop sp.numel) (s.drop sp.numel)

end Clarabel.Solver.Bridge

namespace Clarabel.Solver
open Clarabel Residuals

/-- **B1** the iterate is strictly inside the cone: `τ, κ > 0`, `z` and `s` have exactly the rows
of the cone layout, and on every cone's rows `(z, s)` is in the interior of `K* × K` (zero cone:
no condition; nonnegative cone: all entries `> 0`; second-order cone: at least one row and
`Soc.Interior`) -/
def Interior (l : List Composite.Spec) (v : Vars ℝ) : Prop :=
  0 < v.τ ∧ 0 < v.κ ∧ v.z.size = Composite.totalNumel l ∧ v.s.size = Composite.totalNumel l ∧
    Bridge.IntRows l v.z.toList v.s.toList

/-- **B4** -/
theorem Interior.pos {l : List Composite.Spec} {v : Vars ℝ} (h : Interior l v) : 0 < v.τ ∧ 0 < v.κ :=
  ⟨h.1, h.2.1⟩

end Clarabel.Solver

namespace Clarabel.Solver.Bridge
open Clarabel Residuals

/-! ## the scalar part: `τ, κ > 0` along accepted steps -/

theorem inner_le (cones : List (Composite.ConeFn ℝ)) (symcond : Bool) :
    ∀ (a m : ℝ), Composite.inner cones symcond a = .ok m → m ≤ a := by
  induction cones with
  | nil =>
    intro a m h
    simp only [Composite.inner, List.foldlM_nil, pure, Except.pure, Except.ok.injEq] at h
    rw [h]
  | cons d t ih =>
    intro a m h
    simp only [Composite.inner, List.foldlM_cons] at h
    by_cases hs : (d.symmetric == symcond) = true
    · simp only [hs, ↓reduceIte, pure, Except.pure, bind, Except.bind] at h
      exact ih a m h
    · simp only [hs, Bool.false_eq_true, ↓reduceIte, bind, Except.bind] at h
      cases hd : d.stepLength a with
      | error e => rw [hd] at h; cases h
      | ok r =>
        rw [hd] at h
        simp only [pure, Except.pure] at h
        exact le_trans (ih _ m h) (min_le_left _ _)

theorem composite_le (cones : List (Composite.ConeFn ℝ)) (msf amax : ℝ) (r : ℝ × ℝ)
    (h : Composite.stepLength cones msf amax = .ok r) : r.1 ≤ amax ∧ r.2 = r.1 := by
  unfold Composite.stepLength at h
  obtain ⟨a1, h1, h⟩ := bind_ok_inv h
  obtain ⟨a3, h3, h⟩ := bind_ok_inv h
  cases h
  refine ⟨le_trans (inner_le _ _ _ _ h3) ?_, rfl⟩
  have g1 := inner_le _ _ _ _ h1
  split
  · exact le_trans (min_le_right _ _) g1
  · exact g1

/-- the shape of the model's `calc_step_length(Combined)` -/
theorem calcStepLength_inv {v d : Vars ℝ} {cs : List (ConeSt ℝ)} {mv msf a : ℝ}
    (h : calcStepLength v d cs mv msf .combined = .ok a) :
    ∃ fns r, stepFns cs d.z d.s v.z v.s = .ok fns ∧
      Composite.stepLength fns msf (Loop.Step.alphaMax v.τ v.κ d.τ d.κ mv) = .ok r ∧
      a = min r.1 r.2 * msf := by
  unfold calcStepLength at h
  dsimp only at h
  obtain ⟨⟨az, as⟩, h1, h⟩ := bind_ok_inv h
  unfold stepLength at h1
  obtain ⟨fns, hf, h1⟩ := bind_ok_inv h1
  refine ⟨fns, (az, as), hf, h1, ?_⟩
  simp only [pure, Except.pure, Except.ok.injEq] at h
  rw [← h]
  rfl

theorem addStep_inv {v d v' : Vars ℝ} {a : ℝ} (h : addStep v d a = .ok v') :
    v'.τ = v.τ + a * d.τ ∧ v'.κ = v.κ + a * d.κ ∧ d.s.size = v.s.size ∧ d.z.size = v.z.size ∧
      v'.s = Loop.Step.addStepVec v.s d.s a ∧ v'.z = Loop.Step.addStepVec v.z d.z a := by
  unfold addStep at h
  obtain ⟨x, hx, h⟩ := bind_ok_inv h
  obtain ⟨s, hs, h⟩ := bind_ok_inv h
  obtain ⟨z, hz, h⟩ := bind_ok_inv h
  cases h
  have inv : ∀ {x y r : Array ℝ} {site : String}, axpbyE a x 1 y site = .ok r →
      x.size = y.size ∧ r = Loop.Step.addStepVec y x a := by
    intro x y r site h
    unfold axpbyE at h
    split at h
    · cases h
    · rename_i hne
      cases h
      refine ⟨?_, rfl⟩
      simp only [bne_iff_ne, ne_eq, Decidable.not_not] at hne
      exact hne.symm
  obtain ⟨s1, s2⟩ := inv hs
  obtain ⟨z1, z2⟩ := inv hz
  exact ⟨rfl, rfl, s1, z1, s2, z2⟩

/-- `τ, κ > 0` is preserved by every accepted step (whatever the cones answer) -/
theorem taukappa_stepHyp (st : Settings ℝ) (h0 : 0 < st.maxStepFraction) (h1 : st.maxStepFraction < 1)
    (hm : 0 < st.maxValue) : StepHyp st (fun _ v => 0 < v.τ ∧ 0 < v.κ) := by
  intro S mu iter k a v' hS hG hk hok hkS e1 e2 ha hs hv
  rw [e1] at ha hv
  obtain ⟨hτ, hκ⟩ := hG
  obtain ⟨fns, r, _, hr, hae⟩ := calcStepLength_inv ha
  obtain ⟨g1, g2⟩ := composite_le _ _ _ _ hr
  obtain ⟨hp, _, hrt, hrk⟩ :=
    Loop.Step.alphaMax_bounds S.variables.τ S.variables.κ k.S.stepLhs.τ k.S.stepLhs.κ st.maxValue hτ hκ hm
  have hapos : 0 < a := by
    have : (0 : ℝ) ≤ max 0 st.minTerminateStepLength := le_max_left _ _
    have h' : ¬ a ≤ max 0 st.minTerminateStepLength := hs
    linarith [lt_of_not_ge h']
  have hale : a ≤ st.maxStepFraction * Loop.Step.alphaMax S.variables.τ S.variables.κ k.S.stepLhs.τ
      k.S.stepLhs.κ st.maxValue := by
    rw [hae, g2, min_self, mul_comm]
    exact mul_le_mul_of_nonneg_left g1 (le_of_lt h0)
  obtain ⟨t1, t2, _⟩ := addStep_inv hv
  rw [t1, t2]
  exact ⟨Loop.Step.scalar_pos _ _ st.maxValue a _ hτ (le_of_lt hapos) h1 h0
      (le_trans hale (mul_le_mul_of_nonneg_left hrt (le_of_lt h0))),
    Loop.Step.scalar_pos _ _ st.maxValue a _ hκ (le_of_lt hapos) h1 h0
      (le_trans hale (mul_le_mul_of_nonneg_left hrk (le_of_lt h0)))⟩

theorem taukappa_initHyp (st : Settings ℝ) : InitHyp st (fun _ v => 0 < v.τ ∧ 0 < v.κ) := by
  intro S S0 hS h
  unfold SolverSt.defaultStart at h
  dsimp only at h
  obtain ⟨⟨ok1, K1⟩, hu, h⟩ := bind_ok_inv h
  obtain ⟨⟨ok2, v2, K2⟩, hi, h⟩ := bind_ok_inv h
  obtain ⟨v3, hsy, h⟩ := bind_ok_inv h
  cases h
  unfold symmetricInitialization at hsy
  dsimp only at hsy
  obtain ⟨s, hs, hsy⟩ := bind_ok_inv hsy
  obtain ⟨z, hz, hsy⟩ := bind_ok_inv hsy
  cases hsy
  exact ⟨one_pos, one_pos⟩


/-! ## the cone part: the StepK point of the model's iterate and direction -/

open StepK in
/-- the StepK block of cone `c` with its slices -/
def mkBlk : ConeSt ℝ → (z s dz ds : Array ℝ) → StepK.Blk ℝ
  | .zero _, z, s, dz, ds => .zero z s dz ds
  | .nonneg _, z, s, dz, ds => .nn z s dz ds
  | .soc _, z, s, dz, ds => .soc z s dz ds

/-- the StepK blocks of the flat `(z, s, dz, ds)` cut into the cones' ranges -/
def mkBlks : List (ConeSt ℝ) → (z s dz ds : List ℝ) → List (StepK.Blk ℝ)
  | [], _, _, _, _ => []
  | c :: cs, z, s, dz, ds =>
    mkBlk c (z.take c.numel).toArray (s.take c.numel).toArray (dz.take c.numel).toArray
        (ds.take c.numel).toArray
      :: mkBlks cs (z.drop c.numel) (s.drop c.numel) (dz.drop c.numel) (ds.drop c.numel)

/-- `cutE` on lists -/
def cutList : List (ConeSt ℝ) → List ℝ → List (Array ℝ)
  | [], _ => []
  | c :: cs, l => (l.take c.numel).toArray :: cutList cs (l.drop c.numel)

theorem extract_eq (v : Array ℝ) (a n : Nat) :
    v.extract a (a + n) = ((v.toList.drop a).take n).toArray := by
  apply Array.ext'
  simp [Array.toList_extract]

theorem cutE_go_eq (v : Array ℝ) (site : String) :
    ∀ (cones : List (ConeSt ℝ)) (start : Nat) (ps : List (Array ℝ)),
      cutE.go v site cones start = .ok ps → ps = cutList cones (v.toList.drop start) := by
  intro cones
  induction cones with
  | nil => intro start ps h; unfold cutE.go at h; cases h; rfl
  | cons c rest ih =>
    intro start ps h
    unfold cutE.go at h
    split at h
    · cases h
    · obtain ⟨tl, htl, h⟩ := bind_ok_inv h
      cases h
      rw [ih _ _ htl, cutList, extract_eq, List.drop_drop]

theorem cutE_eq {cones : List (ConeSt ℝ)} {v : Array ℝ} {site : String} {ps : List (Array ℝ)}
    (h : cutE cones v site = .ok ps) : ps = cutList cones v.toList :=
  cutE_go_eq v site cones 0 ps h

/-- the closures the model hands to `Composite.stepLength` are those of the StepK blocks -/
theorem stepFns_eq (ls : StepK.LineSearch ℝ) {cs : List (ConeSt ℝ)} {dz ds z s : Array ℝ}
    {fns : List (Composite.ConeFn ℝ)} (h : stepFns cs dz ds z s = .ok fns) :
    fns = (mkBlks cs z.toList s.toList dz.toList ds.toList).map (StepK.Blk.coneFn ls) := by
  unfold stepFns at h
  obtain ⟨dzs, h1, h⟩ := bind_ok_inv h
  obtain ⟨dss, h2, h⟩ := bind_ok_inv h
  obtain ⟨zs, h3, h⟩ := bind_ok_inv h
  obtain ⟨ss, h4, h⟩ := bind_ok_inv h
  cases h
  rw [cutE_eq h1, cutE_eq h2, cutE_eq h3, cutE_eq h4]
  clear * - ls
  generalize dz.toList = ldz
  generalize ds.toList = lds
  generalize z.toList = lz
  generalize s.toList = lss
  induction cs generalizing ldz lds lz lss with
  | nil => rfl
  | cons c rest ih =>
    simp only [cutList, mkBlks, List.zip_cons_cons, List.map_cons]
    congr 1
    · cases c <;> rfl
    · exact ih _ _ _ _

theorem compSpec_numel (c : ConeSt ℝ) : c.compSpec.numel = c.numel := by cases c <;> rfl

theorem totalNumel_compSpec (cs : List (ConeSt ℝ)) :
    Composite.totalNumel (cs.map ConeSt.compSpec) = numelAll cs := by
  induction cs with
  | nil => rfl
  | cons c rest ih =>
    rw [numelAll_cons, ← ih]
    simp only [Composite.totalNumel, List.map_cons, List.sum_cons, compSpec_numel]

theorem mkBlk_interior_iff (c : ConeSt ℝ) (z s dz ds : List ℝ) :
    (mkBlk c z.toArray s.toArray dz.toArray ds.toArray).Interior ↔ BlkInt c.compSpec z s := by
  cases c <;> exact Iff.rfl

/-- the blocks are interior iff the rows are (whatever the direction) -/
theorem mkBlks_interior_iff (cs : List (ConeSt ℝ)) :
    ∀ (z s dz ds : List ℝ), (∀ b ∈ mkBlks cs z s dz ds, b.Interior) ↔
      IntRows (cs.map ConeSt.compSpec) z s := by
  induction cs with
  | nil => intro z s dz ds; simp [mkBlks, IntRows]
  | cons c rest ih =>
    intro z s dz ds
    simp only [mkBlks, List.forall_mem_cons, List.map_cons, IntRows, compSpec_numel]
    rw [mkBlk_interior_iff, ih]

theorem mkBlks_dirOk (cs : List (ConeSt ℝ)) :
    ∀ (z s dz ds : List ℝ), dz.length = z.length → ds.length = s.length →
      ∀ b ∈ mkBlks cs z s dz ds, b.DirOk := by
  induction cs with
  | nil => intro z s dz ds _ _ b hb; cases hb
  | cons c rest ih =>
    intro z s dz ds h1 h2 b hb
    simp only [mkBlks, List.mem_cons] at hb
    rcases hb with rfl | hb
    · cases c with
      | zero d => trivial
      | nonneg K =>
        exact ⟨by simp [List.length_take, h1], by simp [List.length_take, h2]⟩
      | soc K =>
        exact ⟨by simp [List.length_take, h1], by simp [List.length_take, h2]⟩
    · exact ih _ _ _ _ (by simp [h1]) (by simp [h2]) b hb

theorem axpbyL_take (a : ℝ) (v d : List ℝ) (n : Nat) :
    (StepK.axpbyL a v d).take n = StepK.axpbyL a (v.take n) (d.take n) := by
  simp only [StepK.axpbyL, ← List.map_take, List.zip, List.take_zipWith]

theorem axpbyL_drop (a : ℝ) (v d : List ℝ) (n : Nat) :
    (StepK.axpbyL a v d).drop n = StepK.axpbyL a (v.drop n) (d.drop n) := by
  simp only [StepK.axpbyL, ← List.map_drop, List.zip, List.drop_zipWith]

theorem addStepVec_toArray (v d : List ℝ) (a : ℝ) :
    Loop.Step.addStepVec v.toArray d.toArray a = (StepK.axpbyL a v d).toArray := rfl

theorem mkBlk_addStep (c : ConeSt ℝ) (z s dz ds : Array ℝ) (a : ℝ) :
    (mkBlk c z s dz ds).addStep a =
      mkBlk c (Loop.Step.addStepVec z dz a) (Loop.Step.addStepVec s ds a) dz ds := by
  cases c <;> rfl

/-- cutting into cone blocks commutes with `add_step` -/
theorem mkBlks_addStep (cs : List (ConeSt ℝ)) (a : ℝ) :
    ∀ (z s dz ds : List ℝ), (mkBlks cs z s dz ds).map (StepK.Blk.addStep a) =
      mkBlks cs (StepK.axpbyL a z dz) (StepK.axpbyL a s ds) dz ds := by
  induction cs with
  | nil => intro z s dz ds; rfl
  | cons c rest ih =>
    intro z s dz ds
    simp only [mkBlks, List.map_cons, mkBlk_addStep, addStepVec_toArray, ih, axpbyL_take, axpbyL_drop]


/-- the StepK point (C07) of the model's iterate `v` and direction `d` over the cones `cs` -/
def ptOf (cs : List (ConeSt ℝ)) (v d : Vars ℝ) : StepK.Pt ℝ :=
  ⟨v.x, d.x, mkBlks cs v.z.toList v.s.toList d.z.toList d.s.toList, v.τ, v.κ, d.τ, d.κ⟩

/-- the line-search settings handed to StepK (symmetric cones never read them) -/
noncomputable def lsDummy : StepK.LineSearch ℝ := ⟨1 / 2, 0, 0⟩

/-- the model's `calc_step_length(Combined)` IS C07's `StepK.calcStepLength` on `ptOf` -/
theorem calcStepLength_stepK {v d : Vars ℝ} {cs : List (ConeSt ℝ)} {mv msf a : ℝ}
    (h : calcStepLength v d cs mv msf .combined = .ok a) :
    StepK.calcStepLength mv lsDummy (ptOf cs v d) true msf = .ok a := by
  obtain ⟨fns, r, hf, hr, hae⟩ := calcStepLength_inv h
  rw [stepFns_eq lsDummy hf] at hr
  unfold StepK.calcStepLength StepK.coneStep
  dsimp only [ptOf]
  rw [hr, hae]
  rfl

/-- one accepted step of the model, on the StepK level: from an interior iterate over sized
vectors, the new iterate is interior again -/
theorem interior_step_model {cs : List (ConeSt ℝ)} {v d v' : Vars ℝ} {mv msf a : ℝ}
    (h0 : 0 < msf) (h1 : msf < 1) (hm : 0 < mv)
    (hI : Interior (cs.map ConeSt.compSpec) v) (hdz : d.z.size = v.z.size) (hds : d.s.size = v.s.size)
    (ha : calcStepLength v d cs mv msf .combined = .ok a) (hpos : 0 ≤ a)
    (hv : addStep v d a = .ok v') : Interior (cs.map ConeSt.compSpec) v' := by
  obtain ⟨hτ, hκ, hzs, hss, hrows⟩ := hI
  have hPI : (ptOf cs v d).Interior :=
    ⟨hτ, hκ, (mkBlks_interior_iff cs _ _ _ _).mpr hrows⟩
  have hPD : (ptOf cs v d).DirOk :=
    mkBlks_dirOk cs _ _ _ _ (by simpa using hdz) (by simpa using hds)
  obtain ⟨_, _, _, _, hstep⟩ := StepK.interior_step mv lsDummy (by norm_num [lsDummy])
    (by norm_num [lsDummy]) hm (ptOf cs v d) hPI hPD msf a h0 h1 (calcStepLength_stepK ha)
  obtain ⟨gτ, gκ, gB⟩ := hstep a hpos (le_refl _)
  obtain ⟨t1, t2, _, _, t5, t6⟩ := addStep_inv hv
  refine ⟨?_, ?_, ?_, ?_, ?_⟩
  · rw [t1]; exact gτ
  · rw [t2]; exact gκ
  · rw [t6, StepK.addStepVec_size _ _ _ hdz]; exact hzs
  · rw [t5, StepK.addStepVec_size _ _ _ hds]; exact hss
  · rw [t5, t6]
    have hb : ∀ b ∈ (mkBlks cs v.z.toList v.s.toList d.z.toList d.s.toList).map (StepK.Blk.addStep a),
        b.Interior := gB
    rw [mkBlks_addStep] at hb
    exact (mkBlks_interior_iff cs _ _ _ _).mp hb

end Clarabel.Solver.Bridge

namespace Clarabel.Solver
open Clarabel Residuals Bridge

/-- **B2** every accepted step of the whole-solver model keeps the iterate in the interior of
the cone -/
theorem interior_stepHyp (st : Settings ℝ) (h0 : 0 < st.maxStepFraction) (h1 : st.maxStepFraction < 1)
    (hm : 0 < st.maxValue) : StepHyp st Interior := by
  intro S mu iter k a v' hS hG hk hok hkS e1 e2 ha hs hv
  have hapos : 0 < a := by
    have : (0 : ℝ) ≤ max 0 st.minTerminateStepLength := le_max_left _ _
    have h' : ¬ a ≤ max 0 st.minTerminateStepLength := hs
    linarith [lt_of_not_ge h']
  have hG' : Interior (S.cones.map ConeSt.compSpec) k.S.variables := by rw [e1]; exact hG
  exact interior_step_model h0 h1 hm hG' (by rw [hkS.stepLhs.z, hkS.vars.z])
    (by rw [hkS.stepLhs.s, hkS.vars.s]) ha (le_of_lt hapos) hv

end Clarabel.Solver

namespace Clarabel.Solver.Bridge
open Clarabel Residuals

/-! ## `default_start()` -/

theorem foldlM_ok_each {β σ : Type} (f : σ → β → MErr σ) :
    ∀ (l : List β) (init r : σ), l.foldlM f init = .ok r → ∀ b ∈ l, ∃ s s', f s b = .ok s' := by
  intro l
  induction l with
  | nil => intro _ _ _ b hb; cases hb
  | cons x t ih =>
    intro init r h b hb
    simp only [List.foldlM_cons] at h
    obtain ⟨s1, h1, h⟩ := bind_ok_inv h
    rcases List.mem_cons.mp hb with rfl | hb
    · exact ⟨init, s1, h1⟩
    · exact ih s1 r h b hb

/-- a block whose margins are computed is of a supported kind, and a second-order block has at
least one row -/
theorem symSpec_of_margins1 (sp : Composite.Spec) (blk : Array ℝ) (hsz : blk.size = sp.numel)
    (r : Option ℝ × ℝ) (h : Composite.margins1 sp blk = .ok r) : Composite.SymSpec sp := by
  cases sp with
  | zero n => trivial
  | nonneg n => trivial
  | psd n => simp only [Composite.margins1] at h; cases h
  | soc n =>
    show 1 ≤ n
    simp only [Composite.margins1] at h
    obtain ⟨⟨a, b⟩, h1, _⟩ := bind_ok_inv h
    unfold Soc.margins at h1
    obtain ⟨⟨z0, z1⟩, h2, _⟩ := bind_ok_inv h1
    have := soc_split_ok h2
    have hn : blk.size = n := hsz
    omega

theorem symSpec_of_cutL (specs : List Composite.Spec) :
    ∀ (l : List ℝ) (parts : List (Composite.Spec × Array ℝ)), Composite.cutL specs l = .ok parts →
      (∀ p ∈ parts, ∃ r, Composite.margins1 p.1 p.2 = .ok r) → ∀ sp ∈ specs, Composite.SymSpec sp := by
  induction specs with
  | nil => intro _ _ _ _ sp hsp; cases hsp
  | cons sp0 rest ih =>
    intro l parts h hm sp hsp
    obtain ⟨hlen, tl, htl, rfl⟩ := Composite.cutL_cons_ok sp0 rest l parts h
    rcases List.mem_cons.mp hsp with rfl | hsp
    · obtain ⟨r, hr⟩ := hm _ List.mem_cons_self
      exact symSpec_of_margins1 _ _ (by simp [hlen]) r hr
    · exact ih _ tl htl (fun p hp => hm p (List.mem_cons_of_mem _ hp)) sp hsp

/-- `_shift_to_cone_interior` succeeds only on supported cone kinds with non-empty second-order
cones (it reads `z[0]` of every second-order block) -/
theorem symSpec_of_shift {specs : List Composite.Spec} {z z' : Array ℝ} {primal : Bool}
    (h : Composite.shiftToConeInterior specs z primal = .ok z') : ∀ sp ∈ specs, Composite.SymSpec sp := by
  unfold Composite.shiftToConeInterior at h
  obtain ⟨⟨mm, pm⟩, hmar, _⟩ := bind_ok_inv h
  unfold Composite.margins at hmar
  obtain ⟨parts, hcut, hfold⟩ := bind_ok_inv hmar
  refine symSpec_of_cutL specs _ parts hcut ?_
  intro p hp
  obtain ⟨s, s', hf⟩ := foldlM_ok_each _ _ _ _ hfold p hp
  obtain ⟨r, hr, _⟩ := bind_ok_inv hf
  exact ⟨r, hr⟩

theorem blkOf_blkInt (sp : Composite.Spec) (z s : List ℝ)
    (h : (StepK.blkOf sp z.toArray s.toArray).Interior) : BlkInt sp z s := by
  cases sp <;> exact h

theorem blksOf_intRows (specs : List Composite.Spec) :
    ∀ (lz ls : List ℝ) (pz ps : List (Composite.Spec × Array ℝ)), Composite.cutL specs lz = .ok pz →
      Composite.cutL specs ls = .ok ps → (∀ b ∈ StepK.blksOf pz ps, b.Interior) → IntRows specs lz ls := by
  induction specs with
  | nil => intro _ _ _ _ _ _ _; trivial
  | cons sp rest ih =>
    intro lz ls pz ps h1 h2 hb
    obtain ⟨_, tz, htz, rfl⟩ := Composite.cutL_cons_ok sp rest lz pz h1
    obtain ⟨_, ts, hts, rfl⟩ := Composite.cutL_cons_ok sp rest ls ps h2
    simp only [StepK.blksOf, List.forall_mem_cons] at hb
    exact ⟨blkOf_blkInt sp _ _ hb.1, ih _ _ tz ts htz hts hb.2⟩

/-- `symmetric_initialization` over sized vectors gives an interior iterate -/
theorem symmetricInitialization_interior {cs : List (ConeSt ℝ)} {v v' : Vars ℝ}
    (hz : v.z.size = numelAll cs) (hs : v.s.size = numelAll cs)
    (h : symmetricInitialization v cs = .ok v') : Interior (cs.map ConeSt.compSpec) v' := by
  unfold symmetricInitialization at h
  dsimp only at h
  obtain ⟨s', hs', h⟩ := bind_ok_inv h
  obtain ⟨z', hz', h⟩ := bind_ok_inv h
  cases h
  have hsym := symSpec_of_shift hs'
  have hT := totalNumel_compSpec cs
  obtain ⟨z'', s'', pz, ps, e1, e2, c2, c1, _, _, hB⟩ :=
    StepK.symmetric_init_interior (cs.map ConeSt.compSpec) v.x v.z v.s hsym
      (by rw [hT, hz]) (by rw [hT, hs])
  rw [hs'] at e1; cases e1
  rw [hz'] at e2; cases e2
  refine ⟨one_pos, one_pos, ?_, ?_, ?_⟩
  · show z'.size = _
    rw [shiftToConeInterior_size hz', hT, hz]
  · show s'.size = _
    rw [shiftToConeInterior_size hs', hT, hs]
  · exact blksOf_intRows _ _ _ pz ps c2 c1 hB

end Clarabel.Solver.Bridge

namespace Clarabel.Solver
open Clarabel Residuals Bridge

/-- **B3** `default_start()` puts the iterate in the interior of the cone -/
theorem interior_initHyp (st : Settings ℝ) : InitHyp st Interior := by
  intro S S0 hS h
  unfold SolverSt.defaultStart at h
  dsimp only at h
  obtain ⟨⟨ok1, K1⟩, hu, h⟩ := bind_ok_inv h
  obtain ⟨⟨ok2, v2, K2⟩, hi, h⟩ := bind_ok_inv h
  obtain ⟨v3, hsy, h⟩ := bind_ok_inv h
  cases h
  obtain ⟨hcs, _⟩ := setIdentityScaling_shape S.cones hS.conesOk
  obtain ⟨i1, _⟩ := solveInitialPoint_shape hi
  have hn : numelAll (setIdentityScaling S.cones) = S.data.m := by rw [← hcs.numelAll]; exact hS.numel
  exact symmetricInitialization_interior (by rw [hn, ← i1.z]; exact hS.vars.z)
    (by rw [hn, ← i1.s]; exact hS.vars.s) hsy

end Clarabel.Solver

namespace Clarabel.Solver.Bridge
open Clarabel Residuals

/-! ## interior ⇒ membership (the predicates of C01 / C02) -/

theorem sumSq_eq_dotL (v : List ℝ) : Equil.sumSq v = Soc.dotL v v := by
  induction v with
  | nil => simp [Equil.sumSq, Soc.dotL, Vec.dot]
  | cons x t ih => rw [Equil.sumSq, Soc.dotL_cons, ih]

theorem socMem_of_interior (z0 : ℝ) (z1 : List ℝ) (h : Soc.Interior z0 z1) : Equil.SocMem (z0 :: z1) := by
  obtain ⟨h0, h1⟩ := h
  refine ⟨le_of_lt h0, ?_⟩
  rw [sumSq_eq_dotL]
  nlinarith

/-- one cone: what `make_cone` builds has the rows of the user's cone, and strict interior on
its rows gives membership in the cone and its dual -/
theorem makeCone_mem {t : ConeT ℝ} {c : ConeSt ℝ} (h : makeCone t = .ok c) :
    c.compSpec.numel = t.nvars ∧ ∀ z s, BlkInt c.compSpec z s →
      Equil.ConeMemDual t z ∧ ((∀ n, c.compSpec = .zero n → ∀ x ∈ s, x = 0) → Equil.ConeMem t s) := by
  cases t with
  | zero n =>
    cases h
    exact ⟨rfl, fun z s _ => ⟨trivial, fun hz => hz n rfl⟩⟩
  | nonneg n =>
    cases h
    refine ⟨by simp [ConeSt.compSpec, Composite.Spec.numel, Nonneg.new, ConeT.nvars], ?_⟩
    intro z s hb
    obtain ⟨_, hz, hs⟩ := hb
    exact ⟨fun x hx => le_of_lt (hz x hx), fun _ x hx => le_of_lt (hs x hx)⟩
  | soc n =>
    simp only [makeCone] at h
    obtain ⟨K, hK, h⟩ := bind_ok_inv h
    cases h
    unfold Soc.new at hK
    split at hK
    · cases hK
    · cases hK
      refine ⟨rfl, ?_⟩
      intro z s hb
      obtain ⟨z0, z1, s0, s1, rfl, rfl, hz, hs⟩ := hb
      exact ⟨socMem_of_interior z0 z1 hz, fun _ => socMem_of_interior s0 s1 hs⟩
  | exp => cases h
  | pow a => cases h
  | genpow al d => cases h
  | psd n => cases h

theorem mem_rows : ∀ (ts : List (ConeT ℝ)) (K : List (ConeSt ℝ)), makeCones ts = .ok K →
    ∀ z s, IntRows (K.map ConeSt.compSpec) z s →
      Equil.CompositeMem Equil.ConeMemDual ts z ∧
        (ZeroRows (K.map ConeSt.compSpec) s → Equil.CompositeMem Equil.ConeMem ts s) := by
  intro ts
  induction ts with
  | nil => intro K _ z s _; exact ⟨trivial, fun _ => trivial⟩
  | cons t ts ih =>
    intro K h z s hI
    unfold makeCones at h
    simp only [List.mapM_cons] at h
    obtain ⟨c, hc, h⟩ := bind_ok_inv h
    obtain ⟨K', hK', h⟩ := bind_ok_inv h
    cases h
    obtain ⟨hn, hmem⟩ := makeCone_mem hc
    simp only [List.map_cons, IntRows, hn] at hI
    obtain ⟨hb, hrest⟩ := hI
    obtain ⟨i1, i2⟩ := ih K' hK' _ _ hrest
    obtain ⟨m1, m2⟩ := hmem _ _ hb
    refine ⟨⟨m1, i1⟩, ?_⟩
    intro hZ
    simp only [List.map_cons] at hZ
    cases hsp : c.compSpec with
    | zero n =>
      rw [hsp] at hZ hn
      simp only [ZeroRows] at hZ
      have hn' : n = t.nvars := hn
      subst hn'
      exact ⟨m2 (fun n' e => by rw [hsp] at e; cases e; exact hZ.1), i2 hZ.2⟩
    | nonneg n =>
      rw [hsp] at hZ hn
      simp only [ZeroRows] at hZ
      have hn' : n = t.nvars := hn
      subst hn'
      exact ⟨m2 (fun n' e => by rw [hsp] at e; cases e), i2 hZ⟩
    | soc n =>
      rw [hsp] at hZ hn
      simp only [ZeroRows] at hZ
      have hn' : n = t.nvars := hn
      subst hn'
      exact ⟨m2 (fun n' e => by rw [hsp] at e; cases e), i2 hZ⟩
    | psd n =>
      rw [hsp] at hb
      exact absurd hb id

end Clarabel.Solver.Bridge

namespace Clarabel.Solver
open Clarabel Residuals Bridge

/-- **B5** an interior iterate has `z ∈ K*` … -/
theorem Interior.mem_dual {ts : List (ConeT ℝ)} {K : List (ConeSt ℝ)} {v : Vars ℝ}
    (hK : makeCones ts = .ok K) (h : Interior (K.map ConeSt.compSpec) v) :
    Equil.CompositeMem Equil.ConeMemDual ts v.z.toList :=
  (mem_rows ts K hK _ _ h.2.2.2.2).1

/-- **B5** … and, with `s = 0` on the zero-cone rows, `s ∈ K` -/
theorem Interior.mem_primal {ts : List (ConeT ℝ)} {K : List (ConeSt ℝ)} {v : Vars ℝ}
    (hK : makeCones ts = .ok K) (h : Interior (K.map ConeSt.compSpec) v)
    (hz : ZeroS (K.map ConeSt.compSpec) v) :
    Equil.CompositeMem Equil.ConeMem ts v.s.toList :=
  (mem_rows ts K hK _ _ h.2.2.2.2).2 hz

end Clarabel.Solver

namespace Clarabel.Solver.Bridge
open Clarabel Residuals

/-! ## the layout travels along `SameShape` (helper for the trajectory induction) -/

theorem compSpec_of_shape {α : Type} {cs cs' : List (ConeSt α)} (h : ConesShape cs cs') :
    cs.map ConeSt.compSpec = cs'.map ConeSt.compSpec := by
  induction h with
  | nil => rfl
  | @cons c c' _ _ hc _ ih =>
    simp only [List.map_cons, ih]
    congr 1
    cases c <;> cases c' <;> try exact hc.elim
    · show Composite.Spec.zero _ = Composite.Spec.zero _
      rw [show _ = _ from hc]
    · show Composite.Spec.nonneg _ = Composite.Spec.nonneg _
      rw [hc.1]
    · show Composite.Spec.soc _ = Composite.Spec.soc _
      rw [hc.1]

theorem layout_of_shape {α : Type} {S S' : SolverSt α} (h : ConesShape S.cones S'.cones) :
    layout S = layout S' := compSpec_of_shape h

/-! ## non-vacuity -/

/-- `Interior` is satisfiable on a layout with all three cone kinds: a zero cone (1 row), a
nonnegative cone (2 rows) and a second-order cone (3 rows) -/
example : Interior [.zero 1, .nonneg 2, .soc 3]
    { x := #[], s := [0, 1, 2, 2, 1, 0].toArray, z := [5, 1, 1, 3, 0, 1].toArray, τ := 1, κ := 1 } := by
  refine ⟨one_pos, one_pos, rfl, rfl, trivial, ⟨rfl, ?_, ?_⟩, ⟨3, [0, 1], 2, [1, 0], rfl, rfl, ?_, ?_⟩, trivial⟩
  · intro v hv
    change v ∈ [1, 1] at hv
    simp only [List.mem_cons, List.not_mem_nil, or_false] at hv
    rcases hv with rfl | rfl <;> norm_num
  · intro v hv
    change v ∈ [1, 2] at hv
    simp only [List.mem_cons, List.not_mem_nil, or_false] at hv
    rcases hv with rfl | rfl <;> norm_num
  · exact ⟨by norm_num, by simp only [Soc.dotL_cons]; norm_num [Soc.dotL, Vec.dot]⟩
  · exact ⟨by norm_num, by simp only [Soc.dotL_cons]; norm_num [Soc.dotL, Vec.dot]⟩

/-- the hypotheses of `interior_stepHyp` on the settings are those of the defaults
(`max_step_fraction = 0.99`, `T::max_value() > 0`) -/
example : (0 : ℝ) < 0.99 ∧ (0.99 : ℝ) < 1 := by norm_num

end Clarabel.Solver.Bridge
