/-
  C07, round 3: composites that also contain PSD and generalised power cones.

  * PSD blocks under the spectral contract (C15): after `calc_step_length` + `add_step` the
    *scaled* iterates `Λ + a·mat(W Δz)` and `Λ + a·mat(W⁻ᵀ Δs)` are positive definite.
  * generalised power blocks: the accepted step is at most `max_step_fraction` times each of the
    cone's two accepted back-tracking candidates, and those candidates lie in the open cones
    (the stepped point itself would need convexity of that cone, which is not proved).
-/
import ClarabelProofs.Lemmas.StepKInterior

namespace Clarabel.StepK
open Clarabel Nonsym Loop.Step PsdStep PsdTri

/-- the spectral contract for a PSD block: a non-empty cone, `Λisqrt = Λ^{-1/2} > 0`, and the two
LAPACK answers are the least eigenvalues of the two scaled directions -/
def PsdContract (K : PsdTri.Cone ℝ) (γz γs : ℝ) (dz ds : Array ℝ) : Prop :=
  0 < K.n ∧ ScalingOk K.n K.lam K.lamIsqrt ∧
    (∀ d, mulW K false dz dz 1 0 = .ok d → IsMinEig K.n (scaledDir d K.lamIsqrt) γz) ∧
    (∀ d, mulWinv K true ds ds 1 0 = .ok d → IsMinEig K.n (scaledDir d K.lamIsqrt) γs)

/-- what the composite theorem needs from a block: covered kinds at interior points, PSD blocks
under the spectral contract, generalised power blocks always -/
def Blk.StepOk : Blk ℝ → Prop
  | .genpow .. => True
  | .psd K γz γs _ _ dz ds => ∃ gz gs, γz = some gz ∧ γs = some gs ∧ PsdContract K gz gs dz ds
  | b => b.Interior ∧ b.DirOk

theorem stepSpec_posDef {n : Nat} {lam lisqrt d : Array ℝ} {γ amax t : ℝ}
    (hs : ScalingOk n lam lisqrt) (hγ : IsMinEig n (scaledDir d lisqrt) γ)
    (h : StepSpec n lam d amax t) (a f : ℝ) (ha0 : 0 ≤ a) (hf0 : 0 < f) (hf1 : f < 1)
    (hle : a ≤ f * t) : PosDef n (shifted lam d a) := by
  obtain ⟨t0, _, hpd, _, _⟩ := h
  by_cases ht : t = 0
  · have : a = 0 := by rw [ht] at hle; simp at hle; linarith
    rw [this]
    exact shifted_posDef n lam lisqrt d γ 0 hs hγ.1 (le_refl _) (by simp)
  · have htpos : 0 < t := lt_of_le_of_ne t0 (Ne.symm ht)
    exact hpd a ha0 (lt_of_le_of_lt hle (by nlinarith))

theorem Blk.StepOk.stepNonneg (ls : LineSearch ℝ) (hs0 : 0 ≤ ls.step) (hs1 : ls.step ≤ 1) (b : Blk ℝ)
    (h : b.StepOk) : Composite.StepNonneg (b.coneFn ls) := by
  cases b with
  | zero z s dz ds => exact Blk.stepNonneg ls hs0 hs1 _ h.1 h.2
  | nn z s dz ds => exact Blk.stepNonneg ls hs0 hs1 _ h.1 h.2
  | soc z s dz ds => exact Blk.stepNonneg ls hs0 hs1 _ h.1 h.2
  | exp z s dz ds => exact Blk.stepNonneg ls hs0 hs1 _ h.1 h.2
  | pow a z s dz ds => exact Blk.stepNonneg ls hs0 hs1 _ h.1 h.2
  | genpow al z s dz ds =>
    intro a ha r hr
    simp only [Blk.coneFn] at hr
    obtain ⟨h1, h2⟩ := GenPow.stepLength_outcome al dz ds z s ls.step ls.amin a ls.fuel r.1 r.2 hr
    exact ⟨(h1.bounds ha hs0 hs1).1, (h2.bounds ha hs0 hs1).1⟩
  | psd K γz γs z s dz ds =>
    obtain ⟨gz, gs, rfl, rfl, hn, hsc, hγz, hγs⟩ := h
    intro a ha r hr
    simp only [Blk.coneFn] at hr
    obtain ⟨_, _, _, _, p1, p2⟩ := PsdStep.stepLength_spec K dz ds gz gs a r hr hn hsc ha hγz hγs
    exact ⟨p1.1, p2.1⟩

/-- the composite answer over blocks that are `StepOk` -/
theorem coneStep_signed (ls : LineSearch ℝ) (hs0 : 0 ≤ ls.step) (hs1 : ls.step ≤ 1)
    (blks : List (Blk ℝ)) (hok : ∀ b ∈ blks, b.StepOk) (f amax : ℝ) (hf0 : 0 < f) (ham : 0 ≤ amax)
    (r : ℝ × ℝ) (h : coneStep ls blks f amax = .ok r) :
    r.1 = r.2 ∧ 0 ≤ r.1 ∧ r.1 ≤ amax ∧ (blks.all Blk.symmetric = false → r.1 ≤ f) ∧
      ∀ b ∈ blks, ∃ a' rc, 0 ≤ a' ∧ a' ≤ amax ∧ (b.coneFn ls).stepLength a' = .ok rc ∧
        r.1 ≤ rc.1 ∧ r.1 ≤ rc.2 := by
  have hnn : ∀ c ∈ blks.map (Blk.coneFn ls), Composite.StepNonneg c := by
    intro c hc
    obtain ⟨b, hb, rfl⟩ := coneFn_mem hc
    exact Blk.StepOk.stepNonneg ls hs0 hs1 b (hok b hb)
  obtain ⟨e, g0, g1, g2, g3⟩ := Composite.stepLength_signed _ f amax r hnn ham (le_of_lt hf0) h
  refine ⟨e, g0, g1, fun hall => g2 (by rw [all_symmetric_map]; exact hall), fun b hb => ?_⟩
  exact g3 (b.coneFn ls) (List.mem_map_of_mem hb)

/-- what one block looks like after a step of length `a` -/
def Blk.After (ls : LineSearch ℝ) (a : ℝ) : Blk ℝ → Prop
  | .genpow al z s dz ds =>
    -- the cone accepted two candidates `cz, cs ≥ a` that lie in the open cones (or are the failure value 0)
    ∃ cz cs, a ≤ cz ∧ a ≤ cs ∧
      (cz = 0 ∨ ∀ u w, (Backtrack.candidate z dz cz).toList = u ++ w → al.size = u.length →
        C14.GenPowDualInterior al.toList u w) ∧
      (cs = 0 ∨ ∀ u w, (Backtrack.candidate s ds cs).toList = u ++ w → al.size = u.length →
        C14.GenPowPrimalInterior al.toList u w)
  | .psd K _ _ _ _ dz ds =>
    ∃ dzW dsW, mulW K false dz dz 1 0 = .ok dzW ∧ mulWinv K true ds ds 1 0 = .ok dsW ∧
      PosDef K.n (shifted K.lam dzW a) ∧ PosDef K.n (shifted K.lam dsW a)
  | b => (b.addStep a).Interior

/-- [R] one step over a composite of **all** cone kinds.  `τ, κ > 0`; covered blocks interior;
PSD blocks under the spectral contract; generalised power blocks with positive exponents.  Then the
value `α` of `calc_step_length(Combined)` (`0 < f < 1`) is in `[0, f·min(1, ατ, ακ)]`, `τ, κ` stay
positive under every `0 ≤ a ≤ α`, every covered block is interior after `add_step(a)`, every PSD
block's scaled iterates `Λ + a·mat(W Δz)`, `Λ + a·mat(W⁻ᵀ Δs)` are positive definite, and for every
generalised power block `a` is below two accepted candidates of that cone's own search. -/
theorem mixed_step (maxValue : ℝ) (ls : LineSearch ℝ) (hs0 : 0 ≤ ls.step) (hs1 : ls.step ≤ 1)
    (hmax : 0 < maxValue) (p : Pt ℝ) (hτ : 0 < p.τ) (hκ : 0 < p.κ) (hok : ∀ b ∈ p.blks, b.StepOk)
    (hgp : ∀ al z s dz ds, Blk.genpow al z s dz ds ∈ p.blks → ∀ x ∈ al.toList, 0 < x)
    (f α : ℝ) (hf0 : 0 < f) (hf1 : f < 1) (h : calcStepLength maxValue ls p true f = .ok α) :
    0 ≤ α ∧ α ≤ f * alphaMax p.τ p.κ p.dτ p.dκ maxValue ∧
      ∀ a, 0 ≤ a → a ≤ α → 0 < addStepScalar p.τ p.dτ a ∧ 0 < addStepScalar p.κ p.dκ a ∧
        ∀ b ∈ p.blks, b.After ls a := by
  obtain ⟨hp, h1, hrt, hrk⟩ := alphaMax_bounds p.τ p.κ p.dτ p.dκ maxValue hτ hκ hmax
  obtain ⟨r, hr, hα⟩ := calcStepLength_ok maxValue ls p true f α h
  obtain ⟨e, g0, g1, _, g3⟩ := coneStep_signed ls hs0 hs1 p.blks hok f _ hf0 (le_of_lt hp) r hr
  have hα' : α = f * r.1 := by
    rw [hα, ← e]; simp only [↓reduceIte, min_self]; ring
  have hαle : α ≤ f * alphaMax p.τ p.κ p.dτ p.dκ maxValue := by
    rw [hα']; exact mul_le_mul_of_nonneg_left g1 (le_of_lt hf0)
  refine ⟨by rw [hα']; exact mul_nonneg (le_of_lt hf0) g0, hαle, fun a ha0 ha => ⟨?_, ?_, ?_⟩⟩
  · exact scalar_pos p.τ p.dτ maxValue a f hτ ha0 hf1 hf0
      (le_trans ha (le_trans hαle (mul_le_mul_of_nonneg_left hrt (le_of_lt hf0))))
  · exact scalar_pos p.κ p.dκ maxValue a f hκ ha0 hf1 hf0
      (le_trans ha (le_trans hαle (mul_le_mul_of_nonneg_left hrk (le_of_lt hf0))))
  · intro b hb
    obtain ⟨a', rc, k0, _, k2, k3, k4⟩ := g3 b hb
    have ha1 : a ≤ f * rc.1 := le_trans ha (by rw [hα']; exact mul_le_mul_of_nonneg_left k3 (le_of_lt hf0))
    have ha2 : a ≤ f * rc.2 := le_trans ha (by rw [hα']; exact mul_le_mul_of_nonneg_left k4 (le_of_lt hf0))
    have hbok := hok b hb
    cases b with
    | zero z s dz ds => exact Blk.interior_step ls hs0 hs1 _ hbok.1 hbok.2 a' k0 rc k2 a f ha0 hf0 hf1 ha1 ha2
    | nn z s dz ds => exact Blk.interior_step ls hs0 hs1 _ hbok.1 hbok.2 a' k0 rc k2 a f ha0 hf0 hf1 ha1 ha2
    | soc z s dz ds => exact Blk.interior_step ls hs0 hs1 _ hbok.1 hbok.2 a' k0 rc k2 a f ha0 hf0 hf1 ha1 ha2
    | exp z s dz ds => exact Blk.interior_step ls hs0 hs1 _ hbok.1 hbok.2 a' k0 rc k2 a f ha0 hf0 hf1 ha1 ha2
    | pow al z s dz ds => exact Blk.interior_step ls hs0 hs1 _ hbok.1 hbok.2 a' k0 rc k2 a f ha0 hf0 hf1 ha1 ha2
    | genpow al z s dz ds =>
      simp only [Blk.coneFn] at k2
      have hal := hgp al z s dz ds hb
      have k2' : GenPow.stepLength al.toList.toArray dz ds z s ls.step ls.amin a' ls.fuel = .ok (rc.1, rc.2) := by
        simpa using k2
      obtain ⟨c1, c2, b1, _, b3, _⟩ := C15.genpow_step_in_cone al.toList hal dz ds z s ls.step ls.amin a'
        ls.fuel rc.1 rc.2 k2' k0 hs0 hs1
      refine ⟨rc.1, rc.2, le_trans ha1 (by nlinarith), le_trans ha2 (by nlinarith), ?_, ?_⟩
      · rcases c1 with c1 | c1
        · exact Or.inl c1
        · exact Or.inr (fun u w hu hl => c1 u w hu (by simpa using hl))
      · rcases c2 with c2 | c2
        · exact Or.inl c2
        · exact Or.inr (fun u w hu hl => c2 u w hu (by simpa using hl))
    | psd K γz γs z s dz ds =>
      obtain ⟨gz, gs, rfl, rfl, hn, hsc, hγz, hγs⟩ := hbok
      simp only [Blk.coneFn] at k2
      obtain ⟨dzW, dsW, m1, m2, p1, p2⟩ := PsdStep.stepLength_spec K dz ds gz gs a' rc k2 hn hsc k0 hγz hγs
      exact ⟨dzW, dsW, m1, m2, stepSpec_posDef hsc (hγz dzW m1) p1 a f ha0 hf0 hf1 ha1,
        stepSpec_posDef hsc (hγs dsW m2) p2 a f ha0 hf0 hf1 ha2⟩

end Clarabel.StepK
