/-
  C06, round 6 — the starting point: `DefaultKKTSystem::solve_initial_point`
  (`KktSys.solveInitialPoint` of the whole-solver model, the function the `solve.full` trajectories
  tie bit-for-bit to the code) and `default_start()` (`SolverSt.defaultStart`).

  * structural inversions ([S], every scalar type, `Float` included): which right-hand sides the
    two (QP: one) reduced solves receive, where their results go, what happens when a solve
    reports failure, and that `default_start()` never looks at the success flags;
  * the least-squares meaning ([F], ordered field): given exactness of the reduced solves with the
    matrix `[P Aᵀ; A −D]`, `D = diag d`, `d ≥ 0` (after `set_identity_scaling`: `d = 0` on the rows
    of a zero cone, `1` elsewhere — `hsMat_identity`), for `P` without stored entry
      `Aᵀs = 0`, `Ax + Ds = b`           and `(x, s)` minimises `sᵀDs` subject to `Ax + Ds = b`,
      `Aᵀz + q = 0`, `Dz ∈ range A`      and `z` minimises `zᵀDz` subject to `Aᵀz + q = 0`;
    for `P ≠ 0`: `Px + Aᵀz = −q`, `Ax − Dz = b`, `s = −z`.
-/
import ClarabelProofs.Lemmas.StepPassDefs
import ClarabelProofs.Lemmas.SolverModelLoop
import ClarabelProofs.Lemmas.StepKBridge
import Mathlib.Tactic.Linarith
import Mathlib.Tactic.Ring
import Mathlib.Tactic.Abel

namespace Clarabel.Solver
open Clarabel Clarabel.Lemmas Matrix Residuals

set_option linter.unusedSectionVars false
set_option linter.unusedVariables false

/-! ## least squares -/
section algebra
variable {α : Type} [Field α] [LinearOrder α] [IsStrictOrderedRing α] {n m : ℕ}

theorem diag_quad_expand (d : Fin m → α) (s e : Fin m → α) :
    (s + e) ⬝ᵥ diagonal d *ᵥ (s + e)
      = s ⬝ᵥ diagonal d *ᵥ s + 2 * ((diagonal d *ᵥ s) ⬝ᵥ e) + e ⬝ᵥ diagonal d *ᵥ e := by
  simp only [dotProduct, mulVec_diagonal, Pi.add_apply]
  rw [Finset.mul_sum, ← Finset.sum_add_distrib, ← Finset.sum_add_distrib]
  apply Finset.sum_congr rfl
  intro i _
  ring

theorem diag_quad_nonneg (d : Fin m → α) (hd : ∀ i, 0 ≤ d i) (e : Fin m → α) :
    0 ≤ e ⬝ᵥ diagonal d *ᵥ e := by
  simp only [dotProduct, mulVec_diagonal]
  apply Finset.sum_nonneg
  intro i _
  have h1 := hd i
  have h2 := mul_self_nonneg (e i)
  have : e i * (d i * e i) = d i * (e i * e i) := by ring
  rw [this]
  exact mul_nonneg h1 h2

/-- **primal least squares**: if `Aᵀs = 0` and `Ax + Ds = b` (`D = diag d`, `d ≥ 0`), then `(x, s)`
minimises `sᵀDs` over all `(x', s')` with `Ax' + Ds' = b`.  (`D = I`: `x` minimises `‖b − Ax‖²`;
a zero row of `D` is an equality row `(Ax)ᵢ = bᵢ`.) -/
theorem lsq_primal_optimal (A : Matrix (Fin m) (Fin n) α) (d : Fin m → α) (hd : ∀ i, 0 ≤ d i)
    (b : Fin m → α) (x : Fin n → α) (s : Fin m → α)
    (h1 : Aᵀ *ᵥ s = 0) (h2 : A *ᵥ x + diagonal d *ᵥ s = b)
    (x' : Fin n → α) (s' : Fin m → α) (h' : A *ᵥ x' + diagonal d *ᵥ s' = b) :
    s ⬝ᵥ diagonal d *ᵥ s ≤ s' ⬝ᵥ diagonal d *ᵥ s' := by
  have e : diagonal d *ᵥ (s' - s) = -(A *ᵥ (x' - x)) := by
    have : A *ᵥ (x' - x) + diagonal d *ᵥ (s' - s) = 0 := by
      rw [mulVec_sub, mulVec_sub]
      calc A *ᵥ x' - A *ᵥ x + (diagonal d *ᵥ s' - diagonal d *ᵥ s)
          = (A *ᵥ x' + diagonal d *ᵥ s') - (A *ᵥ x + diagonal d *ᵥ s) := by abel
        _ = 0 := by rw [h', h2, sub_self]
    exact eq_neg_of_add_eq_zero_right this
  have key : (diagonal d *ᵥ s) ⬝ᵥ (s' - s) = 0 := by
    have sw : (diagonal d *ᵥ s) ⬝ᵥ (s' - s) = s ⬝ᵥ diagonal d *ᵥ (s' - s) := by
      simp only [dotProduct, mulVec_diagonal]
      apply Finset.sum_congr rfl
      intro i _
      ring
    rw [sw, e, dotProduct_neg, dotProduct_mulVec, ← mulVec_transpose, h1, zero_dotProduct, neg_zero]
  have hs' : s' = s + (s' - s) := by abel
  rw [hs', diag_quad_expand, key]
  have := diag_quad_nonneg d hd (s' - s)
  linarith

/-- **dual least squares**: if `Dz = Ax_w` for some `x_w` (`D = diag d`, `d ≥ 0`), then `z` minimises
`zᵀDz` over all `z'` with `Aᵀz' = Aᵀz`. -/
theorem lsq_dual_optimal (A : Matrix (Fin m) (Fin n) α) (d : Fin m → α) (hd : ∀ i, 0 ≤ d i)
    (z : Fin m → α) (xw : Fin n → α) (h2 : A *ᵥ xw = diagonal d *ᵥ z)
    (z' : Fin m → α) (h' : Aᵀ *ᵥ z' = Aᵀ *ᵥ z) :
    z ⬝ᵥ diagonal d *ᵥ z ≤ z' ⬝ᵥ diagonal d *ᵥ z' := by
  have key : (diagonal d *ᵥ z) ⬝ᵥ (z' - z) = 0 := by
    rw [← h2, dotProduct_comm, dotProduct_mulVec, ← mulVec_transpose, mulVec_sub, h', sub_self,
      zero_dotProduct]
  have hz' : z' = z + (z' - z) := by abel
  rw [hz', diag_quad_expand, key]
  have := diag_quad_nonneg d hd (z' - z)
  linarith

/-- **QP least squares**: if `Px + Aᵀz = −q`, `Ax − Dz = b`, `s = −z`, with `P` symmetric positive
semidefinite and `D = diag d`, `d ≥ 0`, then `(x, s)` minimises `½xᵀPx + qᵀx + ½sᵀDs` subject to
`Ax + Ds = b`. -/
theorem lsq_qp_optimal (P : Matrix (Fin n) (Fin n) α) (hPs : Pᵀ = P)
    (hPp : ∀ v : Fin n → α, 0 ≤ v ⬝ᵥ P *ᵥ v)
    (A : Matrix (Fin m) (Fin n) α) (d : Fin m → α) (hd : ∀ i, 0 ≤ d i)
    (q : Fin n → α) (b : Fin m → α) (x : Fin n → α) (z : Fin m → α)
    (h1 : P *ᵥ x + Aᵀ *ᵥ z = -q) (h2 : A *ᵥ x - diagonal d *ᵥ z = b)
    (x' : Fin n → α) (s' : Fin m → α) (h' : A *ᵥ x' + diagonal d *ᵥ s' = b) :
    x ⬝ᵥ P *ᵥ x + 2 * (q ⬝ᵥ x) + (-z) ⬝ᵥ diagonal d *ᵥ (-z)
      ≤ x' ⬝ᵥ P *ᵥ x' + 2 * (q ⬝ᵥ x') + s' ⬝ᵥ diagonal d *ᵥ s' := by
  set u := x' - x with hu
  set e := s' - -z with he
  have hx' : x' = x + u := by rw [hu]; abel
  have hs' : s' = -z + e := by rw [he]; abel
  -- A u + D e = 0
  have hlin : A *ᵥ u = -(diagonal d *ᵥ e) := by
    have : A *ᵥ u + diagonal d *ᵥ e = 0 := by
      rw [hu, he, mulVec_sub, mulVec_sub, mulVec_neg]
      calc A *ᵥ x' - A *ᵥ x + (diagonal d *ᵥ s' - -(diagonal d *ᵥ z))
          = (A *ᵥ x' + diagonal d *ᵥ s') - (A *ᵥ x - diagonal d *ᵥ z) := by abel
        _ = 0 := by rw [h', h2, sub_self]
    exact eq_neg_of_add_eq_zero_left this
  -- (Px + q)·u = −z·(A u) = z·(D e)
  have hq : q = -(P *ᵥ x + Aᵀ *ᵥ z) := by rw [h1, neg_neg]
  have hgrad : (P *ᵥ x) ⬝ᵥ u + q ⬝ᵥ u = (diagonal d *ᵥ z) ⬝ᵥ e := by
    rw [hq, neg_dotProduct, add_dotProduct]
    have t1 : (Aᵀ *ᵥ z) ⬝ᵥ u = z ⬝ᵥ A *ᵥ u := by
      rw [dotProduct_mulVec, ← mulVec_transpose]
    rw [t1, hlin, dotProduct_neg]
    have t2 : z ⬝ᵥ diagonal d *ᵥ e = (diagonal d *ᵥ z) ⬝ᵥ e := by
      simp only [dotProduct, mulVec_diagonal]
      apply Finset.sum_congr rfl
      intro i _
      ring
    rw [t2]
    ring
  have hPexp : (x + u) ⬝ᵥ P *ᵥ (x + u) = x ⬝ᵥ P *ᵥ x + 2 * ((P *ᵥ x) ⬝ᵥ u) + u ⬝ᵥ P *ᵥ u := by
    have sym : u ⬝ᵥ P *ᵥ x = (P *ᵥ x) ⬝ᵥ u := dotProduct_comm _ _
    have sym2 : x ⬝ᵥ P *ᵥ u = (P *ᵥ x) ⬝ᵥ u := by
      rw [dotProduct_mulVec, ← mulVec_transpose, hPs]
    rw [mulVec_add, add_dotProduct, dotProduct_add, dotProduct_add, sym, sym2]
    ring
  have hDn : (diagonal d *ᵥ (-z)) ⬝ᵥ e = -((diagonal d *ᵥ z) ⬝ᵥ e) := by
    rw [mulVec_neg, neg_dotProduct]
  rw [hx', hs', hPexp, diag_quad_expand, dotProduct_add, hDn]
  have n1 := hPp u
  have n2 := diag_quad_nonneg d hd e
  linarith

end algebra

/-! ## what `solve_initial_point` does (structural) -/
section structural
variable {α : Type} [Add α] [Sub α] [Mul α] [Div α] [Neg α] [OfNat α 0] [OfNat α 1] [LT α]
  [DecidableLT α] [LE α] [DecidableLE α] [BEq α] [FloatLike α]

theorem copyInto_ok_inv {dst src r : Array α} {site : String} (h : copyInto dst src site = .ok r) :
    dst.size = src.size ∧ r = src := by
  unfold copyInto at h
  split at h
  · cases h
  · rename_i hne
    cases h
    simp only [bne_iff_ne, ne_eq, Decidable.not_not] at hne
    exact ⟨hne, rfl⟩

/-- `variables.x.fill(0); variables.s.fill(0); variables.z.fill(0)` at the top of
`solve_initial_point` (since /repo 7c1c881; before that commit a failed solve left the previous
content of the three vectors — possibly the last iterate of an earlier `solve()` — in place) -/
def zeroFilled (vars : Vars α) : Vars α :=
  { vars with x := vars.x.map (fun _ => (0 : α)), s := vars.s.map (fun _ => (0 : α)),
              z := vars.z.map (fun _ => (0 : α)) }

/-- [S] **LP branch of `solve_initial_point`** (`data.P.nnz() == 0`), every way through it.  The
first reduced solve receives the right-hand side `[0; b]`; on success its `x` part becomes
`variables.x` and its `z` part, NEGATED, `variables.s`; on failure `variables.x` stays zero-filled,
`variables.s` is the negated zero fill (`−0.0` entries at `Float`), and the function returns
`false`.  The second solve receives `[−q; 0]`; only its `z` part is used (`variables.z`, zero-filled
on failure); its flag is returned.  The incoming content of `x, s, z` is never read. -/
theorem solveInitialPoint_lp_inv {S : KktSys α} {vars : Vars α} {data : ProblemData α}
    {st : LinSettings α} {ok : Bool} {v' : Vars α} {S' : KktSys α} (hP : (data.P.nnz == 0) = true)
    (h : S.solveInitialPoint vars data st = .ok (ok, v', S')) :
    ∃ K0 ok1 lx1 lz1 K1,
      S.workz.size = data.b.size ∧
      S.kktsolver.setrhs (S.workx.map (fun _ => (0 : α))) data.b = .ok K0 ∧
      K0.solve st = .ok (ok1, lx1, lz1, K1) ∧
      ((ok1 = false ∧ ok = false ∧
          v' = { zeroFilled vars with s := Vec.negate (zeroFilled vars).s }) ∨
       (ok1 = true ∧ vars.x.size = lx1.size ∧ vars.s.size = lz1.size ∧
        ∃ K2 ok2 lx2 lz2 K3,
          K1.setrhs (Vec.scalaropFrom (S.workx.map (fun _ => (0 : α))) (fun q => -q) data.q)
              (data.b.map (fun _ => (0 : α))) = .ok K2 ∧
          K2.solve st = .ok (ok2, lx2, lz2, K3) ∧ ok = ok2 ∧
          ((ok2 = true ∧ vars.z.size = lz2.size ∧
              v' = { vars with x := lx1, s := Vec.negate lz1, z := lz2 }) ∨
           (ok2 = false ∧ v' = { zeroFilled vars with x := lx1, s := Vec.negate lz1 })))) := by
  unfold KktSys.solveInitialPoint at h
  rw [if_pos hP] at h
  obtain ⟨workz, hwz, h⟩ := bind_ok_inv h
  obtain ⟨e1, e2⟩ := copyInto_ok_inv hwz
  subst e2
  obtain ⟨K0, hK0, h⟩ := bind_ok_inv h
  obtain ⟨⟨ok1, lx1, lz1, K1⟩, hs1, h⟩ := bind_ok_inv h
  dsimp only at h
  refine ⟨K0, ok1, lx1, lz1, K1, e1, hK0, hs1, ?_⟩
  cases ok1 with
  | false =>
    left
    simp only [Bool.false_eq_true, ↓reduceIte, pure, Except.pure, bind, Except.bind, Bool.not_false,
      Except.ok.injEq, Prod.mk.injEq] at h
    exact ⟨rfl, h.1.symm, h.2.1.symm⟩
  | true =>
    right
    simp only [↓reduceIte, Bool.not_true, Bool.false_eq_true] at h
    obtain ⟨x', hx, h⟩ := bind_ok_inv h
    obtain ⟨s', hs, h⟩ := bind_ok_inv h
    obtain ⟨xs, hxs, h⟩ := bind_ok_inv h
    cases hxs
    obtain ⟨sx1, sx2⟩ := copyInto_ok_inv hx
    obtain ⟨ss1, ss2⟩ := copyInto_ok_inv hs
    subst x' s'
    try dsimp only at h
    obtain ⟨K2, hK2, h⟩ := bind_ok_inv h
    obtain ⟨⟨ok2, lx2, lz2, K3⟩, hs2, h⟩ := bind_ok_inv h
    dsimp only at h
    rw [Array.size_map] at sx1 ss1
    refine ⟨rfl, sx1, ss1, K2, ok2, lx2, lz2, K3, hK2, hs2, ?_⟩
    cases ok2 with
    | false =>
      simp only [Bool.false_eq_true, ↓reduceIte, pure, Except.pure, bind, Except.bind,
        Except.ok.injEq, Prod.mk.injEq] at h
      exact ⟨h.1.symm, Or.inr ⟨rfl, h.2.1.symm⟩⟩
    | true =>
      simp only [↓reduceIte] at h
      obtain ⟨z, hz, h⟩ := bind_ok_inv h
      obtain ⟨sz1, sz2⟩ := copyInto_ok_inv hz
      subst z
      rw [Array.size_map] at sz1
      simp only [pure, Except.pure, Except.ok.injEq, Prod.mk.injEq] at h
      exact ⟨h.1.symm, Or.inl ⟨rfl, sz1, h.2.1.symm⟩⟩

/-- [S] **QP branch of `solve_initial_point`** (`data.P.nnz() ≠ 0`): one reduced solve with the
right-hand side `[−q; b]`; on success its parts become `variables.x` and `variables.z`; in either
case `variables.s = −variables.z` afterwards (on failure: the zero fill and its negation) and the
solver's flag is returned. -/
theorem solveInitialPoint_qp_inv {S : KktSys α} {vars : Vars α} {data : ProblemData α}
    {st : LinSettings α} {ok : Bool} {v' : Vars α} {S' : KktSys α} (hP : (data.P.nnz == 0) = false)
    (h : S.solveInitialPoint vars data st = .ok (ok, v', S')) :
    ∃ K0 lx lz K1,
      S.workx.size = data.q.size ∧ S.workz.size = data.b.size ∧
      S.kktsolver.setrhs (Vec.negate data.q) data.b = .ok K0 ∧
      K0.solve st = .ok (ok, lx, lz, K1) ∧
      ((ok = true ∧ vars.x.size = lx.size ∧ vars.z.size = lz.size ∧ vars.s.size = lz.size ∧
          v' = { vars with x := lx, z := lz, s := Vec.negate lz }) ∨
       (ok = false ∧ v' = { zeroFilled vars with s := Vec.negate (zeroFilled vars).z })) := by
  unfold KktSys.solveInitialPoint at h
  rw [if_neg (by rw [hP]; exact Bool.false_ne_true)] at h
  split at h
  · cases h
  · rename_i hsz
    simp only [bne_iff_ne, ne_eq, Decidable.not_not] at hsz
    obtain ⟨workz, hwz, h⟩ := bind_ok_inv h
    obtain ⟨e1, e2⟩ := copyInto_ok_inv hwz
    subst e2
    obtain ⟨K0, hK0, h⟩ := bind_ok_inv h
    obtain ⟨⟨ok1, lx, lz, K1⟩, hs1, h⟩ := bind_ok_inv h
    dsimp only at h
    cases ok1 with
    | false =>
      simp only [Bool.false_eq_true, ↓reduceIte, pure, Except.pure, bind, Except.bind] at h
      split at h
      · cases h
      · simp only [Except.ok.injEq, Prod.mk.injEq] at h
        obtain ⟨h1, h2, _⟩ := h
        subst h1
        exact ⟨K0, lx, lz, K1, hsz, e1, hK0, hs1, Or.inr ⟨rfl, h2.symm⟩⟩
    | true =>
      simp only [↓reduceIte] at h
      obtain ⟨x', hx, h⟩ := bind_ok_inv h
      obtain ⟨z', hz, h⟩ := bind_ok_inv h
      obtain ⟨xz, hxz, h⟩ := bind_ok_inv h
      cases hxz
      obtain ⟨sx1, sx2⟩ := copyInto_ok_inv hx
      obtain ⟨sz1, sz2⟩ := copyInto_ok_inv hz
      subst x' z'
      try dsimp only at h
      split at h
      · cases h
      · rename_i hss
        simp only [bne_iff_ne, ne_eq, Decidable.not_not] at hss
        rw [Array.size_map] at sx1 sz1 hss
        simp only [pure, Except.pure, Except.ok.injEq, Prod.mk.injEq] at h
        obtain ⟨h1, h2, _⟩ := h
        subst h1
        exact ⟨K0, lx, lz, K1, hsz, e1, hK0, hs1, Or.inl ⟨rfl, sx1, sz1, hss, h2.symm⟩⟩

end structural

/-! ## the least-squares meaning of the starting point -/
section exact
variable {α : Type} [Field α] [LinearOrder α] [IsStrictOrderedRing α] [FloatLike α] {n m : ℕ}

theorem toFn_map_zero (a : Array α) (k : ℕ) : toFn (a.map (fun _ => (0 : α))) k = 0 := by
  funext i
  by_cases h : (i : ℕ) < a.size <;> simp [toFn, Array.getD, h]

theorem toFn_negate (a : Array α) (k : ℕ) : toFn (Vec.negate a) k = -toFn a k := by
  funext i
  by_cases h : (i : ℕ) < a.size <;> simp [toFn, Vec.negate, Array.getD, h]

theorem scalaropFrom_neg (x q : Array α) (h : x.size = q.size) :
    Vec.scalaropFrom x (fun v => -v) q = Vec.negate q := by
  unfold Vec.scalaropFrom Vec.negate
  apply Array.ext'
  rw [h, List.take_of_length_le (by simp), List.drop_of_length_le (by simp [h])]
  simp

/-- exactness of one reduced linear solve with the matrix `[P Aᵀ; A −D]`: for the right-hand side
`(rx, rz)` the solver returned `(lx, lz)` of the right lengths with
`P·lx + Aᵀ·lz = rx`, `A·lx − D·lz = rz` -/
def ReducedExact (P : Matrix (Fin n) (Fin n) α) (A : Matrix (Fin m) (Fin n) α)
    (D : Matrix (Fin m) (Fin m) α) (rx rz lx lz : Array α) : Prop :=
  lx.size = n ∧ lz.size = m ∧ P *ᵥ toFn lx n + Aᵀ *ᵥ toFn lz m = toFn rx n ∧
    A *ᵥ toFn lx n - D *ᵥ toFn lz m = toFn rz m

/-- [F] **`solve_initial_point`, LP branch (`P` without stored entry), on exact reduced solves.**
If the two reduced solves are exact for the matrix `[0 Aᵀ; A −D]`, `D = diag d`, `d ≥ 0`, and the
function returns `true`, then `τ, κ` are untouched and, with `x, s, z` the returned vectors,

* `Aᵀs = 0`, `Ax + Ds = b`, and `(x, s)` minimises `sᵀDs` subject to `Ax + Ds = b`
  (the primal least-squares problem; rows with `dᵢ = 0` are equality rows);
* `Aᵀz + q = 0`, `Dz = Ax_w` for some `x_w` (the discarded `x` part of the second solve), and `z`
  minimises `zᵀDz` subject to `Aᵀz + q = 0` (the dual one). -/
theorem solveInitialPoint_lp_exact (A : Matrix (Fin m) (Fin n) α) (d : Fin m → α) (hd : ∀ i, 0 ≤ d i)
    {S : KktSys α} {vars : Vars α} {data : ProblemData α} {st : LinSettings α} {v' : Vars α}
    {S' : KktSys α} (hP : (data.P.nnz == 0) = true) (hwx : S.workx.size = n) (hq : data.q.size = n)
    (hb : data.b.size = m)
    (hex1 : ∀ K0 lx lz K1, S.kktsolver.setrhs (S.workx.map (fun _ => (0 : α))) data.b = .ok K0 →
      K0.solve st = .ok (true, lx, lz, K1) →
      ReducedExact (0 : Matrix (Fin n) (Fin n) α) A (diagonal d) (S.workx.map (fun _ => (0 : α)))
        data.b lx lz)
    (hex2 : ∀ K0 lx lz K1 K2 lx2 lz2 K3,
      S.kktsolver.setrhs (S.workx.map (fun _ => (0 : α))) data.b = .ok K0 →
      K0.solve st = .ok (true, lx, lz, K1) →
      K1.setrhs (Vec.scalaropFrom (S.workx.map (fun _ => (0 : α))) (fun q => -q) data.q)
        (data.b.map (fun _ => (0 : α))) = .ok K2 →
      K2.solve st = .ok (true, lx2, lz2, K3) →
      ReducedExact (0 : Matrix (Fin n) (Fin n) α) A (diagonal d)
        (Vec.scalaropFrom (S.workx.map (fun _ => (0 : α))) (fun q => -q) data.q)
        (data.b.map (fun _ => (0 : α))) lx2 lz2)
    (h : S.solveInitialPoint vars data st = .ok (true, v', S')) :
    v'.x.size = n ∧ v'.s.size = m ∧ v'.z.size = m ∧ v'.τ = vars.τ ∧ v'.κ = vars.κ
    ∧ Aᵀ *ᵥ toFn v'.s m = 0
    ∧ A *ᵥ toFn v'.x n + diagonal d *ᵥ toFn v'.s m = toFn data.b m
    ∧ Aᵀ *ᵥ toFn v'.z m + toFn data.q n = 0
    ∧ (∃ xw : Fin n → α, A *ᵥ xw = diagonal d *ᵥ toFn v'.z m)
    ∧ (∀ (x' : Fin n → α) (s' : Fin m → α), A *ᵥ x' + diagonal d *ᵥ s' = toFn data.b m →
        toFn v'.s m ⬝ᵥ diagonal d *ᵥ toFn v'.s m ≤ s' ⬝ᵥ diagonal d *ᵥ s')
    ∧ (∀ z' : Fin m → α, Aᵀ *ᵥ z' + toFn data.q n = 0 →
        toFn v'.z m ⬝ᵥ diagonal d *ᵥ toFn v'.z m ≤ z' ⬝ᵥ diagonal d *ᵥ z') := by
  obtain ⟨K0, ok1, lx1, lz1, K1, _, hK0, hs1, hcase⟩ := solveInitialPoint_lp_inv hP h
  rcases hcase with ⟨_, hf, _⟩ | ⟨rfl, _, _, K2, ok2, lx2, lz2, K3, hK2, hs2, hok, hcase2⟩
  · cases hf
  subst hok
  rcases hcase2 with ⟨_, _, hv⟩ | ⟨hf, _⟩
  swap
  · cases hf
  obtain ⟨a1, a2, a3, a4⟩ := hex1 K0 lx1 lz1 K1 hK0 hs1
  obtain ⟨b1, b2, b3, b4⟩ := hex2 K0 lx1 lz1 K1 K2 lx2 lz2 K3 hK0 hs1 hK2 hs2
  rw [toFn_map_zero, zero_mulVec, zero_add] at a3
  have hsz : (S.workx.map (fun _ => (0 : α))).size = data.q.size := by rw [Array.size_map, hwx, hq]
  rw [scalaropFrom_neg _ _ hsz, toFn_negate, zero_mulVec, zero_add] at b3
  rw [toFn_map_zero] at b4
  have es : toFn v'.s m = -toFn lz1 m := by rw [hv]; exact toFn_negate lz1 m
  have ex : toFn v'.x n = toFn lx1 n := by rw [hv]
  have ez : toFn v'.z m = toFn lz2 m := by rw [hv]
  have p1 : Aᵀ *ᵥ toFn v'.s m = 0 := by rw [es, mulVec_neg, a3, neg_zero]
  have p2 : A *ᵥ toFn v'.x n + diagonal d *ᵥ toFn v'.s m = toFn data.b m := by
    rw [es, ex, mulVec_neg, ← sub_eq_add_neg, a4]
  have d1 : Aᵀ *ᵥ toFn v'.z m + toFn data.q n = 0 := by rw [ez, b3, neg_add_cancel]
  have d2 : A *ᵥ toFn lx2 n = diagonal d *ᵥ toFn v'.z m := by
    rw [ez]; exact sub_eq_zero.mp b4
  refine ⟨by rw [hv]; exact a1, by rw [hv]; simp [Vec.negate, a2], by rw [hv]; exact b2,
    by rw [hv], by rw [hv], p1, p2, d1, ⟨_, d2⟩, ?_, ?_⟩
  · intro x' s' h'
    exact lsq_primal_optimal A d hd _ _ _ p1 p2 x' s' h'
  · intro z' h'
    refine lsq_dual_optimal A d hd _ _ d2 z' ?_
    rw [eq_neg_of_add_eq_zero_left h', eq_neg_of_add_eq_zero_left d1]

/-- [F] **`solve_initial_point`, QP branch (`P` with a stored entry), on an exact reduced solve.**
If the single reduced solve is exact for `[P Aᵀ; A −D]` and the function returns `true`, then
`τ, κ` are untouched and `Px + Aᵀz = −q`, `Ax − Dz = b`, `s = −z`; if moreover `P` is symmetric
positive semidefinite and `D = diag d`, `d ≥ 0`, `(x, s)` minimises `xᵀPx + 2qᵀx + sᵀDs` subject to
`Ax + Ds = b`. -/
theorem solveInitialPoint_qp_exact (P : Matrix (Fin n) (Fin n) α) (A : Matrix (Fin m) (Fin n) α)
    (d : Fin m → α)
    {S : KktSys α} {vars : Vars α} {data : ProblemData α} {st : LinSettings α} {v' : Vars α}
    {S' : KktSys α} (hP : (data.P.nnz == 0) = false)
    (hex : ∀ K0 lx lz K1, S.kktsolver.setrhs (Vec.negate data.q) data.b = .ok K0 →
      K0.solve st = .ok (true, lx, lz, K1) →
      ReducedExact P A (diagonal d) (Vec.negate data.q) data.b lx lz)
    (h : S.solveInitialPoint vars data st = .ok (true, v', S')) :
    v'.x.size = n ∧ v'.s.size = m ∧ v'.z.size = m ∧ v'.τ = vars.τ ∧ v'.κ = vars.κ
    ∧ P *ᵥ toFn v'.x n + Aᵀ *ᵥ toFn v'.z m = -toFn data.q n
    ∧ A *ᵥ toFn v'.x n - diagonal d *ᵥ toFn v'.z m = toFn data.b m
    ∧ toFn v'.s m = -toFn v'.z m
    ∧ (Pᵀ = P → (∀ v : Fin n → α, 0 ≤ v ⬝ᵥ P *ᵥ v) → (∀ i, 0 ≤ d i) →
        ∀ (x' : Fin n → α) (s' : Fin m → α), A *ᵥ x' + diagonal d *ᵥ s' = toFn data.b m →
          toFn v'.x n ⬝ᵥ P *ᵥ toFn v'.x n + 2 * (toFn data.q n ⬝ᵥ toFn v'.x n)
              + toFn v'.s m ⬝ᵥ diagonal d *ᵥ toFn v'.s m
            ≤ x' ⬝ᵥ P *ᵥ x' + 2 * (toFn data.q n ⬝ᵥ x') + s' ⬝ᵥ diagonal d *ᵥ s') := by
  obtain ⟨K0, lx, lz, K1, _, _, hK0, hs1, hcase⟩ := solveInitialPoint_qp_inv hP h
  rcases hcase with ⟨_, _, _, _, hv⟩ | ⟨hf, _⟩
  swap
  · cases hf
  obtain ⟨a1, a2, a3, a4⟩ := hex K0 lx lz K1 hK0 hs1
  rw [toFn_negate] at a3
  have es : toFn v'.s m = -toFn lz m := by rw [hv]; exact toFn_negate lz m
  have ex : toFn v'.x n = toFn lx n := by rw [hv]
  have ez : toFn v'.z m = toFn lz m := by rw [hv]
  refine ⟨by rw [hv]; exact a1, by rw [hv]; simp [Vec.negate, a2], by rw [hv]; exact a2,
    by rw [hv], by rw [hv], by rw [ex, ez]; exact a3, by rw [ex, ez]; exact a4, by rw [es, ez], ?_⟩
  intro hPs hPp hd x' s' h'
  rw [es, ex]
  exact lsq_qp_optimal P hPs hPp A d hd _ _ _ _ a3 a4 x' s' h'

end exact

/-! ## `default_start()` -/
section start
variable {α : Type} [Add α] [Sub α] [Mul α] [Div α] [Neg α] [OfNat α 0] [OfNat α 1] [OfNat α 2]
  [OfNat α 100] [OfNat α 1000] [LT α] [DecidableLT α] [LE α] [DecidableLE α] [BEq α] [FloatLike α]

/-- [S] **`default_start()` on the symmetric path never looks at a success flag**: whatever
`kktsystem.update` (`ok1`) and `solve_initial_point` (`ok2`) report, the variables
`solve_initial_point` left behind go through `symmetric_initialization` and become the starting
point.  (There is no `NumericalError` exit here; a failed factorisation or solve shows up only
through the iterate it leaves: see `solveInitialPoint_lp_inv` / `_qp_inv` for what that is.) -/
theorem defaultStart_inv {S S0 : SolverSt α} {st : Settings α} (h : S.defaultStart st = .ok S0) :
    ∃ ok1 kk1 ok2 v kk2,
      S.kktsystem.update S.data (setIdentityScaling S.cones) st.lin = .ok (ok1, kk1) ∧
      kk1.solveInitialPoint S.variables S.data st.lin = .ok (ok2, v, kk2) ∧
      symmetricInitialization v (setIdentityScaling S.cones) = .ok S0.variables ∧
      S0.cones = setIdentityScaling S.cones ∧ S0.kktsystem = kk2 ∧ S0.data = S.data := by
  unfold SolverSt.defaultStart at h
  dsimp only at h
  obtain ⟨⟨ok1, kk1⟩, hu, h⟩ := bind_ok_inv h
  obtain ⟨⟨ok2, v, kk2⟩, hi, h⟩ := bind_ok_inv h
  obtain ⟨v3, hsy, h⟩ := bind_ok_inv h
  cases h
  exact ⟨ok1, kk1, ok2, v, kk2, hu, hi, hsy, rfl, rfl, rfl⟩

/-- [S] `symmetric_initialization`: `x` is kept, `s` and `z` are shifted into the cone
(`_shift_to_cone_interior`, C15/C07), `τ = κ = 1` -/
theorem symmetricInitialization_inv {v v' : Vars α} {cones : List (ConeSt α)}
    (h : symmetricInitialization v cones = .ok v') :
    v'.x = v.x ∧ v'.τ = 1 ∧ v'.κ = 1 ∧
      Composite.shiftToConeInterior (cones.map ConeSt.compSpec) v.s true = .ok v'.s ∧
      Composite.shiftToConeInterior (cones.map ConeSt.compSpec) v.z false = .ok v'.z := by
  unfold symmetricInitialization at h
  dsimp only at h
  obtain ⟨s, hs, h⟩ := bind_ok_inv h
  obtain ⟨z, hz, h⟩ := bind_ok_inv h
  cases h
  exact ⟨rfl, rfl, rfl, hs, hz⟩

/-- [S] `kktsystem.update` keeps the length of `workx` -/
theorem update_workx_size {S S' : KktSys α} {data : ProblemData α} {cones : List (ConeSt α)}
    {st : LinSettings α} {ok : Bool} (h : S.update data cones st = .ok (ok, S')) :
    S'.workx.size = S.workx.size := by
  unfold KktSys.update at h
  obtain ⟨⟨ok1, K⟩, hK, h⟩ := bind_ok_inv h
  dsimp only at h
  split at h
  · cases h; rfl
  · unfold KktSys.solveConstantRhs at h
    dsimp only at h
    obtain ⟨K1, hK1, h⟩ := bind_ok_inv h
    obtain ⟨⟨ok2, lx, lz, K2⟩, hs, h⟩ := bind_ok_inv h
    dsimp only at h
    split at h
    · obtain ⟨x2, hx2, h⟩ := bind_ok_inv h
      obtain ⟨z2, hz2, h⟩ := bind_ok_inv h
      cases h
      exact Solver.scalaropFrom_size _ _ _
    · cases h
      exact Solver.scalaropFrom_size _ _ _

end start

/-- [R] **the starting point of a conic LP** (`P` without stored entry), on exact reduced solves:
`default_start()` returns `τ = κ = 1`, the `x` of the primal least-squares problem, and `(s, z)` =
the least-squares `s` and `z` shifted into the cone — strictly inside it (C07's
`symmetricInitialization_interior`).  `kk1` is the KKT system after `kktsystem.update` with the
identity scaling; `hkk` gives for it the two exactness hypotheses of `solveInitialPoint_lp_exact`
and that both solves reported success. -/
theorem defaultStart_lp_exact {n m : ℕ} (A : Matrix (Fin m) (Fin n) ℝ) (d : Fin m → ℝ)
    (hd : ∀ i, 0 ≤ d i) {S S0 : SolverSt ℝ} {st : Settings ℝ}
    (hP : (S.data.P.nnz == 0) = true) (hq : S.data.q.size = n) (hb : S.data.b.size = m)
    (hwx0 : S.kktsystem.workx.size = n) (hc : ConesOk S.cones) (hnum : numelAll S.cones = m)
    (hkk : ∀ ok1 kk1, S.kktsystem.update S.data (setIdentityScaling S.cones) st.lin = .ok (ok1, kk1) →
      (∀ K0 lx lz K1, kk1.kktsolver.setrhs (kk1.workx.map (fun _ => (0 : ℝ))) S.data.b = .ok K0 →
          K0.solve st.lin = .ok (true, lx, lz, K1) →
          ReducedExact (0 : Matrix (Fin n) (Fin n) ℝ) A (diagonal d)
            (kk1.workx.map (fun _ => (0 : ℝ))) S.data.b lx lz)
      ∧ (∀ K0 lx lz K1 K2 lx2 lz2 K3,
          kk1.kktsolver.setrhs (kk1.workx.map (fun _ => (0 : ℝ))) S.data.b = .ok K0 →
          K0.solve st.lin = .ok (true, lx, lz, K1) →
          K1.setrhs (Vec.scalaropFrom (kk1.workx.map (fun _ => (0 : ℝ))) (fun q => -q) S.data.q)
            (S.data.b.map (fun _ => (0 : ℝ))) = .ok K2 →
          K2.solve st.lin = .ok (true, lx2, lz2, K3) →
          ReducedExact (0 : Matrix (Fin n) (Fin n) ℝ) A (diagonal d)
            (Vec.scalaropFrom (kk1.workx.map (fun _ => (0 : ℝ))) (fun q => -q) S.data.q)
            (S.data.b.map (fun _ => (0 : ℝ))) lx2 lz2)
      ∧ (∀ ok2 v kk2, kk1.solveInitialPoint S.variables S.data st.lin = .ok (ok2, v, kk2) →
          ok2 = true))
    (h : S.defaultStart st = .ok S0) :
    ∃ s z : Array ℝ, s.size = m ∧ z.size = m ∧ S0.variables.x.size = n
      ∧ S0.variables.τ = 1 ∧ S0.variables.κ = 1
      ∧ Aᵀ *ᵥ toFn s m = 0
      ∧ A *ᵥ toFn S0.variables.x n + diagonal d *ᵥ toFn s m = toFn S.data.b m
      ∧ Aᵀ *ᵥ toFn z m + toFn S.data.q n = 0
      ∧ (∃ xw : Fin n → ℝ, A *ᵥ xw = diagonal d *ᵥ toFn z m)
      ∧ (∀ (x' : Fin n → ℝ) (s' : Fin m → ℝ), A *ᵥ x' + diagonal d *ᵥ s' = toFn S.data.b m →
          toFn s m ⬝ᵥ diagonal d *ᵥ toFn s m ≤ s' ⬝ᵥ diagonal d *ᵥ s')
      ∧ (∀ z' : Fin m → ℝ, Aᵀ *ᵥ z' + toFn S.data.q n = 0 →
          toFn z m ⬝ᵥ diagonal d *ᵥ toFn z m ≤ z' ⬝ᵥ diagonal d *ᵥ z')
      ∧ Composite.shiftToConeInterior (S0.cones.map ConeSt.compSpec) s true = .ok S0.variables.s
      ∧ Composite.shiftToConeInterior (S0.cones.map ConeSt.compSpec) z false = .ok S0.variables.z
      ∧ Interior (S0.cones.map ConeSt.compSpec) S0.variables := by
  obtain ⟨ok1, kk1, ok2, v, kk2, hu, hi, hsy, hcs, _, _⟩ := defaultStart_inv h
  obtain ⟨hex1, hex2, hsucc⟩ := hkk ok1 kk1 hu
  have hwx : kk1.workx.size = n := by rw [update_workx_size hu]; exact hwx0
  have hok := hsucc ok2 v kk2 hi
  subst hok
  obtain ⟨sx, ss, sz, _, _, p1, p2, d1, d2, po, dopt⟩ :=
    solveInitialPoint_lp_exact A d hd hP hwx hq hb hex1 hex2 hi
  obtain ⟨ex, eτ, eκ, hs, hz⟩ := symmetricInitialization_inv hsy
  obtain ⟨hshape, _⟩ := setIdentityScaling_shape S.cones hc
  have hn : numelAll (setIdentityScaling S.cones) = m := by rw [← hshape.numelAll]; exact hnum
  have hint := Bridge.symmetricInitialization_interior (by rw [hn]; exact sz) (by rw [hn]; exact ss) hsy
  rw [hcs]
  refine ⟨v.s, v.z, ss, sz, by rw [ex]; exact sx, eτ, eκ, p1, by rw [ex]; exact p2, d1, d2, po, dopt,
    hs, hz, hint⟩

end Clarabel.Solver
