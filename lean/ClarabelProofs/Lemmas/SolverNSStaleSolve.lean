/-
  Solving twice on the whole-solver model WITH NONSYMMETRIC CONES (C05), the relational part — `pass`,
  the loop, `default_start` (both branches), `runSolve`, the code after the loop, `solve()`.
  NS counterpart of `Lemmas/SolverStaleSolve.lean`.

  The point of the exercise: with a nonsymmetric cone in the composite `default_start` is
  `unit_initialization` — it makes no KKT call and writes the whole iterate, so the two runs enter the
  loop with EQUAL iterates without any hypothesis on the initial point (condition (iii) of the
  symmetric theorem, `InitPointOk`, is guarded by `isSymmetric S.cones = true`).

  All structural ([S]).
-/
import ClarabelProofs.Lemmas.SolverNSStalePass

namespace Clarabel.SolverNS
open Clarabel Info Residuals
open Clarabel.Solver (RelM SameFrom VarsShape StepShape ResidShape ListRel KRel KktSolver KktSys
  LinSettings QB InfoEqv carryPrev PrevEq VarsXSZ SolShape StepDirection bind_ok_inv
  checkTermination_frame checkTermination_carryPrev checkTermination_ip_iter carryPrev_prevEq)

set_option linter.unusedSectionVars false
set_option linter.unusedVariables false

variable {α : Type}

section
variable [Add α] [Sub α] [Mul α] [Div α] [Neg α] [LT α] [LE α] [DecidableLT α] [DecidableLE α]
  [BEq α] [OfNat α 0] [OfNat α 1] [OfNat α 2] [OfNat α 3] [OfNat α 4] [OfNat α 100] [OfNat α 1000]
  [OfScientific α] [FloatLike α]

theorem prevEq_trans_symm {p i j : InfoS α} (h1 : PrevEq p j) (h2 : PrevEq i j) : PrevEq p i := by
  obtain ⟨b1, b2, b3, b4, b5, b6⟩ := h1
  obtain ⟨a1, a2, a3, a4, a5, a6⟩ := h2
  exact ⟨b1.trans a1.symm, b2.trans a2.symm, b3.trans a3.symm, b4.trans a4.symm, b5.trans a5.symm,
    b6.trans a6.symm⟩

/-- one pass of the loop on two related loop states -/
theorem pass_rel (hbeq : ((0 : α) == 0) = true) {k : Nat} {Bw : KktSolver α → KktSolver α → Prop}
    (st : Settings α) (hsim : KktSimN k st.lin Bw) {L L' : LoopSt α} (h : PRelK k Bw L L') :
    RelM (PassOutK k Bw) (pass st L) (pass st L') := by
  obtain ⟨h, hk⟩ := h
  rw [pass_eq, pass_eq]
  obtain ⟨p, hp, hpl⟩ := h.info
  rw [← h.iter]
  refine RelM.bind' (topNumerics_rel hbeq L.iter p h.data h.«variables» h.residuals h.cones hp) ?_
  rintro ⟨r0, mu0, i1⟩ ⟨r, mu, i1'⟩ e1 e2 ⟨g1, g2, g3⟩
  dsimp only at g1 g2 g3 ⊢
  subst g1 g2 g3
  obtain ⟨a7, a8⟩ := topNumerics_frame e1
  have hprev := topNumerics_prev e1
  have hor : L.iter ≤ 1 ∨ PrevEq p i1 := by
    by_cases h0 : 2 ≤ L.iter
    · right
      exact prevEq_trans_symm (hpl (Or.inr h0)) hprev
    · left; omega
  obtain ⟨c1, c2⟩ := checkTermination_carryPrev i1 p r.dot_bz r.dot_qx st.info L.iter false hor
  have hct : Info.checkTermination (carryPrev i1 p) r.dot_bz r.dot_qx st.info L.iter false =
      (carryPrev (Info.checkTermination i1 r.dot_bz r.dot_qx st.info L.iter false).1 p,
        (Info.checkTermination i1 r.dot_bz r.dot_qx st.info L.iter false).2) := Prod.ext c1 c2
  rw [hct]
  have fr := checkTermination_frame i1 r.dot_bz r.dot_qx st.info L.iter false
  refine passRest_rel st hsim h hk r mu i1 p _ fr.2 ?_ ?_
  · exact checkTermination_ip_iter (a8.trans h.status)
  · intro h0
    rw [fr.1]
    exact prevEq_trans_symm (hpl h0) hprev

/-- the loop on two related loop states: same number of passes, same records, related final states -/
theorem runLoop_rel (hbeq : ((0 : α) == 0) = true) {k : Nat} {Bw : KktSolver α → KktSolver α → Prop}
    (st : Settings α) (hsim : KktSimN k st.lin Bw) : ∀ (fuel : Nat) {L L' : LoopSt α}, PRelK k Bw L L' →
      RelM FRel (runLoop st fuel L) (runLoop st fuel L') := by
  intro fuel
  induction fuel with
  | zero => intro L L' _; rfl
  | succ n ih =>
    intro L L' h
    unfold runLoop
    refine RelM.bind (pass_rel hbeq st hsim h) ?_
    rintro ⟨c, L1⟩ ⟨c', L1'⟩ ⟨h1, h2⟩
    dsimp only at h1 h2 ⊢
    subst h1
    cases c with
    | false =>
      simp only [Bool.false_eq_true, if_false] at h2 ⊢
      exact h2
    | true =>
      simp only [if_true] at h2 ⊢
      exact ih h2

/-! ### `default_start` -/

/-- no pass has run when the loop is entered -/
theorem not_late_init (S : SolverSt α) : ¬ Late (initLoopSt S) := by
  rintro (⟨h, _⟩ | h)
  · exact Nat.not_succ_le_zero 0 h
  · exact Nat.not_succ_le_zero 1 h

/-- `default_start` on two `Stale`-related states whose `info` blocks agree up to `prev_*`.  With a
nonsymmetric cone the iterate is overwritten by `unit_initialization` and `hinit` is not used. -/
theorem defaultStart_rel {k : Nat} {Bw : KktSolver α → KktSolver α → Prop} (st : Settings α)
    (hsim : KktSimN k st.lin Bw) {S S' : SolverSt α} (h : Stale Bw S S') (hk : k ≤ nSpN S.cones)
    (hst : S.info.status = .unsolved) (hi : ∃ p : InfoS α, S'.info = carryPrev S.info p)
    (hinit : InitPointOk S st ∨ VarsXSZ S.«variables» S'.«variables») :
    RelM (fun S0 S0' => PRelK k Bw (initLoopSt S0) (initLoopSt S0')) (S.defaultStart st) (S'.defaultStart st) := by
  obtain ⟨hdata, hvars, hres, hkkt, hcones, hlhs, hrhs, hpv⟩ := h
  obtain ⟨p, hp⟩ := hi
  unfold SolverSt.defaultStart
  rw [← isSymmetric_shape hcones]
  by_cases hs : isSymmetric S.cones = true
  · simp only [hs, if_true]
    refine RelM.bind' (setIdentityScaling_eqv hcones) ?_
    intro cs cs' e e' hce
    have hn : numelAll cs = numelAll S.cones := setIdentityScaling_numelAll e
    have hk' : k ≤ nSpN cs := by rw [setIdentityScaling_nSpN e]; exact hk
    rw [← hdata, ← kktSysUpdate_congr_lam _ _ _ hce (setIdentityScaling_isSymmetric e)]
    refine RelM.bind' (kktSysUpdate_rel hsim S.data cs hk' hkkt) ?_
    rintro ⟨ok1, K1⟩ ⟨ok1', K1'⟩ e1 e1' ⟨g1, g2, g3⟩
    dsimp only at g1 g2 g3 ⊢
    refine RelM.bind' (Solver.KktSys.solveInitialPoint_rel Solver.qdldl_kktSim S.data st.lin g2 hvars.shape) ?_
    rintro ⟨ok2, v2, K2⟩ ⟨ok2', v2', K2'⟩ e2 e2' ⟨f1, f2, f3, f4⟩
    dsimp only at f1 f2 f3 f4 ⊢
    have hxsz : VarsXSZ v2 v2' := by
      apply f2
      rcases hinit with hinit | hinit
      · left; exact hinit hs cs _ _ e e1 e2
      · right; exact hinit
    rw [← symmetricInitialization_congr hxsz hce.toShape]
    refine RelM.bind (RelM.refl_eq _) ?_
    intro v3 _ e3
    subst e3
    refine ⟨⟨rfl, rfl, rfl, rfl, initScaling_shape hce.toShape, .nil, rfl, rfl, hst,
      ⟨p, hp, fun hl => (not_late_init _ hl).elim⟩, hpv, fun hl => (not_late_init _ hl).elim, hres, ?_,
      hce.toShape, ?_, ?_⟩, hk'⟩
    · show KRel Bw (numelAll cs) S.data.q.size K2 K2'
      rw [hn]
      exact { f4 with solver := hsim.weaken f4.solver }
    · show StepShape (numelAll cs) S.stepLhs S'.stepLhs
      rw [hn]; exact hlhs
    · show StepShape (numelAll cs) S.stepRhs S'.stepRhs
      rw [hn]; exact hrhs
  · simp only [hs, Bool.false_eq_true, if_false]
    rw [← varsUnitInitialization_congr hvars hcones]
    refine RelM.bind (RelM.refl_eq _) ?_
    intro v _ e
    subst e
    exact ⟨⟨rfl, rfl, rfl, rfl, initScaling_shape hcones, .nil, hdata, rfl, hst,
      ⟨p, hp, fun hl => (not_late_init _ hl).elim⟩, hpv, fun hl => (not_late_init _ hl).elim, hres, hkkt,
      hcones, hlhs, hrhs⟩, hk⟩

theorem Stale.resetInfo {Bw : KktSolver α → KktSolver α → Prop} {S S' : SolverSt α} (h : Stale Bw S S') :
    Stale Bw (resetInfo S) (resetInfo S') :=
  ⟨h.data, h.«variables», h.residuals, h.kktsystem, h.cones, h.stepLhs, h.stepRhs, h.prevVars⟩

/-- `info.reset`, `default_start` and the loop on two `Stale`-related states whose `info` blocks agree
up to `prev_*` -/
theorem runSolve_rel_eqv (hbeq : ((0 : α) == 0) = true) {k : Nat} {Bw : KktSolver α → KktSolver α → Prop}
    (st : Settings α) (hsim : KktSimN k st.lin Bw) {S S' : SolverSt α} (h : Stale Bw S S')
    (hk : k ≤ nSpN S.cones) (hi : ∃ p : InfoS α, S'.info = carryPrev S.info p)
    (hinit : InitPointOk (resetInfo S) st ∨ VarsXSZ S.«variables» S'.«variables») :
    RelM FRel (S.runSolve st) (S'.runSolve st) := by
  have e : ∀ T : SolverSt α, T.runSolve st =
      ((resetInfo T).defaultStart st >>= fun S0 => runLoop st (st.info.max_iter + 3) (initLoopSt S0)) := fun _ => rfl
  rw [e, e]
  obtain ⟨p, hp⟩ := hi
  refine RelM.bind (defaultStart_rel st hsim h.resetInfo hk rfl ⟨p, ?_⟩ hinit) ?_
  · show ({ S'.info with status := SolverStatus.unsolved, iterations := 0 } : InfoS α) = _
    rw [hp]; rfl
  · intro S0 S0' h0
    exact runLoop_rel hbeq st hsim _ h0

/-- the same without any hypothesis on the `info` blocks (the rest of `info` is dead:
`runSolve_withInfo`) -/
theorem runSolve_rel (hbeq : ((0 : α) == 0) = true) {k : Nat} {Bw : KktSolver α → KktSolver α → Prop}
    (st : Settings α) (hsim : KktSimN k st.lin Bw) {S S' : SolverSt α} (h : Stale Bw S S')
    (hk : k ≤ nSpN S.cones)
    (hinit : InitPointOk (resetInfo S) st ∨ VarsXSZ S.«variables» S'.«variables») :
    RelM FRel (S.runSolve st) (S'.runSolve st) := by
  have e := runSolve_withInfo S' st (carryPrev S.info S'.info) S.infoMu S.infoSigma S.infoStepLength
    (carryPrev_prevEq _ _)
  rw [← e]
  refine runSolve_rel_eqv hbeq st hsim ?_ hk ⟨S'.info, rfl⟩ hinit
  exact ⟨h.data, h.«variables», h.residuals, h.kktsystem, h.cones, h.stepLhs, h.stepRhs, h.prevVars⟩

/-! ### after the loop -/

theorem finishInfo_rel (st : Settings α) {L L' : LoopSt α} (h : FRel L L') :
    (finishInfo st L').data = (finishInfo st L).data ∧ (finishInfo st L').«variables» = (finishInfo st L).«variables»
      ∧ (∃ p : InfoS α, (finishInfo st L').info = carryPrev (finishInfo st L).info p)
      ∧ (finishInfo st L').infoMu = (finishInfo st L).infoMu
      ∧ (finishInfo st L').infoSigma = (finishInfo st L).infoSigma
      ∧ (finishInfo st L').infoStepLength = (finishInfo st L).infoStepLength := by
  obtain ⟨S', iter', sigma', alpha', mu', scaling', traj'⟩ := L'
  obtain ⟨hiter, hsigma, halpha, hmu, htraj, hdata, hvars, hinfo, hres, him, his, hil⟩ := h
  obtain ⟨data', vars', res', kkt', cones', lhs', rhs', pv', info', im', is', isl'⟩ := S'
  dsimp only at hiter hsigma halpha hmu htraj hdata hvars hinfo hres him his hil
  obtain ⟨p, hp⟩ := hinfo
  subst hiter hsigma halpha hmu hdata hvars hres him his hil hp
  unfold finishInfo
  dsimp only
  split
  · refine ⟨rfl, rfl, ⟨p, ?_⟩, rfl, rfl, rfl⟩
    dsimp only
    rw [← Solver.postProcess_carryPrev]
    rfl
  · refine ⟨rfl, rfl, ⟨p, ?_⟩, rfl, rfl, rfl⟩
    dsimp only
    rw [← Solver.postProcess_carryPrev]

theorem finish_rel (st : Settings α) {L L' : LoopSt α} {sol sol' : Unscale.Solution α} (hF : FRel L L')
    (hsol : SolShape ((Solver.presolveMap L.S.data).map (fun m => m.keep.size)) sol sol') :
    RelM (fun a a' => a.2 = a'.2 ∧ a.1.data = a'.1.data ∧ a.1.«variables» = a'.1.«variables»
        ∧ InfoEqv a.1.info a'.1.info ∧ a.1.infoMu = a'.1.infoMu ∧ a.1.infoSigma = a'.1.infoSigma
        ∧ a.1.infoStepLength = a'.1.infoStepLength)
      (finish st L sol) (finish st L' sol') := by
  obtain ⟨f1, f2, ⟨p, f3⟩, f4, f5, f6⟩ := finishInfo_rel st hF
  have hd : (finishInfo st L).data = L.S.data := finishInfo_data st L
  unfold finish
  dsimp only
  rw [f1, f2, f3, ← Solver.unscale_postProcess_congr _ _ _ _ p (by rw [hd]) hsol]
  refine RelM.bind (RelM.refl_eq _) ?_
  intro r _ e
  subst e
  exact ⟨rfl, rfl, rfl, ⟨p, rfl⟩, f4.symm, f5.symm, f6.symm⟩

/-- **`solve()` on two `Stale`-related solver objects** (model with nonsymmetric cones): both fail
with the same error, or both succeed with the same observable result.  `hinit` is only read when
every cone is symmetric (`InitPointOk.of_nonsymmetric`). -/
theorem solve_rel (hbeq : ((0 : α) == 0) = true) {k : Nat} {Bw : KktSolver α → KktSolver α → Prop}
    (st : Settings α) (hsim : KktSimN k st.lin Bw) {S S' : Solver α} (h : Stale Bw S.st S'.st)
    (hk : k ≤ nSpN S.st.cones)
    (hsol : SolShape ((Solver.presolveMap S.st.data).map (fun m => m.keep.size)) S.solution S'.solution)
    (hinit : InitPointOk (resetInfo S.st) st ∨ VarsXSZ S.st.«variables» S'.st.«variables») :
    RelM SolveObs (S.solve st) (S'.solve st) := by
  unfold Solver.solve
  refine RelM.bind' (runSolve_rel hbeq st hsim h hk hinit) ?_
  intro L L' eL eL' hF
  have hsol' : SolShape ((Solver.presolveMap L.S.data).map (fun m => m.keep.size)) S.solution S'.solution := by
    rw [runSolve_data eL]; exact hsol
  refine RelM.bind (finish_rel st hF hsol') ?_
  rintro ⟨S1, sol1⟩ ⟨S1', sol1'⟩ ⟨g1, g2, g3, g4, g5, g6, g7⟩
  -- the norm caches `Info.update` filled: the same `get_normq` / `get_normb` on the same data
  show RelM SolveObs (Clarabel.Solver.fillNorms S1.data >>= fun data => _)
    (Clarabel.Solver.fillNorms S1'.data >>= fun data => _)
  have g2' : S1'.data = S1.data := g2.symm
  rw [g2']
  cases hfn : Clarabel.Solver.fillNorms S1.data with
  | error e => exact rfl
  | ok d => exact ⟨g1, hF.traj, rfl, g3, g4, g5, g6, g7⟩

/-- with a nonsymmetric cone in the composite there is no condition on the initial point -/
theorem solve_rel_nonsymmetric (hbeq : ((0 : α) == 0) = true) {k : Nat} {Bw : KktSolver α → KktSolver α → Prop}
    (st : Settings α) (hsim : KktSimN k st.lin Bw) {S S' : Solver α} (h : Stale Bw S.st S'.st)
    (hk : k ≤ nSpN S.st.cones) (hns : isSymmetric S.st.cones = false)
    (hsol : SolShape ((Solver.presolveMap S.st.data).map (fun m => m.keep.size)) S.solution S'.solution) :
    RelM SolveObs (S.solve st) (S'.solve st) :=
  solve_rel hbeq st hsim h hk hsol (Or.inl (InitPointOk.of_nonsymmetric (S := resetInfo S.st) st hns))

end

end Clarabel.SolverNS
