/-
  C03 round 3 — concrete instances on which ALL hypotheses of the report theorems of
  `InfoReport.lean` hold simultaneously (non-vacuity), built on the 1×1 instance `zData` of
  `InfoEndToEndExample.lean` (no stored entries, `q = b = 0`, cone `ℝ₊`, iterate `0`, `τ = 1`).
-/
import ClarabelProofs.Lemmas.InfoReport
import ClarabelProofs.Lemmas.InfoEndToEndExample

set_option linter.unusedSectionVars false
set_option linter.unusedVariables false

namespace Clarabel.InfoReport
open Clarabel Clarabel.Dense Clarabel.InfoUser Finset Residuals Info

/-- the chain on `zData`, with the nine figures `Info.update` assigns made explicit -/
theorem zChain : ∃ (r : Resid ℝ) (i' : InfoS ℝ),
    Residuals.update zRes0 zVars (toResidData zData) = .ok r
    ∧ Info.update zInfo (toInfoEquil zData.equilibration) 0 0 zVars r = .ok i'
    ∧ i'.cost_primal = 0 ∧ i'.cost_dual = 0 ∧ i'.res_primal = 0 ∧ i'.res_dual = 0
    ∧ i'.gap_abs = 0 ∧ i'.gap_rel = 0 ∧ i'.ktratio = 0 ∧ i'.status = .unsolved := by
  obtain ⟨r, hr, hres⟩ := residuals_of_equilibrate zData zData _ zEs zData_user zData_equil zVars zRes0 zShapes
  have hrep := represents_of_equilibrate zData zData _ zEs zData_user zData_equil
  obtain ⟨i', hi⟩ := info_update_total _ _ hrep zVars r zShapes.x zShapes.s zShapes.z hres.szrx hres.szrz
    hres.szrxi hres.szrzi hres.szPx zInfo 0 0
  have cf := chain_facts zData zData _ zEs zData_user zData_equil zVars zRes0 r zShapes hr zInfo i' 0 0 hi false
  have hst : i'.status = .unsolved := cf.status
  have hx0 : vecFn zVars.x zData.n = fun _ => 0 := funext vecFn_zero1
  have hs0 : vecFn zVars.s zData.m = fun _ => 0 := funext vecFn_zero1
  have hz0 : vecFn zVars.z zData.m = fun _ => 0 := funext vecFn_zero1
  have hb0 : (problemOf zData.P zData.q zData.A zData.b zData.n zData.m).b = fun _ => 0 :=
    funext vecFn_zero1
  have hq0 : (problemOf zData.P zData.q zData.A zData.b zData.n zData.m).q = fun _ => 0 :=
    funext vecFn_zero1
  have hrp : i'.res_primal = 0 := by
    rw [cf.res_primal, hx0, hs0]
    simp [resPrimal, nrm, sumsq, rz, mulV, Problem.scaled, hb0]
  have hrd : i'.res_dual = 0 := by
    rw [cf.res_dual, hx0, hz0]
    simp [resDual, nrm, sumsq, rx, mulV, mulVT, Problem.scaled, hq0]
  have hcp : i'.cost_primal = 0 := by
    rw [cf.cost_primal, hx0]
    simp [costPrimal, dot, mulV]
  have hcd : i'.cost_dual = 0 := by
    rw [cf.cost_dual, hx0, hz0]
    simp [costDual, dot, mulV]
  have hkt : i'.ktratio = 0 := by rw [cf.ktratio]; simp [zVars]
  have hf := Info.update_fields _ _ _ _ _ _ _ hi
  simp only at hf
  obtain ⟨-, -, -, -, -, -, hga, hgr, -, -, -⟩ := hf
  have hga0 : i'.gap_abs = 0 := by rw [hga, hcp, hcd]; simp
  have hgr0 : i'.gap_rel = 0 := by rw [hgr, hga0]; simp
  exact ⟨r, i', hr, hi, hcp, hcd, hrp, hrd, hga0, hgr0, hkt, hst⟩

/-- `Solution.post_process` (no presolver) does not panic when the solution object has the
lengths of the variables -/
theorem postProcess_none_total {n m : ℕ} (sc : Scaling ℝ n m) (eq : Info.Equil ℝ) (hrep : Represents eq sc)
    (sol : Unscale.Solution ℝ) (v : Vars ℝ) (i : InfoS ℝ)
    (hx : v.x.size = n) (hs : v.s.size = m) (hz : v.z.size = m)
    (sx : sol.x.size = n) (ss : sol.s.size = m) (sz : sol.z.size = m) :
    ∃ out, Unscale.postProcess sol eq none v i = .ok out := by
  obtain ⟨ox, os, oz, -, -, -⟩ := unscale_dense sc eq hrep v hx hs hz i.status.isInfeasible
  unfold Unscale.postProcess Unscale.copyFrom
  simp only [ox, os, oz, sx, ss, sz, bne_self_eq_false, Bool.false_eq_true, ↓reduceIte, bind,
    Except.bind, pure, Except.pure]
  exact ⟨_, rfl⟩

/-- **all hypotheses of `C03.report_on_user_data` hold on a concrete instance** -/
theorem report_example : ∃ (r : Resid ℝ) (i' ifin : InfoS ℝ) (out : Unscale.Solution ℝ × Vars ℝ),
    UserData zData [.nonneg 1] zEs
    ∧ Equil.equilibrate zData [.nonneg 1] zEs = .ok zData
    ∧ StateShapes zData.n zData.m zVars zRes0 ∧ 0 < zVars.τ
    ∧ Residuals.update zRes0 zVars (toResidData zData) = .ok r
    ∧ Info.update zInfo (toInfoEquil zData.equilibration) 0 0 zVars r = .ok i'
    ∧ SameFigures ifin i' ∧ ifin.status.isInfeasible = false
    ∧ Unscale.postProcess (Unscale.Solution.new 1 1) (toInfoEquil zData.equilibration) none zVars ifin = .ok out := by
  obtain ⟨r, i', hr, hi, -, -, -, -, -, -, -, hst⟩ := zChain
  have hrep := represents_of_equilibrate zData zData _ zEs zData_user zData_equil
  obtain ⟨out, hout⟩ := postProcess_none_total _ _ hrep (Unscale.Solution.new 1 1) zVars
    { i' with status := .maxIterations } zShapes.x zShapes.s zShapes.z
    (by simp [Unscale.Solution.new, zData]) (by simp [Unscale.Solution.new, zData])
    (by simp [Unscale.Solution.new, zData])
  exact ⟨r, i', { i' with status := .maxIterations }, out, zData_user, zData_equil, zShapes,
    by norm_num [zVars], hr, hi, sameFigures_status i' _, rfl, hout⟩

/-- **all hypotheses of `C03.almost_only_when_reduced_met` hold on a concrete instance**: the
loop ran out of iterations on an iterate that meets the reduced test -/
theorem almost_example : ∃ (r : Resid ℝ) (i' j : InfoS ℝ),
    Residuals.update zRes0 zVars (toResidData zData) = .ok r
    ∧ Info.update zInfo (toInfoEquil zData.equilibration) 0 0 zVars r = .ok i'
    ∧ SameFigures j i' ∧ j.status ≠ .almostSolved
    ∧ (Info.postProcess j 0 0 zSettings).status = .almostSolved := by
  obtain ⟨r, i', hr, hi, hcp, hcd, hrp, hrd, hga, hgr, hkt, hst⟩ := zChain
  refine ⟨r, i', { i' with status := .maxIterations }, hr, hi, sameFigures_status i' _, by simp, ?_⟩
  unfold Info.postProcess checkConvergenceAlmost checkConvergence isSolved
  simp [hkt, hga, hgr, hrp, hrd, zSettings, zTols, SolverStatus.isErrored]

/-- the discarded iterate's info of the rollback example: residuals a thousand times worse than
the saved ones, `ktratio = 1/2`, `prev_*` = the figures of the `zData` chain (all `0`) -/
noncomputable def zDisc : InfoS ℝ :=
  { cost_primal := 0, cost_dual := 1, res_primal := 1000, res_dual := 1000, res_primal_inf := 1,
    res_dual_inf := 1, gap_abs := 1, gap_rel := 1, ktratio := 1/2, prev_cost_primal := 0,
    prev_cost_dual := 0, prev_res_primal := 0, prev_res_dual := 0, prev_gap_abs := 0,
    prev_gap_rel := 0, iterations := 3, status := .unsolved }

/-- **all hypotheses of `C03.almost_solved_after_rollback_consistent` hold on a concrete
instance**: pass `k` leaves the figures of the `zData` chain, pass `k+1` (`zDisc`) is judged
`InsufficientProgress`, the rollback restores pass `k`, `post_process` says `AlmostSolved` -/
theorem rollback_example : ∃ (r : Resid ℝ) (ip' : InfoS ℝ),
    Residuals.update zRes0 zVars (toResidData zData) = .ok r
    ∧ Info.update zInfo (toInfoEquil zData.equilibration) 0 0 zVars r = .ok ip'
    ∧ SameFigures ip' ip' ∧ PrevIs zDisc (savePrev ip')
    ∧ (checkTermination zDisc 0 0 zSettings 3 false).1.status = .insufficientProgress
    ∧ (Info.postProcess (resetToPrev (checkTermination zDisc 0 0 zSettings 3 false).1) 0 0 zSettings).status
        = .almostSolved := by
  obtain ⟨r, i', hr, hi, hcp, hcd, hrp, hrd, hga, hgr, hkt, hst⟩ := zChain
  have heps : (FloatLike.eps : ℝ) * 100 < 1/2 := by
    rw [cx_eps]
    have : (2⁻¹ : ℝ) ^ 52 ≤ 2⁻¹ ^ 10 := pow_le_pow_of_le_one (by norm_num) (by norm_num) (by norm_num)
    have h2 : (2⁻¹ : ℝ) ^ 10 = 1 / 1024 := by norm_num
    linarith
  have hne : ¬ ((1/2 : ℝ) < FloatLike.eps * 100) := not_lt.mpr heps.le
  have h2 : (checkTermination zDisc 0 0 zSettings 3 false).1 = { zDisc with status := .insufficientProgress } := by
    simp only [checkTermination, checkConvergenceFull, checkConvergence, isSolved,
      isPrimalInfeasible, isDualInfeasible, zDisc, zSettings, zTols]
    norm_num [hne]
  refine ⟨r, i', hr, hi, SameFigures.rfl' i', ?_, by rw [h2], ?_⟩
  · exact ⟨hcp.symm, hcd.symm, hrp.symm, hrd.symm, hga.symm, hgr.symm⟩
  · rw [h2]
    simp only [Info.postProcess, resetToPrev, checkConvergenceAlmost, checkConvergence, isSolved,
      isPrimalInfeasible, isDualInfeasible, zDisc, zSettings, zTols, SolverStatus.isErrored]
    norm_num

end Clarabel.InfoReport
