/-
  C05 — what two TRUTHFUL verdicts on one problem imply about each other (dense operators over
  an ordered field, as in `Lemmas/Duality.lean`): the consequences the pair oracle of
  `harness/src/bin/c05.rs` (`pair_check`, `run_meta_variants`) tests.

  * `objectives_within_slack`: two (approximately) optimal runs ⇒ objectives agree within the gap
    tolerance plus the residual slack;
  * `farkas_slack_pinf`: an (approximately) optimal run and a primal-infeasibility certificate;
  * `farkas_slack_dinf`: an (approximately) optimal run and a dual-infeasibility certificate.

  Helper lemmas for `Props/C05Equiv.lean`.
-/
import ClarabelProofs.Lemmas.Duality
import ClarabelProofs.Lemmas.EquivKkt

namespace Clarabel.Lemmas
open Matrix

set_option linter.unusedSectionVars false

variable {α : Type} [Field α] [LinearOrder α] [IsStrictOrderedRing α] {n m : ℕ}

/-- `r·v ≤ T‖v‖₁` and `−r·v ≤ T‖v‖₁` when every `|rₖ| ≤ T` -/
theorem dot_le_and_neg_le {k : ℕ} (r v : Fin k → α) (T : α) (h : ∀ i, |r i| ≤ T) :
    r ⬝ᵥ v ≤ T * ∑ i, |v i| ∧ -(r ⬝ᵥ v) ≤ T * ∑ i, |v i| := by
  have h1 := dot_le_bound_mul_l1 r v T h
  exact ⟨le_trans (le_abs_self _) h1, le_trans (neg_le_abs _) h1⟩

/-- weak duality with the residual bounds (the step `weak_duality_slack_tol` of `Props/C05.lean`,
re-proved here from `gap_identity`): `dobj₂ − pobj₁ ≤ Tp‖z₂‖₁ + Td‖x₁‖₁` -/
theorem dobj_sub_pobj_le_slack (P : Matrix (Fin n) (Fin n) α) (hsym : Pᵀ = P)
    (hpsd : ∀ d : Fin n → α, 0 ≤ d ⬝ᵥ P *ᵥ d) (A : Matrix (Fin m) (Fin n) α) (q : Fin n → α)
    (b : Fin m → α) (x₁ : Fin n → α) (s₁ : Fin m → α) (x₂ : Fin n → α) (z₂ : Fin m → α)
    (hK : 0 ≤ s₁ ⬝ᵥ z₂) (Tp Td : α) (hp : ∀ i, |rp A b x₁ s₁ i| ≤ Tp)
    (hd : ∀ j, |rd P A q x₂ z₂ j| ≤ Td) :
    dobj P b x₂ z₂ - pobj P q x₁ ≤ Tp * ∑ i, |z₂ i| + Td * ∑ j, |x₁ j| := by
  have hid := gap_identity P hsym A q b x₁ s₁ x₂ z₂
  have h1 := hpsd (x₁ - x₂)
  have h2 : (0 : α) ≤ 2⁻¹ * ((x₁ - x₂) ⬝ᵥ P *ᵥ (x₁ - x₂)) := mul_nonneg (by norm_num) h1
  have h3 := (dot_le_and_neg_le (rp A b x₁ s₁) z₂ Tp hp).1
  have h4 := (dot_le_and_neg_le (rd P A q x₂ z₂) x₁ Td hd).2
  linarith

/-- **Objectives agree within the gap tolerance plus the residual slack.**  Runs `i`, `j` on
one problem; run `j`'s own gap is within its promise `tg`. -/
theorem objectives_within_slack (P : Matrix (Fin n) (Fin n) α) (hsym : Pᵀ = P)
    (hpsd : ∀ d : Fin n → α, 0 ≤ d ⬝ᵥ P *ᵥ d) (A : Matrix (Fin m) (Fin n) α) (q : Fin n → α)
    (b : Fin m → α) (xi : Fin n → α) (si : Fin m → α) (xj : Fin n → α) (zj : Fin m → α)
    (hK : 0 ≤ si ⬝ᵥ zj) (Tp Td tg : α) (hp : ∀ k, |rp A b xi si k| ≤ Tp)
    (hd : ∀ l, |rd P A q xj zj l| ≤ Td) (hg : pobj P q xj - dobj P b xj zj ≤ tg) :
    pobj P q xj - pobj P q xi ≤ tg + Tp * ∑ k, |zj k| + Td * ∑ l, |xi l| := by
  have h := dobj_sub_pobj_le_slack P hsym hpsd A q b xi si xj zj hK Tp Td hp hd
  linarith

/-- the Farkas identity with residuals, primal side: `−b·z = rp·z − (Aᵀz)·x − s·z` -/
theorem farkas_identity_pinf (A : Matrix (Fin m) (Fin n) α) (b : Fin m → α) (x : Fin n → α)
    (s z : Fin m → α) :
    -(b ⬝ᵥ z) = rp A b x s ⬝ᵥ z - (Aᵀ *ᵥ z) ⬝ᵥ x - s ⬝ᵥ z := by
  have h1 := transpose_mulVec_dot A z x
  have h3 : (A *ᵥ x) ⬝ᵥ z = z ⬝ᵥ (A *ᵥ x) := dotProduct_comm _ _
  simp only [rp, sub_dotProduct, add_dotProduct, h1, h3]
  ring

/-- **Farkas with slack, optimal vs primal-infeasible.**  `(xᵢ,sᵢ)` with `‖rpᵢ‖∞ ≤ Tp` and a
vector `zⱼ` with `sᵢ·zⱼ ≥ 0`, `‖Aᵀzⱼ‖∞ ≤ Ta`:  `−b·zⱼ ≤ Tp‖zⱼ‖₁ + Ta‖xᵢ‖₁`. -/
theorem farkas_slack_pinf (A : Matrix (Fin m) (Fin n) α) (b : Fin m → α) (xi : Fin n → α)
    (si zj : Fin m → α) (hK : 0 ≤ si ⬝ᵥ zj) (Tp Ta : α) (hp : ∀ k, |rp A b xi si k| ≤ Tp)
    (ha : ∀ l, |(Aᵀ *ᵥ zj) l| ≤ Ta) :
    -(b ⬝ᵥ zj) ≤ Tp * ∑ k, |zj k| + Ta * ∑ l, |xi l| := by
  have hid := farkas_identity_pinf A b xi si zj
  have h1 := (dot_le_and_neg_le (rp A b xi si) zj Tp hp).1
  have h2 := (dot_le_and_neg_le (Aᵀ *ᵥ zj) xi Ta ha).2
  linarith

/-- the Farkas identity with residuals, dual side (symmetric `P`):
`−q·xⱼ = −rdᵢ·xⱼ + (Pxⱼ)·xᵢ + (Axⱼ + sⱼ)·zᵢ − sⱼ·zᵢ` -/
theorem farkas_identity_dinf (P : Matrix (Fin n) (Fin n) α) (hsym : Pᵀ = P)
    (A : Matrix (Fin m) (Fin n) α) (q : Fin n → α) (xi : Fin n → α) (zi : Fin m → α)
    (xj : Fin n → α) (sj : Fin m → α) :
    -(q ⬝ᵥ xj) = -(rd P A q xi zi ⬝ᵥ xj) + (P *ᵥ xj) ⬝ᵥ xi + (A *ᵥ xj + sj) ⬝ᵥ zi - sj ⬝ᵥ zi := by
  have h1 := transpose_mulVec_dot A zi xj
  have h2 := sym_dot P hsym xi xj
  have h3 : (A *ᵥ xj) ⬝ᵥ zi = zi ⬝ᵥ (A *ᵥ xj) := dotProduct_comm _ _
  have h4 : (P *ᵥ xi) ⬝ᵥ xj = xj ⬝ᵥ P *ᵥ xi := dotProduct_comm _ _
  have h5 : (P *ᵥ xj) ⬝ᵥ xi = xi ⬝ᵥ P *ᵥ xj := dotProduct_comm _ _
  simp only [rd, add_dotProduct, h1, h3, h4, h5]
  linear_combination -h2

/-- **Farkas with slack, optimal vs dual-infeasible.**  `(xᵢ,zᵢ)` with `‖rdᵢ‖∞ ≤ Td` and
`(xⱼ,sⱼ)` with `sⱼ·zᵢ ≥ 0`, `‖Pxⱼ‖∞ ≤ Tpx`, `‖Axⱼ+sⱼ‖∞ ≤ Tas`:
`−q·xⱼ ≤ Td‖xⱼ‖₁ + Tpx‖xᵢ‖₁ + Tas‖zᵢ‖₁`. -/
theorem farkas_slack_dinf (P : Matrix (Fin n) (Fin n) α) (hsym : Pᵀ = P)
    (A : Matrix (Fin m) (Fin n) α) (q : Fin n → α) (xi : Fin n → α) (zi : Fin m → α)
    (xj : Fin n → α) (sj : Fin m → α) (hK : 0 ≤ sj ⬝ᵥ zi) (Td Tpx Tas : α)
    (hd : ∀ l, |rd P A q xi zi l| ≤ Td) (hpx : ∀ l, |(P *ᵥ xj) l| ≤ Tpx)
    (has : ∀ k, |(A *ᵥ xj + sj) k| ≤ Tas) :
    -(q ⬝ᵥ xj) ≤ Td * ∑ l, |xj l| + Tpx * ∑ l, |xi l| + Tas * ∑ k, |zi k| := by
  have hid := farkas_identity_dinf P hsym A q xi zi xj sj
  have h1 := (dot_le_and_neg_le (rd P A q xi zi) xj Td hd).2
  have h2 := (dot_le_and_neg_le (P *ᵥ xj) xi Tpx hpx).1
  have h3 := (dot_le_and_neg_le (A *ᵥ xj + sj) zi Tas has).1
  linarith

/-- exact form: a primal-feasible point (`Ax + s = b`, `s·z ≥ 0`) excludes a
primal-infeasibility certificate `z` -/
theorem feasible_excludes_pinf_cert (A : Matrix (Fin m) (Fin n) α) (b : Fin m → α)
    (Kd : Set (Fin m → α)) (x : Fin n → α) (s z : Fin m → α) (hfeas : A *ᵥ x + s = b)
    (hK : 0 ≤ s ⬝ᵥ z) (hc : IsPrimalInfCert A b Kd z) : False := by
  obtain ⟨h1, _, h3⟩ := hc
  have hrp : rp A b x s = 0 := by unfold rp; rw [hfeas, sub_self]
  have := farkas_slack_pinf A b x s z hK 0 0 (by intro k; simp [hrp]) (by intro l; simp [h1])
  simp only [zero_mul, add_zero] at this
  linarith

/-- exact form: a dual-feasible point (`Px + Aᵀz + q = 0`, `sⱼ·z ≥ 0`) excludes a
dual-infeasibility certificate `(xⱼ,sⱼ)` -/
theorem dual_feasible_excludes_dinf_cert (P : Matrix (Fin n) (Fin n) α) (hsym : Pᵀ = P)
    (A : Matrix (Fin m) (Fin n) α) (q : Fin n → α) (K : Set (Fin m → α)) (xi : Fin n → α)
    (zi : Fin m → α) (xj : Fin n → α) (sj : Fin m → α)
    (hfeas : P *ᵥ xi + Aᵀ *ᵥ zi + q = 0) (hK : 0 ≤ sj ⬝ᵥ zi) (hc : IsDualInfCert P q A K xj sj) :
    False := by
  obtain ⟨h1, h2, _, h4⟩ := hc
  have hrd : rd P A q xi zi = 0 := hfeas
  have := farkas_slack_dinf P hsym A q xi zi xj sj hK 0 0 0 (by intro l; simp [hrd])
    (by intro l; simp [h1]) (by intro k; rw [h2]; simp)
  simp only [zero_mul, add_zero] at this
  linarith

end Clarabel.Lemmas
