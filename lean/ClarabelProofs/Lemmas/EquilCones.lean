/-
  Helper lemmas for C10 `cone_preserved`: homogeneity (degree 1 / degree 2) of the membership
  tests of the exponential and power cones (`ClarabelModel/Cones/{Exp,Pow}.lean`) over ℝ, and
  of the quadratic form for the PSD cone.
-/
import ClarabelModel.Cones.Exp
import ClarabelModel.Cones.Pow
import ClarabelProofs.Lemmas.NonsymCalc
import Mathlib.Algebra.BigOperators.Ring.Finset
import Mathlib.Algebra.Order.BigOperators.Ring.Finset

namespace Clarabel.Equil
open Clarabel Nonsym

/-- the interior test of the exponential cone is invariant under a positive uniform scaling -/
theorem exp_primal_scale (k s0 s1 s2 : ℝ) (hk : 0 < k) :
    Exp.isPrimalFeasible (k * s0) (k * s1) (k * s2) = Exp.isPrimalFeasible s0 s1 s2 := by
  unfold Exp.isPrimalFeasible
  have e : k * s2 / (k * s1) = s2 / s1 := mul_div_mul_left _ _ (ne_of_gt hk)
  have hres : k * s1 * logsafe (s2 / s1) - k * s0 = k * (s1 * logsafe (s2 / s1) - s0) := by ring
  simp only [e, hres, mul_pos_iff_of_pos_left hk]

theorem exp_dual_scale (k z0 z1 z2 : ℝ) (hk : 0 < k) :
    Exp.isDualFeasible (k * z0) (k * z1) (k * z2) = Exp.isDualFeasible z0 z1 z2 := by
  unfold Exp.isDualFeasible
  have e : -(k * z2) / (k * z0) = -z2 / z0 := by
    rw [← mul_neg]; exact mul_div_mul_left _ _ (ne_of_gt hk)
  have hres : k * z1 - k * z0 - k * z0 * logsafe (-z2 / z0) = k * (z1 - z0 - z0 * logsafe (-z2 / z0)) := by
    ring
  have hneg : k * z0 < 0 ↔ z0 < 0 := by
    constructor
    · intro h
      by_contra hn
      have := mul_nonneg hk.le (not_lt.mp hn)
      linarith
    · exact fun h => mul_neg_of_pos_of_neg hk h
  simp only [e, hres, mul_pos_iff_of_pos_left hk, hneg]

theorem exp_two_log_scale (k : ℝ) (hk : 0 < k) (a x y : ℝ) (hx : 0 < x) (hy : 0 < y) :
    Real.exp (2 * a * Real.log (k * x) + 2 * (1 - a) * Real.log (k * y)) =
      k * k * Real.exp (2 * a * Real.log x + 2 * (1 - a) * Real.log y) := by
  rw [Real.log_mul (ne_of_gt hk) (ne_of_gt hx), Real.log_mul (ne_of_gt hk) (ne_of_gt hy)]
  have : 2 * a * (Real.log k + Real.log x) + 2 * (1 - a) * (Real.log k + Real.log y) =
      (Real.log k + Real.log k) + (2 * a * Real.log x + 2 * (1 - a) * Real.log y) := by ring
  rw [this, Real.exp_add, Real.exp_add, Real.exp_log hk]

theorem pow_primal_scale (a k s0 s1 s2 : ℝ) (hk : 0 < k) :
    Pow.isPrimalFeasible a (k * s0) (k * s1) (k * s2) = Pow.isPrimalFeasible a s0 s1 s2 := by
  unfold Pow.isPrimalFeasible
  by_cases h0 : 0 < s0 <;> by_cases h1 : 0 < s1 <;>
    simp only [mul_pos_iff_of_pos_left hk, h0, h1, decide_true, decide_false, Bool.and_self, Bool.and_false,
      Bool.false_and, ↓reduceIte, Bool.false_eq_true]
  rw [logsafe_of_pos h0, logsafe_of_pos h1, logsafe_of_pos (mul_pos hk h0), logsafe_of_pos (mul_pos hk h1)]
  show (if 0 < Real.exp _ - _ then true else false) = (if 0 < Real.exp _ - _ then true else false)
  rw [exp_two_log_scale k hk a s0 s1 h0 h1]
  have : k * k * Real.exp (2 * a * Real.log s0 + 2 * (1 - a) * Real.log s1) - k * s2 * (k * s2) =
      (k * k) * (Real.exp (2 * a * Real.log s0 + 2 * (1 - a) * Real.log s1) - s2 * s2) := by ring
  rw [this]
  simp only [mul_pos_iff_of_pos_left (mul_pos hk hk)]

theorem pow_dual_scale (a k z0 z1 z2 : ℝ) (hk : 0 < k) (ha0 : 0 < a) (ha1 : a < 1) :
    Pow.isDualFeasible a (k * z0) (k * z1) (k * z2) = Pow.isDualFeasible a z0 z1 z2 := by
  unfold Pow.isDualFeasible
  have h1a : 0 < 1 - a := by linarith
  by_cases h0 : 0 < z0 <;> by_cases h1 : 0 < z1 <;>
    simp only [mul_pos_iff_of_pos_left hk, h0, h1, decide_true, decide_false, Bool.and_self, Bool.and_false,
      Bool.false_and, ↓reduceIte, Bool.false_eq_true]
  have p0 := div_pos h0 ha0
  have p1 := div_pos h1 h1a
  rw [mul_div_assoc k z0 a, mul_div_assoc k z1 (1 - a)]
  rw [logsafe_of_pos p0, logsafe_of_pos p1, logsafe_of_pos (mul_pos hk p0), logsafe_of_pos (mul_pos hk p1)]
  show (if 0 < Real.exp _ - _ then true else false) = (if 0 < Real.exp _ - _ then true else false)
  have e1 : a * 2 * Real.log (k * (z0 / a)) + (1 - a) * Real.log (k * (z1 / (1 - a))) * 2 =
      2 * a * Real.log (k * (z0 / a)) + 2 * (1 - a) * Real.log (k * (z1 / (1 - a))) := by ring
  have e2 : a * 2 * Real.log (z0 / a) + (1 - a) * Real.log (z1 / (1 - a)) * 2 =
      2 * a * Real.log (z0 / a) + 2 * (1 - a) * Real.log (z1 / (1 - a)) := by ring
  rw [e1, e2, exp_two_log_scale k hk a _ _ p0 p1]
  have : k * k * Real.exp (2 * a * Real.log (z0 / a) + 2 * (1 - a) * Real.log (z1 / (1 - a))) - k * z2 * (k * z2) =
      (k * k) * (Real.exp (2 * a * Real.log (z0 / a) + 2 * (1 - a) * Real.log (z1 / (1 - a))) - z2 * z2) := by ring
  rw [this]
  simp only [mul_pos_iff_of_pos_left (mul_pos hk hk)]

/-! PSD cone on the quadratic form -/

section psd
variable {α : Type} [Field α] {n : Nat}

/-- `xᵀ S x` -/
def quadForm (S : Fin n → Fin n → α) (x : Fin n → α) : α := ∑ i, ∑ j, x i * S i j * x j

theorem quadForm_scale (k : α) (S : Fin n → Fin n → α) (x : Fin n → α) :
    quadForm (fun i j => k * S i j) x = k * quadForm S x := by
  unfold quadForm
  rw [Finset.mul_sum]
  refine Finset.sum_congr rfl (fun i _ => ?_)
  rw [Finset.mul_sum]
  refine Finset.sum_congr rfl (fun j _ => ?_)
  ring

end psd
end Clarabel.Equil
