/-
  Geometry of a valid sparsity pattern in ORIGINAL coordinates (the clique tree lives on the
  vertices `0..n-1` of the re-ordered matrix; `ordering` maps them back), the layout of the clique
  blocks in the compact problem, and the values of the model's tree accessors on valid trees.
-/
import ClarabelProofs.Lemmas.ChordalCompactLoops
import ClarabelProofs.Lemmas.ChordalValidTree
import ClarabelProofs.Lemmas.ChordalDecomp

namespace Clarabel.Chordal

/-! ## sorted lists -/

theorem pairwise_lt_of_le_nodup {l : List Nat} (h1 : l.Pairwise (· ≤ ·)) (h2 : l.Nodup) :
    l.Pairwise (· < ·) := by
  have := h1.and h2
  exact this.imp (fun ⟨a, b⟩ => Nat.lt_of_le_of_ne a b)

/-- strictly sorted lists with the same members are equal -/
theorem sorted_ext {l₁ l₂ : List Nat} (h1 : l₁.Pairwise (· < ·)) (h2 : l₂.Pairwise (· < ·))
    (h : ∀ v, v ∈ l₁ ↔ v ∈ l₂) : l₁ = l₂ := by
  have n1 : l₁.Nodup := h1.imp (fun hab he => by rw [he] at hab; exact Nat.lt_irrefl _ hab)
  have n2 : l₂.Nodup := h2.imp (fun hab he => by rw [he] at hab; exact Nat.lt_irrefl _ hab)
  exact List.Perm.eq_of_pairwise (le := fun a b => a < b) (fun a b _ _ hab hba => by omega) h1 h2
    ((List.perm_ext_iff_of_nodup n1 n2).2 h)

/-- position of a member of a strictly sorted list -/
theorem exists_pos_of_mem {l : List Nat} {a : Nat} (h : a ∈ l) : ∃ x, x < l.length ∧ l.getD x 0 = a := by
  obtain ⟨x, hx, rfl⟩ := List.getElem_of_mem h
  exact ⟨x, hx, by simp [List.getD_eq_getElem?_getD, List.getElem?_eq_getElem hx]⟩

theorem getD_mem_of_lt {l : List Nat} {x : Nat} (h : x < l.length) : l.getD x 0 ∈ l := by
  rw [List.getD_eq_getElem?_getD, List.getElem?_eq_getElem h]
  exact List.getElem_mem h

theorem getD_strict_of_sorted {l : List Nat} (hs : l.Pairwise (· < ·)) {x y : Nat} (hxy : x < y)
    (hy : y < l.length) : l.getD x 0 < l.getD y 0 := by
  rw [List.getD_eq_getElem?_getD, List.getD_eq_getElem?_getD, List.getElem?_eq_getElem hy,
    List.getElem?_eq_getElem (by omega)]
  exact List.pairwise_iff_getElem.1 hs x y (by omega) hy hxy

theorem getD_inj_of_sorted {l : List Nat} (hs : l.Pairwise (· < ·)) {x y : Nat} (hx : x < l.length)
    (hy : y < l.length) (h : l.getD x 0 = l.getD y 0) : x = y := by
  rcases Nat.lt_trichotomy x y with h' | h' | h'
  · have := getD_strict_of_sorted hs h' hy; omega
  · exact h'
  · have := getD_strict_of_sorted hs h' hx; omega

theorem getD_le_iff_of_sorted {l : List Nat} (hs : l.Pairwise (· < ·)) {x y : Nat} (hx : x < l.length)
    (hy : y < l.length) : l.getD x 0 ≤ l.getD y 0 ↔ x ≤ y := by
  constructor
  · intro h
    rcases Nat.lt_or_ge y x with h' | h'
    · have := getD_strict_of_sorted hs h' hx; omega
    · exact h'
  · intro h
    rcases Nat.lt_or_eq_of_le h with h' | h'
    · exact Nat.le_of_lt (getD_strict_of_sorted hs h' hy)
    · subst h'; exact Nat.le_refl _

/-! ## original coordinates -/

namespace SPattern

/-- original index of the tree vertex `v` -/
def ordv (p : SPattern) (v : Nat) : Nat := p.ordering.getD v 0

/-- a vertex list mapped to original coordinates and sorted (`…map(|&v| ordering[v])…sort()`) -/
def sortO (p : SPattern) (l : List Nat) : List Nat :=
  (l.map p.ordv).mergeSort (fun a b => decide (a ≤ b))

/-- supernode / separator / clique with post-order index `i`, original coordinates, sorted -/
def snodeO (p : SPattern) (i : Nat) : List Nat := p.sortO (p.sntree.snodeAt i)
def sepO (p : SPattern) (i : Nat) : List Nat := p.sortO (p.sntree.sepAt i)
def cliqueO (p : SPattern) (i : Nat) : List Nat := p.sortO (p.sntree.cliqueAt i)

/-- the block entries of clique `i` (what `get_block_indices` returns on a valid pattern) -/
def blockList (p : SPattern) (i : Nat) : List (Nat × Nat × Bool) :=
  triPairs (p.cliqueO i) (fun a b => decide (a ∈ p.sepO i) && decide (b ∈ p.sepO i))

/-- number of rows of the block of clique `i` -/
def blk (p : SPattern) (i : Nat) : Nat := triangularNumber (p.sntree.cliqueAt i).length
/-- number of overlap entries of clique `i` -/
def ovl (p : SPattern) (i : Nat) : Nat := triangularNumber (p.sntree.sepAt i).length

end SPattern

/-- `Σ_{d' < d} f (n - 1 - d')` : running sum along a descending loop `for i in (0..n).rev()` -/
def descSum (f : Nat → Nat) (n d : Nat) : Nat := ((List.range d).map (fun d' => f (n - 1 - d'))).sum

theorem descSum_zero (f : Nat → Nat) (n : Nat) : descSum f n 0 = 0 := rfl

theorem descSum_succ (f : Nat → Nat) (n d : Nat) :
    descSum f n (d + 1) = descSum f n d + f (n - 1 - d) := by
  unfold descSum
  rw [List.range_succ, List.map_append, List.sum_append]
  simp

theorem descSum_mono (f : Nat → Nat) (n d d' : Nat) (h : d ≤ d') : descSum f n d ≤ descSum f n d' := by
  induction h with
  | refl => exact Nat.le_refl _
  | step _ ih => rw [descSum_succ]; omega

namespace SPattern

/-- first row of the block of clique `i` when the pattern's blocks start at `row0`
(blocks are emitted in descending post-order) -/
def rowStart (p : SPattern) (row0 i : Nat) : Nat :=
  row0 + descSum p.blk p.sntree.nCliques (p.sntree.nCliques - 1 - i)
/-- first overlap slot pair of clique `i` -/
def ovStart (p : SPattern) (op0 i : Nat) : Nat :=
  op0 + 2 * descSum p.ovl p.sntree.nCliques (p.sntree.nCliques - 1 - i)
/-- row of the compact problem holding position `(x, y)`, `x ≤ y`, of the block of clique `i` -/
def blockRow (p : SPattern) (row0 i x y : Nat) : Nat :=
  p.rowStart row0 i + coordToUpperTriangularIndex (x, y)
/-- total number of rows / overlaps of the pattern's blocks -/
def totalRows (p : SPattern) : Nat := descSum p.blk p.sntree.nCliques p.sntree.nCliques
def totalOverlaps (p : SPattern) : Nat := descSum p.ovl p.sntree.nCliques p.sntree.nCliques

theorem mem_sortO (p : SPattern) (l : List Nat) (x : Nat) :
    x ∈ p.sortO l ↔ ∃ v ∈ l, p.ordv v = x := by
  unfold sortO
  rw [(List.mergeSort_perm _ _).mem_iff, List.mem_map]

theorem length_sortO (p : SPattern) (l : List Nat) : (p.sortO l).length = l.length := by
  unfold sortO
  rw [List.length_mergeSort, List.length_map]

theorem sortO_sorted (p : SPattern) (hp : ValidPattern p) (l : List Nat) (hl : l.Nodup)
    (hlt : ∀ v ∈ l, v < p.ordering.size) : (p.sortO l).Pairwise (· < ·) := by
  apply pairwise_lt_of_le_nodup
  · have := List.pairwise_mergeSort (le := fun a b : Nat => decide (a ≤ b))
      (fun a b c h1 h2 => by simp only [decide_eq_true_eq] at *; omega)
      (fun a b => by simp only [Bool.or_eq_true, decide_eq_true_eq]; omega) (l.map p.ordv)
    exact this.imp (fun h => by simpa using h)
  · unfold sortO
    rw [(List.mergeSort_perm _ _).nodup_iff]
    exact hl.map_on (fun a ha b hb h => hp.ord_inj a b (hlt a ha) (hlt b hb) h)

theorem sortO_lt (p : SPattern) (hp : ValidPattern p) (l : List Nat)
    (hlt : ∀ v ∈ l, v < p.ordering.size) : ∀ x ∈ p.sortO l, x < p.ordering.size := by
  intro x hx
  obtain ⟨v, hv, rfl⟩ := (p.mem_sortO l x).1 hx
  exact hp.ord_lt v (hlt v hv)

end SPattern

/-! ## facts about one clique of a valid pattern -/

structure CliqueFacts (p : SPattern) (i : Nat) : Prop where
  snode_sorted : (p.snodeO i).Pairwise (· < ·)
  sep_sorted : (p.sepO i).Pairwise (· < ·)
  clique_sorted : (p.cliqueO i).Pairwise (· < ·)
  mem_clique : ∀ v, v ∈ p.cliqueO i ↔ v ∈ p.snodeO i ∨ v ∈ p.sepO i
  disj : ∀ v, v ∈ p.snodeO i → v ∉ p.sepO i
  clique_lt : ∀ v ∈ p.cliqueO i, v < p.ordering.size
  clique_len : (p.cliqueO i).length = (p.sntree.cliqueAt i).length
  sep_len : (p.sepO i).length = (p.sntree.sepAt i).length

theorem cliqueFacts (p : SPattern) (hp : ValidPattern p) (i : Nat) (hi : i < p.sntree.nCliques) :
    CliqueFacts p i := by
  have hnd := hp.tree.clique_nodup i hi
  have hlt := hp.tree.clique_lt i hi
  have hnd' := hnd
  unfold SuperNodeTree.cliqueAt at hnd'
  rw [List.nodup_append] at hnd'
  obtain ⟨hn1, hn2, hn3⟩ := hnd'
  have hlt1 : ∀ v ∈ p.sntree.snodeAt i, v < p.ordering.size :=
    fun v hv => hlt v (List.mem_append_left _ hv)
  have hlt2 : ∀ v ∈ p.sntree.sepAt i, v < p.ordering.size :=
    fun v hv => hlt v (List.mem_append_right _ hv)
  refine ⟨p.sortO_sorted hp _ hn1 hlt1, p.sortO_sorted hp _ hn2 hlt2, p.sortO_sorted hp _ hnd hlt,
    ?_, ?_, p.sortO_lt hp _ hlt, p.length_sortO _, p.length_sortO _⟩
  · intro v
    unfold SPattern.cliqueO SPattern.snodeO SPattern.sepO
    rw [p.mem_sortO, p.mem_sortO, p.mem_sortO]
    unfold SuperNodeTree.cliqueAt
    constructor
    · rintro ⟨u, hu, rfl⟩
      rcases List.mem_append.1 hu with h | h
      · exact Or.inl ⟨u, h, rfl⟩
      · exact Or.inr ⟨u, h, rfl⟩
    · rintro (⟨u, hu, rfl⟩ | ⟨u, hu, rfl⟩)
      · exact ⟨u, List.mem_append_left _ hu, rfl⟩
      · exact ⟨u, List.mem_append_right _ hu, rfl⟩
  · intro v h1 h2
    unfold SPattern.snodeO at h1
    unfold SPattern.sepO at h2
    rw [p.mem_sortO] at h1 h2
    obtain ⟨u, hu, rfl⟩ := h1
    obtain ⟨u', hu', he⟩ := h2
    have := hp.ord_inj u' u (hlt2 u' hu') (hlt1 u hu) he
    subst this
    exact hn3 u' hu u' hu' rfl

/-- the block list of a clique has `blk` entries, `ovl` of which are overlaps -/
theorem blockList_length (p : SPattern) (hp : ValidPattern p) (i : Nat) (hi : i < p.sntree.nCliques) :
    (p.blockList i).length = p.blk i := by
  have hf := cliqueFacts p hp i hi
  unfold SPattern.blockList SPattern.blk
  rw [triPairs_length _ _ hf.clique_sorted, hf.clique_len]

theorem blockList_countP (p : SPattern) (hp : ValidPattern p) (i : Nat) (hi : i < p.sntree.nCliques) :
    (p.blockList i).countP (fun e => e.2.2) = p.ovl i := by
  have hf := cliqueFacts p hp i hi
  unfold SPattern.ovl
  rw [← hf.sep_len, ← triPairs_length (p.sepO i) (fun _ _ => true) hf.sep_sorted, List.countP_eq_length_filter]
  apply List.Perm.length_eq
  unfold SPattern.blockList
  rw [List.perm_ext_iff_of_nodup ((triPairs_nodup _ _ hf.clique_sorted).filter _)
    (triPairs_nodup _ _ hf.sep_sorted)]
  intro e
  obtain ⟨a, b, f⟩ := e
  rw [List.mem_filter, triPairs_mem, triPairs_mem]
  simp only [hf.mem_clique]
  constructor
  · rintro ⟨⟨hb, ha, hab, hf'⟩, hflag⟩
    subst hflag
    have : a ∈ p.sepO i ∧ b ∈ p.sepO i := by simpa using hf'.symm
    exact ⟨this.2, this.1, hab, rfl⟩
  · rintro ⟨hb, ha, hab, hf'⟩
    subst hf'
    exact ⟨⟨Or.inr hb, Or.inr ha, hab, by simp [ha, hb]⟩, rfl⟩

/-! ## the model's tree accessors on valid trees -/

theorem getSnode_okV (t : SuperNodeTree) (n : Nat) (h : ValidTree t n) (i : Nat) (hi : i < t.nCliques) :
    ∃ s, t.getSnode i = .ok s ∧ s.toList = t.snodeAt i := by
  refine ⟨t.snode.getD (t.postIdx i) #[], ?_, rfl⟩
  unfold SuperNodeTree.getSnode
  rw [getE_ok t.snodePost i _ 0 (by rw [h.post_size]; exact hi)]
  simp only [bind, Except.bind]
  exact getE_ok t.snode _ _ #[] (h.post_lt i hi)

theorem getSeparators_okV (t : SuperNodeTree) (n : Nat) (h : ValidTree t n) (i : Nat) (hi : i < t.nCliques) :
    ∃ s, t.getSeparators i = .ok s ∧ s.toList = t.sepAt i := by
  refine ⟨t.separators.getD (t.postIdx i) #[], ?_, rfl⟩
  unfold SuperNodeTree.getSeparators
  rw [getE_ok t.snodePost i _ 0 (by rw [h.post_size]; exact hi)]
  simp only [bind, Except.bind]
  exact getE_ok t.separators _ _ #[] (by rw [h.sep_size]; exact h.post_lt i hi)

theorem getNblk_okV (t : SuperNodeTree) (n : Nat) (h : ValidTree t n) (i : Nat) (hi : i < t.nCliques) :
    t.getNblk i = .ok (t.cliqueAt i).length := by
  obtain ⟨nb, h1, h2, h3⟩ := h.nblk
  unfold SuperNodeTree.getNblk
  rw [h1]
  simp only
  rw [getE_ok nb i _ 0 (by omega), h3 i hi]

theorem getOverlap_okV (t : SuperNodeTree) (n : Nat) (h : ValidTree t n) (i : Nat) (hi : i < t.nCliques) :
    t.getOverlap i = .ok (t.sepAt i).length := by
  obtain ⟨s, h1, h2⟩ := getSeparators_okV t n h i hi
  unfold SuperNodeTree.getOverlap
  rw [h1]
  simp only [bind, Except.bind, pure, Except.pure]
  rw [← h2]; simp

theorem getCliqueParent_okV (t : SuperNodeTree) (n : Nat) (h : ValidTree t n) (i : Nat) (hi : i < t.nCliques) :
    t.getCliqueParent i = .ok (t.snodeParent.getD (t.postIdx i) 0) := by
  unfold SuperNodeTree.getCliqueParent
  rw [getE_ok t.snodePost i _ 0 (by rw [h.post_size]; exact hi)]
  simp only [bind, Except.bind]
  exact getE_ok t.snodeParent _ _ 0 (by rw [h.par_size]; exact h.post_lt i hi)

theorem mapM_getE_ok (xs : Array Nat) (l : List Nat) (s : String) (h : ∀ v ∈ l, v < xs.size) :
    l.mapM (fun v => getE xs v s) = .ok (l.map (fun v => xs.getD v 0)) := by
  induction l with
  | nil => rfl
  | cons a t ih =>
    rw [List.mapM_cons, getE_ok xs a s 0 (h a List.mem_cons_self)]
    simp only [bind, Except.bind]
    rw [ih (fun v hv => h v (List.mem_cons_of_mem _ hv))]
    rfl

theorem mapSorted_ok (p : SPattern) (s : VSet) (h : ∀ v ∈ s.toList, v < p.ordering.size) :
    mapSorted p.ordering s = .ok (p.sortO s.toList).toArray := by
  unfold mapSorted
  rw [mapM_getE_ok p.ordering s.toList _ h]
  simp only [bind, Except.bind, pure, Except.pure]
  rfl

/-! ## `parent_block_indices` -/

/-- in the sorted parent clique the vertices `a ≤ b` sit at positions `x' ≤ y'`, and
`parent_block_indices` returns the packed index of that position pair -/
theorem parentBlockIndices_spec (C : List Nat) (hC : C.Pairwise (· < ·)) (x y : Nat)
    (hx : x < C.length) (hy : y < C.length) :
    parentBlockIndices C.toArray (C.getD x 0) (C.getD y 0) = coordToUpperTriangularIndex (x, y) := by
  unfold parentBlockIndices
  have hs : StrictOn C.toArray 0 C.toArray.size := by
    intro a b _ hab hb
    simp only [List.size_toArray] at hb
    have := getD_strict_of_sorted hC hab hb
    simpa [Array.getD, List.getD_eq_getElem?_getD, hb, show a < C.length by omega] using this
  have e1 : ∀ z, z < C.length → C.toArray.getD z 0 = C.getD z 0 := by
    intro z hz
    simp [Array.getD, List.getD_eq_getElem?_getD, hz]
  rw [partitionPointLt_eq_of_mem C.toArray 0 C.toArray.size (C.getD x 0) x hs (Nat.zero_le _)
      (by simpa using hx) (e1 x hx),
    partitionPointLt_eq_of_mem C.toArray 0 C.toArray.size (C.getD y 0) y hs (Nat.zero_le _)
      (by simpa using hy) (e1 y hy)]

end Clarabel.Chordal
