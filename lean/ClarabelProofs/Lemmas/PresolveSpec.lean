/-
  Helper lemmas for C09 `problemdata_new_spec`: the sub-steps of `ProblemData.new`
  (`triuStep`, `tryPresolver`, `reduceStep`, `assemble`) as equations.
-/
import ClarabelModel.ProblemData
import ClarabelProofs.Lemmas.Presolve

namespace Clarabel.Presolve
open Clarabel Cones
variable {α : Type}

section
variable [Add α] [Sub α] [Mul α] [Div α] [OfNat α 0] [OfNat α 1] [LT α] [DecidableLT α] [FloatLike α]

/-- the presolver record built from a keep vector -/
def recordOf (keep : List Bool) (b : Array α) (inf : α) : Presolver α :=
  { keep := some keep.toArray, mfull := b.size, mreduced := keep.count true, infbound := inf }

omit [Add α] [Div α] [OfNat α 0] in
theorem tryPresolver_off (b : Array α) (cs : List (ConeT α)) (inf : α) :
    ProblemData.tryPresolver b cs false inf = .ok none := rfl

omit [Add α] [Div α] [OfNat α 0] in
theorem tryPresolver_on (b : Array α) (cs : List (ConeT α)) (inf : α) (keep : List Bool)
    (hk : keepFlags (threshold inf) cs b.toList = .ok keep) :
    ProblemData.tryPresolver b cs true inf =
      .ok (if keep.count true < b.size then some (recordOf keep b inf) else none) := by
  unfold ProblemData.tryPresolver Presolver.new makeReductionMap
  by_cases hc : keep.count true < b.size <;>
    simp [hk, hc, bind, Except.bind, pure, Except.pure, Presolver.isReduced, recordOf]

theorem triuStep_ok (P : Csc α) (h : P.m = P.n) : ∃ Pn, ProblemData.triuStep P = .ok Pn := by
  unfold ProblemData.triuStep
  by_cases ht : P.isTriu = true
  · exact ⟨P, by simp [ht]; rfl⟩
  · have : ∃ T, P.toTriu = .ok T := by
      unfold Csc.toTriu
      rw [if_neg (by simp [h])]
      exact ⟨_, rfl⟩
    obtain ⟨T, hT⟩ := this
    exact ⟨T, by simp [ht, hT]⟩

/-- `ProblemData.new` once its three sub-steps are known (chordal decomposition off) -/
theorem new_eq_of_steps (P : Csc α) (q : Array α) (A : Csc α) (b : Array α) (cones : List (ConeT α))
    (presolve : Bool) (inf : α) (Pn : Csc α) (pres : Option (Presolver α))
    (r : Csc α × Array α × List (ConeT α))
    (hP : ProblemData.triuStep P = .ok Pn)
    (hpre : ProblemData.tryPresolver b (newCollapsed cones) presolve inf = .ok pres)
    (hred : ProblemData.reduceStep pres A b (newCollapsed cones) = .ok r) :
    ProblemData.new P q A b cones presolve false inf =
      .ok (ProblemData.assemble Pn q r.1 r.2.1 r.2.2 pres inf) := by
  unfold ProblemData.new
  simp only [hP, hpre, hred, bind, Except.bind, pure, Except.pure, Bool.false_and, Bool.false_eq_true,
    ↓reduceIte]


end
end Clarabel.Presolve
