/-
  Lemmas about `Kkt.updateValues` (model of `DirectLDLKKTSolver::update` before the
  regularisation): without sparse-expandable cones the positions `map.Hsblocks` receive
  `−get_Hs` entry for entry and nothing else is written.  Structural: no law of the scalar
  type is used.
-/
import ClarabelProofs.Lemmas.KktRestore

set_option linter.unusedSectionVars false
set_option linter.unusedVariables false

namespace Clarabel.Kkt
open Clarabel

variable {α : Type} [Add α] [Sub α] [Mul α] [Div α] [Neg α] [OfNat α 0] [OfNat α 1]
  [LT α] [DecidableLT α] [FloatLike α]

theorem foldlM_nonsparse (cones : List (ConeScaling α)) (map : LDLDataMap)
    (hns : ∀ c ∈ cones, c.isSparse = false) (st : Array α × Nat) :
    cones.foldlM (fun (st : Array α × Nat) c => do
      if c.isSparse then
        let thismap ← getE map.sparse_maps st.2 "sparse_map_iter.next().unwrap()"
        let nz ← updateSparsecone st.1 thismap c
        pure (nz, st.2 + 1)
      else pure st) st = (.ok st : MErr _) := by
  induction cones generalizing st with
  | nil => rfl
  | cons c t ih =>
    rw [List.foldlM_cons]
    have hc := hns c (by simp)
    simp only [hc, Bool.false_eq_true, ↓reduceIte]
    exact ih (fun x hx => hns x (by simp [hx])) st

/-- `update` without sparse cones: the Hs positions receive `−get_Hs`, nothing else moves. -/
theorem updateValues_nonsparse (nz nz' : Array α) (map : LDLDataMap) (cones : List (ConeScaling α))
    (hns : ∀ c ∈ cones, c.isSparse = false)
    (hnd : map.Hsblocks.toList.Nodup)
    (h : updateValues nz map cones = .ok nz') :
    ∃ blocks, cones.mapM getHs = .ok blocks ∧
      nz'.size = nz.size ∧
      (∀ j, j ∉ map.Hsblocks.toList → nz'[j]? = nz[j]?) ∧
      (∀ k (hk : k < map.Hsblocks.size)
         (hlen : map.Hsblocks.size ≤ ((blocks.map Array.toList).flatten).length)
         (hk2 : k < ((blocks.map Array.toList).flatten).length),
        nz'[map.Hsblocks[k]]? = some (-((blocks.map Array.toList).flatten)[k])) := by
  unfold updateValues at h
  obtain ⟨blocks, hb, h⟩ := except_bind_eq_ok h
  obtain ⟨nz1, h1, h⟩ := except_bind_eq_ok h
  obtain ⟨r, hr, h⟩ := except_bind_eq_ok h
  rw [foldlM_nonsparse cones map hns] at hr
  cases hr
  simp only [pure, Except.pure] at h
  cases h
  refine ⟨blocks, hb, updateValuesKKT_size h1, ?_, ?_⟩
  · intro j hj
    rw [updateValuesKKT_getElem? h1 j, zip_find_none_of_not_mem hj]
  · intro k hk hlen hk2
    have hvl : ((List.map Array.toList blocks).flatten.toArray.map (fun v => -v)).toList
        = (List.map Array.toList blocks).flatten.map (fun v => -v) := by
      rw [Array.toList_map]
    rw [updateValuesKKT_getElem? h1 _, hvl]
    generalize (List.map Array.toList blocks).flatten = vals at hk2 hlen ⊢
    cases hf : (map.Hsblocks.toList.zip (vals.map (fun v => -v))).reverse.find?
        (fun p => p.1 == map.Hsblocks[k]) with
    | none =>
      exact absurd (by simp) (not_mem_of_zip_find_none (by simp only [List.length_map, Array.length_toList]; omega) hf)
    | some q =>
      obtain ⟨k', hk1, hk2', hkj, hkq⟩ := zip_find_some hf
      have hkk : k' = k :=
        (List.getElem_inj (h₀ := hk1) (h₁ := by simpa using hk) hnd).1 (by simpa using hkj)
      subst hkk
      simp only [← hkq, List.getElem_map]

end Clarabel.Kkt
