/-
  C04 over ℝ: TOTAL panic-freedom of `solve()` of the whole-solver model with nonsymmetric cones.

  `SolverNSWrightRealSolve.lean` (`solve_noW`) left one site: the model's fuel for the unbounded `loop` of
  `backtrack_search`.  `SolverNSBacktrackFuel.lean` shows the fuel suffices under `FuelOK st.ls`
  (`0 < btFuel`, `0 ≤ linesearch_backtrack_step`, `linesearch_backtrack_step ^ btFuel <
  min_terminate_step_length`; `α_init ≤ αmax ≤ 1` at every call site).  The proof of `solve_noW` is re-run
  here with the allowed sites reduced to none (`NoSite`).
-/
import ClarabelProofs.Lemmas.SolverNSBacktrackFuel

namespace Clarabel.SolverNS
open Clarabel Info Residuals Nonsym
open Clarabel.Solver (NoPanic OkAnd FmaxOK VarsSized ResidSized DataOK KSized KktSolver LinSettings
  StepDirection KktSys SolutionSized bind_ok_of PivotOK)

set_option linter.unusedSectionVars false
set_option linter.unusedVariables false

/-- `calc_step_length` returns: `αmax ≤ 1` and the fuel suffices -/
theorem calcStepLength_totR {n m : Nat} (ls : LineSearch ℝ) (hF : FuelOK ls) {vars step : Vars ℝ}
    {cones : List (ConeSt ℝ)} (maxValue msf : ℝ) (dir : StepDirection) (hc : ConesFull cones)
    (hm : numelAll cones = m) (hv : VarsSized n m vars) (hs : VarsSized n m step) :
    OkOr NoSite (calcStepLength ls vars step cones maxValue msf dir) (fun _ => True) := by
  unfold calcStepLength
  dsimp only
  refine (stepLength_tot hF cones step.z step.s vars.z vars.s msf
    (alphaMax_le_one vars.τ vars.κ step.τ step.κ maxValue) hc
    (by rw [hm]; exact hs.z) (by rw [hm]; exact hs.s) (by rw [hm]; exact hv.z)
    (by rw [hm]; exact hv.s)).bind fun r _ => ?_
  exact .pure trivial

/-- `get_step_length(Affine, _)` never evaluates the barrier -/
theorem getStepLength_affine_totR (st : Settings ℝ) (hF : FuelOK st.ls) {S : SolverSt ℝ} {cones : List (ConeSt ℝ)}
    (scaling : Loop.Scaling) (hc : ConesFull cones) (hn : numelAll cones = S.data.m)
    (hv : VarsSized S.data.n S.data.m S.variables) (hl : VarsSized S.data.n S.data.m S.stepLhs) :
    OkOr NoSite (getStepLength st S cones .affine scaling) (fun _ => True) := by
  unfold getStepLength
  refine (calcStepLength_totR st.ls hF st.maxValue st.maxStepFraction .affine hc hn hv hl).bind fun a _ => ?_
  have hcond : (!(isSymmetric cones) && (StepDirection.affine == StepDirection.combined)
      && isDual scaling) = false := by
    cases isSymmetric cones <;> cases isDual scaling <;> rfl
  simp only [hcond, Bool.false_eq_true, ↓reduceIte]
  exact .pure trivial

/-- `get_step_length(Combined, _)` from an interior iterate: `backtrack_step_to_barrier` returns -/
theorem getStepLength_combined_totR (st : Settings ℝ) (hf0 : 0 < st.maxStepFraction)
    (hf1 : st.maxStepFraction < 1) (hmv : 0 < st.maxValue) (hb0 : 0 ≤ st.linesearchBacktrackStep)
    (hb1 : st.linesearchBacktrackStep ≤ 1) (hF : FuelOK st.ls) {S : SolverSt ℝ} {cs : List (ConeSt ℝ)}
    (scaling : Loop.Scaling) (hc : ConesFull cs) (hn : numelAll cs = S.data.m)
    (hv : VarsSized S.data.n S.data.m S.variables) (hl : VarsSized S.data.n S.data.m S.stepLhs)
    (hI : InteriorN (cs.map ConeSt.typ) S.variables) :
    OkOr NoSite (getStepLength st S cs .combined scaling) (fun _ => True) := by
  unfold getStepLength
  refine OkOr.bind' (calcStepLength_totR st.ls hF st.maxValue st.maxStepFraction .combined hc hn hv hl)
    fun a0 ha0 _ => ?_
  split
  · exact OkOr.of_exists (backtrack_ok_of_interior (ls := st.ls) hb0 hb1 hf0 hf1 hmv hb0 hb1 hc hn hv hl
      hI ha0 50 0)
  · exact .pure trivial

/-- `kktNumerics` (copy of `kktNumerics_okOr` with the sites reduced to the fuel) -/
theorem kktNumerics_totR {KIw KIs : KktSolver ℝ → Prop} {st : Settings ℝ} (hF : FuelOK st.ls)
    {S : SolverSt ℝ} {cspecs : List Kkt.ConeSpec} (M : MidStage (α := ℝ) NumSite cspecs)
    (T : KktTotal KIw KIs (S.cones.map ConeSt.kktSpec) S.data.n S.data.m st.lin)
    (mu : ℝ) (iter : Nat) (scaling : Loop.Scaling) (h : Shapes KIw S)
    (hsp : S.cones.map ConeSt.kktSpec = cspecs) :
    OkOr NoSite (kktNumerics st S S.cones mu iter scaling) (fun k => Shapes KIs k.S ∧ k.S.data = S.data
      ∧ k.S.cones = S.cones ∧ k.S.variables = S.variables ∧ k.S.prevVars = S.prevVars
      ∧ k.S.residuals = S.residuals) := by
  have hd := h.data
  unfold kktNumerics
  dsimp only
  refine (OkOr.of_okAnd (M.kktSysUpdate KIw KIs S.data.n S.data.m st.lin S.kktsystem S.data S.cones T
    h.ksized h.kkt h.cones hd.q hd.b)).bind fun r hr => ?_
  obtain ⟨updOk, K0⟩ := r
  obtain ⟨hK0, hKI0⟩ := hr
  dsimp only at hK0 hKI0 ⊢
  refine (OkOr.of_okAnd (M.affineStepRhs S.data.n S.data.m S.stepRhs S.variables S.residuals S.cones
    h.cones h.numel h.stepRhs h.resid h.vars hsp)).bind fun rhs1 hrhs1 => ?_
  have fin : ∀ (K : KktSys ℝ) (rhs lhs : Vars ℝ), KSized S.data.n S.data.m K → KIs K.kktsolver →
      VarsSized S.data.n S.data.m rhs → VarsSized S.data.n S.data.m lhs →
      Shapes KIs { S with kktsystem := K, stepRhs := rhs, stepLhs := lhs } :=
    fun K rhs lhs a b c d => h.of_fields rfl h.vars h.resid d c h.prevVars h.cones h.numel a b
  cases updOk with
  | false =>
    simp only [Bool.false_eq_true, ↓reduceIte, pure_bind]
    exact .pure ⟨fin _ _ _ hK0 hKI0 hrhs1 h.stepLhs, rfl, rfl, rfl, rfl, rfl⟩
  | true =>
    simp only [↓reduceIte]
    refine (OkOr.of_okAnd (M.kktSysSolve KIw KIs _ S.data.n S.data.m st.lin K0 S.data S.stepLhs rhs1
      S.variables S.cones .affine T hd rfl rfl hK0 hKI0 h.cones h.numel h.stepLhs hrhs1
      h.vars hsp)).bind fun r1 hr1 => ?_
    obtain ⟨affOk, lhs1, K1⟩ := r1
    obtain ⟨hl1, hK1, hKI1⟩ := hr1
    dsimp only at hl1 hK1 hKI1 ⊢
    cases affOk with
    | false =>
      simp only [Bool.false_eq_true, ↓reduceIte]
      exact .pure ⟨fin _ _ _ hK1 hKI1 hrhs1 hl1, rfl, rfl, rfl, rfl, rfl⟩
    | true =>
      simp only [↓reduceIte]
      refine (getStepLength_affine_totR st hF (S := { S with kktsystem := K1, stepRhs := rhs1, stepLhs := lhs1 })
        scaling h.cones h.numel h.vars hl1).bind fun p _ => ?_
      obtain ⟨aAff, nb⟩ := p
      dsimp only
      refine (OkOr.of_okAnd (M.combinedStepRhs S.data.n S.data.m rhs1 S.variables lhs1 S.residuals S.cones
        _ mu _ h.cones h.numel hrhs1 h.resid h.vars hl1 hsp)).bind fun p hp => ?_
      obtain ⟨rhs2, lhs2⟩ := p
      obtain ⟨hrhs2, hlhs2⟩ := hp
      dsimp only at hrhs2 hlhs2 ⊢
      refine (OkOr.of_okAnd (M.kktSysSolve KIw KIs _ S.data.n S.data.m st.lin K1 S.data lhs2 rhs2
        S.variables S.cones .combined T hd rfl rfl hK1 hKI1 h.cones h.numel hlhs2 hrhs2
        h.vars hsp)).bind fun r3 hr3 => ?_
      obtain ⟨combOk, lhs3, K3⟩ := r3
      obtain ⟨hl3, hK3, hKI3⟩ := hr3
      dsimp only at hl3 hK3 hKI3 ⊢
      exact .pure ⟨fin _ _ _ hK3 hKI3 hrhs2 hl3, rfl, rfl, rfl, rfl, rfl⟩

/-- **one pass from an interior iterate returns** -/
theorem pass_totR {KIw KIs : KktSolver ℝ → Prop} {d : ProblemData ℝ}
    {specs : List Kkt.ConeSpec} {st : Settings ℝ} (G : Stages NumSite KIw KIs d specs st)
    (hf0 : 0 < st.maxStepFraction) (hf1 : st.maxStepFraction < 1) (hmv : 0 < st.maxValue)
    (hb0 : 0 ≤ st.linesearchBacktrackStep) (hb1 : st.linesearchBacktrackStep ≤ 1) (hF : FuelOK st.ls) {L : LoopSt ℝ}
    (h : PInv KIw d specs L.S) (hI : InteriorN (layoutN L.S) L.S.variables) :
    OkOr NoSite (pass st L) (fun _ => True) := by
  obtain ⟨hS, hdat, hsp⟩ := h
  unfold pass
  refine (OkOr.of_okAnd (G.mid.topNumerics L.S L.iter hS.data hS.vars hS.resid)).bind fun r hres => ?_
  obtain ⟨residuals, mu, info1⟩ := r
  dsimp only at hres ⊢
  split
  · split
    · exact .pure trivial
    · refine (OkOr.of_okAnd (Solver.varsCopyFrom_ok hS.vars hS.prevVars)).bind fun v hv => ?_
      split
      · exact .pure trivial
      · exact .pure trivial
  · obtain ⟨sc0, hsc0⟩ := scaleCones_ok_of_interior hS.cones hS.numel hS.vars hI mu (isDual L.scaling)
    have hpost := (G.mid.scaleCones L.S.data.n L.S.data.m L.S.variables L.S.cones mu (isDual L.scaling)
      hS.cones hS.numel hS.vars hsp).of_ok hsc0
    obtain ⟨hshape, _⟩ := scaleCones_shape1 hS.cones hsc0
    have hscO : OkOr NoSite (scaleCones L.S.variables L.S.cones mu (isDual L.scaling))
        (fun r => r = sc0) := by
      rw [hsc0]; exact (rfl : sc0 = sc0)
    refine hscO.bind fun sc hsceq => ?_
    subst hsceq
    obtain ⟨hc2, hk2, hn2⟩ := hpost
    split
    · exact .pure trivial
    · have T : KktTotal KIw KIs (sc.2.map ConeSt.kktSpec) L.S.data.n L.S.data.m st.lin := by
        rw [hk2, hsp, hdat]; exact G.kkt
      refine OkOr.bind (kktNumerics_totR (KIw := KIw) (KIs := KIs) hF G.mid ?_ mu (L.iter + 1) L.scaling ?_
        (hk2.trans hsp)) fun k hk => ?_
      · exact T
      · exact hS.of_fields rfl hS.vars hres hS.stepLhs hS.stepRhs hS.prevVars hc2 hn2 hS.ksized hS.kkt
      obtain ⟨hkS, hkd, hkc, hkv, hkp, hkr⟩ := hk
      dsimp only at hkS hkd hkc hkv hkp hkr ⊢
      have hkw : Shapes KIw k.S :=
        hkS.of_fields rfl hkS.vars hkS.resid hkS.stepLhs hkS.stepRhs hkS.prevVars hkS.cones hkS.numel
          hkS.ksized (G.kkt.weaken _ hkS.kkt)
      split
      · split
        · exact .pure trivial
        · exact .pure trivial
      · have hIk : InteriorN (k.S.cones.map ConeSt.typ) k.S.variables := by
          rw [hkc, hkv]
          have : sc.2.map ConeSt.typ = layoutN L.S := (ConesShape.typ_eq hshape).symm
          rw [this]
          exact hI
        have hgs : OkOr NoSite (getStepLength st k.S sc.2 .combined L.scaling) (fun _ => True) := by
          have := getStepLength_combined_totR st hf0 hf1 hmv hb0 hb1 hF (S := k.S) L.scaling hkS.cones
            hkS.numel hkS.vars hkS.stepLhs hIk
          rw [hkc] at this
          exact this
        refine hgs.bind fun p _ => ?_
        obtain ⟨a, nbt⟩ := p
        dsimp only
        split
        · exact .pure trivial
        · split
          · exact .pure trivial
          · refine (OkOr.of_okAnd (stepVars_ok a hkw)).bind fun pv hpv => ?_
            exact .pure trivial

/-- **the loop**, with the interior invariant threaded next to the shape invariant -/
theorem runLoop_totR {KIw KIs : KktSolver ℝ → Prop} {d dd : ProblemData ℝ}
    {specs : List Kkt.ConeSpec} {st : Settings ℝ} (G : Stages NumSite KIw KIs d specs st)
    (hf0 : 0 < st.maxStepFraction) (hf1 : st.maxStepFraction < 1) (hmv : 0 < st.maxValue)
    (hb0 : 0 ≤ st.linesearchBacktrackStep) (hb1 : st.linesearchBacktrackStep ≤ 1) (hF : FuelOK st.ls)
    {l : List (ConeT ℝ)} :
    ∀ (fuel : Nat) (L : LoopSt ℝ), L.iter ≤ st.info.max_iter → measure st L < fuel →
      PInv KIw d specs L.S → TInvN InteriorN l dd L →
      OkOr NoSite (runLoop st fuel L) (fun Lf => PInv KIw d specs Lf.S)
  | 0, _, _, hm, _, _ => by omega
  | fuel + 1, L, hI, hm, h, hT => by
    unfold runLoop
    have hIn : InteriorN (layoutN L.S) L.S.variables := by rw [hT.lay]; exact hT.g
    refine (pass_totR G hf0 hf1 hmv hb0 hb1 hF h hIn).bind' fun r hr _ => ?_
    have hP : PInv KIw d specs r.2.S := (pass_okOr G h).of_ok hr
    obtain ⟨hI', _, hdec⟩ := pass_measure (c := r.1) (L' := r.2) hI (by rw [hr])
    split
    · rename_i hc
      have := hdec hc
      have hr' : pass st L = .ok (true, r.2) := by rw [hr, ← hc]
      exact runLoop_totR G hf0 hf1 hmv hb0 hb1 hF fuel r.2 hI' (by omega) hP
        (pass_cont_tinvN (interiorN_stepHyp st hf0 hf1 hmv hb0 hb1) hT hr')
    · exact .pure hP

/-- `default_start` (copy of `defaultStart_okOr`: every stage it uses is total) -/
theorem defaultStart_totR {KIw KIs : KktSolver ℝ → Prop} {d : ProblemData ℝ}
    {specs : List Kkt.ConeSpec} {st : Settings ℝ} (G : Stages NumSite KIw KIs d specs st) {S : SolverSt ℝ}
    (h : PInv KIw d specs S) : OkOr NoSite (S.defaultStart st) (fun S' => PInv KIw d specs S') := by
  obtain ⟨hS, hdat, hsp⟩ := h
  unfold SolverSt.defaultStart
  split
  · rename_i hsym
    refine (OkOr.of_okAnd (G.cone.setIdentity S.cones hsym hS.cones hsp)).bind fun cs hcs => ?_
    obtain ⟨hc1, hk1, hn1, hsym1⟩ := hcs
    have T : KktTotal KIw KIs (cs.map ConeSt.kktSpec) S.data.n S.data.m st.lin := by
      rw [hk1, hsp, hdat]; exact G.kkt
    refine (OkOr.of_okAnd (G.mid.kktSysUpdate KIw KIs S.data.n S.data.m st.lin S.kktsystem S.data cs T
      hS.ksized hS.kkt hc1 hS.data.q hS.data.b)).bind fun r hr => ?_
    obtain ⟨updOk, K0⟩ := r
    obtain ⟨hK0, hKI0⟩ := hr
    dsimp only at hK0 hKI0 ⊢
    refine (OkOr.of_okAnd (Solver.solveInitialPoint_ok T.toSolve hK0 hKI0 hS.data.q hS.data.b
      hS.vars)).bind fun r1 hr1 => ?_
    obtain ⟨ok, v1, K1⟩ := r1
    obtain ⟨hv1, hK1, hKI1⟩ := hr1
    dsimp only at hv1 hK1 hKI1 ⊢
    refine (OkOr.of_okAnd (G.cone.symInit cs v1 S.data.n S.data.m hsym1 hc1 (hn1.trans hS.numel)
      hv1 (hk1.trans hsp))).bind fun v2 hv2 => ?_
    exact .pure ⟨hS.of_fields rfl hv2 hS.resid hS.stepLhs hS.stepRhs hS.prevVars hc1
      (hn1.trans hS.numel) hK1 (G.kkt.weaken _ hKI1), hdat, hk1.trans hsp⟩
  · refine (OkOr.of_okAnd (G.mid.unitInit S.data.n S.data.m S.variables S.cones hS.cones hS.numel
      hS.vars hsp)).bind fun v hv => ?_
    exact .pure ⟨hS.of_fields rfl hv hS.resid hS.stepLhs hS.stepRhs hS.prevVars hS.cones hS.numel
      hS.ksized hS.kkt, hdat, hsp⟩

/-- `info.reset`, `default_start()` and the loop -/
theorem runSolve_totR {KIw KIs : KktSolver ℝ → Prop} {d : ProblemData ℝ}
    {specs : List Kkt.ConeSpec} {st : Settings ℝ} (G : Stages NumSite KIw KIs d specs st)
    (hf0 : 0 < st.maxStepFraction) (hf1 : st.maxStepFraction < 1) (hmv : 0 < st.maxValue)
    (hb0 : 0 ≤ st.linesearchBacktrackStep) (hb1 : st.linesearchBacktrackStep ≤ 1) (hF : FuelOK st.ls) {S : SolverSt ℝ}
    (h : PInv KIw d specs S) (hS : SizedN S) (hv : Equil.ValidCones (layoutN S)) :
    OkOr NoSite (S.runSolve st) (fun L => PInv KIw d specs L.S) := by
  unfold SolverSt.runSolve
  show OkOr NoSite ((resetInfo S).defaultStart st >>= fun S' =>
    runLoop st (st.info.max_iter + 3) (initLoopSt S')) _
  refine (defaultStart_totR G (resetInfo_pinv h)).bind' fun S' hds hI' => ?_
  have hm := measure_init st S'
  have hT : TInvN InteriorN (layoutN S) S.data (initLoopSt S') :=
    TInvN.init (interiorN_initHyp st _ hS.resetInfo (by rw [layoutN_resetInfo]; exact hv)) hS hds
  exact runLoop_totR G hf0 hf1 hmv hb0 hb1 hF (st.info.max_iter + 3) (initLoopSt S') (Nat.zero_le _)
    (by omega) hI' hT

/-- **[R] over ℝ a `solve()` returns** when the fuel fits the line-search settings (`FuelOK`) -/
theorem solve_totR {st : Settings ℝ} (hf0 : 0 < st.maxStepFraction) (hf1 : st.maxStepFraction < 1)
    (hmv : 0 < st.maxValue) (hb0 : 0 ≤ st.linesearchBacktrackStep)
    (hb1 : st.linesearchBacktrackStep ≤ 1) (hF : FuelOK st.ls) {S : Solver ℝ} (h : SolverInvN S) (hS : SizedN S.st)
    (hv : Equil.ValidCones (layoutN S.st)) :
    OkOr NoSite (S.solve st) (fun r => SolverInvN r.S) := by
  have G := stagesQdldl (E := NumSite) fmaxOK_real_ns (Or.inl rfl) (Or.inr rfl) S.st.data
    (S.st.cones.map ConeSt.kktSpec) st
  have key : OkOr NoSite (S.solve st) (fun _ => True) := by
    unfold Solver.solve
    refine (runSolve_totR G hf0 hf1 hmv hb0 hb1 hF h.st hS hv).bind fun L hI => ?_
    refine (OkOr.of_okAnd (finish_ok st hI h.solution)).bind fun r hr => ?_
    obtain ⟨nq, nb, hfill⟩ := Solver.fillNorms_ok hr.1.shapes.data
    rw [bind_ok_of hfill]
    exact .pure trivial
  have old := solve_okOrN (E := NumSite) fmaxOK_real_ns (Or.inl rfl) (Or.inr rfl) st h
  cases hres : S.solve st with
  | ok r => rw [hres] at old; exact old
  | error e =>
    rw [hres] at key
    cases e with
    | panic s => exact key
    | err k => exact key.elim

/-- **[R] total**: `solve()` returns a record and the invariant holds again -/
theorem solve_total_real {st : Settings ℝ} (hf0 : 0 < st.maxStepFraction) (hf1 : st.maxStepFraction < 1)
    (hmv : 0 < st.maxValue) (hb0 : 0 ≤ st.linesearchBacktrackStep)
    (hb1 : st.linesearchBacktrackStep ≤ 1) (hF : FuelOK st.ls) {S : Solver ℝ} (h : SolverInvN S)
    (hS : SizedN S.st) (hv : Equil.ValidCones (layoutN S.st)) :
    ∃ r, S.solve st = .ok r ∧ SolverInvN r.S := by
  have key := solve_totR hf0 hf1 hmv hb0 hb1 hF h hS hv
  cases hres : S.solve st with
  | ok r => rw [hres] at key; exact ⟨r, rfl, key⟩
  | error e =>
    rw [hres] at key
    cases e with
    | panic s => exact key.elim
    | err k => exact key.elim

end Clarabel.SolverNS
