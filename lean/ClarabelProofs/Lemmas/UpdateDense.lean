/-
  Helper lemmas for `C08.next_solve_certified`: the dense reading of a solver state and of
  its user-level view, and the fact that the former is the `Problem.scaled` (C01/C10:
  `P̂ = cDPD, q̂ = cDq, Â = EAD, b̂ = Eb`) of the latter.
-/
import ClarabelProofs.Lemmas.UpdateAbs
import ClarabelProofs.Lemmas.InfoDense
import Mathlib.Algebra.BigOperators.Group.Finset.Basic
import Mathlib.Algebra.BigOperators.Ring.Finset

namespace Clarabel.Update
open Clarabel.Dense Finset

variable {α : Type} [Field α]

/-- dense reading of a value array over a fixed pattern: entry `(i,j)` is the sum of the
stored values whose `index_to_coord` is `(i,j)` (`rowOf` / `colOf`, the functions data
updating itself uses; their agreement with the column windows of a canonical matrix is C16) -/
def denseOf (M : Csc α) (vals : Array α) {nr nc : ℕ} (i : Fin nr) (j : Fin nc) : α :=
  ∑ k ∈ (Finset.range vals.size).filter (fun k => rowOf M k = i.val ∧ colOf M.colptr k = j.val),
    vals.getD k 0

/-- symmetric matrix stored as its upper triangle -/
def symOf {n : ℕ} (U : Fin n → Fin n → α) (i j : Fin n) : α :=
  if i = j then U i i else U i j + U j i

/-- dense problem read off a pattern pair and user-level value arrays -/
def denseProblem (patP patA : Csc α) (u : UserData α) (n m : ℕ) : Problem α n m where
  P := symOf (fun i j => denseOf patP u.P i j)
  q := fun j => u.q.getD j.val 0
  A := fun i j => denseOf patA u.A i j
  b := fun i => u.b.getD i.val 0

/-- the internal data of a state as a dense problem -/
def State.denseInternal (st : State α) (n m : ℕ) : Problem α n m :=
  denseProblem st.P st.A ⟨st.P.nzval, st.q, st.A.nzval, st.b⟩ n m

/-- the user-level data of a state as a dense problem -/
def State.denseUser (st : State α) (n m : ℕ) : Problem α n m :=
  denseProblem st.P st.A st.abs n m

/-- the stored equilibration as a `Scaling` -/
def State.scaling (st : State α) (n m : ℕ) : Scaling α n m where
  d := fun j => st.d.getD j.val 0
  e := fun i => st.e.getD i.val 0
  c := st.c

theorem getD_mapIdx' (xs : Array α) (f : Nat → α → α) (k : Nat) (hk : k < xs.size) :
    (xs.mapIdx f).getD k 0 = f k xs[k] := by
  rw [Array.getD_eq_getD_getElem?]; simp [hk]

theorem getD_of_lt' (xs : Array α) (k : Nat) (hk : k < xs.size) : xs.getD k 0 = xs[k] := by
  rw [Array.getD_eq_getD_getElem?]; simp [hk]

theorem denseOf_scaled_some (M : Csc α) (vals : Array α) (l r : Array α) (c : α) {nr nc : ℕ}
    (i : Fin nr) (j : Fin nc) (hl : l.getD i.val 0 ≠ 0) (hr : r.getD j.val 0 ≠ 0) (hc : c ≠ 0) :
    denseOf M vals i j =
      c * l.getD i.val 0 * denseOf M (absMat { M with nzval := vals } l r (some c)) i j * r.getD j.val 0 := by
  unfold denseOf
  have hsz : (absMat { M with nzval := vals } l r (some c)).size = vals.size := by simp [absMat]
  rw [hsz, Finset.mul_sum, Finset.sum_mul]
  apply Finset.sum_congr rfl
  intro k hk
  simp only [Finset.mem_filter, Finset.mem_range] at hk
  obtain ⟨hk, hrow, hcol⟩ := hk
  have hrow' : rowOf ({ M with nzval := vals } : Csc α) k = i.val := hrow
  have e1 : (absMat { M with nzval := vals } l r (some c)).getD k 0 =
      vals[k] / (l.getD i.val 0 * r.getD j.val 0 * c) := by
    unfold absMat
    rw [getD_mapIdx' _ _ _ hk]
    simp only [hrow', hcol]
  rw [e1, getD_of_lt' _ _ hk]
  field_simp

theorem denseOf_scaled_none (M : Csc α) (vals : Array α) (l r : Array α) {nr nc : ℕ}
    (i : Fin nr) (j : Fin nc) (hl : l.getD i.val 0 ≠ 0) (hr : r.getD j.val 0 ≠ 0) :
    denseOf M vals i j =
      l.getD i.val 0 * denseOf M (absMat { M with nzval := vals } l r none) i j * r.getD j.val 0 := by
  unfold denseOf
  have hsz : (absMat { M with nzval := vals } l r none).size = vals.size := by simp [absMat]
  rw [hsz, Finset.mul_sum, Finset.sum_mul]
  apply Finset.sum_congr rfl
  intro k hk
  simp only [Finset.mem_filter, Finset.mem_range] at hk
  obtain ⟨hk, hrow, hcol⟩ := hk
  have hrow' : rowOf ({ M with nzval := vals } : Csc α) k = i.val := hrow
  have e1 : (absMat { M with nzval := vals } l r none).getD k 0 =
      vals[k] / (l.getD i.val 0 * r.getD j.val 0) := by
    unfold absMat
    rw [getD_mapIdx' _ _ _ hk]
    simp only [hrow', hcol]
  rw [e1, getD_of_lt' _ _ hk]
  field_simp

/-- **internal data = `scaled` user-level data**, entry by entry of the dense reading -/
theorem denseInternal_eq_scaled (st : State α) (n m : ℕ)
    (hn : n = st.q.size) (hm : m = st.b.size)
    (hd : ∀ i, i < n → st.d.getD i 0 ≠ 0) (he : ∀ i, i < m → st.e.getD i 0 ≠ 0) (hc : st.c ≠ 0) :
    st.denseInternal n m = (st.denseUser n m).scaled (st.scaling n m) := by
  unfold State.denseInternal State.denseUser denseProblem Problem.scaled State.scaling State.abs
  simp only [Problem.mk.injEq]
  refine ⟨?_, ?_, ?_, ?_⟩
  · funext i j
    have hij := denseOf_scaled_some st.P st.P.nzval st.d st.d st.c i j (hd i i.2) (hd j j.2) hc
    have hji := denseOf_scaled_some st.P st.P.nzval st.d st.d st.c j i (hd j j.2) (hd i i.2) hc
    have hii := denseOf_scaled_some st.P st.P.nzval st.d st.d st.c i i (hd i i.2) (hd i i.2) hc
    unfold symOf
    by_cases h : i = j
    · subst h
      simp only [if_true]
      exact hii
    · simp only [h, if_false]
      rw [hij, hji]
      ring
  · funext j
    have hj : j.val < st.q.size := hn ▸ j.2
    unfold absVec
    rw [getD_mapIdx' _ _ _ hj, getD_of_lt' _ _ hj]
    have := hd j j.2
    field_simp
  · funext i j
    exact denseOf_scaled_none st.A st.A.nzval st.e st.d i j (he i i.2) (hd j j.2)
  · funext i
    have hi : i.val < st.b.size := hm ▸ i.2
    unfold absVec
    rw [getD_mapIdx' _ _ _ hi, getD_of_lt' _ _ hi]
    have := he i i.2
    field_simp

end Clarabel.Update
