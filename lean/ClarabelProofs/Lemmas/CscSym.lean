/-
  Helper lemmas for C16: symmetric product `symv` and `quad_form`.
-/
import ClarabelProofs.Lemmas.CscScale
import Mathlib.Tactic.Ring

namespace Clarabel.Csc
open Clarabel.C16

variable {α : Type}

/-- summing a per-entry quantity over all scattered entry-lists -/
theorem sum_colVals_flatten_flatten [AddCommMonoid α] (L : List (List (List (Nat × α)))) (i : Nat) :
    (colVals L.flatten.flatten i).sum
      = (L.map (fun c => (c.map (fun el => (colVals el i).sum)).sum)).sum := by
  rw [colVals_flatten, List.sum_flatten, List.map_map, List.map_flatten, List.sum_flatten,
    List.map_map]
  congr 1

theorem sum_symvEntry [CommRing α] (a : α) (j : Nat) (xj : α) (e : Nat × α) (xr : α) (i : Nat) :
    (colVals (symvEntry a j xj e xr) i).sum
      = (if e.1 = i then a * e.2 * xj else 0) + (if e.1 ≠ j ∧ j = i then a * e.2 * xr else 0) := by
  unfold symvEntry
  by_cases h1 : e.1 = j
  · have : (e.1 != j) = false := by simp [h1]
    rw [this]
    simp only [Bool.false_eq_true, ↓reduceIte, colVals_cons, colVals_nil]
    have hne : ¬ (e.1 ≠ j ∧ j = i) := fun h => h.1 h1
    rw [if_neg hne, add_zero]
    split_ifs <;> simp
  · have : (e.1 != j) = true := by simp [h1]
    rw [this]
    simp only [↓reduceIte, colVals_cons, colVals_nil]
    by_cases h2 : e.1 = i
    · have h3 : ¬ j = i := fun h => h1 (h2.trans h.symm)
      simp [h2, h3]
    · by_cases h3 : j = i
      · simp [h1, h2, h3]
      · simp [h2, h3]

/-- entries of a column with row `i`, weighted -/
theorem sum_map_ite_row [CommRing α] (c : List (Nat × α)) (i : Nat) (k : α) :
    (c.map (fun e => if e.1 = i then k * e.2 else 0)).sum = k * (colVals c i).sum := by
  induction c with
  | nil => simp
  | cons e t ih =>
    rw [List.map_cons, List.sum_cons, ih, colVals_cons]
    by_cases h : e.1 = i <;> simp [h, mul_add]

theorem list_sum_map_add [AddCommMonoid α] {β : Type} (l : List β) (f g : β → α) :
    (l.map (fun e => f e + g e)).sum = (l.map f).sum + (l.map g).sum := by
  induction l with
  | nil => simp
  | cons a t ih =>
    simp only [List.map_cons, List.sum_cons, ih]
    rw [add_add_add_comm]


/-- the scattered updates of `symv`, with `x` read through `getD` -/
def symvTerms [Mul α] [Zero α] (A : Csc α) (x : Array α) (a : α) : List (List (List (Nat × α))) :=
  (List.range A.n).map (fun j =>
    (A.col j).map (fun e => symvEntry a j (x.getD j 0) e (x.getD e.1 0)))

theorem symv_mapM_eq [CommRing α] (A : Csc α) (x : Array α) (a : α)
    (hA : Canonical A) (hsq : A.m = A.n) (hx : x.size = A.n) :
    x.toList.zipIdx.mapM (symvCol A x a) = .ok (symvTerms A x a) := by
  have h1 : ∀ p ∈ x.toList.zipIdx, symvCol A x a p =
      .ok ((A.col p.2).map (fun e => symvEntry a p.2 p.1 e (x.getD e.1 0))) := by
    intro p hp
    have hp2 : p.2 < A.n := by
      have := List.snd_lt_of_mem_zipIdx hp
      simpa [hx] using this
    unfold symvCol
    apply mapM_eq_ok
    intro e he
    have hlt : e.1 < A.n := by
      have := (colOK_of_canonical hA p.2 hp2).2 e he; omega
    rw [getE_eq_ok x e.1 0 _ (by omega)]
    have : ¬ e.1 ≥ A.n := by omega
    simp [bind, Except.bind, this]
    rfl
  rw [mapM_eq_ok _ _ _ h1]
  congr 1
  unfold symvTerms
  rw [← hx]
  have := zipIdx_map_eq x.toList
    (fun p => (A.col p.2).map (fun e => symvEntry a p.2 p.1 e (x.getD e.1 0)))
    (fun j => (A.col j).map (fun e => symvEntry a j (x.getD j 0) e (x.getD e.1 0)))
    (by
      intro j hj
      have hj' : j < x.size := by simpa using hj
      simp [Array.getD_eq_getD_getElem?, Array.getElem?_eq_getElem hj'])
  simpa using this

theorem symvTerms_bound [CommRing α] (A : Csc α) (x : Array α) (a : α)
    (hA : Canonical A) (hsq : A.m = A.n) :
    ∀ t ∈ (symvTerms A x a).flatten.flatten, t.1 < A.n := by
  intro t ht
  simp only [symvTerms, List.mem_flatten, List.mem_map, List.mem_range] at ht
  obtain ⟨el, ⟨c, ⟨j, hj, rfl⟩, hel⟩, ht⟩ := ht
  simp only [List.mem_map] at hel
  obtain ⟨e, he, rfl⟩ := hel
  have hlt : e.1 < A.n := by
    have := (colOK_of_canonical hA j hj).2 e he; omega
  unfold symvEntry at ht
  split_ifs at ht
  · simp only [List.mem_cons, List.not_mem_nil, or_false] at ht
    rcases ht with rfl | rfl
    · exact hlt
    · exact hj
  · simp only [List.mem_cons, List.not_mem_nil, or_false] at ht
    subst ht
    exact hlt

/-- the sum of what `symv` scatters into slot `i` -/
theorem symvTerms_sum [CommRing α] (A : Csc α) (x : Array α) (a : α)
    (hA : Canonical A) (hsq : A.m = A.n) (i : Nat) (hi : i < A.n) :
    (colVals (symvTerms A x a).flatten.flatten i).sum
      = a * ∑ j ∈ Finset.range A.n,
          (if i = j then (colVals (A.col i) i).sum
           else (colVals (A.col j) i).sum + (colVals (A.col i) j).sum) * x.getD j 0 := by
  rw [sum_colVals_flatten_flatten]
  unfold symvTerms
  rw [List.map_map, list_sum_range_eq]
  simp only [Function.comp_def, List.map_map, sum_symvEntry]
  -- split the two kinds of updates
  have hsplit : ∀ j, ((A.col j).map (fun e =>
        (if e.1 = i then a * e.2 * x.getD j 0 else 0) +
        (if e.1 ≠ j ∧ j = i then a * e.2 * x.getD e.1 0 else 0))).sum
      = a * (colVals (A.col j) i).sum * x.getD j 0 +
        (if j = i then ((A.col i).map (fun e => e.2 * (if e.1 ≠ i then a * x.getD e.1 0 else 0))).sum
         else 0) := by
    intro j
    rw [list_sum_map_add]
    congr 1
    · have : (fun e : Nat × α => if e.1 = i then a * e.2 * x.getD j 0 else 0)
          = (fun e => if e.1 = i then (a * x.getD j 0) * e.2 else 0) := by
        funext e; split_ifs <;> ring
      rw [this, sum_map_ite_row]
      ring
    · by_cases hji : j = i
      · subst hji
        simp only [and_true, ↓reduceIte]
        congr 1
        apply List.map_congr_left
        intro e _
        split_ifs <;> ring
      · simp [hji]
  simp only [hsplit, Finset.sum_add_distrib, Finset.sum_ite_eq', Finset.mem_range, hi, ↓reduceIte]
  rw [sum_col_mul_eq (A.col i) (fun r => if r ≠ i then a * x.getD r 0 else 0) A.n
    (fun e he => by have := (colOK_of_canonical hA i hi).2 e he; omega)]
  rw [Finset.mul_sum, ← Finset.sum_add_distrib]
  apply Finset.sum_congr rfl
  intro j _
  by_cases hij : i = j
  · subst hij; simp; ring
  · have hji : ¬ j = i := fun h => hij h.symm
    simp only [hij, hji, ↓reduceIte, ne_eq, not_false_eq_true]
    ring


/-! ### quad_form -/

/-- the weight that entry `(r, j)` of an upper-triangular matrix carries in `yᵀ·sym(M)·x` -/
def quadW [Mul α] [Add α] (x y : Nat → α) (j r : Nat) : α :=
  if r = j then x j * y j else x r * y j + y r * x j

theorem quadEntry_fold [CommRing α] (x y : Array α) (col : Nat) (c : List (Nat × α))
    (st : α × α × α) (hc : col < x.size) (hxy : x.size = y.size)
    (hle : ∀ e ∈ c, e.1 ≤ col) :
    ∃ st', c.foldlM (quadEntry x y col (x.getD col 0) (y.getD col 0)) st = .ok st' ∧
      st'.1 + (st'.2.1 * y.getD col 0 + st'.2.2 * x.getD col 0)
        = st.1 + (st.2.1 * y.getD col 0 + st.2.2 * x.getD col 0)
          + (c.map (fun e => e.2 * quadW (fun k => x.getD k 0) (fun k => y.getD k 0) col e.1)).sum := by
  induction c generalizing st with
  | nil => exact ⟨st, rfl, by simp⟩
  | cons e t ih =>
    have he : e.1 ≤ col := hle e (by simp)
    rw [List.foldlM_cons]
    by_cases hlt : e.1 < col
    · have h1 : quadEntry x y col (x.getD col 0) (y.getD col 0) st e
          = .ok (st.1, st.2.1 + e.2 * x.getD e.1 0, st.2.2 + e.2 * y.getD e.1 0) := by
        unfold quadEntry
        rw [if_pos hlt, getE_eq_ok x e.1 0 _ (by omega), getE_eq_ok y e.1 0 _ (by omega)]
        rfl
      obtain ⟨st', h2, h3⟩ := ih (st.1, st.2.1 + e.2 * x.getD e.1 0, st.2.2 + e.2 * y.getD e.1 0)
        (fun e' he' => hle e' (List.mem_cons_of_mem _ he'))
      refine ⟨st', by rw [h1]; exact h2, ?_⟩
      rw [h3, List.map_cons, List.sum_cons]
      have : e.1 ≠ col := by omega
      simp only [quadW, this, ↓reduceIte]
      ring
    · have heq : e.1 = col := by omega
      have h1 : quadEntry x y col (x.getD col 0) (y.getD col 0) st e
          = .ok (st.1 + e.2 * x.getD col 0 * y.getD col 0, st.2.1, st.2.2) := by
        unfold quadEntry
        rw [if_neg hlt]
        simp [heq]
        rfl
      obtain ⟨st', h2, h3⟩ := ih (st.1 + e.2 * x.getD col 0 * y.getD col 0, st.2.1, st.2.2)
        (fun e' he' => hle e' (List.mem_cons_of_mem _ he'))
      refine ⟨st', by rw [h1]; exact h2, ?_⟩
      rw [h3, List.map_cons, List.sum_cons]
      simp only [quadW, heq, ↓reduceIte]
      ring

theorem quadCol_eq [CommRing α] (M : Csc α) (y x : Array α) (out : α) (col : Nat)
    (hc : col < x.size) (hxy : x.size = y.size) (hle : ∀ e ∈ M.col col, e.1 ≤ col) :
    quadCol M y x out col = .ok (out +
      ((M.col col).map (fun e => e.2 * quadW (fun k => x.getD k 0) (fun k => y.getD k 0) col e.1)).sum) := by
  unfold quadCol
  rw [getE_eq_ok x col 0 _ hc, getE_eq_ok y col 0 _ (by omega)]
  obtain ⟨st', h2, h3⟩ := quadEntry_fold x y col (M.col col) (out, 0, 0) hc hxy hle
  simp only [bind, Except.bind, h2, pure, Except.pure]
  rw [h3]
  simp

theorem foldlM_add_eq [AddCommMonoid α] (l : List Nat) (f : α → Nat → MErr α) (g : Nat → α)
    (h : ∀ out, ∀ j ∈ l, f out j = .ok (out + g j)) (o : α) :
    l.foldlM f o = .ok (o + (l.map g).sum) := by
  induction l generalizing o with
  | nil => simp; rfl
  | cons a t ih =>
    rw [List.foldlM_cons, h o a (by simp)]
    simp only [bind, Except.bind]
    rw [ih (fun out j hj => h out j (List.mem_cons_of_mem _ hj)), List.map_cons, List.sum_cons,
      add_assoc]

/-- `Σ_j Σ_i A i j · W_j(i) = Σ_i Σ_j y i · S i j · x j` with `S = A + Aᵀ − diag A` -/
theorem quad_sum_eq [CommRing α] (n : Nat) (A : Nat → Nat → α) (x y : Nat → α) :
    ∑ j ∈ Finset.range n, ∑ i ∈ Finset.range n, A i j * quadW x y j i
      = ∑ i ∈ Finset.range n, ∑ j ∈ Finset.range n,
          y i * (if i = j then A i i else A i j + A j i) * x j := by
  have hL : ∀ i j, A i j * quadW x y j i
      = A i j * y i * x j + (if i = j then 0 else A i j * x i * y j) := by
    intro i j
    unfold quadW
    by_cases h : i = j
    · subst h; simp; ring
    · simp [h]; ring
  have hR : ∀ i j, y i * (if i = j then A i i else A i j + A j i) * x j
      = A i j * y i * x j + (if j = i then 0 else A j i * x j * y i) := by
    intro i j
    by_cases h : i = j
    · subst h; simp; ring
    · have h' : ¬ j = i := fun e => h e.symm
      simp [h, h']; ring
  simp only [hL, hR, Finset.sum_add_distrib]
  rw [Finset.sum_comm]

end Clarabel.Csc

/-! ### the `b*y` prologue of `symv` (since /repo 1706c1f: `y` is not read when `b == 0`) -/

namespace Clarabel.Csc

variable {α : Type}

theorem symvB_size [Mul α] [BEq α] [OfNat α 0] (b : α) (y : Array α) : (symvB b y).size = y.size := by
  unfold symvB
  split <;> simp [Vec.scale]

theorem symvB_get [CommRing α] [DecidableEq α] (b : α) (y : Array α) (i : Nat) (hi : i < y.size) :
    (symvB b y)[i]? = some (b * y.getD i 0) := by
  unfold symvB
  by_cases hb : b = 0
  · simp [hb, hi]
  · have : (b == 0) = false := by simpa using hb
    simp [this, Vec.scale, Array.getD_eq_getD_getElem?, Array.getElem?_eq_getElem hi, mul_comm]

/-- for `b == 0` the prologue depends on `y` only through its length (every scalar type) -/
theorem symvB_zero_congr [Mul α] [BEq α] [OfNat α 0] (b : α) (y y' : Array α) (hb : (b == 0) = true)
    (hlen : y.size = y'.size) : symvB b y = symvB b y' := by
  unfold symvB
  simp only [hb, ↓reduceIte]
  apply Array.ext
  · simpa using hlen
  · intro i h1 h2
    simp

end Clarabel.Csc
