/-
  C05 (iv) "`KKTSolver::update` forgets" — part 7: the same solver solved twice, without hypothesis `QW`.

  `QW K K'` (`Lemmas/SolverStaleQdldl.lean`) asks the two objects to answer EVERY `update(cones, st)` alike.
  Between the object a `solve()` started from and the one it left this is false in general: a cone
  list with fewer sparse second-order cones than the object has expansion maps leaves the `u, v, D`
  entries of the last solve in place, and an `update` with static regularisation switched off does not
  rewrite the `± ε` that the last solve put on the diagonal of the engine's copy.  `solve()` calls
  `update` only with its own cone list and settings; and only the FIRST `update` (in `default_start`)
  meets an object left by the previous solve — after it the two objects are `QB`-related, and
  `qdldl_kktSim` takes over.  So the chain `solve_rel` of `Lemmas/SolverStaleSolve.lean` is redone
  here with `QW1 cones st` (= "the two objects answer `update(cones, st)` alike") in the place of `QW`,
  for `cones = set_identity_scaling(S.cones)`, `st = settings`: `solve_rel1`; and `QW1` between the
  object before and after a `solve()` is a theorem (`update_forgets` ∘ `solve_kstep`).
-/
import ClarabelProofs.Lemmas.KktQwSolve
import ClarabelProofs.Lemmas.SolverStaleIdem

namespace Clarabel.Solver
open Clarabel Clarabel.Qdldl Residuals Info

set_option linter.unusedSectionVars false
set_option linter.unusedVariables false

variable {α : Type}

/-! ### sparse cones are a matter of shape -/

theorem nSp_setIdentityScaling [Add α] [Mul α] [Sub α] [Div α] [Neg α] [OfNat α 0] [OfNat α 1] [LT α]
    [DecidableLT α] [FloatLike α] : ∀ cs : List (ConeSt α), nSp (setIdentityScaling cs) = nSp cs
  | [] => rfl
  | c :: cs => by
    have ih := nSp_setIdentityScaling cs
    unfold setIdentityScaling at ih ⊢
    cases c with
    | zero d => simpa [nSp, setIdentityScaling1] using ih
    | nonneg K => simpa [nSp, setIdentityScaling1] using ih
    | soc K =>
      simp only [List.map_cons, setIdentityScaling1, nSp, Option.isSome_map, ih]

theorem nSp_shape : ∀ {cs cs' : List (ConeSt α)}, ConesShape cs cs' → nSp cs = nSp cs'
  | _, _, .nil => rfl
  | _, _, @ListRel.cons _ _ _ c c' cs cs' hc h => by
    have ih := nSp_shape h
    cases c <;> cases c' <;> try exact hc.elim
    · simpa [nSp] using ih
    · simpa [nSp] using ih
    · rename_i K K'
      obtain ⟨_, _, hsp⟩ := hc
      simp only [nSp, ih]
      cases h1 : K.sparse <;> cases h2 : K'.sparse <;> rw [h1, h2] at hsp <;>
        first | rfl | exact hsp.elim

section
variable [Add α] [Sub α] [Mul α] [Div α] [Neg α] [OfNat α 0] [OfNat α 1] [OfNat α 2]
  [OfNat α 100] [OfNat α 1000] [LT α] [DecidableLT α] [LE α] [DecidableLE α] [BEq α] [FloatLike α]

/-- **structural invariant of the linear-solver object inside a solver object**: C12's history
invariant for the QDLDL engine, one common length for the four work vectors, and no more expansion
maps than the cone list has sparse second-order cones.  Every object built by `DefaultSolver::new`
on well-formed data has it (`Lemmas/KktQwNew.lean`); `solve()` keeps it (`solve_kktOk`). -/
structure KktOk (S : SolverSt α) : Prop where
  inv : KInv S.kktsystem.kktsolver
  fit : S.kktsystem.kktsolver.map.sparse_maps.size ≤ nSp S.cones

/-- the two objects answer `update(cones, st)` alike -/
def QW1 (cones : List (ConeSt α)) (st : LinSettings α) (K K' : KktSolver α) : Prop :=
  RelM (fun r r' => r.1 = r'.1 ∧ QB r.2 r'.2) (K.update cones st) (K'.update cones st)

theorem QW.toQW1 {K K' : KktSolver α} (h : QW K K') (cones : List (ConeSt α)) (st : LinSettings α) :
    QW1 cones st K K' := h cones st

/-- `solve()` keeps `KktOk`, and the object it leaves answers the first `update` of the next `solve()`
like the object it started from -/
theorem solve_kktOk {S : Solver α} {st : Settings α} {r : SolveResult α} (h : S.solve st = .ok r)
    (hc : ConesOk S.st.cones) (hk : KktOk S.st) :
    KktOk r.S.st ∧
      QW1 (setIdentityScaling S.st.cones) st.lin S.st.kktsystem.kktsolver r.S.st.kktsystem.kktsolver := by
  obtain ⟨hU, hI⟩ := solve_kstep h hk.inv
  have hsh := solve_sameShape h hc
  refine ⟨⟨hI, ?_⟩, update_forgets hU hk.inv.ldl _ ?_⟩
  · rw [← hU.map, ← nSp_shape hsh.cones]
    exact hk.fit
  · rw [nSp_setIdentityScaling]
    exact hk.fit

/-- an `Upd` relation under settings with static regularisation OFF is an `Upd` relation under any
settings (with it off, `update` rewrites least) -/
theorem Upd.of_static_off {st st' : LinSettings α} {K K' : KktSolver α} (h : Upd st K K')
    (hoff : st.staticRegEnable = false) : Upd st' K K' :=
  { h with
    ldl := h.ldl.mono (by
      rintro j hj ⟨i, hi, hm⟩
      rcases hi with hi | ⟨he, _⟩
      · exact hj ⟨i, Or.inl hi, hm⟩
      · rw [hoff] at he; cases he)
    dr := fun _ => h.dr hoff }

/-- **hypothesis `QW` in its exact shape**, in the case where it holds: no static regularisation in the
settings under which `K'` was reached from `K`, no expansion maps (no second-order cone of dimension
`> 4`).  Then the two objects answer EVERY `update(cones, st')` alike. -/
theorem qw_of_upd {st : LinSettings α} {K K' : KktSolver α} (h : Upd st K K') (hI : LdlInv K.ldl)
    (hoff : st.staticRegEnable = false) (hsp : K.map.sparse_maps.size = 0) : QW K K' :=
  fun cones st' => update_forgets (h.of_static_off hoff) hI cones (by omega)

/-! ### the chain of `Lemmas/SolverStaleSolve.lean` with `QW1` for the first `update` -/

/-- `KKTSystem::update` on two systems whose solver objects answer THIS `update` alike -/
theorem KktSys.update_rel1 {n : Nat} {S S' : KktSys α} (data : ProblemData α) (cones : List (ConeSt α))
    (st : LinSettings α) (h : KRel (QW1 cones st) n data.q.size S S') :
    RelM (fun r r' => r.1 = r'.1 ∧ KRel QB n data.q.size r.2 r'.2 ∧ (r.1 = true → r.2.x2 = r'.2.x2 ∧ r.2.z2 = r'.2.z2))
      (S.update data cones st) (S'.update data cones st) := by
  unfold KktSys.update
  refine RelM.bind h.solver ?_
  rintro ⟨ok, K1⟩ ⟨ok', K1'⟩ ⟨h1, h2⟩
  dsimp only at h1 h2 ⊢
  subst h1
  have hk : KRel QB n data.q.size { S with kktsolver := K1 } { S' with kktsolver := K1' } := { h with solver := h2 }
  cases ok with
  | false => exact ⟨rfl, hk, fun h => (Bool.false_ne_true h).elim⟩
  | true => exact solveConstantRhs_rel qdldl_kktSim data st hk

/-- `default_start` on two `Stale`-related states (first `update`: `QW1`) -/
theorem defaultStart_rel1 (st : Settings α) {S S' : SolverSt α}
    (h : Stale (QW1 (setIdentityScaling S.cones) st.lin) S S') (hst : S.info.status = .unsolved)
    (hi : ∃ p : InfoS α, S'.info = carryPrev S.info p)
    (hinit : InitPointOk S st ∨ VarsXSZ S.variables S'.variables) :
    RelM (fun S0 S0' => PRel QW (initLoopSt S0) (initLoopSt S0')) (S.defaultStart st) (S'.defaultStart st) := by
  obtain ⟨hdata, hvars, hres, hkkt, hcones, hlhs, hrhs, hpv⟩ := h
  have hce := setIdentityScaling_eqv hcones
  have hn : numelAll (setIdentityScaling S.cones) = numelAll S.cones :=
    numelAll_congr (setIdentityScaling_numel S.cones)
  unfold SolverSt.defaultStart
  dsimp only
  rw [← hdata, ← KktSys.update_congr_lam _ _ _ hce]
  refine RelM.bind' (KktSys.update_rel1 S.data _ st.lin hkkt) ?_
  rintro ⟨ok1, K1⟩ ⟨ok1', K1'⟩ e1 e1' ⟨g1, g2, g3⟩
  dsimp only at g1 g2 g3 ⊢
  refine RelM.bind' (KktSys.solveInitialPoint_rel qdldl_kktSim S.data st.lin g2 hvars) ?_
  rintro ⟨ok2, v2, K2⟩ ⟨ok2', v2', K2'⟩ e2 e2' ⟨f1, f2, f3, f4⟩
  dsimp only at f1 f2 f3 f4 ⊢
  have hxsz : VarsXSZ v2 v2' := by
    apply f2
    rcases hinit with hinit | hinit
    · left; exact hinit _ _ e1 e2
    · right; exact hinit
  rw [← symmetricInitialization_congr hxsz hce]
  refine RelM.bind (RelM.refl_eq _) ?_
  intro v3 _ e
  subst e
  obtain ⟨p, hp⟩ := hi
  refine ⟨rfl, rfl, rfl, rfl, .nil, rfl, rfl, hst, ⟨p, hp, fun h => (Nat.not_succ_le_zero 0 h).elim⟩, hpv,
    fun h => (Nat.not_succ_le_zero 0 h).elim, hres, ?_, hce, ?_, ?_⟩
  · show KRel QW (numelAll (setIdentityScaling S.cones)) S.data.q.size K2 K2'
    rw [hn]
    exact { f4 with solver := f4.solver.toQW }
  · show StepShape (numelAll (setIdentityScaling S.cones)) S.stepLhs S'.stepLhs
    rw [hn]; exact hlhs
  · show StepShape (numelAll (setIdentityScaling S.cones)) S.stepRhs S'.stepRhs
    rw [hn]; exact hrhs

theorem runSolve_rel_eqv1 (hbeq : ((0 : α) == 0) = true) (st : Settings α) {S S' : SolverSt α}
    (h : Stale (QW1 (setIdentityScaling S.cones) st.lin) S S')
    (hi : ∃ p : InfoS α, S'.info = carryPrev S.info p)
    (hinit : InitPointOk (resetInfo S) st ∨ VarsXSZ S.variables S'.variables) :
    RelM FRel (S.runSolve st) (S'.runSolve st) := by
  have e : ∀ T : SolverSt α, T.runSolve st =
      ((resetInfo T).defaultStart st >>= fun S0 => runLoop st (st.info.max_iter + 2) (initLoopSt S0)) := fun _ => rfl
  rw [e, e]
  obtain ⟨p, hp⟩ := hi
  refine RelM.bind (defaultStart_rel1 st (S := resetInfo S) (S' := resetInfo S') h.resetInfo rfl ⟨p, ?_⟩ hinit) ?_
  · show ({ S'.info with status := SolverStatus.unsolved, iterations := 0 } : InfoS α) = _
    rw [hp]; rfl
  · intro S0 S0' h0
    exact runLoop_rel hbeq qdldl_kktSim st _ h0

theorem runSolve_rel1 (hbeq : ((0 : α) == 0) = true) (st : Settings α) {S S' : SolverSt α}
    (h : Stale (QW1 (setIdentityScaling S.cones) st.lin) S S')
    (hinit : InitPointOk (resetInfo S) st ∨ VarsXSZ S.variables S'.variables) :
    RelM FRel (S.runSolve st) (S'.runSolve st) := by
  have e := runSolve_withInfo S' st (carryPrev S.info S'.info) S.infoMu S.infoSigma S.infoStepLength
    (carryPrev_prevEq _ _)
  rw [← e]
  refine runSolve_rel_eqv1 hbeq st ?_ ⟨S'.info, rfl⟩ hinit
  exact ⟨h.data, h.variables, h.residuals, h.kktsystem, h.cones, h.stepLhs, h.stepRhs, h.prevVars⟩

/-- **`solve()` on two `Stale`-related solver objects whose linear-solver objects answer the first
`update` alike**: both fail with the same error, or both succeed with the same observable result -/
theorem solve_rel1 (hbeq : ((0 : α) == 0) = true) (st : Settings α) {S S' : Solver α}
    (h : Stale (QW1 (setIdentityScaling S.st.cones) st.lin) S.st S'.st)
    (hsol : SolShape ((presolveMap S.st.data).map (fun m => m.keep.size)) S.solution S'.solution)
    (hinit : InitPointOk (resetInfo S.st) st ∨ VarsXSZ S.st.variables S'.st.variables) :
    RelM SolveObs (S.solve st) (S'.solve st) := by
  unfold Solver.solve
  refine RelM.bind' (runSolve_rel1 hbeq st h hinit) ?_
  intro L L' eL eL' hF
  have hsol' : SolShape ((presolveMap L.S.data).map (fun m => m.keep.size)) S.solution S'.solution := by
    rw [runSolve_data eL]; exact hsol
  refine RelM.bind (finish_rel st hF hsol') ?_
  rintro ⟨S1, sol1⟩ ⟨S1', sol1'⟩ ⟨g1, g2, g3, g4, g5, g6, g7⟩
  -- the norm caches `Info.update` filled: the same `get_normq` / `get_normb` on the same data
  show RelM SolveObs (fillNorms S1.data >>= fun data => _) (fillNorms S1'.data >>= fun data => _)
  have g2' : S1'.data = S1.data := g2.symm
  rw [g2']
  cases hfn : fillNorms S1.data with
  | error e => exact rfl
  | ok d => exact ⟨g1, hF.traj, rfl, g3, g4, g5, g6, g7⟩

/-- **the second of two `solve()` calls on one solver object** gives the observable result of the
first, provided (iii) `solve_initial_point` succeeds — no hypothesis on `KKTSolver::update` is left -/
theorem solve_twice_obs1 (hbeq : ((0 : α) == 0) = true) (st : Settings α) {S : Solver α} {r1 : SolveResult α}
    (h1 : S.solve st = .ok r1) (hc : ConesOk S.st.cones) (hw : WellSized S.st) (hq : WorkxSized S.st)
    (hk : KktOk S.st)
    (hsz : ∀ n, (presolveMap S.st.data).map (fun m => m.keep.size) = some n →
      S.solution.s.size ≤ n ∧ S.solution.z.size ≤ n)
    (hinit : InitPointOk (resetInfo S.st) st) :
    ∃ r2, r1.S.solve st = .ok r2 ∧ SolveObs r1 r2 := by
  have hsh := solve_sameShape h1 hc
  obtain ⟨s1, s2, s3⟩ := solve_solution_shape h1
  have hsol : SolShape ((presolveMap S.st.data).map (fun m => m.keep.size)) S.solution r1.S.solution :=
    SolShape.of_sizes s1.symm s3.symm s2.symm hsz
  have hrel := solve_rel1 hbeq st (S' := r1.S.withData S.st.data)
    (Stale.of_sameShape hsh hw hq (solve_kktOk h1 hc hk).2) hsol (Or.inl hinit)
  rw [← solve_putBack h1 st] at hrel
  exact hrel.ok_left h1

end

end Clarabel.Solver
