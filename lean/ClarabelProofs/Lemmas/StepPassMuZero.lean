/-
  C06, round 7 — where the interior-ness hypothesis `ConesInterior` of the `μ`-update theorems
  comes from along the iteration:

  * `conesInterior_iff`: `ConesInterior cones s z` is C07's block-wise strict interior
    `Bridge.IntRows` (the invariant `Solver.Interior` that every accepted step of the whole-solver
    model keeps, `StepKBridge.lean`) together with `s = 0` on the zero-cone rows (`ZeroConeRows`);
  * `pass_zero_rows`: an accepted pass keeps `s = 0` on the zero-cone rows — there `Δs_const = 0`
    (`Δs_from_Δz_offset` of the zero cone) and `Hs = 0`, so `Δs = −Δs_const − Hs Δz = 0`.
  Scalar type ℝ.
-/
import ClarabelProofs.Lemmas.StepPassMu

namespace Clarabel.Solver
open Clarabel Clarabel.Lemmas Matrix Residuals

set_option linter.unusedVariables false

/-! ## `ConesInterior` from C07's interior + zero rows -/

/-- C07's block-wise strict interior of `(z, s)` (`Bridge.IntRows`, kept by every accepted step of
the whole-solver model) together with `s = 0` on the zero-cone rows is `ConesInterior` -/
theorem conesInterior_of_intRows : ∀ (cones : List (ConeSt ℝ)) (s z : List ℝ),
    Bridge.IntRows (cones.map ConeSt.compSpec) z s → ZeroConeRows cones s → ConesInterior cones s z
  | [], _, _, _, _ => trivial
  | c :: cs, s, z, hi, hz => by
    simp only [List.map_cons, Bridge.IntRows, Bridge.compSpec_numel] at hi
    refine ⟨?_, conesInterior_of_intRows cs _ _ hi.2 hz.2⟩
    cases c with
    | zero n => exact hz.1 n rfl
    | nonneg K =>
      obtain ⟨-, h1, h2⟩ := hi.1
      exact ⟨h2, h1⟩
    | soc K =>
      obtain ⟨z0, z1, s0, s1, e1, e2, i1, i2⟩ := hi.1
      exact ⟨s0, s1, z0, z1, e2, e1, i2, i1⟩

/-- `Solver.Interior` (C07's invariant of the iterate) and `s = 0` on the zero-cone rows give the
interior-ness hypothesis of the `μ`-update theorems -/
theorem conesInterior_of_interior {cones : List (ConeSt ℝ)} {v : Vars ℝ}
    (h : Interior (cones.map ConeSt.compSpec) v) (hz : ZeroConeRows cones v.s.toList) :
    ConesInterior cones v.s.toList v.z.toList :=
  conesInterior_of_intRows cones _ _ h.2.2.2.2 hz

theorem ConesInterior.zeroRows : ∀ (cones : List (ConeSt ℝ)) (s z : List ℝ), ConesInterior cones s z →
    ZeroConeRows cones s
  | [], _, _, _ => trivial
  | c :: cs, s, z, h => by
    refine ⟨?_, ConesInterior.zeroRows cs _ _ h.2⟩
    intro n hn
    subst hn
    exact h.1

/-! ## `s = 0` on the zero-cone rows is kept by an accepted pass -/

theorem zeroConeRows_zipWith (f : ℝ → ℝ → ℝ) (hf : f 0 0 = 0) : ∀ (cones : List (ConeSt ℝ))
    (a b : List ℝ), ZeroConeRows cones a → ZeroConeRows cones b →
    ZeroConeRows cones (List.zipWith f a b)
  | [], _, _, _, _ => trivial
  | c :: cs, a, b, ha, hb => by
    refine ⟨?_, ?_⟩
    · intro n hn v hv
      rw [List.take_zipWith, List.mem_iff_getElem] at hv
      obtain ⟨i, hi, rfl⟩ := hv
      have hi' : i < (a.take c.numel).length ∧ i < (b.take c.numel).length := by
        rw [List.length_zipWith] at hi; omega
      rw [List.getElem_zipWith, ha.1 n hn _ (List.getElem_mem hi'.1), hb.1 n hn _ (List.getElem_mem hi'.2), hf]
    · rw [List.drop_zipWith]
      exact zeroConeRows_zipWith f hf cs _ _ ha.2 hb.2

theorem zeroConeRows_mulHsL : ∀ (cones : List (ConeSt ℝ)), ConesFull cones → ∀ x : List ℝ,
    x.length = numelAll cones → ZeroConeRows cones (mulHsL cones x)
  | [], _, _, _ => trivial
  | c :: cs, hc, x, hx => by
    rw [numelAll_cons] at hx
    have hl : (hs1L c (x.take c.numel)).length = c.numel :=
      hs1L_length c hc.head _ (by rw [List.length_take]; omega)
    refine ⟨?_, ?_⟩
    · intro n hn v hv
      subst hn
      rw [mulHsL, List.take_left' hl] at hv
      simp only [hs1L, List.mem_map] at hv
      obtain ⟨_, _, rfl⟩ := hv
      rfl
    · rw [mulHsL, List.drop_left' hl]
      exact zeroConeRows_mulHsL cs hc.tail _ (by rw [List.length_drop]; omega)

theorem zeroConeRows_offL : ∀ (cones : List (ConeSt ℝ)), ConesFull cones → ∀ d z : List ℝ,
    d.length = numelAll cones → z.length = numelAll cones → ZeroConeRows cones (offL cones d z)
  | [], _, _, _, _, _ => trivial
  | c :: cs, hc, d, z, hd, hz => by
    rw [numelAll_cons] at hd hz
    have hl : (off1L c (d.take c.numel) (z.take c.numel)).length = c.numel :=
      off1L_length c hc.head _ _ (by rw [List.length_take]; omega) (by rw [List.length_take]; omega)
    refine ⟨?_, ?_⟩
    · intro n hn v hv
      subst hn
      rw [offL, List.take_left' hl] at hv
      simp only [off1L, List.mem_map] at hv
      obtain ⟨_, _, rfl⟩ := hv
      rfl
    · rw [offL, List.drop_left' hl]
      exact zeroConeRows_offL cs hc.tail _ _ (by rw [List.length_drop]; omega)
        (by rw [List.length_drop]; omega)

theorem kktSpec_numel_eq {c c' : ConeSt ℝ} (h : c'.kktSpec = c.kktSpec) : c'.numel = c.numel := by
  cases c <;> cases c' <;> simp only [ConeSt.kktSpec, Kkt.ConeSpec.zero.injEq,
    Kkt.ConeSpec.nonneg.injEq, Kkt.ConeSpec.soc.injEq, reduceCtorEq] at h <;>
    first | exact h

theorem kktSpec_zero_eq {c c' : ConeSt ℝ} (h : c'.kktSpec = c.kktSpec) (n : Nat)
    (hn : c' = .zero n) : c = .zero n := by
  subst hn
  cases c <;> simp only [ConeSt.kktSpec, Kkt.ConeSpec.zero.injEq, reduceCtorEq] at h
  rw [h]

/-- `ZeroConeRows` only depends on the layout of the cones -/
theorem zeroConeRows_congr : ∀ (cones cones' : List (ConeSt ℝ)),
    cones'.map ConeSt.kktSpec = cones.map ConeSt.kktSpec → ∀ v : List ℝ, ZeroConeRows cones v →
    ZeroConeRows cones' v
  | _, [], _, _, _ => trivial
  | [], c' :: cs', h, _, _ => by simp at h
  | c :: cs, c' :: cs', h, v, hv => by
    simp only [List.map_cons, List.cons.injEq] at h
    have hn := kktSpec_numel_eq h.1
    refine ⟨?_, ?_⟩
    · intro n hz
      rw [hn]
      exact hv.1 n (kktSpec_zero_eq h.1 n hz)
    · rw [hn]
      exact zeroConeRows_congr cs cs' h.2 _ hv.2

/-- **an accepted pass keeps `s = 0` on the zero-cone rows**: there `Δs_const = 0` and `Hs = 0`, so
the combined `Δs = −Δs_const − Hs Δz` vanishes and `s⁺ = s + αΔs = 0`.  (No interior-ness needed.) -/
theorem pass_zero_rows {st : Settings ℝ} {L L' : LoopSt ℝ} {n m : ℕ} (hS : PassShape L.S n m)
    (hp : pass st L = .ok (true, L')) (hz : ZeroConeRows L.S.cones L.S.variables.s.toList) :
    ZeroConeRows L'.S.cones L'.S.variables.s.toList := by
  obtain ⟨res, info1, kk1, kk2, rhsA, lhsA, lhsA', aAff, htop, hscale, hupd, hrA, hsA, haA, hσ, hrC, hsC⟩ :=
    pass_mu_inv hp
  obtain ⟨res', ys, an⟩ := pass_step_anatomy hS hp
  obtain ⟨r, hr, cf, ck, cn⟩ := updateScaling_ok (cones := L.S.cones) (s := L.S.variables.s)
    (z := L.S.variables.z) hS.cones (by rw [hS.numel]; exact hS.vs) (by rw [hS.numel]; exact hS.vz)
  rw [hscale] at hr
  cases hr
  have cf : ConesFull L'.S.cones := cf
  have ck : L'.S.cones.map ConeSt.kktSpec = L.S.cones.map ConeSt.kktSpec := ck
  have cm : numelAll L'.S.cones = m := an.numel
  obtain ⟨_, r1, r2, _⟩ := topNumerics_dense L.S L.iter n m res L'.mu info1
    hS.canP hS.canA hS.Pn hS.Pm hS.An hS.Am hS.q hS.b hS.vx hS.vs hS.vz hS.rPx hS.rrx hS.rrz hS.rrxi
    hS.rrzi htop
  obtain ⟨ax, az, aτ, aκ, hads, _, _⟩ := affineStepRhs_inv hrA
  obtain ⟨s1, s2, s3, s4, s5, s6, s7, s8, s9⟩ := KktSys.solve_sizes hsA hS.vx hS.lx hS.lz
    (by rw [az]; exact r2)
  obtain ⟨_, _, _, _, cx, _, _, shift, stepz0, stepz, steps, hrz, hrzs, hz0, hsh, hrs, hshs, hsz, hss⟩ :=
    combinedStepRhs_inv hrC
  have hshift : shift.size = m := by rw [← hrzs]; exact r2
  have hrAs : rhsA.s.size = m := by rw [← hshs]; exact hshift
  have hrCs : L'.S.stepRhs.s.size = m := by rw [hrs]; exact Lemmas.axpby_size _ _ _ _ hshift hrAs
  obtain ⟨dsC, hsC', _, hdC, hwc, _, _, _, _, _, _, _, _, _, _, _, _, _, hhsC, _, _, _, hmulC, hlsC, _⟩ :=
    KktSys.solve_inv hsC
  have hoff := hdC rfl
  rw [dsFromDzOffset_eq_list cf kk2.workConic L'.S.stepRhs.s L.S.variables.z (by rw [cm]; exact s5)
    (by rw [cm]; exact hrCs) (by rw [cm]; exact hS.vz)] at hoff
  have hdCe : dsC = (offL L'.S.cones L'.S.stepRhs.s.toList L.S.variables.z.toList).toArray :=
    (Except.ok.inj hoff).symm
  have hdCs : dsC.size = m := by rw [← hwc]; exact an.wc
  have hhsCs : hsC'.size = m := by rw [hhsC]; exact hdCs
  have hmulC' := hmulC
  rw [mulHs_eq_list cf lhsA'.s L'.S.stepLhs.z (by rw [cm, ← mulHs_size cf.ok hmulC]; exact hhsCs)
    (by rw [cm]; exact an.lhs_z)] at hmulC'
  have hhsCe : hsC' = (mulHsL L'.S.cones L'.S.stepLhs.z.toList).toArray := (Except.ok.inj hmulC').symm
  -- `Δs` vanishes on the zero-cone rows
  have hds : ZeroConeRows L'.S.cones L'.S.stepLhs.s.toList := by
    rw [hlsC, axpby_toList, hhsCe, hdCe]
    exact zeroConeRows_zipWith _ (by ring) _ _ _
      (zeroConeRows_mulHsL _ cf _ (by rw [Array.length_toList, cm]; exact an.lhs_z))
      (zeroConeRows_offL _ cf _ _ (by rw [Array.length_toList, cm]; exact hrCs)
        (by rw [Array.length_toList, cm]; exact hS.vz))
  -- `s⁺ = s + αΔs`
  obtain ⟨-, -, -, hs', -⟩ := addStep_inv_x an.step
  rw [hs', axpby_toList]
  exact zeroConeRows_zipWith _ (by ring) _ _ _ (zeroConeRows_congr _ _ ck _ hz) hds

/-! ## the interior-ness hypothesis is kept by an accepted pass -/

/-- the step-length call and `add_step` of an accepted pass -/
theorem pass_step_calls {st : Settings ℝ} {L L' : LoopSt ℝ} (hp : pass st L = .ok (true, L')) :
    calcStepLength L.S.variables L'.S.stepLhs L'.S.cones st.maxValue st.maxStepFraction .combined
        = .ok L'.alpha
      ∧ ¬ L'.alpha ≤ fmax 0 st.minTerminateStepLength
      ∧ addStep L.S.variables L'.S.stepLhs L'.alpha = .ok L'.S.variables := by
  have hcase := pass_inv hp
  cases hcase with
  | step residuals mu info1 sc k a pv htop hdone hsc hok hk hkok ha hsmall hpv =>
    obtain ⟨kk1, rhsA, lhsA, kk2, aAff, rhsC, lhsA', lhsC, kk3, -, -, -, -, -, -, hkS, -⟩ :=
      kktNumerics_inv hk hkok
    obtain ⟨hadd, -⟩ := stepVars_inv hpv
    rw [hkS] at ha hadd
    dsimp only [topS] at ha hadd
    rw [hkS]
    exact ⟨ha, hsmall, hadd⟩

theorem compSpec_of_kktSpec : ∀ (cones cones' : List (ConeSt ℝ)),
    cones'.map ConeSt.kktSpec = cones.map ConeSt.kktSpec →
    cones'.map ConeSt.compSpec = cones.map ConeSt.compSpec
  | [], [], _ => rfl
  | [], _ :: _, h => by simp at h
  | _ :: _, [], h => by simp at h
  | c :: cs, c' :: cs', h => by
    simp only [List.map_cons, List.cons.injEq] at h ⊢
    refine ⟨?_, compSpec_of_kktSpec cs cs' h.2⟩
    have h1 := h.1
    cases c <;> cases c' <;> simp only [ConeSt.kktSpec, Kkt.ConeSpec.zero.injEq,
      Kkt.ConeSpec.nonneg.injEq, Kkt.ConeSpec.soc.injEq, reduceCtorEq] at h1 <;>
      simp only [ConeSt.compSpec, h1]

/-- **the interior-ness hypothesis of the `μ`-update theorems is an invariant of accepted passes**:
if the iterate is in C07's interior (`Solver.Interior`: `τ, κ > 0`, `z ∈ int K*`, `s ∈ int K` block
by block) with `s = 0` on the zero-cone rows, then so is the next iterate, for the rescaled cones;
in particular `ConesInterior` holds again at the start of the next pass.  (`0 < max_step_fraction
< 1`, `T::max_value() > 0`.) -/
theorem pass_keeps_conesInterior {st : Settings ℝ} {L L' : LoopSt ℝ} {n m : ℕ} (hS : PassShape L.S n m)
    (hp : pass st L = .ok (true, L')) (h0 : 0 < st.maxStepFraction) (h1 : st.maxStepFraction < 1)
    (hm : 0 < st.maxValue) (hI : Interior (L.S.cones.map ConeSt.compSpec) L.S.variables)
    (hz : ZeroConeRows L.S.cones L.S.variables.s.toList) :
    Interior (L'.S.cones.map ConeSt.compSpec) L'.S.variables
      ∧ ZeroConeRows L'.S.cones L'.S.variables.s.toList
      ∧ ConesInterior L'.S.cones L'.S.variables.s.toList L'.S.variables.z.toList := by
  obtain ⟨res, ys, an⟩ := pass_step_anatomy hS hp
  obtain ⟨_, _, _, _, _, _, _, _, _, hscale, -⟩ := pass_mu_inv hp
  obtain ⟨r, hr, -, ck, -⟩ := updateScaling_ok (cones := L.S.cones) (s := L.S.variables.s)
    (z := L.S.variables.z) hS.cones (by rw [hS.numel]; exact hS.vs) (by rw [hS.numel]; exact hS.vz)
  rw [hscale] at hr
  cases hr
  have ck : L'.S.cones.map ConeSt.kktSpec = L.S.cones.map ConeSt.kktSpec := ck
  obtain ⟨ha, hsmall, hadd⟩ := pass_step_calls hp
  have hapos : 0 ≤ L'.alpha := by
    have h' : ¬ L'.alpha ≤ max 0 st.minTerminateStepLength := hsmall
    have : (0 : ℝ) ≤ max 0 st.minTerminateStepLength := le_max_left _ _
    linarith [lt_of_not_ge h']
  have hI' : Interior (L'.S.cones.map ConeSt.compSpec) L.S.variables := by
    rw [compSpec_of_kktSpec _ _ ck]; exact hI
  have hnew := Bridge.interior_step_model h0 h1 hm hI' (by rw [an.lhs_z, hS.vz]) (by rw [an.lhs_s, hS.vs])
    ha hapos hadd
  have hzr := pass_zero_rows hS hp hz
  exact ⟨hnew, hzr, conesInterior_of_interior hnew hzr⟩

end Clarabel.Solver
