/-
  C09 on the whole-solver model WITH NONSYMMETRIC CONES (`ClarabelModel/SolverNS/Solve.lean`):
  `solve()` never reads the `presolver` record of the problem data (it only carries it along) until
  `solution.post_process`, where the record selects `reverse_presolve`.  Counterpart of
  `Lemmas/PresolveSolveTransparent.lean`; everything about functions SHARED by the two models
  (`Equil.equilibrate`, `Unscale.postProcess`, `PostRel`, `presolveMap`, `fillNorms`,
  `ProblemData.new`) is imported from there, only the NS `default_start` / `pass` / loop / `finish`
  are redone.

  Structural ([S]), any scalar type.
-/
import ClarabelModel.SolverNS.Solve
import ClarabelProofs.Lemmas.PresolveSolveTransparent

namespace Clarabel
namespace SolverNS
open Clarabel Info
open Solver (presolveMap equilView fillNorms PostRel)
set_option linter.unusedSectionVars false
set_option linter.unusedVariables false
variable {α : Type}

/-- replace the `presolver` record inside the solver state -/
def SolverSt.setPre (S : SolverSt α) (p : Option (Presolve.Presolver α)) : SolverSt α :=
  { S with data := S.data.setPre p }

/-- replace the `presolver` record inside the loop state -/
def LoopSt.setPre (L : LoopSt α) (p : Option (Presolve.Presolver α)) : LoopSt α :=
  { L with S := L.S.setPre p }

private theorem map_bind_congr {β γ δ : Type} {x x' : MErr β} {f : β → MErr γ} {f' : β → MErr δ} {g : δ → γ}
    (hx : x = x') (hf : ∀ a, f a = (f' a).map g) : (x >>= f) = (x' >>= f').map g := by
  subst hx
  cases x with
  | error e => rfl
  | ok a => exact hf a

private theorem bind_congr' {β γ : Type} {x x' : MErr β} {f f' : β → MErr γ}
    (hx : x = x') (hf : ∀ a, f a = f' a) : (x >>= f) = (x' >>= f') := by
  subst hx
  cases x with
  | error e => rfl
  | ok a => exact hf a

private theorem map_bind_congr2 {β β' γ δ : Type} {x : MErr β'} {x' : MErr β} {h : β → β'} {f : β' → MErr γ}
    {f' : β → MErr δ} {g : δ → γ}
    (hx : x = x'.map h) (hf : ∀ a, f (h a) = (f' a).map g) : (x >>= f) = (x' >>= f').map g := by
  subst hx
  cases x' with
  | error e => rfl
  | ok a => exact hf a

private theorem ite_map_congr {γ δ : Type} {c : Prop} [Decidable c] {a b : MErr γ} {a' b' : MErr δ} {g : δ → γ}
    (ha : a = a'.map g) (hb : b = b'.map g) : (if c then a else b) = (if c then a' else b').map g := by
  split
  · exact ha
  · exact hb

private theorem bind_ok_inv' {β γ : Type} {x : MErr β} {f : β → MErr γ} {c : γ}
    (h : (x >>= f) = .ok c) : ∃ a, x = .ok a ∧ f a = .ok c := by
  cases x with
  | error e => cases h
  | ok a => exact ⟨a, rfl, h⟩

section
variable [Add α] [Sub α] [Mul α] [Div α] [Neg α] [LT α] [LE α] [DecidableLT α] [DecidableLE α]
  [BEq α] [OfNat α 0] [OfNat α 1] [OfNat α 2] [OfNat α 3] [OfNat α 4] [OfNat α 100] [OfNat α 1000]
  [OfScientific α] [FloatLike α]

/-! ### `default_start`, the loop -/

theorem defaultStart_setPreN (S : SolverSt α) (p : Option (Presolve.Presolver α)) (st : Settings α) :
    (S.setPre p).defaultStart st = (S.defaultStart st).map (·.setPre p) := by
  unfold SolverSt.defaultStart
  refine ite_map_congr ?_ ?_
  · refine map_bind_congr rfl (fun a => ?_)
    refine map_bind_congr rfl (fun b => ?_)
    refine map_bind_congr rfl (fun c => ?_)
    refine map_bind_congr rfl (fun d => ?_)
    rfl
  · refine map_bind_congr rfl (fun a => ?_)
    rfl

theorem kktNumerics_setPreN (st : Settings α) (S : SolverSt α) (p : Option (Presolve.Presolver α))
    (cones : List (ConeSt α)) (mu : α) (iter : Nat) (scaling : Loop.Scaling) :
    kktNumerics st (S.setPre p) cones mu iter scaling
      = (kktNumerics st S cones mu iter scaling).map (fun k => { k with S := k.S.setPre p }) := by
  unfold kktNumerics
  refine map_bind_congr rfl (fun a => ?_)
  refine map_bind_congr rfl (fun b => ?_)
  dsimp only
  split <;>
  · refine map_bind_congr rfl (fun c => ?_)
    obtain ⟨affOk, stepLhs, kktsystem⟩ := c
    dsimp only
    split
    · refine map_bind_congr rfl (fun d => ?_)
      refine map_bind_congr rfl (fun e => ?_)
      refine map_bind_congr rfl (fun f => ?_)
      rfl
    · rfl

/-- **[S]** one pass of the loop never reads the `presolver` record and carries it along unchanged -/
theorem pass_setPreN (st : Settings α) (L : LoopSt α) (p : Option (Presolve.Presolver α)) :
    pass st (L.setPre p) = (pass st L).map (fun r => (r.1, r.2.setPre p)) := by
  unfold pass
  refine map_bind_congr rfl (fun a => ?_)
  obtain ⟨residuals, mu, info1⟩ := a
  dsimp only
  refine ite_map_congr ?_ ?_
  · refine ite_map_congr rfl ?_
    refine map_bind_congr rfl (fun v => ?_)
    try dsimp only
    exact ite_map_congr rfl rfl
  · refine map_bind_congr rfl (fun sc => ?_)
    try dsimp only
    refine ite_map_congr rfl ?_
    have hk := kktNumerics_setPreN st
      { L.S with residuals := residuals,
                 info := (checkTermination info1 residuals.dot_bz residuals.dot_qx st.info L.iter false).1,
                 infoMu := mu, infoSigma := L.sigma, infoStepLength := L.alpha, cones := sc.2 }
      p sc.2 mu (L.iter + 1) L.scaling
    refine map_bind_congr2 hk (fun k => ?_)
    dsimp only
    refine ite_map_congr ?_ ?_
    · exact ite_map_congr rfl rfl
    · refine map_bind_congr rfl (fun a => ?_)
      obtain ⟨a, nbt⟩ := a
      try dsimp only
      refine ite_map_congr rfl ?_
      refine ite_map_congr rfl ?_
      exact map_bind_congr rfl (fun pv => rfl)

theorem runLoop_setPreN (st : Settings α) (p : Option (Presolve.Presolver α)) :
    ∀ (fuel : Nat) (L : LoopSt α), runLoop st fuel (L.setPre p) = (runLoop st fuel L).map (·.setPre p)
  | 0, _ => rfl
  | fuel + 1, L => by
    unfold runLoop
    refine map_bind_congr2 (pass_setPreN st L p) (fun r => ?_)
    dsimp only
    exact ite_map_congr (runLoop_setPreN st p fuel r.2) rfl

/-- **[S]** `info.reset`, `default_start()` and the loop are a function of the solver state without
the `presolver` record, which is carried along unchanged -/
theorem runSolve_setPreN (S : SolverSt α) (p : Option (Presolve.Presolver α)) (st : Settings α) :
    (S.setPre p).runSolve st = (S.runSolve st).map (·.setPre p) := by
  unfold SolverSt.runSolve
  have h0 := defaultStart_setPreN
    { S with info := { S.info with status := .unsolved, iterations := 0 } } p st
  refine map_bind_congr2 h0 (fun S1 => ?_)
  exact runLoop_setPreN st p _
    { S := S1, iter := 0, sigma := 1, alpha := 0, mu := 0, scaling := initScaling S1.cones, traj := [] }

/-! ### the loop does not read `presolve_enable` -/

/-- the constructor-only setting `presolve_enable` replaced -/
def Settings.withPre (st : Settings α) (b : Bool) : Settings α :=
  { st with presolveEnable := b }

theorem pass_withPre (st : Settings α) (b : Bool) (L : LoopSt α) :
    pass (st.withPre b) L = pass st L := rfl

theorem runLoop_withPre (st : Settings α) (b : Bool) :
    ∀ (fuel : Nat) (L : LoopSt α), runLoop (st.withPre b) fuel L = runLoop st fuel L
  | 0, _ => rfl
  | fuel + 1, L => by
    unfold runLoop
    refine bind_congr' (pass_withPre ..) (fun r => ?_)
    rw [runLoop_withPre st b fuel]

theorem runSolve_withPre (S : SolverSt α) (st : Settings α) (b : Bool) :
    S.runSolve (st.withPre b) = S.runSolve st := by
  unfold SolverSt.runSolve
  exact bind_congr' rfl (fun S1 => runLoop_withPre st b _ _)

/-- **[S]** `solve()` does not read `settings.presolve_enable` -/
theorem solve_presolveOffN (S : Solver α) (st : Settings α) :
    S.solve { st with presolveEnable := false } = S.solve st := by
  show S.solve (st.withPre false) = S.solve st
  unfold Solver.solve
  exact bind_congr' (runSolve_withPre ..) (fun L => rfl)

/-! ### after the loop -/

theorem finishInfo_setPreN (st : Settings α) (L : LoopSt α) (p : Option (Presolve.Presolver α)) :
    finishInfo st (L.setPre p) = (finishInfo st L).setPre p := by
  unfold finishInfo
  by_cases h : (L.alpha == 0) = true
  · have h' : ((L.setPre p).alpha == 0) = true := h
    simp only [if_pos h, if_pos h']
    rfl
  · have h' : ¬ ((L.setPre p).alpha == 0) = true := h
    simp only [if_neg h, if_neg h']
    rfl

theorem finishInfo_dataN (st : Settings α) (L : LoopSt α) : (finishInfo st L).data = L.S.data := by
  unfold finishInfo
  by_cases h : (L.alpha == 0) = true
  · simp only [if_pos h]
  · simp only [if_neg h]

theorem finish_some_noneN {st : Settings α} {L : LoopSt α} {sol sol' : Unscale.Solution α}
    {pm : Unscale.PresolveMap α} {pr : SolverSt α × Unscale.Solution α}
    (h : finish st L sol = .ok pr) (hpm : presolveMap L.S.data = some pm)
    (hx : sol'.x.size = sol.x.size) (hs : pr.1.variables.s.size = sol'.s.size)
    (hz : pr.1.variables.z.size = sol'.z.size) :
    ∃ pr', finish st (L.setPre none) sol' = .ok pr' ∧ pr'.1 = pr.1.setPre none
      ∧ PostRel pm (pr.2, pr.1.variables) (pr'.2, pr'.1.variables) := by
  unfold finish at h ⊢
  rw [finishInfo_setPreN]
  dsimp only at h ⊢
  obtain ⟨u, hu, h⟩ := bind_ok_inv' h
  cases h
  have hpm2 : presolveMap (finishInfo st L).data = some pm := by rw [finishInfo_dataN]; exact hpm
  rw [hpm2] at hu
  obtain ⟨r', hr', hrel⟩ := Solver.postProcess_some_none hu hx hs hz
  refine ⟨({ (finishInfo st L).setPre none with «variables» := r'.2 }, r'.1), ?_, ?_, hrel⟩
  · show (Unscale.postProcess sol' (equilView (finishInfo st L).data.equilibration) none
        (finishInfo st L).variables (finishInfo st L).info >>= fun r => _) = _
    rw [hr']
    rfl
  · show _ = SolverSt.setPre { finishInfo st L with «variables» := u.2 } none
    rw [hrel.vars]
    rfl

/-- relation between the result `r` of the presolve-on solve and the result `r'` of the
solve on the same internal data without the presolver record (model with nonsymmetric cones) -/
structure SolveRelN (pm : Unscale.PresolveMap α) (r r' : SolveResult α) : Prop where
  traj : r'.traj = r.traj
  st : r'.S.st = r.S.st.setPre none
  post : PostRel pm (r.S.solution, r.S.st.variables) (r'.S.solution, r'.S.st.variables)

theorem runSolve_presolverN {S : SolverSt α} {st : Settings α} {L : LoopSt α} (h : S.runSolve st = .ok L) :
    L.S.data.presolver = S.data.presolver := by
  have := runSolve_setPreN S S.data.presolver st
  rw [show S.setPre S.data.presolver = S from rfl, h] at this
  have e : L = L.setPre S.data.presolver := by
    have : Except.ok L = Except.ok (L.setPre S.data.presolver) := this
    exact Except.ok.inj this
  rw [e]; rfl

/-- **[S]** `Solver.solve_presolve_transparent` for the model with nonsymmetric cones -/
theorem solve_presolve_transparentN (S : Solver α) (st : Settings α) (r : SolveResult α)
    (pm : Unscale.PresolveMap α) (sol' : Unscale.Solution α)
    (hr : S.solve st = .ok r) (hpm : presolveMap S.st.data = some pm)
    (hx : sol'.x.size = S.solution.x.size)
    (hs : r.S.st.variables.s.size = sol'.s.size) (hz : r.S.st.variables.z.size = sol'.z.size) :
    ∃ r', Solver.solve { st := S.st.setPre none, solution := sol' } st = .ok r' ∧ SolveRelN pm r r' := by
  unfold Solver.solve at hr ⊢
  obtain ⟨L, hL, hr⟩ := bind_ok_inv' hr
  obtain ⟨pr, hfin, hr⟩ := bind_ok_inv' hr
  obtain ⟨dN, hdN, hr⟩ := bind_ok_inv' hr
  cases hr
  have hpm' : presolveMap L.S.data = some pm := by
    rw [Solver.presolveMap_congr (runSolve_presolverN hL)]; exact hpm
  obtain ⟨pr', hfin', hst, hrel⟩ := finish_some_noneN (sol' := sol') hfin hpm' hx hs hz
  have hfill : fillNorms pr'.1.data = .ok (dN.setPre none) := by
    rw [hst]
    show fillNorms (pr.1.data.setPre none) = _
    unfold fillNorms at hdN ⊢
    obtain ⟨nq, hq, hdN⟩ := bind_ok_inv' hdN
    obtain ⟨nb, hb, hdN⟩ := bind_ok_inv' hdN
    cases hdN
    show (Info.getNormq pr.1.data.normq pr.1.data.q pr.1.data.equilibration.dinv pr.1.data.equilibration.c
      >>= fun a => Info.getNormb pr.1.data.normb pr.1.data.b pr.1.data.equilibration.einv >>= fun b => _) = _
    rw [hq]
    show (Info.getNormb pr.1.data.normb pr.1.data.b pr.1.data.equilibration.einv >>= fun b => _) = _
    rw [hb]
    rfl
  refine ⟨{ S := { st := { pr'.1 with data := dN.setPre none }, solution := pr'.2 }, traj := L.traj }, ?_,
    ⟨rfl, ?_, hrel⟩⟩
  · dsimp only
    rw [runSolve_setPreN, hL]
    show (finish st (L.setPre none) sol' >>= fun r => _) = _
    rw [hfin']
    show (fillNorms pr'.1.data >>= fun data => _) = _
    rw [hfill]
    rfl
  · show ({ pr'.1 with data := dN.setPre none } : SolverSt α) = _
    rw [hst]
    rfl

/-! ### construction -/

theorem internalData_congrN {P q A b cones P' q' A' b' cones'} {st : Settings α} {d : ProblemData α}
    (h1 : ProblemData.new P q A b cones st.presolveEnable false st.infbound = .ok d)
    (h2 : ProblemData.new P' q' A' b' cones' false false st.infbound = .ok (d.setPre none)) :
    internalData P' q' A' b' cones' { st with presolveEnable := false }
      = (internalData P q A b cones st).map (·.setPre none) := by
  unfold internalData
  dsimp only
  rw [h1, h2]
  show (makeCones d.cones >>= fun K => _) = Except.map _ (makeCones d.cones >>= fun K => _)
  refine map_bind_congr rfl (fun K => ?_)
  refine ite_map_congr rfl ?_
  exact Solver.equilibrate_setPre d d.cones st.equil none

theorem SolverSt_new_congrN {P q A b cones P' q' A' b' cones'} {st : Settings α} {d : ProblemData α}
    (perm : Array Nat)
    (h1 : ProblemData.new P q A b cones st.presolveEnable false st.infbound = .ok d)
    (h2 : ProblemData.new P' q' A' b' cones' false false st.infbound = .ok (d.setPre none)) :
    SolverSt.new P' q' A' b' cones' { st with presolveEnable := false } perm
      = (SolverSt.new P q A b cones st perm).map (·.setPre none) := by
  unfold SolverSt.new
  refine map_bind_congr2 (internalData_congrN h1 h2) (fun data => ?_)
  refine map_bind_congr rfl (fun K => ?_)
  refine map_bind_congr rfl (fun k => ?_)
  rfl

theorem internalData_presolverN {P q A b cones} {st : Settings α} {d data : ProblemData α}
    (h1 : ProblemData.new P q A b cones st.presolveEnable false st.infbound = .ok d)
    (h : internalData P q A b cones st = .ok data) : data.presolver = d.presolver := by
  unfold internalData at h
  rw [h1] at h
  obtain ⟨K, _, h⟩ := bind_ok_inv' (x := makeCones d.cones) h
  dsimp only at h
  split at h
  · cases h
  · exact Solver.equilibrate_presolver h

theorem SolverSt_new_presolverN {P q A b cones} {st : Settings α} {perm : Array Nat} {d : ProblemData α}
    {S : SolverSt α}
    (h1 : ProblemData.new P q A b cones st.presolveEnable false st.infbound = .ok d)
    (h : SolverSt.new P q A b cones st perm = .ok S) : S.data.presolver = d.presolver := by
  unfold SolverSt.new at h
  obtain ⟨data, hd, h⟩ := bind_ok_inv' h
  obtain ⟨K, _, h⟩ := bind_ok_inv' h
  obtain ⟨k, _, h⟩ := bind_ok_inv' h
  cases h
  exact internalData_presolverN h1 hd

/-- **[S] COMPOSED THEOREM** (`Solver.new_solve_presolve_transparent` for the model with
nonsymmetric cones) -/
theorem new_solve_presolve_transparentN {P : Csc α} {q : Array α} {A : Csc α} {b : Array α}
    {cones : List (ConeT α)} {A' : Csc α} {b' : Array α} {cones' : List (ConeT α)} {st : Settings α}
    {perm : Array Nat} {S : Solver α} {d : ProblemData α} {pm : Unscale.PresolveMap α}
    (hnew : Solver.new P q A b cones st perm = .ok S)
    (h1 : ProblemData.new P q A b cones st.presolveEnable false st.infbound = .ok d)
    (h2 : ProblemData.new P q A' b' cones' false false st.infbound = .ok (d.setPre none))
    (hdim : Loop.checkDimensions P.m P.n q.size A'.m A'.n b'.size (cones'.map ConeT.nvars) = .ok ())
    (hn : A'.n = A.n) (hpm : presolveMap d = some pm) :
    ∃ S', Solver.new P q A' b' cones' { st with presolveEnable := false } perm = .ok S'
      ∧ S'.st = S.st.setPre none ∧ S'.solution = Unscale.Solution.new A'.n A'.m
      ∧ presolveMap S.st.data = some pm
      ∧ ∀ r, S.solve st = .ok r → r.S.st.variables.s.size = A'.m → r.S.st.variables.z.size = A'.m →
          ∃ r', S'.solve { st with presolveEnable := false } = .ok r' ∧ SolveRelN pm r r' := by
  unfold Solver.new at hnew
  obtain ⟨_, _, hnew⟩ := bind_ok_inv' hnew
  obtain ⟨S0, hS0, hnew⟩ := bind_ok_inv' hnew
  cases hnew
  have hnew' : SolverSt.new P q A' b' cones' { st with presolveEnable := false } perm
      = .ok (S0.setPre none) := by
    have e := SolverSt_new_congrN perm h1 h2
    rw [hS0] at e
    exact e
  have hpmS : presolveMap S0.data = some pm := by
    rw [Solver.presolveMap_congr (SolverSt_new_presolverN h1 hS0)]; exact hpm
  refine ⟨{ st := S0.setPre none, solution := Unscale.Solution.new A'.n A'.m }, ?_, rfl, rfl, hpmS, ?_⟩
  · unfold Solver.new
    rw [hdim, hnew']
    rfl
  · intro r hr hs hz
    rw [solve_presolveOffN]
    refine solve_presolve_transparentN { st := S0, solution := Unscale.Solution.new A.n A.m } st r pm
      (Unscale.Solution.new A'.n A'.m) hr hpmS ?_ ?_ ?_
    · show (Array.replicate A'.n (0:α)).size = (Array.replicate A.n (0:α)).size
      rw [Array.size_replicate, Array.size_replicate, hn]
    · rw [hs]; exact Array.size_replicate.symm
    · rw [hz]; exact Array.size_replicate.symm

/-- `SolveRelN` spelled out -/
theorem SolveRelN.explicit {pm : Unscale.PresolveMap α} {r r' : SolveResult α} (h : SolveRelN pm r r') :
    r'.traj = r.traj ∧ r'.S.st = r.S.st.setPre none
    ∧ r'.S.solution.status = r.S.solution.status ∧ r'.S.solution.iterations = r.S.solution.iterations
    ∧ r'.S.solution.obj_val = r.S.solution.obj_val ∧ r'.S.solution.obj_val_dual = r.S.solution.obj_val_dual
    ∧ r'.S.solution.r_prim = r.S.solution.r_prim ∧ r'.S.solution.r_dual = r.S.solution.r_dual
    ∧ r'.S.solution.x = r.S.solution.x
    ∧ r'.S.solution.s = r.S.st.variables.s ∧ r'.S.solution.z = r.S.st.variables.z
    ∧ ∀ k, (hk : k < pm.keep.size) →
      (pm.keep[k] = true →
          r.S.solution.s[k]? = r'.S.solution.s[Unscale.rank pm.keep.toList k]?
          ∧ r.S.solution.z[k]? = r'.S.solution.z[Unscale.rank pm.keep.toList k]?
          ∧ (r'.S.solution.s[Unscale.rank pm.keep.toList k]?).isSome
          ∧ (r'.S.solution.z[Unscale.rank pm.keep.toList k]?).isSome)
      ∧ (pm.keep[k] = false → r.S.solution.s[k]? = some pm.infbound ∧ r.S.solution.z[k]? = some 0) :=
  ⟨h.traj, h.st, h.post.status, h.post.iterations, h.post.obj_val, h.post.obj_val_dual, h.post.r_prim,
    h.post.r_dual, h.post.x, h.post.s_red, h.post.z_red, h.post.restore⟩

end
end SolverNS
end Clarabel
