/-
  C04 over ℝ: the model's fuel for the unbounded `loop` of `backtrack_search`
  (`src/solver/core/cones/nonsymmetric_common.rs`) SUFFICES once `α_init · step^fuel < α_min`.

  Rust:  α = α_init; loop { work = q + α·dq; if in_cone(work) {break}; α *= step;
                            if α < α_min { α = 0; break } }

  After `k` rejected rounds `α = α_init·step^k` (exactly, over ℝ), so the loop leaves in round `N` at
  the latest when `α_init·step^N < α_min` — whatever the cone test answers.  No sign condition on
  `step` or `α_init` is needed for the exact statement; the bounded one (`α_init ≤ B`) needs `0 ≤ step`.

  Call sites in the NS model (`SolverNS.stepFns`; Rust: `step_length` of `expcone.rs:152`,
  `powcone.rs:155`, `genpowcone.rs:243`, twice each: dual then primal):

      fuel   = `st.btFuel`                       (model only; the drivers pass 200000)
      α_init = the running `α` of `CompositeCone::step_length::innerfcn(α, true)`; the nonsymmetric
               cones are visited in the FIRST pass (`symcond = true` skips the symmetric ones),
               so `α_init ≤ αmax = min(ατ, ακ, 1) ≤ 1` (before the `max_step_fraction` cap)
      α_min  = `settings.min_terminate_step_length`   (default 1e-4)
      step   = `settings.linesearch_backtrack_step`   (default 0.8)

  Hence `FuelOK`: `0 < fuel`, `0 ≤ step`, `step^fuel < α_min`.  For the defaults: `0.8^42 < 1e-4 ≤ 0.8^41`,
  i.e. any fuel ≥ 42 suffices (the drivers' 200000 does); in general
  fuel > log(α_min)/log(step) for `0 < step < 1`, fuel ≥ 1 for `step = 0`, NO fuel for `step = 1`
  (`1^N = 1 < α_min` fails for `α_min ≤ 1`).

  OBSERVATIONS on the Rust loop (not a panic: non-termination, which the model renders as the fuel site):
  * `step = 1` (allowed by the settings validation?  `linesearch_backtrack_step` is not range-checked):
    `α` never changes, so the loop never ends when `q + α_init·dq` is outside the cone and
    `α_init ≥ α_min`.  Same for `step > 1` (α grows) — until `α = +∞`, then `work` is NaN/∞ and the
    test keeps failing: never ends.
  * `α_init = NaN` (or `step = NaN`, `α_min = NaN`): `work` is NaN, the cone tests are `>`-comparisons and
    fail; `α *= step` is NaN; `NaN < α_min` is false: never ends.  Over ℝ there is no NaN; in the
    `Float` model this is the `"backtrack_search: fuel"` outcome.
-/
import ClarabelProofs.Lemmas.SolverNSWrightRealSolve

namespace Clarabel.SolverNS
open Clarabel Info Residuals Nonsym
open Clarabel.Solver (OkAnd FmaxOK VarsSized bind_ok_of bind_ok_inv)
open ConesB

set_option linter.unusedSectionVars false
set_option linter.unusedVariables false

/-- no allowed panic site at all -/
def NoSite (_ : String) : Prop := False

/-- **[R] the fuel suffices** (exact form): with fuel `n+1`, if `α_init·step^(n+1) < α_min` then
`backtrack_search` returns -/
theorem backtrackSearch_fuel_ok (dq q : Array ℝ) (aMin step : ℝ) (inCone : Array ℝ → Bool) :
    ∀ (n : Nat) (aInit : ℝ), aInit * step ^ (n + 1) < aMin →
      ∃ r, Nonsym.backtrackSearch dq q aInit aMin step inCone (n + 1) = .ok r := by
  intro n
  induction n with
  | zero =>
    intro aInit h
    unfold Nonsym.backtrackSearch
    dsimp only
    split
    · exact ⟨_, rfl⟩
    · split
      · exact ⟨_, rfl⟩
      · rename_i hn
        rw [pow_one] at h
        exact absurd h hn
  | succ n ih =>
    intro aInit h
    unfold Nonsym.backtrackSearch
    dsimp only
    split
    · exact ⟨_, rfl⟩
    · split
      · exact ⟨_, rfl⟩
      · exact ih (aInit * step) (by rw [pow_succ'] at h; rw [mul_assoc]; exact h)

/-- [R] the fuel suffices, any positive fuel -/
theorem backtrackSearch_fuel_ok' (dq q : Array ℝ) (aInit aMin step : ℝ) (inCone : Array ℝ → Bool)
    {N : Nat} (hN : 0 < N) (h : aInit * step ^ N < aMin) :
    ∃ r, Nonsym.backtrackSearch dq q aInit aMin step inCone N = .ok r := by
  obtain ⟨n, rfl⟩ : ∃ n, N = n + 1 := ⟨N - 1, by omega⟩
  exact backtrackSearch_fuel_ok dq q aMin step inCone n aInit h

/-- [R] the value returned: `0`, or `α_init·step^k` for some `k < fuel` accepted by the cone test -/
theorem backtrackSearch_value (dq q : Array ℝ) (aMin step : ℝ) (inCone : Array ℝ → Bool) :
    ∀ (N : Nat) (aInit r : ℝ), Nonsym.backtrackSearch dq q aInit aMin step inCone N = .ok r →
      r = 0 ∨ ∃ k, k < N ∧ r = aInit * step ^ k
        ∧ inCone (Vec.waxpby 1 q (aInit * step ^ k) dq) = true := by
  intro N
  induction N with
  | zero =>
    intro aInit r h
    unfold Nonsym.backtrackSearch at h
    cases h
  | succ n ih =>
    intro aInit r h
    unfold Nonsym.backtrackSearch at h
    dsimp only at h
    split at h
    · rename_i hin
      cases h
      exact Or.inr ⟨0, by omega, by rw [pow_zero, mul_one], by rw [pow_zero, mul_one]; exact hin⟩
    · split at h
      · cases h
        exact Or.inl rfl
      · rcases ih _ _ h with h0 | ⟨k, hk, hr, hc⟩
        · exact Or.inl h0
        · refine Or.inr ⟨k + 1, by omega, ?_, ?_⟩
          · rw [hr, pow_succ', mul_assoc]
          · rw [pow_succ', ← mul_assoc]; exact hc

/-- the line-search settings and the model's fuel fit together: the fuel is positive and
`step^fuel < α_min` (`α_init ≤ 1` at every call site) -/
structure FuelOK (ls : LineSearch ℝ) : Prop where
  pos : 0 < ls.fuel
  step0 : 0 ≤ ls.step
  lt : ls.step ^ ls.fuel < ls.amin

/-- [R] a start `α_init ≤ 1`: the fuel suffices under `FuelOK` -/
theorem backtrackSearch_ok_le_one {ls : LineSearch ℝ} (hF : FuelOK ls) (dq q : Array ℝ)
    (inCone : Array ℝ → Bool) {aInit : ℝ} (ha : aInit ≤ 1) :
    OkOr NoSite (Nonsym.backtrackSearch dq q aInit ls.amin ls.step inCone ls.fuel) (fun _ => True) := by
  have hp : 0 ≤ ls.step ^ ls.fuel := pow_nonneg hF.step0 _
  obtain ⟨r, hr⟩ := backtrackSearch_fuel_ok' dq q aInit ls.amin ls.step inCone hF.pos
    (lt_of_le_of_lt (by nlinarith) hF.lt)
  rw [hr]
  exact trivial

theorem exp_stepLength_tot {ls : LineSearch ℝ} (hF : FuelOK ls) (dz ds z s : V3 ℝ) {aMax : ℝ}
    (ha : aMax ≤ 1) :
    OkOr NoSite (Exp.stepLength dz ds z s ls.step ls.amin aMax ls.fuel) (fun _ => True) := by
  unfold Exp.stepLength
  refine (backtrackSearch_ok_le_one hF _ _ _ ha).bind fun _ _ => ?_
  exact (backtrackSearch_ok_le_one hF _ _ _ ha).bind fun _ _ => trivial

theorem pow_stepLength_tot {ls : LineSearch ℝ} (hF : FuelOK ls) (a : ℝ) (dz ds z s : V3 ℝ) {aMax : ℝ}
    (ha : aMax ≤ 1) :
    OkOr NoSite (Pow.stepLength a dz ds z s ls.step ls.amin aMax ls.fuel) (fun _ => True) := by
  unfold Pow.stepLength
  refine (backtrackSearch_ok_le_one hF _ _ _ ha).bind fun _ _ => ?_
  exact (backtrackSearch_ok_le_one hF _ _ _ ha).bind fun _ _ => trivial

theorem genpow_stepLength_tot {ls : LineSearch ℝ} (hF : FuelOK ls) (al dz ds z s : Array ℝ) {aMax : ℝ}
    (ha : aMax ≤ 1) :
    OkOr NoSite (GenPow.stepLength al dz ds z s ls.step ls.amin aMax ls.fuel) (fun _ => True) := by
  unfold GenPow.stepLength
  refine (backtrackSearch_ok_le_one hF _ _ _ ha).bind fun _ _ => ?_
  exact (backtrackSearch_ok_le_one hF _ _ _ ha).bind fun _ _ => trivial

/-- a monadic left fold keeps an invariant of the accumulator and stays inside `OkOr E` -/
theorem foldlM_okOr_inv {σ β : Type} {E : String → Prop} (I : σ → Prop) (f : σ → β → MErr σ) :
    ∀ (l : List β), (∀ p ∈ l, ∀ acc, I acc → OkOr E (f acc p) I) →
      ∀ acc, I acc → OkOr E (l.foldlM f acc) I := by
  intro l
  induction l with
  | nil => intro _ acc h; rw [List.foldlM_nil]; exact OkOr.pure h
  | cons p ps ih =>
    intro hl acc h
    rw [List.foldlM_cons]
    exact (hl p (List.mem_cons_self ..) acc h).bind
      fun r hr => ih (fun q hq => hl q (List.mem_cons_of_mem _ hq)) r hr

/-- the closure `innerfcn`: the running `α` never exceeds its start -/
theorem inner_tot (fns : List (Composite.ConeFn ℝ)) (symcond : Bool)
    (h : ∀ c ∈ fns, ∀ a, a ≤ 1 → OkOr NoSite (c.stepLength a) (fun _ => True)) (a : ℝ) (ha : a ≤ 1) :
    OkOr NoSite (Composite.inner fns symcond a) (fun r => r ≤ 1) := by
  unfold Composite.inner
  refine foldlM_okOr_inv (fun r => r ≤ 1) _ fns ?_ a ha
  intro c hc acc hacc
  dsimp only
  split
  · exact hacc
  · refine (h c hc acc hacc).bind fun ⟨az, as⟩ _ => ?_
    show (fmin acc (fmin az as) : ℝ) ≤ 1
    rw [real_fmin_eq]
    exact le_trans (min_le_left _ _) hacc

theorem compStepLength_tot (fns : List (Composite.ConeFn ℝ)) (msf amax : ℝ)
    (h : ∀ c ∈ fns, ∀ a, a ≤ 1 → OkOr NoSite (c.stepLength a) (fun _ => True)) (ha : amax ≤ 1) :
    OkOr NoSite (Composite.stepLength fns msf amax) (fun _ => True) := by
  unfold Composite.stepLength
  dsimp only
  refine (inner_tot fns true h amax ha).bind fun a1 ha1 => ?_
  have h2 : (if (!fns.all (·.symmetric)) = true then fmin msf a1 else a1) ≤ 1 := by
    split
    · rw [real_fmin_eq]; exact le_trans (min_le_right _ _) ha1
    · exact ha1
  exact (inner_tot fns false h _ h2).bind fun _ _ => trivial

/-- copy of `ConesB.stepFns_okC` with no site left: each closure returns for every `αmax ≤ 1` -/
theorem stepFns_tot {ls : LineSearch ℝ} (hF : FuelOK ls) {cones : List (ConeSt ℝ)}
    {dz ds z s : Array ℝ} (h : ConesFull cones)
    (h1 : dz.size = numelAll cones) (h2 : ds.size = numelAll cones) (h3 : z.size = numelAll cones)
    (h4 : s.size = numelAll cones) :
    ∃ fns, stepFns ls cones dz ds z s = .ok fns
      ∧ ∀ c ∈ fns, ∀ a, a ≤ 1 → OkOr NoSite (c.stepLength a) (fun _ => True) := by
  have hs : FmaxOK ℝ ∨ NoSite "starting point of line search not in SOC" := Or.inl fmaxOK_real_ns
  obtain ⟨dzs, hdzs, F1⟩ := cutE_ok (cones := cones) (v := dz) "step_length dz" (by omega)
  obtain ⟨dss, hdss, F2⟩ := cutE_ok (cones := cones) (v := ds) "step_length ds" (by omega)
  obtain ⟨zs, hzs, F3⟩ := cutE_ok (cones := cones) (v := z) "step_length z" (by omega)
  obtain ⟨ss, hss, F4⟩ := cutE_ok (cones := cones) (v := s) "step_length s" (by omega)
  have hrel := forall₂_zip F1 (forall₂_zip F2 (forall₂_zip F3 F4))
  unfold stepFns
  rw [bind_ok_of hdzs, bind_ok_of hdss, bind_ok_of hzs, bind_ok_of hss]
  refine ⟨_, rfl, ?_⟩
  intro c hc a ha
  rw [List.mem_map] at hc
  obtain ⟨p, hp, rfl⟩ := hc
  obtain ⟨hmem, q1, q2, q3, q4⟩ := forall₂_mem_zip hrel p hp
  have hfull := h _ hmem
  obtain ⟨c, p1, p2, p3, p4⟩ := p
  dsimp only at q1 q2 q3 q4 hfull hmem ⊢
  cases c with
  | sym c =>
    cases c with
    | zero d => exact trivial
    | nonneg K =>
      exact OkOr.of_exists
        (Solver.ConesB.nn_stepLength_ok a (q3.trans q4.symm) (q1.trans q3.symm) (q2.trans q4.symm))
    | soc K =>
      have hd : 2 ≤ K.dim := hfull.1
      have e : (ConeSt.sym (Solver.ConeSt.soc K)).numel = K.dim := rfl
      exact soc_stepLength_okOr hs a (by omega) (by omega) (by omega) (by omega)
  | exp K =>
    have e : (ConeSt.exp K).numel = 3 := rfl
    obtain ⟨v1, hv1⟩ := v3E_ok (a := p1) "dz" (q1.trans e)
    obtain ⟨v2, hv2⟩ := v3E_ok (a := p2) "ds" (q2.trans e)
    obtain ⟨v3, hv3⟩ := v3E_ok (a := p3) "z" (q3.trans e)
    obtain ⟨v4, hv4⟩ := v3E_ok (a := p4) "s" (q4.trans e)
    dsimp only
    rw [bind_ok_of hv1, bind_ok_of hv2, bind_ok_of hv3, bind_ok_of hv4]
    exact exp_stepLength_tot hF _ _ _ _ ha
  | pow al K =>
    have e : (ConeSt.pow al K).numel = 3 := rfl
    obtain ⟨v1, hv1⟩ := v3E_ok (a := p1) "dz" (q1.trans e)
    obtain ⟨v2, hv2⟩ := v3E_ok (a := p2) "ds" (q2.trans e)
    obtain ⟨v3, hv3⟩ := v3E_ok (a := p3) "z" (q3.trans e)
    obtain ⟨v4, hv4⟩ := v3E_ok (a := p4) "s" (q4.trans e)
    dsimp only
    rw [bind_ok_of hv1, bind_ok_of hv2, bind_ok_of hv3, bind_ok_of hv4]
    exact pow_stepLength_tot hF _ _ _ _ _ ha
  | genpow al d2 ψ K =>
    exact genpow_stepLength_tot hF _ _ _ _ _ ha

/-- **[R] `CompositeCone::step_length` with `αmax ≤ 1` returns under `FuelOK`** -/
theorem stepLength_tot {ls : LineSearch ℝ} (hF : FuelOK ls) (cones : List (ConeSt ℝ))
    (dz ds z s : Array ℝ) (msf : ℝ) {amax : ℝ} (ha : amax ≤ 1)
    (h : ConesFull cones) (h1 : dz.size = numelAll cones) (h2 : ds.size = numelAll cones)
    (h3 : z.size = numelAll cones) (h4 : s.size = numelAll cones) :
    OkOr NoSite (stepLength ls cones dz ds z s msf amax) (fun _ => True) := by
  obtain ⟨fns, hfns, hall⟩ := stepFns_tot hF h h1 h2 h3 h4
  unfold stepLength
  rw [bind_ok_of hfns]
  exact compStepLength_tot fns msf amax hall ha

/-- `αmax = min(ατ, ακ, 1) ≤ 1` -/
theorem alphaMax_le_one (tau kappa dtau dkappa maxValue : ℝ) :
    Loop.Step.alphaMax tau kappa dtau dkappa maxValue ≤ 1 := by
  unfold Loop.Step.alphaMax
  rw [real_fmin_eq]
  exact min_le_right _ _

/-- [R] SHARPNESS / the `step = 1` observation: when the cone test never accepts and every
`α_init·step^k` (`1 ≤ k ≤ N`) stays `≥ α_min`, fuel `N` is exhausted — in the code: the loop is still
running after `N` rounds -/
theorem backtrackSearch_fuel_exhausted (dq q : Array ℝ) (aMin step : ℝ) (inCone : Array ℝ → Bool)
    (hC : ∀ w, inCone w = false) :
    ∀ (N : Nat) (aInit : ℝ), (∀ k, 1 ≤ k → k ≤ N → aMin ≤ aInit * step ^ k) →
      Nonsym.backtrackSearch dq q aInit aMin step inCone N = .error (.panic "backtrack_search: fuel") := by
  intro N
  induction N with
  | zero => intro aInit _; rfl
  | succ n ih =>
    intro aInit h
    unfold Nonsym.backtrackSearch
    dsimp only
    rw [hC]
    have h1 : ¬ aInit * step < aMin := by
      have := h 1 (le_refl _) (by omega)
      rw [pow_one] at this
      exact not_lt.mpr this
    simp only [Bool.false_eq_true, ↓reduceIte, h1]
    refine ih (aInit * step) fun k hk1 hkn => ?_
    have := h (k + 1) (by omega) (by omega)
    rw [pow_succ', ← mul_assoc] at this
    exact this

/-- [R] `step = 1`, a test that never accepts, `α_min ≤ α_init`: NO fuel suffices (the Rust loop never
ends) -/
theorem backtrackSearch_step_one_never (dq q : Array ℝ) (aInit aMin : ℝ) (inCone : Array ℝ → Bool)
    (hC : ∀ w, inCone w = false) (h : aMin ≤ aInit) (N : Nat) :
    Nonsym.backtrackSearch dq q aInit aMin 1 inCone N = .error (.panic "backtrack_search: fuel") :=
  backtrackSearch_fuel_exhausted dq q aMin 1 inCone hC N aInit
    (fun k _ _ => by rw [one_pow, mul_one]; exact h)

/-- `FuelOK` from a smaller witness exponent (`0 ≤ step ≤ 1`) -/
theorem FuelOK.of_le {ls : LineSearch ℝ} (h0 : 0 ≤ ls.step) (h1 : ls.step ≤ 1) {n : Nat} (hn : 0 < n)
    (hle : n ≤ ls.fuel) (h : ls.step ^ n < ls.amin) : FuelOK ls :=
  ⟨by omega, h0, lt_of_le_of_lt (pow_le_pow_of_le_one h0 h1 hle) h⟩

/-- the default settings (`linesearch_backtrack_step = 0.8`, `min_terminate_step_length = 1e-4`): the
threshold is 42 rounds -/
theorem default_threshold : (0.8 : ℝ) ^ 42 < 1e-4 ∧ (1e-4 : ℝ) ≤ 0.8 ^ 41 := by
  constructor <;> norm_num

/-- the default settings with any fuel `≥ 42` (the drivers pass 200000) -/
theorem fuelOK_default {N : Nat} (hN : 42 ≤ N) : FuelOK (⟨0.8, 1e-4, N⟩ : LineSearch ℝ) :=
  FuelOK.of_le (n := 42) (by norm_num) (by norm_num) (by omega) hN default_threshold.1

/-- the default settings with fuel `41`: a start `α_init = 1` whose direction never enters the cone
exhausts the fuel — `42` is the least sufficient fuel for the defaults -/
theorem default_fuel_41_exhausted (dq q : Array ℝ) (inCone : Array ℝ → Bool)
    (hC : ∀ w, inCone w = false) :
    Nonsym.backtrackSearch dq q 1 1e-4 0.8 inCone 41 = .error (.panic "backtrack_search: fuel") := by
  refine backtrackSearch_fuel_exhausted dq q _ _ inCone hC 41 1 fun k _ hk => ?_
  rw [one_mul]
  exact le_trans default_threshold.2 (pow_le_pow_of_le_one (by norm_num) (by norm_num) hk)

end Clarabel.SolverNS
