/-
  Connects the STRUCTURAL theorems about `Kkt.updateValues` (model of
  `DirectLDLKKTSolver::update`; `KktUpdate.lean`, `KktUpdateSparse.lean`) with the ALGEBRA of
  the sparse expansions (`KktExpansion.lean`):

  the numbers that `updateValues` writes into the KKT value array for a sparse second-order
  cone / a generalised power cone — read back from the result array `nz'` through the index
  vectors `map.Hsblocks`, `map.sparse_maps[i]` — form an expanded block whose Schur complement
  (elimination of the auxiliary variables) is exactly `−mul_Hs`.

  * `updateValues_Hs_entry`          [S]  one `Hs` position after the whole `update`;
  * `updateValues_Hs_block`          [S]  … of the cone `c` in `pre ++ c :: post` (offset
                                          `Σ |get_Hs|` over `pre`);
  * `readAt`, `readFrom`, `readCol`, `placeAt` : the numbers READ BACK from the value array
                                          through an index vector / a vector placed at a row
                                          offset of the block (structural zeros elsewhere);
  * `updateValues_soc_block_values`  [F]  closed form of the five groups of entries of a
                                          sparse SOC (`−η²D`, `−η²v`, `−η²u`, `−η²`, `η²`);
  * `updateValues_soc_schur`         [F]  the block rows built from the read-back numbers
                                          imply `r = −socMulHs η w x`;
  * `updateValues_genpow_block_values`, `updateValues_genpow_schur` [F] (given
        `sqrt μ * sqrt μ = μ`), `updateValues_genpow_schur_real` [R] (`0 ≤ μ`);
  * `socMulHs_eq_mulHsCore`, `neg_mulHsCore_of_schur` [F] : `socMulHs` is the cone model's
        `Soc.mulHsCore` (`mul_Hs` of `socone.rs`);
  * non-vacuity: `exSoc`, `exGenpow` (every hypothesis discharged on a concrete cone list, for
        every `x`) and their `ℝ` instances at the end of the file.
-/
import ClarabelModel.Cones.Soc
import ClarabelProofs.Lemmas.KktExpansion
import ClarabelProofs.Lemmas.KktUpdateSparse
import ClarabelProofs.Lemmas.ScalarInst

namespace Clarabel.Lemmas.KktUpdateSchur
open Clarabel Clarabel.Kkt Clarabel.Lemmas.KktExpansion

-- ------------------------------------------------------------------------------------
-- generalities on lists

/-- a successful `mapM` over `pre ++ c :: post` splits accordingly -/
theorem mapM_append_cons_ok {β γ : Type} (f : β → MErr γ) (pre post : List β) (c : β)
    (blocks bpre : List γ)
    (h : (pre ++ c :: post).mapM f = .ok blocks) (hpre : pre.mapM f = .ok bpre) :
    ∃ b bpost, f c = .ok b ∧ post.mapM f = .ok bpost ∧ blocks = bpre ++ b :: bpost := by
  rw [List.mapM_append, hpre, List.mapM_cons] at h
  obtain ⟨x, hx, h⟩ := except_bind_eq_ok h
  cases hx
  obtain ⟨y, hy, h⟩ := except_bind_eq_ok h
  obtain ⟨b, hb, hy⟩ := except_bind_eq_ok hy
  obtain ⟨bpost, hbp, hy⟩ := except_bind_eq_ok hy
  cases hy
  cases h
  exact ⟨b, bpost, hb, hbp, rfl⟩

/-- … and the `mapM` over the prefix succeeds -/
theorem mapM_prefix_ok {β γ : Type} (f : β → MErr γ) (pre rest : List β) (blocks : List γ)
    (h : (pre ++ rest).mapM f = .ok blocks) : ∃ bpre, pre.mapM f = .ok bpre := by
  rw [List.mapM_append] at h
  obtain ⟨x, hx, _⟩ := except_bind_eq_ok h
  exact ⟨x, hx⟩

/-- entry `k` of block `b` sits at offset `Σ sizes of the earlier blocks` of the flattening -/
theorem flatten_block_getElem {γ : Type} (bpre bpost : List (Array γ)) (b : Array γ) (k : Nat)
    (hk : k < b.size) :
    (((bpre ++ b :: bpost).map Array.toList).flatten)[(bpre.map Array.size).sum + k]?
      = some b[k] := by
  have hlen : ((bpre.map Array.toList).flatten).length = (bpre.map Array.size).sum := by
    rw [List.length_flatten]
    simp [Function.comp_def]
  rw [List.map_append, List.flatten_append, List.getElem?_append_right (by omega), hlen]
  simp [List.getElem?_append_left, hk]

/-- the cone `c` of `pre ++ c :: post` is the sparse cone number `#sparse cones of pre` -/
theorem filter_sparse_getElem {α : Type} (pre post : List (ConeScaling α)) (c : ConeScaling α)
    (hc : c.isSparse = true) :
    ((pre ++ c :: post).filter (fun c => c.isSparse))[(pre.filter (fun c => c.isSparse)).length]?
      = some c := by
  rw [List.filter_append, List.filter_cons_of_pos (by simpa using hc),
    List.getElem?_append_right (Nat.le_refl _)]
  simp

-- ------------------------------------------------------------------------------------
-- [S] one `Hs` position after the whole `update`

section structural
variable {α : Type} [Add α] [Sub α] [Mul α] [Neg α] [OfNat α 0] [OfNat α 1] [FloatLike α]

set_option linter.unusedSectionVars false

/-- [S] position `map.Hsblocks[k]` holds `−(flattened get_Hs)[k]` (form of
`updateValues_frame_and_Hs` without the unused length hypothesis, for a given `blocks`). -/
theorem updateValues_Hs_entry (nz nz' : Array α) (map : LDLDataMap)
    (cones : List (ConeScaling α)) (blocks : List (Array α))
    (hnd : map.Hsblocks.toList.Nodup)
    (hdisj : ∀ mp ∈ map.sparse_maps.toList, ∀ j ∈ mp.indices, j ∉ map.Hsblocks.toList)
    (h : updateValues nz map cones = .ok nz')
    (hb : cones.mapM getHs = .ok blocks)
    (k : Nat) (hk : k < map.Hsblocks.size) (x : α)
    (hx : ((blocks.map Array.toList).flatten)[k]? = some x) :
    nz'[map.Hsblocks[k]]? = some (-x) := by
  obtain ⟨blocks', nz1, r, hb', h1, hr, rfl⟩ := updateValues_inv h
  rw [hb] at hb'
  cases hb'
  obtain ⟨_, hf⟩ := foldlM_sparseStep_frame map cones _ _ hr
  have hmem : ∀ (m : Nat) (mp : SparseMap), map.sparse_maps[m]? = some mp →
      mp ∈ map.sparse_maps.toList := by
    intro m mp hm
    obtain ⟨hlt, he⟩ := Array.getElem?_eq_some_iff.1 hm
    rw [← he]
    simp
  have hkm : map.Hsblocks[k] ∈ map.Hsblocks.toList := by simp
  rw [hf _ (fun m mp _ hm hin => hdisj mp (hmem m mp hm) _ hin hkm)]
  obtain ⟨hk2, hx2⟩ := List.getElem?_eq_some_iff.1 hx
  generalize (List.map Array.toList blocks).flatten = vals at h1 hk2 hx2
  have := updateValuesKKT_write h1 hnd k hk (by simpa using hk2)
  rw [this]
  simp [hx2]

/-- [S] the `Hs` block of the cone `c` in `pre ++ c :: post`: it starts at offset
`Σ |get_Hs of the cones of pre|` of `map.Hsblocks` and holds `−get_Hs c` entry by entry. -/
theorem updateValues_Hs_block (nz nz' : Array α) (map : LDLDataMap)
    (pre post : List (ConeScaling α)) (c : ConeScaling α) (bpre : List (Array α))
    (hnd : map.Hsblocks.toList.Nodup)
    (hdisj : ∀ mp ∈ map.sparse_maps.toList, ∀ j ∈ mp.indices, j ∉ map.Hsblocks.toList)
    (h : updateValues nz map (pre ++ c :: post) = .ok nz')
    (hpre : pre.mapM getHs = .ok bpre) :
    ∃ b, getHs c = .ok b ∧
      ∀ k (hk : k < b.size) (hk2 : (bpre.map Array.size).sum + k < map.Hsblocks.size),
        nz'[map.Hsblocks[(bpre.map Array.size).sum + k]]? = some (-b[k]) := by
  obtain ⟨blocks, _, _, hb, _, _, _⟩ := updateValues_inv h
  obtain ⟨b, bpost, hc, _, rfl⟩ := mapM_append_cons_ok getHs pre post c blocks bpre hb hpre
  refine ⟨b, hc, fun k hk hk2 => ?_⟩
  exact updateValues_Hs_entry nz nz' map _ _ hnd hdisj h hb _ hk2 _
    (flatten_block_getElem bpre bpost b k hk)

/-- `get_Hs` of a sparse second-order cone: `η²·(d, 1, …, 1)` -/
theorem getHs_socSparse (n : Nat) (η d : α) (u v : Array α) :
    getHs (.socSparse (n + 1) η u v d)
      = .ok ((Array.replicate (n + 1) (η * η)).set! 0 (η * η * d)) := by
  simp [getHs]
  rfl

/-- `get_Hs` of a generalised power cone: `μ·(d1, d2, …, d2)` -/
theorem getHs_genpow (μ d2 : α) (p q r d1 : Array α) :
    getHs (.genpow μ p q r d1 d2)
      = .ok (d1.map (fun d => μ * d) ++ Array.replicate r.size (μ * d2)) := rfl

end structural

-- ------------------------------------------------------------------------------------
-- read-back of the written numbers

section readback
variable {α : Type} [Zero α]

/-- the value array read through an index vector: `k ↦ nz[idx[k]]` -/
def readAt (nz : Array α) (idx : Array Nat) {m : ℕ} (k : Fin m) : α :=
  nz.getD (idx.getD k.val 0) 0

/-- the value array read through an index vector from an offset: `k ↦ nz[idx[off + k]]` -/
def readFrom (nz : Array α) (idx : Array Nat) (off : Nat) {m : ℕ} (k : Fin m) : α :=
  nz.getD (idx.getD (off + k.val) 0) 0

theorem readAt_eq {nz : Array α} {idx : Array Nat} {m : ℕ} (k : Fin m) (hk : k.val < idx.size)
    {x : α} (h : nz[idx[k.val]]? = some x) : readAt nz idx k = x := by
  simp [readAt, Array.getD_eq_getD_getElem?, hk, h]

theorem readFrom_eq {nz : Array α} {idx : Array Nat} {off m : ℕ} (k : Fin m)
    (hk : off + k.val < idx.size) {x : α} (h : nz[idx[off + k.val]]? = some x) :
    readFrom nz idx off k = x := by
  simp [readFrom, Array.getD_eq_getD_getElem?, hk, h]

/-- a vector `a` placed at the rows `lo .. lo + |a|` of a block of `m` rows, zero elsewhere
(`csc_fill_colvec(K, a, row + lo, col)`): `k ↦ a[k − lo]` -/
def placeAt (a : Array α) (lo : Nat) {m : ℕ} (k : Fin m) : α :=
  if lo ≤ k.val ∧ k.val < lo + a.size then a.getD (k.val - lo) 0 else 0

/-- the column of the KKT matrix whose entries at the rows `lo .. lo + |idx|` of the block are
stored at the positions `idx` of the value array (structural zeros elsewhere) -/
def readCol (nz : Array α) (idx : Array Nat) (lo : Nat) {m : ℕ} (k : Fin m) : α :=
  placeAt (idx.map (fun j => nz.getD j 0)) lo k

end readback

theorem readCol_eq {α : Type} [MulZeroClass α] {nz : Array α} {idx : Array Nat} {a : Array α}
    {c : α} (hsz : idx.size = a.size)
    (h : ∀ k (hk : k < idx.size), nz[idx[k]]? = some (a[k]'(by omega) * c))
    (lo : Nat) {m : ℕ} (k : Fin m) :
    readCol nz idx lo k = placeAt a lo k * c := by
  unfold readCol placeAt
  simp only [Array.size_map, hsz]
  split
  · rename_i hk
    have hk' : k.val - lo < a.size := by omega
    have := h (k.val - lo) (by omega)
    simp [Array.getD_eq_getD_getElem?, hk', hsz, this]
  · simp

-- ------------------------------------------------------------------------------------
-- [F] second-order cone

section field
variable {α : Type} [Field α] [LinearOrder α] [IsStrictOrderedRing α] [FloatLike α]

set_option linter.unusedSectionVars false

theorem dot_mul_right {m : ℕ} (f x : Fin m → α) (c : α) :
    dot (fun k => f k * c) x = c * dot f x := by
  simp only [dot, Finset.mul_sum]
  exact Finset.sum_congr rfl (fun i _ => by ring)

/-- [F] **the block `update` writes for a sparse second-order cone, in closed form.**
For the cone `.socSparse (n+1) η u v d` at position `pre.length` of the cone list, whose
`u`, `v` are the vectors `socU u0 u1 w1`, `socV v1 w1` of the algebra, the result `nz'` of
`updateValues` holds

* `−η²·D` (`D = diag(d,1,…,1)`) at `map.Hsblocks[boff + k]`, `boff = Σ |get_Hs|` over `pre`,
* `−η²·v` at `mv[k]`, `−η²·u` at `mu[k]` (as `v[k]·(−η²)`, `u[k]·(−η²)`),
* `−η²`, `η²` at `mD[0]`, `mD[1]`,

where `.soc mu mv mD` is the expansion map number `#sparse cones of pre`. -/
theorem updateValues_soc_block_values (nz nz' : Array α) (map : LDLDataMap)
    (pre post : List (ConeScaling α)) (bpre : List (Array α))
    {n : ℕ} {η d : α} {u v : Array α} {mu mv mD : Array Nat}
    {u0 u1 v1 : α} {w1 : Fin n → α}
    (hnd : map.Hsblocks.toList.Nodup)
    (hdisjH : ∀ mp ∈ map.sparse_maps.toList, ∀ j ∈ mp.indices, j ∉ map.Hsblocks.toList)
    (hdisj : SparseMapsDisjoint map.sparse_maps)
    (h : updateValues nz map (pre ++ .socSparse (n + 1) η u v d :: post) = .ok nz')
    (hpre : pre.mapM getHs = .ok bpre)
    (hHs : (bpre.map Array.size).sum + (n + 1) ≤ map.Hsblocks.size)
    (hm : map.sparse_maps[(pre.filter (fun c => c.isSparse)).length]? = some (.soc mu mv mD))
    (hndm : (SparseMap.soc mu mv mD).indices.Nodup)
    (hmu : mu.size = u.size) (hmv : mv.size = v.size) (hmD : mD.size = 2)
    (huk : ∀ k : Fin (n + 1), u[k.val]? = some (socU u0 u1 w1 k))
    (hvk : ∀ k : Fin (n + 1), v[k.val]? = some (socV v1 w1 k)) :
    (∀ k : Fin (n + 1), ∃ hk : (bpre.map Array.size).sum + k.val < map.Hsblocks.size,
        nz'[map.Hsblocks[(bpre.map Array.size).sum + k.val]]? = some (-(η * η * socD d k))) ∧
    (∀ k : Fin (n + 1), ∃ hk : k.val < mv.size,
        nz'[mv[k.val]]? = some (socV v1 w1 k * -(η * η))) ∧
    (∀ k : Fin (n + 1), ∃ hk : k.val < mu.size,
        nz'[mu[k.val]]? = some (socU u0 u1 w1 k * -(η * η))) ∧
    nz'[mD[0]'(by omega)]? = some (-(η * η)) ∧
    nz'[mD[1]'(by omega)]? = some (η * η) := by
  have hc := filter_sparse_getElem pre post (.socSparse (n + 1) η u v d) rfl
  obtain ⟨c1, c2, c3, c4⟩ :=
    updateValues_sparse_entries_soc nz nz' map _ hdisj h hc hm hndm hmu hmv hmD
  obtain ⟨b, hb, hblock⟩ := updateValues_Hs_block nz nz' map pre post _ bpre hnd hdisjH h hpre
  rw [getHs_socSparse] at hb
  cases hb
  refine ⟨fun k => ?_, fun k => ?_, fun k => ?_, c3, c4⟩
  · have hk2 : (bpre.map Array.size).sum + k.val < map.Hsblocks.size := by omega
    refine ⟨hk2, ?_⟩
    rw [hblock k.val (by have := k.isLt; simp; omega) hk2]
    congr 2
    refine Fin.cases ?_ (fun i => ?_) k
    · simp [socD]
    · simp [socD]
  · obtain ⟨hk, hx⟩ := Array.getElem?_eq_some_iff.1 (hvk k)
    refine ⟨by omega, ?_⟩
    rw [c2 k.val (by omega), hx]
  · obtain ⟨hk, hx⟩ := Array.getElem?_eq_some_iff.1 (huk k)
    refine ⟨by omega, ?_⟩
    rw [c1 k.val (by omega), hx]

/-- [F] **`update` writes a block whose Schur complement is `−mul_Hs`** (second-order cone
in sparse form).  `Dv, Vv, Uv, dv, du` are the numbers READ BACK from the result `nz'` of
`updateValues` through the index vectors of the data map; if `(x, a, b)` satisfies the three
block rows of the expanded system with these numbers, then the cone rows say
`r = −η²(2ww' − J)x`, i.e. `−mul_Hs x`. -/
theorem updateValues_soc_schur (nz nz' : Array α) (map : LDLDataMap)
    (pre post : List (ConeScaling α)) (bpre : List (Array α))
    {n : ℕ} {η d : α} {u v : Array α} {mu mv mD : Array Nat}
    {w0 u0 u1 v1 : α} {w1 : Fin n → α}
    (hnd : map.Hsblocks.toList.Nodup)
    (hdisjH : ∀ mp ∈ map.sparse_maps.toList, ∀ j ∈ mp.indices, j ∉ map.Hsblocks.toList)
    (hdisj : SparseMapsDisjoint map.sparse_maps)
    (h : updateValues nz map (pre ++ .socSparse (n + 1) η u v d :: post) = .ok nz')
    (hpre : pre.mapM getHs = .ok bpre)
    (hHs : (bpre.map Array.size).sum + (n + 1) ≤ map.Hsblocks.size)
    (hm : map.sparse_maps[(pre.filter (fun c => c.isSparse)).length]? = some (.soc mu mv mD))
    (hndm : (SparseMap.soc mu mv mD).indices.Nodup)
    (hmu : mu.size = u.size) (hmv : mv.size = v.size) (hmD : mD.size = 2)
    (huk : ∀ k : Fin (n + 1), u[k.val]? = some (socU u0 u1 w1 k))
    (hvk : ∀ k : Fin (n + 1), v[k.val]? = some (socV v1 w1 k))
    (hs : SocSparse w0 w1 d u0 u1 v1) (hη : η ≠ 0)
    (x r : Fin (n + 1) → α) (a b : α)
    (hrow : ∀ k, readFrom nz' map.Hsblocks (bpre.map Array.size).sum k * x k
        + readAt nz' mv k * a + readAt nz' mu k * b = r k)
    (hrowv : dot (readAt nz' mv) x + nz'.getD (mD.getD 0 0) 0 * a = 0)
    (hrowu : dot (readAt nz' mu) x + nz'.getD (mD.getD 1 0) 0 * b = 0) :
    ∀ k, r k = -(socMulHs η (socW w0 w1) x k) := by
  obtain ⟨b1, b2, b3, b4, b5⟩ := updateValues_soc_block_values nz nz' map pre post bpre
    hnd hdisjH hdisj h hpre hHs hm hndm hmu hmv hmD huk hvk
  have eD : ∀ k : Fin (n + 1),
      readFrom nz' map.Hsblocks (bpre.map Array.size).sum k = -(η * η * socD d k) :=
    fun k => readFrom_eq k (b1 k).1 (b1 k).2
  have eV : (readAt nz' mv : Fin (n + 1) → α) = fun k => socV v1 w1 k * -(η * η) :=
    funext fun k => readAt_eq k (b2 k).1 (b2 k).2
  have eU : (readAt nz' mu : Fin (n + 1) → α) = fun k => socU u0 u1 w1 k * -(η * η) :=
    funext fun k => readAt_eq k (b3 k).1 (b3 k).2
  have edv : nz'.getD (mD.getD 0 0) 0 = -(η * η) := by
    simp [Array.getD_eq_getD_getElem?, hmD, b4]
  have edu : nz'.getD (mD.getD 1 0) 0 = η * η := by
    simp [Array.getD_eq_getD_getElem?, hmD, b5]
  rw [eV, dot_mul_right, edv] at hrowv
  rw [eU, dot_mul_right, edu] at hrowu
  refine soc_schur_solve two_ne_zero hs hη x r a b (fun k => ?_) hrowv hrowu
  have := hrow k
  rw [eD, eV, eU] at this
  rw [← this]
  ring

-- ------------------------------------------------------------------------------------
-- [F] generalised power cone

/-- the diagonal `D = (d1, d2, …, d2)` of the generalised power cone -/
def genpowD (d1 : Array α) (d2 : α) {m : ℕ} (k : Fin m) : α :=
  if h : k.val < d1.size then d1[k.val] else d2

/-- [F] **the block `update` writes for a generalised power cone, in closed form.**
The cone `.genpow μ p q r d1 d2` (`dim1 = |d1|`, `dim2 = |r|`) sits at position `pre.length` of
the cone list.  The result `nz'` of `updateValues` holds `−μ·D` at its `Hs` positions, the
three off-diagonal columns are `−√μ·q` (rows `0 .. |q|`), `−√μ·r` (rows `dim1 .. dim1 + |r|`),
`−√μ·p` (rows `0 .. |p|`) and the diagonal of the auxiliary variables is `−1, −1, +1`. -/
theorem updateValues_genpow_block_values (nz nz' : Array α) (map : LDLDataMap)
    (pre post : List (ConeScaling α)) (bpre : List (Array α))
    {μ d2 : α} {p q r d1 : Array α} {mp mq mr mD : Array Nat}
    (hnd : map.Hsblocks.toList.Nodup)
    (hdisjH : ∀ mp ∈ map.sparse_maps.toList, ∀ j ∈ mp.indices, j ∉ map.Hsblocks.toList)
    (hdisj : SparseMapsDisjoint map.sparse_maps)
    (h : updateValues nz map (pre ++ .genpow μ p q r d1 d2 :: post) = .ok nz')
    (hpre : pre.mapM getHs = .ok bpre)
    (hHs : (bpre.map Array.size).sum + (d1.size + r.size) ≤ map.Hsblocks.size)
    (hm : map.sparse_maps[(pre.filter (fun c => c.isSparse)).length]?
      = some (.genpow mp mq mr mD))
    (hndm : (SparseMap.genpow mp mq mr mD).indices.Nodup)
    (hmp : mp.size = p.size) (hmq : mq.size = q.size) (hmr : mr.size = r.size)
    (hmD : mD.size = 3) :
    (∀ k : Fin (d1.size + r.size),
        ∃ hk : (bpre.map Array.size).sum + k.val < map.Hsblocks.size,
        nz'[map.Hsblocks[(bpre.map Array.size).sum + k.val]]?
          = some (-(μ * genpowD d1 d2 k))) ∧
    (∀ {m : ℕ} (k : Fin m), readCol nz' mq 0 k = placeAt q 0 k * -(sqrt μ)) ∧
    (∀ {m : ℕ} (k : Fin m), readCol nz' mr d1.size k = placeAt r d1.size k * -(sqrt μ)) ∧
    (∀ {m : ℕ} (k : Fin m), readCol nz' mp 0 k = placeAt p 0 k * -(sqrt μ)) ∧
    nz'[mD[0]'(by omega)]? = some (-1) ∧
    nz'[mD[1]'(by omega)]? = some (-1) ∧
    nz'[mD[2]'(by omega)]? = some 1 := by
  have hc := filter_sparse_getElem pre post (.genpow μ p q r d1 d2) rfl
  obtain ⟨c1, c2, c3, c4, c5, c6⟩ :=
    updateValues_sparse_entries_genpow nz nz' map _ hdisj h hc hm hndm hmp hmq hmr hmD
  obtain ⟨b, hb, hblock⟩ := updateValues_Hs_block nz nz' map pre post _ bpre hnd hdisjH h hpre
  rw [getHs_genpow] at hb
  cases hb
  refine ⟨fun k => ?_, fun k => readCol_eq hmq c1 0 k, fun k => readCol_eq hmr c2 _ k,
    fun k => readCol_eq hmp c3 0 k, c4, c5, c6⟩
  have hk2 : (bpre.map Array.size).sum + k.val < map.Hsblocks.size := by omega
  refine ⟨hk2, ?_⟩
  rw [hblock k.val (by have := k.isLt; simp) hk2]
  congr 2
  unfold genpowD
  rw [Array.getElem_append]
  split
  · rename_i hlt
    have hlt' : k.val < d1.size := by simpa using hlt
    simp [hlt']
  · rename_i hge
    have hge' : ¬ k.val < d1.size := by simpa using hge
    simp [hge']

/-- [F] **`update` writes a block whose Schur complement is `−mul_Hs`** (generalised power
cone), given `√μ·√μ = μ`.  The columns `Qv, Rv, Pv` and the diagonal entries are READ BACK from
the result `nz'` of `updateValues` through the index vectors of the data map, with the layout
of the assembly: the `q` column covers the first rows of the cone, the `r` column the rows from
`dim1 = |d1|` on, the `p` column all rows (`readCol`; structural zeros elsewhere).  If
`(x, a, b, c)` satisfies the four block rows of the expanded system, then the cone rows say
`rhs = −μ(D + pp' − q̃q̃' − r̃r̃')x` where `q̃`, `r̃` are `q`, `r` extended by zeros — which is what
`mul_Hs` computes (`dot q x[..dim1]`, `dot r x[dim1..]`; in the solver `|q| = dim1`,
`|p| = dim1 + dim2`). -/
theorem updateValues_genpow_schur (nz nz' : Array α) (map : LDLDataMap)
    (pre post : List (ConeScaling α)) (bpre : List (Array α))
    {μ d2 : α} {p q r d1 : Array α} {mp mq mr mD : Array Nat}
    (hnd : map.Hsblocks.toList.Nodup)
    (hdisjH : ∀ mp ∈ map.sparse_maps.toList, ∀ j ∈ mp.indices, j ∉ map.Hsblocks.toList)
    (hdisj : SparseMapsDisjoint map.sparse_maps)
    (h : updateValues nz map (pre ++ .genpow μ p q r d1 d2 :: post) = .ok nz')
    (hpre : pre.mapM getHs = .ok bpre)
    (hHs : (bpre.map Array.size).sum + (d1.size + r.size) ≤ map.Hsblocks.size)
    (hm : map.sparse_maps[(pre.filter (fun c => c.isSparse)).length]?
      = some (.genpow mp mq mr mD))
    (hndm : (SparseMap.genpow mp mq mr mD).indices.Nodup)
    (hmp : mp.size = p.size) (hmq : mq.size = q.size) (hmr : mr.size = r.size)
    (hmD : mD.size = 3)
    (hsm : sqrt μ * sqrt μ = μ)
    (x rhs : Fin (d1.size + r.size) → α) (a b c : α)
    (hrow : ∀ k, readFrom nz' map.Hsblocks (bpre.map Array.size).sum k * x k
        + readCol nz' mq 0 k * a + readCol nz' mr d1.size k * b + readCol nz' mp 0 k * c
        = rhs k)
    (hrowq : dot (readCol nz' mq 0) x + nz'.getD (mD.getD 0 0) 0 * a = 0)
    (hrowr : dot (readCol nz' mr d1.size) x + nz'.getD (mD.getD 1 0) 0 * b = 0)
    (hrowp : dot (readCol nz' mp 0) x + nz'.getD (mD.getD 2 0) 0 * c = 0) :
    ∀ k, rhs k = -(genpowMulHs μ (genpowD d1 d2) (placeAt p 0) (placeAt q 0)
      (placeAt r d1.size) x k) := by
  obtain ⟨b1, b2, b3, b4, b5, b6, b7⟩ := updateValues_genpow_block_values nz nz' map pre post
    bpre hnd hdisjH hdisj h hpre hHs hm hndm hmp hmq hmr hmD
  have eD : ∀ k : Fin (d1.size + r.size),
      readFrom nz' map.Hsblocks (bpre.map Array.size).sum k = -(μ * genpowD d1 d2 k) :=
    fun k => readFrom_eq k (b1 k).1 (b1 k).2
  have eQ : (readCol nz' mq 0 : Fin (d1.size + r.size) → α)
      = fun k => placeAt q 0 k * -(sqrt μ) := funext fun k => b2 k
  have eR : (readCol nz' mr d1.size : Fin (d1.size + r.size) → α)
      = fun k => placeAt r d1.size k * -(sqrt μ) := funext fun k => b3 k
  have eP : (readCol nz' mp 0 : Fin (d1.size + r.size) → α)
      = fun k => placeAt p 0 k * -(sqrt μ) := funext fun k => b4 k
  have e0 : nz'.getD (mD.getD 0 0) 0 = -1 := by
    simp [Array.getD_eq_getD_getElem?, hmD, b5]
  have e1 : nz'.getD (mD.getD 1 0) 0 = -1 := by
    simp [Array.getD_eq_getD_getElem?, hmD, b6]
  have e2 : nz'.getD (mD.getD 2 0) 0 = 1 := by
    simp [Array.getD_eq_getD_getElem?, hmD, b7]
  rw [eQ, dot_mul_right, e0] at hrowq
  rw [eR, dot_mul_right, e1] at hrowr
  rw [eP, dot_mul_right, e2] at hrowp
  refine genpow_schur_solve hsm _ _ _ _ x rhs a b c (fun k => ?_) hrowq hrowr hrowp
  have := hrow k
  rw [eD, eQ, eR, eP] at this
  rw [← this]
  ring

-- ------------------------------------------------------------------------------------
-- [F] `socMulHs` is the cone model's `mul_Hs`

theorem foldl_zip_ofFn {n : ℕ} (f g : Fin n → α) (init : α) :
    ((List.ofFn f).zip (List.ofFn g)).foldl (fun acc p => acc + p.1 * p.2) init
      = init + ∑ i, f i * g i := by
  induction n generalizing init with
  | zero => simp
  | succ n ih =>
    rw [List.ofFn_succ, List.ofFn_succ, List.zip_cons_cons, List.foldl_cons, ih,
      Fin.sum_univ_succ]
    ring

theorem vecdot_join_ofFn {n : ℕ} (a0 b0 : α) (a b : Fin n → α) :
    Vec.dot (Soc.join a0 (List.ofFn a)) (Soc.join b0 (List.ofFn b))
      = a0 * b0 + ∑ i, a i * b i := by
  unfold Vec.dot Soc.join
  simp only [List.zip_cons_cons, List.foldl_cons]
  rw [foldl_zip_ofFn]
  ring

/-- [F] the algebraic `socMulHs η w x` of `KktExpansion.lean` is, entry by entry, what the
cone model's `Soc.mulHsCore` (`mul_Hs` of `socone.rs` on `x = (x0, x1)`, `w = (w0, w1)`)
computes over a field. -/
theorem socMulHs_eq_mulHsCore {n : ℕ} (η w0 x0 : α) (w1 x1 : Fin n → α) :
    Soc.mulHsCore x0 (List.ofFn x1) w0 (List.ofFn w1) η
      = (socMulHs η (socW w0 w1) (Fin.cons x0 x1) 0,
         List.ofFn (fun i : Fin n => socMulHs η (socW w0 w1) (Fin.cons x0 x1) i.succ)) := by
  unfold Soc.mulHsCore
  simp only [vecdot_join_ofFn, Soc.two]
  refine Prod.ext ?_ ?_
  · simp only [socMulHs, dot_socW]
    simp only [socW, socJ, Fin.cons_zero, Fin.cons_succ]
    ring
  · apply List.ext_getElem
    · simp
    · intro i h1 h2
      simp only [List.getElem_zipWith, List.getElem_ofFn, socMulHs, dot_socW]
      simp only [socW, socJ, Fin.cons_zero, Fin.cons_succ]
      ring

/-- [F] the conclusion of `updateValues_soc_schur` read as a statement about the cone model's
`mul_Hs`: `r = −mulHsCore x`. -/
theorem neg_mulHsCore_of_schur {n : ℕ} (η w0 x0 : α) (w1 x1 : Fin n → α)
    (r : Fin (n + 1) → α)
    (h : ∀ k, r k = -(socMulHs η (socW w0 w1) (Fin.cons x0 x1) k)) :
    r 0 = -(Soc.mulHsCore x0 (List.ofFn x1) w0 (List.ofFn w1) η).1 ∧
    List.ofFn (fun i : Fin n => r i.succ)
      = (Soc.mulHsCore x0 (List.ofFn x1) w0 (List.ofFn w1) η).2.map (fun y => -y) := by
  rw [socMulHs_eq_mulHsCore]
  refine ⟨h 0, ?_⟩
  apply List.ext_getElem
  · simp
  · intro i h1 h2
    simp [h]

-- ------------------------------------------------------------------------------------
-- non-vacuity: concrete instances in which every hypothesis holds

def exMap : LDLDataMap :=
  { P := #[], A := #[], Hsblocks := #[0, 1, 2],
    sparse_maps := #[.soc #[3, 4] #[5, 6] #[7, 8]], diagP := #[], diag_full := #[] }

theorem exUpdate (t η d a0 a1 b0 b1 : α) :
    updateValues (#[0, 0, 0, 0, 0, 0, 0, 0, 0] : Array α) exMap
      [.nonneg #[t], .socSparse 2 η #[a0, a1] #[b0, b1] d]
      = .ok #[-(t * t), -(η * η * d), -(η * η), a0 * -(η * η), a1 * -(η * η),
          b0 * -(η * η), b1 * -(η * η), -(η * η), η * η] := by
  simp [updateValues, getHs, updateValuesKKT, scaleValuesKKT, updateSparsecone, exMap,
    ConeScaling.isSparse, setE, getE, pure, Except.pure, bind, Except.bind]

/-- non-vacuity of `updateValues_soc_schur` / `updateValues_soc_block_values`: cone list
`[nonneg, sparse SOC of dimension 2]` (so `pre ≠ []`, block offset 1), a 9-entry value array;
for EVERY `x` there are `a, b, r` such that all hypotheses hold simultaneously (given
`SocSparse`, which is non-vacuous by `soc_sparse_real`, see the `ℝ` instance below). -/
theorem exSoc {w0 d u0 u1 v1 η t : α} {w1 : Fin 1 → α}
    (hs : SocSparse w0 w1 d u0 u1 v1) (hη : η ≠ 0) (x : Fin 2 → α) :
    ∃ (nz' : Array α) (a b : α) (r : Fin 2 → α),
      updateValues (#[0, 0, 0, 0, 0, 0, 0, 0, 0] : Array α) exMap
        [.nonneg #[t], .socSparse 2 η #[socU u0 u1 w1 0, socU u0 u1 w1 1]
          #[socV v1 w1 0, socV v1 w1 1] d] = .ok nz' ∧
      (∀ k, readFrom nz' exMap.Hsblocks 1 k * x k + readAt nz' #[5, 6] k * a
        + readAt nz' #[3, 4] k * b = r k) ∧
      dot (readAt nz' #[5, 6]) x + nz'.getD 7 0 * a = 0 ∧
      dot (readAt nz' #[3, 4]) x + nz'.getD 8 0 * b = 0 ∧
      ∀ k, r k = -(socMulHs η (socW w0 w1) x k) := by
  have hv : dot (readAt #[-(t * t), -(η * η * d), -(η * η), socU u0 u1 w1 0 * -(η * η),
          socU u0 u1 w1 1 * -(η * η), socV v1 w1 0 * -(η * η), socV v1 w1 1 * -(η * η),
          -(η * η), η * η] #[5, 6]) x
      + -(η * η) * -dot (socV v1 w1) x = 0 := by
    simp [dot, Fin.sum_univ_two, readAt]
    ring
  have hu : dot (readAt #[-(t * t), -(η * η * d), -(η * η), socU u0 u1 w1 0 * -(η * η),
          socU u0 u1 w1 1 * -(η * η), socV v1 w1 0 * -(η * η), socV v1 w1 1 * -(η * η),
          -(η * η), η * η] #[3, 4]) x
      + (η * η) * dot (socU u0 u1 w1) x = 0 := by
    simp [dot, Fin.sum_univ_two, readAt]
    ring
  refine ⟨_, -dot (socV v1 w1) x, dot (socU u0 u1 w1) x, _, exUpdate .., fun _ => rfl,
    hv, hu, ?_⟩
  exact updateValues_soc_schur _ _ exMap [.nonneg #[t]] [] [#[t * t]]
    (mu := #[3, 4]) (mv := #[5, 6]) (mD := #[7, 8]) (w0 := w0) (w1 := w1) (u0 := u0)
    (u1 := u1) (v1 := v1)
    (by decide) (by decide) (sparseMapsDisjoint_of_pairwise _ (by decide)) (exUpdate ..)
    (by simp [getHs, pure, Except.pure, bind, Except.bind]) (by simp [exMap]) (by rfl)
    (by decide) rfl rfl rfl
    (by simp [Fin.forall_fin_two]) (by simp [Fin.forall_fin_two]) hs hη x _ _ _
    (fun _ => rfl) hv hu

def exMapG : LDLDataMap :=
  { P := #[], A := #[], Hsblocks := #[0, 1, 2, 3],
    sparse_maps := #[.genpow #[4, 5, 6] #[7, 8] #[9] #[10, 11, 12]],
    diagP := #[], diag_full := #[] }

theorem exUpdateG (t μ d2 p0 p1 p2 q0 q1 r0 e0 e1 : α) :
    updateValues (#[0, 0, 0, 0, 0, 0, 0, 0, 0, 0, 0, 0, 0] : Array α) exMapG
      [.nonneg #[t], .genpow μ #[p0, p1, p2] #[q0, q1] #[r0] #[e0, e1] d2]
      = .ok #[-(t * t), -(μ * e0), -(μ * e1), -(μ * d2), p0 * -(sqrt μ), p1 * -(sqrt μ),
          p2 * -(sqrt μ), q0 * -(sqrt μ), q1 * -(sqrt μ), r0 * -(sqrt μ), -1, -1, 1] := by
  simp [updateValues, getHs, updateValuesKKT, scaleValuesKKT, updateSparsecone, exMapG,
    ConeScaling.isSparse, setE, getE, pure, Except.pure, bind, Except.bind]

/-- non-vacuity of `updateValues_genpow_schur` / `updateValues_genpow_block_values`: cone list
`[nonneg, genpow with dim1 = 2, dim2 = 1]`, a 13-entry value array; for every `x` there are
`a, b, c, rhs` such that all hypotheses hold simultaneously (given `√μ·√μ = μ`). -/
theorem exGenpow {t μ d2 p0 p1 p2 q0 q1 r0 e0 e1 : α} (hsm : sqrt μ * sqrt μ = μ)
    (x : Fin 3 → α) :
    ∃ (nz' : Array α) (a b c : α) (rhs : Fin 3 → α),
      updateValues (#[0, 0, 0, 0, 0, 0, 0, 0, 0, 0, 0, 0, 0] : Array α) exMapG
        [.nonneg #[t], .genpow μ #[p0, p1, p2] #[q0, q1] #[r0] #[e0, e1] d2] = .ok nz' ∧
      (∀ k, readFrom nz' exMapG.Hsblocks 1 k * x k + readCol nz' #[7, 8] 0 k * a
        + readCol nz' #[9] 2 k * b + readCol nz' #[4, 5, 6] 0 k * c = rhs k) ∧
      dot (readCol nz' #[7, 8] 0) x + nz'.getD 10 0 * a = 0 ∧
      dot (readCol nz' #[9] 2) x + nz'.getD 11 0 * b = 0 ∧
      dot (readCol nz' #[4, 5, 6] 0) x + nz'.getD 12 0 * c = 0 ∧
      ∀ k, rhs k = -(genpowMulHs μ (genpowD #[e0, e1] d2) (placeAt #[p0, p1, p2] 0)
        (placeAt #[q0, q1] 0) (placeAt #[r0] 2) x k) := by
  have hq : dot (readCol #[-(t * t), -(μ * e0), -(μ * e1), -(μ * d2), p0 * -(sqrt μ),
          p1 * -(sqrt μ), p2 * -(sqrt μ), q0 * -(sqrt μ), q1 * -(sqrt μ), r0 * -(sqrt μ),
          -1, -1, 1] #[7, 8] 0) x
      + (-1) * (-(sqrt μ) * (q0 * x 0 + q1 * x 1)) = 0 := by
    simp [dot, Fin.sum_univ_three, readCol, placeAt]
    ring
  have hr : dot (readCol #[-(t * t), -(μ * e0), -(μ * e1), -(μ * d2), p0 * -(sqrt μ),
          p1 * -(sqrt μ), p2 * -(sqrt μ), q0 * -(sqrt μ), q1 * -(sqrt μ), r0 * -(sqrt μ),
          -1, -1, 1] #[9] 2) x
      + (-1) * (-(sqrt μ) * (r0 * x 2)) = 0 := by
    simp [dot, Fin.sum_univ_three, readCol, placeAt]
    ring
  have hp : dot (readCol #[-(t * t), -(μ * e0), -(μ * e1), -(μ * d2), p0 * -(sqrt μ),
          p1 * -(sqrt μ), p2 * -(sqrt μ), q0 * -(sqrt μ), q1 * -(sqrt μ), r0 * -(sqrt μ),
          -1, -1, 1] #[4, 5, 6] 0) x
      + 1 * (sqrt μ * (p0 * x 0 + p1 * x 1 + p2 * x 2)) = 0 := by
    simp [dot, Fin.sum_univ_three, readCol, placeAt]
    ring
  refine ⟨_, _, _, _, _, exUpdateG .., fun _ => rfl, hq, hr, hp, ?_⟩
  exact updateValues_genpow_schur _ _ exMapG [.nonneg #[t]] [] [#[t * t]]
    (mp := #[4, 5, 6]) (mq := #[7, 8]) (mr := #[9]) (mD := #[10, 11, 12])
    (by decide) (by decide) (sparseMapsDisjoint_of_pairwise _ (by decide)) (exUpdateG ..)
    (by simp [getHs, pure, Except.pure, bind, Except.bind]) (by simp [exMapG]) (by rfl)
    (by decide) rfl rfl rfl rfl hsm x _ _ _ _ (fun _ => rfl) hq hr hp

end field

-- ------------------------------------------------------------------------------------
-- [R] over the reals

/-- [R] `updateValues_genpow_schur` over `ℝ` (`sqrt = Real.sqrt`): `0 ≤ μ` suffices. -/
theorem updateValues_genpow_schur_real (nz nz' : Array ℝ) (map : LDLDataMap)
    (pre post : List (ConeScaling ℝ)) (bpre : List (Array ℝ))
    {μ d2 : ℝ} {p q r d1 : Array ℝ} {mp mq mr mD : Array Nat}
    (hnd : map.Hsblocks.toList.Nodup)
    (hdisjH : ∀ mp ∈ map.sparse_maps.toList, ∀ j ∈ mp.indices, j ∉ map.Hsblocks.toList)
    (hdisj : SparseMapsDisjoint map.sparse_maps)
    (h : updateValues nz map (pre ++ .genpow μ p q r d1 d2 :: post) = .ok nz')
    (hpre : pre.mapM getHs = .ok bpre)
    (hHs : (bpre.map Array.size).sum + (d1.size + r.size) ≤ map.Hsblocks.size)
    (hm : map.sparse_maps[(pre.filter (fun c => c.isSparse)).length]?
      = some (.genpow mp mq mr mD))
    (hndm : (SparseMap.genpow mp mq mr mD).indices.Nodup)
    (hmp : mp.size = p.size) (hmq : mq.size = q.size) (hmr : mr.size = r.size)
    (hmD : mD.size = 3)
    (hμ : 0 ≤ μ)
    (x rhs : Fin (d1.size + r.size) → ℝ) (a b c : ℝ)
    (hrow : ∀ k, readFrom nz' map.Hsblocks (bpre.map Array.size).sum k * x k
        + readCol nz' mq 0 k * a + readCol nz' mr d1.size k * b + readCol nz' mp 0 k * c
        = rhs k)
    (hrowq : dot (readCol nz' mq 0) x + nz'.getD (mD.getD 0 0) 0 * a = 0)
    (hrowr : dot (readCol nz' mr d1.size) x + nz'.getD (mD.getD 1 0) 0 * b = 0)
    (hrowp : dot (readCol nz' mp 0) x + nz'.getD (mD.getD 2 0) 0 * c = 0) :
    ∀ k, rhs k = -(genpowMulHs μ (genpowD d1 d2) (placeAt p 0) (placeAt q 0)
      (placeAt r d1.size) x k) :=
  updateValues_genpow_schur nz nz' map pre post bpre hnd hdisjH hdisj h hpre hHs hm hndm
    hmp hmq hmr hmD (Real.mul_self_sqrt hμ) x rhs a b c hrow hrowq hrowr hrowp

/-- non-vacuity of `updateValues_soc_schur` over `ℝ`, nothing assumed: `w = (5/4, 3/4)`,
`η = 2`, `d, u0, u1, v1` the square-root formulas of `update_scaling`. -/
example (x : Fin 2 → ℝ) :
    ∃ (d u0 u1 v1 : ℝ) (nz' : Array ℝ) (a b : ℝ) (r : Fin 2 → ℝ),
      SocSparse (n := 1) (5 / 4 : ℝ) (fun _ => 3 / 4) d u0 u1 v1 ∧
      updateValues (#[0, 0, 0, 0, 0, 0, 0, 0, 0] : Array ℝ) exMap
        [.nonneg #[3], .socSparse 2 2
          #[socU u0 u1 (fun _ : Fin 1 => 3 / 4) 0, socU u0 u1 (fun _ : Fin 1 => 3 / 4) 1]
          #[socV v1 (fun _ : Fin 1 => 3 / 4) 0, socV v1 (fun _ : Fin 1 => 3 / 4) 1] d]
        = .ok nz' ∧
      (∀ k, readFrom nz' exMap.Hsblocks 1 k * x k + readAt nz' #[5, 6] k * a
        + readAt nz' #[3, 4] k * b = r k) ∧
      dot (readAt nz' #[5, 6]) x + nz'.getD 7 0 * a = 0 ∧
      dot (readAt nz' #[3, 4]) x + nz'.getD 8 0 * b = 0 ∧
      ∀ k, r k = -(socMulHs 2 (socW (5 / 4) (fun _ => 3 / 4)) x k) := by
  have hs := soc_sparse_real (n := 1) (5 / 4 : ℝ) (fun _ => 3 / 4) (by simp [dot]; norm_num)
  obtain ⟨nz', a, b, r, h⟩ := exSoc (t := 3) hs two_ne_zero x
  exact ⟨_, _, _, _, nz', a, b, r, hs, h⟩

/-- non-vacuity of `updateValues_genpow_schur(_real)` over `ℝ`, nothing assumed (`μ = 4`). -/
example (x : Fin 3 → ℝ) :
    ∃ (nz' : Array ℝ) (a b c : ℝ) (rhs : Fin 3 → ℝ),
      updateValues (#[0, 0, 0, 0, 0, 0, 0, 0, 0, 0, 0, 0, 0] : Array ℝ) exMapG
        [.nonneg #[3], .genpow 4 #[1, 2, 3] #[4, 5] #[6] #[7, 8] 9] = .ok nz' ∧
      (∀ k, readFrom nz' exMapG.Hsblocks 1 k * x k + readCol nz' #[7, 8] 0 k * a
        + readCol nz' #[9] 2 k * b + readCol nz' #[4, 5, 6] 0 k * c = rhs k) ∧
      dot (readCol nz' #[7, 8] 0) x + nz'.getD 10 0 * a = 0 ∧
      dot (readCol nz' #[9] 2) x + nz'.getD 11 0 * b = 0 ∧
      dot (readCol nz' #[4, 5, 6] 0) x + nz'.getD 12 0 * c = 0 ∧
      ∀ k, rhs k = -(genpowMulHs 4 (genpowD #[7, 8] 9) (placeAt #[1, 2, 3] 0)
        (placeAt #[4, 5] 0) (placeAt #[6] 2) x k) :=
  exGenpow (Real.mul_self_sqrt (by norm_num)) x

end Clarabel.Lemmas.KktUpdateSchur
