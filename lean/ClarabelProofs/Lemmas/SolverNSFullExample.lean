/-
  Composition on the whole-solver model WITH NONSYMMETRIC CONES — non-vacuity material for the
  end-to-end theorems `C01.ns_full_*`, `C02.ns_full_*`, `C03.ns_full_*` (counterpart of
  `Lemmas/SolverFullExample.lean`).

  (a) over ℝ: the instance `min x  s.t.  x + s₀ = 1, s₀ ≥ 0, (s₁,s₂,s₃) = (−1,1,3) ∈ K_exp,
      (s₄,s₅,s₆) = (1,1,1) ∈ K_pow(1/2)` (one variable, `cones = [nonneg 1, exp, pow (1/2)]`, seven rows)
      satisfies the input hypotheses `Solver.InputOK`, `InputOKN`, `Equil.ValidCones`; the settings record
      `stR` (the defaults of `DefaultSettings`, presolve off) satisfies every numeric side condition.
  (b) at `Int`, evaluated by the kernel: on a problem with an exponential cone (`SolverNSExample.lean`)
      `new` succeeds, `solve()` returns, and the reported status is — depending on the tolerances, the
      iteration budget and `b` — `Solved`, `AlmostSolved`, `PrimalInfeasible`, `AlmostPrimalInfeasible`
      (four kernel evaluations here), `MaxIterations`, `InsufficientProgress` (re-exported from
      `SolverNSExample.run1`, `run3`, no new evaluation).

  `DualInfeasible` / `AlmostDualInfeasible` are NOT reached at `Int`: `is_dual_infeasible` needs
  `⟨q,x⟩ < −tol` and `res_dual_inf < −tol·⟨q,x⟩`, i.e. `x ≠ 0`; with a nonsymmetric cone
  `unit_initialization` starts at `x = 0`, and in integer arithmetic (16-digit mantissas of the
  exponential cone's unit point, integer LDL) no data tried gives an accepted first step.
-/
import ClarabelProofs.Lemmas.SolverNSFullNew
import ClarabelProofs.Lemmas.SolverNSExample
import ClarabelProofs.Lemmas.EquilComposite
import Mathlib.Tactic.NormNum

namespace Clarabel.SolverNS.FullExample
open Clarabel Clarabel.SolverNS

/-! ### (a) over ℝ -/

/-- `min x  s.t.  A x + s = b`, `A = e₀` (7 × 1), `s ∈ ℝ₊ × K_exp × K_pow(1/2)` -/
noncomputable def P : Csc ℝ := ⟨1, 1, #[0, 0], #[], #[]⟩
noncomputable def A : Csc ℝ := ⟨7, 1, #[0, 1], #[0], #[1]⟩
noncomputable def q : Array ℝ := #[1]
noncomputable def b : Array ℝ := #[1, -1, 1, 3, 1, 1, 1]
/-- a nonnegative cone, an exponential cone and a power cone with exponent `1/2` -/
noncomputable def cones : List (ConeT ℝ) := [.nonneg 1, .exp, .pow (1 / 2)]

theorem inputOK : Solver.InputOK P q A b cones :=
  ⟨⟨C16.check_format_canonical _ (by rfl), rfl⟩, rfl, ⟨C16.check_format_canonical _ (by rfl), rfl⟩,
    rfl, rfl, rfl, rfl⟩

/-- the input also passes the construction guards of the NS model (there is no generalised power cone) -/
theorem inputOKN : InputOKN P q A b cones := by
  refine ⟨inputOK, ?_⟩
  intro al d2 hm
  simp [cones] at hm

theorem validCones : Equil.ValidCones cones := by
  intro c hc
  simp only [cones, List.mem_cons, List.not_mem_nil, or_false] at hc
  rcases hc with rfl | rfl | rfl
  · trivial
  · trivial
  · show (0 : ℝ) < 1 / 2 ∧ (1 / 2 : ℝ) < 1
    constructor <;> norm_num

/-- `P` is (trivially) upper triangular: `to_triu` is skipped -/
theorem P_isTriu : P.isTriu = true := by rfl

/-- the defaults of `DefaultSettings` (tolerances, `max_iter = 200`, `max_step_fraction = 0.99`,
equilibration bounds `1e-4 … 1e4`, `min_switch_step_length = 0.1`, `linesearch_backtrack_step = 0.8`),
presolve off -/
noncomputable def stR : Settings ℝ :=
  { info :=
      { full := ⟨1 / 100000000, 1 / 100000000, 1 / 100000000, 1 / 100000000, 1 / 100000000, 1 / 1000000⟩,
        reduced := ⟨5 / 100000, 5 / 100000, 1 / 10000, 5 / 100000, 5 / 100000, 1 / 10000⟩,
        max_iter := 200 },
    maxStepFraction := 99 / 100,
    minTerminateStepLength := 1 / 10000,
    equil := { enable := true, maxIter := 10, minScaling := 1 / 10000, maxScaling := 10000 },
    lin := { staticRegEnable := true, staticRegConstant := 1 / 100000000,
             staticRegProportional := 1 / 1000000000000000000000000000000,
             dynRegEps := 1 / 10000000000000, dynRegDelta := 2 / 10000000,
             irEnable := true, irReltol := 1 / 10000000000000, irAbstol := 1 / 1000000000000,
             irMaxIter := 10, irStopRatio := 5 },
    presolveEnable := false,
    infbound := 100000000000000000000,
    maxValue := 100000000000000000000000000000000000000,
    minSwitchStepLength := 1 / 10,
    linesearchBacktrackStep := 8 / 10,
    btFuel := 1000 }

/-- the settings meet every numeric side condition of the `ns_full_*` theorems -/
theorem stR_ok :
    stR.presolveEnable = false ∧ 0 < stR.equil.minScaling ∧ 0 < stR.equil.maxScaling
      ∧ 0 < stR.maxStepFraction ∧ stR.maxStepFraction < 1 ∧ 0 < stR.maxValue
      ∧ 0 ≤ stR.linesearchBacktrackStep ∧ stR.linesearchBacktrackStep ≤ 1 := by
  refine ⟨rfl, ?_, ?_, ?_, ?_, ?_, ?_, ?_⟩
  · show (0 : ℝ) < 1 / 10000; norm_num
  · show (0 : ℝ) < 10000; norm_num
  · show (0 : ℝ) < 99 / 100; norm_num
  · show (99 / 100 : ℝ) < 1; norm_num
  · show (0 : ℝ) < 100000000000000000000000000000000000000; norm_num
  · show (0 : ℝ) ≤ 8 / 10; norm_num
  · show (8 / 10 : ℝ) ≤ 1; norm_num

/-- the tolerances of `stR` are positive (full and reduced) -/
theorem stR_tols_pos :
    0 < stR.info.full.gap_abs ∧ 0 < stR.info.full.gap_rel ∧ 0 < stR.info.full.feas
      ∧ 0 < stR.info.full.infeas_abs ∧ 0 < stR.info.full.infeas_rel ∧ 0 < stR.info.full.ktratio
      ∧ 0 < stR.info.reduced.gap_abs ∧ 0 < stR.info.reduced.gap_rel ∧ 0 < stR.info.reduced.feas
      ∧ 0 < stR.info.reduced.infeas_abs ∧ 0 < stR.info.reduced.infeas_rel
      ∧ 0 < stR.info.reduced.ktratio := by
  refine ⟨?_, ?_, ?_, ?_, ?_, ?_, ?_, ?_, ?_, ?_, ?_, ?_⟩
  · show (0 : ℝ) < 1 / 100000000; norm_num
  · show (0 : ℝ) < 1 / 100000000; norm_num
  · show (0 : ℝ) < 1 / 100000000; norm_num
  · show (0 : ℝ) < 1 / 100000000; norm_num
  · show (0 : ℝ) < 1 / 100000000; norm_num
  · show (0 : ℝ) < 1 / 1000000; norm_num
  · show (0 : ℝ) < 5 / 100000; norm_num
  · show (0 : ℝ) < 5 / 100000; norm_num
  · show (0 : ℝ) < 1 / 10000; norm_num
  · show (0 : ℝ) < 5 / 100000; norm_num
  · show (0 : ℝ) < 5 / 100000; norm_num
  · show (0 : ℝ) < 1 / 10000; norm_num

/-! ### (b) at `Int`, evaluated by the kernel -/

section
open Clarabel.SolverNS.Example
attribute [local instance] intFloatLike intSci

/-- huge tolerances for `is_solved` (the first iterate has `gap_abs = gap_rel ≈ 7.6e14`) -/
def tolsBig : Info.Tols Int :=
  ⟨1000000000000000000, 1000000000000000000, 1000000000000000000, 1, 1, 1⟩

/-- tolerances under which the first iterate is not `Solved` (`tol_feas = 0`) and the infeasibility
tests are reached (`tol_ktratio = 2`: `1 / 2 = 0` in integer arithmetic, so `κ/τ = 1 > 0`) -/
def tolsInf : Info.Tols Int := ⟨1, 1, 0, 1, 1, 2⟩

/-- the settings of `SolverNSExample.st k` with the tolerance sets `full`, `reduced` -/
def stT (full reduced : Info.Tols Int) (k : Nat) : Settings Int :=
  { st k with info := { full, reduced, max_iter := k } }

/-- `DefaultSolver::new` on the example of `SolverNSExample.lean` (one variable, a nonnegative cone of
dimension 1 and an exponential cone) with right-hand side `b` -/
def newSolverT (b : Array Int) (s : Settings Int) : MErr (Solver Int) :=
  Solver.new Example.P #[1] Example.A b [.nonneg 1, .exp] s #[0, 1, 2, 3, 4]

/-- `new` followed by `solve()` -/
def runT (b : Array Int) (s : Settings Int) : MErr (SolveResult Int) := do (← newSolverT b s).solve s

/-- from a kernel-evaluated summary of `new >>= solve` to the hypotheses of the full theorems -/
theorem hyps_of_summary {n : MErr (Solver Int)} {s : Settings Int}
    {v : Nat × Info.SolverStatus × Nat × List Bool}
    (h : ((do (← n).solve s : MErr (SolveResult Int))).toOption.map summary = some v) :
    ∃ S r, n = .ok S ∧ S.solve s = .ok r ∧ r.S.solution.status = v.2.1 := by
  cases hS : n with
  | error e => rw [hS] at h; cases h
  | ok S =>
    rw [hS] at h
    have e : ((Except.ok S : MErr (Solver Int)) >>= fun S => S.solve s) = S.solve s := rfl
    rw [e] at h
    cases hr : S.solve s with
    | error e => rw [hr] at h; cases h
    | ok r =>
      rw [hr] at h
      refine ⟨S, r, rfl, hr, ?_⟩
      have h' : summary r = v := Option.some.inj h
      rw [← h']
      rfl

/-- huge full tolerances: the first `check_termination` says `Solved` -/
theorem runSolved :
    (runT #[1, 1, 1, 1] (stT tolsBig tols 3)).toOption.map summary = some (1, .solved, 0, [false]) := by
  decide +kernel

/-- `max_iter = 0` and huge REDUCED tolerances: `MaxIterations` in the loop, `AlmostSolved` from
`Info::post_process` -/
theorem runAlmostSolved :
    (runT #[1, 1, 1, 1] (stT tols tolsBig 0)).toOption.map summary
      = some (1, .almostSolved, 0, [false]) := by
  decide +kernel

/-- `b = (−5, 0, 0, 0)`: `⟨b,z⟩ = −5 < −tol_infeas_abs` at the unit starting point: `PrimalInfeasible` -/
theorem runPrimalInfeasible :
    (runT #[-5, 0, 0, 0] (stT tolsInf tols 3)).toOption.map summary
      = some (1, .primalInfeasible, 0, [false]) := by
  decide +kernel

/-- the same with `max_iter = 0` and the REDUCED tolerances: `AlmostPrimalInfeasible` from
`Info::post_process` -/
theorem runAlmostPrimalInfeasible :
    (runT #[-5, 0, 0, 0] (stT tols tolsInf 0)).toOption.map summary
      = some (1, .almostPrimalInfeasible, 0, [false]) := by
  decide +kernel

/-- `new` succeeds, `solve()` returns, `Solved` -/
theorem solved_hyps : ∃ S r, newSolverT #[1, 1, 1, 1] (stT tolsBig tols 3) = .ok S
    ∧ S.solve (stT tolsBig tols 3) = .ok r ∧ r.S.solution.status = .solved :=
  hyps_of_summary runSolved

/-- `new` succeeds, `solve()` returns, `AlmostSolved` -/
theorem almostSolved_hyps : ∃ S r, newSolverT #[1, 1, 1, 1] (stT tols tolsBig 0) = .ok S
    ∧ S.solve (stT tols tolsBig 0) = .ok r ∧ r.S.solution.status = .almostSolved :=
  hyps_of_summary runAlmostSolved

/-- `new` succeeds, `solve()` returns, `PrimalInfeasible` -/
theorem primalInfeasible_hyps : ∃ S r, newSolverT #[-5, 0, 0, 0] (stT tolsInf tols 3) = .ok S
    ∧ S.solve (stT tolsInf tols 3) = .ok r ∧ r.S.solution.status = .primalInfeasible :=
  hyps_of_summary runPrimalInfeasible

/-- `new` succeeds, `solve()` returns, `AlmostPrimalInfeasible` -/
theorem almostPrimalInfeasible_hyps : ∃ S r, newSolverT #[-5, 0, 0, 0] (stT tols tolsInf 0) = .ok S
    ∧ S.solve (stT tols tolsInf 0) = .ok r ∧ r.S.solution.status = .almostPrimalInfeasible :=
  hyps_of_summary runAlmostPrimalInfeasible

/-- `new` succeeds, `solve()` returns, `MaxIterations` (`SolverNSExample.run1`, no new evaluation) -/
theorem maxIterations_hyps : ∃ S r, newSolver 1 = .ok S ∧ S.solve (st 1) = .ok r
    ∧ r.S.solution.status = .maxIterations :=
  hyps_of_summary (n := newSolver 1) (s := st 1) run1

/-- `new` succeeds, `solve()` returns, `InsufficientProgress` (`SolverNSExample.run3`, no new
evaluation) -/
theorem insufficientProgress_hyps : ∃ S r, newSolver 3 = .ok S ∧ S.solve (st 3) = .ok r
    ∧ r.S.solution.status = .insufficientProgress :=
  hyps_of_summary (n := newSolver 3) (s := st 3) run3

end

end Clarabel.SolverNS.FullExample
