/-
  Clique-graph merge strategy, JUNCTION-TREE LINK, end to end.  The specifications of
  `ChordalCGJunctionPost.lean` / `ChordalCGJunctionLoop.lean` discharged by
  `ChordalKruskalMax.lean`, `ChordalCGInterWeights.lean`, `ChordalCGRipDisjoint.lean`,
  `ChordalCGJunctionInit.lean`, `ChordalCGJunctionMerge.lean`, `ChordalCGAntichainInit.lean`, and the
  pipeline `SparsityPattern::new(·, ·, "clique_graph")` with the tested link `cgRipB` REPLACED BY
  THEOREMS:

  * `kruskal_rip_of_hasJT`           : if the edge matrix at loop exit contains a junction tree of the
    live cliques, the spanning tree chosen by `kruskal` has the running-intersection property and the
    supernodes returned by `post_process_merge` are pairwise disjoint;
  * `analysis_cg_valid_exitjt_partial` : the pipeline theorem with the hypothesis `CGExitJT L` ("at loop
    exit the graph contains a junction tree", a proposition about the model's run) instead of
    `cgRipB L`; the second tested link `cgNonemptyB L` is kept;
  * `analysis_cg_valid_merges_partial` : the pipeline theorem with the single hypothesis
    `CGMergesOnJT L` ("every merge the loop performs contracts an edge of a junction tree inside the
    current graph") — no executable hypothesis left: the initial graph contains the supernode tree,
    contraction keeps a junction tree and the antichain property, the initial cliques are maximal.
  What is still NOT a theorem: that a permissible candidate of non-negative weight always lies on a
  junction tree inside the current graph (`CGMergesOnJT L` for every filled `L`).
-/
import ClarabelProofs.Lemmas.ChordalCGJunctionPost
import ClarabelProofs.Lemmas.ChordalKruskalMax
import ClarabelProofs.Lemmas.ChordalCGInterWeights
import ClarabelProofs.Lemmas.ChordalCGRipDisjoint
import ClarabelProofs.Lemmas.ChordalCGJunctionInit
import ClarabelProofs.Lemmas.ChordalCGJunctionMerge
import ClarabelProofs.Lemmas.ChordalCGJunctionLoop
import ClarabelProofs.Lemmas.ChordalCGAntichainInit
import ClarabelProofs.Lemmas.ChordalCGFinal

namespace Clarabel.Chordal
open Clarabel

/-! ## the specifications discharged -/

/-- [S] `kruskal` returns a maximum-weight spanning forest -/
theorem kruskal_max_ok : KruskalMaxSpec := by
  intro E h nc hnc Lv hLv hlen hedges hconn w hw F hF hFG
  exact kruskal_max_weight h hnc hLv hlen hedges hconn w hw F hF hFG

/-- [S] `clique_intersections` writes the junction-tree weights -/
theorem inter_weights_ok : InterWeightsSpec := by
  intro E h t hsz nv hnd hlt
  exact cliqueIntersections_jtw h hsz nv hnd hlt

/-- [S] running intersection ⇒ disjoint supernodes -/
theorem rip_disjoint_ok : RipDisjointSpec := by
  intro N t t' r h hnd T hTL hor hrip
  exact h.disjoint_of_rip hnd hTL hor hrip

/-- [S] after `initialise` the edge matrix contains a junction tree (the supernode tree) -/
theorem init_hasJT_ok : InitHasJTSpec := by
  intro L t0 hf hok h2
  obtain ⟨s1, t1, hi, hJ⟩ := initialise_hasJT newFromTriplets_spec reduced_ok reduced_tree_edge hf hok h2
  exact ⟨s1, t1, _, hi, hJ⟩

/-- [S] one merge along a junction-tree edge keeps a junction tree inside the graph -/
theorem merge_hasJT_ok : MergeHasJTSpec := by
  intro N nv s t hinv c1 cr he J hJ hedge t' s' hm hu
  exact cg_merge_hasJT hinv he hJ hedge hm hu

/-- [S] … and keeps the live cliques an antichain -/
theorem merge_antichain_ok : MergeAntichainSpec := by
  intro N nv s t hinv c1 cr he J hJ hedge hanti t' hm
  exact cg_merge_antichain hinv he hJ hedge hanti hm

/-! ## `post_process_merge` -/

/-- [S] **KRUSKAL'S TREE HAS THE RUNNING-INTERSECTION PROPERTY WHEN THE GRAPH CONTAINS A JUNCTION
TREE**: under the loop invariant with at least two live cliques, if the edge matrix contains a
junction tree `J` of the live cliques then `post_process_merge` returns (no panic) the tree described
by `CGPostDesc`, the spanning tree `kruskalTree` of the matrix re-weighted by `clique_intersections`
has the running-intersection property, and the supernodes of the result are pairwise disjoint. -/
theorem kruskal_rip_of_hasJT {N nv : Nat} {s : CGStrategy} {t : SuperNodeTree}
    (hinv : CGInv N nv s t) (h2 : 2 ≤ t.nCliques) (hch : t.snodeChildren = Array.replicate N #[])
    (hsep : t.separators.size = N)
    {v0 c0 : Nat} (hpost : t.post.back? = some v0) (hv0 : v0 ∈ (t.snode.getD c0 #[]).toList)
    {J : List (Nat × Nat)} (hJ : CGHasJT s t J) :
    ∃ s' t' nz, s.postProcessMerge t = .ok (s', t') ∧
      CGPostDesc N t t' (dpcRoot t.snode v0) ∧
      cliqueIntersections s.edges t.snode = .ok { s.edges with nzval := nz } ∧
      JT.RIP (cgCl t) (cgLiveList t) (kruskalTree { s.edges with nzval := nz } t.nCliques) ∧
      snDisjointB t' = true :=
  post_multi_jt kruskal_max_ok inter_weights_ok rip_disjoint_ok hinv h2 hch hsep hpost hv0 hJ

/-- [S] `post_process_merge` with at least two cliques left and a junction tree inside the graph, in
the setting of the pipeline: no panic, `CGPostDesc`, THE SUPERNODES ARE PAIRWISE DISJOINT (a
theorem now), and if the live ones are non-empty the result is in the state `BridgePre` -/
theorem post_multi_desc_jt (L : LPat) (t0 t1 t : SuperNodeTree) (s : CGStrategy) (hf : L.Filled)
    (hok : SnTreeOk L t0) (hi : CGInitRel t0 t1) (hfr : CGFrame t1 t) (hcov : CGCover t1 t)
    (hinv : CGInv t0.snode.size L.n s t) (h2 : 2 ≤ t.nCliques)
    {J : List (Nat × Nat)} (hJ : CGHasJT s t J) :
    ∃ s' t' r, s.postProcessMerge t = .ok (s', t') ∧ CGPostDesc t0.snode.size t t' r ∧
      snDisjointB t' = true ∧
      (snLiveNonemptyB t' = true → BridgePre L t' (fun c => t'.snodePost.toList.idxOf c)) := by
  have hct0 := hok.ct
  have hch : t.snodeChildren = Array.replicate t0.snode.size #[] := by
    rw [hfr.snodeChildren, hi.children, hct0.sz_par]
  have hsep : t.separators.size = t0.snode.size := by
    rw [hfr.separators, ← hct0.sz_sep]
    simpa using hi.seps.length_eq
  have hpe : t.post = t0.post := hfr.post.trans hi.post
  have hvp : t.post.size = L.n := by
    rw [hpe]; simpa using hok.vpost_perm.length_eq
  have hn := hf.n_pos
  have hpost : t.post.back? = some (t.post.getD (t.post.size - 1) 0) := by
    simp [Array.back?, Array.getD, show t.post.size - 1 < t.post.size by omega]
  have hv0lt : t.post.getD (t.post.size - 1) 0 < L.n := by
    have hm : t.post.getD (t.post.size - 1) 0 ∈ t0.post.toList := by
      rw [← hpe]; exact snp_getD_mem_toList _ _ (by omega)
    exact List.mem_range.1 (hok.vpost_perm.mem_iff.1 hm)
  have hcovV : ∀ v, v < L.n → ∃ c, v ∈ (t.snode.getD c #[]).toList := by
    intro v hv
    obtain ⟨c0, _, hv0⟩ := ((hok.preReorder hf).part v).1 hv
    have hv1 : v ∈ (t1.snode.getD c0 #[]).toList := by
      rw [hi.clique c0 v]; unfold cliqueList; exact List.mem_append_left _ hv0
    obtain ⟨c', _, hsub⟩ := hcov.cover c0 (cgpm_live_of_mem hv1)
    exact ⟨c', hsub v hv1⟩
  have hcovE : ∀ x, x < L.n → ∀ y ∈ L.col x, ∃ c, x ∈ (t.snode.getD c #[]).toList ∧
      y ∈ (t.snode.getD c #[]).toList := by
    intro x hx y hy
    obtain ⟨c0, _, hx0, hy0⟩ := (hok.bridgePre hf).cover x hx y hy
    have hx1 : x ∈ (t1.snode.getD c0 #[]).toList := (hi.clique c0 x).2 hx0
    have hy1 : y ∈ (t1.snode.getD c0 #[]).toList := (hi.clique c0 y).2 hy0
    obtain ⟨c', _, hsub⟩ := hcov.cover c0 (cgpm_live_of_mem hx1)
    exact ⟨c', hsub x hx1, hsub y hy1⟩
  obtain ⟨c0, hc0⟩ := hcovV _ hv0lt
  obtain ⟨s', t', _, hrun, hdesc, _, _, hdisj⟩ :=
    kruskal_rip_of_hasJT hinv h2 hch hsep hpost hc0 hJ
  exact ⟨s', t', _, hrun, hdesc, hdisj, fun hne => hdesc.bridgePre hinv hvp hcovV hcovE hdisj hne⟩

/-! ## the pipeline -/

/-- the second tested link as a proposition about the run: every live clique of the tree returned
by `merge_cliques` has a non-empty supernode (`cgNonemptyB L = true` says exactly this) -/
def CGExitNonempty (L : LPat) : Prop :=
  ∀ t0 t', SuperNodeTree.new L = .ok t0 → t0.nCliques > 1 →
    CGStrategy.mergeCliques t0 = .ok t' → snLiveNonemptyB t' = true

/-- [S] the executable `cgNonemptyB` decides `CGExitNonempty` (one direction) -/
theorem cgExitNonempty_of_B {L : LPat} (h : cgNonemptyB L = true) : CGExitNonempty L := by
  intro t0 t' hnew hgt hmc
  unfold cgNonemptyB at h
  simpa only [hnew, hgt, if_true, hmc] using h

/-- [S] **C17 FOR THE STRATEGY `clique_graph` FROM "THE EXIT GRAPH CONTAINS A JUNCTION TREE"**: for a
filled pattern `L`, a permutation `ordering` and pattern entries inside `L`, if at the exit of the
merge loop the edge matrix contains a junction tree of the live cliques (`CGExitJT L`) and the live
supernodes of the returned tree are non-empty (`CGExitNonempty L`), `SparsityPattern::new(L,
ordering, "clique_graph")` returns without panic a tree and an ordering satisfying
`ValidCliqueTree`.  The running-intersection property of Kruskal's spanning tree is no longer a
hypothesis. -/
theorem analysis_cg_valid_of_exit {L : LPat} (h : L.Filled) (ordering : Array Nat)
    (ho : ordering.toList.Perm (List.range L.n)) (edges : List (Nat × Nat))
    (hedges : EdgesIn L ordering edges) (hjt : CGExitJT L) (hne : CGExitNonempty L) :
    ∃ tf ord', sparsityPatternNewCG L ordering = .ok (tf, ord') ∧
      ValidCliqueTree L.n edges tf ord' ∧ validCliqueTreeB L.n edges tf ord' = true := by
  obtain ⟨t0, hnew, hok⟩ := sntree_new_ok h
  rw [sparsityPatternNewCG_eq L ordering hnew]
  by_cases hgt : t0.nCliques > 1
  · rw [if_pos hgt]
    have h2 : 2 ≤ t0.snode.size := by rw [← hok.ncl]; omega
    obtain ⟨s1, t1, s, t, hi, hl, hrel, _, hinv, hfr, hcov, hn⟩ := cg_front_ok h hok h2
    by_cases h1 : t.nCliques = 1
    · obtain ⟨s', t', tf, ord', hp, htail, hv⟩ :=
        post_single_spec L t0 t1 t s h hok hrel hfr hcov hinv h1 ordering ho edges
      rw [cg_mergeCliques_eq hi hl hp, ok_bind']
      exact ⟨tf, ord', htail, hv, (validCliqueTreeB_iff _ _ _ _).2 hv⟩
    · obtain ⟨J, hJ⟩ := hjt t0 s1 t1 s t hnew h2 hi hl
      obtain ⟨s', t', _, hp, _, _, hB⟩ :=
        post_multi_desc_jt L t0 t1 t s h hok hrel hfr hcov hinv (by omega) hJ
      have hmc := cg_mergeCliques_eq hi hl hp
      have hBP := hB (hne t0 t' hnew hgt hmc)
      rw [hmc, ok_bind']
      exact hBP.tail ordering ho edges hedges
  · rw [if_neg hgt]
    exact (hok.bridgePre h).tail ordering ho edges hedges

/-- [S] **C17 FOR THE STRATEGY `clique_graph`, `cgRipB` REPLACED BY `CGExitJT`** (`…_partial`: the
hypothesis `CGExitJT L` — the graph at loop exit contains a junction tree of the live cliques — and
the tested link `cgNonemptyB L` remain) -/
theorem analysis_cg_valid_exitjt_partial {L : LPat} (h : L.Filled) (ordering : Array Nat)
    (ho : ordering.toList.Perm (List.range L.n)) (edges : List (Nat × Nat))
    (hedges : EdgesIn L ordering edges) (hjt : CGExitJT L) (hne : cgNonemptyB L = true) :
    ∃ tf ord', sparsityPatternNewCG L ordering = .ok (tf, ord') ∧
      ValidCliqueTree L.n edges tf ord' ∧ validCliqueTreeB L.n edges tf ord' = true :=
  analysis_cg_valid_of_exit h ordering ho edges hedges hjt (cgExitNonempty_of_B hne)

/-- [S] if every merge contracts an edge of a junction tree inside the current graph, the graph at
loop exit contains a junction tree -/
theorem cg_exitJT_of_merges_ok {L : LPat} (hf : L.Filled) (hm : CGMergesOnJT L) : CGExitJT L :=
  cg_exitJT_of_merges initialise_ok init_hasJT_ok traverse_spec evaluate_spec merge_update_ok
    merge_hasJT_ok merge_antichain_ok hf hm

/-- [S] when a single clique is left `post_process_merge` marks every stored clique
`INACTIVE_NODE`, so the check `snLiveNonemptyB` holds trivially -/
theorem post_single_nonempty {s s' : CGStrategy} {t t' : SuperNodeTree} (h1 : t.nCliques = 1)
    (hp : s.postProcessMerge t = .ok (s', t')) : snLiveNonemptyB t' = true := by
  rw [postProcessMerge_single s t h1] at hp
  have e : t' = cgPostSingleTree t := by
    have := Except.ok.inj hp
    exact (congrArg Prod.snd this).symm
  subst e
  rw [snLiveNonemptyB_iff]
  intro c hc hpar
  exfalso
  apply hpar
  have hc' : c < t.snode.size := by simpa [cgPostSingleTree] using hc
  show (Array.replicate t.snode.size inactiveNode).getD c 0 = inactiveNode
  exact cgpm_getD_replicate _ _ _ _ hc'

/-- [S] if every merge contracts an edge of a junction tree inside the current graph, no live clique
of the returned tree has an empty supernode: the cliques `initialise` starts from are maximal
(`initialise_antichain`), merging along a junction-tree edge keeps them an antichain, and in an
antichain no clique is swallowed by its tree parent (`CGPostDesc.nonempty_of_antichain`) -/
theorem cg_exitNonempty_of_merges {L : LPat} (hf : L.Filled) (hm : CGMergesOnJT L) :
    CGExitNonempty L := by
  intro t0 t' hnew hgt hmc
  obtain ⟨t0', hnew', hok⟩ := sntree_new_ok hf
  have e0 : t0' = t0 := Except.ok.inj (hnew'.symm.trans hnew)
  subst e0
  have h2 : 2 ≤ t0'.snode.size := by rw [← hok.ncl]; omega
  obtain ⟨s1, t1, s, t, hi, hl, hrel, _, hinv, hfr, hcov, hn⟩ := cg_front_ok hf hok h2
  by_cases h1 : t.nCliques = 1
  · -- a single clique is left: it is the root, every other clique is dead
    obtain ⟨s', t'', tf, ord', hp, _, _⟩ :=
      post_single_spec L t0' t1 t s hf hok hrel hfr hcov hinv h1 (Array.range L.n)
        (by simp [Array.toList_range]) []
    have hmc' := cg_mergeCliques_eq hi hl hp
    have e : t'' = t' := Except.ok.inj (hmc'.symm.trans hmc)
    subst e
    exact post_single_nonempty h1 hp
  · obtain ⟨J, hJ⟩ := cg_exitJT_of_merges_ok hf hm t0' s1 t1 s t hnew h2 hi hl
    have hanti1 : CGAntichain t1 := initialise_antichain hf hnew hrel
    have hanti : CGAntichain t :=
      cg_exit_antichain_of_merges initialise_ok init_hasJT_ok traverse_spec evaluate_spec
        merge_update_ok merge_hasJT_ok merge_antichain_ok hf hm t0' s1 t1 s t hnew h2 hi hl hanti1
    obtain ⟨s', t'', _, hp, hdesc, _, _⟩ :=
      post_multi_desc_jt L t0' t1 t s hf hok hrel hfr hcov hinv (by omega) hJ
    have hmc' := cg_mergeCliques_eq hi hl hp
    have e : t'' = t' := Except.ok.inj (hmc'.symm.trans hmc)
    subst e
    exact hdesc.nonempty_of_antichain hanti

/-- [S] **C17 FOR THE STRATEGY `clique_graph` FROM A SINGLE HYPOTHESIS ON THE MERGES**
(`…_partial`): for a filled pattern `L`, a permutation `ordering` and pattern entries inside `L`, if
every merge the loop performs contracts an edge that lies on a junction tree inside the current
clique graph (`CGMergesOnJT L`), `SparsityPattern::new(L, ordering, "clique_graph")` returns without
panic a tree and an ordering satisfying `ValidCliqueTree`.  No executable hypothesis is left:
running intersection of Kruskal's tree and non-emptiness of the supernodes are consequences. -/
theorem analysis_cg_valid_merges_partial {L : LPat} (h : L.Filled) (ordering : Array Nat)
    (ho : ordering.toList.Perm (List.range L.n)) (edges : List (Nat × Nat))
    (hedges : EdgesIn L ordering edges) (hm : CGMergesOnJT L) :
    ∃ tf ord', sparsityPatternNewCG L ordering = .ok (tf, ord') ∧
      ValidCliqueTree L.n edges tf ord' ∧ validCliqueTreeB L.n edges tf ord' = true :=
  analysis_cg_valid_of_exit h ordering ho edges hedges (cg_exitJT_of_merges_ok h hm)
    (cg_exitNonempty_of_merges h hm)

/-! ## non-vacuity of the hypothesis `CGMergesOnJT` -/

/-- [S] THE HYPOTHESIS `CGMergesOnJT L` HOLDS WHENEVER THE SUPERNODE TREE HAS (AT MOST) TWO CLIQUES: the
only entry the edge matrix can store is `(1, 0)`, which is the edge of the supernode tree — a
junction tree inside the graph (`initialise_hasJT`); after the merge a single clique is left -/
theorem cg_mergesOnJT_of_two {L : LPat} (hf : L.Filled)
    (hsz : ∀ t0, SuperNodeTree.new L = .ok t0 → t0.snode.size ≤ 2) : CGMergesOnJT L := by
  intro t0 s1 t1 hnew h2 hi
  obtain ⟨t0', hnew', hok⟩ := sntree_new_ok hf
  rw [hnew] at hnew'
  obtain rfl := Except.ok.inj hnew'
  have hN : t0.snode.size = 2 := by have := hsz t0 hnew; omega
  obtain ⟨sa, ta, hia, hstop, hinv, hrel⟩ := initialise_ok L t0 hf hok h2
  rw [hi] at hia
  obtain ⟨rfl, rfl⟩ := Prod.mk.inj (Except.ok.inj hia)
  obtain ⟨sb, tb, hib, hJ, hlive, hends, hlen⟩ :=
    initialise_hasJT_live newFromTriplets_spec reduced_ok reduced_tree_edge hf hok h2
  rw [hi] at hib
  obtain ⟨rfl, rfl⟩ := Prod.mk.inj (Except.ok.inj hib)
  have hncl : t1.nCliques = 2 := by rw [hrel.ncl, hok.ncl, hN]
  have hg := hinv.good
  -- the junction tree is `[(1, 0)]`
  have hJ10 : (1, 0) ∈ cgTreeEdges t0 := by
    rw [hlive, hN] at hlen
    have hl1 : (cgTreeEdges t0).length = 1 := by simpa using hlen
    obtain ⟨e, he⟩ := List.length_eq_one_iff.1 hl1
    have hmem : e ∈ cgTreeEdges t0 := by rw [he]; simp
    have hent := (hg.mem_edges e.1 e.2).1 (hJ.sub e hmem)
    have hlt := cgi_entry_lt hg hent
    rw [hinv.en, hN] at hlt
    have : e = (1, 0) := by
      have h1 : e.1 = 1 := by omega
      have h0 : e.2 = 0 := by omega
      exact Prod.ext h1 h0
    rw [← this]; exact hmem
  show s1.loopOnJT (t1.snode.size + 1 + 1) t1
  unfold CGStrategy.loopOnJT
  simp only [hstop, Bool.false_eq_true, if_false]
  obtain ⟨p', cand?, htr, hpsz, hcand⟩ := traverse_spec _ _ s1 t1 hinv (by omega)
  have hinv1 : CGInv t0.snode.size L.n { s1 with p := p' } t1 := hinv.of_eq rfl rfl hpsz
  simp only [htr]
  cases hc : cand? with
  | none => trivial
  | some cand =>
    obtain ⟨r, c⟩ := cand
    have hsome := hcand r c hc
    obtain ⟨v, hv⟩ := Option.isSome_iff_exists.1 hsome
    have hev := evaluate_spec _ _ { s1 with p := p' } t1 hinv1 r c v hv
    simp only [hev]
    by_cases hvn : v ≥ 0
    · simp only [hvn, if_true, decide_true]
      have hlt := cgi_entry_lt hg hsome
      rw [hinv.en, hN] at hlt
      have hrc : (r, c) = (1, 0) := by
        have h1 : r = 1 := by omega
        have h0 : c = 0 := by omega
        rw [h1, h0]
      refine ⟨⟨cgTreeEdges t0, CGHasJT.of_edges_eq (s := s1) rfl hJ, by rw [hrc]; exact hJ10⟩, ?_⟩
      obtain ⟨t', s', hm, hu, _, _, _, hncl', _⟩ :=
        merge_update_ok _ _ { s1 with p := p' } t1 hinv1 r c hsome
      simp only [hm, hu]
      have h1 : t'.nCliques = 1 := by omega
      simp only [h1, beq_self_eq_true, if_true]
    · simp only [hvn, if_false, decide_false, updateStrategy_false]
      have hne : (t1.nCliques == 1) = false := by simp [hncl]
      simp only [hne, Bool.false_eq_true, if_false]
      exact CGStrategy.loopOnJT_of_stop _ _ t1 rfl

/-- [S] … and trivially when there is nothing to merge (a single clique) -/
theorem cg_mergesOnJT_of_one {L : LPat}
    (hsz : ∀ t0, SuperNodeTree.new L = .ok t0 → t0.snode.size ≤ 1) : CGMergesOnJT L := by
  intro t0 s1 t1 hnew h2 _
  have := hsz t0 hnew
  omega

/-- the path `0 — 1 — 2`: columns `{1}`, `{2}`, `{}`; cliques `{0,1}` and `{1,2}` -/
def exP3 : LPat := { n := 3, colptr := #[0, 1, 2, 2], rowval := #[1, 2] }

/-- [S] the path is a filled pattern -/
theorem exP3_filled : exP3.Filled := (LPat.filledB_iff _).1 (by decide)

/-- [S] the supernode tree of the path has at most two cliques: vertex `2` cannot be a
representative (its child `1` has a column count one larger), and different supernodes have
different representatives -/
theorem exP3_size_le : ∀ t0, SuperNodeTree.new exP3 = .ok t0 → t0.snode.size ≤ 2 := by
  intro t0 hnew
  obtain ⟨t0', hnew', hok⟩ := sntree_new_ok exP3_filled
  rw [hnew] at hnew'
  obtain rfl := Except.ok.inj hnew'
  have hmax := sntree_new_max exP3_filled hnew
  let reps := (List.range t0.snode.size).map (fun i => minOf (t0.snode.getD i #[]))
  have hmemsn : ∀ i, i < t0.snode.size → t0.snode.getD i #[] ∈ t0.snode.toList :=
    fun i hi => snp_getD_mem_toList _ _ hi
  have hso : ∀ i (hi : i < t0.snode.size),
      SnodeOf exP3 (t0.snode.getD i #[]).toList (minOf (t0.snode.getD i #[])) :=
    fun i hi => hok.cover.snode_of _ (hmemsn i hi)
  have hnd : reps.Nodup := by
    refine List.Nodup.map_on ?_ List.nodup_range
    intro i hi j hj hij
    by_contra hne
    have hi' := List.mem_range.1 hi
    have hj' := List.mem_range.1 hj
    have h1 := (hso i hi').rep_mem
    have h2 := (hso j hj').rep_mem
    rw [hij] at h1
    exact hok.cover.disjoint i j hi' hj' hne _ h1 h2
  have hsub : reps ⊆ [0, 1] := by
    intro r hr
    obtain ⟨i, hi, rfl⟩ := List.mem_map.1 hr
    have hi' := List.mem_range.1 hi
    have hlt : minOf (t0.snode.getD i #[]) < 3 := (hso i hi').lt _ (hso i hi').rep_mem
    have hne2 : minOf (t0.snode.getD i #[]) ≠ 2 := by
      intro e
      have := hmax _ (hmemsn i hi') 1 (by decide) (by rw [e]; decide)
      rw [e] at this
      exact this (by decide)
    have : minOf (t0.snode.getD i #[]) = 0 ∨ minOf (t0.snode.getD i #[]) = 1 := by omega
    rcases this with h | h
    · rw [h]; exact List.mem_cons_self
    · rw [h]; exact List.mem_cons_of_mem _ List.mem_cons_self
  have := (hnd.subperm hsub).length_le
  simpa [reps] using this

/-- [S] conversely the proposition `CGExitNonempty L` makes the executable check `cgNonemptyB L`
come out `true` (on a filled pattern `merge_cliques` does not panic) -/
theorem cgNonemptyB_of_exit {L : LPat} (hf : L.Filled) (h : CGExitNonempty L) :
    cgNonemptyB L = true := by
  obtain ⟨t0, hnew, hok⟩ := sntree_new_ok hf
  unfold cgNonemptyB
  rw [hnew]
  by_cases hgt : t0.nCliques > 1
  · have h2 : 2 ≤ t0.snode.size := by rw [← hok.ncl]; omega
    obtain ⟨t', hmc⟩ := merge_cliques_cg_no_panic hf hok h2
    simp only [hgt, if_true, hmc]
    exact h t0 t' hnew hgt hmc
  · simp only [hgt, if_false]

end Clarabel.Chordal
