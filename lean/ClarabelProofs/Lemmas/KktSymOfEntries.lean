/-
  The symmetric dense meaning (`Qdldl.symOf`) of the matrix that `assemble_kkt_matrix` returns,
  with ANY value array, in terms of the stored positions:

  * `AsmIn`: the assembled matrix (upper-triangle layout) with any value array of the assembled
    length is a valid QDLDL input; its structural facts in `getD` form;
  * `symOf_slot`: at a stored coordinate, `symOf` is the value at the (unique) position;
  * `symOf_not_intended`: at a coordinate that is not `Intended`, `symOf` is `0`;
  * `Pat`: which pairs of structured indices carry a stored entry; `intended_idx`: every intended
    coordinate is the flat position of such a pair; `symOf_zero_of_not_pat`;
  * `symOf_regularized`: the `± ε` writes of `regularize_and_refactor` add `± ε` to the diagonal of
    the symmetric meaning and change nothing else;
  * `listKkt_of_entries`: a symmetric function on columns whose entries at the flat positions are
    the blocks of `listKkt` IS `listKkt` transported along `flatPos`.
-/
import ClarabelModel.Kkt
import ClarabelProofs.Lemmas.KktSymOfIdx
import ClarabelProofs.Lemmas.KktCanonical0
import ClarabelProofs.Lemmas.KktQdldlInput
import ClarabelProofs.Lemmas.KktUpdateAsm
import ClarabelProofs.Lemmas.QdldlNew

set_option linter.unusedSectionVars false
set_option linter.unusedVariables false

namespace Clarabel.Lemmas.KktSymOfEntries
open Clarabel Clarabel.Csc Clarabel.Kkt Clarabel.Qdldl
open Clarabel.Lemmas.KktPlace Clarabel.Lemmas.KktSlots Clarabel.Lemmas.KktFillMaps
open Clarabel.Lemmas.KktTotal Clarabel.Lemmas.KktFinal Clarabel.Lemmas.KktIntended
open Clarabel.Lemmas.KktSpec Clarabel.Lemmas.KktSymOfIdx
open Clarabel.Lemmas.KktInertiaCones Clarabel.Lemmas.KktSigns
open Clarabel.Lemmas.KktSorted (Canon IsTriu missingDiag)
open Clarabel.Lemmas.KktDistinct (pre pre_succ_le pre_le_total block_decode)

-- ====================================================================================
-- (1) the assembled pattern as a QDLDL input, in `getD` form
-- ====================================================================================

section pattern
variable {α : Type} [Field α] [LinearOrder α] [IsStrictOrderedRing α] [FloatLike α]

/-- position `t` lies in the storage range of column `c` -/
def InCol (K : Csc α) (t c : Nat) : Prop :=
  K.colptr.getD c 0 ≤ t ∧ t < K.colptr.getD (c + 1) 0

/-- structural facts about a valid upper-triangular CSC pattern of order `N`, in `getD` form -/
structure PatOK (K : Csc α) (N : Nat) : Prop where
  n_eq : K.n = N
  csz : K.colptr.size = N + 1
  mono : ∀ k, k < N → K.colptr.getD k 0 ≤ K.colptr.getD (k + 1) 0
  bound : ∀ k, k ≤ N → K.colptr.getD k 0 ≤ K.rowval.size
  triu : ∀ k, k < N → ∀ t, InCol K t k → K.rowval.getD t 0 ≤ k
  nodup : NoDupCols K.colptr K.rowval

theorem PatOK.col_lt {K : Csc α} {N : Nat} (h : PatOK K N) {t c : Nat} (hc : InCol K t c) : c < N := by
  by_contra hge
  have : K.colptr.getD (c + 1) 0 = 0 := by
    rw [Array.getD_eq_getD_getElem?, Array.getElem?_eq_none (by rw [h.csz]; omega)]; rfl
  have := hc.2
  omega

/-- a position belongs to one column only -/
theorem PatOK.col_unique {K : Csc α} {N : Nat} (h : PatOK K N) {t c c' : Nat} (hc : InCol K t c)
    (hc' : InCol K t c') : c = c' := by
  have h1 := h.col_lt hc
  have h2 := h.col_lt hc'
  rcases Nat.lt_trichotomy c c' with hlt | heq | hgt
  · have := ptr_mono_le N K.colptr h.mono (c + 1) c' (by omega) (by omega)
    have := hc.2
    have := hc'.1
    omega
  · exact heq
  · have := ptr_mono_le N K.colptr h.mono (c' + 1) c (by omega) (by omega)
    have := hc'.2
    have := hc.1
    omega

theorem PatOK.pos_lt {K : Csc α} {N : Nat} (h : PatOK K N) {t c : Nat} (hc : InCol K t c) :
    t < K.rowval.size := by
  have := h.bound (c + 1) (by have := h.col_lt hc; omega)
  have := hc.2
  omega

/-- the pattern does not depend on the values -/
theorem PatOK.with_nzval {K : Csc α} {N : Nat} (h : PatOK K N) (nz : Array α) :
    PatOK ({ K with nzval := nz } : Csc α) N :=
  ⟨h.n_eq, h.csz, h.mono, h.bound, h.triu, h.nodup⟩

/-- `EntryAt` in `getD` form -/
theorem entryAt_inCol {K : Csc α} {d r c : Nat} {v : α} (h : EntryAt K d r c v) :
    InCol K d c ∧ K.rowval.getD d 0 = r ∧ K.nzval.getD d 0 = v := by
  obtain ⟨p, q, hp, hq, h1, h2, hr, hv⟩ := h
  refine ⟨⟨?_, ?_⟩, ?_, ?_⟩
  · simp [Array.getD_eq_getD_getElem?, hp, h1]
  · simp [Array.getD_eq_getD_getElem?, hq, h2]
  · simp [Array.getD_eq_getD_getElem?, hr]
  · simp [Array.getD_eq_getD_getElem?, hv]

/-- **at a stored coordinate `(r, c)`, `r ≤ c`, the symmetric meaning is the value at the
position**, whatever the value array -/
theorem symOf_slot {K : Csc α} {N : Nat} (h : PatOK K N) (nz : Array α) {d r c : Nat}
    (hc : InCol K d c) (hr : K.rowval.getD d 0 = r) (hrc : r ≤ c) :
    symOf ({ K with nzval := nz } : Csc α) r c = nz.getD d 0 := by
  unfold symOf
  rw [Nat.min_eq_left hrc, Nat.max_eq_right hrc, ← hr]
  exact denseOf_stored K.colptr K.rowval nz h.nodup c d hc.1 hc.2

theorem symOf_slot' {K : Csc α} {N : Nat} (h : PatOK K N) (nz : Array α) {d r c : Nat}
    (hc : InCol K d c) (hr : K.rowval.getD d 0 = r) (hrc : r ≤ c) :
    symOf ({ K with nzval := nz } : Csc α) c r = nz.getD d 0 := by
  rw [symOf_comm]; exact symOf_slot h nz hc hr hrc

/-- at a coordinate where nothing is stored the symmetric meaning is `0` -/
theorem symOf_empty {K : Csc α} (nz : Array α) {r c : Nat} (hrc : r ≤ c)
    (hno : ∀ t, InCol K t c → K.rowval.getD t 0 ≠ r) :
    symOf ({ K with nzval := nz } : Csc α) r c = 0 := by
  unfold symOf
  rw [Nat.min_eq_left hrc, Nat.max_eq_right hrc]
  apply denseOf_not_stored
  rintro ⟨t, h1, h2, h3⟩
  exact hno t ⟨h1, h2⟩ h3

end pattern

-- ====================================================================================
-- (2) the assembled matrix
-- ====================================================================================

section asm
variable {α : Type} [Field α] [LinearOrder α] [IsStrictOrderedRing α] [FloatLike α]
variable {P A : Csc α} {cones : List ConeSpec} {K : Csc α} {map : LDLDataMap}
  {sched : List (Entry α)} {Kc : Csc α} {nd : Nat}

/-- the assembled matrix (upper triangle) is a valid QDLDL pattern -/
theorem asm_patOK (R : AsmRun P A cones .triu K map sched Kc nd) (hin : KktInputs P A cones) :
    PatOK K (kktDim A cones) ∧ wellFormed K = true ∧ checkStructure K = .ok () := by
  have hc0 := Clarabel.Lemmas.KktCanonical0.asmRun_canonical0 R hin.P_canon hin.P_triu hin.P_square
    hin.A_canon hin.n_eq hin.m_eq
  have M := R.mat
  have hq := Clarabel.Lemmas.KktQdldlInput.qdldl_input_of_canonical K hc0
    (by rw [M.m_eq, M.n_eq]) (by
      intro c hc
      have hc' : c < kktDim A cones := by rw [← M.n_eq]; exact hc
      have hs := R.cols_sorted hin.P_canon hin.P_triu hin.P_square hin.A_canon hin.n_eq hin.m_eq c hc'
      obtain ⟨p, hp, hp1⟩ := M.colptr_succ c hc'
      have hpos := cnt_pos_triu P A cones sched hin.P_canon hin.P_triu hin.P_square hin.A_canon
        hin.n_eq hin.m_eq R.sched_ok c hc'
      exact ⟨⟨p, _, hp, hp1, by omega⟩, hs.1, hs.2.2⟩)
  obtain ⟨hw, hcs, hnd⟩ := hq
  have hI := InputOK.of_checks K hw hcs
  have hT := hI.tri
  rw [M.n_eq] at hT
  exact ⟨⟨M.n_eq, hT.ap_size, hT.ap_mono, hT.ap_bound, fun k hk t ht => hT.rows k hk t ht.1 ht.2, hnd⟩,
    hw, hcs⟩

/-- a stored position of the assembled matrix is an intended entry -/
theorem intended_of_inCol (R : AsmRun P A cones .triu K map sched Kc nd) (hin : KktInputs P A cones)
    {t c : Nat} (hc : InCol K t c) :
    ∃ v, Intended P A cones .triu (K.rowval.getD t 0) c v ∧ K.nzval.getD t 0 = v := by
  obtain ⟨hpat, _, _⟩ := asm_patOK R hin
  have M := R.mat
  have hcN := hpat.col_lt hc
  obtain ⟨p, hp, hp1⟩ := M.colptr_succ c hcN
  have e1 : K.colptr.getD c 0 = p := by simp [Array.getD_eq_getD_getElem?, hp]
  have e2 : K.colptr.getD (c + 1) 0 = p + cnt c sched := by simp [Array.getD_eq_getD_getElem?, hp1]
  have hq := M.colptr_le (c + 1) _ (by omega) hp1
  have htr : t < K.rowval.size := hpat.pos_lt hc
  have htz : t < K.nzval.size := by rw [M.nzval_size, ← M.rowval_size]; exact htr
  obtain ⟨_, hget⟩ := col_get K c (t - p) p (p + cnt c sched) hp hp1
    (by rw [M.rowval_size]; exact hq) (by rw [M.nzval_size]; exact hq)
  have h1 := hc.1
  have h2 := hc.2
  rw [e1] at h1
  rw [e2] at h2
  have hpt : p + (t - p) = t := by omega
  have hmem := hget (K.rowval.getD t 0) (K.nzval.getD t 0) (by omega)
    (by rw [hpt]; simp [Array.getD_eq_getD_getElem?, htr])
    (by rw [hpt]; simp [Array.getD_eq_getD_getElem?, htz])
  exact ⟨_, (R.mem_col_iff hin.P_canon hin.A_canon _ c hcN _).mp (List.mem_of_getElem? hmem), rfl⟩

/-- **where nothing is intended, the symmetric meaning is `0`** (any value array) -/
theorem symOf_not_intended (R : AsmRun P A cones .triu K map sched Kc nd) (hin : KktInputs P A cones)
    (nz : Array α) {r c : Nat} (hrc : r ≤ c) (hno : ∀ v, ¬ Intended P A cones .triu r c v) :
    symOf ({ K with nzval := nz } : Csc α) r c = 0 := by
  apply symOf_empty nz hrc
  intro t ht hr
  obtain ⟨v, hv, _⟩ := intended_of_inCol R hin ht
  rw [hr] at hv
  exact hno v hv

/-- every intended entry has a position, which is the destination of a scheduled write with the
same coordinates -/
theorem intended_slot (R : AsmRun P A cones .triu K map sched Kc nd) {r c : Nat} {v : α}
    (h : Intended P A cones .triu r c v) :
    ∃ d, SlotAt (colcountToColptr Kc).colptr sched (some d) c r v ∧ EntryAt K d r c v := by
  obtain ⟨e, he, rfl, rfl, rfl⟩ := mem_of_intended R h
  obtain ⟨g, hg⟩ := List.getElem?_of_mem he
  obtain ⟨d, hd, _, _⟩ := R.mat.written g e hg
  have hs : SlotAt (colcountToColptr Kc).colptr sched (some d) e.readCol e.row e.val :=
    ⟨g, e, hg, rfl, rfl, rfl, hd.symm⟩
  obtain ⟨d', hd', hE⟩ := R.mat.slotIs (fun e he => (R.cols e he).1) hs
  cases hd'
  exact ⟨d, hs, hE⟩

end asm


-- ====================================================================================
-- (3) which pairs of structured indices carry a stored entry
-- ====================================================================================

section pat
variable {α : Type} [Field α] [LinearOrder α] [IsStrictOrderedRing α] [FloatLike α]
variable {P A : Csc α} {cones : List ConeSpec} {K : Csc α} {map : LDLDataMap}
  {sched : List (Entry α)} {Kc : Csc α} {nd : Nat}

/-- row `a` of the cone carries an entry of its `j`-th MINUS auxiliary column (`v` of a second-order
cone: all rows; `q` of a generalised power cone: the first `dim1` rows, `r`: the others) -/
def VRow (c : ConeSpec) (j a : Nat) : Prop :=
  match c with
  | .soc _ => True
  | .genpow d1 _ => (j = 0 ∧ a < d1) ∨ (j = 1 ∧ d1 ≤ a)
  | _ => False

/-- the pairs `(a, b)` of structured indices (upper coordinates: `a` the row) at which the assembled
matrix stores an entry -/
def Pat (n : Nat) (cones : List ConeSpec) : KktIdx n cones → KktIdx n cones → Prop
  | .inl (.inl _), .inl (.inl _) => True
  | .inl (.inl _), .inr ⟨_, .inl _⟩ => True
  | .inl (.inr ⟨i, b⟩), .inl (.inr ⟨i', b'⟩) => i.val = i'.val ∧ b.val = b'.val
  | .inr ⟨i, .inl a⟩, .inr ⟨i', .inl a'⟩ =>
      i.val = i'.val ∧ (cones[i].hsIsDiagonal = true → a.val = a'.val)
  | .inr ⟨i, .inl a⟩, .inr ⟨i', .inr c⟩ => i.val = i'.val ∧ VRow cones[i] c.val a.val
  | .inr ⟨i, .inl _⟩, .inl (.inr ⟨i', _⟩) => i.val = i'.val
  | .inr ⟨i, .inr c⟩, .inr ⟨i', .inr c'⟩ => i.val = i'.val ∧ c.val = c'.val
  | _, _ => False

theorem nMinus_soc {d : Nat} (hd : d > socNoExpansionMaxSize) : nMinus (.soc d) = 1 := by
  simp [nMinus, ConeSpec.isSparseExpandable, hd]

theorem nPlus_soc {d : Nat} (hd : d > socNoExpansionMaxSize) : nPlus (.soc d) = 1 := by
  simp [nPlus, ConeSpec.isSparseExpandable, hd]

theorem nMinus_genpow (a b : Nat) : nMinus (.genpow a b) = 2 := by
  simp [nMinus, ConeSpec.isSparseExpandable]

theorem nPlus_genpow (a b : Nat) : nPlus (.genpow a b) = 1 := by
  simp [nPlus, ConeSpec.isSparseExpandable]

/-- **every intended coordinate is the pair of flat positions of a `Pat` pair** -/
theorem intended_idx (hin : KktInputs P A cones) {r c : Nat} {v : α}
    (h : Intended P A cones .triu r c v) :
    ∃ a b : KktIdx A.n cones, flatPos A.n cones a = r ∧ flatPos A.n cones b = c ∧
      Pat A.n cones a b := by
  have hm : mTot cones = A.m := hin.m_eq
  cases h with
  | pEntry i j r v hi h1 h2 hr hv =>
    have hj : j < P.rowval.size := (Array.getElem?_eq_some_iff.mp hr).1
    have hrm : r < A.n := by
      have := hin.P_canon.rows_lt j hj
      rw [hin.P_square, hin.n_eq] at this
      simpa [getElem!_def, hr] using this
    have hiA : i < A.n := by rw [← hin.n_eq]; exact hi
    exact ⟨.inl (.inl ⟨r, hrm⟩), .inl (.inl ⟨i, hiA⟩), rfl, rfl, trivial⟩
  | pDiag _ hc hmd =>
    exact ⟨.inl (.inl ⟨_, by rw [← hin.n_eq]; exact hc⟩), .inl (.inl ⟨_, by rw [← hin.n_eq]; exact hc⟩),
      rfl, rfl, trivial⟩
  | aEntry i j r v hi h1 h2 hr hv =>
    have hj : j < A.rowval.size := (Array.getElem?_eq_some_iff.mp hr).1
    have hrm : r < A.m := by
      have := hin.A_canon.rows_lt j hj
      simpa [getElem!_def, hr] using this
    obtain ⟨i', hi', ha, hb⟩ := block_decode ConeSpec.numel cones r (by rw [hin.m_eq]; exact hrm)
    refine ⟨.inl (.inl ⟨i, hi⟩), .inr ⟨⟨i', hi'⟩, .inl ⟨r - pre ConeSpec.numel cones i', by
      show r - pre ConeSpec.numel cones i' < cones[i'].numel
      omega⟩⟩, rfl, ?_, trivial⟩
    rw [flatPos_row]
    show A.n + pre ConeSpec.numel cones i' + (r - pre ConeSpec.numel cones i') = r + A.n
    omega
  | cone pre' cn post r col hdec hic =>
    obtain ⟨hi, hci, _⟩ := decomp_pos hdec
    have hrow : A.n + (pre'.map ConeSpec.numel).sum = A.n + pre ConeSpec.numel cones pre'.length := by
      rw [decomp_pre hdec]
    have hpcol : A.m + A.n + (pre'.map conePdim).sum
        = A.n + mTot cones + pre conePdim cones pre'.length := by
      rw [decomp_pre hdec, hm]; omega
    rw [hrow, hpcol] at hic
    generalize hI : pre'.length = I at hi hci hic
    -- helpers to build the structured indices of cone `I`
    have mkRow : ∀ k, k < cn.numel → ∃ x : Fin (cones[(⟨I, hi⟩ : Fin cones.length)].numel), x.val = k :=
      fun k hk => ⟨⟨k, by show k < cones[I].numel; rw [hci]; exact hk⟩, rfl⟩
    have mkMinus : ∀ k, k < nMinus cn → ∃ x : Fin (nMinus cones[(⟨I, hi⟩ : Fin cones.length)]), x.val = k :=
      fun k hk => ⟨⟨k, by show k < nMinus cones[I]; rw [hci]; exact hk⟩, rfl⟩
    have mkPlus : ∀ k, k < nPlus cn → ∃ x : Fin (nPlus cones[(⟨I, hi⟩ : Fin cones.length)]), x.val = k :=
      fun k hk => ⟨⟨k, by show k < nPlus cones[I]; rw [hci]; exact hk⟩, rfl⟩
    have hminusI : nMinus cones[(⟨I, hi⟩ : Fin cones.length)] = nMinus cn := by
      show nMinus cones[I] = _; rw [hci]
    cases hic with
    | hsDiag _ _ _ k hd hk =>
      obtain ⟨x, hx⟩ := mkRow k hk
      refine ⟨.inr ⟨⟨I, hi⟩, .inl x⟩, .inr ⟨⟨I, hi⟩, .inl x⟩, ?_, ?_, rfl, fun _ => rfl⟩
      · rw [flatPos_row, hx]; rfl
      · rw [flatPos_row, hx]; rfl
    | hsDense _ _ _ a b hd ha hb =>
      obtain ⟨x, hx⟩ := mkRow a ha
      obtain ⟨y, hy⟩ := mkRow b (by omega)
      refine ⟨.inr ⟨⟨I, hi⟩, .inl y⟩, .inr ⟨⟨I, hi⟩, .inl x⟩, ?_, ?_, rfl, ?_⟩
      · rw [flatPos_row, hy]; rfl
      · rw [flatPos_row, hx]; rfl
      · intro hd'
        have : cn.hsIsDiagonal = true := by rw [← hci]; exact hd'
        rw [hd] at this
        cases this
    | socV d _ _ k hd hk =>
      obtain ⟨x, hx⟩ := mkRow k hk
      obtain ⟨y, hy⟩ := mkMinus 0 (by rw [nMinus_soc hd]; omega)
      refine ⟨.inr ⟨⟨I, hi⟩, .inl x⟩, .inr ⟨⟨I, hi⟩, .inr y⟩, ?_, ?_, rfl, ?_⟩
      · rw [flatPos_row, hx]; rfl
      · rw [flatPos_minus, hy]; rfl
      · show VRow cones[I] _ _
        rw [hci]; trivial
    | socU d _ _ k hd hk =>
      obtain ⟨x, hx⟩ := mkRow k hk
      obtain ⟨y, hy⟩ := mkPlus 0 (by rw [nPlus_soc hd]; omega)
      refine ⟨.inr ⟨⟨I, hi⟩, .inl x⟩, .inl (.inr ⟨⟨I, hi⟩, y⟩), ?_, ?_, rfl⟩
      · rw [flatPos_row, hx]; rfl
      · rw [flatPos_plus, hy]
        show auxPos A.n cones I (nMinus cones[I] + 0) = _
        rw [hci, nMinus_soc hd]; rfl
    | socD d _ _ j hd hj =>
      rcases (by omega : j = 0 ∨ j = 1) with rfl | rfl
      · obtain ⟨y, hy⟩ := mkMinus 0 (by rw [nMinus_soc hd]; omega)
        refine ⟨.inr ⟨⟨I, hi⟩, .inr y⟩, .inr ⟨⟨I, hi⟩, .inr y⟩, ?_, ?_, rfl, rfl⟩
        · rw [flatPos_minus, hy]; rfl
        · rw [flatPos_minus, hy]; rfl
      · obtain ⟨y, hy⟩ := mkPlus 0 (by rw [nPlus_soc hd]; omega)
        have e : flatPos A.n cones (.inl (.inr ⟨⟨I, hi⟩, y⟩))
            = A.n + mTot cones + pre conePdim cones I + 1 := by
          rw [flatPos_plus, hy]
          show auxPos A.n cones I (nMinus cones[I] + 0) = _
          rw [hci, nMinus_soc hd]; rfl
        exact ⟨.inl (.inr ⟨⟨I, hi⟩, y⟩), .inl (.inr ⟨⟨I, hi⟩, y⟩), e, e, rfl, rfl⟩
    | gpQ a b _ _ k hk =>
      obtain ⟨x, hx⟩ := mkRow k (by show k < a + b; omega)
      obtain ⟨y, hy⟩ := mkMinus 0 (by rw [nMinus_genpow]; omega)
      refine ⟨.inr ⟨⟨I, hi⟩, .inl x⟩, .inr ⟨⟨I, hi⟩, .inr y⟩, ?_, ?_, rfl, ?_⟩
      · rw [flatPos_row, hx]; rfl
      · rw [flatPos_minus, hy]; rfl
      · show VRow cones[I] _ _
        rw [hci, hy, hx]; exact Or.inl ⟨rfl, hk⟩
    | gpR a b _ _ k hk =>
      obtain ⟨x, hx⟩ := mkRow (a + k) (by show a + k < a + b; omega)
      obtain ⟨y, hy⟩ := mkMinus 1 (by rw [nMinus_genpow]; omega)
      refine ⟨.inr ⟨⟨I, hi⟩, .inl x⟩, .inr ⟨⟨I, hi⟩, .inr y⟩, ?_, ?_, rfl, ?_⟩
      · rw [flatPos_row, hx]
        show A.n + pre ConeSpec.numel cones I + (a + k) = A.n + pre ConeSpec.numel cones I + a + k
        omega
      · rw [flatPos_minus, hy]; rfl
      · show VRow cones[I] _ _
        rw [hci, hy, hx]; exact Or.inr ⟨rfl, by omega⟩
    | gpP a b _ _ k hk =>
      obtain ⟨x, hx⟩ := mkRow k hk
      obtain ⟨y, hy⟩ := mkPlus 0 (by rw [nPlus_genpow]; omega)
      refine ⟨.inr ⟨⟨I, hi⟩, .inl x⟩, .inl (.inr ⟨⟨I, hi⟩, y⟩), ?_, ?_, rfl⟩
      · rw [flatPos_row, hx]; rfl
      · rw [flatPos_plus, hy]
        show auxPos A.n cones I (nMinus cones[I] + 0) = _
        rw [hci, nMinus_genpow]; rfl
    | gpD a b _ _ j hj =>
      rcases (by omega : j = 0 ∨ j = 1 ∨ j = 2) with rfl | rfl | rfl
      · obtain ⟨y, hy⟩ := mkMinus 0 (by rw [nMinus_genpow]; omega)
        refine ⟨.inr ⟨⟨I, hi⟩, .inr y⟩, .inr ⟨⟨I, hi⟩, .inr y⟩, ?_, ?_, rfl, rfl⟩
        · rw [flatPos_minus, hy]; rfl
        · rw [flatPos_minus, hy]; rfl
      · obtain ⟨y, hy⟩ := mkMinus 1 (by rw [nMinus_genpow]; omega)
        refine ⟨.inr ⟨⟨I, hi⟩, .inr y⟩, .inr ⟨⟨I, hi⟩, .inr y⟩, ?_, ?_, rfl, rfl⟩
        · rw [flatPos_minus, hy]; rfl
        · rw [flatPos_minus, hy]; rfl
      · obtain ⟨y, hy⟩ := mkPlus 0 (by rw [nPlus_genpow]; omega)
        have e : flatPos A.n cones (.inl (.inr ⟨⟨I, hi⟩, y⟩))
            = A.n + mTot cones + pre conePdim cones I + 2 := by
          rw [flatPos_plus, hy]
          show auxPos A.n cones I (nMinus cones[I] + 0) = _
          rw [hci, nMinus_genpow]; rfl
        exact ⟨.inl (.inr ⟨⟨I, hi⟩, y⟩), .inl (.inr ⟨⟨I, hi⟩, y⟩), e, e, rfl, rfl⟩

/-- **away from the `Pat` pairs the symmetric meaning vanishes**, whatever the value array -/
theorem symOf_zero_of_not_pat (R : AsmRun P A cones .triu K map sched Kc nd)
    (hin : KktInputs P A cones) (nz : Array α) (a b : KktIdx A.n cones)
    (h1 : ¬ Pat A.n cones a b) (h2 : ¬ Pat A.n cones b a) :
    symOf ({ K with nzval := nz } : Csc α) (flatPos A.n cones a) (flatPos A.n cones b) = 0 := by
  have key : ∀ a b : KktIdx A.n cones, ¬ Pat A.n cones a b →
      flatPos A.n cones a ≤ flatPos A.n cones b →
      symOf ({ K with nzval := nz } : Csc α) (flatPos A.n cones a) (flatPos A.n cones b) = 0 := by
    intro a b hp hle
    apply symOf_not_intended R hin nz hle
    intro v hv
    obtain ⟨a', b', ea, eb, hpat⟩ := intended_idx hin hv
    rw [flatPos_injective _ _ ea, flatPos_injective _ _ eb] at hpat
    exact hp hpat
  rcases Nat.le_total (flatPos A.n cones a) (flatPos A.n cones b) with hle | hle
  · exact key a b h1 hle
  · rw [symOf_comm]; exact key b a h2 hle

end pat


-- ====================================================================================
-- (4) a symmetric function with the entries of `listKkt` IS `listKkt`
-- ====================================================================================

section abstract
open Clarabel.Lemmas.KktInertia Clarabel.Lemmas.KktInertiaList
variable {α : Type} [Field α] [LinearOrder α] [IsStrictOrderedRing α]

/-- the coupling block of `listKkt` READ BACK from a function on columns -/
def couplingOf (n : Nat) (cones : List ConeSpec) (S : Nat → Nat → α) :
    (Σ i : Fin cones.length, Fin (cones[i].numel) ⊕ Fin (nMinus cones[i])) →
      Fin n ⊕ (Σ i : Fin cones.length, Fin (nPlus cones[i])) → α :=
  fun z y => S (flatPos n cones (.inr z)) (flatPos n cones (.inl y))

/-- [F] **a symmetric function on the columns whose entries at the flat positions are the blocks of
`listKkt` (and which vanishes away from the `Pat` pairs) is `listKkt` transported along
`flatPos`**; the coupling block `B` is whatever the function holds there. -/
theorem listKkt_of_entries (n : Nat) (cones : List ConeSpec) (S : Nat → Nat → α)
    (hsym : ∀ i j, S i j = S j i)
    (Pd : Fin n → Fin n → α) (ep : (Σ i : Fin cones.length, Fin (nPlus cones[i])) → α)
    (H : ∀ i : Fin cones.length, Fin (cones[i].numel) → Fin (cones[i].numel) → α)
    (V : ∀ i : Fin cones.length, Fin (nMinus cones[i]) → Fin (cones[i].numel) → α)
    (e : ∀ i : Fin cones.length, Fin (nMinus cones[i]) → α) (ε : α)
    (F1 : ∀ x x' : Fin n, S x.val x'.val = Pd x x' + if x = x' then ε else 0)
    (F2 : ∀ p, S (flatPos n cones (.inl (.inr p))) (flatPos n cones (.inl (.inr p))) = ep p + ε)
    (F3 : ∀ i a a', S (flatPos n cones (.inr ⟨i, .inl a⟩)) (flatPos n cones (.inr ⟨i, .inl a'⟩))
      = -(H i a a' + if a = a' then ε else 0))
    (F4 : ∀ i a c, S (flatPos n cones (.inr ⟨i, .inl a⟩)) (flatPos n cones (.inr ⟨i, .inr c⟩))
      = -(V i c a))
    (F5 : ∀ i c, S (flatPos n cones (.inr ⟨i, .inr c⟩)) (flatPos n cones (.inr ⟨i, .inr c⟩))
      = -(e i c + ε))
    (Z : ∀ a b, ¬ Pat n cones a b → ¬ Pat n cones b a →
      S (flatPos n cones a) (flatPos n cones b) = 0)
    (a b : KktIdx n cones) :
    S (flatPos n cones a) (flatPos n cones b)
      = listKkt Pd ep (couplingOf n cones S) H V e ε a b := by
  rcases a with (x | p) | ⟨i, u⟩ <;> rcases b with (x' | p') | ⟨j, u'⟩
  · exact F1 x x'
  · rw [Z (.inl (.inl x)) (.inl (.inr p')) (fun h => h) (fun h => h)]
    rfl
  · show _ = couplingOf n cones S ⟨j, u'⟩ (.inl x)
    exact hsym _ _
  · rw [Z (.inl (.inr p)) (.inl (.inl x')) (fun h => h) (fun h => h)]
    rfl
  · by_cases hpp : p = p'
    · subst hpp
      rw [F2]
      simp [listKkt, blockK, dsum, diagM]
    · rw [Z _ _ ?_ ?_]
      · simp [listKkt, blockK, dsum, diagM, hpp]
      · obtain ⟨i, b⟩ := p
        obtain ⟨i', b'⟩ := p'
        rintro ⟨h1, h2⟩
        obtain rfl : i = i' := Fin.ext h1
        obtain rfl : b = b' := Fin.ext h2
        exact hpp rfl
      · obtain ⟨i, b⟩ := p
        obtain ⟨i', b'⟩ := p'
        rintro ⟨h1, h2⟩
        obtain rfl : i' = i := Fin.ext h1
        obtain rfl : b' = b := Fin.ext h2
        exact hpp rfl
  · show _ = couplingOf n cones S ⟨j, u'⟩ (.inr p)
    exact hsym _ _
  · rfl
  · rfl
  · by_cases hij : i = j
    · subst hij
      have hsd : listKkt Pd ep (couplingOf n cones S) H V e ε (.inr ⟨i, u⟩) (.inr ⟨i, u'⟩)
          = -(expBlock (H i) (V i) (e i) ε u u') := by
        simp [listKkt, blockK, sigmaDiag]
      rw [hsd]
      rcases u with a | c <;> rcases u' with a' | c'
      · rw [F3]; rfl
      · rw [F4]; rfl
      · rw [hsym, F4]; rfl
      · by_cases hcc : c = c'
        · subst hcc
          rw [F5]
          simp [expBlock]
        · rw [Z _ _ ?_ ?_]
          · simp [expBlock, hcc]
          · rintro ⟨_, h2⟩
            exact hcc (Fin.ext h2)
          · rintro ⟨_, h2⟩
            exact hcc (Fin.ext h2.symm)
    · have hval : i.val ≠ j.val := fun h => hij (Fin.ext h)
      rw [Z _ _ ?_ ?_]
      · simp [listKkt, blockK, sigmaDiag, hij]
      · rcases u with a | c <;> rcases u' with a' | c'
        · rintro ⟨h1, _⟩; exact hval h1
        · rintro ⟨h1, _⟩; exact hval h1
        · exact fun h => h
        · rintro ⟨h1, _⟩; exact hval h1
      · rcases u with a | c <;> rcases u' with a' | c'
        · rintro ⟨h1, _⟩; exact hval h1.symm
        · exact fun h => h
        · rintro ⟨h1, _⟩; exact hval h1.symm
        · rintro ⟨h1, _⟩; exact hval h1.symm

end abstract


-- ====================================================================================
-- (5) the `± ε` writes of `regularize_and_refactor`, on the symmetric meaning
-- ====================================================================================

section regularize
variable {α : Type} [Field α] [LinearOrder α] [IsStrictOrderedRing α] [FloatLike α]

/-- [F] **a rewrite of the diagonal positions rewrites the diagonal of the symmetric meaning and
nothing else**: `df[c]` is the position of `(c, c)` for every column, positions outside `df` keep
their value, position `df[k]` goes from `d` to `sh k d`. -/
theorem symOf_diag_rewrite {K : Csc α} {N : Nat} (hpat : PatOK K N) (nz nzF : Array α)
    (df : Array Nat) (sh : Nat → α → α) (hdf : df.size = N)
    (hslot : ∀ c (hc : c < df.size), InCol K df[c] c ∧ K.rowval.getD df[c] 0 = c)
    (hframe : ∀ j, j ∉ df.toList → nzF[j]? = nz[j]?)
    (hshift : ∀ k (hk : k < df.size), ∃ d, nz[df[k]]? = some d ∧ nzF[df[k]]? = some (sh k d))
    (r c : Nat) (hr : r < N) (hc : c < N) :
    symOf ({ K with nzval := nzF } : Csc α) r c
      = if r = c then sh r (symOf ({ K with nzval := nz } : Csc α) r r)
        else symOf ({ K with nzval := nz } : Csc α) r c := by
  have key : ∀ r c, r < N → c < N → r ≤ c →
      symOf ({ K with nzval := nzF } : Csc α) r c
        = if r = c then sh r (symOf ({ K with nzval := nz } : Csc α) r r)
          else symOf ({ K with nzval := nz } : Csc α) r c := by
    intro r c hr hc hrc
    by_cases hs : ∃ t, InCol K t c ∧ K.rowval.getD t 0 = r
    · obtain ⟨t, ht, htr⟩ := hs
      rw [symOf_slot hpat nzF ht htr hrc]
      by_cases hrc' : r = c
      · subst hrc'
        rw [if_pos rfl, symOf_slot hpat nz ht htr hrc]
        obtain ⟨hd1, hd2⟩ := hslot r (by omega)
        have htd : t = df[r]'(by omega) :=
          hpat.nodup r t _ ht.1 ht.2 hd1.1 hd1.2 (by rw [htr, hd2])
        obtain ⟨d, e1, e2⟩ := hshift r (by omega)
        rw [htd]
        simp [Array.getD_eq_getD_getElem?, e1, e2]
      · rw [if_neg hrc', symOf_slot hpat nz ht htr hrc]
        have hnot : t ∉ df.toList := by
          intro hmem
          obtain ⟨k, hk, hkt⟩ := List.mem_iff_getElem.mp hmem
          have hk' : k < df.size := by simpa using hk
          obtain ⟨hd1, hd2⟩ := hslot k hk'
          have e : df[k] = t := by simpa using hkt
          rw [e] at hd1 hd2
          have := hpat.col_unique hd1 ht
          omega
        have := hframe t hnot
        simp [Array.getD_eq_getD_getElem?, this]
    · have hno : ∀ t, InCol K t c → K.rowval.getD t 0 ≠ r := fun t ht htr => hs ⟨t, ht, htr⟩
      have hrc' : r ≠ c := by
        intro h
        subst h
        obtain ⟨hd1, hd2⟩ := hslot r (by omega)
        exact hno _ hd1 hd2
      rw [if_neg hrc', symOf_empty nzF hrc hno, symOf_empty nz hrc hno]
  rcases Nat.le_total r c with hle | hle
  · exact key r c hr hc hle
  · rw [symOf_comm, key c r hc hr hle]
    by_cases h : c = r
    · subst h; simp
    · rw [if_neg h, if_neg (fun h' => h h'.symm), symOf_comm]

end regularize

end Clarabel.Lemmas.KktSymOfEntries
