/-
  Helper lemmas about the presolve model (`ClarabelModel/Presolve.lean`).
  Pure list reasoning — no Mathlib.
-/
import ClarabelModel.Presolve
import ClarabelProofs.Lemmas.PresolveCollapse

namespace Clarabel
namespace Presolve
open Cones
variable {α : Type}

theorem count_true_eq_filter_id (l : List Bool) : l.count true = (l.filter id).length := by
  induction l with
  | nil => rfl
  | cons b r ih => cases b <;> simp [ih]

/-! ### `inNonnegFrom` -/

theorem inNonnegFrom_lt (cs : List (ConeT α)) (start i : Nat) (h : i < start) :
    inNonnegFrom start cs i = false := by
  induction cs generalizing start with
  | nil => rfl
  | cons c r ih =>
    simp only [inNonnegFrom, Bool.or_eq_false_iff, Bool.and_eq_false_imp, Bool.and_eq_true,
      decide_eq_true_eq, decide_eq_false_iff_not]
    exact ⟨fun ⟨_, h1⟩ => by omega, ih _ (by omega)⟩

theorem inNonnegFrom_shift (cs : List (ConeT α)) (start k i : Nat) :
    inNonnegFrom (start + k) cs (i + k) = inNonnegFrom start cs i := by
  induction cs generalizing start with
  | nil => rfl
  | cons c r ih =>
    simp only [inNonnegFrom]
    rw [show start + k + c.nvars = (start + c.nvars) + k by omega, ih]
    congr 1
    have e1 : decide (start + k ≤ i + k) = decide (start ≤ i) := by simp
    have e2 : decide (i + k < start + c.nvars + k) = decide (i < start + c.nvars) := by simp
    rw [e1, e2]

/-! ### `keepFlags` (the keep vector of `make_reduction_map`) -/

section keep
variable [LT α] [DecidableLT α]

theorem keepFlags_cons_other (thr : α) (c : ConeT α) (cs : List (ConeT α)) (bs : List α)
    (hc : c.isNonneg = false) :
    keepFlags thr (c :: cs) bs =
      (do let rest ← keepFlags thr cs (bs.drop c.nvars)
          pure ((bs.take c.nvars).map (fun _ => true) ++ rest)) := by
  cases c with
  | nonneg n => simp [ConeT.isNonneg] at hc
  | _ => simp only [keepFlags]

omit [LT α] [DecidableLT α] in
theorem reduceConesWith_cons_other (keep : List Bool) (c : ConeT α) (cs : List (ConeT α))
    (hc : c.isNonneg = false) :
    reduceConesWith keep (c :: cs) = c :: reduceConesWith (keep.drop c.nvars) cs := by
  cases c with
  | nonneg n => simp [ConeT.isNonneg] at hc
  | _ => simp only [reduceConesWith]

omit [LT α] [DecidableLT α] in
theorem inNonnegFrom_cons_other (start : Nat) (c : ConeT α) (cs : List (ConeT α)) (i : Nat)
    (hc : c.isNonneg = false) :
    inNonnegFrom start (c :: cs) i = inNonnegFrom (start + c.nvars) cs i := by
  simp [inNonnegFrom, hc]

/-- specification of the keep vector, cone by cone -/
theorem keepFlags_spec (thr : α) (cones : List (ConeT α)) (bs : List α)
    (h : numel cones = bs.length) :
    ∃ keep, keepFlags thr cones bs = .ok keep ∧ keep.length = bs.length ∧
      ∀ i (hi : i < bs.length), keep[i]? = some false ↔ (inNonnegFrom 0 cones i = true ∧ thr < bs[i]) := by
  induction cones generalizing bs with
  | nil =>
    simp only [numel] at h
    have : bs = [] := List.length_eq_zero_iff.mp h.symm
    subst this
    exact ⟨[], rfl, rfl, fun i hi => absurd hi (by simp)⟩
  | cons c cs ih =>
    simp only [numel] at h
    have hlen : c.nvars ≤ bs.length := by omega
    have hrest : numel cs = (bs.drop c.nvars).length := by simp; omega
    obtain ⟨rest, hr, hrl, hrs⟩ := ih (bs.drop c.nvars) hrest
    -- position lemma shared by both cases
    have tailcase : ∀ (seg : List Bool), seg.length = c.nvars →
        ∀ i (hi : i < bs.length), c.nvars ≤ i →
        ((seg ++ rest)[i]? = some false ↔
          (inNonnegFrom (0 + c.nvars) cs i = true ∧ thr < bs[i])) := by
      intro seg hseg i hi hge
      rw [List.getElem?_append_right (by omega), hseg]
      have hi' : i - c.nvars < (bs.drop c.nvars).length := by simp; omega
      rw [hrs (i - c.nvars) hi']
      have e := inNonnegFrom_shift cs 0 c.nvars (i - c.nvars)
      rw [show i - c.nvars + c.nvars = i by omega] at e
      rw [e]
      have : (bs.drop c.nvars)[i - c.nvars] = bs[i] := by
        rw [List.getElem_drop]; congr 1; omega
      rw [this]
    have other : ∀ (c' : ConeT α), c' = c → c.isNonneg = false →
        ∃ keep, keepFlags thr (c :: cs) bs = .ok keep ∧ keep.length = bs.length ∧
          ∀ i (hi : i < bs.length), keep[i]? = some false ↔ (inNonnegFrom 0 (c :: cs) i = true ∧ thr < bs[i]) := by
      intro _ _ hc
      refine ⟨(bs.take c.nvars).map (fun _ => true) ++ rest, ?_, ?_, ?_⟩
      · rw [keepFlags_cons_other thr c cs bs hc, hr]; rfl
      · simp [hrl]; omega
      · intro i hi
        rw [inNonnegFrom_cons_other 0 c cs i hc]
        by_cases hin : i < c.nvars
        · rw [List.getElem?_append_left (by simp; omega)]
          rw [inNonnegFrom_lt cs _ i (by omega)]
          simp only [List.getElem?_map, List.getElem?_take_of_lt hin, List.getElem?_eq_getElem hi]
          simp
        · exact tailcase ((bs.take c.nvars).map (fun _ => true)) (by simp; omega) i hi (by omega)
    cases c with
    | nonneg n =>
      simp only [ConeT.nvars, List.length_drop] at hlen hrest hr tailcase hrl
      refine ⟨(bs.take n).map (fun v => if thr < v then false else true) ++ rest, ?_, ?_, ?_⟩
      · simp only [keepFlags]
        rw [if_neg (by omega), hr]; rfl
      · simp [hrl]; omega
      · intro i hi
        by_cases hin : i < n
        · rw [List.getElem?_append_left (by simp; omega)]
          simp only [inNonnegFrom, ConeT.isNonneg, ConeT.nvars, Nat.zero_le, decide_true, Bool.and_true,
            Bool.true_and, Nat.zero_add]
          rw [inNonnegFrom_lt cs n i hin]
          simp only [List.getElem?_map, decide_eq_true hin, Bool.or_false, true_and]
          rw [List.getElem?_take_of_lt hin, List.getElem?_eq_getElem hi]
          simp only [Option.map_some, Option.some.injEq]
          by_cases hc : thr < bs[i] <;> simp [hc]
        · have := tailcase ((bs.take n).map (fun v => if thr < v then false else true))
            (by simp; omega) i hi (by omega)
          rw [this]
          simp only [inNonnegFrom, ConeT.isNonneg, ConeT.nvars, Nat.zero_add]
          have : decide (i < n) = false := by simp; omega
          simp [this]
    | zero n | soc n | psd n | exp | pow a | genpow αs d2 =>
      all_goals
        exact other _ rfl rfl

/-- `Σ nvars` of the reduced cone list is the number of kept rows -/
theorem numel_reduceConesWith_keepFlags (thr : α) (cones : List (ConeT α)) (bs : List α)
    (keep : List Bool) (h : numel cones = bs.length) (hk : keepFlags thr cones bs = .ok keep) :
    numel (reduceConesWith keep cones) = keep.count true := by
  induction cones generalizing bs keep with
  | nil =>
    simp only [numel] at h
    have : bs = [] := List.length_eq_zero_iff.mp h.symm
    subst this
    simp only [keepFlags, List.map_nil] at hk
    cases hk
    rfl
  | cons c cs ih =>
    simp only [numel] at h
    have hrest : numel cs = (bs.drop c.nvars).length := by simp; omega
    obtain ⟨rest, hr, hrl, _⟩ := keepFlags_spec thr cs (bs.drop c.nvars) hrest
    have ihr := ih (bs.drop c.nvars) rest hrest hr
    have other : c.isNonneg = false → numel (reduceConesWith keep (c :: cs)) = keep.count true := by
      intro hc
      rw [keepFlags_cons_other thr c cs bs hc, hr] at hk
      cases hk
      have hsl : ((bs.take c.nvars).map (fun _ => true)).length = c.nvars := by simp; omega
      rw [reduceConesWith_cons_other _ c cs hc]
      rw [List.drop_append_of_le_length (by omega), List.drop_of_length_le (by omega), List.nil_append,
        List.count_append]
      simp only [numel, ihr]
      congr 1
      rw [List.count_eq_length.mpr (by intro b hb; obtain ⟨_, _, rfl⟩ := List.mem_map.mp hb; rfl)]
      exact hsl.symm
    cases c with
    | nonneg n =>
      simp only [ConeT.nvars] at h hrest hr
      simp only [keepFlags] at hk
      rw [if_neg (by omega), hr] at hk
      cases hk
      have hsl : ((bs.take n).map (fun v => if thr < v then false else true)).length = n := by
        simp; omega
      simp only [reduceConesWith]
      rw [List.take_append_of_le_length (by omega), List.take_of_length_le (by omega),
        List.drop_append_of_le_length (by omega), List.drop_of_length_le (by omega), List.nil_append,
        List.count_append]
      split
      · simp [numel, ConeT.nvars, ihr]
      · rename_i h0
        rw [ihr]; omega
    | zero n | soc n | psd n | exp | pow a | genpow αs d2 =>
      all_goals
        exact other rfl

end keep

/-! ### the reduced list needs no further consolidation -/

/-- the reduced cone list of a collapsed list is again in normal form (for any keep vector):
no further consolidation is needed after presolve -/
theorem normal_reduceConesWith (cones : List (ConeT α)) (keep : List Bool) (h : Normal cones) :
    Normal (reduceConesWith keep cones) := by
  induction cones generalizing keep with
  | nil => trivial
  | cons c cs ih =>
    by_cases hc : c.isNonneg = false
    · rw [reduceConesWith_cons_other _ c cs hc]
      exact Normal.cons_of_not_nonneg (ih _ h.tail) h.head hc
    · cases c with
      | nonneg n =>
        simp only [reduceConesWith]
        split
        · rename_i hk
          cases cs with
          | nil => exact good_nonneg (by omega)
          | cons d r =>
            have hd : d.isNonneg = false := by
              have := h.2.1
              simpa [ConeT.isNonneg] using this
            have := ih (keep.drop n) h.tail
            rw [reduceConesWith_cons_other _ d r hd] at this ⊢
            exact ⟨good_nonneg (by omega), by simp [hd], this⟩
        · exact ih _ h.tail
      | _ => simp [ConeT.isNonneg] at hc

/-! ### `reverseRows` -/

section rev
variable [OfNat α 0]

/-- list form of `select` -/
def selectL {β : Type} : List β → List Bool → List β
  | x :: xs, true :: ks => x :: selectL xs ks
  | _ :: xs, false :: ks => selectL xs ks
  | _, _ => []

theorem reverseRows_spec (inf : α) (keep : List Bool) (s z : List α)
    (hs : s.length = keep.count true) (hz : z.length = keep.count true) :
    ∃ rs rz : List α, reverseRows inf keep s z = .ok (rs, rz) ∧ rs.length = keep.length ∧ rz.length = keep.length ∧
      selectL rs keep = s ∧ selectL rz keep = z ∧
      (∀ i : Nat, keep[i]? = some false → rs[i]? = some inf ∧ rz[i]? = some 0) := by
  induction keep generalizing s z with
  | nil =>
    simp at hs hz; subst hs hz
    exact ⟨[], [], rfl, rfl, rfl, rfl, rfl, fun i h => by simp at h⟩
  | cons k ks ih =>
    cases k with
    | true =>
      simp only [List.count_cons_self] at hs hz
      match s, z, hs, hz with
      | s0 :: ss, z0 :: zs, hs, hz =>
        simp only [List.length_cons, Nat.add_right_cancel_iff] at hs hz
        obtain ⟨rs, rz, h1, h2, h3, h4, h5, h6⟩ := ih ss zs hs hz
        refine ⟨s0 :: rs, z0 :: rz, ?_, by simp [h2], by simp [h3], by simp [selectL, h4], by simp [selectL, h5], ?_⟩
        · simp only [reverseRows, h1]; rfl
        · intro i hi
          cases i with
          | zero => simp at hi
          | succ j => simpa using h6 j (by simpa using hi)
    | false =>
      have hs' : s.length = ks.count true := by simpa using hs
      have hz' : z.length = ks.count true := by simpa using hz
      obtain ⟨rs, rz, h1, h2, h3, h4, h5, h6⟩ := ih s z hs' hz'
      refine ⟨inf :: rs, 0 :: rz, ?_, by simp [h2], by simp [h3], by simp [selectL, h4], by simp [selectL, h5], ?_⟩
      · simp only [reverseRows, h1]; rfl
      · intro i hi
        cases i with
        | zero => simp
        | succ j => simpa using h6 j (by simpa using hi)

theorem length_selectL {β : Type} (v : List β) (keep : List Bool) (h : v.length = keep.length) :
    (selectL v keep).length = keep.count true := by
  induction keep generalizing v with
  | nil => cases v <;> simp [selectL]
  | cons k ks ih =>
    cases v with
    | nil => simp at h
    | cons x xs =>
      simp only [List.length_cons, Nat.add_right_cancel_iff] at h
      cases k <;> simp [selectL, ih xs h]

/-- reducing a full vector and restoring it gives back the kept entries -/
theorem reverseRows_selectL (inf : α) (keep : List Bool) (v w : List α)
    (hv : v.length = keep.length) (hw : w.length = keep.length) :
    ∃ rs rz : List α, reverseRows inf keep (selectL v keep) (selectL w keep) = .ok (rs, rz) ∧
      ∀ i : Nat, keep[i]? = some true → rs[i]? = v[i]? ∧ rz[i]? = w[i]? := by
  induction keep generalizing v w with
  | nil => exact ⟨[], [], by cases v <;> cases w <;> rfl, fun i h => by simp at h⟩
  | cons k ks ih =>
    match v, w, hv, hw with
    | x :: xs, y :: ys, hv, hw =>
      simp only [List.length_cons, Nat.add_right_cancel_iff] at hv hw
      obtain ⟨rs, rz, h1, h2⟩ := ih xs ys hv hw
      cases k with
      | true =>
        refine ⟨x :: rs, y :: rz, by simp only [selectL, reverseRows, h1]; rfl, ?_⟩
        intro i hi
        cases i with
        | zero => simp
        | succ j => simpa using h2 j (by simpa using hi)
      | false =>
        refine ⟨inf :: rs, 0 :: rz, by simp only [selectL, reverseRows, h1]; rfl, ?_⟩
        intro i hi
        cases i with
        | zero => simp at hi
        | succ j => simpa using h2 j (by simpa using hi)

end rev

/-! ### the module-level bound -/

theorem InfWorld.foldl_captured_prefix (dflt : α) (ops : List (InfOp α)) (w : InfWorld α) :
    ∃ ext, (ops.foldl (InfWorld.step dflt) w).captured = w.captured ++ ext := by
  induction ops generalizing w with
  | nil => exact ⟨[], by simp⟩
  | cons o r ih =>
    obtain ⟨ext, he⟩ := ih (InfWorld.step dflt w o)
    cases o with
    | set v => exact ⟨ext, by simpa [InfWorld.step] using he⟩
    | default => exact ⟨ext, by simpa [InfWorld.step] using he⟩
    | new => exact ⟨w.current :: ext, by simpa [InfWorld.step] using he⟩

end Presolve
end Clarabel
