/-
  `forest_flow`: the edge-node incidence matrix of a rooted forest has as range the vectors that
  sum to zero on every tree.  Nodes are naturals `< D`, edge `o < N` goes from the child `c o` to
  the parent `p o < c o`, every node is the child of at most one edge, and `cls ρ r` says that
  node `ρ` lies in tree `r`.  The flow on the edge above a node is the sum of `res` over the
  subtree hanging from that node (`W`); at a root the subtree is the whole tree, whose sum is zero.
-/
import Mathlib.Algebra.BigOperators.Group.Finset.Basic
import Mathlib.Algebra.BigOperators.Group.Finset.Piecewise
import Mathlib.Algebra.BigOperators.Group.Finset.Sigma
import Mathlib.Algebra.Group.Basic
import Mathlib.Logic.Function.Basic

namespace Clarabel.Chordal
open Finset

/-- subtree sums: `W ρ = res ρ + Σ_{children} W child`, built from the largest node downwards -/
theorem ff_exists_W {α : Type} [AddCommGroup α] (D N : Nat) (c p : Nat → Nat) (res : Nat → α)
    (hpc : ∀ o, o < N → p o < c o) :
    ∀ k m, m + k = D → ∃ W : Nat → α, ∀ ρ, m ≤ ρ → ρ < D →
      W ρ = res ρ + ∑ o ∈ range N, if p o = ρ then W (c o) else 0 := by
  intro k
  induction k with
  | zero => intro m hm; exact ⟨fun _ => 0, fun ρ h1 h2 => by omega⟩
  | succ k ih =>
    intro m hm
    obtain ⟨W, hW⟩ := ih (m + 1) (by omega)
    obtain ⟨v, hv⟩ : ∃ v, v = res m + ∑ o ∈ range N, if p o = m then W (c o) else 0 := ⟨_, rfl⟩
    have hsame : ∀ ρ, m ≤ ρ →
        (∑ o ∈ range N, if p o = ρ then Function.update W m v (c o) else 0)
          = ∑ o ∈ range N, if p o = ρ then W (c o) else 0 := by
      intro ρ hρ
      refine Finset.sum_congr rfl (fun o ho => ?_)
      by_cases h : p o = ρ
      · rw [if_pos h, if_pos h, Function.update_of_ne]
        have := hpc o (mem_range.1 ho)
        omega
      · rw [if_neg h, if_neg h]
    refine ⟨Function.update W m v, fun ρ h1 h2 => ?_⟩
    rw [hsame ρ h1]
    by_cases h : ρ = m
    · rw [h, Function.update_self, hv]
    · rw [Function.update_of_ne h]
      exact hW ρ (by omega) h2

/-- a node is the child of at most one edge -/
theorem ff_single {α : Type} [AddCommGroup α] (N : Nat) (c : Nat → Nat)
    (hcinj : ∀ o o', o < N → o' < N → c o = c o' → o = o') (g : Nat → α) (ρ : Nat) :
    (∑ o ∈ range N, if c o = ρ then g (c o) else 0)
      = if (∃ o, o < N ∧ c o = ρ) then g ρ else 0 := by
  by_cases h : ∃ o, o < N ∧ c o = ρ
  · rw [if_pos h]
    obtain ⟨o0, ho0, rfl⟩ := h
    rw [Finset.sum_eq_single o0]
    · rw [if_pos rfl]
    · intro o ho hne
      rw [if_neg]
      intro e
      exact hne (hcinj o o0 (mem_range.1 ho) ho0 e)
    · intro hn
      exact absurd (mem_range.2 ho0) hn
  · rw [if_neg h]
    refine Finset.sum_eq_zero (fun o ho => ?_)
    rw [if_neg]
    intro e
    exact h ⟨o, mem_range.1 ho, e⟩

/-- a sum over the edges of a function of the child is a sum over the nodes that have a parent -/
theorem ff_sum_child {α : Type} [AddCommGroup α] (D N : Nat) (c : Nat → Nat)
    (hcD : ∀ o, o < N → c o < D)
    (hcinj : ∀ o o', o < N → o' < N → c o = c o' → o = o') (g : Nat → α) :
    (∑ o ∈ range N, g (c o))
      = ∑ ρ ∈ range D, if (∃ o, o < N ∧ c o = ρ) then g ρ else 0 := by
  have h1 : (∑ o ∈ range N, g (c o))
      = ∑ o ∈ range N, ∑ ρ ∈ range D, if c o = ρ then g (c o) else 0 := by
    refine Finset.sum_congr rfl (fun o ho => ?_)
    rw [Finset.sum_ite_eq, if_pos (mem_range.2 (hcD o (mem_range.1 ho)))]
  rw [h1, Finset.sum_comm]
  refine Finset.sum_congr rfl (fun ρ _ => ?_)
  exact ff_single N c hcinj g ρ

open Classical in
/-- the subtree sums of the roots of one tree add up to the sum of `res` over that tree -/
theorem ff_root_sum {α : Type} [AddCommGroup α] (D N : Nat) (c p : Nat → Nat) (res W : Nat → α)
    (P : Nat → Prop)
    (hpc : ∀ o, o < N → p o < c o) (hcD : ∀ o, o < N → c o < D)
    (hcinj : ∀ o o', o < N → o' < N → c o = c o' → o = o')
    (hcl : ∀ o, o < N → (P (c o) ↔ P (p o)))
    (hW : ∀ ρ, ρ < D → W ρ = res ρ + ∑ o ∈ range N, if p o = ρ then W (c o) else 0) :
    (∑ ρ ∈ range D, if P ρ ∧ ¬ (∃ o, o < N ∧ c o = ρ) then W ρ else 0)
      = ∑ ρ ∈ range D, if P ρ then res ρ else 0 := by
  -- the sum of `W` over the tree, split into roots and non-roots
  have hsplit : (∑ ρ ∈ range D, if P ρ then W ρ else 0)
      = (∑ ρ ∈ range D, if P ρ ∧ (∃ o, o < N ∧ c o = ρ) then W ρ else 0)
        + ∑ ρ ∈ range D, if P ρ ∧ ¬ (∃ o, o < N ∧ c o = ρ) then W ρ else 0 := by
    rw [← Finset.sum_add_distrib]
    refine Finset.sum_congr rfl (fun ρ _ => ?_)
    by_cases h1 : P ρ
    · by_cases h2 : ∃ o, o < N ∧ c o = ρ
      · rw [if_pos h1, if_pos ⟨h1, h2⟩, if_neg (fun h => h.2 h2), add_zero]
      · rw [if_pos h1, if_neg (fun h => h2 h.2), if_pos ⟨h1, h2⟩, zero_add]
    · rw [if_neg h1, if_neg (fun h => h1 h.1), if_neg (fun h => h1 h.1), add_zero]
  -- the same sum through the recursion
  have hrec : (∑ ρ ∈ range D, if P ρ then W ρ else 0)
      = (∑ ρ ∈ range D, if P ρ then res ρ else 0)
        + ∑ ρ ∈ range D, ∑ o ∈ range N, if p o = ρ then (if P (c o) then W (c o) else 0) else 0 := by
    rw [← Finset.sum_add_distrib]
    refine Finset.sum_congr rfl (fun ρ hρ => ?_)
    by_cases h1 : P ρ
    · rw [if_pos h1, if_pos h1, hW ρ (mem_range.1 hρ)]
      congr 1
      refine Finset.sum_congr rfl (fun o ho => ?_)
      by_cases h2 : p o = ρ
      · rw [if_pos h2, if_pos h2, if_pos]
        rw [hcl o (mem_range.1 ho), h2]
        exact h1
      · rw [if_neg h2, if_neg h2]
    · rw [if_neg h1, if_neg h1, zero_add]
      symm
      refine Finset.sum_eq_zero (fun o ho => ?_)
      by_cases h2 : p o = ρ
      · rw [if_pos h2, if_neg]
        rw [hcl o (mem_range.1 ho), h2]
        exact h1
      · rw [if_neg h2]
  -- the edge sum is the sum over the non-roots
  have hedge : (∑ ρ ∈ range D, ∑ o ∈ range N,
        if p o = ρ then (if P (c o) then W (c o) else 0) else 0)
      = ∑ ρ ∈ range D, if P ρ ∧ (∃ o, o < N ∧ c o = ρ) then W ρ else 0 := by
    rw [Finset.sum_comm]
    have h1 : (∑ o ∈ range N, ∑ ρ ∈ range D,
          if p o = ρ then (if P (c o) then W (c o) else 0) else 0)
        = ∑ o ∈ range N, (fun ρ => if P ρ then W ρ else 0) (c o) := by
      refine Finset.sum_congr rfl (fun o ho => ?_)
      rw [Finset.sum_ite_eq, if_pos]
      have h1 := hpc o (mem_range.1 ho)
      have h2 := hcD o (mem_range.1 ho)
      exact mem_range.2 (by omega)
    rw [h1, ff_sum_child D N c hcD hcinj (fun ρ => if P ρ then W ρ else 0)]
    refine Finset.sum_congr rfl (fun ρ _ => ?_)
    show (if (∃ o, o < N ∧ c o = ρ) then (if P ρ then W ρ else 0) else 0) = _
    by_cases h1 : P ρ
    · by_cases h2 : ∃ o, o < N ∧ c o = ρ
      · rw [if_pos h2, if_pos h1, if_pos (⟨h1, h2⟩ : P ρ ∧ ∃ o, o < N ∧ c o = ρ)]
      · rw [if_neg h2, if_neg (fun h : P ρ ∧ ∃ o, o < N ∧ c o = ρ => h2 h.2)]
    · rw [if_neg (fun h : P ρ ∧ ∃ o, o < N ∧ c o = ρ => h1 h.1)]
      by_cases h2 : ∃ o, o < N ∧ c o = ρ
      · rw [if_pos h2, if_neg h1]
      · rw [if_neg h2]
  rw [hedge, hsplit, add_comm] at hrec
  exact add_right_cancel hrec

open Classical in
theorem forest_flow {α : Type} [AddCommGroup α] (D N : Nat) (c p : Nat → Nat) (res : Nat → α)
    (cls : Nat → Nat → Prop)
    (hpc : ∀ o, o < N → p o < c o) (hcD : ∀ o, o < N → c o < D)
    (hcinj : ∀ o o', o < N → o' < N → c o = c o' → o = o')
    (hcl : ∀ o, o < N → ∀ r, (cls (c o) r ↔ cls (p o) r))
    (hcov : ∀ ρ, ρ < D → ∃ r, cls ρ r)
    (hroot : ∀ r ρ1 ρ2, ρ1 < D → ρ2 < D → cls ρ1 r → cls ρ2 r →
        (∀ o, o < N → c o ≠ ρ1) → (∀ o, o < N → c o ≠ ρ2) → ρ1 = ρ2)
    (hsum : ∀ r, (∑ ρ ∈ range D, if cls ρ r then res ρ else 0) = 0) :
    ∃ w : Nat → α, ∀ ρ, ρ < D →
      (∑ o ∈ range N, ((if c o = ρ then w o else 0) - (if p o = ρ then w o else 0))) = res ρ := by
  obtain ⟨W, hW0⟩ := ff_exists_W D N c p res hpc D 0 (by omega)
  have hW : ∀ ρ, ρ < D → W ρ = res ρ + ∑ o ∈ range N, if p o = ρ then W (c o) else 0 :=
    fun ρ h => hW0 ρ (Nat.zero_le _) h
  -- the subtree sum of a root is zero
  have hrootW : ∀ ρ, ρ < D → ¬ (∃ o, o < N ∧ c o = ρ) → W ρ = 0 := by
    intro ρ0 hρ0 hr0
    obtain ⟨r, hr⟩ := hcov ρ0 hρ0
    have h := ff_root_sum D N c p res W (fun ρ => cls ρ r) hpc hcD hcinj
      (fun o ho => hcl o ho r) hW
    rw [hsum r, Finset.sum_eq_single ρ0] at h
    · rw [if_pos ⟨hr, hr0⟩] at h
      exact h
    · intro ρ hρ hne
      rw [if_neg]
      rintro ⟨h1, h2⟩
      exact hne (hroot r ρ ρ0 (mem_range.1 hρ) hρ0 h1 hr
        (fun o ho e => h2 ⟨o, ho, e⟩) (fun o ho e => hr0 ⟨o, ho, e⟩))
    · intro hn
      exact absurd (mem_range.2 hρ0) hn
  refine ⟨fun o => W (c o), fun ρ hρ => ?_⟩
  rw [Finset.sum_sub_distrib, ff_single N c hcinj W ρ]
  have hWρ := hW ρ hρ
  by_cases h : ∃ o, o < N ∧ c o = ρ
  · rw [if_pos h]
    rw [hWρ, add_sub_cancel_right]
  · rw [if_neg h, zero_sub]
    rw [hrootW ρ hρ h] at hWρ
    exact (eq_neg_of_add_eq_zero_left hWρ.symm).symm

end Clarabel.Chordal
