/-
  Panic-freedom of the whole-solver model (C04) — assembly of the stages.

  * `coneStage`, `topStage` : the composite-cone stage and the sparse-kernel / top-numerics stage
    are discharged unconditionally (the cone stage needs the one scalar law `FmaxOK`).
  * the composition theorems of `SolverModelNoPanicPass.lean` specialised to them.

  All structural ([S]).
-/
import ClarabelProofs.Lemmas.SolverModelNoPanicPass
import ClarabelProofs.Lemmas.SolverModelNoPanicConesA
import ClarabelProofs.Lemmas.SolverModelNoPanicConesB
import ClarabelProofs.Lemmas.SolverModelNoPanicTop

namespace Clarabel.Solver
open Clarabel Info Residuals

set_option linter.unusedSectionVars false
set_option linter.unusedVariables false

variable {α : Type}

section
variable [Add α] [Sub α] [Mul α] [Div α] [Neg α] [OfNat α 0] [OfNat α 1] [OfNat α 2]
  [OfNat α 100] [OfNat α 1000] [LT α] [DecidableLT α] [LE α] [DecidableLE α] [BEq α] [FloatLike α]

/-- [S] the composite-cone stage: every composite-cone operation the solver calls is total on
consistently sized cone objects (`ConesFull`) and vectors of the cone's dimension.  The only
law of the scalar type used is `FmaxOK` (for `_step_length_soc_component`'s
`panic!("starting point of line search not in SOC")`). -/
theorem coneStage (hf : FmaxOK α) : ConeStage α where
  setIdentity := fun _ h => setIdentityScaling_full h
  updateScaling := fun _ _ _ h hs hz => updateScaling_ok h hs hz
  affineDs := fun _ _ h hds => affineDs_ok h hds
  mulHs := fun _ _ _ h hy hx => mulHs_ok h hy hx
  combinedDsShift := fun _ _ _ _ σμ h h1 h2 h3 => combinedDsShift_ok σμ h h1 h2 h3
  dsFromDzOffset := fun _ _ _ _ h h1 h2 h3 => dsFromDzOffset_ok h h1 h2 h3
  stepLength := fun _ _ _ _ _ msf amax h h1 h2 h3 h4 => stepLength_ok msf amax hf h h1 h2 h3 h4
  shiftToConeInterior := fun _ _ primal h hz => shiftToConeInterior_ok primal h hz

/-- [S] the sparse kernels and the numerics at the top of a pass are total on well-formed data -/
theorem topStage : TopStage α where
  topNumerics := fun _ iter hd hv hr => topNumerics_ok iter hd hv hr
  quadForm := fun _ _ _ hA hsq ht hx hy => quadForm_ok hA hsq ht hx hy

/-- the stage bundle of a problem, from the linear-solver stage alone -/
theorem Stages.of_kkt {KIw KIs : KktSolver α → Prop} {d : ProblemData α} {specs : List Kkt.ConeSpec}
    {st : Settings α} (hf : FmaxOK α) (T : KktTotal2 KIw KIs specs d.n d.m st.lin) :
    Stages KIw KIs d specs st := ⟨coneStage hf, topStage, T⟩

end

end Clarabel.Solver
