/-
  PSD cone (C13): `mul_Hs` in matrix form, "the block written by `get_Hs` is the same
  operator as `mul_Hs`", and the LAPACK-free tail of `update_scaling` (`assembleScaling`)
  tied to the matrix-level Nesterov–Todd theorem `Psd.nt_scaling`.
-/
import ClarabelProofs.Lemmas.ConesPsdSkron
import ClarabelProofs.Lemmas.ConesPsd

namespace Clarabel.PsdTri
open PsdIndex (triangularNumber triangularIndex)
open Finset Matrix

/-! ## `mul_Hs` -/

/-- [R] `mul_Hs x = svec(R·(RᵀXR)·Rᵀ)` -/
theorem mulHs_eq (K : Cone ℝ) (x : Array ℝ) (hR : K.R.size = K.n * K.n)
    (hx : x.size = triangularNumber K.n) :
    mulHs K x = .ok (svecM (toM K.n (matOf K.n K.R)
      * ((toM K.n (matOf K.n K.R))ᵀ * toM K.n (svecToMat x) * toM K.n (matOf K.n K.R))
      * (toM K.n (matOf K.n K.R))ᵀ)) := by
  unfold mulHs mulW
  rw [mulWx_ok false K.n K.R x x 1 0 hR hx hx]
  simp only [bind, Except.bind]
  rw [mulWx_ok true K.n K.R _ _ 1 0 hR (size_mulWxInner _ _ _ _ _ _ _)
    (size_mulWxInner _ _ _ _ _ _ _)]
  congr 1
  rw [mulWxInner_T, toM_mulWxInner, one_smul, zero_smul, add_zero]
  simp [shapeM]

theorem matToSvec_axa (n : Nat) (A X : MatFn ℝ) :
    matToSvec n (axa n A X) = svecM (toM n A * toM n X * toM n A) := by
  rw [matToSvec_eq_svecM]
  unfold axa
  rw [toM_mm, toM_mm]

/-- [R] **same operator, dense (PSD) case**: if `Hs` is the packed `skron` of a symmetric `A`
with `A = RRᵀ`, the block `get_Hs` hands to the KKT assembly, read as a symmetric matrix and
applied to `x`, is exactly what `mul_Hs` returns. -/
theorem getHs_eq_mulHs (K : Cone ℝ) (A : MatFn ℝ) (x : Array ℝ) (hR : K.R.size = K.n * K.n)
    (hx : x.size = triangularNumber K.n) (hA : GSymm A) (hHs : K.Hs = skronPacked K.n A)
    (hAR : toM K.n A = toM K.n (matOf K.n K.R) * (toM K.n (matOf K.n K.R))ᵀ) :
    ∃ H y, getHs K (triangularNumber (triangularNumber K.n)) = .ok H ∧ mulHs K x = .ok y ∧
      symPackedMulVec (triangularNumber K.n) H x = y := by
  refine ⟨K.Hs, _, by simp [getHs]; rfl, mulHs_eq K x hR hx, ?_⟩
  rw [hHs, symPackedMulVec_skron K.n A hA x, matToSvec_axa, hAR]
  simp only [Matrix.mul_assoc]

/-! ## column-major storage -/

theorem colBlocks_succ (n m : Nat) (M : MatFn ℝ) :
    ((List.range (m + 1)).flatMap fun j => (List.range n).map fun i => M i j)
      = ((List.range m).flatMap fun j => (List.range n).map fun i => M i j)
        ++ (List.range n).map fun i => M i m := by
  rw [List.range_succ, List.flatMap_append]; simp

theorem length_colBlocks (n m : Nat) (M : MatFn ℝ) :
    ((List.range m).flatMap fun j => (List.range n).map fun i => M i j).length = n * m := by
  induction m with
  | zero => simp
  | succ m ih => rw [colBlocks_succ, List.length_append, ih]; simp [Nat.mul_succ]

theorem getElem?_colBlocks (n m : Nat) (M : MatFn ℝ) {i j : Nat} (hi : i < n) (hj : j < m) :
    ((List.range m).flatMap fun j => (List.range n).map fun i => M i j)[i + n * j]?
      = some (M i j) := by
  induction m with
  | zero => omega
  | succ m ih =>
    rw [colBlocks_succ]
    by_cases h : j < m
    · have hb : n * (j + 1) ≤ n * m := Nat.mul_le_mul_left n (by omega)
      rw [Nat.mul_succ] at hb
      rw [List.getElem?_append_left (by rw [length_colBlocks]; omega)]
      exact ih h
    · have hjm : j = m := by omega
      subst hjm
      rw [List.getElem?_append_right (by rw [length_colBlocks]; omega), length_colBlocks]
      simp only [Nat.add_sub_cancel]
      rw [List.getElem?_map, List.getElem?_range hi]
      rfl

theorem size_colMajor (n : Nat) (M : MatFn ℝ) : (colMajor n M).size = n * n := by
  simp only [colMajor, List.size_toArray, length_colBlocks]

/-- [S] reading back a materialised matrix -/
theorem matOf_colMajor (n : Nat) (M : MatFn ℝ) {i j : Nat} (hi : i < n) (hj : j < n) :
    matOf n (colMajor n M) i j = M i j := by
  unfold matOf colMajor
  rw [Array.getD_eq_getD_getElem?, List.getElem?_toArray, getElem?_colBlocks n n M hi hj]
  rfl

theorem toM_matOf_colMajor (n : Nat) (M : MatFn ℝ) : toM n (matOf n (colMajor n M)) = toM n M := by
  ext i j
  simp only [toM_apply]
  exact matOf_colMajor n M i.2 j.2

/-! ## the tail of `update_scaling` -/

/-- `Λ^{-1/2}` as a function on `Fin n` -/
noncomputable def isqrtVec (n : Nat) (sig : Array ℝ) : Fin n → ℝ :=
  fun i => 1 / Real.sqrt (sig.getD i 0)

/-- [R] what `assembleScaling` (the part of `update_scaling` after the LAPACK calls) stores:
`λ = σ`, `R = L₁·Vtᵀ·Λ^{-1/2}`, `R⁻¹ = Λ^{-1/2}·Uᵀ·L₂ᵀ`, and `Hs = skron(A)` for a symmetric
`A` with `A = RRᵀ`. -/
theorem assembleScaling_spec (n : Nat) (L1 L2 U Vt sig : Array ℝ)
    (h1 : L1.size = n * n) (h2 : L2.size = n * n) (hU : U.size = n * n) (hV : Vt.size = n * n)
    (hs : sig.size = n) :
    ∃ K RRt A, assembleScaling n L1 L2 U Vt sig = .ok (K, RRt) ∧ K.n = n ∧ K.lam = sig ∧
      K.R.size = n * n ∧ K.Rinv.size = n * n ∧
      toM n (matOf n K.R)
        = toM n (matOf n L1) * (toM n (matOf n Vt))ᵀ * Matrix.diagonal (isqrtVec n sig) ∧
      toM n (matOf n K.Rinv)
        = Matrix.diagonal (isqrtVec n sig) * (toM n (matOf n U))ᵀ * (toM n (matOf n L2))ᵀ ∧
      K.Hs = skronPacked n A ∧ GSymm A ∧
      toM n A = toM n (matOf n K.R) * (toM n (matOf n K.R))ᵀ := by
  have hd : ∀ j : Fin n, (sig.map (fun v => 1 / sqrt v)).getD j 0 = isqrtVec n sig j := by
    intro j
    have hj : (j : Nat) < sig.size := by rw [hs]; exact j.2
    simp [isqrtVec, Array.getD_eq_getD_getElem?, hj]
  refine ⟨_, _, _, by
    simp only [assembleScaling, sizeGuard, h1, h2, hU, hV, hs, beq_self_eq_true, Bool.and_self,
      if_true, bind, Except.bind, pure, Except.pure]
    rfl, rfl, rfl, size_colMajor _ _, size_colMajor _ _, ?_, ?_, rfl, gsymm_symView _, ?_⟩
  · rw [toM_matOf_colMajor]
    ext i j
    rw [Matrix.mul_diagonal]
    simp only [toM_apply, sumN_eq, Matrix.mul_apply, Matrix.transpose_apply, sum_range_fin, hd j]
  · rw [toM_matOf_colMajor]
    ext i j
    rw [Matrix.mul_assoc, Matrix.diagonal_mul]
    simp only [toM_apply, sumN_eq, Matrix.mul_apply, Matrix.transpose_apply, sum_range_fin, hd i]
    rw [mul_comm]
  · ext i j
    simp only [toM_apply, symView, Matrix.mul_apply, Matrix.transpose_apply]
    by_cases hij : (i : Nat) ≤ j
    · simp only [hij, if_true]
      rw [matOf_colMajor _ _ i.2 j.2]
      simp only [hij, if_true, sumN_eq, sum_range_fin]
    · simp only [hij, if_false]
      rw [matOf_colMajor _ _ j.2 i.2]
      have hji : (j : Nat) ≤ i := by omega
      simp only [hji, if_true, sumN_eq, sum_range_fin]
      apply Finset.sum_congr rfl
      intro k _
      ring

/-- `svec(diag σ)` is the vector form `lamVec` of `λ = σ` -/
theorem svecM_diagonal (n : Nat) (sig : Array ℝ) :
    svecM (Matrix.diagonal (fun i : Fin n => sig.getD i 0)) = lamVec n sig := by
  unfold lamVec
  rw [matToSvec_eq_svecM, toM_diagFn]

/-- [R] **PSD Nesterov–Todd identities on the model**: for the scaling assembled from LAPACK
results satisfying their contracts (`S = L₁L₁ᵀ`, `Z = L₂L₂ᵀ`, `L₂ᵀL₁ = U·diag(σ)·Vt`,
`UᵀU = Vt·Vtᵀ = I`, `σ > 0`), `mul_W z = λ`, `mul_Winv(T) s = λ` (both as `svec(diag λ)`),
`mul_Hs z = s`, and `R·R⁻¹ = I`. -/
theorem assembleScaling_nt (n : Nat) (L1 L2 U Vt sig s z y : Array ℝ)
    (h1 : L1.size = n * n) (h2 : L2.size = n * n) (hU : U.size = n * n) (hV : Vt.size = n * n)
    (hsg : sig.size = n) (hs : s.size = triangularNumber n) (hz : z.size = triangularNumber n)
    (hy : y.size = triangularNumber n)
    (hS : toM n (svecToMat s) = toM n (matOf n L1) * (toM n (matOf n L1))ᵀ)
    (hZ : toM n (svecToMat z) = toM n (matOf n L2) * (toM n (matOf n L2))ᵀ)
    (hsvd : (toM n (matOf n L2))ᵀ * toM n (matOf n L1)
      = toM n (matOf n U) * Matrix.diagonal (fun i : Fin n => sig.getD i 0) * toM n (matOf n Vt))
    (hUo : (toM n (matOf n U))ᵀ * toM n (matOf n U) = 1)
    (hVo : toM n (matOf n Vt) * (toM n (matOf n Vt))ᵀ = 1)
    (hpos : ∀ i, i < n → 0 < sig.getD i 0) :
    ∃ K RRt, assembleScaling n L1 L2 U Vt sig = .ok (K, RRt) ∧
      mulW K false y z 1 0 = .ok (lamVec n K.lam) ∧
      mulWinv K true y s 1 0 = .ok (lamVec n K.lam) ∧
      mulHs K z = .ok s ∧
      toM n (matOf n K.R) * toM n (matOf n K.Rinv) = 1 := by
  obtain ⟨K, RRt, A, hK, hn, hlam, hRs, hRis, hR, hRi, _, _, _⟩ :=
    assembleScaling_spec n L1 L2 U Vt sig h1 h2 hU hV hsg
  subst hn
  have hd : ∀ i : Fin K.n, isqrtVec K.n sig i * isqrtVec K.n sig i * sig.getD i 0 = 1 :=
    Psd.isqrt_hyp (fun i : Fin K.n => sig.getD i 0) (fun i => hpos i i.2)
  obtain ⟨e1, e2, e3, e4⟩ := Psd.nt_scaling (toM K.n (svecToMat s)) (toM K.n (svecToMat z))
    (toM K.n (matOf K.n L1)) (toM K.n (matOf K.n L2)) (toM K.n (matOf K.n U))
    (toM K.n (matOf K.n Vt))ᵀ (fun i : Fin K.n => sig.getD i 0) (isqrtVec K.n sig) hS hZ
    (by rw [Matrix.transpose_transpose]; exact hsvd) hUo
    (by rw [Matrix.transpose_transpose]; exact hVo) hd
  rw [← hR] at e1 e3 e4
  rw [← hRi] at e2 e3 e4
  refine ⟨K, RRt, hK, ?_, ?_, ?_, e4⟩
  · unfold mulW
    rw [mulWx_ok false K.n K.R y z 1 0 hRs hz hy, mulWxInner_N, one_smul, zero_smul, add_zero, e1,
      hlam, svecM_diagonal]
  · unfold mulWinv
    rw [mulWx_ok true K.n K.Rinv y s 1 0 hRis hs hy, mulWxInner_T, one_smul, zero_smul, add_zero,
      e2, hlam, svecM_diagonal]
  · rw [mulHs_eq K z hRs hz, e1]
    congr 1
    -- R·Σ·Rᵀ = R·(R⁻¹ S R⁻ᵀ)·Rᵀ = S
    rw [← e2]
    have : toM K.n (matOf K.n K.R) * (toM K.n (matOf K.n K.Rinv) * toM K.n (svecToMat s)
        * (toM K.n (matOf K.n K.Rinv))ᵀ) * (toM K.n (matOf K.n K.R))ᵀ
        = (toM K.n (matOf K.n K.R) * toM K.n (matOf K.n K.Rinv)) * toM K.n (svecToMat s)
          * (toM K.n (matOf K.n K.R) * toM K.n (matOf K.n K.Rinv))ᵀ := by
      rw [Matrix.transpose_mul]; simp only [Matrix.mul_assoc]
    rw [this, e4]
    simp only [Matrix.one_mul, Matrix.transpose_one, Matrix.mul_one]
    exact svecM_toM_svecToMat K.n s hs

/-! ## `Δs_from_Δz_offset` and `combined_ds_shift` -/

/-- [R] `Δs_from_Δz_offset = Wᵀ(λ \ ds) = svec(R·(2 DSᵢⱼ/(λᵢ+λⱼ))·Rᵀ)` -/
theorem dsFromDzOffset_eq (K : Cone ℝ) (ds : Array ℝ) (hR : K.R.size = K.n * K.n)
    (hl : K.lam.size = K.n) (hd : ds.size = triangularNumber K.n) :
    ∃ q, lamInvCircOp K ds = .ok q ∧ dsFromDzOffset K ds = mulW K true q q 1 0 ∧
      dsFromDzOffset K ds = .ok (svecM (toM K.n (matOf K.n K.R)
        * lamInvM K.lam (toM K.n (svecToMat ds)) * (toM K.n (matOf K.n K.R))ᵀ)) := by
  have hq : (lamInvCircOpFn K.n K.lam ds).size = triangularNumber K.n := by
    rw [lamInvCircOpFn_eq]; exact size_svecM _
  have e : dsFromDzOffset K ds
      = mulW K true (lamInvCircOpFn K.n K.lam ds) (lamInvCircOpFn K.n K.lam ds) 1 0 := by
    unfold dsFromDzOffset
    rw [lamInvCircOp_ok K ds hl hd]
    rfl
  refine ⟨_, lamInvCircOp_ok K ds hl hd, e, ?_⟩
  rw [e]
  unfold mulW
  rw [mulWx_ok true K.n K.R _ _ 1 0 hR hq hq, mulWxInner_T, one_smul, zero_smul, add_zero,
    lamInvCircOpFn_eq, toM_svecToMat_svecM _ (lamInvM_isSymm K.lam (toM_svecToMat_isSymm K.n ds))]

/-- [R] `combined_ds_shift`: `step_z ← WΔz = svec(RᵀDZ R)`, `step_s ← W⁻ᵀΔs = svec(R⁻¹DS R⁻ᵀ)`,
`shift = (W⁻ᵀΔs) ∘ (WΔz) − σμ·e` with `e = svec(I)` (the shift is subtracted at the packed
diagonal positions). -/
theorem combinedDsShift_eq (K : Cone ℝ) (dz ds : Array ℝ) (sm : ℝ) (hR : K.R.size = K.n * K.n)
    (hRi : K.Rinv.size = K.n * K.n) (hz : dz.size = triangularNumber K.n)
    (hs : ds.size = triangularNumber K.n) :
    ∃ wz ws c, mulW K false dz dz 1 0 = .ok wz ∧ mulWinv K true ds ds 1 0 = .ok ws ∧
      wz = svecM ((toM K.n (matOf K.n K.R))ᵀ * toM K.n (svecToMat dz) * toM K.n (matOf K.n K.R)) ∧
      ws = svecM (toM K.n (matOf K.n K.Rinv) * toM K.n (svecToMat ds)
        * (toM K.n (matOf K.n K.Rinv))ᵀ) ∧
      circOp K.n ws wz = .ok c ∧
      combinedDsShift K dz ds sm = .ok
        ((packed K.n fun r c' => c.getD (triangularNumber c' + r) 0 + if r = c' then -sm else 0).toArray,
          wz, ws) := by
  have e1 := mulWx_ok false K.n K.R dz dz 1 0 hR hz hz
  have e2 := mulWx_ok true K.n K.Rinv ds ds 1 0 hRi hs hs
  have s1 := size_mulWxInner false K.n (matOf K.n K.R) dz dz 1 0
  have s2 := size_mulWxInner true K.n (matOf K.n K.Rinv) ds ds 1 0
  have e3 := circOp_eq K.n _ _ s2 s1
  refine ⟨_, _, _, e1, e2, ?_, ?_, e3, ?_⟩
  · rw [mulWxInner_N, one_smul, zero_smul, add_zero]
  · rw [mulWxInner_T, one_smul, zero_smul, add_zero]
  · unfold combinedDsShift mulW mulWinv
    rw [e1]
    simp only [bind, Except.bind]
    rw [e2]
    simp only []
    rw [e3]
    simp only []
    rw [scaledUnitShift_eq K.n _ (-sm) (size_svecM _)]
    rfl

end Clarabel.PsdTri
