/-
  The printed iteration column along the loop skeleton (helper lemmas for C20).
-/
import ClarabelProofs.Lemmas.Loop
import Mathlib.Data.List.Chain

namespace Clarabel.Loop

set_option linter.unusedSectionVars false
set_option linter.unusedSimpArgs false

variable {α : Type} [Mul α] [Div α] [Neg α] [OfNat α 0] [OfNat α 1]
  [LT α] [DecidableLT α] [LE α] [DecidableLE α] [BEq α] [FloatLike α]

/-- the iteration column of a list of rows -/
def col (rows : List (Row α)) : List Nat := rows.map (·.iterations)

/-- consecutive entries of the iteration column: non-decreasing, in steps of at most one -/
def StepRel (a b : Nat) : Prop := a ≤ b ∧ b ≤ a + 1

theorem bfalse {p : Prop} {b : Bool} (hv : b = false) (h : b = true) : p := by
  rw [hv] at h; cases h
theorem btrue {p : Prop} {b : Bool} (hv : b = true) (h : b = false) : p := by
  rw [hv] at h; cases h

theorem top_rows (cfg : Config α) (o : PassOracle α) (st : State α) :
    ∃ r : Row α, r.iterations = st.iter ∧
      (top cfg o st).rows = if cfg.verbose then st.rows ++ [r] else st.rows :=
  ⟨rowOf { (st.info.saveScalars o.mu st.alpha st.sigma st.iter) with
      costPrimal := o.costPrimal, costDual := o.costDual, resPrimal := o.resPrimal,
      resDual := o.resDual, resPrimalInf := o.resPrimalInf, resDualInf := o.resDualInf,
      gapAbs := o.gapAbs, gapRel := o.gapRel, ktratio := o.ktratio, solveTime := o.solveTime },
    rfl, rfl⟩

theorem pass_rows_cont {cfg : Config α} {o : PassOracle α} {st st' : State α}
    (h : pass cfg o st = .cont st') :
    st'.rows = (top cfg o st).rows ∧ st'.rollbackLines = st.rollbackLines := by
  unfold pass at h
  split at h
  · have := passDone_cont h
    exact ⟨this.2.2.2.2.2.2.2.2.2.1, this.2.2.2.2.2.2.2.2.2.2.2⟩
  · rename_i hs
    simp only [ne_eq, Decidable.not_not] at hs
    have := passKkt_cont hs (passStep_cont hs h)
    exact ⟨this.2.2.2.2.1, this.2.2.2.2.2.2.2⟩

/-- rows, rollback lines and figures after a pass that leaves the loop -/
theorem pass_rows_brk {cfg : Config α} {o : PassOracle α} {st st' : State α}
    (h : pass cfg o st = .brk st') :
    (st'.rows = (top cfg o st).rows ∧ st'.rollbackLines = st.rollbackLines
        ∧ (cfg.rollbackLine = true → fig st'.info = fig (top cfg o st).info))
      ∨ (st'.rows = printStatus cfg st'.info (top cfg o st).rows
        ∧ st'.rollbackLines = st.rollbackLines + 1) := by
  unfold pass at h
  split at h
  · rename_i hs
    exact (passDone_brk hs h).2.2.2.2.2.1
  · rcases passStep_brk h with hk | hk
    · have := passKkt_brk hk
      exact Or.inl ⟨this.2.2.2.2.1, this.2.2.2.2.2.2.2.2.1, fun _ => this.2.2.2.2.2.2.2.2.2⟩
    · exact Or.inl ⟨hk.2.2.2.2.2.1, hk.2.2.2.2.2.2.2.2.1, fun _ => hk.2.2.2.2.2.2.2.2.2⟩

/-- the row printed at the top of a pass shows the figures `info` has after `info.update` -/
theorem top_rows_fig (cfg : Config α) (o : PassOracle α) (st : State α) (hv : cfg.verbose = true) :
    ((top cfg o st).rows.getLast?).map figRow = some (fig (top cfg o st).info) := by
  have : (top cfg o st).rows = st.rows ++ [rowOf { (st.info.saveScalars o.mu st.alpha st.sigma st.iter) with
      costPrimal := o.costPrimal, costDual := o.costDual, resPrimal := o.resPrimal,
      resDual := o.resDual, resPrimalInf := o.resPrimalInf, resDualInf := o.resDualInf,
      gapAbs := o.gapAbs, gapRel := o.gapRel, ktratio := o.ktratio, solveTime := o.solveTime }] := by
    show printStatus cfg _ st.rows = _
    unfold printStatus; rw [hv]; rfl
  rw [this, List.getLast?_concat]
  rfl

/-- invariant of the printed rows at the top of a pass -/
structure RowInv (cfg : Config α) (st : State α) : Prop where
  silent : cfg.verbose = false → st.rows = []
  length : cfg.verbose = true → st.rows.length = st.passes
  chain : List.IsChain StepRel (col st.rows)
  head : st.rows ≠ [] → (col st.rows).head? = some 0
  last : st.rows ≠ [] → (col st.rows).getLast? = some st.info.iterations
  first : st.rows = [] → cfg.verbose = true → st.iter = 0
  gap : st.iter ≤ st.info.iterations + 1
  rb : st.rollbackLines = 0

/-- appending the row printed at the top of a pass -/
theorem rows_append {cfg : Config α} {st : State α} (hI : Inv cfg st) (hR : RowInv cfg st)
    (r : Row α) (hr : r.iterations = st.iter) (hv : cfg.verbose = true) :
    List.IsChain StepRel (col (st.rows ++ [r])) ∧ (col (st.rows ++ [r])).head? = some 0
      ∧ (col (st.rows ++ [r])).getLast? = some st.iter
      ∧ (st.rows ++ [r]).length = st.passes + 1 := by
  have hcol : col (st.rows ++ [r]) = col st.rows ++ [st.iter] := by
    simp [col, hr]
  rw [hcol]
  refine ⟨?_, ?_, by simp, by simp [hR.length hv]⟩
  · rw [List.isChain_append]
    refine ⟨hR.chain, by simp, ?_⟩
    intro x hx y hy
    simp at hy
    subst hy
    by_cases hn : st.rows = []
    · simp [hn, col] at hx
    · have := hR.last hn
      rw [this] at hx
      simp at hx
      subst hx
      exact ⟨hI.iterations_le, hR.gap⟩
  · by_cases hn : st.rows = []
    · simp [hn, col, hR.first hn hv]
    · have := hR.head hn
      cases hc : col st.rows with
      | nil => simp [col] at hc; exact absurd hc hn
      | cons a t => rw [hc] at this; simpa using this

theorem rowInv_cont {cfg : Config α} {o : PassOracle α} {st st' : State α} (hI : Inv cfg st)
    (hR : RowInv cfg st) (h : pass cfg o st = .cont st') : RowInv cfg st' := by
  have hc := pass_cont h
  obtain ⟨hrows, hrb⟩ := pass_rows_cont h
  have hrb0 : st'.rollbackLines = 0 := by rw [hrb]; exact hR.rb
  obtain ⟨r, hr, htop⟩ := top_rows cfg o st
  rw [htop] at hrows
  have hgap : st'.iter ≤ st'.info.iterations + 1 := by
    rw [hc.iterations]
    rcases hc.kind with ⟨a, _⟩ | ⟨a, _⟩ | ⟨a, _⟩ <;> omega
  cases hv : cfg.verbose with
  | false =>
    rw [hv] at hrows
    simp only [Bool.false_eq_true, ↓reduceIte] at hrows
    have he : st'.rows = [] := by rw [hrows]; exact hR.silent hv
    refine ⟨fun _ => he, bfalse hv, ?_, ?_, ?_,
      fun _ => bfalse hv, hgap, hrb0⟩
    · rw [he]; simp [col]
    · intro hn; exact absurd he hn
    · intro hn; exact absurd he hn
  | true =>
    rw [hv] at hrows
    simp only [↓reduceIte] at hrows
    obtain ⟨h1, h2, h3, h4⟩ := rows_append hI hR r hr hv
    refine ⟨btrue hv, ?_, ?_, ?_, ?_, ?_, hgap, hrb0⟩
    · intro _; rw [hrows, h4, hc.passes]
    · rw [hrows]; exact h1
    · intro _; rw [hrows]; exact h2
    · intro _; rw [hrows, hc.iterations]; exact h3
    · intro he; rw [hrows] at he; simp at he

/-- the rows with which the loop is left -/
structure ExitRows (cfg : Config α) (st' : State α) : Prop where
  silent : cfg.verbose = false → st'.rows = []
  length : cfg.verbose = true → st'.rows.length = st'.passes + st'.rollbackLines
  rb_le : st'.rollbackLines ≤ 1
  chain : List.IsChain StepRel (col st'.rows)
  head : cfg.verbose = true → (col st'.rows).head? = some 0
  last : cfg.verbose = true → (col st'.rows).getLast? = some st'.info.iterations
  /-- the last row shows the figures of the `info` that is returned -/
  lastFig : cfg.verbose = true → cfg.rollbackLine = true →
    (st'.rows.getLast?).map figRow = some (fig st'.info)

theorem exitRows_brk {cfg : Config α} {o : PassOracle α} {st st' : State α} (hI : Inv cfg st)
    (hR : RowInv cfg st) (h : pass cfg o st = .brk st') : ExitRows cfg st' := by
  have hb := pass_brk h
  have hcases := pass_rows_brk h
  obtain ⟨r, hr, htop⟩ := top_rows cfg o st
  cases hv : cfg.verbose with
  | false =>
    have he : st'.rows = [] := by
      rcases hcases with ⟨e, _, _⟩ | ⟨e, _⟩
      · rw [e, htop, hv]; simp; exact hR.silent hv
      · rw [e, htop]; unfold printStatus; rw [hv]; simp; exact hR.silent hv
    refine ⟨fun _ => he, bfalse hv, ?_, ?_, bfalse hv, bfalse hv, bfalse hv⟩
    · rcases hcases with ⟨_, e, _⟩ | ⟨_, e⟩ <;> rw [e, hR.rb] <;> omega
    · rw [he]; simp [col]
  | true =>
    obtain ⟨h1, h2, h3, h4⟩ := rows_append hI hR r hr hv
    have htop' : (top cfg o st).rows = st.rows ++ [r] := by rw [htop, hv]; rfl
    rcases hcases with ⟨e, erb, efig⟩ | ⟨e, erb⟩
    · refine ⟨btrue hv, ?_, by rw [erb, hR.rb]; omega, ?_, ?_, ?_, ?_⟩
      · intro _; rw [e, htop', h4, hb.passes, erb, hR.rb]
      · rw [e, htop']; exact h1
      · intro _; rw [e, htop']; exact h2
      · intro _; rw [e, htop', hb.iterations]; exact h3
      · intro _ hrl
        rw [e, efig hrl]
        exact top_rows_fig cfg o st hv
    · -- one more row after the rollback
      have e' : st'.rows = (st.rows ++ [r]) ++ [rowOf st'.info] := by
        rw [e, htop']; unfold printStatus; rw [hv]; rfl
      have hcol : col ((st.rows ++ [r]) ++ [rowOf st'.info]) = col (st.rows ++ [r]) ++ [st'.info.iterations] := by
        simp [col, rowOf]
      refine ⟨btrue hv, ?_, by rw [erb, hR.rb], ?_, ?_, ?_, ?_⟩
      · intro _; rw [e', List.length_append, h4, hb.passes, erb, hR.rb]; simp
      · rw [e', hcol, List.isChain_append]
        refine ⟨h1, by simp, ?_⟩
        intro x hx y hy
        simp at hy; subst hy
        rw [h3] at hx; simp at hx; subst hx
        rw [hb.iterations]
        exact ⟨le_refl _, Nat.le_succ _⟩
      · intro _
        rw [e', hcol]
        cases hc : col (st.rows ++ [r]) with
        | nil => rw [hc] at h2; simp at h2
        | cons a t => rw [hc] at h2; simpa using h2
      · intro _; rw [e', hcol]; simp
      · intro _ _
        rw [e', List.getLast?_concat]
        rfl

theorem loop_rows {cfg : Config α} : ∀ (os : List (PassOracle α)) (st : State α), Inv cfg st →
    RowInv cfg st → ∀ st', loop cfg os st = .done st' → ExitRows cfg st'
  | [], st, _, _, st', h => by unfold loop at h; cases h
  | o :: os, st, hI, hR, st', h => by
    unfold loop at h
    cases hp : pass cfg o st with
    | brk s =>
      rw [hp] at h
      cases h
      exact exitRows_brk hI hR hp
    | cont s =>
      rw [hp] at h
      exact loop_rows os s (inv_cont hI (pass_cont hp)) (rowInv_cont hI hR hp) st' h
    | panic s => rw [hp] at h; cases h

theorem rowInv_init (cfg : Config α) (z : α) : RowInv cfg (initState cfg z) :=
  ⟨fun _ => rfl, fun _ => rfl, by simp [col, initState], fun h => absurd rfl h,
   fun h => absurd rfl h, fun _ _ => rfl, Nat.le_succ _, rfl⟩

end Clarabel.Loop
