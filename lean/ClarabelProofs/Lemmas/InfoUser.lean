/-
  C01/C02 round 3 — the vocabulary that ties the ARRAY / CSC level of the executable model
  (`Residuals.update`, `Info.update`, `Unscale.unscale`, `Equil.equilibrate`) to the dense
  `Fin`-indexed level of `InfoDense.lean` on which the exact identities are proved.

  * `vecFn x k`    : an array read as a function on `Fin k` (`0` outside its range);
  * `matFn M m n`  : the dense meaning of a CSC matrix (`Csc.toDense`);
  * `symFn M n`    : the symmetric matrix whose (upper) triangle `M` holds — the matrix
                     `symv` applies (`C16.symv_spec`);
  * `problemOf`    : `(P, q, A, b)` as a `Dense.Problem`;
  * `scalingOf`    : `DefaultEquilibrationData` as a `Dense.Scaling`;
  * `EquilData.toInfo` : the same record in the shape `Info.update` / `unscale` read.
-/
import ClarabelModel.Csc
import ClarabelModel.ProblemData
import ClarabelModel.Info
import ClarabelProofs.Lemmas.InfoDense

namespace Clarabel.InfoUser
open Clarabel Clarabel.Dense

variable {α : Type}

/-- an array read as a function on `Fin k` (`dflt` outside its range) -/
def vecFnD (dflt : α) (x : Array α) (k : ℕ) : Fin k → α := fun i => x.getD i dflt

/-- an array read as a function on `Fin k` (`0` outside its range) -/
def vecFn [OfNat α 0] (x : Array α) (k : ℕ) : Fin k → α := fun i => x.getD i 0

/-- dense meaning of a CSC matrix on `Fin m × Fin n` -/
def matFn [Add α] [OfNat α 0] (M : Csc α) (m n : ℕ) : Fin m → Fin n → α :=
  fun i j => M.toDense i j

/-- the symmetric matrix whose triangle `M` holds: `M i i` on the diagonal and
`M i j + M j i` off it (for an upper triangular `M` one of the two is `0`) — exactly the
matrix `symv` applies (`C16.symv_spec`). -/
def symFn [Add α] [OfNat α 0] (M : Csc α) (n : ℕ) : Fin n → Fin n → α :=
  fun i j => if (i : ℕ) = (j : ℕ) then M.toDense i i else M.toDense i j + M.toDense j i

/-- `(P, q, A, b)` — CSC matrices and arrays — as the dense problem they mean -/
def problemOf [Add α] [OfNat α 0] (P : Csc α) (q : Array α) (A : Csc α) (b : Array α) (n m : ℕ) :
    Problem α n m where
  P := symFn P n
  q := vecFn q n
  A := matFn A m n
  b := vecFn b m

/-- the scalings of `DefaultEquilibrationData` as functions (default `1` out of range) -/
def scalingOf [OfNat α 1] (eq : EquilData α) (n m : ℕ) : Scaling α n m where
  d := vecFnD 1 eq.d n
  e := vecFnD 1 eq.e m
  c := eq.c

/-- `DefaultEquilibrationData` in the record shape `Info.update` / `unscale` read -/
def toInfoEquil (eq : EquilData α) : Info.Equil α :=
  { d := eq.d, dinv := eq.dinv, e := eq.e, einv := eq.einv, c := eq.c }

/-- the part of `DefaultProblemData` that `Residuals.update` reads -/
def toResidData (dt : ProblemData α) : Residuals.Data α :=
  { P := dt.P, q := dt.q, A := dt.A, b := dt.b }

end Clarabel.InfoUser
