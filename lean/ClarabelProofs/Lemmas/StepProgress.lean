/-
  Progress of one interior-point step (C06, "few iterations"): the exact update of the
  complementarity measure `μ = (s·z + τκ)/(ν+1)` from the aggregated (inner-product) form of
  the linearised complementarity equation — valid for every symmetric cone, since
  `⟨e, λ∘u⟩ = ⟨λ, u⟩` in the Jordan algebra —, the orthogonality identity of a Newton step of
  the homogeneous embedding, and the resulting decrease bounds.  Ordered-field algebra only.
-/
import ClarabelModel.Step
import ClarabelProofs.Lemmas.StepNewton
import ClarabelProofs.Lemmas.ScalarInst
import Mathlib.Tactic.NormNum
import Mathlib.Tactic.Positivity

namespace Clarabel.Lemmas
open Matrix Clarabel Clarabel.Step

set_option linter.unusedSectionVars false

section field
variable {α : Type} [Field α] [LinearOrder α] [IsStrictOrderedRing α] [FloatLike α]
  [LawfulFloatLike α]

theorem calcMu_mul (d τ κ : α) (ν : ℕ) : ((ν : α) + 1) * calcMu d τ κ ν = d + τ * κ := by
  have hν : ((ν : α) + 1) ≠ 0 := by positivity
  unfold calcMu
  rw [LawfulFloatLike.ofNat_eq]
  push_cast
  field_simp

theorem calcMu_eq (d τ κ : α) (ν : ℕ) : calcMu d τ κ ν = (d + τ * κ) / ((ν : α) + 1) := by
  have hν : ((ν : α) + 1) ≠ 0 := by positivity
  rw [eq_div_iff hν, mul_comm]; exact calcMu_mul d τ κ ν

/-- exact `μ` update from the aggregated complementarity rows -/
theorem mu_update_of_sum {k : ℕ} (ν : ℕ) (s z ds dz : Fin k → α) (τ κ dτ dκ σ mm a C Cκ : α)
    (hsum : s ⬝ᵥ dz + z ⬝ᵥ ds
      = -(s ⬝ᵥ z + mm * C - (ν : α) * (σ * calcMu (s ⬝ᵥ z) τ κ ν)))
    (hκ : κ * dτ + τ * dκ = -(τ * κ + mm * Cκ - σ * calcMu (s ⬝ᵥ z) τ κ ν)) :
    calcMu ((s + a • ds) ⬝ᵥ (z + a • dz)) (τ + a * dτ) (κ + a * dκ) ν
      = (1 - a * (1 - σ)) * calcMu (s ⬝ᵥ z) τ κ ν
        - a * mm * (C + Cκ) / ((ν : α) + 1) + a ^ 2 * (ds ⬝ᵥ dz + dτ * dκ) / ((ν : α) + 1) := by
  have hν : ((ν : α) + 1) ≠ 0 := by positivity
  have hμ := calcMu_mul (s ⬝ᵥ z) τ κ ν
  have hexp : (s + a • ds) ⬝ᵥ (z + a • dz)
      = s ⬝ᵥ z + a * (s ⬝ᵥ dz + z ⬝ᵥ ds) + a ^ 2 * (ds ⬝ᵥ dz) := by
    simp only [add_dotProduct, dotProduct_add, smul_dotProduct, dotProduct_smul, smul_eq_mul]
    rw [dotProduct_comm ds z]
    ring
  rw [calcMu_eq, hexp, hsum]
  rw [eq_comm, ← sub_eq_zero]
  field_simp
  linear_combination (-a) * hκ + (1 - a) * hμ

/-- decrease of `μ`: whenever the second-order term and the Mehrotra correction satisfy
`α²(Δs·Δz + ΔτΔκ) ≤ α m (C + Cκ)`, the new `μ` is at most `(1 − α(1−σ)) μ` -/
theorem mu_decrease_of_sum {k : ℕ} (ν : ℕ) (s z ds dz : Fin k → α) (τ κ dτ dκ σ mm a C Cκ : α)
    (hsum : s ⬝ᵥ dz + z ⬝ᵥ ds
      = -(s ⬝ᵥ z + mm * C - (ν : α) * (σ * calcMu (s ⬝ᵥ z) τ κ ν)))
    (hκ : κ * dτ + τ * dκ = -(τ * κ + mm * Cκ - σ * calcMu (s ⬝ᵥ z) τ κ ν))
    (h2 : a ^ 2 * (ds ⬝ᵥ dz + dτ * dκ) ≤ a * mm * (C + Cκ)) :
    calcMu ((s + a • ds) ⬝ᵥ (z + a • dz)) (τ + a * dτ) (κ + a * dκ) ν
      ≤ (1 - a * (1 - σ)) * calcMu (s ⬝ᵥ z) τ κ ν := by
  have hν : (0 : α) < (ν : α) + 1 := by positivity
  rw [mu_update_of_sum ν s z ds dz τ κ dτ dκ σ mm a C Cκ hsum hκ]
  have : a ^ 2 * (ds ⬝ᵥ dz + dτ * dκ) / ((ν : α) + 1) ≤ a * mm * (C + Cκ) / ((ν : α) + 1) :=
    div_le_div_of_nonneg_right h2 hν.le
  linarith

/-- the contraction factor of a step of length `a ∈ (0,1]` with the Mehrotra centring
`σ = (1 − α_aff)³`, `α_aff ∈ (0,1]`, lies in `[1 − a, 1)` -/
theorem mehrotra_factor (a aaff : α) (ha0 : 0 < a) (ha1 : a ≤ 1) (hf0 : 0 < aaff) (hf1 : aaff ≤ 1) :
    1 - a ≤ 1 - a * (1 - centeringParameter aaff)
    ∧ 1 - a * (1 - centeringParameter aaff) < 1
    ∧ 0 ≤ 1 - a * (1 - centeringParameter aaff) := by
  have e : centeringParameter aaff = (1 - aaff) ^ 3 := by unfold centeringParameter; ring
  have h0 : (0 : α) ≤ 1 - aaff := by linarith
  have h1 : 1 - aaff < 1 := by linarith
  have hσ0 : 0 ≤ centeringParameter aaff := by rw [e]; positivity
  have hσ1 : centeringParameter aaff < 1 := by
    rw [e]; exact pow_lt_one₀ h0 h1 (by norm_num)
  refine ⟨?_, ?_, ?_⟩
  · nlinarith
  · nlinarith
  · nlinarith

end field

section newton
variable {α : Type} [Field α] {n m : ℕ}

/-- **orthogonality of a Newton step of the homogeneous embedding**: from the first three block
rows of the linearised system,
`Δs·Δz + ΔτΔκ = dᵀPd − (Δx·rdx + Δz·rdz + Δτ·rdτ)`, `d = Δx − Δτ·ξ`. -/
theorem newton_orthogonality (P : Matrix (Fin n) (Fin n) α) (hP : Pᵀ = P)
    (A : Matrix (Fin m) (Fin n) α) (q : Fin n → α) (b : Fin m → α) (ξ : Fin n → α)
    (rdx : Fin n → α) (rdz : Fin m → α) (rdτ : α) (dx : Fin n → α) (ds dz : Fin m → α) (dτ dκ : α)
    (ex : P *ᵥ dx + Aᵀ *ᵥ dz + dτ • q = rdx)
    (ez : A *ᵥ dx + ds - dτ • b = -rdz)
    (eτ : q ⬝ᵥ dx + b ⬝ᵥ dz + dκ + 2 * (ξ ⬝ᵥ P *ᵥ dx) - (ξ ⬝ᵥ P *ᵥ ξ) * dτ = -rdτ) :
    ds ⬝ᵥ dz + dτ * dκ
      = (dx - dτ • ξ) ⬝ᵥ P *ᵥ (dx - dτ • ξ) - (dx ⬝ᵥ rdx + dz ⬝ᵥ rdz + dτ * rdτ) := by
  have s1 : dx ⬝ᵥ P *ᵥ ξ = ξ ⬝ᵥ P *ᵥ dx := sym_dot P hP _ _
  have q2 : (dx - dτ • ξ) ⬝ᵥ P *ᵥ (dx - dτ • ξ)
      = dx ⬝ᵥ P *ᵥ dx - 2 * dτ * (ξ ⬝ᵥ P *ᵥ dx) + dτ ^ 2 * (ξ ⬝ᵥ P *ᵥ ξ) := by
    simp only [dotProduct_sub, sub_dotProduct, dotProduct_smul, smul_dotProduct, Matrix.mulVec_sub,
      Matrix.mulVec_smul, smul_eq_mul, s1]
    ring
  have hx : dx ⬝ᵥ rdx = dx ⬝ᵥ P *ᵥ dx + dz ⬝ᵥ (A *ᵥ dx) + dτ * (q ⬝ᵥ dx) := by
    rw [← ex]
    simp only [dotProduct_add, dotProduct_smul, smul_eq_mul]
    rw [dotProduct_comm dx (Aᵀ *ᵥ dz), transpose_mulVec_dot, dotProduct_comm dx q]
  have hz : dz ⬝ᵥ rdz = -(dz ⬝ᵥ (A *ᵥ dx) + dz ⬝ᵥ ds - dτ * (b ⬝ᵥ dz)) := by
    have : rdz = -(A *ᵥ dx + ds - dτ • b) := by rw [ez, neg_neg]
    rw [this]
    simp only [dotProduct_neg, dotProduct_add, dotProduct_sub, dotProduct_smul, smul_eq_mul]
    rw [dotProduct_comm dz b]
  rw [q2, hx, hz, dotProduct_comm ds dz]
  linear_combination dτ * eτ

end newton

end Clarabel.Lemmas
