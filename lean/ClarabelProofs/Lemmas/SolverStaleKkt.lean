/-
  Solving twice (C05), the relational part — `DefaultKKTSystem`: `update` (+ `solve_constant_rhs`),
  `solve`, `solve_initial_point` on two systems related by `KRel` give the same answers.
-/
import ClarabelProofs.Lemmas.SolverStaleCones
import ClarabelProofs.Lemmas.SolveInitPointCore
namespace Clarabel.Solver
open Clarabel Info Residuals
set_option linter.unusedSectionVars false
set_option linter.unusedVariables false
variable {α : Type}
variable [Add α] [Sub α] [Mul α] [Div α] [Neg α] [OfNat α 0] [OfNat α 1] [LT α] [DecidableLT α]
  [LE α] [DecidableLE α] [BEq α] [FloatLike α]

theorem foldlM_congr_rel {β γ σ : Type} {R : β → γ → Prop} (f : σ → β → MErr σ) (f' : σ → γ → MErr σ)
    (hf : ∀ acc a a', R a a' → f acc a = f' acc a') :
    ∀ {l : List β} {l' : List γ}, ListRel R l l' → ∀ init, l.foldlM f init = l'.foldlM f' init := by
  intro l l' h
  induction h with
  | nil => intro init; rfl
  | cons hr _ ih =>
    intro init
    simp only [List.foldlM_cons, hf init _ _ hr]
    congr 1
    funext s
    exact ih s

theorem KktSolver.update_congr_lam (K : KktSolver α) {cones cones' : List (ConeSt α)} (st : LinSettings α)
    (h : ConesEqvLam cones cones') : K.update cones st = K.update cones' st := by
  unfold KktSolver.update
  rw [getHs_eqv h]
  congr 1
  funext hs
  split
  · rfl
  · dsimp only
    congr 1
    funext K1
    congr 1
    refine foldlM_congr_rel _ _ ?_ h _
    intro acc c c' hc
    cases c <;> cases c' <;> try exact hc.elim
    · rfl
    · rfl
    · rename_i Kc Kc'
      obtain ⟨hd, hw, he, hsp⟩ := hc
      obtain ⟨d, w, l, e, sp⟩ := Kc
      obtain ⟨d', w', l', e', sp'⟩ := Kc'
      dsimp only at hd hw he hsp
      subst hd hw he hsp
      rfl

theorem bind_solve {Bw Bs : KktSolver α → KktSolver α → Prop} (hsim : KktSim Bw Bs) {K K' : KktSolver α}
    (hB : Bs K K') (rhsx rhsz : Array α) (st : LinSettings α) {γ γ' : Type} {Q : γ → γ' → Prop}
    {g : Bool × Array α × Array α × KktSolver α → MErr γ} {g' : Bool × Array α × Array α × KktSolver α → MErr γ'}
    (hg : ∀ r r', (r.1 = r'.1 ∧ r.2.1 = r'.2.1 ∧ r.2.2.1 = r'.2.2.1 ∧ Bs r.2.2.2 r'.2.2.2) → RelM Q (g r) (g' r')) :
    RelM Q (K.setrhs rhsx rhsz >>= fun K1 => K1.solve st >>= g)
      (K'.setrhs rhsx rhsz >>= fun K1 => K1.solve st >>= g') := by
  have h := hsim.solve rhsx rhsz st hB
  rw [← bind_assoc, ← bind_assoc]
  exact RelM.bind h hg

theorem solveConstantRhs_rel {Bw Bs : KktSolver α → KktSolver α → Prop} (hsim : KktSim Bw Bs) {n : Nat}
    {S S' : KktSys α} (data : ProblemData α) (st : LinSettings α) (h : KRel Bs n data.q.size S S') :
    RelM (fun r r' => r.1 = r'.1 ∧ KRel Bs n data.q.size r.2 r'.2 ∧ (r.1 = true → r.2.x2 = r'.2.x2 ∧ r.2.z2 = r'.2.z2))
      (S.solveConstantRhs data st) (S'.solveConstantRhs data st) := by
  unfold KktSys.solveConstantRhs
  dsimp only
  rw [← scalaropFrom_congr _ _ h.workx]
  generalize Vec.scalaropFrom S.workx (fun q => -q) data.q = workx
  refine bind_solve hsim h.solver _ _ _ ?_
  rintro ⟨ok, lx, lz, K1⟩ ⟨ok', lx', lz', K1'⟩ ⟨h1, h2, h3, h4⟩
  dsimp only at h1 h2 h3 h4 ⊢
  subst h1 h2 h3
  have hk : KRel Bs n data.q.size { S with kktsolver := K1, workx := workx } { S' with kktsolver := K1', workx := workx } :=
    { h with solver := h4, workx := SameFrom.rfl' _ _ }
  cases ok with
  | false => exact ⟨rfl, hk, fun h => (Bool.false_ne_true h).elim⟩
  | true =>
    simp only [if_true]
    rw [copyInto_congr lx "x2" h.x2, copyInto_congr lz "z2" h.z2]
    cases copyInto S'.x2 lx "x2" with
    | error e => rfl
    | ok x2 =>
      cases copyInto S'.z2 lz "z2" with
      | error e => rfl
      | ok z2 => exact ⟨rfl, { hk with x2 := rfl, z2 := rfl }, fun _ => ⟨rfl, rfl⟩⟩

/-- `KKTSystem::update` -/
theorem KktSys.update_rel {Bw Bs : KktSolver α → KktSolver α → Prop} (hsim : KktSim Bw Bs) {n : Nat}
    {S S' : KktSys α} (data : ProblemData α) (cones : List (ConeSt α)) (st : LinSettings α) (h : KRel Bw n data.q.size S S') :
    RelM (fun r r' => r.1 = r'.1 ∧ KRel Bs n data.q.size r.2 r'.2 ∧ (r.1 = true → r.2.x2 = r'.2.x2 ∧ r.2.z2 = r'.2.z2))
      (S.update data cones st) (S'.update data cones st) := by
  unfold KktSys.update
  refine RelM.bind (hsim.update cones st h.solver) ?_
  rintro ⟨ok, K1⟩ ⟨ok', K1'⟩ ⟨h1, h2⟩
  dsimp only at h1 h2 ⊢
  subst h1
  have hk : KRel Bs n data.q.size { S with kktsolver := K1 } { S' with kktsolver := K1' } := { h with solver := h2 }
  cases ok with
  | false => exact ⟨rfl, hk, fun h => (Bool.false_ne_true h).elim⟩
  | true => exact solveConstantRhs_rel hsim data st hk

theorem waxpbyE_len_congr {len len' : Nat} (a : α) (x : Array α) (b : α) (y : Array α) (site : String)
    (h : len = len') : waxpbyE len a x b y site = waxpbyE len' a x b y site := by rw [h]

/-- `KKTSystem::solve` after a successful `update` in the same pass -/
theorem KktSys.solve_rel {Bw Bs : KktSolver α → KktSolver α → Prop} (hsim : KktSim Bw Bs) {n : Nat}
    {S S' : KktSys α} {lhs lhs' : Vars α} (rhs : Vars α) (data : ProblemData α) (vars : Vars α)
    (cones : List (ConeSt α)) (dir : StepDirection) (st : LinSettings α) (hn : numelAll cones = n)
    {nq : Nat} (h : KRel Bs n nq S S') (hx2 : S.x2 = S'.x2) (hz2 : S.z2 = S'.z2) (hl : StepShape n lhs lhs') :
    RelM (fun r r' => r.1 = r'.1 ∧ (if r.1 = true then r.2.1 = r'.2.1 else r.2.1 = lhs ∧ r'.2.1 = lhs')
        ∧ KRel Bs n nq r.2.2 r'.2.2 ∧ r.2.2.x2 = r'.2.2.x2 ∧ r.2.2.z2 = r'.2.2.z2)
      (S.solve lhs rhs data vars cones dir st) (S'.solve lhs' rhs data vars cones dir st) := by
  subst hn
  obtain ⟨ks, x1, z1, x2, z2, wx, wz, wc⟩ := S
  obtain ⟨ks', x1', z1', x2', z2', wx', wz', wc'⟩ := S'
  obtain ⟨hks, hx1, hz1, _, _, hwx, hwz, hwc⟩ := h
  dsimp only at hks hx1 hz1 hwx hwz hwc hx2 hz2
  subst hx2 hz2
  unfold KktSys.solve
  dsimp only
  rw [copyInto_congr rhs.x "workx" hwx.1]
  refine RelM.bind (RelM.refl_eq _) ?_
  intro workx _ e
  subst e
  cases dir
  all_goals
    dsimp only
    first
      | rw [copyInto_congr vars.s "work_conic" hwc.1]
      | rw [dsFromDzOffset_congr cones rhs.s vars.z hwc]
    refine RelM.bind (RelM.refl_eq _) ?_
    intro dsConst _ e
    subst e
    rw [waxpbyE_len_congr _ _ _ _ _ hwz]
    refine RelM.bind (RelM.refl_eq _) ?_
    intro workz _ e
    subst e
    refine bind_solve hsim hks _ _ _ ?_
    rintro ⟨ok, lx, lz, K1⟩ ⟨ok', lx', lz', K1'⟩ ⟨h1, h2, h3, h4⟩
    dsimp only at h1 h2 h3 h4 ⊢
    subst h1 h2 h3
    cases ok with
    | false =>
      exact ⟨rfl, ⟨rfl, rfl⟩, ⟨h4, hx1, hz1, rfl, rfl, SameFrom.rfl' _ _, rfl, SameFrom.rfl' _ _⟩, rfl, rfl⟩
    | true =>
      simp only [Bool.not_true, Bool.false_eq_true, if_false]
      rw [copyInto_congr lx "x1" hx1, copyInto_congr lz "z1" hz1]
      have hm : ∀ dz, mulHs cones lhs.s dz = mulHs cones lhs'.s dz := fun dz => mulHs_congr cones dz hl.s
      simp only [hm, hl.x, hl.z]
      repeat (refine RelM.bind (RelM.refl_eq _) ?_; intro _ _ e; subst e)
      exact ⟨rfl, rfl, ⟨h4, rfl, rfl, rfl, rfl, SameFrom.rfl' _ _, rfl, SameFrom.rfl' _ _⟩, rfl, rfl⟩

/-- the three vectors of an iterate agree -/
def VarsXSZ (v v' : Vars α) : Prop := v.x = v'.x ∧ v.s = v'.s ∧ v.z = v'.z

/-- the part of `solve_initial_point` after the zero-fill (the whole function before /repo 7c1c881):
same flag; the iterate it returns is the same whenever it succeeded (a failed KKT solve leaves the
incoming vectors in place), or when the incoming iterates were the same anyway -/
theorem KktSys.solveInitialPointCore_rel {Bw Bs : KktSolver α → KktSolver α → Prop} (hsim : KktSim Bw Bs) {n : Nat}
    {S S' : KktSys α} {vars vars' : Vars α} (data : ProblemData α) (st : LinSettings α)
    {nq : Nat} (h : KRel Bs n nq S S') (hv : VarsShape vars vars') :
    RelM (fun r r' => r.1 = r'.1 ∧ ((r.1 = true ∨ VarsXSZ vars vars') → VarsXSZ r.2.1 r'.2.1)
        ∧ VarsShape r.2.1 r'.2.1 ∧ KRel Bs n nq r.2.2 r'.2.2)
      (S.solveInitialPointCore vars data st) (S'.solveInitialPointCore vars' data st) := by
  obtain ⟨ks, x1, z1, x2, z2, wx, wz, wc⟩ := S
  obtain ⟨ks', x1', z1', x2', z2', wx', wz', wc'⟩ := S'
  obtain ⟨hks, hx1, hz1, hx2, hz2, hwx, hwz, hwc⟩ := h
  dsimp only at hks hx1 hz1 hx2 hz2 hwx hwz hwc
  unfold KktSys.solveInitialPointCore
  dsimp only
  split
  · rw [map_const_congr (0 : α) hwx.1, copyInto_congr data.b "workz" hwz]
    refine RelM.bind (RelM.refl_eq _) ?_
    intro workz _ e
    subst e
    refine bind_solve hsim hks _ _ _ ?_
    rintro ⟨ok, lx, lz, K1⟩ ⟨ok', lx', lz', K1'⟩ ⟨h1, h2, h3, h4⟩
    dsimp only at h1 h2 h3 h4 ⊢
    subst h1 h2 h3
    cases ok with
    | false =>
      simp only [Bool.false_eq_true, if_false, Bool.not_false, if_true]
      refine ⟨rfl, ?_, ⟨hv.x, ?_, hv.z⟩, ⟨h4, hx1, hz1, hx2, hz2, SameFrom.rfl' _ _, rfl, hwc⟩⟩
      · rintro (hc | ⟨e1, e2, e3⟩)
        · exact (Bool.false_ne_true hc).elim
        · exact ⟨e1, congrArg Vec.negate e2, e3⟩
      · show (Vec.negate vars.s).size = (Vec.negate vars'.s).size
        simp only [Vec.negate, Array.size_map, hv.s]
    | true =>
      simp only [if_true, Bool.not_true, Bool.false_eq_true, if_false]
      rw [copyInto_congr lx "variables.x" hv.x, copyInto_congr lz "variables.s" hv.s]
      refine RelM.bind (RelM.refl_eq _) ?_
      intro x _ e
      subst e
      refine RelM.bind (RelM.refl_eq _) ?_
      intro s _ e
      subst e
      refine RelM.bind (RelM.refl_eq _) ?_
      intro xs _ e
      subst e
      refine bind_solve hsim h4 _ _ _ ?_
      rintro ⟨ok2, lx2, lz2, K2⟩ ⟨ok2', lx2', lz2', K2'⟩ ⟨g1, g2, g3, g4⟩
      dsimp only at g1 g2 g3 g4 ⊢
      subst g1 g2 g3
      cases ok2 with
      | false =>
        simp only [Bool.false_eq_true, if_false]
        refine ⟨rfl, ?_, ⟨rfl, rfl, hv.z⟩, ⟨g4, hx1, hz1, hx2, hz2, SameFrom.rfl' _ _, rfl, hwc⟩⟩
        rintro (hc | ⟨e1, e2, e3⟩)
        · exact (Bool.false_ne_true hc).elim
        · exact ⟨rfl, rfl, e3⟩
      | true =>
        simp only [if_true]
        rw [copyInto_congr lz2 "variables.z" hv.z]
        refine RelM.bind (RelM.refl_eq _) ?_
        intro z _ e
        subst e
        exact ⟨rfl, fun _ => ⟨rfl, rfl, rfl⟩, ⟨rfl, rfl, rfl⟩, ⟨g4, hx1, hz1, hx2, hz2, SameFrom.rfl' _ _, rfl, hwc⟩⟩
  · rw [hwx.1]
    split
    · rfl
    · rw [copyInto_congr data.b "workz" hwz]
      refine RelM.bind (RelM.refl_eq _) ?_
      intro workz _ e
      subst e
      refine bind_solve hsim hks _ _ _ ?_
      rintro ⟨ok, lx, lz, K1⟩ ⟨ok', lx', lz', K1'⟩ ⟨h1, h2, h3, h4⟩
      dsimp only at h1 h2 h3 h4 ⊢
      subst h1 h2 h3
      cases ok with
      | false =>
        simp only [Bool.false_eq_true, if_false]
        dsimp only [bind, Except.bind, pure, Except.pure]
        rw [hv.s, hv.z]
        split
        · rfl
        · refine ⟨rfl, ?_, ⟨hv.x, ?_, hv.z⟩, ⟨h4, hx1, hz1, hx2, hz2, SameFrom.rfl' _ _, rfl, hwc⟩⟩
          · rintro (hc | ⟨e1, e2, e3⟩)
            · exact (Bool.false_ne_true hc).elim
            · exact ⟨e1, congrArg Vec.negate e3, e3⟩
          · show (Vec.negate vars.z).size = (Vec.negate vars'.z).size
            simp only [Vec.negate, Array.size_map, hv.z]
      | true =>
        simp only [if_true]
        rw [copyInto_congr lx "variables.x" hv.x, copyInto_congr lz "variables.z" hv.z]
        refine RelM.bind (RelM.refl_eq _) ?_
        intro x _ e
        subst e
        refine RelM.bind (RelM.refl_eq _) ?_
        intro z _ e
        subst e
        dsimp only [bind, Except.bind, pure, Except.pure]
        rw [hv.s]
        split
        · rfl
        · exact ⟨rfl, fun _ => ⟨rfl, rfl, rfl⟩, ⟨rfl, rfl, rfl⟩, ⟨h4, hx1, hz1, hx2, hz2, SameFrom.rfl' _ _, rfl, hwc⟩⟩

theorem VarsShape.zeroXSZ {v v' : Vars α} (h : VarsShape v v') : VarsShape (zeroXSZ v) (zeroXSZ v') :=
  ⟨by rw [zeroXSZ_size_x, zeroXSZ_size_x, h.x], by rw [zeroXSZ_size_s, zeroXSZ_size_s, h.s],
    by rw [zeroXSZ_size_z, zeroXSZ_size_z, h.z]⟩

theorem VarsXSZ.zeroXSZ {v v' : Vars α} (h : VarsShape v v') : VarsXSZ (zeroXSZ v) (zeroXSZ v') :=
  zeroXSZ_congr h.x h.s h.z

/-- `solve_initial_point` (since /repo 7c1c881 it zero-fills `variables.x/s/z` first): same flag and —
whether the KKT solves succeed or not, whatever the incoming iterates hold — the SAME iterate: the
content of the incoming `x, s, z` is dead, only their lengths are read. -/
theorem KktSys.solveInitialPoint_rel_any {Bw Bs : KktSolver α → KktSolver α → Prop} (hsim : KktSim Bw Bs) {n : Nat}
    {S S' : KktSys α} {vars vars' : Vars α} (data : ProblemData α) (st : LinSettings α)
    {nq : Nat} (h : KRel Bs n nq S S') (hv : VarsShape vars vars') :
    RelM (fun r r' => r.1 = r'.1 ∧ VarsXSZ r.2.1 r'.2.1 ∧ VarsShape r.2.1 r'.2.1 ∧ KRel Bs n nq r.2.2 r'.2.2)
      (S.solveInitialPoint vars data st) (S'.solveInitialPoint vars' data st) := by
  rw [KktSys.solveInitialPoint_eq_core, KktSys.solveInitialPoint_eq_core]
  refine (KktSys.solveInitialPointCore_rel hsim data st h hv.zeroXSZ).mono ?_
  rintro r r' ⟨h1, h2, h3, h4⟩
  exact ⟨h1, h2 (Or.inr (VarsXSZ.zeroXSZ hv)), h3, h4⟩

/-- `solve_initial_point`, the statement as it was needed before /repo 7c1c881 (superseded by
`solveInitialPoint_rel_any`: the premise of the second conjunct is no longer needed) -/
theorem KktSys.solveInitialPoint_rel {Bw Bs : KktSolver α → KktSolver α → Prop} (hsim : KktSim Bw Bs) {n : Nat}
    {S S' : KktSys α} {vars vars' : Vars α} (data : ProblemData α) (st : LinSettings α)
    {nq : Nat} (h : KRel Bs n nq S S') (hv : VarsShape vars vars') :
    RelM (fun r r' => r.1 = r'.1 ∧ ((r.1 = true ∨ VarsXSZ vars vars') → VarsXSZ r.2.1 r'.2.1)
        ∧ VarsShape r.2.1 r'.2.1 ∧ KRel Bs n nq r.2.2 r'.2.2)
      (S.solveInitialPoint vars data st) (S'.solveInitialPoint vars' data st) :=
  (KktSys.solveInitialPoint_rel_any hsim data st h hv).mono
    fun _ _ ⟨h1, h2, h3, h4⟩ => ⟨h1, fun _ => h2, h3, h4⟩

end Clarabel.Solver
