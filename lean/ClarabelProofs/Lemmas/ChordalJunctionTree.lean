/-
  JUNCTION TREES AND MAXIMUM-WEIGHT SPANNING FORESTS (Jensen–Jensen / Shibata), on the data types of
  the clique-graph lemma files (`ChordalKruskal.lean`): cliques are indices `c : Nat` from a
  duplicate-free list `L`, the family is the membership function `cl c v` ("vertex `v` lies in clique
  `c`"), a graph / forest is a list of pairs, connectivity is `Conn`, acyclicity is `ForestFrom []`.

  * `JT.RIP cl L T` : the RUNNING-INTERSECTION PROPERTY of the edge list `T` — for every vertex `v`
    the cliques of `L` containing `v` are connected by the edges of `T` BOTH of whose ends contain `v`;
  * `JT.w cl nv e = |C_{e.1} ∩ C_{e.2}|` (vertices `0..nv`), `JT.weight` the total weight,
    `JT.bound = Σ_v (|{c ∈ L : v ∈ C_c}| - 1)`;
  * `JT.weight_eq_sum_at` : `weight T = Σ_v |T_v|` (double counting);
  * `JT.weight_le_bound` : EVERY forest has weight `≤ bound` (for each `v`, `T_v` is a forest on the
    cliques containing `v`);
  * `JT.rip_iff_weight_eq` : a forest HAS THE RUNNING-INTERSECTION PROPERTY IFF ITS WEIGHT IS `bound`;
  * `JT.rip_of_weight_ge` / `JT.rip_of_max_weight` : if SOME forest inside a graph `G` has the
    running-intersection property (a junction tree), then EVERY maximum-weight forest of `G` has it.

  Nothing here depends on the model; `ChordalKruskalMax.lean` shows that `kruskal` returns a
  maximum-weight forest, `ChordalCGJunction*.lean` instantiate `cl` with the clique sets of the
  clique-graph strategy.
-/
import ClarabelProofs.Lemmas.ChordalKruskal
import Mathlib.Data.List.Perm.Subperm

namespace Clarabel.Chordal
open Clarabel

/-! ## small facts on sums of lists of naturals (kept local: no big-operator import) -/

namespace JT

/-- [S] pointwise `≤` gives `≤` of the sums -/
theorem sum_map_le {β : Type} (f g : β → Nat) : ∀ l : List β, (∀ x ∈ l, f x ≤ g x) →
    (l.map f).sum ≤ (l.map g).sum := by
  intro l
  induction l with
  | nil => intro _; simp
  | cons a l ih =>
    intro h
    have h1 := h a (by simp)
    have h2 := ih (fun x hx => h x (by simp [hx]))
    simp only [List.map_cons, List.sum_cons]
    omega

/-- [S] pointwise `≤` and equal sums give pointwise equality -/
theorem eq_of_sum_map_eq {β : Type} (f g : β → Nat) : ∀ l : List β, (∀ x ∈ l, f x ≤ g x) →
    (l.map f).sum = (l.map g).sum → ∀ x ∈ l, f x = g x := by
  intro l
  induction l with
  | nil => intro _ _ x hx; simp at hx
  | cons a l ih =>
    intro h hs x hx
    have h1 := h a (by simp)
    have h2 := sum_map_le f g l (fun x hx => h x (by simp [hx]))
    simp only [List.map_cons, List.sum_cons] at hs
    rcases List.mem_cons.1 hx with rfl | hx
    · omega
    · exact ih (fun x hx => h x (by simp [hx])) (by omega) x hx

/-- [S] pointwise equality gives equal sums -/
theorem sum_map_congr {β : Type} (f g : β → Nat) : ∀ l : List β, (∀ x ∈ l, f x = g x) →
    (l.map f).sum = (l.map g).sum := by
  intro l h
  rw [List.map_congr_left h]

/-- [S] the sum of a pointwise sum -/
theorem sum_map_add {β : Type} (f g : β → Nat) : ∀ l : List β,
    (l.map (fun x => f x + g x)).sum = (l.map f).sum + (l.map g).sum := by
  intro l
  induction l with
  | nil => simp
  | cons a l ih => simp only [List.map_cons, List.sum_cons, ih]; omega

/-- [S] the length of a filtered list as a sum of indicators -/
theorem length_filter_eq_sum {β : Type} (p : β → Bool) : ∀ l : List β,
    (l.filter p).length = (l.map (fun x => if p x then 1 else 0)).sum := by
  intro l
  induction l with
  | nil => simp
  | cons a l ih =>
    by_cases h : p a = true
    · simp only [List.filter_cons, h, if_true, List.length_cons, List.map_cons, List.sum_cons, ih]
      omega
    · simp only [List.filter_cons, h, Bool.false_eq_true, if_false, List.map_cons, List.sum_cons,
        ih]
      omega

/-! ## the vocabulary -/

variable (cl : Nat → Nat → Bool)

/-- both ends of the edge `e` contain the vertex `v` -/
def both (v : Nat) (e : Nat × Nat) : Bool := cl e.1 v && cl e.2 v

/-- `T_v` : the edges of `T` both of whose ends contain `v` -/
def atV (v : Nat) (T : List (Nat × Nat)) : List (Nat × Nat) := T.filter (both cl v)

/-- `L_v` : the cliques of `L` that contain `v` -/
def has (v : Nat) (L : List Nat) : List Nat := L.filter (fun c => cl c v)

/-- THE RUNNING-INTERSECTION PROPERTY of the edge list `T` for the cliques `L`: any two cliques that
contain a vertex `v` are joined by a path of `T` along which every clique contains `v` -/
def RIP (L : List Nat) (T : List (Nat × Nat)) : Prop :=
  ∀ v, ∀ a ∈ L, ∀ b ∈ L, cl a v = true → cl b v = true → Conn (JT.atV cl v T) a b

/-- the weight of an edge: the number of vertices `< nv` common to its two cliques -/
def w (nv : Nat) (e : Nat × Nat) : Nat := ((List.range nv).filter (fun v => both cl v e)).length

/-- the total weight of an edge list -/
def weight (nv : Nat) (T : List (Nat × Nat)) : Nat := (T.map (w cl nv)).sum

/-- `Σ_v (|L_v| - 1)` : the weight of every junction tree, and the largest weight a forest can have -/
def bound (nv : Nat) (L : List Nat) : Nat :=
  ((List.range nv).map (fun v => (has cl v L).length - 1)).sum

variable {cl}

theorem mem_at {v : Nat} {T : List (Nat × Nat)} {e : Nat × Nat} :
    e ∈ JT.atV cl v T ↔ e ∈ T ∧ cl e.1 v = true ∧ cl e.2 v = true := by
  simp [JT.atV, both]

theorem mem_has {v : Nat} {L : List Nat} {c : Nat} : c ∈ has cl v L ↔ c ∈ L ∧ cl c v = true := by
  simp [has]

/-! ## double counting -/

/-- [S] DOUBLE COUNTING: the total weight is `Σ_v |T_v|` -/
theorem weight_eq_sum_at (nv : Nat) : ∀ T : List (Nat × Nat),
    weight cl nv T = ((List.range nv).map (fun v => (JT.atV cl v T).length)).sum := by
  intro T
  induction T with
  | nil => simp [weight, JT.atV]
  | cons e T ih =>
    have h1 : weight cl nv (e :: T) = w cl nv e + weight cl nv T := by
      simp [weight]
    have h2 : ∀ v, (JT.atV cl v (e :: T)).length =
        (if both cl v e then 1 else 0) + (JT.atV cl v T).length := by
      intro v
      by_cases h : both cl v e = true
      · simp [JT.atV, h]; omega
      · simp [JT.atV, h]
    rw [h1, ih, List.map_congr_left (fun v _ => h2 v), sum_map_add, w, length_filter_eq_sum]

/-! ## sub-lists of forests -/

/-- [S] filtering a forest (and shrinking the edges it starts from) leaves a forest -/
theorem forestFrom_filter (p : Nat × Nat → Bool) : ∀ (ms pre pre' : List (Nat × Nat)),
    ForestFrom pre ms → (∀ e ∈ pre', e ∈ pre) → ForestFrom pre' (ms.filter p) := by
  intro ms
  induction ms with
  | nil => intro _ _ _ _; simp [ForestFrom]
  | cons e ms ih =>
    intro pre pre' hf hsub
    obtain ⟨h0, hf'⟩ := hf
    by_cases hp : p e = true
    · rw [List.filter_cons_of_pos hp]
      refine ⟨fun hc => h0 (hc.mono hsub), ih (pre ++ [e]) (pre' ++ [e]) hf' ?_⟩
      intro x hx
      rcases List.mem_append.1 hx with hx | hx
      · exact List.mem_append_left _ (hsub x hx)
      · exact List.mem_append_right _ hx
    · rw [List.filter_cons_of_neg hp]
      exact ih (pre ++ [e]) pre' hf' (fun x hx => List.mem_append_left _ (hsub x hx))

/-- [S] for every vertex `v`, the edges of a forest whose ends both contain `v` are a forest on the
cliques containing `v`: at most `|L_v| - 1` of them, exactly that many iff they connect `L_v` -/
theorem at_count {L : List Nat} (hL : L.Nodup) {T : List (Nat × Nat)} (hT : ForestFrom [] T)
    (hTL : ∀ e ∈ T, e.1 ∈ L ∧ e.2 ∈ L) (v : Nat) :
    (JT.atV cl v T).length ≤ (has cl v L).length - 1 ∧
    ((∀ a ∈ has cl v L, ∀ b ∈ has cl v L, Conn (JT.atV cl v T) a b) ↔
      (JT.atV cl v T).length = (has cl v L).length - 1) := by
  have hf : ForestFrom [] (JT.atV cl v T) := forestFrom_filter _ T [] [] hT (fun _ h => h)
  have hin : ∀ e ∈ JT.atV cl v T, e.1 ∈ has cl v L ∧ e.2 ∈ has cl v L := by
    intro e he
    obtain ⟨h1, h2, h3⟩ := mem_at.1 he
    exact ⟨mem_has.2 ⟨(hTL e h1).1, h2⟩, mem_has.2 ⟨(hTL e h1).2, h3⟩⟩
  by_cases hne : has cl v L = []
  · have hnil : JT.atV cl v T = [] := by
      apply List.eq_nil_iff_forall_not_mem.2
      intro e he
      have := (hin e he).1
      rw [hne] at this
      simp at this
    rw [hnil, hne]
    simp
  · exact forest_connected_iff (hL.filter _) hne hf hin

/-! ## the theorems -/

/-- [S] **EVERY FOREST ON THE CLIQUES WEIGHS AT MOST `Σ_v (|L_v| - 1)`** -/
theorem weight_le_bound {L : List Nat} (hL : L.Nodup) (nv : Nat) {T : List (Nat × Nat)}
    (hT : ForestFrom [] T) (hTL : ∀ e ∈ T, e.1 ∈ L ∧ e.2 ∈ L) :
    weight cl nv T ≤ bound cl nv L := by
  rw [weight_eq_sum_at]
  exact sum_map_le _ _ _ (fun v _ => (at_count hL hT hTL v).1)

/-- [S] **A FOREST HAS THE RUNNING-INTERSECTION PROPERTY IFF ITS WEIGHT IS `Σ_v (|L_v| - 1)`**
(all cliques inside the vertices `0..nv`) -/
theorem rip_iff_weight_eq {L : List Nat} (hL : L.Nodup) (nv : Nat)
    (hnv : ∀ c ∈ L, ∀ v, cl c v = true → v < nv) {T : List (Nat × Nat)}
    (hT : ForestFrom [] T) (hTL : ∀ e ∈ T, e.1 ∈ L ∧ e.2 ∈ L) :
    RIP cl L T ↔ weight cl nv T = bound cl nv L := by
  rw [weight_eq_sum_at]
  constructor
  · intro hrip
    apply sum_map_congr
    intro v _
    apply ((at_count hL hT hTL v).2).1
    intro a ha b hb
    exact hrip v a (mem_has.1 ha).1 b (mem_has.1 hb).1 (mem_has.1 ha).2 (mem_has.1 hb).2
  · intro hs v a ha b hb hav hbv
    have hv : v ∈ List.range nv := List.mem_range.2 (hnv a ha v hav)
    have := eq_of_sum_map_eq _ _ _ (fun v _ => (at_count hL hT hTL v).1) hs v hv
    exact ((at_count hL hT hTL v).2).2 this a (mem_has.2 ⟨ha, hav⟩) b (mem_has.2 ⟨hb, hbv⟩)

/-- [S] **(Jensen–Jensen / Shibata)** if a forest `J` on the cliques has the running-intersection
property (a junction tree) and the forest `T` weighs at least as much, then `T` has the
running-intersection property -/
theorem rip_of_weight_ge {L : List Nat} (hL : L.Nodup) (nv : Nat)
    (hnv : ∀ c ∈ L, ∀ v, cl c v = true → v < nv) {J T : List (Nat × Nat)}
    (hJ : ForestFrom [] J) (hJL : ∀ e ∈ J, e.1 ∈ L ∧ e.2 ∈ L) (hrip : RIP cl L J)
    (hT : ForestFrom [] T) (hTL : ∀ e ∈ T, e.1 ∈ L ∧ e.2 ∈ L)
    (hge : weight cl nv J ≤ weight cl nv T) : RIP cl L T := by
  have h1 := (rip_iff_weight_eq hL nv hnv hJ hJL).1 hrip
  have h2 := weight_le_bound (cl := cl) hL nv hT hTL
  exact (rip_iff_weight_eq hL nv hnv hT hTL).2 (by omega)

/-- [S] **EVERY MAXIMUM-WEIGHT FOREST OF A GRAPH THAT CONTAINS A JUNCTION TREE IS A JUNCTION TREE**:
`G` is any edge list (the clique graph), `J ⊆ G` a forest with the running-intersection property,
`T` a forest of maximum weight among the forests inside `G` -/
theorem rip_of_max_weight {L : List Nat} (hL : L.Nodup) (nv : Nat)
    (hnv : ∀ c ∈ L, ∀ v, cl c v = true → v < nv) (G : List (Nat × Nat)) {J T : List (Nat × Nat)}
    (hJ : ForestFrom [] J) (hJL : ∀ e ∈ J, e.1 ∈ L ∧ e.2 ∈ L) (hJG : ∀ e ∈ J, e ∈ G)
    (hrip : RIP cl L J)
    (hT : ForestFrom [] T) (hTL : ∀ e ∈ T, e.1 ∈ L ∧ e.2 ∈ L)
    (hmax : ∀ F, ForestFrom [] F → (∀ e ∈ F, e ∈ G) → weight cl nv F ≤ weight cl nv T) :
    RIP cl L T :=
  rip_of_weight_ge hL nv hnv hJ hJL hrip hT hTL (hmax J hJ hJG)

/-- [S] a junction tree attains the bound; so all junction trees of a family weigh the same -/
theorem weight_of_rip {L : List Nat} (hL : L.Nodup) (nv : Nat)
    (hnv : ∀ c ∈ L, ∀ v, cl c v = true → v < nv) {J : List (Nat × Nat)}
    (hJ : ForestFrom [] J) (hJL : ∀ e ∈ J, e.1 ∈ L ∧ e.2 ∈ L) (hrip : RIP cl L J) :
    weight cl nv J = bound cl nv L :=
  (rip_iff_weight_eq hL nv hnv hJ hJL).1 hrip

/-! ## tools to decide `Conn` on concrete lists, and a non-vacuity example -/

/-- [S] a labelling constant along every edge is constant on connectivity classes (the way to
REFUTE `Conn` on a concrete edge list) -/
theorem conn_label {l : List (Nat × Nat)} (f : Nat → Nat) (hf : ∀ e ∈ l, f e.1 = f e.2) {a b : Nat}
    (h : Conn l a b) : f a = f b := by
  induction h with
  | rel a b hab => exact hf (a, b) hab
  | refl _ => rfl
  | symm _ _ _ ih => exact ih.symm
  | trans _ _ _ _ _ ih1 ih2 => exact ih1.trans ih2

namespace Ex

/-- three cliques `C₀ = {0,1}`, `C₁ = {1,2}`, `C₂ = {2,3}` on the vertices `0..4` (a path) -/
def cl3 : Nat → Nat → Bool := fun c v =>
  (c == 0 && (v == 0 || v == 1)) || (c == 1 && (v == 1 || v == 2)) || (c == 2 && (v == 2 || v == 3))

/-- the junction tree `1 — 0`, `2 — 1` -/
def J3 : List (Nat × Nat) := [(1, 0), (2, 1)]

/-- the clique graph: the junction tree plus the weight-`0` edge `2 — 0` -/
def G3 : List (Nat × Nat) := [(1, 0), (2, 0), (2, 1)]

theorem J3_forest : ForestFrom [] J3 := by
  refine ⟨?_, ?_, trivial⟩
  · intro h; have := (conn_nil_iff _ _).1 h; omega
  · intro h
    have := conn_label (fun x => if x = 2 then 1 else 0) (l := [] ++ [(1, 0)])
      (by intro e he; simp at he; subst he; rfl) h
    simp at this

theorem J3_rip : RIP cl3 [0, 1, 2] J3 := by
  intro v a ha b hb hav hbv
  have hv : v < 4 := by
    simp only [cl3] at hav
    by_contra h
    have : ∀ k : Nat, k < 4 → (v == k) = false := fun k hk => by simp; omega
    simp [this 0, this 1, this 2, this 3] at hav
  have ha' : a = 0 ∨ a = 1 ∨ a = 2 := by simpa using ha
  have hb' : b = 0 ∨ b = 1 ∨ b = 2 := by simpa using hb
  have e10 : v = 1 → Conn (JT.atV cl3 v J3) 1 0 := by
    rintro rfl; exact Conn.edge (by decide)
  have e21 : v = 2 → Conn (JT.atV cl3 v J3) 2 1 := by
    rintro rfl; exact Conn.edge (by decide)
  have hv' : v = 0 ∨ v = 1 ∨ v = 2 ∨ v = 3 := by omega
  rcases hv' with rfl | rfl | rfl | rfl <;> rcases ha' with rfl | rfl | rfl <;>
    rcases hb' with rfl | rfl | rfl <;>
    first
      | exact Conn.refl _ _
      | exact absurd hav (by decide)
      | exact absurd hbv (by decide)
      | exact e10 rfl
      | exact (e10 rfl).symm
      | exact e21 rfl
      | exact (e21 rfl).symm

/-- non-vacuity of `weight_of_rip` / `rip_iff_weight_eq`: the path of three cliques, weight `2` -/
example : weight cl3 4 J3 = bound cl3 4 [0, 1, 2] ∧ weight cl3 4 J3 = 2 := by
  refine ⟨weight_of_rip (by decide) 4 ?_ J3_forest (by decide) J3_rip, by decide⟩
  intro c _ v hv
  simp only [cl3] at hv
  by_contra h
  have : ∀ k : Nat, k < 4 → (v == k) = false := fun k hk => by simp; omega
  simp [this 0, this 1, this 2, this 3] at hv

/-- non-vacuity of `rip_of_max_weight`: in the clique graph `G3` the forest `[(2,1), (1,0)]` (the
junction tree listed in the other order) weighs as much as any forest of `G3` can (`bound`), hence
has the running-intersection property -/
example : RIP cl3 [0, 1, 2] [(2, 1), (1, 0)] := by
  have hnv : ∀ c ∈ [0, 1, 2], ∀ v, cl3 c v = true → v < 4 := by
    intro c _ v hv
    simp only [cl3] at hv
    by_contra h
    have : ∀ k : Nat, k < 4 → (v == k) = false := fun k hk => by simp; omega
    simp [this 0, this 1, this 2, this 3] at hv
  have hT : ForestFrom [] [(2, 1), (1, 0)] := by
    refine ⟨?_, ?_, trivial⟩
    · intro h; have := (conn_nil_iff _ _).1 h; omega
    · intro h
      have := conn_label (fun x => if x = 0 then 1 else 0) (l := [] ++ [(2, 1)])
        (by intro e he; simp at he; subst he; rfl) h
      simp at this
  refine rip_of_max_weight (by decide) 4 hnv G3 J3_forest (by decide) (by decide) J3_rip hT
    (by decide) ?_
  intro F hF hFG
  have hb := weight_le_bound (cl := cl3) (L := [0, 1, 2]) (by decide) 4 hF (by
    intro e he
    have := hFG e he
    simp only [G3, List.mem_cons, List.not_mem_nil, or_false] at this
    rcases this with rfl | rfl | rfl <;> decide)
  have : bound cl3 4 [0, 1, 2] = weight cl3 4 [(2, 1), (1, 0)] := by decide
  omega

end Ex

end JT

end Clarabel.Chordal
