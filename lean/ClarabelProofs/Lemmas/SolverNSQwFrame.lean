/-
  C05 on the whole-solver model WITH NONSYMMETRIC CONES — the linear-solver object, SINGLE-run frames:
  a whole NS `solve()` changes the linear-solver object only in what the next `update` rewrites
  (`Solver.Upd`) and keeps its invariant `Solver.KInv` (`solve_kstepN`).

  Same architecture as `KktQwFrame.lean` (`update_upd`) / `KktQwSolve.lean` (`KStep` chain) for the
  symmetric model; new are the generalised-power expansion (`updateSparseGenpow_upd`), the fold body
  of `kktSolverUpdate` (`spFold_updN`), the nonsymmetric branch of `default_start` (no KKT call) and
  the loop (`runLoop_kstep`, by induction on the fuel).  All structural ([S]).
-/
import ClarabelProofs.Lemmas.SolverNSStaleDefs

namespace Clarabel.SolverNS
open Clarabel Info Residuals
open Clarabel.Solver (KktSolver KktSys LinSettings Upd KInv KStep WK sparseIdx bind_ok_inv getE_ok_iff
  updateValues_upd scaleValues_upd updateSparseSoc_upd regularizeAndRefactor_upd kstep_solve
  solveConstantRhs_kstep solveInitialPoint_kstep StepDirection)

set_option linter.unusedSectionVars false
set_option linter.unusedVariables false

variable {α : Type}

section
variable [Add α] [Sub α] [Mul α] [Div α] [Neg α] [LT α] [LE α] [DecidableLT α] [DecidableLE α]
  [BEq α] [OfNat α 0] [OfNat α 1] [OfNat α 2] [OfNat α 3] [OfNat α 4] [OfNat α 100] [OfNat α 1000]
  [OfScientific α] [FloatLike α]

/-! ### `KKTSolver::update` (single run) -/

/-- [S] `csc_update_sparsecone` of a generalised power cone (single run): seven value writes, all at
positions the expansion map lists -/
theorem updateSparseGenpow_upd {st : LinSettings α} {K G : KktSolver α} {mp : Kkt.SparseMap}
    {c : GenPow.State α} (h : updateSparseGenpow K mp c = .ok G) (hW : ∀ i ∈ sparseIdx mp, WK K.map i)
    (hI : KInv K) : Upd st K G ∧ KInv G ∧ G.Hsblocks = K.Hsblocks := by
  unfold updateSparseGenpow at h
  split at h
  · rename_i mpp mq mr mD
    have hp : ∀ i ∈ mpp.toList, WK K.map i := fun i hi => hW i (by simp [sparseIdx, hi])
    have hq : ∀ i ∈ mq.toList, WK K.map i := fun i hi => hW i (by simp [sparseIdx, hi])
    have hr : ∀ i ∈ mr.toList, WK K.map i := fun i hi => hW i (by simp [sparseIdx, hi])
    have hD : ∀ i ∈ mD.toList, WK K.map i := fun i hi => hW i (by simp [sparseIdx, hi])
    dsimp only at h
    obtain ⟨K1, h1, h⟩ := bind_ok_inv h
    obtain ⟨K2, h2, h⟩ := bind_ok_inv h
    obtain ⟨K3, h3, h⟩ := bind_ok_inv h
    obtain ⟨K4, h4, h⟩ := bind_ok_inv h
    obtain ⟨K5, h5, h⟩ := bind_ok_inv h
    obtain ⟨K6, h6, h⟩ := bind_ok_inv h
    obtain ⟨u1, i1, b1⟩ := updateValues_upd (st := st) h1 hq hI
    obtain ⟨u2, i2, b2⟩ := updateValues_upd (st := st) h2 (by rw [← u1.map]; exact hr) i1
    obtain ⟨u3, i3, b3⟩ := updateValues_upd (st := st) h3 (by rw [← u2.map, ← u1.map]; exact hp) i2
    obtain ⟨u4, i4, b4⟩ := scaleValues_upd (st := st) h4 (by rw [← u3.map, ← u2.map, ← u1.map]; exact hq) i3
    obtain ⟨u5, i5, b5⟩ := scaleValues_upd (st := st) h5
      (by rw [← u4.map, ← u3.map, ← u2.map, ← u1.map]; exact hr) i4
    obtain ⟨u6, i6, b6⟩ := scaleValues_upd (st := st) h6
      (by rw [← u5.map, ← u4.map, ← u3.map, ← u2.map, ← u1.map]; exact hp) i5
    obtain ⟨u7, i7, b7⟩ := updateValues_upd (st := st) h
      (by rw [← u6.map, ← u5.map, ← u4.map, ← u3.map, ← u2.map, ← u1.map]; exact hD) i6
    exact ⟨(((((u1.trans u2).trans u3).trans u4).trans u5).trans u6).trans u7, i7,
      by rw [b7, b6, b5, b4, b3, b2, b1]⟩
  · cases h

/-- the body of the map-consuming loop of `kktSolverUpdate` (sparse second-order and generalised
power cones take the next expansion map) -/
def frStep (st : KktSolver α × Nat) (c : ConeSt α) : MErr (KktSolver α × Nat) :=
  match c with
  | .sym (.soc sc) =>
    if sc.sparse.isSome then do
      let thismap ← getE st.1.map.sparse_maps st.2 "sparse_map_iter.next().unwrap()"
      let K ← st.1.updateSparseSoc thismap sc
      pure (K, st.2 + 1)
    else pure st
  | .genpow _ _ _ gc => do
    let thismap ← getE st.1.map.sparse_maps st.2 "sparse_map_iter.next().unwrap()"
    let K ← updateSparseGenpow st.1 thismap gc
    pure (K, st.2 + 1)
  | _ => pure st

theorem kktSolverUpdate_eq_fr (K : KktSolver α) (cones : List (ConeSt α)) (st : LinSettings α) :
    kktSolverUpdate K cones st = (do
      let hs ← getHs cones
      if hs.size != K.Hsblocks.size then throw (.panic "get_Hs: Hsblock range")
      let K1 ← ({ K with Hsblocks := Vec.negate hs } : KktSolver α).updateValues K.map.Hsblocks (Vec.negate hs)
      let r ← cones.foldlM frStep (K1, 0)
      r.1.regularizeAndRefactor st) := rfl

/-- the `t`-th expansion map exists and its positions are among those `update` rewrites -/
theorem getE_map_WK {K : KktSolver α} {t : Nat} {mp : Kkt.SparseMap} {site : String}
    (hmp : getE K.map.sparse_maps t site = .ok mp) : ∀ i ∈ sparseIdx mp, WK K.map i := by
  have hmp' := getE_ok_iff.mp hmp
  have hlt : t < K.map.sparse_maps.size := by
    by_contra hc
    rw [Array.getElem?_eq_none (by omega)] at hmp'
    cases hmp'
  exact fun i hi => Or.inr ⟨t, Nat.zero_le _, hlt, mp, hmp', hi⟩

/-- [S] the map-consuming loop of `kktSolverUpdate` (single run) -/
theorem spFold_updN {st : LinSettings α} {K0 : KktSolver α} :
    ∀ (cones : List (ConeSt α)) (K : KktSolver α) (t : Nat) (r : KktSolver α × Nat),
      cones.foldlM frStep (K, t) = .ok r → Upd st K0 K → KInv K →
      Upd st K0 r.1 ∧ KInv r.1 ∧ r.1.Hsblocks = K.Hsblocks
  | [], K, t, r, h, hU, hI => by
    cases h
    exact ⟨hU, hI, rfl⟩
  | c :: cs, K, t, r, h, hU, hI => by
    rw [List.foldlM_cons] at h
    obtain ⟨⟨K1, t1⟩, h1, h⟩ := bind_ok_inv h
    have key : Upd st K0 K1 ∧ KInv K1 ∧ K1.Hsblocks = K.Hsblocks := by
      cases c with
      | exp e => cases h1; exact ⟨hU, hI, rfl⟩
      | pow a p => cases h1; exact ⟨hU, hI, rfl⟩
      | genpow al d2 ψ gc =>
        simp only [frStep] at h1
        obtain ⟨mp, hmp, h1⟩ := bind_ok_inv h1
        obtain ⟨K2, h2, h1⟩ := bind_ok_inv h1
        cases h1
        obtain ⟨u, i, b⟩ := updateSparseGenpow_upd (st := st) h2 (getE_map_WK hmp) hI
        exact ⟨hU.trans u, i, b⟩
      | sym c =>
        cases c with
        | zero d => cases h1; exact ⟨hU, hI, rfl⟩
        | nonneg Kn => cases h1; exact ⟨hU, hI, rfl⟩
        | soc sc =>
          by_cases hsp : sc.sparse.isSome = true
          · simp only [frStep, hsp, if_true] at h1
            obtain ⟨mp, hmp, h1⟩ := bind_ok_inv h1
            obtain ⟨K2, h2, h1⟩ := bind_ok_inv h1
            cases h1
            obtain ⟨u, i, b⟩ := updateSparseSoc_upd (st := st) h2 (getE_map_WK hmp) hI
            exact ⟨hU.trans u, i, b⟩
          · simp only [frStep, hsp, if_false, Bool.false_eq_true] at h1
            cases h1
            exact ⟨hU, hI, rfl⟩
    obtain ⟨a1, a2, a3⟩ := key
    obtain ⟨b1, b2, b3⟩ := spFold_updN cs K1 t1 r h a1 a2
    exact ⟨b1, b2, b3.trans a3⟩

/-- [S] **`kktSolverUpdate` (single run)**: the object afterwards is the object before up to what the
next `update` rewrites; the invariant is kept -/
theorem kktSolverUpdate_upd {st : LinSettings α} {K : KktSolver α} {cones : List (ConeSt α)}
    {r : Bool × KktSolver α} (h : kktSolverUpdate K cones st = .ok r) (hI : KInv K) :
    Upd st K r.2 ∧ KInv r.2 := by
  rw [kktSolverUpdate_eq_fr] at h
  obtain ⟨hs, _, h⟩ := bind_ok_inv h
  split at h
  · cases h
  · rename_i hsz
    have hsz' : hs.size = K.Hsblocks.size := by simpa using hsz
    obtain ⟨K1, h1, h⟩ := bind_ok_inv h
    obtain ⟨r2, h2, h⟩ := bind_ok_inv h
    have hU0 : Upd st K ({ K with Hsblocks := Vec.negate hs } : KktSolver α) :=
      { m := rfl, n := rfl, p := rfl, map := rfl, dsigns := rfl
        hsz := by show K.Hsblocks.size = (Vec.negate hs).size; unfold Vec.negate; rw [Array.size_map, hsz']
        km := rfl, kn := rfl, kcol := rfl, krow := rfl, nz := Solver.AgreeOn.rfl' _ _, ldl := Solver.LS.rfl' _ _,
        dr := fun _ => rfl, x := rfl, b := rfl, work1 := rfl, work2 := rfl }
    have hI0 : KInv ({ K with Hsblocks := Vec.negate hs } : KktSolver α) := ⟨hI.ldl, hI.x, hI.work1, hI.work2⟩
    obtain ⟨u1, i1, _⟩ := updateValues_upd (st := st) h1 (fun i hi => Or.inl hi) hI0
    obtain ⟨u2, i2, _⟩ := spFold_updN (st := st) cones K1 0 r2 h2 (hU0.trans u1) i1
    obtain ⟨u3, i3, _⟩ := regularizeAndRefactor_upd h i2
    exact ⟨u2.trans u3, i3⟩

/-- [S] `kktSolverUpdate` is a step of the linear-solver interface -/
theorem kstep_updateN {st : LinSettings α} {K : KktSolver α} {cones : List (ConeSt α)} {r : Bool × KktSolver α}
    (h : kktSolverUpdate K cones st = .ok r) : KStep st K r.2 := fun hI => kktSolverUpdate_upd h hI

/-! ### `DefaultKKTSystem` -/

/-- [S] `KKTSystem::update` -/
theorem kktSysUpdate_kstep {S : KktSys α} {data : ProblemData α} {cones : List (ConeSt α)} {st : LinSettings α}
    {r : Bool × KktSys α} (h : kktSysUpdate S data cones st = .ok r) : KStep st S.kktsolver r.2.kktsolver := by
  unfold kktSysUpdate at h
  obtain ⟨⟨ok, K⟩, hu, h⟩ := bind_ok_inv h
  have hk := kstep_updateN hu
  dsimp only at h
  split at h
  · cases h
    exact hk
  · exact hk.trans (solveConstantRhs_kstep h)

/-- [S] `KKTSystem::solve` -/
theorem kktSysSolve_kstep {S : KktSys α} {lhs rhs vars : Vars α} {data : ProblemData α} {cones : List (ConeSt α)}
    {dir : StepDirection} {st : LinSettings α} {r : Bool × Vars α × KktSys α}
    (h : kktSysSolve S lhs rhs data vars cones dir st = .ok r) : KStep st S.kktsolver r.2.2.kktsolver := by
  unfold kktSysSolve at h
  obtain ⟨workx, _, h⟩ := bind_ok_inv h
  extract_lets jp at h
  have h' : ∃ dsConst : Array α, jp dsConst = Except.ok r := by
    cases dir with
    | affine =>
      dsimp only at h
      obtain ⟨dsConst, _, h⟩ := bind_ok_inv h
      exact ⟨dsConst, h⟩
    | combined =>
      dsimp only at h
      obtain ⟨dsConst, _, h⟩ := bind_ok_inv h
      exact ⟨dsConst, h⟩
  clear h
  obtain ⟨dsConst, h⟩ := h'
  unfold jp at h
  clear jp
  obtain ⟨workz, _, h⟩ := bind_ok_inv h
  obtain ⟨K, hK, h⟩ := bind_ok_inv h
  obtain ⟨⟨ok, lx, lz, K2⟩, hs, h⟩ := bind_ok_inv h
  have hk := kstep_solve hK hs
  dsimp only at h
  split at h
  · cases h
    exact hk
  · obtain ⟨x1, _, h⟩ := bind_ok_inv h
    obtain ⟨z1, _, h⟩ := bind_ok_inv h
    obtain ⟨ξ, _, h⟩ := bind_ok_inv h
    obtain ⟨_, _, h⟩ := bind_ok_inv h
    obtain ⟨ξm, _, h⟩ := bind_ok_inv h
    obtain ⟨_, _, h⟩ := bind_ok_inv h
    obtain ⟨_, _, h⟩ := bind_ok_inv h
    obtain ⟨dx, _, h⟩ := bind_ok_inv h
    obtain ⟨dz, _, h⟩ := bind_ok_inv h
    obtain ⟨hs', _, h⟩ := bind_ok_inv h
    obtain ⟨ds, _, h⟩ := bind_ok_inv h
    cases h
    exact hk

/-! ### one pass, the loop, `default_start`, `solve()` -/

/-- [S] the KKT stage of a pass -/
theorem kktNumerics_kstep {st : Settings α} {S : SolverSt α} {cones : List (ConeSt α)} {mu : α}
    {iter : Nat} {sc : Loop.Scaling} {k : KktOut α} (h : kktNumerics st S cones mu iter sc = .ok k) :
    KStep st.lin S.kktsystem.kktsolver k.S.kktsystem.kktsolver := by
  unfold kktNumerics at h
  extract_lets data at h
  obtain ⟨⟨updOk, K0⟩, hupd, h⟩ := bind_ok_inv h
  dsimp -zeta only at h
  obtain ⟨rhs1, _, h⟩ := bind_ok_inv h
  extract_lets jp at h
  have hK0 := kktSysUpdate_kstep hupd
  have hx : ∃ x : Bool × Vars α × KktSys α, KStep st.lin K0.kktsolver x.2.2.kktsolver ∧ jp x = .ok k := by
    split at h
    · obtain ⟨x, hx, h⟩ := bind_ok_inv h
      exact ⟨x, kktSysSolve_kstep hx, h⟩
    · obtain ⟨x, hx, h⟩ := bind_ok_inv h
      cases hx
      exact ⟨_, KStep.rfl' _ _, h⟩
  clear h
  obtain ⟨⟨affOk, lhs1, K1⟩, hK1, h⟩ := hx
  unfold jp at h
  clear jp
  dsimp only at h
  split at h
  · obtain ⟨⟨aAff, nb⟩, _, h⟩ := bind_ok_inv h
    dsimp only at h
    obtain ⟨⟨rhs2, lhs2⟩, _, h⟩ := bind_ok_inv h
    dsimp only at h
    obtain ⟨⟨combOk, lhs3, K3⟩, hs, h⟩ := bind_ok_inv h
    cases h
    exact (hK0.trans hK1).trans (kktSysSolve_kstep hs)
  · cases h
    exact hK0.trans hK1

/-- [S] one pass of the loop -/
theorem pass_kstep {st : Settings α} {L L' : LoopSt α} {c : Bool} (hp : pass st L = .ok (c, L')) :
    KStep st.lin L.S.kktsystem.kktsolver L'.S.kktsystem.kktsolver := by
  unfold pass at hp
  obtain ⟨⟨residuals, mu, info1⟩, htop, hp⟩ := bind_ok_inv hp
  try dsimp only at hp
  split at hp
  · split at hp
    · cases hp
      exact KStep.rfl' _ _
    · obtain ⟨vs, _, hp⟩ := bind_ok_inv hp
      try dsimp only at hp
      split at hp
      · cases hp
        exact KStep.rfl' _ _
      · cases hp
        exact KStep.rfl' _ _
  · obtain ⟨sc, _, hp⟩ := bind_ok_inv hp
    try dsimp only at hp
    split at hp
    · cases hp
      exact KStep.rfl' _ _
    · obtain ⟨k, hk, hp⟩ := bind_ok_inv hp
      have h1 := kktNumerics_kstep hk
      try dsimp only at hp
      split at hp
      · split at hp
        · cases hp
          exact h1
        · cases hp
          exact h1
      · obtain ⟨⟨a, nbt⟩, _, hp⟩ := bind_ok_inv hp
        try dsimp only at hp
        split at hp
        · cases hp
          exact h1
        · split at hp
          · cases hp
            exact h1
          · obtain ⟨pv, _, hp⟩ := bind_ok_inv hp
            cases hp
            exact h1

/-- [S] the loop (induction on the pass budget) -/
theorem runLoop_kstep (st : Settings α) : ∀ (fuel : Nat) (L Lf : LoopSt α), runLoop st fuel L = .ok Lf →
    KStep st.lin L.S.kktsystem.kktsolver Lf.S.kktsystem.kktsolver
  | 0, L, Lf, h => by
    unfold runLoop at h
    cases h
  | fuel + 1, L, Lf, h => by
    unfold runLoop at h
    obtain ⟨⟨c, L1⟩, hp, h⟩ := bind_ok_inv h
    have h1 := pass_kstep hp
    dsimp only at h
    split at h
    · exact h1.trans (runLoop_kstep st fuel L1 Lf h)
    · cases h
      exact h1

/-- [S] `default_start`: the symmetric branch makes an `update` and `solve_initial_point`, the
nonsymmetric one no KKT call at all -/
theorem defaultStart_kstep {S S' : SolverSt α} {st : Settings α} (h : S.defaultStart st = .ok S') :
    KStep st.lin S.kktsystem.kktsolver S'.kktsystem.kktsolver := by
  unfold SolverSt.defaultStart at h
  split at h
  · obtain ⟨cs, _, h⟩ := bind_ok_inv h
    obtain ⟨⟨ok1, K1⟩, hu, h⟩ := bind_ok_inv h
    dsimp only at h
    obtain ⟨⟨ok2, v2, K2⟩, hi, h⟩ := bind_ok_inv h
    dsimp only at h
    obtain ⟨v3, _, h⟩ := bind_ok_inv h
    cases h
    exact (kktSysUpdate_kstep hu).trans (solveInitialPoint_kstep hi)
  · obtain ⟨v, _, h⟩ := bind_ok_inv h
    cases h
    exact KStep.rfl' _ _

/-- [S] `info.reset`, `default_start` and the loop -/
theorem runSolve_kstep {S : SolverSt α} {st : Settings α} {L : LoopSt α} (h : S.runSolve st = .ok L) :
    KStep st.lin S.kktsystem.kktsolver L.S.kktsystem.kktsolver := by
  unfold SolverSt.runSolve at h
  dsimp only at h
  obtain ⟨S0, hds, h⟩ := bind_ok_inv h
  exact (defaultStart_kstep hds).trans (runLoop_kstep st _ _ _ h)

/-- `finishInfo` does not touch `kktsystem` -/
theorem finishInfo_kktsystem (st : Settings α) (L : LoopSt α) : (finishInfo st L).kktsystem = L.S.kktsystem := by
  unfold finishInfo
  dsimp only
  split <;> rfl

/-- [S] **a whole NS `solve()`** leaves the linear-solver object as it found it, up to what the next
`update` rewrites; the invariant is kept -/
theorem solve_kstepN {S : Solver α} {st : Settings α} {r : SolveResult α} (h : S.solve st = .ok r) :
    Solver.KStep st.lin S.st.kktsystem.kktsolver r.S.st.kktsystem.kktsolver := by
  unfold Solver.solve at h
  obtain ⟨L, hL, h⟩ := bind_ok_inv h
  obtain ⟨p, hp, h⟩ := bind_ok_inv h
  obtain ⟨dN, hdN, h⟩ := bind_ok_inv h
  cases h
  unfold finish at hp
  obtain ⟨u, hu, hp⟩ := bind_ok_inv hp
  cases hp
  show KStep st.lin S.st.kktsystem.kktsolver (finishInfo st L).kktsystem.kktsolver
  rw [finishInfo_kktsystem]
  exact runSolve_kstep hL

end

end Clarabel.SolverNS
