/-
  Non-vacuity of the `Stale` theorems of the model WITH NONSYMMETRIC CONES (C05): for every solver
  object `S` that satisfies the structural invariant, the object `poison S` — garbage in the iterate,
  the residuals, the step vectors, `prev_vars`, the `info` block, the KKT work vectors, the linear
  solver's work vectors, the cone scalings AND the whole state of the exponential / power /
  generalised power cones (`H_dual`, `Hs`, `grad`, `z`; `grad, p, q, r, d1, d2, μ, z`), the `solution` —
  is `Stale`-related to `S` (scalar type `Int`); the example of `Lemmas/SolverNSExample.lean` (a
  nonnegative and an exponential cone) has a nonsymmetric cone, so condition (iii) is void on it, and
  its solver object satisfies `KktOk`.
-/
import ClarabelProofs.Lemmas.SolverNSStaleIdem
import ClarabelProofs.Lemmas.SolverNSNoPanicExample
import ClarabelProofs.Lemmas.SolverStaleExample

namespace Clarabel.SolverNS.Example
open Clarabel Clarabel.SolverNS Clarabel.Residuals
open Clarabel.Solver (RelM SameFrom VarsShape StepShape ResidShape ListRel KRel KktSolver QB VarsSized
  ResidSized KSized SolShape)
open Clarabel.Solver.Example (junk junk_size junkVars junkLam junkLam_shape)

attribute [local instance] intFloatLike intSci

/-- garbage in every part of a cone object that `solve()` must not read (the static parameters —
dimensions, the power cone's exponent, the generalised power cone's `α`, `dim2`, `ψ` — are kept) -/
def junkCone : ConeSt Int → ConeSt Int
  | .sym c => .sym (junkLam c)
  | .exp _ => .exp ⟨⟨7, 7, 7, 7, 7, 7⟩, ⟨8, 8, 8, 8, 8, 8⟩, (9, 9, 9), (5, 5, 5), true⟩
  | .pow a _ => .pow a ⟨⟨7, 7, 7, 7, 7, 7⟩, ⟨8, 8, 8, 8, 8, 8⟩, (9, 9, 9), (5, 5, 5), true⟩
  | .genpow al d2 ψ K =>
    .genpow al d2 ψ ⟨⟨junk K.D.grad 1, junk K.D.p 2, junk K.D.q 3, junk K.D.r 4, junk K.D.d1 5, 6⟩, 7, junk K.z 8⟩

/-- garbage in every component that `solve()` must not read -/
def poison (S : Solver Int) : Solver Int :=
  { st :=
      { S.st with
        «variables» := junkVars S.st.variables 100
        residuals := { rx := junk S.st.residuals.rx 7, rz := junk S.st.residuals.rz 8, rτ := 9,
                       rx_inf := junk S.st.residuals.rx_inf 10, rz_inf := junk S.st.residuals.rz_inf 11,
                       dot_qx := 12, dot_bz := 13, dot_sz := 14, dot_xPx := 15,
                       Px := junk S.st.residuals.Px (-16) }
        kktsystem := { S.st.kktsystem with
                       kktsolver := { S.st.kktsystem.kktsolver with
                                      x := junk S.st.kktsystem.kktsolver.x 21, b := junk S.st.kktsystem.kktsolver.b 22,
                                      work1 := junk S.st.kktsystem.kktsolver.work1 23,
                                      work2 := junk S.st.kktsystem.kktsolver.work2 24 }
                       x1 := junk S.st.kktsystem.x1 31, z1 := junk S.st.kktsystem.z1 32,
                       x2 := junk S.st.kktsystem.x2 33, z2 := junk S.st.kktsystem.z2 34,
                       workx := junk S.st.kktsystem.workx 35, workz := junk S.st.kktsystem.workz 36,
                       workConic := junk S.st.kktsystem.workConic 37 }
        cones := S.st.cones.map junkCone
        stepLhs := junkVars S.st.stepLhs 50
        stepRhs := junkVars S.st.stepRhs 60
        prevVars := junkVars S.st.prevVars 70
        info := { cost_primal := 1, cost_dual := 2, res_primal := 3, res_dual := 4, res_primal_inf := 5,
                  res_dual_inf := 6, gap_abs := 7, gap_rel := 8, ktratio := 9, prev_cost_primal := 10,
                  prev_cost_dual := 11, prev_res_primal := 12, prev_res_dual := 13, prev_gap_abs := 14,
                  prev_gap_rel := 15, iterations := 16, status := .numericalError }
        infoMu := 81, infoSigma := 82, infoStepLength := 83 }
    solution := { S.solution with x := junk S.solution.x 91, status := .maxTime, obj_val := some 5, iterations := 4 } }

theorem junkCone_shape (c : ConeSt Int) : ConeShape c (junkCone c) := by
  cases c with
  | sym c => exact junkLam_shape c
  | exp K => trivial
  | pow a K => exact rfl
  | genpow al d2 ψ K => exact ⟨rfl, rfl, rfl⟩

theorem junkCone_shapes (cs : List (ConeSt Int)) : ConesShape cs (cs.map junkCone) := by
  induction cs with
  | nil => exact .nil
  | cons c cs ih => exact .cons (junkCone_shape c) ih

theorem junkLam_full {c : Solver.ConeSt Int} (h : Solver.ConeFull c) : Solver.ConeFull (junkLam c) := by
  cases c with
  | zero d => trivial
  | nonneg K =>
    show (junk K.lam 41).size = (junk K.w 3).size
    rw [← junk_size, ← junk_size]; exact h
  | soc K =>
    obtain ⟨h1, h2, h3, h4, h5⟩ := h
    refine ⟨h1, ?_, ?_, ?_, ?_⟩
    · show (junk K.w 5).size = K.dim
      rw [← junk_size]; exact h2
    · show (junk K.lam 43).size = K.dim
      rw [← junk_size]; exact h3
    · show (K.sparse.map _).isSome = _
      rw [Option.isSome_map]; exact h4
    · intro sp hsp
      cases hs : K.sparse with
      | none => rw [hs] at hsp; cases hsp
      | some sp0 =>
        rw [hs] at hsp
        cases hsp
        obtain ⟨a, b⟩ := h5 sp0 hs
        exact ⟨by show (junk sp0.u 1).size = K.dim; rw [← junk_size]; exact a,
          by show (junk sp0.v 2).size = K.dim; rw [← junk_size]; exact b⟩

theorem junkCone_full {c : ConeSt Int} (h : ConeFull c) : ConeFull (junkCone c) := by
  cases c with
  | sym c => exact junkLam_full h
  | exp K => trivial
  | pow a K => trivial
  | genpow al d2 ψ K =>
    obtain ⟨h1, h2, h3, h4, h5, h6⟩ := h
    exact ⟨by show (junk K.D.grad 1).size = _; rw [← junk_size]; exact h1,
      by show (junk K.D.p 2).size = _; rw [← junk_size]; exact h2,
      by show (junk K.D.q 3).size = _; rw [← junk_size]; exact h3,
      by show (junk K.D.r 4).size = _; rw [← junk_size]; exact h4,
      by show (junk K.D.d1 5).size = _; rw [← junk_size]; exact h5,
      by show (junk K.z 8).size = _; rw [← junk_size]; exact h6⟩

theorem junkVars_sized {n m : Nat} {v : Vars Int} (h : VarsSized n m v) (c : Int) : VarsSized n m (junkVars v c) :=
  ⟨by show (junk v.x c).size = n; rw [← junk_size]; exact h.x,
    by show (junk v.s (c + 1)).size = m; rw [← junk_size]; exact h.s,
    by show (junk v.z (c + 2)).size = m; rw [← junk_size]; exact h.z⟩

/-- the poisoned copy of an object satisfying the structural invariant satisfies it again (with the
trivial invariant for its linear-solver object) -/
theorem shapes_poison {KI : KktSolver Int → Prop} {S : Solver Int} (h : Shapes KI S.st) :
    Shapes (fun _ => True) (poison S).st :=
  { data := h.data
    vars := junkVars_sized h.vars _
    resid := ⟨by show (junk _ _).size = _; rw [← junk_size]; exact h.resid.rx,
      by show (junk _ _).size = _; rw [← junk_size]; exact h.resid.rz,
      by show (junk _ _).size = _; rw [← junk_size]; exact h.resid.rx_inf,
      by show (junk _ _).size = _; rw [← junk_size]; exact h.resid.rz_inf,
      by show (junk _ _).size = _; rw [← junk_size]; exact h.resid.Px⟩
    stepLhs := junkVars_sized h.stepLhs _
    stepRhs := junkVars_sized h.stepRhs _
    prevVars := junkVars_sized h.prevVars _
    cones := by
      intro c hc
      obtain ⟨c0, hc0, rfl⟩ := List.mem_map.mp hc
      exact junkCone_full (h.cones c0 hc0)
    numel := by
      show numelAll (S.st.cones.map junkCone) = S.st.data.m
      rw [← ConesShape.numelAll (junkCone_shapes S.st.cones)]
      exact h.numel
    ksized := ⟨by show (junk _ _).size = _; rw [← junk_size]; exact h.ksized.x1,
      by show (junk _ _).size = _; rw [← junk_size]; exact h.ksized.z1,
      by show (junk _ _).size = _; rw [← junk_size]; exact h.ksized.x2,
      by show (junk _ _).size = _; rw [← junk_size]; exact h.ksized.z2,
      by show (junk _ _).size = _; rw [← junk_size]; exact h.ksized.workx,
      by show (junk _ _).size = _; rw [← junk_size]; exact h.ksized.workz,
      by show (junk _ _).size = _; rw [← junk_size]; exact h.ksized.workConic⟩
    kkt := trivial }

/-- every solver object satisfying the structural invariant is `Stale`-related to its poisoned copy -/
theorem stale_poison {KI : KktSolver Int → Prop} {S : Solver Int} (h : Shapes KI S.st) (k : Nat) (st : Solver.LinSettings Int) :
    Stale (BwN k st) S.st (poison S).st :=
  Stale.of_shapes h (shapes_poison h) rfl (junkCone_shapes _)
    (Or.inl (Solver.QB.toQWN (Solver.QB.set _ (junk_size _ _) (junk_size _ _) (junk_size _ _) (junk_size _ _))))

theorem solShape_poison (k : Option Nat) (S : Solver Int) : SolShape k S.solution (poison S).solution :=
  ⟨junk_size _ _, rfl, rfl, fun _ _ _ _ => rfl, fun _ _ _ _ => rfl⟩

/-- the composite cone of the example has a nonsymmetric cone (kernel evaluation) -/
theorem exNonsym_eval : (newSolver 3).toOption.map (fun S => isSymmetric S.st.cones) = some false := by
  decide +kernel

theorem exNonsymmetric {S : Solver Int} (h : newSolver 3 = .ok S) : isSymmetric S.st.cones = false := by
  have := exNonsym_eval
  rw [h] at this
  exact Option.some.inj this

end Clarabel.SolverNS.Example
