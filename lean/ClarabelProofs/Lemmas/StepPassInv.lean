/-
  C06, round 6 — INVERSION of the monadic functions of the whole-solver model that make up the
  KKT stage of one pass (`KktSys.solve`, `KktSys.update`, `affineStepRhs`, `combinedStepRhs`,
  `kktNumerics`, `stepVars`, `addStep`): what a successful (`.ok`) run says about its pieces.
  In particular `KktSys.solve_inv`: on success the model's `solve` IS C06's
  `KktSystem.solveAssemble` applied to the linear-solver outputs `(x1, z1)` and the stored
  constant solve `(x2, z2)`.  Scalar type ℝ.  All structural: `unfold` + `bind_ok_inv`.
-/
import ClarabelProofs.Lemmas.StepPassDefs
import ClarabelProofs.Lemmas.SolverModelLoop

namespace Clarabel.Solver
open Clarabel Clarabel.Lemmas Residuals

set_option linter.unusedVariables false
set_option linter.unusedSimpArgs false

theorem ok_bind {β γ : Type} (a : β) (f : β → MErr γ) : ((Except.ok a : MErr β) >>= f) = f a := rfl

/-! ## the asserting vector helpers -/

theorem copyInto_inv {dst src r : Array ℝ} {site : String} (h : copyInto dst src site = .ok r) :
    dst.size = src.size ∧ r = src := by
  unfold copyInto at h
  split at h
  · cases h
  · rename_i hne
    cases h
    simp only [bne_iff_ne, ne_eq, Decidable.not_not] at hne
    exact ⟨hne, rfl⟩

theorem axpbyE_inv {a b : ℝ} {x y r : Array ℝ} {site : String} (h : axpbyE a x b y site = .ok r) :
    y.size = x.size ∧ r = Vec.axpby a x b y := by
  unfold axpbyE at h
  split at h
  · cases h
  · rename_i hne
    cases h
    simp only [bne_iff_ne, ne_eq, Decidable.not_not] at hne
    exact ⟨hne, rfl⟩

theorem waxpbyE_inv {len : Nat} {a b : ℝ} {x y r : Array ℝ} {site : String}
    (h : waxpbyE len a x b y site = .ok r) :
    len = x.size ∧ len = y.size ∧ r = Vec.waxpby a x b y := by
  unfold waxpbyE at h
  split at h
  · cases h
  · rename_i hne
    cases h
    simp only [Bool.or_eq_true, bne_iff_ne, ne_eq, not_or, Decidable.not_not] at hne
    exact ⟨hne.1, hne.2, rfl⟩

theorem vec_axpby_size (a b : ℝ) (x y : Array ℝ) : (Vec.axpby a x b y).size = min y.size x.size := by
  simp [Vec.axpby]

theorem vec_waxpby_size (a b : ℝ) (x y : Array ℝ) : (Vec.waxpby a x b y).size = min x.size y.size := by
  simp [Vec.waxpby]

theorem mulHsT_ok {cones : List (ConeSt ℝ)} {y v r : Array ℝ} (h : mulHs cones y v = .ok r) :
    mulHsT cones y v = r := by
  unfold mulHsT
  rw [h]

/-! ## (1) `DefaultKKTSystem::solve` -/

/-- a failed `solve` (flag `false`) leaves `lhs` alone -/
theorem KktSys.solve_fail {S S' : KktSys ℝ} {lhs rhs lhs' vars : Vars ℝ} {data : ProblemData ℝ}
    {cones : List (ConeSt ℝ)} {dir : StepDirection} {st : LinSettings ℝ}
    (h : S.solve lhs rhs data vars cones dir st = .ok (false, lhs', S')) : lhs' = lhs := by
  unfold KktSys.solve at h
  obtain ⟨workx, hwx, h⟩ := bind_ok_inv h
  dsimp only at h
  cases dir <;> dsimp only at h
  all_goals
    obtain ⟨dsConst, hds, h⟩ := bind_ok_inv h
    obtain ⟨workz, hwz, h⟩ := bind_ok_inv h
    obtain ⟨K, hK, h⟩ := bind_ok_inv h
    obtain ⟨⟨ok, lx, lz, K2⟩, hsol, h⟩ := bind_ok_inv h
    dsimp only at h
    split at h
    · cases h
      rfl
    · obtain ⟨x1, hx1, h⟩ := bind_ok_inv h
      obtain ⟨z1, hz1, h⟩ := bind_ok_inv h
      try dsimp only at h
      obtain ⟨ξ, hξ, h⟩ := bind_ok_inv h
      obtain ⟨ξPx1, hq1, h⟩ := bind_ok_inv h
      obtain ⟨ξm, hξm, h⟩ := bind_ok_inv h
      obtain ⟨qfξm, hq2, h⟩ := bind_ok_inv h
      obtain ⟨qfx2, hq3, h⟩ := bind_ok_inv h
      obtain ⟨dx, hdx, h⟩ := bind_ok_inv h
      obtain ⟨dz, hdz, h⟩ := bind_ok_inv h
      obtain ⟨hs, hhs, h⟩ := bind_ok_inv h
      obtain ⟨ds, hdss, h⟩ := bind_ok_inv h
      cases h

/-- a successful `solve` is `KktSystem.solveAssemble` on the linear-solver outputs -/
theorem KktSys.solve_inv {S S' : KktSys ℝ} {lhs rhs lhs' vars : Vars ℝ} {data : ProblemData ℝ}
    {cones : List (ConeSt ℝ)} {dir : StepDirection} {st : LinSettings ℝ}
    (h : S.solve lhs rhs data vars cones dir st = .ok (true, lhs', S')) :
    ∃ dsConst hs : Array ℝ,
      (dir = .affine → dsConst = vars.s ∧ S.workConic.size = vars.s.size)
      ∧ (dir = .combined → dsFromDzOffset cones S.workConic rhs.s vars.z = .ok dsConst)
      ∧ S'.workConic = dsConst ∧ S'.x2 = S.x2 ∧ S'.z2 = S.z2
      ∧ S'.workz = Vec.waxpby 1 dsConst (-1) rhs.z
      -- the length asserts
      ∧ S.workx.size = rhs.x.size ∧ rhs.x.size = vars.x.size
      ∧ S.workz.size = dsConst.size ∧ S.workz.size = rhs.z.size
      ∧ S.x1.size = S'.x1.size ∧ S.z1.size = S'.z1.size
      ∧ lhs.x.size = S'.x1.size ∧ lhs.x.size = S.x2.size
      ∧ lhs.z.size = S'.z1.size ∧ lhs.z.size = S.z2.size
      ∧ hs.size = dsConst.size
      ∧ lhs'.x.size = lhs.x.size ∧ lhs'.z.size = lhs.z.size ∧ lhs'.s.size = dsConst.size
      -- the cone part
      ∧ mulHs cones lhs.s lhs'.z = .ok hs ∧ lhs'.s = Vec.axpby (-1) dsConst (-1) hs
      -- the assembly
      ∧ KktSystem.solveAssemble (KktSystem.quadForm data.P) (mulHsT cones lhs.s) data.q data.b
          (toStep vars) (toStep rhs) dsConst S'.x1 S'.z1 S.x2 S.z2
        = .ok (toStep lhs', rhs.x, Vec.waxpby 1 dsConst (-1) rhs.z) := by
  unfold KktSys.solve at h
  obtain ⟨workx, hwx, h⟩ := bind_ok_inv h
  dsimp only at h
  cases dir <;> dsimp only at h
  all_goals
    obtain ⟨dsConst, hds, h⟩ := bind_ok_inv h
    obtain ⟨workz, hwz, h⟩ := bind_ok_inv h
    obtain ⟨K, hK, h⟩ := bind_ok_inv h
    obtain ⟨⟨ok, lx, lz, K2⟩, hsol, h⟩ := bind_ok_inv h
    dsimp only at h
    split at h
    · cases h
    · obtain ⟨x1, hx1, h⟩ := bind_ok_inv h
      obtain ⟨z1, hz1, h⟩ := bind_ok_inv h
      try dsimp only at h
      obtain ⟨ξ, hξ, h⟩ := bind_ok_inv h
      obtain ⟨ξPx1, hq1, h⟩ := bind_ok_inv h
      obtain ⟨ξm, hξm, h⟩ := bind_ok_inv h
      obtain ⟨qfξm, hq2, h⟩ := bind_ok_inv h
      obtain ⟨qfx2, hq3, h⟩ := bind_ok_inv h
      obtain ⟨dx, hdx, h⟩ := bind_ok_inv h
      obtain ⟨dz, hdz, h⟩ := bind_ok_inv h
      obtain ⟨hs, hhs, h⟩ := bind_ok_inv h
      obtain ⟨ds, hdss, h⟩ := bind_ok_inv h
      cases h
      obtain ⟨wx1, wx2⟩ := copyInto_inv hwx
      obtain ⟨wz1, wz2, wz3⟩ := waxpbyE_inv hwz
      obtain ⟨a1, a2⟩ := copyInto_inv hx1
      obtain ⟨b1, b2⟩ := copyInto_inv hz1
      obtain ⟨c1, c2⟩ := axpbyE_inv hξ
      obtain ⟨d1, d2⟩ := axpbyE_inv hξm
      obtain ⟨e1, e2, e3⟩ := waxpbyE_inv hdx
      obtain ⟨f1, f2, f3⟩ := waxpbyE_inv hdz
      obtain ⟨g1, g2⟩ := axpbyE_inv hdss
      subst wx2 wz3 a2 b2 c2 d2 e3 f3 g2
      refine ⟨dsConst, hs, ?_, ?_, rfl, rfl, rfl, rfl, wx1, c1, wz1, wz2, a1, b1, e1, e2, f1, f2, g1, ?_, ?_, ?_, hhs, rfl, ?_⟩
      · intro hd
        first
          | exact ⟨(copyInto_inv hds).2, (copyInto_inv hds).1⟩
          | cases hd
      · intro hd
        first
          | exact hds
          | cases hd
      · dsimp only
        rw [vec_waxpby_size, ← e1, ← e2, Nat.min_self]
      · dsimp only
        rw [vec_waxpby_size, ← f1, ← f2, Nat.min_self]
      · dsimp only
        rw [vec_axpby_size, g1, Nat.min_self]
      · unfold KktSystem.solveAssemble
        dsimp only [toStep]
        rw [hq1, ok_bind, hq2, ok_bind, hq3, ok_bind, mulHsT_ok hhs]
        rfl

/-- the sizes a successful `solve` fixes, given those of `variables` and of the two work vectors -/
theorem KktSys.solve_sizes {S S' : KktSys ℝ} {lhs rhs lhs' vars : Vars ℝ} {data : ProblemData ℝ}
    {cones : List (ConeSt ℝ)} {dir : StepDirection} {st : LinSettings ℝ} {n m : Nat}
    (h : S.solve lhs rhs data vars cones dir st = .ok (true, lhs', S'))
    (hvx : vars.x.size = n) (hlx : lhs.x.size = n) (hlz : lhs.z.size = m) (hrz : rhs.z.size = m) :
    S'.x1.size = n ∧ S.x2.size = n ∧ S'.z1.size = m ∧ S.z2.size = m ∧ S'.workConic.size = m
      ∧ rhs.x.size = n ∧ lhs'.x.size = n ∧ lhs'.z.size = m ∧ lhs'.s.size = m := by
  obtain ⟨dsConst, hs, _, _, hwc, _, _, _, _, hrx, hwz1, hwz2, _, _, hx1, hx2, hz1, hz2, _, hlx', hlz', hls', _⟩ :=
    KktSys.solve_inv h
  have hd : dsConst.size = m := by rw [← hwz1, hwz2, hrz]
  refine ⟨?_, ?_, ?_, ?_, ?_, ?_, ?_, ?_, ?_⟩
  · rw [← hx1, hlx]
  · rw [← hx2, hlx]
  · rw [← hz1, hlz]
  · rw [← hz2, hlz]
  · rw [hwc, hd]
  · rw [hrx, hvx]
  · rw [hlx', hlx]
  · rw [hlz', hlz]
  · rw [hls', hd]

/-! ## (2) `DefaultKKTSystem::update` -/

theorem KktSys.solveConstantRhs_inv {S S' : KktSys ℝ} {data : ProblemData ℝ} {st : LinSettings ℝ} {ok : Bool}
    (h : S.solveConstantRhs data st = .ok (ok, S')) :
    S'.x1 = S.x1 ∧ S'.z1 = S.z1 ∧ S'.workConic = S.workConic ∧ S'.workz = S.workz
      ∧ (ok = true → S'.x2.size = S.x2.size ∧ S'.z2.size = S.z2.size)
      ∧ (ok = false → S'.x2 = S.x2 ∧ S'.z2 = S.z2) := by
  unfold KktSys.solveConstantRhs at h
  dsimp only at h
  obtain ⟨K, hK, h⟩ := bind_ok_inv h
  obtain ⟨⟨ok1, lx, lz, K2⟩, hsol, h⟩ := bind_ok_inv h
  dsimp only at h
  split at h
  · obtain ⟨x2, hx2, h⟩ := bind_ok_inv h
    obtain ⟨z2, hz2, h⟩ := bind_ok_inv h
    cases h
    obtain ⟨a1, a2⟩ := copyInto_inv hx2
    obtain ⟨b1, b2⟩ := copyInto_inv hz2
    subst a2 b2
    refine ⟨rfl, rfl, rfl, rfl, fun _ => ⟨a1.symm, b1.symm⟩, fun hf => ?_⟩
    cases hf
  · cases h
    refine ⟨rfl, rfl, rfl, rfl, fun hf => ?_, fun _ => ⟨rfl, rfl⟩⟩
    cases hf

theorem KktSys.update_inv {S S' : KktSys ℝ} {data : ProblemData ℝ} {cones : List (ConeSt ℝ)}
    {st : LinSettings ℝ} {ok : Bool} (h : S.update data cones st = .ok (ok, S')) :
    S'.x1 = S.x1 ∧ S'.z1 = S.z1 ∧ S'.workConic = S.workConic ∧ S'.workz = S.workz
      ∧ (ok = true → S'.x2.size = S.x2.size ∧ S'.z2.size = S.z2.size)
      ∧ (ok = false → S'.x2 = S.x2 ∧ S'.z2 = S.z2) := by
  unfold KktSys.update at h
  obtain ⟨⟨ok1, K⟩, hupd, h⟩ := bind_ok_inv h
  dsimp only at h
  split at h
  · cases h
    refine ⟨rfl, rfl, rfl, rfl, fun hf => ?_, fun _ => ⟨rfl, rfl⟩⟩
    cases hf
  · exact KktSys.solveConstantRhs_inv (S := { S with kktsolver := K }) h

/-! ## (4) `affine_step_rhs` -/

theorem affineStepRhs_inv {self vars rhs : Vars ℝ} {r : Resid ℝ} {cones : List (ConeSt ℝ)}
    (h : affineStepRhs self r vars cones = .ok rhs) :
    rhs.x = r.rx ∧ rhs.z = r.rz ∧ rhs.τ = r.rτ ∧ rhs.κ = vars.τ * vars.κ
      ∧ affineDs cones self.s = .ok rhs.s ∧ self.x.size = r.rx.size ∧ self.z.size = r.rz.size := by
  unfold affineStepRhs at h
  obtain ⟨x, hx, h⟩ := bind_ok_inv h
  obtain ⟨z, hz, h⟩ := bind_ok_inv h
  obtain ⟨_, hcut, h⟩ := bind_ok_inv h
  obtain ⟨s, hs, h⟩ := bind_ok_inv h
  cases h
  obtain ⟨a1, a2⟩ := copyInto_inv hx
  obtain ⟨b1, b2⟩ := copyInto_inv hz
  exact ⟨a2, b2, rfl, rfl, hs, a1, b1⟩

/-! ## (3) `combined_step_rhs` -/

theorem combinedStepRhs_inv {self vars step rhs step' : Vars ℝ} {r : Resid ℝ} {cones : List (ConeSt ℝ)}
    {σ μ m : ℝ} (h : combinedStepRhs self r vars cones step σ μ m = .ok (rhs, step')) :
    rhs.x = Vec.axpby (1 - σ) r.rx 0 self.x ∧ r.rx.size = self.x.size
      ∧ rhs.τ = (1 - σ) * r.rτ ∧ rhs.κ = -(σ * μ) + m * step.τ * step.κ + vars.τ * vars.κ
      ∧ step'.x = step.x ∧ step'.τ = step.τ ∧ step'.κ = step.κ
      ∧ ∃ shift stepz0 stepz steps : Array ℝ,
          rhs.z = Vec.axpby (1 - σ) r.rz 0 shift ∧ r.rz.size = shift.size
          ∧ stepz0 = (if m < 1 ∨ 1 < m ∨ FloatLike.isNaN m then Vec.scale step.z m else step.z)
          ∧ combinedDsShift cones self.z stepz0 step.s (σ * μ) = .ok (shift, stepz, steps)
          ∧ rhs.s = Vec.axpby 1 shift 1 self.s ∧ shift.size = self.s.size
          ∧ step'.z = stepz ∧ step'.s = steps := by
  unfold combinedStepRhs at h
  dsimp only at h
  obtain ⟨x, hx, h⟩ := bind_ok_inv h
  obtain ⟨⟨shift, stepz, steps⟩, hsh, h⟩ := bind_ok_inv h
  dsimp only at h
  obtain ⟨s, hs, h⟩ := bind_ok_inv h
  obtain ⟨z, hz, h⟩ := bind_ok_inv h
  cases h
  obtain ⟨a1, a2⟩ := axpbyE_inv hx
  obtain ⟨b1, b2⟩ := axpbyE_inv hs
  obtain ⟨c1, c2⟩ := axpbyE_inv hz
  exact ⟨a2, a1.symm, rfl, rfl, rfl, rfl, rfl, shift, _, stepz, steps, c2, c1.symm, rfl, hsh, b2, b1.symm, rfl, rfl⟩

/-- dense reading of the `x`, `z` parts of `combined_step_rhs` -/
theorem combinedStepRhs_dense {self vars step rhs step' : Vars ℝ} {r : Resid ℝ} {cones : List (ConeSt ℝ)}
    {σ μ m : ℝ} {n mm : Nat} (h : combinedStepRhs self r vars cones step σ μ m = .ok (rhs, step'))
    (hrx : r.rx.size = n) (hrz : r.rz.size = mm) :
    rhs.x.size = n ∧ rhs.z.size = mm ∧ toFn rhs.x n = (1 - σ) • toFn r.rx n
      ∧ toFn rhs.z mm = (1 - σ) • toFn r.rz mm := by
  obtain ⟨hx, hxs, _, _, _, _, _, shift, _, _, _, hz, hzs, _⟩ := combinedStepRhs_inv h
  have h1 : self.x.size = n := by rw [← hxs, hrx]
  have h2 : shift.size = mm := by rw [← hzs, hrz]
  refine ⟨?_, ?_, ?_, ?_⟩
  · rw [hx]; exact axpby_size _ _ _ _ hrx h1
  · rw [hz]; exact axpby_size _ _ _ _ hrz h2
  · rw [hx, toFn_axpby _ _ _ _ hrx h1, zero_smul, add_zero]
  · rw [hz, toFn_axpby _ _ _ _ hrz h2, zero_smul, add_zero]

/-! ## (6) `save_prev_iterate` / `add_step` -/

theorem stepVars_inv {S : SolverSt ℝ} {a : ℝ} {pv : Vars ℝ × Vars ℝ} (h : stepVars S a = .ok pv) :
    addStep S.variables S.stepLhs a = .ok pv.2 ∧ varsCopyFrom S.prevVars S.variables = .ok pv.1 := by
  unfold stepVars at h
  obtain ⟨p, hp, h⟩ := bind_ok_inv h
  obtain ⟨v, hv, h⟩ := bind_ok_inv h
  cases h
  exact ⟨hv, hp⟩

theorem addStep_inv_x {v d v' : Vars ℝ} {a : ℝ} (h : addStep v d a = .ok v') :
    d.x.size = v.x.size ∧ v'.x = Vec.axpby a d.x 1 v.x
      ∧ d.s.size = v.s.size ∧ v'.s = Vec.axpby a d.s 1 v.s
      ∧ d.z.size = v.z.size ∧ v'.z = Vec.axpby a d.z 1 v.z
      ∧ v'.τ = v.τ + a * d.τ ∧ v'.κ = v.κ + a * d.κ := by
  unfold addStep at h
  obtain ⟨x, hx, h⟩ := bind_ok_inv h
  obtain ⟨s, hs, h⟩ := bind_ok_inv h
  obtain ⟨z, hz, h⟩ := bind_ok_inv h
  cases h
  obtain ⟨a1, a2⟩ := axpbyE_inv hx
  obtain ⟨b1, b2⟩ := axpbyE_inv hs
  obtain ⟨c1, c2⟩ := axpbyE_inv hz
  exact ⟨a1.symm, a2, b1.symm, b2, c1.symm, c2, rfl, rfl⟩

/-- dense reading of `add_step` -/
theorem addStep_dense {v d v' : Vars ℝ} {a : ℝ} {n m : Nat} (h : addStep v d a = .ok v')
    (hx : v.x.size = n) (hs : v.s.size = m) (hz : v.z.size = m) :
    v'.x.size = n ∧ v'.s.size = m ∧ v'.z.size = m
      ∧ toFn v'.x n = toFn v.x n + a • toFn d.x n
      ∧ toFn v'.s m = toFn v.s m + a • toFn d.s m
      ∧ toFn v'.z m = toFn v.z m + a • toFn d.z m
      ∧ v'.τ = v.τ + a * d.τ ∧ v'.κ = v.κ + a * d.κ := by
  obtain ⟨x1, x2, s1, s2, z1, z2, ht, hk⟩ := addStep_inv_x h
  have dx : d.x.size = n := by rw [x1, hx]
  have ds : d.s.size = m := by rw [s1, hs]
  have dz : d.z.size = m := by rw [z1, hz]
  refine ⟨?_, ?_, ?_, ?_, ?_, ?_, ht, hk⟩
  · rw [x2]; exact axpby_size _ _ _ _ dx hx
  · rw [s2]; exact axpby_size _ _ _ _ ds hs
  · rw [z2]; exact axpby_size _ _ _ _ dz hz
  · rw [x2, toFn_axpby _ _ _ _ dx hx, one_smul, add_comm]
  · rw [s2, toFn_axpby _ _ _ _ ds hs, one_smul, add_comm]
  · rw [z2, toFn_axpby _ _ _ _ dz hz, one_smul, add_comm]

/-! ## (5) the KKT stage of a pass -/

theorem kktNumerics_inv {st : Settings ℝ} {S : SolverSt ℝ} {cones : List (ConeSt ℝ)} {mu : ℝ} {iter : Nat}
    {k : KktOut ℝ} (h : kktNumerics st S cones mu iter = .ok k) (hk : k.ok = true) :
    ∃ (kk1 : KktSys ℝ) (rhsA lhsA : Vars ℝ) (kk2 : KktSys ℝ) (aAff : ℝ) (rhsC lhsA' lhsC : Vars ℝ)
      (kk3 : KktSys ℝ),
      S.kktsystem.update S.data cones st.lin = .ok (true, kk1)
      ∧ affineStepRhs S.stepRhs S.residuals S.variables cones = .ok rhsA
      ∧ kk1.solve S.stepLhs rhsA S.data S.variables cones .affine st.lin = .ok (true, lhsA, kk2)
      ∧ calcStepLength S.variables lhsA cones st.maxValue st.maxStepFraction .affine = .ok aAff
      ∧ combinedStepRhs rhsA S.residuals S.variables cones lhsA (Step.centeringParameter aAff) mu
          (Step.mehrotraM iter aAff) = .ok (rhsC, lhsA')
      ∧ kk2.solve lhsA' rhsC S.data S.variables cones .combined st.lin = .ok (true, lhsC, kk3)
      ∧ k.S = { S with kktsystem := kk3, stepRhs := rhsC, stepLhs := lhsC }
      ∧ k.aff = some (aAff, Step.centeringParameter aAff) := by
  unfold kktNumerics at h
  dsimp only at h
  obtain ⟨⟨updOk, kk1⟩, hupd, h⟩ := bind_ok_inv h
  dsimp only at h
  obtain ⟨rhsA, hrhsA, h⟩ := bind_ok_inv h
  split at h
  · rename_i hu
    obtain ⟨⟨affOk, lhsA, kk2⟩, hsolA, h⟩ := bind_ok_inv h
    try dsimp only at h
    split at h
    · rename_i haff
      obtain ⟨aAff, haAff, h⟩ := bind_ok_inv h
      obtain ⟨⟨rhsC, lhsA'⟩, hcomb, h⟩ := bind_ok_inv h
      try dsimp only at h
      obtain ⟨⟨combOk, lhsC, kk3⟩, hsolC, h⟩ := bind_ok_inv h
      cases h
      dsimp only at hk
      rw [hu] at hupd
      rw [haff] at hsolA
      rw [hk] at hsolC
      exact ⟨kk1, rhsA, lhsA, kk2, aAff, rhsC, lhsA', lhsC, kk3, hupd, hrhsA, hsolA, haAff, hcomb, hsolC, rfl, rfl⟩
    · cases h
      cases hk
  · obtain ⟨x, hx, h⟩ := bind_ok_inv h
    cases hx
    simp only [Bool.false_eq_true, if_false] at h
    cases h
    cases hk

end Clarabel.Solver
