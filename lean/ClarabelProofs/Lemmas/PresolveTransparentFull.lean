/-
  C09 round 4 — `presolve_transparent` WITHOUT the length hypothesis.

  `Lemmas/PresolveTransparent.lean` assumed `|variables.s| = |variables.z| = A'.m` after the solve
  (the length invariant of the iteration).  It is discharged here: `DefaultSolver::new` allocates
  `variables` with the lengths `(n, m)` of the internal (reduced) problem (`solverNew_anatomy`),
  `solve()` keeps them (`new_solve_variables_sized`: C05's shape frame — the same size facts as
  C04's invariant `Shapes`, from the mere success of `solve()`), and the reduced problem has
  `m = A'.m` rows because the hand-reduced solver object — built with presolve OFF from `A'` — has
  the same internal data up to the `presolver` record.

  Structural ([S]).
-/
import ClarabelProofs.Lemmas.PresolveTransparent
import ClarabelProofs.Lemmas.SolverFullNew

namespace Clarabel
namespace Presolve
open Cones Solver
variable {α : Type}

section main
variable [Add α] [Sub α] [Mul α] [Div α] [Neg α] [OfNat α 0] [OfNat α 1] [OfNat α 2]
  [OfNat α 100] [OfNat α 1000] [LT α] [DecidableLT α] [LE α] [DecidableLE α] [BEq α] [FloatLike α]

/-- a solver object built with presolve off has `data.m = A.m` -/
theorem solverNew_off_m {P : Csc α} {q : Array α} {A : Csc α} {b : Array α} {cones : List (ConeT α)}
    {st : Settings α} {perm : Array Nat} {S : Solver α} (hoff : st.presolveEnable = false)
    (h : Solver.new P q A b cones st perm = .ok S) : S.st.data.m = A.m := by
  obtain ⟨d0, hA⟩ := solverNew_anatomy h
  have hp := hA.pdata
  rw [hoff] at hp
  rw [hA.m, (problemDataNew_off_m hp).1]

/-- **`presolve_transparent`, model level, end to end, no length hypothesis.** -/
theorem presolve_transparent_model_full {P : Csc α} {q : Array α} {A : Csc α} {b : Array α}
    {cones : List (ConeT α)} {st : Settings α} {perm : Array Nat} {S : Solver α} {keep : List Bool}
    (hA : C16.Canonical A) (hpre : st.presolveEnable = true)
    (hnew : Solver.new P q A b cones st perm = .ok S)
    (hk : keepFlags (threshold st.infbound) (newCollapsed cones) b.toList = .ok keep)
    (hc : keep.count true < b.size) :
    ∃ (A' : Csc α) (b' : Array α) (cones' : List (ConeT α)) (S' : Solver α),
      handReduce keep A b cones = .ok (A', b', cones') ∧
      A'.m = keep.count true ∧ A'.n = A.n ∧
      Solver.new P q A' b' cones' { st with presolveEnable := false } perm = .ok S' ∧
      S'.st = S.st.setPre none ∧ S'.solution = Unscale.Solution.new A'.n A'.m ∧
      presolveMap S.st.data = some { keep := keep.toArray, infbound := st.infbound } ∧
      S.st.data.m = A'.m ∧
      ∀ r, S.solve st = .ok r →
        (r.S.st.variables.s.size = A'.m ∧ r.S.st.variables.z.size = A'.m) ∧
        ∃ r', S'.solve { st with presolveEnable := false } = .ok r' ∧
          SolveRel { keep := keep.toArray, infbound := st.infbound } r r' := by
  obtain ⟨A', b', cones', S', h1, h2, h3, h4, h5, h6, h7, h8⟩ :=
    presolve_transparent_model hA hpre hnew hk hc
  have hm' : S'.st.data.m = A'.m := solverNew_off_m rfl h4
  have hm : S.st.data.m = A'.m := by
    rw [← hm', h5]; rfl
  refine ⟨A', b', cones', S', h1, h2, h3, h4, h5, h6, h7, hm, ?_⟩
  intro r hr
  obtain ⟨_, _, hs, hz⟩ := new_solve_variables_sized hnew hr
  rw [hm] at hs hz
  exact ⟨⟨hs, hz⟩, h8 r hr hs hz⟩

end main
end Presolve
end Clarabel
