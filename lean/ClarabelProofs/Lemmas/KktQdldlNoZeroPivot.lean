/-
  C11 ∘ C12: QDLDL's factorisation returns `Ok` (no `ZeroPivot`) with DYNAMIC REGULARISATION OFF
  whenever the symmetric meaning of the input is quasidefinite with margin `ε > 0` (Vanderbei),
  for ANY permutation, and `D` has the recorded signs.

  * `ldl_invariant_nz` [F]: the row-by-row invariant of `KktLdlSigns.ldl_invariant` under the
    weaker hypothesis that the off-diagonal equation of column `c` is only available when
    `d c ≠ 0` (what a division-by-pivot elimination delivers).
  * `refLDL_diag`, `refLDL_offdiag` [F]: C12's reference dense elimination `refLDL`/`refPivot`
    satisfies the diagonal equation for every row, and the off-diagonal equation `(r, c)` whenever
    the pivot `refPivot a c` is nonzero.
  * `refPivot_margin`, `refPivot_ne_zero` [F]: for a symmetric `a` that is quasidefinite with margin
    `ε > 0` for the pattern `s`, every reference pivot has the sign `s k` and modulus `≥ ε`.
  * `new_ok_of_quasiDef` [F]: composition with C12's `new_zeroPivot_iff`: on a valid QDLDL input
    `K` whose symmetric meaning is quasidefinite with margin `ε > 0`, for ANY valid ordering and
    dynamic regularisation OFF, `QDLDLFactorisation::new` returns a factorisation object, never
    `ZeroPivot`, and `D[r]` is the reference pivot of the permuted matrix, with the sign
    `s (perm r)` and modulus `≥ ε`.
-/
import ClarabelProofs.Lemmas.QdldlNewZeroPivot
import ClarabelProofs.Lemmas.KktQdldlSigns
import ClarabelProofs.Lemmas.KktQdldlExample

namespace Clarabel.Lemmas.KktLdlSigns

open Finset
open Clarabel Clarabel.Qdldl
open Clarabel.Lemmas.KktInertia Clarabel.Lemmas.KktInertiaList

set_option linter.unusedSectionVars false

section algebra
variable {α : Type} [Field α] [LinearOrder α] [IsStrictOrderedRing α]

/-- [F] **the invariant of the row-by-row induction, off-diagonal equations only where the pivot
is nonzero.**  Same conclusion as `ldl_invariant`; the off-diagonal equation of column `c` is only
assumed when `d c ≠ 0` (the induction establishes `d k ≠ 0` before it uses column `k`). -/
theorem ldl_invariant_nz (n : ℕ) (a ℓ : ℕ → ℕ → α) (d : ℕ → α) (s : Fin n → Bool) (ε : α)
    (rule : ℕ → α → α) (hsym : ∀ i j, a i j = a j i)
    (hQ : QuasiDefGE (fun i j : Fin n => a i.val j.val) s Finset.univ ε) (hε : 0 < ε)
    (hrule : ∀ r (hr : r < n) (x : α), (if s ⟨r, hr⟩ then ε ≤ x else x ≤ -ε) → rule r x = x)
    (hoff : ∀ r, r < n → ∀ c, c < r → d c ≠ 0 →
      ℓ r c * d c + ∑ j ∈ Finset.range c, ℓ c j * (ℓ r j * d j) = a c r)
    (hdiag : ∀ r, r < n → d r = rule r (rawPiv a ℓ d r)) :
    ∀ k, k ≤ n →
      (∀ j (_ : j < k) (hjn : j < n), d j = rawPiv a ℓ d j ∧
        (if s ⟨j, hjn⟩ then ε ≤ d j else d j ≤ -ε)) ∧
      (∀ r c, k ≤ r → k ≤ c → r < n → c < n →
        schur a k r c = a r c - ∑ j ∈ Finset.range k, (ℓ r j * d j) * ℓ c j) ∧
      QuasiDefGE (fun i j : Fin n => schur a k i.val j.val) s
        (Finset.univ.filter (fun i : Fin n => k ≤ i.val)) ε := by
  intro k
  induction k with
  | zero =>
    intro _
    refine ⟨fun j hj => absurd hj (Nat.not_lt_zero _), ?_, ?_⟩
    · intro r c _ _ _ _
      simp [schur]
    · have : (Finset.univ.filter (fun i : Fin n => 0 ≤ i.val)) = Finset.univ := by
        ext i; simp
      rw [this]
      exact hQ
  | succ k ih =>
    intro hk
    have hkn : k < n := hk
    obtain ⟨ha, hb, hc⟩ := ih (by omega)
    -- the pivot of step `k`
    have hpS : (⟨k, hkn⟩ : Fin n) ∈ Finset.univ.filter (fun i : Fin n => k ≤ i.val) := by simp
    have hpm := hc.pivot_margin hpS
    have hkk : schur a k k k = rawPiv a ℓ d k := by
      rw [hb k k (Nat.le_refl _) (Nat.le_refl _) hkn hkn]
      rfl
    have hpm' : if s ⟨k, hkn⟩ then ε ≤ rawPiv a ℓ d k else rawPiv a ℓ d k ≤ -ε := by
      rw [← hkk]; exact hpm
    have hdk : d k = rawPiv a ℓ d k := by
      rw [hdiag k hkn]
      exact hrule k hkn _ hpm'
    have hdkne : d k ≠ 0 := by
      rw [hdk]
      by_cases hs : s ⟨k, hkn⟩ = true
      · rw [if_pos hs] at hpm'; intro h0; rw [h0] at hpm'; linarith
      · rw [if_neg hs] at hpm'; intro h0; rw [h0] at hpm'; linarith
    -- column `k` of the `k`-th Schur complement is `ℓ[·,k]·d[k]`
    have hcol : ∀ r, k < r → r < n → schur a k r k = ℓ r k * d k := by
      intro r hkr hr
      rw [hb r k (by omega) (Nat.le_refl _) hr hkn]
      have h1 := hoff r hr k hkr hdkne
      have h2 : ∑ j ∈ Finset.range k, (ℓ r j * d j) * ℓ k j
          = ∑ j ∈ Finset.range k, ℓ k j * (ℓ r j * d j) :=
        Finset.sum_congr rfl fun j _ => by ring
      rw [h2, hsym r k, ← h1]
      ring
    have hrow : ∀ c, k < c → c < n → schur a k k c = ℓ c k * d k := by
      intro c hkc hcn
      rw [hb k c (Nat.le_refl _) (by omega) hkn hcn]
      have h1 := hoff c hcn k hkc hdkne
      have h2 : ∑ j ∈ Finset.range k, (ℓ k j * d j) * ℓ c j
          = ∑ j ∈ Finset.range k, ℓ k j * (ℓ c j * d j) :=
        Finset.sum_congr rfl fun j _ => by ring
      rw [h2, ← h1]
      ring
    refine ⟨?_, ?_, ?_⟩
    · intro j hj hjn
      by_cases hjk : j = k
      · subst hjk
        refine ⟨hdk, ?_⟩
        rw [hdk]; exact hpm'
      · exact ha j (by omega) hjn
    · intro r c hr hcc hrn hcn
      show schur a k r c - schur a k r k * schur a k k c / schur a k k k = _
      rw [hb r c (by omega) (by omega) hrn hcn, hcol r (by omega) hrn, hrow c (by omega) hcn,
        hkk, ← hdk, Finset.sum_range_succ]
      field_simp
      ring
    · have hel := hc.elim hε hpS
      have hset : (Finset.univ.filter (fun i : Fin n => k ≤ i.val)).erase ⟨k, hkn⟩
          = Finset.univ.filter (fun i : Fin n => k + 1 ≤ i.val) := by
        ext i
        simp only [Finset.mem_erase, Finset.mem_filter, Finset.mem_univ, true_and, ne_eq,
          Fin.ext_iff]
        omega
      rw [hset] at hel
      exact hel

end algebra

/-! ### the reference elimination of C12 satisfies the `LDLᵀ` equations -/

section ref
variable {α : Type} [Field α]

/-- the strictly lower factor of the reference elimination: row `r` is fixed by `refLDL a (r+1)` -/
def refL (a : ℕ → ℕ → α) (r c : ℕ) : α := (refLDL a (r + 1)).1 r c

theorem refL_eq (a : ℕ → ℕ → α) (r c : ℕ) :
    refL a r c = refRow a (refLDL a r).1 (refLDL a r).2 r r c := by
  show (if r = r then refRow a (refLDL a r).1 (refLDL a r).2 r r c else _) = _
  rw [if_pos rfl]

/-- `refRow` is stable in its last argument: entry `j` is fixed at step `j + 1` -/
theorem refRow_stable (a ℓ : ℕ → ℕ → α) (d : ℕ → α) (r m j : ℕ) (h : j < m) :
    refRow a ℓ d r m j = refRow a ℓ d r (j + 1) j := by
  induction m with
  | zero => omega
  | succ m ih =>
    by_cases hj : j = m
    · subst hj; rfl
    · show Function.update (refRow a ℓ d r m) m _ j = _
      rw [Function.update_of_ne hj]
      exact ih (by omega)

theorem refRow_succ_self (a ℓ : ℕ → ℕ → α) (d : ℕ → α) (r c : ℕ) :
    refRow a ℓ d r (c + 1) c
      = (a c r - ∑ j ∈ Finset.range c, ℓ c j * (refRow a ℓ d r c j * d j)) / d c := by
  show Function.update (refRow a ℓ d r c) c _ c = _
  rw [Function.update_self]

/-- entry `(r, c)`, `c < r`, of the reference factor: forward substitution, divided by the pivot
(`x / 0 = 0`) -/
theorem refL_entry (a : ℕ → ℕ → α) (r c : ℕ) (hc : c < r) :
    refL a r c
      = (a c r - ∑ j ∈ Finset.range c, refL a c j * (refL a r j * refPivot a j)) / refPivot a c := by
  rw [refL_eq, refRow_stable _ _ _ r r c hc, refRow_succ_self, refLDL_d_stable a r c hc]
  congr 2
  refine Finset.sum_congr rfl (fun j hj => ?_)
  rw [Finset.mem_range] at hj
  rw [refLDL_l_stable a r c j hc, refLDL_d_stable a r j (by omega),
    refRow_stable _ _ _ r c j hj, ← refRow_stable _ _ _ r r j (by omega), ← refL_eq]
  rfl

/-- [F] the diagonal equation of the reference elimination, every row: the pivot is the raw pivot
(Schur complement) of its row -/
theorem refLDL_diag (a : ℕ → ℕ → α) (r : ℕ) :
    refPivot a r = rawPiv a (refL a) (refPivot a) r := by
  unfold rawPiv
  show Function.update (refLDL a r).2 r _ r = _
  rw [Function.update_self]
  congr 1
  refine Finset.sum_congr rfl (fun j hj => ?_)
  rw [Finset.mem_range] at hj
  rw [← refL_eq, refLDL_d_stable a r j hj]

/-- [F] the off-diagonal equation `(r, c)`, `c < r`, of the reference elimination holds whenever
the pivot of column `c` is nonzero -/
theorem refLDL_offdiag (a : ℕ → ℕ → α) (r c : ℕ) (hc : c < r) (hd : refPivot a c ≠ 0) :
    refL a r c * refPivot a c
      + ∑ j ∈ Finset.range c, refL a c j * (refL a r j * refPivot a j) = a c r := by
  rw [refL_entry a r c hc, div_mul_cancel₀ _ hd]
  ring

end ref

section margin
variable {α : Type} [Field α] [LinearOrder α] [IsStrictOrderedRing α]

/-- [F] **Vanderbei: every pivot of the exact elimination of a quasidefinite matrix has the
recorded sign and modulus `≥ ε`** (natural order; any order by re-indexing). -/
theorem refPivot_margin (n : ℕ) (a : ℕ → ℕ → α) (s : Fin n → Bool) (ε : α)
    (hsym : ∀ i j, a i j = a j i)
    (hQ : QuasiDefGE (fun i j : Fin n => a i.val j.val) s Finset.univ ε) (hε : 0 < ε)
    (k : ℕ) (hk : k < n) :
    if s ⟨k, hk⟩ then ε ≤ refPivot a k else refPivot a k ≤ -ε :=
  ((ldl_invariant_nz n a (refL a) (refPivot a) s ε (fun _ x => x) hsym hQ hε
    (fun _ _ _ _ => rfl) (fun r _ c hc hd => refLDL_offdiag a r c hc hd)
    (fun r _ => refLDL_diag a r) n (Nat.le_refl _)).1 k hk hk).2

/-- [F] hence no pivot of the exact elimination is zero -/
theorem refPivot_ne_zero (n : ℕ) (a : ℕ → ℕ → α) (s : Fin n → Bool) (ε : α)
    (hsym : ∀ i j, a i j = a j i)
    (hQ : QuasiDefGE (fun i j : Fin n => a i.val j.val) s Finset.univ ε) (hε : 0 < ε)
    (k : ℕ) (hk : k < n) : refPivot a k ≠ 0 := by
  have h := refPivot_margin n a s ε hsym hQ hε k hk
  by_cases hs : s ⟨k, hk⟩ = true
  · rw [if_pos hs] at h; intro h0; rw [h0] at h; linarith
  · rw [if_neg hs] at h; intro h0; rw [h0] at h; linarith

end margin

end Clarabel.Lemmas.KktLdlSigns

namespace Clarabel.Qdldl

open Clarabel.Lemmas.KktInertia Clarabel.Lemmas.KktInertiaList Clarabel.Lemmas.KktLdlSigns

section compose
variable {α : Type} [Field α] [LinearOrder α] [IsStrictOrderedRing α] [FloatLike α]

/-- [F] the pivots of the exact elimination of `Π Sym(K) Πᵀ`, for ANY valid ordering `perm`, have
the recorded signs `s (perm r)` and modulus `≥ ε` when `Sym(K)` is quasidefinite with margin
`ε > 0` for the pattern `s`. -/
theorem refPivot_permSym_margin (K : Csc α) (perm iperm : Array Nat)
    (hip : Perm.invperm perm = .ok iperm) (hps : perm.size = K.n) (ε : α) (s : Fin K.n → Bool)
    (hQ : QuasiDefGE (fun i j : Fin K.n => symOf K i.val j.val) s Finset.univ ε) (hε : 0 < ε)
    (r : Nat) (hr : r < K.n) :
    ∃ hpr : perm.getD r 0 < K.n,
      (if s ⟨perm.getD r 0, hpr⟩ then ε ≤ refPivot (permSym K perm) r
        else refPivot (permSym K perm) r ≤ -ε) ∧ refPivot (permSym K perm) r ≠ 0 := by
  obtain ⟨_, hinv⟩ := invperm_invPair perm iperm hip
  rw [hps] at hinv
  set e : Equiv.Perm (Fin K.n) := hinv.toEquiv with he
  have hQ' : QuasiDefGE (fun i j : Fin K.n => permSym K perm i.val j.val) (fun i => s (e i))
      Finset.univ ε := QuasiDefGE.reindex e hQ
  have hsym : ∀ i j, permSym K perm i j = permSym K perm j i := fun i j => symOf_comm K _ _
  exact ⟨hinv.pm_lt r hr,
    refPivot_margin K.n (permSym K perm) (fun i => s (e i)) ε hsym hQ' hε r hr,
    refPivot_ne_zero K.n (permSym K perm) (fun i => s (e i)) ε hsym hQ' hε r hr⟩

/-- [F] **QDLDL succeeds without dynamic regularisation on a quasidefinite matrix, for ANY
ordering** (Vanderbei), on the composed models of C11 and C12.  Let `K` be a valid QDLDL input
whose symmetric meaning `symOf K` is quasidefinite with margin `ε > 0` for the pattern `s`, `perm`
ANY valid ordering, dynamic regularisation OFF (`enable = false`; `eps`, `delta` arbitrary). Then
the model of `QDLDLFactorisation::new(K, perm, dsigns, …)`
* returns a factorisation object,
* in particular does not return `ZeroPivot`,
* and for every returned object `F`, `D[r]` has the sign `s (perm[r])` and modulus `≥ ε`, and is
  the `r`-th pivot of the exact elimination of `Π Sym(K) Πᵀ`. -/
theorem new_ok_of_quasiDef (K : Csc α) (hw : wellFormed K = true)
    (hc : checkStructure K = .ok ()) (hnd : NoDupCols K.colptr K.rowval) (hn : 0 < K.n)
    (perm iperm : Array Nat) (hip : Perm.invperm perm = .ok iperm) (hps : perm.size = K.n)
    (ds : Array Int) (hdsz : K.n ≤ ds.size) (s : Fin K.n → Bool) (eps delta ε : α)
    (hQ : QuasiDefGE (fun i j : Fin K.n => symOf K i.val j.val) s Finset.univ ε) (hε : 0 < ε) :
    (∃ F, new K perm (some ds) false eps delta false = .ok F) ∧
    new K perm (some ds) false eps delta false ≠ .error errZeroPivot ∧
    ∀ F, new K perm (some ds) false eps delta false = .ok F →
      ∀ r, r < K.n → ∃ hpr : perm.getD r 0 < K.n,
        (if s ⟨perm.getD r 0, hpr⟩ then ε ≤ F.D.getD r 0 else F.D.getD r 0 ≤ -ε) ∧
        F.D.getD r 0 = refPivot (permSym K perm) r := by
  have hds' : ∀ d, some ds = some d → K.n ≤ d.size := by
    intro d hd; cases hd; exact hdsz
  obtain ⟨h1, h2, h3⟩ := new_zeroPivot_iff K hw hc hnd hn perm iperm hip hps (some ds) hds' eps delta
  have hpiv := refPivot_permSym_margin K perm iperm hip hps ε s hQ hε
  have hnz : ∀ k, k < K.n → refPivot (permSym K perm) k ≠ 0 := fun k hk => by
    obtain ⟨_, _, h⟩ := hpiv k hk
    exact h
  refine ⟨h2 hnz, ?_, ?_⟩
  · intro herr
    obtain ⟨k, hk, hz⟩ := h1.mp herr
    exact hnz k hk hz
  · intro F hF r hr
    obtain ⟨hpr, hm, _⟩ := hpiv r hr
    have hD := (h3 F hF r hr).1
    exact ⟨hpr, by rw [hD]; exact hm, hD⟩

end compose

/-- non-vacuity of `new_ok_of_quasiDef` (over ℝ): `K = [[2, 1], [1, −3]]`
(`Lemmas/KktQdldlExample.lean`), the REVERSED ordering `perm = [1, 0]`, `dsigns = [+1, −1]`,
`ε = 1`: all hypotheses hold. -/
example : wellFormed Clarabel.Lemmas.KktQdldlExample.exK2 = true ∧
    checkStructure Clarabel.Lemmas.KktQdldlExample.exK2 = .ok () ∧
    NoDupCols Clarabel.Lemmas.KktQdldlExample.exK2.colptr
      Clarabel.Lemmas.KktQdldlExample.exK2.rowval ∧
    0 < Clarabel.Lemmas.KktQdldlExample.exK2.n ∧
    Perm.invperm #[1, 0] = .ok #[1, 0] ∧
    (#[1, 0] : Array Nat).size = Clarabel.Lemmas.KktQdldlExample.exK2.n ∧
    Clarabel.Lemmas.KktQdldlExample.exK2.n ≤ (#[1, -1] : Array Int).size ∧
    QuasiDefGE (fun i j : Fin 2 => symOf Clarabel.Lemmas.KktQdldlExample.exK2 i.val j.val)
      Clarabel.Lemmas.KktQdldlExample.exS2 Finset.univ (1 : ℝ) ∧ (0 : ℝ) < 1 :=
  ⟨Clarabel.Lemmas.KktQdldlExample.exK2_wellFormed,
    Clarabel.Lemmas.KktQdldlExample.exK2_checkStructure,
    Clarabel.Lemmas.KktQdldlExample.exK2_nodup, by decide,
    Clarabel.Lemmas.KktQdldlExample.exK2_invperm, rfl, by decide,
    Clarabel.Lemmas.KktQdldlExample.exK2_quasiDefGE, one_pos⟩

/-- the conclusion of `new_ok_of_quasiDef` instantiated on the example -/
example (eps delta : ℝ) :
    (∃ F, new Clarabel.Lemmas.KktQdldlExample.exK2 #[1, 0] (some #[1, -1]) false eps delta false
      = .ok F) ∧
    new Clarabel.Lemmas.KktQdldlExample.exK2 #[1, 0] (some #[1, -1]) false eps delta false
      ≠ .error errZeroPivot :=
  have h := new_ok_of_quasiDef Clarabel.Lemmas.KktQdldlExample.exK2
    Clarabel.Lemmas.KktQdldlExample.exK2_wellFormed
    Clarabel.Lemmas.KktQdldlExample.exK2_checkStructure
    Clarabel.Lemmas.KktQdldlExample.exK2_nodup (by decide) #[1, 0] #[1, 0]
    Clarabel.Lemmas.KktQdldlExample.exK2_invperm rfl #[1, -1] (by decide)
    Clarabel.Lemmas.KktQdldlExample.exS2 eps delta 1
    Clarabel.Lemmas.KktQdldlExample.exK2_quasiDefGE one_pos
  ⟨h.1, h.2.1⟩

end Clarabel.Qdldl
