/-
  `decomp_reverse_compact` on the cone list / cone maps produced by the compact transformation:
  lengths `m`, `s` = the sum of the scattered clique blocks (left fold in the order in which the
  cliques are visited), `z` = the value of the last visited clique that contains the entry.
-/
import ClarabelProofs.Lemmas.ChordalReverseCompact
import Mathlib.Algebra.BigOperators.Group.List.Basic

namespace Clarabel.Chordal
variable {α : Type}

/-! ## list plumbing -/

theorem foldlM_flatMapV {σ β γ : Type} (f : σ → β → MErr σ) (g : γ → List β) (l : List γ) (init : σ) :
    (l.flatMap g).foldlM f init = l.foldlM (fun acc c => (g c).foldlM f acc) init := by
  induction l generalizing init with
  | nil => rfl
  | cons a t ih =>
    rw [List.flatMap_cons, List.foldlM_append, List.foldlM_cons]
    cases h : (g a).foldlM f init with
    | error e => rfl
    | ok s => exact ih s

theorem zip_flatMap_eq {β γ δ : Type} (g : δ → List β) (h : δ → List γ) (l : List δ)
    (hl : ∀ c ∈ l, (g c).length = (h c).length) :
    (l.flatMap g).zip (l.flatMap h) = l.flatMap (fun c => (g c).zip (h c)) := by
  induction l with
  | nil => rfl
  | cons a t ih =>
    rw [List.flatMap_cons, List.flatMap_cons, List.flatMap_cons,
      List.zip_append (hl a List.mem_cons_self), ih (fun c hc => hl c (List.mem_cons_of_mem _ hc))]

theorem copyRange_spec [OfNat α 0] (v old : Array α) (start rowPtr n : Nat) (h : start + n ≤ v.size) :
    (copyRange v old start rowPtr n).size = v.size ∧
    (∀ i, i < n → (copyRange v old start rowPtr n).getD (start + i) 0 = old.getD (rowPtr + i) 0) ∧
    (∀ r, ¬(start ≤ r ∧ r < start + n) → (copyRange v old start rowPtr n).getD r 0 = v.getD r 0) := by
  unfold copyRange
  induction n with
  | zero => exact ⟨rfl, fun i hi => by omega, fun _ _ => rfl⟩
  | succ n ih =>
    obtain ⟨h1, h2, h3⟩ := ih (by omega)
    rw [List.range_succ, List.foldl_append]
    simp only [List.foldl_cons, List.foldl_nil]
    refine ⟨by simpa using h1, ?_, ?_⟩
    · intro i hi
      rw [getD_setIfInBounds']
      rcases Nat.lt_succ_iff_lt_or_eq.1 hi with h' | h'
      · rw [if_neg (by omega)]; exact h2 i h'
      · subst h'; rw [if_pos ⟨rfl, by rw [h1]; omega⟩]
    · intro r hr
      rw [getD_setIfInBounds', if_neg (by omega)]
      exact h3 r (by omega)

theorem nextPattern?_someV (ci : ChordalInfo) (k c : Nat) (p : SPattern)
    (h : ci.nextPattern? k c = some p) : ci.spatterns[k]? = some p := by
  unfold ChordalInfo.nextPattern? at h
  cases hs : ci.spatterns[k]? with
  | none => rw [hs] at h; cases h
  | some q =>
    rw [hs] at h
    simp only at h
    by_cases hq : (q.origIndex == c) = true
    · rw [if_pos hq] at h; exact h
    · rw [if_neg hq] at h; cases h

/-! ## the value that the reversal leaves in the row of entry `(a, b)` of a decomposed cone -/

/-- `s` : left fold, over the cliques in the order of the loop (descending post-order), of the
block entries of `(a, b)` -/
def revFoldS [Add α] [OfNat α 0] (p : SPattern) (row0 : Nat) (old : Array α) (a b d : Nat) : α :=
  (List.range d).foldl (fun acc d' =>
    if a ∈ p.cliqueO (p.sntree.nCliques - 1 - d') ∧ b ∈ p.cliqueO (p.sntree.nCliques - 1 - d') then
      acc + old.getD (p.blockRow row0 (p.sntree.nCliques - 1 - d')
        ((p.cliqueO (p.sntree.nCliques - 1 - d')).idxOf a)
        ((p.cliqueO (p.sntree.nCliques - 1 - d')).idxOf b)) 0
    else acc) 0

/-- `z` : the block entry of the LAST visited clique that contains `(a, b)` (`0` if none does) -/
def revFoldZ [OfNat α 0] (p : SPattern) (row0 : Nat) (old : Array α) (a b d : Nat) : α :=
  (List.range d).foldl (fun acc d' =>
    if a ∈ p.cliqueO (p.sntree.nCliques - 1 - d') ∧ b ∈ p.cliqueO (p.sntree.nCliques - 1 - d') then
      old.getD (p.blockRow row0 (p.sntree.nCliques - 1 - d')
        ((p.cliqueO (p.sntree.nCliques - 1 - d')).idxOf a)
        ((p.cliqueO (p.sntree.nCliques - 1 - d')).idxOf b)) 0
    else acc) 0

theorem revFoldS_succ [Add α] [OfNat α 0] (p : SPattern) (row0 : Nat) (old : Array α) (a b d : Nat) :
    revFoldS p row0 old a b (d + 1) =
      if a ∈ p.cliqueO (p.sntree.nCliques - 1 - d) ∧ b ∈ p.cliqueO (p.sntree.nCliques - 1 - d) then
        revFoldS p row0 old a b d + old.getD (p.blockRow row0 (p.sntree.nCliques - 1 - d)
          ((p.cliqueO (p.sntree.nCliques - 1 - d)).idxOf a)
          ((p.cliqueO (p.sntree.nCliques - 1 - d)).idxOf b)) 0
      else revFoldS p row0 old a b d := by
  unfold revFoldS
  rw [List.range_succ, List.foldl_append]
  rfl

theorem revFoldZ_succ [OfNat α 0] (p : SPattern) (row0 : Nat) (old : Array α) (a b d : Nat) :
    revFoldZ p row0 old a b (d + 1) =
      if a ∈ p.cliqueO (p.sntree.nCliques - 1 - d) ∧ b ∈ p.cliqueO (p.sntree.nCliques - 1 - d) then
        old.getD (p.blockRow row0 (p.sntree.nCliques - 1 - d)
          ((p.cliqueO (p.sntree.nCliques - 1 - d)).idxOf a)
          ((p.cliqueO (p.sntree.nCliques - 1 - d)).idxOf b)) 0
      else revFoldZ p row0 old a b d := by
  unfold revFoldZ
  rw [List.range_succ, List.foldl_append]
  rfl

theorem getD_idxOf {l : List Nat} {a : Nat} (h : a ∈ l) : l.idxOf a < l.length ∧ l.getD (l.idxOf a) 0 = a := by
  have h1 := List.idxOf_lt_length_of_mem h
  refine ⟨h1, ?_⟩
  rw [List.getD_eq_getElem?_getD, List.getElem?_eq_getElem h1]
  simp

/-! ## one decomposed cone -/

/-- the `(cone, cone_map)` pairs of the cliques of a decomposed cone, in the order of the loop -/
def cliquePairs (p : SPattern) (k : Nat) : List (Cone × ConeMapEntry) :=
  (List.range p.sntree.nCliques).map (fun d =>
    (Cone.psd (p.sntree.cliqueAt (p.sntree.nCliques - 1 - d)).length,
     ({ origIndex := p.origIndex, treeAndClique := some (k, p.sntree.nCliques - 1 - d) } : ConeMapEntry)))

theorem reverseCliques_spec [Add α] [OfNat α 0] (ci : ChordalInfo) (c k : Nat) (p : SPattern)
    (hc : c < ci.initCones.size) (hpk : ci.spatterns[k]? = some p) (hoi : p.origIndex = c)
    (hp : ValidPattern p) (hnv : ci.nv c = triangularNumber p.ordering.size)
    (oldS oldZ s z : Array α) (row0 : Nat)
    (hsz : s.size = z.size) (hm : ci.rs c + ci.nv c ≤ s.size)
    (hO : row0 + p.totalRows ≤ oldS.size) (hOz : row0 + p.totalRows ≤ oldZ.size)
    (hzero : ∀ k', k' < ci.nv c → s.getD (ci.rs c + k') 0 = 0 ∧ z.getD (ci.rs c + k') 0 = 0) :
    ∃ s' z', (cliquePairs p k).foldlM (reverseConeStep ci oldS oldZ (coneStarts ci.initCones)) (s, z, row0) =
        .ok (s', z', row0 + p.totalRows) ∧
      s'.size = s.size ∧ z'.size = z.size ∧
      (∀ k', k' < ci.nv c →
        s'.getD (ci.rs c + k') 0 = revFoldS p row0 oldS (upperTriangularIndexToCoord k').1
          (upperTriangularIndexToCoord k').2 p.sntree.nCliques ∧
        z'.getD (ci.rs c + k') 0 = revFoldZ p row0 oldZ (upperTriangularIndexToCoord k').1
          (upperTriangularIndexToCoord k').2 p.sntree.nCliques) ∧
      (∀ r, ¬(ci.rs c ≤ r ∧ r < ci.rs c + ci.nv c) → s'.getD r 0 = s.getD r 0 ∧ z'.getD r 0 = z.getD r 0) := by
  have key := foldlM_inv (reverseConeStep ci oldS oldZ (coneStarts ci.initCones)) (cliquePairs p k)
    (fun d st => d ≤ p.sntree.nCliques →
      (st.2.2 = row0 + descSum p.blk p.sntree.nCliques d ∧ st.1.size = s.size ∧ st.2.1.size = z.size ∧
      (∀ k', k' < ci.nv c →
        st.1.getD (ci.rs c + k') 0 = revFoldS p row0 oldS (upperTriangularIndexToCoord k').1
          (upperTriangularIndexToCoord k').2 d ∧
        st.2.1.getD (ci.rs c + k') 0 = revFoldZ p row0 oldZ (upperTriangularIndexToCoord k').1
          (upperTriangularIndexToCoord k').2 d) ∧
      (∀ r, ¬(ci.rs c ≤ r ∧ r < ci.rs c + ci.nv c) →
        st.1.getD r 0 = s.getD r 0 ∧ st.2.1.getD r 0 = z.getD r 0)))
    (s, z, row0)
    (fun _ => ⟨by simp [descSum_zero], rfl, rfl, fun k' hk' => hzero k' hk', fun _ _ => ⟨rfl, rfl⟩⟩)
    (by
      intro d hd st hI
      have hd' : d < p.sntree.nCliques := by simpa [cliquePairs] using hd
      obtain ⟨s1, z1, rp⟩ := st
      obtain ⟨hrp, hs1, hz1, hrows, hout⟩ := hI (by omega)
      simp only at hrp hs1 hz1 hrows hout
      have hi : p.sntree.nCliques - 1 - d < p.sntree.nCliques := by omega
      have hf := cliqueFacts p hp _ hi
      have hmono := descSum_mono p.blk p.sntree.nCliques (d + 1) p.sntree.nCliques (by omega)
      rw [descSum_succ] at hmono
      have hget : (cliquePairs p k)[d] =
          (Cone.psd (p.sntree.cliqueAt (p.sntree.nCliques - 1 - d)).length,
           ({ origIndex := p.origIndex, treeAndClique := some (k, p.sntree.nCliques - 1 - d) } : ConeMapEntry)) := by
        simp [cliquePairs]
      rw [hget]
      obtain ⟨s2, z2, hblk, hs2, hz2, hin, hothers⟩ := addBlocksWithSparsityPattern_spec p hp
        (p.sntree.nCliques - 1 - d) hi s1 z1 oldS oldZ (ci.rs c) rp
        (by
          intro x y hxy hy
          have := blockTarget_lt p hp _ hi (ci.rs c) x y hxy hy
          rw [hs1]; omega)
        (by
          intro x y hxy hy
          have := blockTarget_lt p hp _ hi (ci.rs c) x y hxy hy
          rw [hz1, ← hsz]; omega)
        (by unfold SPattern.totalRows at hO; rw [hrp]; omega)
        (by unfold SPattern.totalRows at hOz; rw [hrp]; omega)
      refine ⟨(s2, z2, rp + p.blk (p.sntree.nCliques - 1 - d)), ?_, fun _ => ⟨?_, hs2.trans hs1, hz2.trans hz1, ?_, ?_⟩⟩
      · unfold reverseConeStep
        simp only
        rw [hoi, getE_ok (coneStarts ci.initCones) c _ 0 (by rw [coneStarts_size]; exact hc)]
        simp only [bind, Except.bind]
        rw [getE_ok ci.initCones c _ (.zero 0) hc]
        simp only [Cone.isPsd, Bool.not_true, Bool.false_eq_true, ↓reduceIte]
        have : getE ci.spatterns k "spatterns" = .ok p := by
          unfold getE; rw [hpk]; rfl
        rw [this]
        exact hblk
      · show rp + _ = _
        rw [hrp, descSum_succ]; omega
      · intro k' hk'
        simp only
        have hco := index_coord_inv k'
        simp only at hco
        obtain ⟨hle, htri⟩ := hco
        rw [revFoldS_succ, revFoldZ_succ]
        by_cases hmem : (upperTriangularIndexToCoord k').1 ∈ p.cliqueO (p.sntree.nCliques - 1 - d) ∧
            (upperTriangularIndexToCoord k').2 ∈ p.cliqueO (p.sntree.nCliques - 1 - d)
        · rw [if_pos hmem, if_pos hmem]
          obtain ⟨hx, hxe⟩ := getD_idxOf hmem.1
          obtain ⟨hy, hye⟩ := getD_idxOf hmem.2
          have hxy : (p.cliqueO (p.sntree.nCliques - 1 - d)).idxOf (upperTriangularIndexToCoord k').1 ≤
              (p.cliqueO (p.sntree.nCliques - 1 - d)).idxOf (upperTriangularIndexToCoord k').2 := by
            rw [← getD_le_iff_of_sorted hf.clique_sorted hx hy, hxe, hye]; exact hle
          have htgt : blockTarget (p.cliqueO (p.sntree.nCliques - 1 - d)) (ci.rs c)
              ((p.cliqueO (p.sntree.nCliques - 1 - d)).idxOf (upperTriangularIndexToCoord k').1)
              ((p.cliqueO (p.sntree.nCliques - 1 - d)).idxOf (upperTriangularIndexToCoord k').2) = ci.rs c + k' := by
            unfold blockTarget; rw [hxe, hye, htri]
          have := hin _ _ hxy hy
          rw [htgt] at this
          have hbr : p.blockRow row0 (p.sntree.nCliques - 1 - d)
              ((p.cliqueO (p.sntree.nCliques - 1 - d)).idxOf (upperTriangularIndexToCoord k').1)
              ((p.cliqueO (p.sntree.nCliques - 1 - d)).idxOf (upperTriangularIndexToCoord k').2) =
              rp + coordToUpperTriangularIndex
                ((p.cliqueO (p.sntree.nCliques - 1 - d)).idxOf (upperTriangularIndexToCoord k').1,
                 (p.cliqueO (p.sntree.nCliques - 1 - d)).idxOf (upperTriangularIndexToCoord k').2) := by
            unfold SPattern.blockRow SPattern.rowStart
            rw [show p.sntree.nCliques - 1 - (p.sntree.nCliques - 1 - d) = d by omega, hrp]
          rw [hbr, this.1, this.2, (hrows k' hk').1]
          exact ⟨rfl, rfl⟩
        · rw [if_neg hmem, if_neg hmem]
          have hne : ∀ x y, x ≤ y → y < (p.cliqueO (p.sntree.nCliques - 1 - d)).length →
              ci.rs c + k' ≠ blockTarget (p.cliqueO (p.sntree.nCliques - 1 - d)) (ci.rs c) x y := by
            intro x y hxy hy he
            unfold blockTarget at he
            have h1 := (getD_le_iff_of_sorted hf.clique_sorted (by omega) hy).2 hxy
            obtain ⟨e1, e2⟩ := tri_pair_inj hle h1 (by rw [htri]; omega)
            exact hmem ⟨e1 ▸ getD_mem_of_lt (by omega), e2 ▸ getD_mem_of_lt hy⟩
          have := hothers (ci.rs c + k') hne
          rw [this.1, this.2]
          exact hrows k' hk'
      · intro r hr
        simp only
        have hne : ∀ x y, x ≤ y → y < (p.cliqueO (p.sntree.nCliques - 1 - d)).length →
            r ≠ blockTarget (p.cliqueO (p.sntree.nCliques - 1 - d)) (ci.rs c) x y := by
          intro x y hxy hy he
          have h1 := blockTarget_lt p hp _ hi (ci.rs c) x y hxy hy
          have h2 : ci.rs c ≤ blockTarget (p.cliqueO (p.sntree.nCliques - 1 - d)) (ci.rs c) x y := by
            unfold blockTarget; omega
          exact hr ⟨by omega, by omega⟩
        have := hothers r hne
        rw [this.1, this.2]
        exact hout r hr)
  obtain ⟨⟨s', z', rp⟩, hfold, hI⟩ := key
  have hlen : (cliquePairs p k).length = p.sntree.nCliques := by simp [cliquePairs]
  rw [hlen] at hI
  obtain ⟨hrp, hs1, hz1, hrows, hout⟩ := hI (Nat.le_refl _)
  simp only at hrp hs1 hz1 hrows hout
  refine ⟨s', z', ?_, hs1, hz1, hrows, hout⟩
  rw [hfold, hrp]; rfl

/-! ## all cones -/

/-- the `(cone, cone_map)` pairs that the compact transformation emits for cone `c` -/
def conePairs (ci : ChordalInfo) (c : Nat) : List (Cone × ConeMapEntry) :=
  match ci.patAt c with
  | some p => cliquePairs p (ci.layoutAt c).1
  | none => [(ci.initCones.getD c (.zero 0), { origIndex := c, treeAndClique := none })]

theorem zip_conesOf_mapsOf (ci : ChordalInfo) (c : Nat) :
    (ci.conesOf c).zip (ci.mapsOf c) = conePairs ci c := by
  unfold ChordalInfo.conesOf ChordalInfo.mapsOf conePairs cliquePairs
  cases ci.patAt c with
  | none => rfl
  | some p => simp only; rw [List.zip_map']

theorem length_conesOf_mapsOf (ci : ChordalInfo) (c : Nat) : (ci.conesOf c).length = (ci.mapsOf c).length := by
  unfold ChordalInfo.conesOf ChordalInfo.mapsOf
  cases ci.patAt c with
  | none => rfl
  | some p => simp

/-- state of the reversal when the loop reaches the pairs of cone `c` -/
structure RevInv [Add α] [OfNat α 0] (ci : ChordalInfo) (oldS oldZ : Array α) (c : Nat)
    (st : Array α × Array α × Nat) : Prop where
  hrow : st.2.2 = ci.newStart c
  hs : st.1.size = ci.initDims.2
  hz : st.2.1.size = ci.initDims.2
  plain : ∀ c', c' < c → ci.patAt c' = none → ∀ k', k' < ci.nv c' →
    st.1.getD (ci.rs c' + k') 0 = oldS.getD (ci.newStart c' + k') 0 ∧
    st.2.1.getD (ci.rs c' + k') 0 = oldZ.getD (ci.newStart c' + k') 0
  psd : ∀ c', c' < c → ∀ p, ci.patAt c' = some p → ∀ k', k' < ci.nv c' →
    st.1.getD (ci.rs c' + k') 0 = revFoldS p (ci.newStart c') oldS (upperTriangularIndexToCoord k').1
      (upperTriangularIndexToCoord k').2 p.sntree.nCliques ∧
    st.2.1.getD (ci.rs c' + k') 0 = revFoldZ p (ci.newStart c') oldZ (upperTriangularIndexToCoord k').1
      (upperTriangularIndexToCoord k').2 p.sntree.nCliques
  zero : ∀ r, (∀ c', c' < c → ¬(ci.rs c' ≤ r ∧ r < ci.rs c' + ci.nv c')) →
    st.1.getD r 0 = 0 ∧ st.2.1.getD r 0 = 0

private theorem disjoint_rows (ci : ChordalInfo) (c c' k' : Nat) (hc : c < ci.initCones.size) (hc' : c' < c)
    (hk : k' < ci.nv c') : ¬(ci.rs c ≤ ci.rs c' + k' ∧ ci.rs c' + k' < ci.rs c + ci.nv c) := by
  have := ci.rs_mono c' (c - c') (by omega)
  rw [show c' + (c - c') = c by omega, if_pos (by omega)] at this
  omega

/-- **`decomp_reverse_compact`** on the cone list and cone maps of the compact transformation:
no panic, lengths `m`; a row of a cone that was not decomposed is copied from its shifted row; the
row of the entry `(a, b)` of a decomposed cone receives, for `s`, the sum (left fold in the order of
the loop) of that entry of all clique blocks containing it, and for `z` the entry of the LAST such
block visited (the clique with the smallest post-order index) — `0` when no clique contains it;
rows outside every cone stay `0` -/
theorem decompReverseCompact_spec [Add α] [OfNat α 0] (ci : ChordalInfo) (hv : ValidInfo ci)
    (hfit : ∀ c, c < ci.initCones.size → ci.rs c + ci.nv c ≤ ci.initDims.2)
    (oldCones : Array Cone) (coneMaps : Array ConeMapEntry)
    (hcones : oldCones.toList = (List.range ci.initCones.size).flatMap ci.conesOf)
    (hmaps : coneMaps.toList = (List.range ci.initCones.size).flatMap ci.mapsOf)
    (oldS oldZ : Array α) (hS : ci.newStart ci.initCones.size ≤ oldS.size)
    (hZ : ci.newStart ci.initCones.size ≤ oldZ.size) :
    ∃ s z, decompReverseCompact ci coneMaps oldCones oldS oldZ = .ok (s, z) ∧
      s.size = ci.initDims.2 ∧ z.size = ci.initDims.2 ∧
      (∀ c, c < ci.initCones.size → ci.patAt c = none → ∀ k', k' < ci.nv c →
        s.getD (ci.rs c + k') 0 = oldS.getD (ci.newStart c + k') 0 ∧
        z.getD (ci.rs c + k') 0 = oldZ.getD (ci.newStart c + k') 0) ∧
      (∀ c, c < ci.initCones.size → ∀ p, ci.patAt c = some p → ∀ k', k' < ci.nv c →
        s.getD (ci.rs c + k') 0 = revFoldS p (ci.newStart c) oldS (upperTriangularIndexToCoord k').1
          (upperTriangularIndexToCoord k').2 p.sntree.nCliques ∧
        z.getD (ci.rs c + k') 0 = revFoldZ p (ci.newStart c) oldZ (upperTriangularIndexToCoord k').1
          (upperTriangularIndexToCoord k').2 p.sntree.nCliques) ∧
      (∀ r, (∀ c, c < ci.initCones.size → ¬(ci.rs c ≤ r ∧ r < ci.rs c + ci.nv c)) →
        s.getD r 0 = 0 ∧ z.getD r 0 = 0) := by
  have hzip : oldCones.toList.zip coneMaps.toList = (List.range ci.initCones.size).flatMap (conePairs ci) := by
    rw [hcones, hmaps, zip_flatMap_eq _ _ _ (fun c _ => length_conesOf_mapsOf ci c)]
    apply List.flatMap_congr
    intro c _
    exact zip_conesOf_mapsOf ci c
  have key := foldlM_inv (fun acc c => (conePairs ci c).foldlM
      (reverseConeStep ci oldS oldZ (coneStarts ci.initCones)) acc) (List.range ci.initCones.size)
    (fun c st => c ≤ ci.initCones.size → RevInv ci oldS oldZ c st)
    (Array.replicate ci.initDims.2 0, Array.replicate ci.initDims.2 0, 0)
    (fun _ => { hrow := rfl, hs := by simp, hz := by simp, plain := fun c' h => by omega,
                psd := fun c' h => by omega,
                zero := fun r _ => by
                  constructor <;> simp [Array.getD] })
    (by
      intro c hc st hI
      simp only [List.length_range] at hc
      have I := hI (by omega)
      obtain ⟨s1, z1, rp⟩ := st
      have hrow : rp = ci.newStart c := I.hrow
      have hs1 : s1.size = ci.initDims.2 := I.hs
      have hz1 : z1.size = ci.initDims.2 := I.hz
      simp only [List.getElem_range]
      have hle := ci.newStart_le_dim (c + 1) (by omega)
      have hzero : ∀ k', k' < ci.nv c → s1.getD (ci.rs c + k') 0 = 0 ∧ z1.getD (ci.rs c + k') 0 = 0 := by
        intro k' hk'
        apply I.zero
        intro c' hc' hh
        have := ci.rs_mono c' (c - c') (by omega)
        rw [show c' + (c - c') = c by omega, if_pos (by omega)] at this
        omega
      cases hpat : ci.patAt c with
      | none =>
        have hcp : conePairs ci c = [(ci.initCones.getD c (.zero 0), { origIndex := c, treeAndClique := none })] := by
          unfold conePairs; rw [hpat]
        rw [hcp]
        simp only [List.foldlM_cons, List.foldlM_nil, bind_pure]
        rw [ci.newStart_succ_none c hpat] at hle
        have hnvdef : (ci.initCones.getD c (.zero 0)).nvars = ci.nv c := rfl
        obtain ⟨c1, c2, c3⟩ := copyRange_spec s1 oldS (ci.rs c) rp (ci.nv c) (by rw [hs1]; exact hfit c hc)
        obtain ⟨d1, d2, d3⟩ := copyRange_spec z1 oldZ (ci.rs c) rp (ci.nv c) (by rw [hz1]; exact hfit c hc)
        refine ⟨(copyRange s1 oldS (ci.rs c) rp (ci.nv c), copyRange z1 oldZ (ci.rs c) rp (ci.nv c), rp + ci.nv c),
          ?_, fun _ => ?_⟩
        · unfold reverseConeStep
          simp only
          rw [getE_ok (coneStarts ci.initCones) c _ 0 (by rw [coneStarts_size]; exact hc)]
          simp only [bind, Except.bind]
          rw [getE_ok ci.initCones c _ (.zero 0) hc]
          simp only [bne_self_eq_false, Bool.false_eq_true, ↓reduceIte, hnvdef]
          have hrs : (coneStarts ci.initCones).getD c 0 = ci.rs c := rfl
          rw [hrs, if_neg (by
            have := hfit c hc
            rw [hs1]; omega)]
          rfl
        · constructor
          · show rp + ci.nv c = _
            rw [ci.newStart_succ_none c hpat, hrow]
          · exact c1.trans hs1
          · exact d1.trans hz1
          · intro c' hc' hp' k' hk'
            rcases Nat.lt_succ_iff_lt_or_eq.1 hc' with h | h
            · have hd := disjoint_rows ci c c' k' hc h hk'
              show (copyRange s1 oldS (ci.rs c) rp (ci.nv c)).getD _ 0 = _ ∧
                (copyRange z1 oldZ (ci.rs c) rp (ci.nv c)).getD _ 0 = _
              rw [c3 _ hd, d3 _ hd]
              exact I.plain c' h hp' k' hk'
            · subst h
              show (copyRange s1 oldS (ci.rs c') rp (ci.nv c')).getD _ 0 = _ ∧
                (copyRange z1 oldZ (ci.rs c') rp (ci.nv c')).getD _ 0 = _
              rw [c2 k' hk', d2 k' hk', hrow]
              exact ⟨rfl, rfl⟩
          · intro c' hc' p hp' k' hk'
            rcases Nat.lt_succ_iff_lt_or_eq.1 hc' with h | h
            · have hd := disjoint_rows ci c c' k' hc h hk'
              show (copyRange s1 oldS (ci.rs c) rp (ci.nv c)).getD _ 0 = _ ∧
                (copyRange z1 oldZ (ci.rs c) rp (ci.nv c)).getD _ 0 = _
              rw [c3 _ hd, d3 _ hd]
              exact I.psd c' h p hp' k' hk'
            · subst h; rw [hpat] at hp'; cases hp'
          · intro r hr
            show (copyRange s1 oldS (ci.rs c) rp (ci.nv c)).getD _ 0 = _ ∧
              (copyRange z1 oldZ (ci.rs c) rp (ci.nv c)).getD _ 0 = _
            rw [c3 r (hr c (by omega)), d3 r (hr c (by omega))]
            exact I.zero r (fun c' hc' => hr c' (by omega))
      | some p =>
        have hcp : conePairs ci c = cliquePairs p (ci.layoutAt c).1 := by
          unfold conePairs; rw [hpat]
        rw [hcp]
        obtain ⟨hvp, hcone⟩ := hv.pat c hc p hpat
        have hnp : ci.nextPattern? (ci.layoutAt c).1 c = some p := hpat
        have hnv : ci.nv c = triangularNumber p.ordering.size := by
          unfold ChordalInfo.nv; rw [hcone]; rfl
        rw [ci.newStart_succ_some c p hpat] at hle
        obtain ⟨s2, z2, hfold, hs2, hz2, hrows, hout⟩ := reverseCliques_spec ci c (ci.layoutAt c).1 p hc
          (nextPattern?_someV ci _ c p hnp) (nextPattern?_origIndex ci _ c p hnp) hvp hnv oldS oldZ s1 z1 rp
          (by rw [hs1, hz1]) (by rw [hs1]; exact hfit c hc) (by rw [hrow]; omega) (by rw [hrow]; omega) hzero
        refine ⟨(s2, z2, rp + p.totalRows), hfold, fun _ => ?_⟩
        constructor
        · show rp + p.totalRows = _
          rw [ci.newStart_succ_some c p hpat, hrow]
        · exact hs2.trans hs1
        · exact hz2.trans hz1
        · intro c' hc' hp' k' hk'
          rcases Nat.lt_succ_iff_lt_or_eq.1 hc' with h | h
          · have hd := disjoint_rows ci c c' k' hc h hk'
            show s2.getD _ 0 = _ ∧ z2.getD _ 0 = _
            rw [(hout _ hd).1, (hout _ hd).2]
            exact I.plain c' h hp' k' hk'
          · subst h; rw [hpat] at hp'; cases hp'
        · intro c' hc' p' hp' k' hk'
          rcases Nat.lt_succ_iff_lt_or_eq.1 hc' with h | h
          · have hd := disjoint_rows ci c c' k' hc h hk'
            show s2.getD _ 0 = _ ∧ z2.getD _ 0 = _
            rw [(hout _ hd).1, (hout _ hd).2]
            exact I.psd c' h p' hp' k' hk'
          · subst h
            rw [hpat] at hp'
            cases hp'
            rw [← hrow]
            exact hrows k' hk'
        · intro r hr
          show s2.getD _ 0 = _ ∧ z2.getD _ 0 = _
          rw [(hout r (hr c (by omega))).1, (hout r (hr c (by omega))).2]
          exact I.zero r (fun c' hc' => hr c' (by omega)))
  obtain ⟨⟨s, z, rp⟩, hfold, hI⟩ := key
  simp only [List.length_range] at hI
  have I := hI (Nat.le_refl _)
  refine ⟨s, z, ?_, I.hs, I.hz, fun c hc => I.plain c hc, fun c hc => I.psd c hc, fun r hr => I.zero r hr⟩
  unfold decompReverseCompact
  dsimp only
  rw [hzip, foldlM_flatMapV, hfold]
  rfl

/-! ## `s` as a sum, `z` on consistent blocks -/

/-- the clique with post-order index `ncl - 1 - d'` contains the entry `(a, b)` -/
def CliqueHas (p : SPattern) (a b d' : Nat) : Prop :=
  a ∈ p.cliqueO (p.sntree.nCliques - 1 - d') ∧ b ∈ p.cliqueO (p.sntree.nCliques - 1 - d')

instance (p : SPattern) (a b : Nat) : DecidablePred (CliqueHas p a b) :=
  fun _ => inferInstanceAs (Decidable (_ ∧ _))

/-- the entry `(a, b)` of the block of the clique visited in pass `d'` -/
def blockEntry [OfNat α 0] (p : SPattern) (row0 : Nat) (old : Array α) (a b d' : Nat) : α :=
  old.getD (p.blockRow row0 (p.sntree.nCliques - 1 - d')
    ((p.cliqueO (p.sntree.nCliques - 1 - d')).idxOf a)
    ((p.cliqueO (p.sntree.nCliques - 1 - d')).idxOf b)) 0

/-- [F] over an additive commutative monoid the left fold is the sum over the cliques that contain
the entry: `s = Σ_K E_Kᵀ S_K E_K` -/
theorem revFoldS_eq_sum [AddCommMonoid α] (p : SPattern) (row0 : Nat) (old : Array α) (a b d : Nat) :
    revFoldS p row0 old a b d =
      (((List.range d).filter (fun d' => decide (CliqueHas p a b d'))).map
        (blockEntry p row0 old a b)).sum := by
  induction d with
  | zero => rfl
  | succ d ih =>
    rw [revFoldS_succ, List.range_succ, List.filter_append, List.map_append, List.sum_append, ← ih]
    by_cases h : CliqueHas p a b d
    · have h' : a ∈ p.cliqueO (p.sntree.nCliques - 1 - d) ∧ b ∈ p.cliqueO (p.sntree.nCliques - 1 - d) := h
      rw [if_pos h']
      simp [h, blockEntry]
    · have h' : ¬(a ∈ p.cliqueO (p.sntree.nCliques - 1 - d) ∧ b ∈ p.cliqueO (p.sntree.nCliques - 1 - d)) := h
      rw [if_neg h']
      simp [h]

/-- [S] `z` on consistent blocks: if every clique that contains `(a, b)` holds the same value `v`
there, and at least one clique does, the reversal returns `v`; if none does it returns `0` -/
theorem revFoldZ_consistent [OfNat α 0] (p : SPattern) (row0 : Nat) (old : Array α) (a b d : Nat) (v : α)
    (hv : ∀ d', d' < d → CliqueHas p a b d' → blockEntry p row0 old a b d' = v) :
    revFoldZ p row0 old a b d = if ∃ d', d' < d ∧ CliqueHas p a b d' then v else 0 := by
  induction d with
  | zero => simp [revFoldZ]
  | succ d ih =>
    rw [revFoldZ_succ, ih (fun d' hd' => hv d' (by omega))]
    by_cases h : CliqueHas p a b d
    · have h' : a ∈ p.cliqueO (p.sntree.nCliques - 1 - d) ∧ b ∈ p.cliqueO (p.sntree.nCliques - 1 - d) := h
      rw [if_pos h', if_pos ⟨d, by omega, h⟩]
      exact hv d (by omega) h
    · have h' : ¬(a ∈ p.cliqueO (p.sntree.nCliques - 1 - d) ∧ b ∈ p.cliqueO (p.sntree.nCliques - 1 - d)) := h
      rw [if_neg h']
      by_cases he : ∃ d', d' < d ∧ CliqueHas p a b d'
      · obtain ⟨d', hd', hc⟩ := he
        rw [if_pos ⟨d', hd', hc⟩, if_pos ⟨d', by omega, hc⟩]
      · rw [if_neg he, if_neg]
        rintro ⟨d', hd', hc⟩
        rcases Nat.lt_succ_iff_lt_or_eq.1 hd' with h1 | h1
        · exact he ⟨d', h1, hc⟩
        · subst h1; exact h hc

end Clarabel.Chordal
