/-
  Generalised power cone (C14): the stored Hessian representation
  `H = D + p pᵀ − q qᵀ − r rᵀ` written by `update_dual_grad_H` is, entry by entry, the
  derivative of the stored gradient (all dimensions).
-/
import ClarabelProofs.Lemmas.NonsymGenPow

namespace Clarabel.GenPow
open Clarabel Nonsym

/-! ### closed forms of the stored Hessian data -/

/-- `d1` entry of a `u`-coordinate `(a, t)` -/
noncomputable def hD1 (φ ζ a t : ℝ) : ℝ := (2 * a / t) * φ / (ζ * t) + (1 - a) / (t * t)
/-- `d2` -/
noncomputable def hD2 (ζ : ℝ) : ℝ := 2 / ζ
/-- `p` entry of a `u`-coordinate `(a, t)` (`W = ‖w‖²`) -/
noncomputable def hPU (φ ζ W a t : ℝ) : ℝ := (Real.sqrt (φ * (φ + W) / 2) / ζ) * (2 * a / t)
/-- `p` entry of a `w`-coordinate `t` -/
noncomputable def hPW (φ ζ W t : ℝ) : ℝ := ((-2) * φ / Real.sqrt (φ * (φ + W) / 2) / ζ) * t
/-- `q` entry of a `u`-coordinate `(a, t)` -/
noncomputable def hQ (φ ζ a t : ℝ) : ℝ := (2 * a / t) * (Real.sqrt (ζ * φ / 2) / ζ)
/-- `r` entry of a `w`-coordinate `t` -/
noncomputable def hR (φ ζ W t : ℝ) : ℝ := (2 * Real.sqrt (ζ / (φ + W)) / ζ) * t

/-- everything `update_dual_grad_H` stores, in closed form -/
theorem updateDualGradH_data (al u w : List ℝ) (hlen : al.length = u.length)
    (hζ : 0 < prodPhi al u - sumSq w) :
    ∃ D, updateDualGradH al.toArray (u ++ w).toArray = .ok D ∧
      D.grad.toList = (al.zip u).map (fun p => gradU (prodPhi al u) (prodPhi al u - sumSq w) p.1 p.2)
        ++ w.map (gradW (prodPhi al u - sumSq w)) ∧
      D.d1.toList = (al.zip u).map (fun p => hD1 (prodPhi al u) (prodPhi al u - sumSq w) p.1 p.2) ∧
      D.d2 = hD2 (prodPhi al u - sumSq w) ∧
      D.p.toList = (al.zip u).map (fun p => hPU (prodPhi al u) (prodPhi al u - sumSq w) (sumSq w) p.1 p.2)
        ++ w.map (hPW (prodPhi al u) (prodPhi al u - sumSq w) (sumSq w)) ∧
      D.q.toList = (al.zip u).map (fun p => hQ (prodPhi al u) (prodPhi al u - sumSq w) p.1 p.2) ∧
      D.r.toList = w.map (hR (prodPhi al u) (prodPhi al u - sumSq w) (sumSq w)) := by
  unfold updateDualGradH
  rw [split_ok al u w hlen]
  simp only [bind, Except.bind, pure, Except.pure]
  rw [phiDual_eq al u w hlen, sumsq_eq]
  simp only [hζ, decide_true, Bool.not_true, Bool.false_eq_true, if_false]
  refine ⟨_, rfl, rfl, rfl, rfl, ?_, ?_, rfl⟩
  · simp only [List.map_map]
    rfl
  · simp only [List.map_map]
    rfl

/-! ### derivatives of `φ` and `‖w‖²` along one coordinate -/

theorem prodPhi_zipper (a1 a2 u1 u2 : List ℝ) (a t : ℝ) (h : a1.length = u1.length) :
    prodPhi (a1 ++ a :: a2) (u1 ++ t :: u2) = prodPhi a1 u1 * (t / a) ^ (2 * a) * prodPhi a2 u2 := by
  unfold prodPhi
  rw [List.zip_append h]
  simp only [List.zip_cons_cons, List.map_append, List.map_cons, List.prod_append, List.prod_cons]
  ring

theorem prodPhi_dU (a1 a2 u1 u2 : List ℝ) (a t : ℝ) (h : a1.length = u1.length) (ha : 0 < a) (ht : 0 < t) :
    HasDerivAt (fun x => prodPhi (a1 ++ a :: a2) (u1 ++ x :: u2))
      ((2 * a / t) * prodPhi (a1 ++ a :: a2) (u1 ++ t :: u2)) t := by
  have e : (fun x => prodPhi (a1 ++ a :: a2) (u1 ++ x :: u2))
      = fun x => prodPhi a1 u1 * (x / a) ^ (2 * a) * prodPhi a2 u2 := by
    funext x
    rw [prodPhi_zipper _ _ _ _ _ _ h]
  rw [e, prodPhi_zipper _ _ _ _ _ _ h]
  have hb : t / a ≠ 0 := ne_of_gt (div_pos ht ha)
  have h1' : HasDerivAt (fun x : ℝ => x / a) (1 / a) t := (hasDerivAt_id t).div_const a
  have h2 := ((h1'.rpow_const (p := 2 * a) (Or.inl hb)).const_mul (prodPhi a1 u1)).mul_const (prodPhi a2 u2)
  refine h2.congr_deriv ?_
  rw [Real.rpow_sub_one hb]
  have : a ≠ 0 := ne_of_gt ha
  have : t ≠ 0 := ne_of_gt ht
  field_simp

theorem sumSq_dW (w1 w2 : List ℝ) (t : ℝ) : HasDerivAt (fun x => sumSq (w1 ++ x :: w2)) (2 * t) t := by
  have e : (fun x => sumSq (w1 ++ x :: w2)) = fun x => sumSq w1 + x * x + sumSq w2 := by
    funext x
    rw [sumSq_zipper]
  rw [e]
  have := (((hasDerivAt_id t).mul (hasDerivAt_id t)).const_add (sumSq w1)).add_const (sumSq w2)
  refine this.congr_deriv ?_
  simp only [id_eq]; ring

theorem sumSq_nonneg (w : List ℝ) : 0 ≤ sumSq w := by
  unfold sumSq
  induction w with
  | nil => simp
  | cons a t ih =>
    simp only [List.map_cons, List.sum_cons]
    exact add_nonneg (mul_self_nonneg a) ih

/-! ### products of the rank-one factors (the square roots disappear) -/

theorem hPU_mul (φ ζ W b s a t : ℝ) (h : 0 ≤ φ * (φ + W) / 2) :
    hPU φ ζ W b s * hPU φ ζ W a t = (φ * (φ + W) / 2) / (ζ * ζ) * ((2 * b / s) * (2 * a / t)) := by
  unfold hPU
  have hs := Real.mul_self_sqrt h
  generalize Real.sqrt (φ * (φ + W) / 2) = p0 at *
  rw [← hs]
  ring

theorem hQ_mul (φ ζ b s a t : ℝ) (h : 0 ≤ ζ * φ / 2) :
    hQ φ ζ b s * hQ φ ζ a t = (ζ * φ / 2) / (ζ * ζ) * ((2 * b / s) * (2 * a / t)) := by
  unfold hQ
  have hs := Real.mul_self_sqrt h
  generalize Real.sqrt (ζ * φ / 2) = q0 at *
  rw [← hs]
  ring

theorem hPU_hPW (φ ζ W b s t : ℝ) (h : 0 < φ * (φ + W) / 2) :
    hPU φ ζ W b s * hPW φ ζ W t = (-2) * φ / (ζ * ζ) * (2 * b / s) * t := by
  unfold hPU hPW
  have hs : Real.sqrt (φ * (φ + W) / 2) ≠ 0 := ne_of_gt (Real.sqrt_pos.mpr h)
  generalize Real.sqrt (φ * (φ + W) / 2) = p0 at *
  field_simp

theorem hPW_mul (φ ζ W wj t : ℝ) (h : 0 < φ * (φ + W) / 2) :
    hPW φ ζ W wj * hPW φ ζ W t = 4 * φ * φ / (φ * (φ + W) / 2) / (ζ * ζ) * (wj * t) := by
  unfold hPW
  have hs := Real.mul_self_sqrt h.le
  have hn : Real.sqrt (φ * (φ + W) / 2) ≠ 0 := ne_of_gt (Real.sqrt_pos.mpr h)
  generalize Real.sqrt (φ * (φ + W) / 2) = p0 at *
  rw [← hs]
  field_simp
  ring

theorem hR_mul (φ ζ W wj t : ℝ) (h : 0 ≤ ζ / (φ + W)) :
    hR φ ζ W wj * hR φ ζ W t = 4 * (ζ / (φ + W)) / (ζ * ζ) * (wj * t) := by
  unfold hR
  have hs := Real.mul_self_sqrt h
  generalize Real.sqrt (ζ / (φ + W)) = r0 at *
  rw [← hs]
  ring

/-! ### the six kinds of Hessian entry: scalar form

`Φ` is `φ` as a function of the `u`-coordinate that varies (logarithmic derivative `2a/t`), `S` is
`‖w‖²` as a function of the `w`-coordinate that varies (derivative `2t`). -/

/-- `∂/∂uᵢ` of the `uᵢ`-gradient entry -/
theorem uu_diag_gen (Φ : ℝ → ℝ) (W a t : ℝ) (hΦ : HasDerivAt Φ ((2 * a / t) * Φ t) t) (ht : t ≠ 0)
    (hW : 0 ≤ W) (hζ : 0 < Φ t - W) :
    HasDerivAt (fun x => gradU (Φ x) (Φ x - W) a x)
      (hD1 (Φ t) (Φ t - W) a t + hPU (Φ t) (Φ t - W) W a t * hPU (Φ t) (Φ t - W) W a t
        - hQ (Φ t) (Φ t - W) a t * hQ (Φ t) (Φ t - W) a t) t := by
  have hφ : 0 < Φ t := by linarith
  have nζ : Φ t - W ≠ 0 := ne_of_gt hζ
  rw [hPU_mul _ _ _ _ _ _ _ (by positivity), hQ_mul _ _ _ _ _ _ (by positivity)]
  unfold gradU hD1
  have hd := (((((hasDerivAt_const t (2 * a)).div (hasDerivAt_id t) ht).neg).mul hΦ).div
      (hΦ.sub_const W) nζ).sub ((hasDerivAt_const t (1 - a)).div (hasDerivAt_id t) ht)
  refine hd.congr_deriv ?_
  simp only [id_eq, Pi.neg_apply, Pi.div_apply, Pi.mul_apply]
  generalize Φ t = φ at *
  field_simp
  ring

/-- `∂/∂uᵢ` of the `uₖ`-gradient entry, `k ≠ i` (`(b, s)` = exponent and value of coordinate `k`) -/
theorem uu_off_gen (Φ : ℝ → ℝ) (W a t b s : ℝ) (hΦ : HasDerivAt Φ ((2 * a / t) * Φ t) t) (ht : t ≠ 0)
    (hs : s ≠ 0) (hW : 0 ≤ W) (hζ : 0 < Φ t - W) :
    HasDerivAt (fun x => gradU (Φ x) (Φ x - W) b s)
      (hPU (Φ t) (Φ t - W) W b s * hPU (Φ t) (Φ t - W) W a t
        - hQ (Φ t) (Φ t - W) b s * hQ (Φ t) (Φ t - W) a t) t := by
  have hφ : 0 < Φ t := by linarith
  have nζ : Φ t - W ≠ 0 := ne_of_gt hζ
  rw [hPU_mul _ _ _ _ _ _ _ (by positivity), hQ_mul _ _ _ _ _ _ (by positivity)]
  unfold gradU
  have hd := ((hΦ.const_mul (-(2 * b / s))).div (hΦ.sub_const W) nζ).sub_const ((1 - b) / s)
  refine hd.congr_deriv ?_
  generalize Φ t = φ at *
  field_simp
  ring

/-- `∂/∂wⱼ` of the `uₖ`-gradient entry -/
theorem uw_gen (S : ℝ → ℝ) (φ t b s : ℝ) (hS : HasDerivAt S (2 * t) t)
    (hW : 0 ≤ S t) (hζ : 0 < φ - S t) :
    HasDerivAt (fun x => gradU φ (φ - S x) b s)
      (hPU φ (φ - S t) (S t) b s * hPW φ (φ - S t) (S t) t) t := by
  have hφ : 0 < φ := by linarith
  have nζ : φ - S t ≠ 0 := ne_of_gt hζ
  rw [hPU_hPW _ _ _ _ _ _ (by positivity)]
  unfold gradU
  have hd := ((hasDerivAt_const t (-(2 * b / s) * φ)).div (hS.const_sub φ) nζ).sub_const ((1 - b) / s)
  refine hd.congr_deriv ?_
  generalize S t = W at *
  field_simp
  ring

/-- `∂/∂uᵢ` of the `wⱼ`-gradient entry -/
theorem wu_gen (Φ : ℝ → ℝ) (W a t wj : ℝ) (hΦ : HasDerivAt Φ ((2 * a / t) * Φ t) t)
    (hW : 0 ≤ W) (hζ : 0 < Φ t - W) :
    HasDerivAt (fun x => gradW (Φ x - W) wj)
      (hPW (Φ t) (Φ t - W) W wj * hPU (Φ t) (Φ t - W) W a t) t := by
  have hφ : 0 < Φ t := by linarith
  have nζ : Φ t - W ≠ 0 := ne_of_gt hζ
  rw [mul_comm, hPU_hPW _ _ _ _ _ _ (by positivity)]
  unfold gradW
  have hd := ((hasDerivAt_const t (2 : ℝ)).div (hΦ.sub_const W) nζ).mul_const wj
  refine hd.congr_deriv ?_
  generalize Φ t = φ at *
  field_simp
  ring

/-- `∂/∂wⱼ` of the `wⱼ`-gradient entry -/
theorem ww_diag_gen (S : ℝ → ℝ) (φ t : ℝ) (hS : HasDerivAt S (2 * t) t)
    (hW : 0 ≤ S t) (hζ : 0 < φ - S t) :
    HasDerivAt (fun x => gradW (φ - S x) x)
      (hD2 (φ - S t) + hPW φ (φ - S t) (S t) t * hPW φ (φ - S t) (S t) t
        - hR φ (φ - S t) (S t) t * hR φ (φ - S t) (S t) t) t := by
  have hφ : 0 < φ := by linarith
  have nζ : φ - S t ≠ 0 := ne_of_gt hζ
  have hpw : 0 < φ + S t := by linarith
  rw [hPW_mul _ _ _ _ _ (by positivity), hR_mul _ _ _ _ _ (by positivity)]
  unfold gradW hD2
  have hd := ((hasDerivAt_const t (2 : ℝ)).div (hS.const_sub φ) nζ).mul (hasDerivAt_id t)
  refine hd.congr_deriv ?_
  simp only [id_eq, Pi.div_apply]
  generalize S t = W at *
  field_simp
  ring

/-- `∂/∂wⱼ` of the `wₖ`-gradient entry, `k ≠ j` -/
theorem ww_off_gen (S : ℝ → ℝ) (φ t wj : ℝ) (hS : HasDerivAt S (2 * t) t)
    (hW : 0 ≤ S t) (hζ : 0 < φ - S t) :
    HasDerivAt (fun x => gradW (φ - S x) wj)
      (hPW φ (φ - S t) (S t) wj * hPW φ (φ - S t) (S t) t
        - hR φ (φ - S t) (S t) wj * hR φ (φ - S t) (S t) t) t := by
  have hφ : 0 < φ := by linarith
  have nζ : φ - S t ≠ 0 := ne_of_gt hζ
  have hpw : 0 < φ + S t := by linarith
  rw [hPW_mul _ _ _ _ _ (by positivity), hR_mul _ _ _ _ _ (by positivity)]
  unfold gradW
  have hd := ((hasDerivAt_const t (2 : ℝ)).div (hS.const_sub φ) nζ).mul_const wj
  refine hd.congr_deriv ?_
  generalize S t = W at *
  field_simp
  ring

/-! ### the six kinds of Hessian entry at a point `(u, w)` of any dimension (zipper form)

The coordinate that varies is singled out as `u = u1 ++ t :: u2` (with exponent `a` in
`al = a1 ++ a :: a2`) or `w = w1 ++ t :: w2`; the right-hand sides are the entries of
`D + p pᵀ − q qᵀ − r rᵀ` built from the closed forms of `updateDualGradH_data`. -/

/-- `H[uᵢ,uᵢ] = d1ᵢ + pᵢ² − qᵢ²` -/
theorem hess_uu_diag (a1 a2 u1 u2 w : List ℝ) (a t : ℝ) (h : a1.length = u1.length) (ha : 0 < a)
    (ht : 0 < t) (hζ : 0 < prodPhi (a1 ++ a :: a2) (u1 ++ t :: u2) - sumSq w) :
    HasDerivAt
      (fun x => gradU (prodPhi (a1 ++ a :: a2) (u1 ++ x :: u2))
        (prodPhi (a1 ++ a :: a2) (u1 ++ x :: u2) - sumSq w) a x)
      (hD1 (prodPhi (a1 ++ a :: a2) (u1 ++ t :: u2)) (prodPhi (a1 ++ a :: a2) (u1 ++ t :: u2) - sumSq w) a t
        + hPU (prodPhi (a1 ++ a :: a2) (u1 ++ t :: u2)) (prodPhi (a1 ++ a :: a2) (u1 ++ t :: u2) - sumSq w) (sumSq w) a t
          * hPU (prodPhi (a1 ++ a :: a2) (u1 ++ t :: u2)) (prodPhi (a1 ++ a :: a2) (u1 ++ t :: u2) - sumSq w) (sumSq w) a t
        - hQ (prodPhi (a1 ++ a :: a2) (u1 ++ t :: u2)) (prodPhi (a1 ++ a :: a2) (u1 ++ t :: u2) - sumSq w) a t
          * hQ (prodPhi (a1 ++ a :: a2) (u1 ++ t :: u2)) (prodPhi (a1 ++ a :: a2) (u1 ++ t :: u2) - sumSq w) a t) t :=
  uu_diag_gen (fun x => prodPhi (a1 ++ a :: a2) (u1 ++ x :: u2)) (sumSq w) a t
    (prodPhi_dU a1 a2 u1 u2 a t h ha ht) (ne_of_gt ht) (sumSq_nonneg w) hζ

/-- `H[uₖ,uᵢ] = pₖ pᵢ − qₖ qᵢ` (`k ≠ i`; `(b, s)` = exponent and value of coordinate `k`, held fixed) -/
theorem hess_uu_off (a1 a2 u1 u2 w : List ℝ) (a t b s : ℝ) (h : a1.length = u1.length) (ha : 0 < a)
    (ht : 0 < t) (hs : s ≠ 0) (hζ : 0 < prodPhi (a1 ++ a :: a2) (u1 ++ t :: u2) - sumSq w) :
    HasDerivAt
      (fun x => gradU (prodPhi (a1 ++ a :: a2) (u1 ++ x :: u2))
        (prodPhi (a1 ++ a :: a2) (u1 ++ x :: u2) - sumSq w) b s)
      (hPU (prodPhi (a1 ++ a :: a2) (u1 ++ t :: u2)) (prodPhi (a1 ++ a :: a2) (u1 ++ t :: u2) - sumSq w) (sumSq w) b s
          * hPU (prodPhi (a1 ++ a :: a2) (u1 ++ t :: u2)) (prodPhi (a1 ++ a :: a2) (u1 ++ t :: u2) - sumSq w) (sumSq w) a t
        - hQ (prodPhi (a1 ++ a :: a2) (u1 ++ t :: u2)) (prodPhi (a1 ++ a :: a2) (u1 ++ t :: u2) - sumSq w) b s
          * hQ (prodPhi (a1 ++ a :: a2) (u1 ++ t :: u2)) (prodPhi (a1 ++ a :: a2) (u1 ++ t :: u2) - sumSq w) a t) t :=
  uu_off_gen (fun x => prodPhi (a1 ++ a :: a2) (u1 ++ x :: u2)) (sumSq w) a t b s
    (prodPhi_dU a1 a2 u1 u2 a t h ha ht) (ne_of_gt ht) hs (sumSq_nonneg w) hζ

/-- `H[uₖ,wⱼ] = pₖ p_{dim1+j}` -/
theorem hess_uw (al u w1 w2 : List ℝ) (t b s : ℝ)
    (hζ : 0 < prodPhi al u - sumSq (w1 ++ t :: w2)) :
    HasDerivAt
      (fun x => gradU (prodPhi al u) (prodPhi al u - sumSq (w1 ++ x :: w2)) b s)
      (hPU (prodPhi al u) (prodPhi al u - sumSq (w1 ++ t :: w2)) (sumSq (w1 ++ t :: w2)) b s
        * hPW (prodPhi al u) (prodPhi al u - sumSq (w1 ++ t :: w2)) (sumSq (w1 ++ t :: w2)) t) t :=
  uw_gen (fun x => sumSq (w1 ++ x :: w2)) (prodPhi al u) t b s (sumSq_dW w1 w2 t) (sumSq_nonneg _) hζ

/-- `H[wⱼ,uᵢ] = p_{dim1+j} pᵢ` -/
theorem hess_wu (a1 a2 u1 u2 w : List ℝ) (a t wj : ℝ) (h : a1.length = u1.length) (ha : 0 < a)
    (ht : 0 < t) (hζ : 0 < prodPhi (a1 ++ a :: a2) (u1 ++ t :: u2) - sumSq w) :
    HasDerivAt
      (fun x => gradW (prodPhi (a1 ++ a :: a2) (u1 ++ x :: u2) - sumSq w) wj)
      (hPW (prodPhi (a1 ++ a :: a2) (u1 ++ t :: u2)) (prodPhi (a1 ++ a :: a2) (u1 ++ t :: u2) - sumSq w) (sumSq w) wj
        * hPU (prodPhi (a1 ++ a :: a2) (u1 ++ t :: u2)) (prodPhi (a1 ++ a :: a2) (u1 ++ t :: u2) - sumSq w) (sumSq w) a t) t :=
  wu_gen (fun x => prodPhi (a1 ++ a :: a2) (u1 ++ x :: u2)) (sumSq w) a t wj
    (prodPhi_dU a1 a2 u1 u2 a t h ha ht) (sumSq_nonneg w) hζ

/-- `H[wⱼ,wⱼ] = d2 + p_{dim1+j}² − rⱼ²` -/
theorem hess_ww_diag (al u w1 w2 : List ℝ) (t : ℝ)
    (hζ : 0 < prodPhi al u - sumSq (w1 ++ t :: w2)) :
    HasDerivAt
      (fun x => gradW (prodPhi al u - sumSq (w1 ++ x :: w2)) x)
      (hD2 (prodPhi al u - sumSq (w1 ++ t :: w2))
        + hPW (prodPhi al u) (prodPhi al u - sumSq (w1 ++ t :: w2)) (sumSq (w1 ++ t :: w2)) t
          * hPW (prodPhi al u) (prodPhi al u - sumSq (w1 ++ t :: w2)) (sumSq (w1 ++ t :: w2)) t
        - hR (prodPhi al u) (prodPhi al u - sumSq (w1 ++ t :: w2)) (sumSq (w1 ++ t :: w2)) t
          * hR (prodPhi al u) (prodPhi al u - sumSq (w1 ++ t :: w2)) (sumSq (w1 ++ t :: w2)) t) t :=
  ww_diag_gen (fun x => sumSq (w1 ++ x :: w2)) (prodPhi al u) t (sumSq_dW w1 w2 t) (sumSq_nonneg _) hζ

/-- `H[wₖ,wⱼ] = p_{dim1+k} p_{dim1+j} − rₖ rⱼ` (`k ≠ j`; `wk` = value of coordinate `k`, held fixed) -/
theorem hess_ww_off (al u w1 w2 : List ℝ) (t wk : ℝ)
    (hζ : 0 < prodPhi al u - sumSq (w1 ++ t :: w2)) :
    HasDerivAt
      (fun x => gradW (prodPhi al u - sumSq (w1 ++ x :: w2)) wk)
      (hPW (prodPhi al u) (prodPhi al u - sumSq (w1 ++ t :: w2)) (sumSq (w1 ++ t :: w2)) wk
          * hPW (prodPhi al u) (prodPhi al u - sumSq (w1 ++ t :: w2)) (sumSq (w1 ++ t :: w2)) t
        - hR (prodPhi al u) (prodPhi al u - sumSq (w1 ++ t :: w2)) (sumSq (w1 ++ t :: w2)) wk
          * hR (prodPhi al u) (prodPhi al u - sumSq (w1 ++ t :: w2)) (sumSq (w1 ++ t :: w2)) t) t :=
  ww_off_gen (fun x => sumSq (w1 ++ x :: w2)) (prodPhi al u) t wk (sumSq_dW w1 w2 t) (sumSq_nonneg _) hζ

/-- the hypotheses are satisfiable: `al = [1/2, 1/2]`, `u = [1, 1]`, `w = [1/2]` gives `φ = 4`, `ζ = 15/4` -/
example : 0 < prodPhi ([] ++ (1 / 2 : ℝ) :: [1 / 2]) ([] ++ (1 : ℝ) :: [1]) - sumSq [1 / 2] := by
  unfold prodPhi sumSq
  norm_num

/-! ### `mul_Hs` applies `μ (D + p pᵀ − q qᵀ − r rᵀ)` -/

/-- `⟨x, y⟩` on lists -/
def ldot (x y : List ℝ) : ℝ := ((x.zip y).map (fun p => p.1 * p.2)).sum

/-- `mul_Hs` on `x = (x1, x2)`: entry `i` of the `u`-block is
`μ (d1ᵢ x1ᵢ − ⟨q,x1⟩ qᵢ + ⟨p,x⟩ pᵢ)`, entry `j` of the `w`-block is
`μ (d2 x2ⱼ − ⟨r,x2⟩ rⱼ + ⟨p,x⟩ p_{dim1+j})`. -/
theorem mulHs_eq (g pu pw q r d1 x1 x2 : List ℝ) (d2 mu : ℝ)
    (hd : d1.length = x1.length) (hq : q.length = x1.length) (hpu : pu.length = x1.length)
    (hr : r.length = x2.length) (hpw : pw.length = x2.length) :
    mulHs ⟨g.toArray, (pu ++ pw).toArray, q.toArray, r.toArray, d1.toArray, d2⟩ mu x1.length
        (x1 ++ x2).toArray
      = .ok ((((x1.zip d1).zip q).zip pu).map (fun t =>
            mu * (t.1.1.2 * t.1.1.1 - ldot q x1 * t.1.2 + ldot (pu ++ pw) (x1 ++ x2) * t.2))
          ++ ((x2.zip r).zip pw).map (fun t =>
            mu * (d2 * t.1.1 - ldot r x2 * t.1.2 + ldot (pu ++ pw) (x1 ++ x2) * t.2))).toArray := by
  unfold mulHs
  rw [split_append]
  simp only [bind, Except.bind, pure, Except.pure, dot_eq_sum]
  have hsz : ((List.map (fun t : (ℝ × ℝ) × ℝ => t.1.2 * t.1.1 - ldot q x1 * t.2) ((x1.zip d1).zip q)
      ++ List.map (fun t : ℝ × ℝ => d2 * t.1 - ldot r x2 * t.2) (x2.zip r)).toArray.size
      != (pu ++ pw).toArray.size) = false := by
    simp [hd, hq, hpu, hr, hpw]
  unfold ldot at hsz ⊢
  simp only [hsz, Bool.false_eq_true, if_false]
  congr 1
  unfold Vec.scale Vec.axpby
  simp only [List.map_toArray, Array.mk.injEq]
  have hl : (List.map (fun t : (ℝ × ℝ) × ℝ =>
      t.1.2 * t.1.1 - ((q.zip x1).map (fun p => p.1 * p.2)).sum * t.2) ((x1.zip d1).zip q)).length
      = pu.length := by
    simp [hd, hq, hpu]
  rw [List.zip_append hl]
  simp only [List.map_append, List.zip_map_left, List.map_map]
  congr 1
  · apply List.map_congr_left
    intro t _
    simp only [Function.comp, Prod.map, id_eq]
    ring
  · apply List.map_congr_left
    intro t _
    simp only [Function.comp, Prod.map, id_eq]
    ring

/-- `mulHs_eq` for an arbitrary `Data` record whose `p` splits as `pu ++ pw` -/
theorem mulHs_eq_data (D : Data ℝ) (pu pw x1 x2 : List ℝ) (mu : ℝ) (hp : D.p.toList = pu ++ pw)
    (hd : D.d1.toList.length = x1.length) (hq : D.q.toList.length = x1.length)
    (hpu : pu.length = x1.length) (hr : D.r.toList.length = x2.length) (hpw : pw.length = x2.length) :
    mulHs D mu x1.length (x1 ++ x2).toArray
      = .ok ((((x1.zip D.d1.toList).zip D.q.toList).zip pu).map (fun t =>
            mu * (t.1.1.2 * t.1.1.1 - ldot D.q.toList x1 * t.1.2 + ldot (pu ++ pw) (x1 ++ x2) * t.2))
          ++ ((x2.zip D.r.toList).zip pw).map (fun t =>
            mu * (D.d2 * t.1.1 - ldot D.r.toList x2 * t.1.2 + ldot (pu ++ pw) (x1 ++ x2) * t.2))).toArray := by
  obtain ⟨⟨g⟩, ⟨p⟩, ⟨q⟩, ⟨r⟩, ⟨d1⟩, d2⟩ := D
  simp only at hp hd hq hr ⊢
  subst hp
  exact mulHs_eq g pu pw q r d1 x1 x2 d2 mu hd hq hpu hr hpw

/-- `get_Hs` returns `μ · diag(d1, d2 I)` -/
theorem getHs_toList (D : Data ℝ) (mu : ℝ) (dim2 : Nat) :
    (getHs D mu dim2).toList = D.d1.toList.map (fun d => mu * d) ++ List.replicate dim2 (mu * D.d2) := rfl

end Clarabel.GenPow
