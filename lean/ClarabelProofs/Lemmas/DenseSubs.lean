/-
  C16, dense matrix model: `subsref` / `subsasgn`, `pack_triu`, views of a parent buffer.
  [S] = every scalar type.
-/
import ClarabelProofs.Lemmas.DenseSums

namespace Clarabel.Dense
open Clarabel

variable {α : Type}

/-- reads turned into writes: the write list exists and its members are exactly the
`(pos p, value read at p)` -/
theorem readWrites {P : Type} (ps : List P) (pos : P → Nat) (rd : P → MErr α)
    (h : ∀ p ∈ ps, ∃ x, rd p = .ok x) :
    ∃ ws, ps.mapM (fun p => do let x ← rd p; pure (pos p, x)) = .ok ws ∧
      (∀ w ∈ ws, ∃ p ∈ ps, ∃ x, rd p = .ok x ∧ w = (pos p, x)) ∧
      (∀ p ∈ ps, ∀ x, rd p = .ok x → (pos p, x) ∈ ws) := by
  obtain ⟨ws, h1, _, _⟩ := mapM_exists (fun p => do let x ← rd p; pure (pos p, x)) ps (by
    intro p hp
    obtain ⟨x, hx⟩ := h p hp
    exact ⟨(pos p, x), by simp only [hx]; rfl⟩)
  obtain ⟨m1, m2⟩ := mapM_mem _ _ _ h1
  refine ⟨ws, h1, ?_, ?_⟩
  · intro w hw
    obtain ⟨p, hp, hfp⟩ := m1 w hw
    obtain ⟨x, hx⟩ := h p hp
    simp only [hx] at hfp
    have : w = (pos p, x) := by cases hfp; rfl
    exact ⟨p, hp, x, hx, this⟩
  · intro p hp x hx
    obtain ⟨w, hw, hfp⟩ := m2 p hp
    simp only [hx] at hfp
    have : w = (pos p, x) := by cases hfp; rfl
    rw [← this]; exact hw

theorem subsPairs_mem (rows cols : Array Nat) (q : (Nat × Nat) × (Nat × Nat)) :
    q ∈ subsPairs rows cols ↔ rows[q.1.1]? = some q.1.2 ∧ cols[q.2.1]? = some q.2.2 := by
  obtain ⟨⟨i, row⟩, ⟨j, col⟩⟩ := q
  simp only [subsPairs, List.mem_flatMap, List.mem_map, Prod.mk.injEq, Prod.exists,
    List.mem_zipIdx_iff_getElem?, Array.getElem?_toList]
  constructor
  · rintro ⟨c, jc, hc, r, ir, hr, ⟨rfl, rfl⟩, rfl, rfl⟩
    exact ⟨hr, hc⟩
  · rintro ⟨hr, hc⟩
    exact ⟨col, j, hc, row, i, hr, ⟨rfl, rfl⟩, rfl, rfl⟩

/-- [S] `self.subsref(B, rows, cols)`: `self[(i, j)] = B[(rows[i], cols[j])]` for `i < rows.len()`,
`j < cols.len()`; every other entry of `self` is untouched (`B` any view) -/
theorem subsref_spec (A S : Dense α) (vs : DView) (rows cols : Array Nat) (hA : WF A) (hSw : WF S)
    (hS : vs = .S → S.m = S.n) (hr : rows.size ≤ A.m) (hc : cols.size ≤ A.n)
    (hrows : ∀ r ∈ rows.toList, r < nrowsV vs S) (hcols : ∀ c ∈ cols.toList, c < ncolsV vs S) :
    ∃ R, subsref A vs S rows cols = .ok R ∧ R.m = A.m ∧ R.n = A.n ∧ WF R ∧
      (∀ i j (hi : i < rows.size) (hj : j < cols.size), at? R i j = atV? vs S rows[i] cols[j]) ∧
      (∀ i j, i < A.m → j < A.n → (rows.size ≤ i ∨ cols.size ≤ j) → at? R i j = at? A i j) := by
  have hread : ∀ q ∈ subsPairs rows cols, ∃ x, get vs S q.1.2 q.2.2 = .ok x := by
    intro q hq
    obtain ⟨h1, h2⟩ := (subsPairs_mem _ _ _).mp hq
    have hr' : q.1.2 ∈ rows.toList := by
      rw [Array.mem_toList_iff]; exact Array.mem_of_getElem? h1
    have hc' : q.2.2 ∈ cols.toList := by
      rw [Array.mem_toList_iff]; exact Array.mem_of_getElem? h2
    obtain ⟨x, hx, _⟩ := get_ok vs S hSw hS (hrows _ hr') (hcols _ hc')
    exact ⟨x, hx⟩
  obtain ⟨ws, hw1, hw2, hw3⟩ := readWrites (subsPairs rows cols)
    (fun q => q.1.1 + A.m * q.2.1) (fun q => get vs S q.1.2 q.2.2) hread
  have hidx : ∀ q ∈ subsPairs rows cols, q.1.1 < rows.size ∧ q.2.1 < cols.size := by
    intro q hq
    obtain ⟨h1, h2⟩ := (subsPairs_mem _ _ _).mp hq
    constructor
    · by_contra h; rw [Array.getElem?_eq_none (by omega)] at h1; cases h1
    · by_contra h; rw [Array.getElem?_eq_none (by omega)] at h2; cases h2
  have hin : ∀ w ∈ ws, w.1 < A.data.size := by
    intro w hw
    obtain ⟨q, hq, x, _, rfl⟩ := hw2 w hw
    obtain ⟨h1, h2⟩ := hidx q hq
    rw [hA]; exact lin_lt (by omega) (by omega)
  obtain ⟨d', h1, h2, h3, h4⟩ := applyWrites_spec ws A.data hin
  refine ⟨{ A with data := d' }, ?_, rfl, rfl, ?_, ?_, ?_⟩
  · unfold subsref
    rw [hw1]
    show (applyWrites A.data ws >>= fun d => pure { A with data := d }) = _
    rw [h1]; rfl
  · simp only [WF, h2]; exact hA
  · intro i j hi hj
    have hq : ((i, rows[i]), (j, cols[j])) ∈ subsPairs rows cols :=
      (subsPairs_mem _ _ _).mpr ⟨by simp [hi], by simp [hj]⟩
    obtain ⟨x, hx⟩ := hread _ hq
    simp only at hx
    rw [(get_eq_ok_iff vs S _ _ x).mp hx]
    simp only [at?]
    apply h4
    · exact ⟨_, hw3 _ hq x hx, rfl⟩
    · intro w hw hk
      obtain ⟨q, hq', x', hx', rfl⟩ := hw2 w hw
      obtain ⟨hq1, hq2⟩ := hidx q hq'
      obtain ⟨e1, e2⟩ := lin_inj (by omega : q.1.1 < A.m) (by omega : i < A.m) hk
      obtain ⟨g1, g2⟩ := (subsPairs_mem _ _ _).mp hq'
      rw [e1] at g1; rw [e2] at g2
      simp only [Array.getElem?_eq_getElem hi, Array.getElem?_eq_getElem hj, Option.some.injEq] at g1 g2
      rw [← g1, ← g2] at hx'
      rw [hx] at hx'
      cases hx'; rfl
  · intro i j hi hj hor
    simp only [at?]
    apply h3
    intro w hw hk
    obtain ⟨q, hq', x', _, rfl⟩ := hw2 w hw
    obtain ⟨hq1, hq2⟩ := hidx q hq'
    obtain ⟨e1, e2⟩ := lin_inj (by omega : q.1.1 < A.m) hi hk
    omega

/-- [S] `self.subsasgn(rows, cols, B)`: `self[(rows[i], cols[j])] = B[(i, j)]` when the index
lists are in range and without repetitions; every other entry is untouched -/
theorem subsasgn_spec (A S : Dense α) (vs : DView) (rows cols : Array Nat) (hA : WF A) (hSw : WF S)
    (hS : vs = .S → S.m = S.n) (hr : rows.size ≤ nrowsV vs S) (hc : cols.size ≤ ncolsV vs S)
    (hrows : ∀ r ∈ rows.toList, r < A.m) (hcols : ∀ c ∈ cols.toList, c < A.n)
    (hrn : rows.toList.Nodup) (hcn : cols.toList.Nodup) :
    ∃ R, subsasgn A rows cols vs S = .ok R ∧ R.m = A.m ∧ R.n = A.n ∧ WF R ∧
      (∀ i j (hi : i < rows.size) (hj : j < cols.size), at? R rows[i] cols[j] = atV? vs S i j) ∧
      (∀ i j, i < A.m → j < A.n → (i ∉ rows.toList ∨ j ∉ cols.toList) → at? R i j = at? A i j) := by
  have hidx : ∀ q ∈ subsPairs rows cols, q.1.1 < rows.size ∧ q.2.1 < cols.size ∧
      q.1.2 ∈ rows.toList ∧ q.2.2 ∈ cols.toList := by
    intro q hq
    obtain ⟨h1, h2⟩ := (subsPairs_mem _ _ _).mp hq
    refine ⟨?_, ?_, ?_, ?_⟩
    · by_contra h; rw [Array.getElem?_eq_none (by omega)] at h1; cases h1
    · by_contra h; rw [Array.getElem?_eq_none (by omega)] at h2; cases h2
    · rw [Array.mem_toList_iff]; exact Array.mem_of_getElem? h1
    · rw [Array.mem_toList_iff]; exact Array.mem_of_getElem? h2
  have hread : ∀ q ∈ subsPairs rows cols, ∃ x, get vs S q.1.1 q.2.1 = .ok x := by
    intro q hq
    obtain ⟨h1, h2, _, _⟩ := hidx q hq
    obtain ⟨x, hx, _⟩ := get_ok vs S hSw hS (i := q.1.1) (j := q.2.1) (by omega) (by omega)
    exact ⟨x, hx⟩
  obtain ⟨ws, hw1, hw2, hw3⟩ := readWrites (subsPairs rows cols)
    (fun q => q.1.2 + A.m * q.2.2) (fun q => get vs S q.1.1 q.2.1) hread
  have hin : ∀ w ∈ ws, w.1 < A.data.size := by
    intro w hw
    obtain ⟨q, hq, x, _, rfl⟩ := hw2 w hw
    obtain ⟨_, _, h3, h4⟩ := hidx q hq
    rw [hA]; exact lin_lt (hrows _ h3) (hcols _ h4)
  obtain ⟨d', h1, h2, h3, h4⟩ := applyWrites_spec ws A.data hin
  refine ⟨{ A with data := d' }, ?_, rfl, rfl, ?_, ?_, ?_⟩
  · unfold subsasgn
    rw [hw1]
    show (applyWrites A.data ws >>= fun d => pure { A with data := d }) = _
    rw [h1]; rfl
  · simp only [WF, h2]; exact hA
  · intro i j hi hj
    have hq : ((i, rows[i]), (j, cols[j])) ∈ subsPairs rows cols :=
      (subsPairs_mem _ _ _).mpr ⟨by simp [hi], by simp [hj]⟩
    obtain ⟨x, hx⟩ := hread _ hq
    simp only at hx
    rw [(get_eq_ok_iff vs S _ _ x).mp hx]
    simp only [at?]
    apply h4
    · exact ⟨_, hw3 _ hq x hx, rfl⟩
    · intro w hw hk
      obtain ⟨q, hq', x', hx', rfl⟩ := hw2 w hw
      obtain ⟨hq1, hq2, hq3, hq4⟩ := hidx q hq'
      have hri : rows[i] < A.m := hrows _ (by simp)
      obtain ⟨e1, e2⟩ := lin_inj (hrows _ hq3) hri hk
      obtain ⟨g1, g2⟩ := (subsPairs_mem _ _ _).mp hq'
      -- no repetitions: the positions determine the indices
      have i1 : q.1.1 = i := by
        have := (List.Nodup.getElem_inj_iff hrn (i := q.1.1) (j := i)
          (hi := by simpa using hq1) (hj := by simpa using hi)).mp (by
            simp only [Array.getElem_toList]
            rw [Array.getElem?_eq_getElem hq1] at g1
            simp only [Option.some.injEq] at g1
            rw [g1, e1])
        exact this
      have j1 : q.2.1 = j := by
        have := (List.Nodup.getElem_inj_iff hcn (i := q.2.1) (j := j)
          (hi := by simpa using hq2) (hj := by simpa using hj)).mp (by
            simp only [Array.getElem_toList]
            rw [Array.getElem?_eq_getElem hq2] at g2
            simp only [Option.some.injEq] at g2
            rw [g2, e2])
        exact this
      rw [i1, j1, hx] at hx'
      cases hx'; rfl
  · intro i j hi hj hor
    simp only [at?]
    apply h3
    intro w hw hk
    obtain ⟨q, hq', x', _, rfl⟩ := hw2 w hw
    obtain ⟨_, _, hq3, hq4⟩ := hidx q hq'
    obtain ⟨e1, e2⟩ := lin_inj (hrows _ hq3) hi hk
    rcases hor with h | h
    · exact h (e1 ▸ hq3)
    · exact h (e2 ▸ hq4)

/-! ### views of a parent buffer -/

/-- [S] writing a modified view back: the parent keeps its length, the part outside
`[off, off+len)` is untouched, the part inside is the view's data -/
theorem store_view (o : Opnd α) (A : Dense α) (off len : Nat) (hv : o.view = some (off, len))
    (hin : off + len ≤ o.parent.size) (hA : A.data.size = len) :
    (o.store A).size = o.parent.size ∧
    (∀ k, k < off → (o.store A)[k]? = o.parent[k]?) ∧
    (∀ k, k < len → (o.store A)[off + k]? = A.data[k]?) ∧
    (∀ k, off + len ≤ k → (o.store A)[k]? = o.parent[k]?) := by
  have hs : o.store A = (o.parent.toList.take off ++ A.data.toList ++ o.parent.toList.drop (off + len)).toArray := by
    simp [Opnd.store, hv]
  rw [hs]
  refine ⟨?_, ?_, ?_, ?_⟩
  · simp only [List.size_toArray, List.length_append, List.length_take, Array.length_toList,
      List.length_drop]
    omega
  · intro k hk
    simp only [List.getElem?_toArray, List.append_assoc]
    rw [List.getElem?_append_left (by simp <;> omega)]
    simp [List.getElem?_take, hk]
  · intro k hk
    simp only [List.getElem?_toArray, List.append_assoc]
    rw [List.getElem?_append_right (by simp <;> omega)]
    simp only [List.length_take, Array.length_toList]
    rw [Nat.min_eq_left (by omega), Nat.add_sub_cancel_left]
    rw [List.getElem?_append_left (by simp <;> omega)]
    simp
  · intro k hk
    simp only [List.getElem?_toArray]
    rw [List.getElem?_append_right (by simp <;> omega)]
    simp only [List.length_append, List.length_take, Array.length_toList, List.getElem?_drop]
    rw [Nat.min_eq_left (by omega)]
    simp only [Array.getElem?_toList]
    congr 1
    omega

/-- [S] an owned operand is `Matrix::new`: it loads exactly when `m * n = len` -/
theorem load_owned (o : Opnd α) (hv : o.view = none) :
    o.load = if o.m * o.n = o.parent.size then .ok ⟨o.m, o.n, o.parent⟩
      else .error (.panic "Matrix::new: assert size") := by
  unfold Opnd.load
  rw [hv]
  by_cases h : o.m * o.n = o.parent.size
  · simp only [h, ↓reduceIte]; exact new_ok _ _ _ h
  · simp only [h, ↓reduceIte]; exact new_panic _ _ _ h

/-- [S] a borrowed operand is built without any check (only the slice must exist) -/
theorem load_view (o : Opnd α) (off len : Nat) (hv : o.view = some (off, len))
    (hin : off + len ≤ o.parent.size) :
    o.load = .ok ⟨o.m, o.n, o.parent.extract off (off + len)⟩ := by
  unfold Opnd.load sliceE
  rw [hv]
  simp only [Nat.not_lt.mpr hin, ↓reduceIte]
  rfl

end Clarabel.Dense
