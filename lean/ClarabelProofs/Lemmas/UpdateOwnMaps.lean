/-
  C08 — discharging the hypotheses `State.MapsOK` / `State.KktSync` of the data-updating
  theorems for the solver's OWN index maps: the maps produced by `assemble_kkt_matrix`
  (`Kkt.assembleKktMatrix`, property C11) and by QDLDL's `permute_symmetric`
  (`Qdldl.permuteSymmetric`, property C12), as composed by `DirectLDLKKTSolver::new`
  (`Solver.KktSolver.new`).

  All statements are class [S]: no arithmetic law of the scalar type is used.
-/
import ClarabelProofs.Props.C11
import ClarabelProofs.Props.C12
import ClarabelProofs.Lemmas.Update
import ClarabelProofs.Lemmas.KktDistinct
import ClarabelModel.Update
import ClarabelModel.ProblemData
import ClarabelModel.Solver.KktSolver

set_option linter.unusedSectionVars false
set_option linter.unusedVariables false

namespace Clarabel
namespace Update

open Clarabel.Lemmas.KktSpec (KktInputs MapsOut asmRun_of_ok)
open Clarabel.Lemmas.KktSorted (Canon IsTriu)
open Clarabel.Lemmas.KktFinal (SlotIs EntryAt)
open Clarabel.Lemmas.KktFillMaps (SlotU)
open Clarabel.Lemmas.KktFillBlock (BlockWF)
open Clarabel.Lemmas.KktLength (blockWF_of_canon)
open Clarabel.Lemmas.KktDistinct (slot_ne)

variable {α : Type} [OfNat α 0]

-- ------------------------------------------------------------------ small array facts

/-- `getD` of an index whose `[·]?` is known -/
theorem getD_of_getElem?_own {a : Array Nat} {k d : Nat} (h : a[k]? = some d) : a.getD k 0 = d := by
  simp [Array.getD_eq_getD_getElem?, h]

/-- `xs[j]! = r` from `xs[j]? = some r` -/
theorem getElem!_of_getElem?_own {a : Array Nat} {k d : Nat} (h : a[k]? = some d) : a[k]! = d := by
  simp [getElem!_def, h]

-- ------------------------------------------------------------------ item 2: `permute_symmetric`

/-- [S] **QDLDL's own entry map `AtoPAPt`** (from `C12.permute_symmetric`): one slot per stored
entry of the input, every slot inside the permuted value array, injective, and the permuted
copy holds the input values through it. -/
theorem permute_atop_own {K T : Csc α} {iperm atop : Array Nat}
    (h : Qdldl.permuteSymmetric K iperm = .ok (T, atop)) :
    atop.size = K.nzval.size ∧ T.nzval.size = K.nzval.size ∧
    (∀ i ∈ atop.toList, i < T.nzval.size) ∧
    (∀ i j, i < atop.size → j < atop.size → atop.getD i 0 = atop.getD j 0 → i = j) ∧
    (∀ k, k < K.nzval.size → T.nzval[atop.getD k 0]? = K.nzval[k]?) := by
  obtain ⟨hsz, hT, hnd, hval⟩ := C12.permute_symmetric K iperm T atop h
  refine ⟨hsz, hT, ?_, ?_, ?_⟩
  · intro i hi
    obtain ⟨k, hk, rfl⟩ := List.mem_iff_getElem.mp hi
    have hk' : k < K.nzval.size := by simpa [hsz] using hk
    obtain ⟨p, hp, hlt, _⟩ := hval k hk'
    have : atop.toList[k] = p := by
      have hk2 : k < atop.size := by omega
      have e : atop[k]? = some atop[k] := Array.getElem?_eq_getElem hk2
      rw [e] at hp
      simpa using hp
    rw [this]; exact hlt
  · intro i j hi hj hij
    have e1 : atop.getD i 0 = atop.toList[i]'(by simpa using hi) := by
      simp [Array.getD_eq_getD_getElem?, Array.getElem?_eq_getElem hi]
    have e2 : atop.getD j 0 = atop.toList[j]'(by simpa using hj) := by
      simp [Array.getD_eq_getD_getElem?, Array.getElem?_eq_getElem hj]
    rw [e1, e2] at hij
    exact (List.Nodup.getElem_inj_iff hnd).mp hij
  · intro k hk
    obtain ⟨p, hp, _, hv⟩ := hval k hk
    rw [getD_of_getElem?_own hp, hv, Array.getElem?_eq_getElem hk]

-- ------------------------------------------------------------------ item 1: the assembly maps

section asm
open Clarabel.Kkt

/-- stored index `j` of a canonical matrix: its column `i`, row and value -/
theorem canon_entry_own {M : Csc α} (hM : Canon M) (j : Nat) (hj : j < M.nzval.size) :
    ∃ i, i < M.n ∧ M.colptr.getD i 0 ≤ j ∧ j < M.colptr.getD (i + 1) 0 ∧
      M.rowval[j]? = some (M.rowval[j]!) ∧ M.nzval[j]? = some (M.nzval[j]'hj) := by
  have hj' : j < M.rowval.size := by rw [← hM.nzval_size]; exact hj
  obtain ⟨i, hi, h1, h2⟩ := (blockWF_of_canon hM).col_exists j hj'
  refine ⟨i, hi, h1, h2, ?_, Array.getElem?_eq_getElem hj⟩
  simp [getElem!_def, Array.getElem?_eq_getElem hj']

/-- two different stored indices of a canonical matrix have different `(row, column)` -/
theorem canon_coord_ne_own {M : Csc α} (hM : Canon M) {j j' i i' : Nat} (hjj : j < j')
    (hi : i < M.n) (hi' : i' < M.n)
    (h1 : M.colptr.getD i 0 ≤ j) (h2 : j < M.colptr.getD (i + 1) 0)
    (h1' : M.colptr.getD i' 0 ≤ j') (h2' : j' < M.colptr.getD (i' + 1) 0) :
    M.rowval[j]! ≠ M.rowval[j']! ∨ i ≠ i' := by
  by_cases hii : i = i'
  · subst hii
    left
    have := hM.rows_strictMono hi j j' (by simpa [Array.getElem!_eq_getD] using h1) hjj
      (by simpa [Array.getElem!_eq_getD] using h2')
    omega
  · exact Or.inr hii

/-- [S] **the solver's own `map.P`, `map.A`** (from `C11.assembly_maps`, the schedule-level
slot facts and `KktDistinct.slot_ne`): one slot per stored value, jointly injective, inside
the KKT value array, and the assembled KKT values are the `P`, `A` values through them. -/
theorem assembly_PA_maps_own {P A : Csc α} {cones : List ConeSpec} {K : Csc α} {map : LDLDataMap}
    (hin : KktInputs P A cones) (h : assembleKktMatrix P A cones .triu = .ok (K, map)) :
    map.P.size = P.nzval.size ∧ map.A.size = A.nzval.size ∧
    (map.P.toList ++ map.A.toList).Nodup ∧
    (∀ i ∈ map.P.toList ++ map.A.toList, i < K.nzval.size) ∧
    (∀ k, k < P.nzval.size → K.nzval[map.P.getD k 0]? = P.nzval[k]?) ∧
    (∀ k, k < A.nzval.size → K.nzval[map.A.getD k 0]? = A.nzval[k]?) := by
  obtain ⟨sched, Kc, nd, R⟩ := asmRun_of_ok hin h
  have hdis := R.dis
  have hsz := C11.assembly_map_sizes hin h
  have hszP : map.P.size = P.nzval.size := by
    rw [hsz.1, Clarabel.Lemmas.KktLength.nnz_of_canon hin.P_canon, hin.P_canon.nzval_size]
  have hszA : map.A.size = A.nzval.size := by
    rw [hsz.2.1, Clarabel.Lemmas.KktLength.nnz_of_canon hin.A_canon, hin.A_canon.nzval_size]
  have M := C11.assembly_maps hin h
  -- per-index facts
  have factP : ∀ j, j < P.nzval.size → ∃ i d, i < P.n ∧ P.colptr.getD i 0 ≤ j ∧
      j < P.colptr.getD (i + 1) 0 ∧ map.P[j]? = some d ∧ d < K.nzval.size ∧
      K.nzval[d]? = P.nzval[j]? ∧
      ∃ v, SlotU .triu (Csc.colcountToColptr Kc).colptr sched (some d) (P.rowval[j]!) i v := by
    intro j hj
    obtain ⟨i, hi, h1, h2, hr, hv⟩ := canon_entry_own hin.P_canon j hj
    obtain ⟨d, hd, p, q, _, _, _, _, _, hval⟩ := M.P_map i j _ _ hi h1 h2 hr hv
    have hs := R.fill.P_slots i j _ _ hi h1 h2 hr hv
    rw [hd] at hs
    exact ⟨i, d, hi, h1, h2, hd, (Array.getElem?_eq_some_iff.mp hval).1, by rw [hval, hv], _, hs⟩
  have factA : ∀ j, j < A.nzval.size → ∃ i d, i < A.n ∧ A.colptr.getD i 0 ≤ j ∧
      j < A.colptr.getD (i + 1) 0 ∧ map.A[j]? = some d ∧ d < K.nzval.size ∧
      K.nzval[d]? = A.nzval[j]? ∧
      ∃ v, SlotU .triu (Csc.colcountToColptr Kc).colptr sched (some d) i (A.rowval[j]! + A.n) v := by
    intro j hj
    obtain ⟨i, hi, h1, h2, hr, hv⟩ := canon_entry_own hin.A_canon j hj
    obtain ⟨d, hd, p, q, _, _, _, _, _, hval⟩ := M.A_map i j _ _ hi h1 h2 hr hv
    have hs := R.fill.A_slots i j _ _ hi h1 h2 hr hv
    rw [hd] at hs
    exact ⟨i, d, hi, h1, h2, hd, (Array.getElem?_eq_some_iff.mp hval).1, by rw [hval, hv], _, hs⟩
  have toListGet : ∀ (a : Array Nat) (k : Nat) (hk : k < a.toList.length) (d : Nat),
      a[k]? = some d → a.toList[k] = d := by
    intro a k hk d hd
    have hk' : k < a.size := by simpa using hk
    rw [Array.getElem?_eq_getElem hk'] at hd
    simpa using hd
  refine ⟨hszP, hszA, ?_, ?_, ?_, ?_⟩
  · -- Nodup
    rw [List.nodup_append]
    refine ⟨?_, ?_, ?_⟩
    · rw [List.nodup_iff_pairwise_ne, List.pairwise_iff_getElem]
      intro x y hx hy hxy heq
      have hx' : x < P.nzval.size := by rw [← hszP]; simpa using hx
      have hy' : y < P.nzval.size := by rw [← hszP]; simpa using hy
      obtain ⟨i, d, hi, h1, h2, hd, _, _, v, s⟩ := factP x hx'
      obtain ⟨i', d', hi', h1', h2', hd', _, _, v', s'⟩ := factP y hy'
      have e1 := toListGet map.P x hx d hd
      have e2 := toListGet map.P y hy d' hd'
      have hne := canon_coord_ne_own hin.P_canon hxy hi hi' h1 h2 h1' h2'
      exact slot_ne hdis s s' hne d rfl (show some d' = some d by rw [← e1, ← e2, heq])
    · rw [List.nodup_iff_pairwise_ne, List.pairwise_iff_getElem]
      intro x y hx hy hxy heq
      have hx' : x < A.nzval.size := by rw [← hszA]; simpa using hx
      have hy' : y < A.nzval.size := by rw [← hszA]; simpa using hy
      obtain ⟨i, d, hi, h1, h2, hd, _, _, v, s⟩ := factA x hx'
      obtain ⟨i', d', hi', h1', h2', hd', _, _, v', s'⟩ := factA y hy'
      have e1 := toListGet map.A x hx d hd
      have e2 := toListGet map.A y hy d' hd'
      have hne := canon_coord_ne_own hin.A_canon hxy hi hi' h1 h2 h1' h2'
      refine slot_ne hdis s s' ?_ d rfl (show some d' = some d by rw [← e1, ← e2, heq])
      rcases hne with hne | hne
      · right; omega
      · left; exact hne
    · intro a ha b hb hab
      subst hab
      obtain ⟨x, hx, rfl⟩ := List.mem_iff_getElem.mp ha
      obtain ⟨y, hy, hyx⟩ := List.mem_iff_getElem.mp hb
      have hx' : x < P.nzval.size := by rw [← hszP]; simpa using hx
      have hy' : y < A.nzval.size := by rw [← hszA]; simpa using hy
      obtain ⟨i, d, hi, h1, h2, hd, _, _, v, s⟩ := factP x hx'
      obtain ⟨i', d', hi', h1', h2', hd', _, _, v', s'⟩ := factA y hy'
      have e1 := toListGet map.P x hx d hd
      have e2 := toListGet map.A y hy d' hd'
      have hn := hin.n_eq
      exact slot_ne hdis s s' (Or.inr (by omega)) d rfl (show some d' = some d by rw [← e1, ← e2, hyx])
  · intro i hi
    rcases List.mem_append.mp hi with hi | hi
    · obtain ⟨x, hx, rfl⟩ := List.mem_iff_getElem.mp hi
      have hx' : x < P.nzval.size := by rw [← hszP]; simpa using hx
      obtain ⟨i, d, _, _, _, hd, hlt, _, _, _⟩ := factP x hx'
      rw [toListGet map.P x hx d hd]; exact hlt
    · obtain ⟨x, hx, rfl⟩ := List.mem_iff_getElem.mp hi
      have hx' : x < A.nzval.size := by rw [← hszA]; simpa using hx
      obtain ⟨i, d, _, _, _, hd, hlt, _, _, _⟩ := factA x hx'
      rw [toListGet map.A x hx d hd]; exact hlt
  · intro k hk
    obtain ⟨i, d, _, _, _, hd, _, hv, _, _⟩ := factP k hk
    rw [getD_of_getElem?_own hd, hv]
  · intro k hk
    obtain ⟨i, d, _, _, _, hd, _, hv, _, _⟩ := factA k hk
    rw [getD_of_getElem?_own hd, hv]

end asm

-- ------------------------------------------------------------------ item 3: the C08 state

/-- `getD` of an in-range index is a member -/
theorem getD_mem_own {a : Array Nat} {k : Nat} (hk : k < a.size) : a.getD k 0 ∈ a.toList := by
  have : a.getD k 0 = a[k] := by simp [Array.getD_eq_getD_getElem?, Array.getElem?_eq_getElem hk]
  rw [this]
  exact Array.getElem_mem_toList hk

/-- [S] **the invariant of C08 holds for maps produced by the assembly and by
`permute_symmetric`**: a state whose `P`, `A`, KKT values, `map.P`, `map.A`, LDL values and
`AtoPAPt` are those of `assemble_kkt_matrix(P, A, cones, triu) = (K, map)` and
`permute_symmetric(K, iperm) = (T, AtoPAPt)` satisfies `MapsOK` and `KktSync` (whatever the
flag `ldlDiagShifted`: the freshly permuted copy holds the unshifted values everywhere). -/
theorem inv_of_assembly_own {P A : Csc α} {cones : List Kkt.ConeSpec} {K T : Csc α}
    {map : Kkt.LDLDataMap} {iperm atop : Array Nat} (st : State α)
    (hin : KktInputs P A cones)
    (hasm : Kkt.assembleKktMatrix P A cones .triu = .ok (K, map))
    (hperm : Qdldl.permuteSymmetric K iperm = .ok (T, atop))
    (hP : st.P = P) (hA : st.A = A) (hmP : st.mapP = map.P) (hmA : st.mapA = map.A)
    (hk : st.kkt = K.nzval) (hat : st.atoPAPt = atop) (hl : st.ldl = T.nzval) :
    st.MapsOK ∧ st.KktSync := by
  obtain ⟨a1, a2, a3, a4, a5, a6⟩ := assembly_PA_maps_own hin hasm
  obtain ⟨b1, b2, b3, b4, b5⟩ := permute_atop_own hperm
  have ldlOf : ∀ d, d < K.nzval.size → T.nzval[atop.getD d 0]? = K.nzval[d]? := b5
  refine ⟨⟨?_, ?_, ?_, ?_, ?_, ?_, ?_⟩, ⟨?_, ?_, ?_, ?_⟩⟩
  · rw [hmP, hP]; exact a1
  · rw [hmA, hA]; exact a2
  · rw [hmP, hmA]; exact a3
  · rw [hmP, hmA, hk]; exact a4
  · rw [hat, hk]; exact b1
  · rw [hat, hl]; exact b3
  · rw [hat]; exact b4
  · intro k hk'
    rw [hk, hmP, hP] at *
    exact a5 k hk'
  · intro k hk'
    rw [hk, hmA, hA] at *
    exact a6 k hk'
  · intro k hk' _
    rw [hl, hat, hmP, hP] at *
    have hd : map.P.getD k 0 < K.nzval.size :=
      a4 _ (List.mem_append_left _ (getD_mem_own (by omega)))
    rw [ldlOf _ hd]
    exact a5 k hk'
  · intro k hk'
    rw [hl, hat, hmA, hA] at *
    have hd : map.A.getD k 0 < K.nzval.size :=
      a4 _ (List.mem_append_right _ (getD_mem_own (by omega)))
    rw [ldlOf _ hd]
    exact a6 k hk'

section solver
variable [Add α] [Sub α] [Mul α] [Div α] [Neg α] [OfNat α 1] [LT α] [DecidableLT α]
  [BEq α] [FloatLike α]

/-- `_factor` keeps the permuted matrix and its entry map -/
theorem factor_keeps_own {F F' : Qdldl.Factorisation α} {logical : Bool}
    (h : Qdldl.factor F logical = .ok F') : F'.triuA = F.triuA ∧ F'.AtoPAPt = F.AtoPAPt := by
  unfold Qdldl.factor at h
  obtain ⟨s, _, h2⟩ := Clarabel.Lemmas.KktSorted.bind_eq_ok h
  cases h2
  exact ⟨rfl, rfl⟩

/-- a successful `unwrap` is the success of the wrapped call -/
theorem unwrapQdldl_ok_own {β : Type} {site : String} {x : MErr β} {v : β}
    (h : Solver.unwrapQdldl site x = .ok v) : x = .ok v := by
  unfold Solver.unwrapQdldl at h
  split at h
  · exact h
  · cases h
  · cases h

/-- `QDLDLFactorisation::new` = `check_structure`, `_invperm`, `permute_symmetric`, …, `_factor`:
the stored `triuA` / `AtoPAPt` are the result of `permute_symmetric` on the input matrix -/
theorem qdldl_new_parts_own {Ain : Csc α} {perm : Array Nat} {dsigns : Option (Array Int)}
    {enable : Bool} {eps delta : α} {logical : Bool} {F : Qdldl.Factorisation α}
    (h : Qdldl.new Ain perm dsigns enable eps delta logical = .ok F) :
    ∃ iperm, Qdldl.permuteSymmetric Ain iperm = .ok (F.triuA, F.AtoPAPt) := by
  unfold Qdldl.new at h
  obtain ⟨_, _, h⟩ := Clarabel.Lemmas.KktSorted.bind_eq_ok h
  obtain ⟨iperm, _, h⟩ := Clarabel.Lemmas.KktSorted.bind_eq_ok h
  refine ⟨iperm, ?_⟩
  unfold Qdldl.newWithOrdering at h
  obtain ⟨⟨T, atop⟩, hperm, h⟩ := Clarabel.Lemmas.KktSorted.bind_eq_ok h
  simp only at h
  have key : F.triuA = T ∧ F.AtoPAPt = atop := by
    cases dsigns with
    | none =>
      simp only at h
      obtain ⟨Ds, _, h⟩ := Clarabel.Lemmas.KktSorted.bind_eq_ok h
      obtain ⟨es, _, h⟩ := Clarabel.Lemmas.KktSorted.bind_eq_ok h
      exact factor_keeps_own h
    | some ds =>
      simp only at h
      obtain ⟨Ds, _, h⟩ := Clarabel.Lemmas.KktSorted.bind_eq_ok h
      obtain ⟨es, _, h⟩ := Clarabel.Lemmas.KktSorted.bind_eq_ok h
      exact factor_keeps_own h
  rw [hperm, key.1, key.2]

theorem kktSolver_new_parts_own {P A : Csc α} {cones : List (Solver.ConeSt α)} {m n : Nat}
    {lin : Solver.LinSettings α} {perm : Array Nat} {S : Solver.KktSolver α}
    (h : Solver.KktSolver.new P A cones m n lin perm = .ok S) :
    ∃ iperm, Kkt.assembleKktMatrix P A (cones.map Solver.ConeSt.kktSpec) .triu = .ok (S.KKT, S.map) ∧
      Qdldl.permuteSymmetric S.KKT iperm = .ok (S.ldl.triuA, S.ldl.AtoPAPt) := by
  unfold Solver.KktSolver.new at h
  obtain ⟨⟨KKT, map⟩, hasm, h⟩ := Clarabel.Lemmas.KktSorted.bind_eq_ok h
  simp only at h
  obtain ⟨ds, hds, h⟩ := Clarabel.Lemmas.KktSorted.bind_eq_ok h
  split at h
  · cases h
  · obtain ⟨ldl, hldl, h⟩ := Clarabel.Lemmas.KktSorted.bind_eq_ok h
    cases h
    simp only
    obtain ⟨iperm, hp⟩ := qdldl_new_parts_own (unwrapQdldl_ok_own hldl)
    exact ⟨iperm, hasm, hp⟩

/-- the C08 state read off the whole-solver model objects: the internal problem data, the
KKT matrix and maps of `DirectLDLKKTSolver`, and QDLDL's permuted copy -/
def State.ofSolver (d : ProblemData α) (K : Solver.KktSolver α) (decomposed : Bool) : State α :=
  { P := d.P, q := d.q, A := d.A, b := d.b, d := d.equilibration.d, dinv := d.equilibration.dinv,
    e := d.equilibration.e, einv := d.equilibration.einv, c := d.equilibration.c,
    normq := d.normq, normb := d.normb, presolved := d.presolver.isSome, decomposed := decomposed,
    kkt := K.KKT.nzval, mapP := K.map.P, mapA := K.map.A, diagFull := K.map.diag_full,
    ldl := K.ldl.triuA.nzval, atoPAPt := K.ldl.AtoPAPt, ldlDiagShifted := false }

/-- [S] **`DirectLDLKKTSolver::new` establishes the invariant of C08**: for canonical data
(`KktInputs`) the state read off a freshly constructed KKT solver (`State.ofSolver`) satisfies
`MapsOK` and `KktSync` — the hypotheses of `C08.kkt_in_sync`, `C08.kkt_in_sync_run`,
`C08.empty_update_identity` hold for the solver's own maps. -/
theorem kktSolver_new_inv_own (d : ProblemData α) (cones : List (Solver.ConeSt α))
    (lin : Solver.LinSettings α) (perm : Array Nat) (K : Solver.KktSolver α) (dec : Bool)
    (h : Solver.KktSolver.new d.P d.A cones d.m d.n lin perm = .ok K)
    (hin : KktInputs d.P d.A (cones.map Solver.ConeSt.kktSpec)) :
    (State.ofSolver d K dec).MapsOK ∧ (State.ofSolver d K dec).KktSync := by
  obtain ⟨iperm, hasm, hperm⟩ := kktSolver_new_parts_own h
  exact inv_of_assembly_own (State.ofSolver d K dec) hin hasm hperm rfl rfl rfl rfl rfl rfl rfl

/-- [S] the same as `State.Inv` (`Lemmas/Update.lean`), the form consumed by the `update_*_inv`
lemmas -/
theorem kktSolver_new_Inv_own (d : ProblemData α) (cones : List (Solver.ConeSt α))
    (lin : Solver.LinSettings α) (perm : Array Nat) (K : Solver.KktSolver α) (dec : Bool)
    (h : Solver.KktSolver.new d.P d.A cones d.m d.n lin perm = .ok K)
    (hin : KktInputs d.P d.A (cones.map Solver.ConeSt.kktSpec)) :
    (State.ofSolver d K dec).Inv :=
  let r := kktSolver_new_inv_own d cones lin perm K dec h hin
  ⟨r.2, r.1⟩

end solver

-- ------------------------------------------------------------------ item 4: non-vacuity

section examples

/-- integer arithmetic as a scalar type (local to the examples below) -/
@[reducible] def intFloatLikeOwn : FloatLike Int where
  sqrt := id
  exp := id
  log := id
  powf := fun a _ => a
  fmax := max
  fmin := min
  fabs := fun a => a.natAbs
  isNaN := fun _ => false
  isFinite := fun _ => true
  eps := 0
  ofNat := Int.ofNat

attribute [local instance] intFloatLikeOwn

/-- `P = [5]`, `A = [7]` (1×1), one zero cone -/
def exDataOwn : ProblemData Int :=
  { P := ⟨1, 1, #[0, 1], #[0], #[5]⟩, q := #[1], A := ⟨1, 1, #[0, 1], #[0], #[7]⟩, b := #[1],
    cones := [.zero 1], n := 1, m := 1, equilibration := EquilData.new 1 1,
    normq := none, normb := none, presolver := none }

def exLinOwn : Solver.LinSettings Int :=
  { staticRegEnable := false, staticRegConstant := 0, staticRegProportional := 0,
    dynRegEps := 1, dynRegDelta := 1, irEnable := false, irReltol := 0, irAbstol := 0,
    irMaxIter := 0, irStopRatio := 1 }

theorem exDataOwn_inputs : KktInputs exDataOwn.P exDataOwn.A
    ([Solver.ConeSt.zero (α := Int) 1].map Solver.ConeSt.kktSpec) := by
  refine ⟨⟨rfl, rfl, ?_, rfl, rfl, ?_, ?_⟩, ?_, rfl, ⟨rfl, rfl, ?_, rfl, rfl, ?_, ?_⟩, rfl, rfl⟩
  · intro i hi; match i, hi with
    | 0, _ => decide
  · intro j hj; match j, hj with
    | 0, _ => decide
  · intro i hi j h1 h2; match i, hi with
    | 0, _ => exact absurd h2 (by show ¬ j + 1 < 1; omega)
  · intro i hi j h1 h2; match i, hi with
    | 0, _ => have : j = 0 := by have : j < 1 := h2; omega
              subst this; decide
  · intro i hi; match i, hi with
    | 0, _ => decide
  · intro j hj; match j, hj with
    | 0, _ => decide
  · intro i hi j h1 h2; match i, hi with
    | 0, _ => exact absurd h2 (by show ¬ j + 1 < 1; omega)

/-- the model's `DirectLDLKKTSolver::new` succeeds on the example (reversed ordering) and the
maps / copies are the expected ones -/
theorem exDataOwn_new :
    (Solver.KktSolver.new exDataOwn.P exDataOwn.A [Solver.ConeSt.zero 1] exDataOwn.m exDataOwn.n
        exLinOwn #[1, 0]).toOption.map
      (fun K => (K.KKT.nzval.toList, K.map.P.toList, K.map.A.toList, K.ldl.triuA.nzval.toList,
        K.ldl.AtoPAPt.toList))
      = some ([5, 7, 0], [0], [1], [0, 5, 7], [1, 2, 0]) := by decide +kernel

/-- non-vacuity of `kktSolver_new_inv_own` (and, with `C11.assembly_total` /
`permute_atop_own`, of `inv_of_assembly_own`): all hypotheses hold on a concrete instance, and
the conclusion is the invariant of a state like `C08.exState`: `kkt = [5,7,0]`, `ldl = [0,5,7]`,
`AtoPAPt = [1,2,0]`. -/
example : ∃ (d : ProblemData Int) (cones : List (Solver.ConeSt Int)) (lin : Solver.LinSettings Int)
    (perm : Array Nat) (K : Solver.KktSolver Int),
    Solver.KktSolver.new d.P d.A cones d.m d.n lin perm = .ok K ∧
    KktInputs d.P d.A (cones.map Solver.ConeSt.kktSpec) ∧
    (State.ofSolver d K false).MapsOK ∧ (State.ofSolver d K false).KktSync ∧
    (State.ofSolver d K false).kkt.toList = [5, 7, 0] ∧
    (State.ofSolver d K false).ldl.toList = [0, 5, 7] := by
  have h := exDataOwn_new
  cases hn : Solver.KktSolver.new exDataOwn.P exDataOwn.A [Solver.ConeSt.zero 1] exDataOwn.m
      exDataOwn.n exLinOwn #[1, 0] with
  | error e => rw [hn] at h; cases h
  | ok K =>
    rw [hn] at h
    simp only [Except.toOption, Option.map_some, Option.some.injEq, Prod.mk.injEq] at h
    have r := kktSolver_new_inv_own exDataOwn [.zero 1] exLinOwn #[1, 0] K false hn exDataOwn_inputs
    exact ⟨exDataOwn, [.zero 1], exLinOwn, #[1, 0], K, hn, exDataOwn_inputs, r.1, r.2, h.1, h.2.2.2.1⟩

/-- non-vacuity of `assembly_PA_maps_own` / `inv_of_assembly_own` with a sparse expansion
(the `KktInputs` instance of `Props/C11.lean`: `P` 2×2 without diagonal in column 1, `A` 6×2,
cones `[nonneg 1, soc 5]`): both equations have solutions (`C11.assembly_total`; the permutation
of the assembled matrix by the identity ordering is not evaluated here). -/
example : ∃ (P A K : Csc Int) (cones : List Kkt.ConeSpec) (map : Kkt.LDLDataMap),
    KktInputs P A cones ∧ Kkt.assembleKktMatrix P A cones .triu = .ok (K, map) ∧
    (map.P.toList ++ map.A.toList).Nodup := by
  let P : Csc Int := ⟨2, 2, #[0, 1, 2], #[0, 0], #[4, 1]⟩
  let A : Csc Int := ⟨6, 2, #[0, 1, 2], #[0, 3], #[7, -2]⟩
  have hin : KktInputs P A [.nonneg 1, .soc 5] := by
    refine ⟨⟨rfl, rfl, ?_, rfl, rfl, ?_, ?_⟩, ?_, rfl, ⟨rfl, rfl, ?_, rfl, rfl, ?_, ?_⟩, rfl, rfl⟩
    · intro i hi; match i, hi with
      | 0, _ => decide
      | 1, _ => decide
    · intro j hj; match j, hj with
      | 0, _ => decide
      | 1, _ => decide
    · intro i hi j h1 h2; match i, hi with
      | 0, _ => exact absurd h2 (by show ¬ j + 1 < 1; omega)
      | 1, _ => exact absurd (show 1 ≤ j from h1) (by have : j + 1 < 2 := h2; omega)
    · intro i hi j h1 h2; match i, hi with
      | 0, _ => have : j = 0 := by have : j < 1 := h2; omega
                subst this; decide
      | 1, _ => have : j = 1 := by have h3 : 1 ≤ j := h1; have h4 : j < 2 := h2; omega
                subst this; decide
    · intro i hi; match i, hi with
      | 0, _ => decide
      | 1, _ => decide
    · intro j hj; match j, hj with
      | 0, _ => decide
      | 1, _ => decide
    · intro i hi j h1 h2; match i, hi with
      | 0, _ => exact absurd h2 (by show ¬ j + 1 < 1; omega)
      | 1, _ => exact absurd (show 1 ≤ j from h1) (by have : j + 1 < 2 := h2; omega)
  obtain ⟨K, map, _, h, _⟩ := C11.assembly_total P A [.nonneg 1, .soc 5] .triu hin
  exact ⟨P, A, K, _, map, hin, h, (assembly_PA_maps_own hin h).2.2.1⟩

end examples

end Update
end Clarabel
