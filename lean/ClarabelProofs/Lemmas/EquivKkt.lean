/-
  C05 — equivalence transformations of the PROBLEM
      min ½xᵀPx + qᵀx  s.t.  Ax + s = b, s ∈ K        (dual cone `Kd`)
  (dense operators over an ordered field, as in `Lemmas/Duality.lean`): how optimal points,
  infeasibility certificates, objectives and residuals of the transformed problem correspond
  one-to-one to those of the original.

  * objective scaled by `γ > 0`:  `(P,q) ↦ (γP, γq)`,  `(x,s,z) ↦ (x,s,γz)`;
  * rows permuted by `σ` (rows inside a cone, or whole cones reordered), variables permuted
    by `π`:  `A ↦ A.submatrix σ π`, `b ↦ b∘σ`, `P ↦ P.submatrix π π`, `q ↦ q∘π`,
    `K ↦ permSet σ K`,  `(x,s,z) ↦ (x∘π, s∘σ, z∘σ)`.

  These are statements about the problem, not about the trajectory of the solver.
  Helper lemmas for `Props/C05Equiv.lean`.
-/
import ClarabelProofs.Lemmas.Duality
import Mathlib.Data.Set.Basic
import Mathlib.Algebra.BigOperators.Group.Finset.Basic
import Mathlib.Data.Finset.Lattice.Fold

namespace Clarabel.Lemmas
open Matrix

set_option linter.unusedSectionVars false

variable {α : Type} [Field α] [LinearOrder α] [IsStrictOrderedRing α] {n m : ℕ}

/-! ### optimality and the two infeasibility certificates -/

/-- KKT / optimality of `(x,s,z)`: primal and dual feasibility and complementarity -/
def IsOptimal (P : Matrix (Fin n) (Fin n) α) (q : Fin n → α) (A : Matrix (Fin m) (Fin n) α)
    (b : Fin m → α) (K Kd : Set (Fin m → α)) (x : Fin n → α) (s z : Fin m → α) : Prop :=
  A *ᵥ x + s = b ∧ P *ᵥ x + Aᵀ *ᵥ z + q = 0 ∧ s ∈ K ∧ z ∈ Kd ∧ s ⬝ᵥ z = 0

/-- primal-infeasibility certificate `z`: `Aᵀz = 0`, `z ∈ K*`, `b·z < 0` -/
def IsPrimalInfCert (A : Matrix (Fin m) (Fin n) α) (b : Fin m → α) (Kd : Set (Fin m → α))
    (z : Fin m → α) : Prop :=
  Aᵀ *ᵥ z = 0 ∧ z ∈ Kd ∧ b ⬝ᵥ z < 0

/-- dual-infeasibility certificate `(x,s)`: `Px = 0`, `Ax + s = 0`, `s ∈ K`, `q·x < 0` -/
def IsDualInfCert (P : Matrix (Fin n) (Fin n) α) (q : Fin n → α) (A : Matrix (Fin m) (Fin n) α)
    (K : Set (Fin m → α)) (x : Fin n → α) (s : Fin m → α) : Prop :=
  P *ᵥ x = 0 ∧ A *ᵥ x + s = 0 ∧ s ∈ K ∧ q ⬝ᵥ x < 0

/-- closed under multiplication by positive scalars -/
def PosScaleClosed (K : Set (Fin m → α)) : Prop := ∀ z ∈ K, ∀ c : α, 0 < c → c • z ∈ K

theorem isOptimal_iff_residuals (P : Matrix (Fin n) (Fin n) α) (q : Fin n → α)
    (A : Matrix (Fin m) (Fin n) α) (b : Fin m → α) (K Kd : Set (Fin m → α)) (x : Fin n → α)
    (s z : Fin m → α) :
    IsOptimal P q A b K Kd x s z ↔
      rp A b x s = 0 ∧ rd P A q x z = 0 ∧ s ∈ K ∧ z ∈ Kd ∧ s ⬝ᵥ z = 0 := by
  unfold IsOptimal rp rd
  rw [sub_eq_zero]

/-! ### objective scaled by `γ > 0` -/

theorem smul_mem_iff_of_posScaleClosed {Kd : Set (Fin m → α)} (hKd : PosScaleClosed Kd) (γ : α)
    (hγ : 0 < γ) (z : Fin m → α) : γ • z ∈ Kd ↔ z ∈ Kd := by
  constructor
  · intro h
    have := hKd _ h γ⁻¹ (inv_pos.mpr hγ)
    rwa [smul_smul, inv_mul_cancel₀ hγ.ne', one_smul] at this
  · intro h; exact hKd z h γ hγ

theorem smul_vec_eq_zero_iff {k : ℕ} (γ : α) (hγ : γ ≠ 0) (v : Fin k → α) : γ • v = 0 ↔ v = 0 := by
  constructor
  · intro h
    funext i
    have := congrFun h i
    simpa [hγ] using this
  · rintro rfl; simp

theorem pobj_scale (P : Matrix (Fin n) (Fin n) α) (q : Fin n → α) (x : Fin n → α) (γ : α) :
    pobj (γ • P) (γ • q) x = γ * pobj P q x := by
  simp only [pobj, smul_mulVec, dotProduct_smul, smul_dotProduct, smul_eq_mul]
  ring

theorem dobj_scale (P : Matrix (Fin n) (Fin n) α) (b : Fin m → α) (x : Fin n → α) (z : Fin m → α)
    (γ : α) : dobj (γ • P) b x (γ • z) = γ * dobj P b x z := by
  simp only [dobj, smul_mulVec, dotProduct_smul, smul_eq_mul]
  ring

theorem rd_scale (P : Matrix (Fin n) (Fin n) α) (A : Matrix (Fin m) (Fin n) α) (q : Fin n → α)
    (x : Fin n → α) (z : Fin m → α) (γ : α) :
    rd (γ • P) A (γ • q) x (γ • z) = γ • rd P A q x z := by
  simp only [rd, smul_mulVec, mulVec_smul, smul_add]

/-- **Objective scaling maps optimal points one-to-one**: `(x,s,z)` is optimal for `(P,q)` iff
`(x,s,γz)` is optimal for `(γP,γq)`. -/
theorem isOptimal_scale (P : Matrix (Fin n) (Fin n) α) (q : Fin n → α)
    (A : Matrix (Fin m) (Fin n) α) (b : Fin m → α) (K Kd : Set (Fin m → α))
    (hKd : PosScaleClosed Kd) (γ : α) (hγ : 0 < γ) (x : Fin n → α) (s z : Fin m → α) :
    IsOptimal P q A b K Kd x s z ↔ IsOptimal (γ • P) (γ • q) A b K Kd x s (γ • z) := by
  rw [isOptimal_iff_residuals, isOptimal_iff_residuals, rd_scale,
    smul_mem_iff_of_posScaleClosed hKd γ hγ, dotProduct_smul, smul_eq_mul,
    smul_vec_eq_zero_iff γ hγ.ne', mul_eq_zero_iff_left hγ.ne']

/-- a primal-infeasibility certificate does not involve `(P,q)`; it is invariant under the
positive rescaling `z ↦ γz` that the objective scaling applies to the dual variable -/
theorem isPrimalInfCert_scale (A : Matrix (Fin m) (Fin n) α) (b : Fin m → α)
    (Kd : Set (Fin m → α)) (hKd : PosScaleClosed Kd) (γ : α) (hγ : 0 < γ) (z : Fin m → α) :
    IsPrimalInfCert A b Kd z ↔ IsPrimalInfCert A b Kd (γ • z) := by
  unfold IsPrimalInfCert
  rw [mulVec_smul, smul_mem_iff_of_posScaleClosed hKd γ hγ, dotProduct_smul, smul_eq_mul,
    smul_vec_eq_zero_iff γ hγ.ne', mul_neg_iff]
  constructor
  · rintro ⟨h1, h2, h3⟩; exact ⟨h1, h2, Or.inl ⟨hγ, h3⟩⟩
  · rintro ⟨h1, h2, h3 | h3⟩
    · exact ⟨h1, h2, h3.2⟩
    · exact absurd hγ (not_lt.mpr h3.1.le)

/-- a dual-infeasibility certificate of `(P,q)` is one of `(γP,γq)`, unchanged -/
theorem isDualInfCert_scale (P : Matrix (Fin n) (Fin n) α) (q : Fin n → α)
    (A : Matrix (Fin m) (Fin n) α) (K : Set (Fin m → α)) (γ : α) (hγ : 0 < γ) (x : Fin n → α)
    (s : Fin m → α) : IsDualInfCert P q A K x s ↔ IsDualInfCert (γ • P) (γ • q) A K x s := by
  unfold IsDualInfCert
  rw [smul_mulVec, smul_dotProduct, smul_eq_mul, smul_vec_eq_zero_iff γ hγ.ne', mul_neg_iff]
  constructor
  · rintro ⟨h1, h2, h3, h4⟩; exact ⟨h1, h2, h3, Or.inl ⟨hγ, h4⟩⟩
  · rintro ⟨h1, h2, h3, h4 | h4⟩
    · exact ⟨h1, h2, h3, h4.2⟩
    · exact absurd hγ (not_lt.mpr h4.1.le)

/-! ### rows permuted by `σ`, variables permuted by `π` -/

/-- the cone transported along the row permutation: `{s ∘ σ | s ∈ K}` (stated as a preimage) -/
def permSet (σ : Equiv.Perm (Fin m)) (K : Set (Fin m → α)) : Set (Fin m → α) :=
  {t | t ∘ σ.symm ∈ K}

theorem comp_perm_symm_cancel {β : Type} {k : ℕ} (v : Fin k → β) (σ : Equiv.Perm (Fin k)) :
    (v ∘ σ) ∘ σ.symm = v := by
  funext i; simp

theorem comp_perm_mem_permSet (σ : Equiv.Perm (Fin m)) (K : Set (Fin m → α)) (s : Fin m → α) :
    s ∘ σ ∈ permSet σ K ↔ s ∈ K := by
  unfold permSet
  rw [Set.mem_ofPred_eq, comp_perm_symm_cancel]

theorem permSet_eq_image (σ : Equiv.Perm (Fin m)) (K : Set (Fin m → α)) :
    permSet σ K = {t | ∃ s ∈ K, t = s ∘ σ} := by
  ext t
  constructor
  · intro h
    refine ⟨t ∘ σ.symm, h, ?_⟩
    funext i; simp
  · rintro ⟨s, hs, rfl⟩
    exact (comp_perm_mem_permSet σ K s).mpr hs

theorem posScaleClosed_permSet (σ : Equiv.Perm (Fin m)) {K : Set (Fin m → α)}
    (h : PosScaleClosed K) : PosScaleClosed (permSet σ K) := by
  intro z hz c hc
  exact h _ hz c hc

/-- the nonnegative orthant -/
def nnOrthant : Set (Fin m → α) := {s | ∀ i, 0 ≤ s i}

/-- **the nonnegative orthant is invariant under every row permutation** -/
theorem permSet_nnOrthant (σ : Equiv.Perm (Fin m)) :
    permSet σ (nnOrthant : Set (Fin m → α)) = nnOrthant := by
  ext t
  simp only [permSet, nnOrthant, Set.mem_ofPred_eq, Function.comp_apply]
  constructor
  · intro h i; simpa using h (σ i)
  · intro h i; exact h _

theorem posScaleClosed_nnOrthant : PosScaleClosed (nnOrthant : Set (Fin m → α)) := by
  intro z hz c hc i
  exact mul_nonneg hc.le (hz i)

/-- a product cone with a nonnegative block on the rows `N`: nonnegative on `N`, and a condition
`R` that only reads the rows outside `N` -/
def nnBlockCone (N : Fin m → Prop) (R : (Fin m → α) → Prop) : Set (Fin m → α) :=
  {s | (∀ i, N i → 0 ≤ s i) ∧ R s}

/-- **rows permuted within a nonnegative cone leave the product cone invariant**: `σ` moves
only rows of the block `N`, the rest of the cone reads only rows outside `N` -/
theorem permSet_nnBlockCone (σ : Equiv.Perm (Fin m)) (N : Fin m → Prop)
    (R : (Fin m → α) → Prop) (hσ : ∀ i, ¬ N i → σ i = i)
    (hR : ∀ s t : Fin m → α, (∀ i, ¬ N i → s i = t i) → (R s ↔ R t)) :
    permSet σ (nnBlockCone N R) = nnBlockCone N R := by
  have hsymm : ∀ i, ¬ N i → σ.symm i = i := by
    intro i hi
    have := hσ i hi
    exact (Equiv.symm_apply_eq σ).mpr this.symm
  have hN : ∀ i, N i → N (σ i) := by
    intro i hi
    by_contra hc
    have h1 := hσ (σ i) hc
    have h2 : σ i = i := σ.injective h1
    rw [h2] at hc
    exact hc hi
  have hN' : ∀ i, N i → N (σ.symm i) := by
    intro i hi
    by_contra hc
    have h1 := hσ (σ.symm i) hc
    rw [Equiv.apply_symm_apply] at h1
    rw [← h1] at hc
    exact hc hi
  ext t
  simp only [permSet, nnBlockCone, Set.mem_ofPred_eq, Function.comp_apply]
  have hRt : R (t ∘ σ.symm) ↔ R t := by
    apply hR
    intro i hi
    simp only [Function.comp_apply, hsymm i hi]
  rw [hRt]
  constructor
  · rintro ⟨h1, h2⟩
    refine ⟨fun i hi => ?_, h2⟩
    simpa using h1 (σ i) (hN i hi)
  · rintro ⟨h1, h2⟩
    exact ⟨fun i hi => h1 _ (hN' i hi), h2⟩

theorem submatrix_mulVec_comp (A : Matrix (Fin m) (Fin n) α) (σ : Equiv.Perm (Fin m))
    (π : Equiv.Perm (Fin n)) (x : Fin n → α) :
    (A.submatrix σ π) *ᵥ (x ∘ π) = (A *ᵥ x) ∘ σ := by
  rw [submatrix_mulVec_equiv, comp_perm_symm_cancel]

theorem submatrix_transpose_mulVec_comp (A : Matrix (Fin m) (Fin n) α) (σ : Equiv.Perm (Fin m))
    (π : Equiv.Perm (Fin n)) (z : Fin m → α) :
    (A.submatrix σ π)ᵀ *ᵥ (z ∘ σ) = (Aᵀ *ᵥ z) ∘ π := by
  rw [transpose_submatrix, submatrix_mulVec_equiv, comp_perm_symm_cancel]

theorem comp_perm_eq_zero_iff {k : ℕ} (v : Fin k → α) (σ : Equiv.Perm (Fin k)) :
    v ∘ σ = 0 ↔ v = 0 := by
  constructor
  · intro h
    funext i
    have := congrFun h (σ.symm i)
    simpa using this
  · rintro rfl; rfl

/-- the primal residual of the permuted problem is the permuted primal residual -/
theorem rp_perm (A : Matrix (Fin m) (Fin n) α) (b : Fin m → α) (σ : Equiv.Perm (Fin m))
    (π : Equiv.Perm (Fin n)) (x : Fin n → α) (s : Fin m → α) :
    rp (A.submatrix σ π) (b ∘ σ) (x ∘ π) (s ∘ σ) = rp A b x s ∘ σ := by
  unfold rp
  rw [submatrix_mulVec_comp]
  rfl

/-- the dual residual of the permuted problem is the permuted dual residual -/
theorem rd_perm (P : Matrix (Fin n) (Fin n) α) (A : Matrix (Fin m) (Fin n) α) (q : Fin n → α)
    (σ : Equiv.Perm (Fin m)) (π : Equiv.Perm (Fin n)) (x : Fin n → α) (z : Fin m → α) :
    rd (P.submatrix π π) (A.submatrix σ π) (q ∘ π) (x ∘ π) (z ∘ σ) = rd P A q x z ∘ π := by
  unfold rd
  rw [submatrix_mulVec_comp, submatrix_transpose_mulVec_comp]
  rfl

theorem pobj_perm (P : Matrix (Fin n) (Fin n) α) (q : Fin n → α) (π : Equiv.Perm (Fin n))
    (x : Fin n → α) : pobj (P.submatrix π π) (q ∘ π) (x ∘ π) = pobj P q x := by
  unfold pobj
  rw [submatrix_mulVec_comp, comp_equiv_dotProduct_comp_equiv, comp_equiv_dotProduct_comp_equiv]

theorem dobj_perm (P : Matrix (Fin n) (Fin n) α) (b : Fin m → α) (σ : Equiv.Perm (Fin m))
    (π : Equiv.Perm (Fin n)) (x : Fin n → α) (z : Fin m → α) :
    dobj (P.submatrix π π) (b ∘ σ) (x ∘ π) (z ∘ σ) = dobj P b x z := by
  unfold dobj
  rw [submatrix_mulVec_comp, comp_equiv_dotProduct_comp_equiv, comp_equiv_dotProduct_comp_equiv]

/-- **Permutations map optimal points one-to-one.** -/
theorem isOptimal_perm (P : Matrix (Fin n) (Fin n) α) (q : Fin n → α)
    (A : Matrix (Fin m) (Fin n) α) (b : Fin m → α) (K Kd : Set (Fin m → α))
    (σ : Equiv.Perm (Fin m)) (π : Equiv.Perm (Fin n)) (x : Fin n → α) (s z : Fin m → α) :
    IsOptimal P q A b K Kd x s z ↔
      IsOptimal (P.submatrix π π) (q ∘ π) (A.submatrix σ π) (b ∘ σ) (permSet σ K) (permSet σ Kd)
        (x ∘ π) (s ∘ σ) (z ∘ σ) := by
  rw [isOptimal_iff_residuals, isOptimal_iff_residuals, rp_perm, rd_perm,
    comp_perm_eq_zero_iff, comp_perm_eq_zero_iff, comp_perm_mem_permSet, comp_perm_mem_permSet,
    comp_equiv_dotProduct_comp_equiv]

/-- permutations map primal-infeasibility certificates one-to-one -/
theorem isPrimalInfCert_perm (A : Matrix (Fin m) (Fin n) α) (b : Fin m → α)
    (Kd : Set (Fin m → α)) (σ : Equiv.Perm (Fin m)) (π : Equiv.Perm (Fin n)) (z : Fin m → α) :
    IsPrimalInfCert A b Kd z ↔
      IsPrimalInfCert (A.submatrix σ π) (b ∘ σ) (permSet σ Kd) (z ∘ σ) := by
  unfold IsPrimalInfCert
  rw [submatrix_transpose_mulVec_comp, comp_perm_eq_zero_iff, comp_perm_mem_permSet,
    comp_equiv_dotProduct_comp_equiv]

/-- permutations map dual-infeasibility certificates one-to-one -/
theorem isDualInfCert_perm (P : Matrix (Fin n) (Fin n) α) (q : Fin n → α)
    (A : Matrix (Fin m) (Fin n) α) (K : Set (Fin m → α)) (σ : Equiv.Perm (Fin m))
    (π : Equiv.Perm (Fin n)) (x : Fin n → α) (s : Fin m → α) :
    IsDualInfCert P q A K x s ↔
      IsDualInfCert (P.submatrix π π) (q ∘ π) (A.submatrix σ π) (permSet σ K) (x ∘ π) (s ∘ σ) := by
  unfold IsDualInfCert
  have h : (A.submatrix σ π) *ᵥ (x ∘ π) + s ∘ σ = (A *ᵥ x + s) ∘ σ := by
    rw [submatrix_mulVec_comp]; rfl
  rw [submatrix_mulVec_comp, h, comp_perm_eq_zero_iff, comp_perm_eq_zero_iff,
    comp_perm_mem_permSet, comp_equiv_dotProduct_comp_equiv]

/-! ### norms of a permuted vector -/

theorem sum_abs_comp_perm {k : ℕ} (r : Fin k → α) (σ : Equiv.Perm (Fin k)) :
    ∑ i, |(r ∘ σ) i| = ∑ i, |r i| :=
  Equiv.sum_comp σ (fun i => |r i|)

theorem sum_sq_comp_perm {k : ℕ} (r : Fin k → α) (σ : Equiv.Perm (Fin k)) :
    ∑ i, (r ∘ σ) i ^ 2 = ∑ i, r i ^ 2 :=
  Equiv.sum_comp σ (fun i => r i ^ 2)

/-- `‖r∘σ‖∞ ≤ T ↔ ‖r‖∞ ≤ T` for every `T` (also for `k = 0`) -/
theorem bound_abs_comp_perm {k : ℕ} (r : Fin k → α) (σ : Equiv.Perm (Fin k)) (T : α) :
    (∀ i, |(r ∘ σ) i| ≤ T) ↔ ∀ i, |r i| ≤ T := by
  constructor
  · intro h i; simpa using h (σ.symm i)
  · intro h i; exact h _

/-- `‖r∘σ‖∞ = ‖r‖∞` as a `sup'` over `Finset.univ` (non-empty index set) -/
theorem sup_abs_comp_perm {k : ℕ} (r : Fin k → α) (σ : Equiv.Perm (Fin k))
    (h : (Finset.univ : Finset (Fin k)).Nonempty) :
    Finset.univ.sup' h (fun i => |(r ∘ σ) i|) = Finset.univ.sup' h (fun i => |r i|) := by
  apply le_antisymm
  · apply Finset.sup'_le
    intro i _
    exact Finset.le_sup' (fun i => |r i|) (Finset.mem_univ (σ i))
  · apply Finset.sup'_le
    intro i _
    have h2 : |r i| = |(r ∘ σ) (σ.symm i)| := by simp
    rw [h2]
    exact Finset.le_sup' (fun i => |(r ∘ σ) i|) (Finset.mem_univ (σ.symm i))

/-! ### a run of a variant mapped back to the base problem (`map_back` of the harness) -/

/-- The variant problem is `(γ·P.submatrix π π, γ·q∘π, A.submatrix σ π, b∘σ)`; a point
`(x',s',z')` of it is mapped back to `(x'∘π⁻¹, s'∘σ⁻¹, γ⁻¹·z'∘σ⁻¹)`.  Then the base residuals and
objectives are: `rp = rp'∘σ⁻¹`, `rd = γ⁻¹·rd'∘π⁻¹`, `pobj = γ⁻¹ pobj'`, `dobj = γ⁻¹ dobj'`. -/
theorem map_back_quantities (P : Matrix (Fin n) (Fin n) α) (q : Fin n → α)
    (A : Matrix (Fin m) (Fin n) α) (b : Fin m → α) (σ : Equiv.Perm (Fin m))
    (π : Equiv.Perm (Fin n)) (γ : α) (hγ : 0 < γ) (x' : Fin n → α) (s' z' : Fin m → α) :
    rp A b (x' ∘ π.symm) (s' ∘ σ.symm)
        = rp (A.submatrix σ π) (b ∘ σ) x' s' ∘ σ.symm
    ∧ rd P A q (x' ∘ π.symm) (γ⁻¹ • (z' ∘ σ.symm))
        = γ⁻¹ • (rd (γ • P.submatrix π π) (A.submatrix σ π) (γ • (q ∘ π)) x' z' ∘ π.symm)
    ∧ pobj P q (x' ∘ π.symm) = γ⁻¹ * pobj (γ • P.submatrix π π) (γ • (q ∘ π)) x'
    ∧ dobj P b (x' ∘ π.symm) (γ⁻¹ • (z' ∘ σ.symm))
        = γ⁻¹ * dobj (γ • P.submatrix π π) (b ∘ σ) x' z' := by
  have hx : (x' ∘ π.symm) ∘ π = x' := by funext i; simp
  have hs : (s' ∘ σ.symm) ∘ σ = s' := by funext i; simp
  have hz : (z' ∘ σ.symm) ∘ σ = z' := by funext i; simp
  have hzz : z' = γ • ((γ⁻¹ • (z' ∘ σ.symm)) ∘ σ) := by
    funext i; simp [mul_inv_cancel_left₀ hγ.ne']
  have hγγ : γ⁻¹ * γ = 1 := inv_mul_cancel₀ hγ.ne'
  refine ⟨?_, ?_, ?_, ?_⟩
  · have := rp_perm A b σ π (x' ∘ π.symm) (s' ∘ σ.symm)
    rw [hx, hs] at this
    rw [this, comp_perm_symm_cancel]
  · have h1 := rd_perm P A q σ π (x' ∘ π.symm) (γ⁻¹ • (z' ∘ σ.symm))
    have h2 := rd_scale (P.submatrix π π) (A.submatrix σ π) (q ∘ π) ((x' ∘ π.symm) ∘ π)
      ((γ⁻¹ • (z' ∘ σ.symm)) ∘ σ) γ
    rw [hx] at h1 h2
    rw [← hzz] at h2
    rw [h2, h1]
    funext l
    simp only [Pi.smul_apply, Function.comp_apply, Equiv.apply_symm_apply, smul_eq_mul]
    rw [← mul_assoc, hγγ, one_mul]
  · have h1 := pobj_perm P q π (x' ∘ π.symm)
    rw [hx] at h1
    rw [pobj_scale, h1, ← mul_assoc, hγγ, one_mul]
  · have h1 := dobj_perm P b σ π (x' ∘ π.symm) (γ⁻¹ • (z' ∘ σ.symm))
    have h2 := dobj_scale (P.submatrix π π) (b ∘ σ) ((x' ∘ π.symm) ∘ π)
      ((γ⁻¹ • (z' ∘ σ.symm)) ∘ σ) γ
    rw [hx] at h1 h2
    rw [← hzz] at h2
    rw [h2, h1, ← mul_assoc, hγγ, one_mul]

/-- the promises of a verdict on the variant, in base units: `Tp` unchanged, `Td/γ`, `tg/γ`
(exactly the `tp`, `td / c`, `tg / c` of `map_back`) -/
theorem map_back_bounds (P : Matrix (Fin n) (Fin n) α) (q : Fin n → α)
    (A : Matrix (Fin m) (Fin n) α) (b : Fin m → α) (σ : Equiv.Perm (Fin m))
    (π : Equiv.Perm (Fin n)) (γ : α) (hγ : 0 < γ) (x' : Fin n → α) (s' z' : Fin m → α)
    (Tp Td tg : α) (hp : ∀ k, |rp (A.submatrix σ π) (b ∘ σ) x' s' k| ≤ Tp)
    (hd : ∀ l, |rd (γ • P.submatrix π π) (A.submatrix σ π) (γ • (q ∘ π)) x' z' l| ≤ Td)
    (hg : pobj (γ • P.submatrix π π) (γ • (q ∘ π)) x' - dobj (γ • P.submatrix π π) (b ∘ σ) x' z' ≤ tg) :
    (∀ k, |rp A b (x' ∘ π.symm) (s' ∘ σ.symm) k| ≤ Tp)
    ∧ (∀ l, |rd P A q (x' ∘ π.symm) (γ⁻¹ • (z' ∘ σ.symm)) l| ≤ Td / γ)
    ∧ pobj P q (x' ∘ π.symm) - dobj P b (x' ∘ π.symm) (γ⁻¹ • (z' ∘ σ.symm)) ≤ tg / γ := by
  obtain ⟨h1, h2, h3, h4⟩ := map_back_quantities P q A b σ π γ hγ x' s' z'
  have hi : 0 < γ⁻¹ := inv_pos.mpr hγ
  refine ⟨?_, ?_, ?_⟩
  · intro k; rw [h1]; exact hp _
  · intro l
    rw [h2]
    simp only [Pi.smul_apply, Function.comp_apply, smul_eq_mul, abs_mul, abs_of_pos hi]
    rw [div_eq_inv_mul]
    exact mul_le_mul_of_nonneg_left (hd _) hi.le
  · rw [h3, h4, ← mul_sub, div_eq_inv_mul]
    exact mul_le_mul_of_nonneg_left hg hi.le

end Clarabel.Lemmas
