/-
  Panic-freedom of the whole-solver model (C04) — the `DefaultKKTSystem` stage
  (`solve_constant_rhs`, `update`, `solve`, `solve_initial_point`) on top of the linear solver
  object (through `KktTotal2`), the composite cone (`ConeStage`) and `_csc_quad_form`
  (`TopStage.quadForm`).

  All structural ([S]).
-/
import ClarabelProofs.Lemmas.SolverModelNoPanicVars

namespace Clarabel.Solver
open Clarabel Info Residuals

set_option linter.unusedSectionVars false
set_option linter.unusedVariables false

variable {α : Type}

/-- the seven work vectors of `DefaultKKTSystem` have the problem's dimensions -/
structure KSized (n m : Nat) (K : KktSys α) : Prop where
  x1 : K.x1.size = n
  z1 : K.z1.size = m
  x2 : K.x2.size = n
  z2 : K.z2.size = m
  workx : K.workx.size = n
  workz : K.workz.size = m
  workConic : K.workConic.size = m

section
variable [Add α] [Sub α] [Mul α] [Div α] [Neg α] [OfNat α 0] [OfNat α 1] [OfNat α 2]
  [OfNat α 100] [OfNat α 1000] [LT α] [DecidableLT α] [LE α] [DecidableLE α] [BEq α] [FloatLike α]

theorem KSized.of_shape {n m : Nat} {K K' : KktSys α} (h : KSized n m K) (hs : KShape K K') :
    KSized n m K' :=
  ⟨hs.x1 ▸ h.x1, hs.z1 ▸ h.z1, hs.x2 ▸ h.x2, hs.z2 ▸ h.z2, hs.workx ▸ h.workx, hs.workz ▸ h.workz,
    hs.workConic ▸ h.workConic⟩

/-- totality of the sparse kernels and of the numerics at the top of a pass
(`SolverModelNoPanicTop.lean`) -/
structure TopStage (α : Type) [Add α] [Sub α] [Mul α] [Div α] [Neg α] [OfNat α 0] [OfNat α 1] [OfNat α 2]
    [OfNat α 100] [OfNat α 1000] [LT α] [DecidableLT α] [LE α] [DecidableLE α] [BEq α] [FloatLike α] :
    Prop where
  topNumerics : ∀ (S : SolverSt α) (iter : Nat), DataOK S.data →
    VarsSized S.data.n S.data.m S.variables → ResidSized S.data.n S.data.m S.residuals →
    ∃ r, topNumerics S iter = .ok r
  quadForm : ∀ (P : Csc α) (y x : Array α), C16.Canonical P → P.m = P.n → P.isTriu = true →
    x.size = P.n → y.size = P.n → ∃ v, KktSystem.quadForm P y x = .ok v

/-- `setrhs; solve` in the form the `do` blocks use it -/
theorem KktTotal2.solveOk {KIw KIs : KktSolver α → Prop} {specs : List Kkt.ConeSpec} {n m : Nat}
    {st : LinSettings α} (T : KktTotal2 KIw KIs specs n m st) {K : KktSolver α} {rx rz : Array α}
    (hK : KIs K) (hx : rx.size = n) (hz : rz.size = m) :
    OkAnd (K.setrhs rx rz) (fun K1 => OkAnd (K1.solve st)
      (fun r => r.2.1.size = n ∧ r.2.2.1.size = m ∧ KIs r.2.2.2)) := by
  obtain ⟨r, hr, h1, h2, h3⟩ := T.solve K rx rz hK hx hz
  obtain ⟨K1, hK1, hr⟩ := bind_ok_inv hr
  exact ⟨K1, hK1, r, hr, h1, h2, h3⟩

/-- [S] `solve_constant_rhs` -/
theorem solveConstantRhs_ok {KIw KIs : KktSolver α → Prop} {specs : List Kkt.ConeSpec} {n m : Nat}
    {st : LinSettings α} (T : KktTotal2 KIw KIs specs n m st) {S : KktSys α} {data : ProblemData α}
    (hS : KSized n m S) (hK : KIs S.kktsolver) (hq : data.q.size = n) (hb : data.b.size = m) :
    OkAnd (S.solveConstantRhs data st) (fun r => KSized n m r.2 ∧ KIs r.2.kktsolver) := by
  have key : OkAnd (S.solveConstantRhs data st) (fun r => KIs r.2.kktsolver) := by
    unfold KktSys.solveConstantRhs
    dsimp only
    -- since /repo 1706c1f: `workx.scalarop_from(|q| -q, &data.q)` (a `zip`, no length assert)
    refine (T.solveOk hK ((scalaropFrom_size _ _ _).trans hS.workx) hb).bind fun K1 h1 => ?_
    refine h1.bind fun r hr => ?_
    obtain ⟨ok, lx, lz, K2⟩ := r
    obtain ⟨hlx, hlz, hK2⟩ := hr
    dsimp only at hlx hlz hK2 ⊢
    cases ok with
    | false => exact .pure hK2
    | true =>
      simp only [↓reduceIte]
      refine (copyInto_ok "x2" (hS.x2.trans hlx.symm)).bind fun x2 _ => ?_
      refine (copyInto_ok "z2" (hS.z2.trans hlz.symm)).bind fun z2 _ => ?_
      exact .pure hK2
  obtain ⟨r, hr, hK'⟩ := key
  exact ⟨r, hr, hS.of_shape (solveConstantRhs_shape hr), hK'⟩

/-- [S] `KKTSystem::update` -/
theorem kktSysUpdate_ok {KIw KIs : KktSolver α → Prop} {n m : Nat}
    {st : LinSettings α} {S : KktSys α} {data : ProblemData α} {cones : List (ConeSt α)}
    (T : KktTotal2 KIw KIs (cones.map ConeSt.kktSpec) n m st)
    (hS : KSized n m S) (hK : KIw S.kktsolver) (hc : ConesFull cones)
    (hq : data.q.size = n) (hb : data.b.size = m) :
    OkAnd (S.update data cones st) (fun r => KSized n m r.2 ∧ KIs r.2.kktsolver) := by
  unfold KktSys.update
  obtain ⟨r, hr, hKs⟩ := T.update S.kktsolver cones hK hc rfl
  rw [bind_ok_of hr]
  obtain ⟨ok, K⟩ := r
  dsimp only at hKs ⊢
  cases ok with
  | false =>
    simp only [Bool.not_false, ↓reduceIte]
    exact .pure ⟨⟨hS.x1, hS.z1, hS.x2, hS.z2, hS.workx, hS.workz, hS.workConic⟩, hKs⟩
  | true =>
    simp only [Bool.not_true, Bool.false_eq_true, ↓reduceIte]
    exact solveConstantRhs_ok (S := { S with kktsolver := K }) T
      ⟨hS.x1, hS.z1, hS.x2, hS.z2, hS.workx, hS.workz, hS.workConic⟩ hKs hq hb

/-- [S] `KKTSystem::solve` -/
theorem kktSysSolve_ok (CS : ConeStage α) (TS : TopStage α) {KIw KIs : KktSolver α → Prop}
    {specs : List Kkt.ConeSpec} {n m : Nat}
    {st : LinSettings α} (T : KktTotal2 KIw KIs specs n m st) {S : KktSys α} {data : ProblemData α}
    {lhs rhs vars : Vars α} {cones : List (ConeSt α)} (dir : StepDirection)
    (hd : DataOK data) (hn : data.n = n) (hm' : data.m = m)
    (hS : KSized n m S) (hK : KIs S.kktsolver) (hc : ConesFull cones) (hm : numelAll cones = m)
    (hlhs : VarsSized n m lhs) (hrhs : VarsSized n m rhs) (hvars : VarsSized n m vars) :
    OkAnd (S.solve lhs rhs data vars cones dir st)
      (fun r => VarsSized n m r.2.1 ∧ KSized n m r.2.2 ∧ KIs r.2.2.kktsolver) := by
  have hPn : data.P.n = n := hd.P_n.trans hn
  have hPm : data.P.m = data.P.n := hd.P_m.trans hd.P_n.symm
  have qf : ∀ y x : Array α, y.size = n → x.size = n → ∃ v, KktSystem.quadForm data.P y x = .ok v :=
    fun y x hy hx => TS.quadForm data.P y x hd.P_canon.canon hPm hd.P_triu (hx.trans hPn.symm)
      (hy.trans hPn.symm)
  have key : OkAnd (S.solve lhs rhs data vars cones dir st) (fun r => KIs r.2.2.kktsolver) := by
    unfold KktSys.solve
    refine (copyInto_ok "workx" (hS.workx.trans hrhs.x.symm)).bind fun workx hwx => ?_
    subst hwx
    extract_lets jp
    have hjp : ∀ dsConst : Array α, dsConst.size = m → OkAnd (jp dsConst) (fun r => KIs r.2.2.kktsolver) := by
      intro dsConst hdc
      unfold jp
      clear jp
      refine (waxpbyE_ok "workz" (by rw [hdc, hS.workz]) (by rw [hrhs.z, hS.workz])).bind fun workz hwz => ?_
      refine (T.solveOk hK hrhs.x (hwz.trans hS.workz)).bind fun K1 h1 => ?_
      refine h1.bind fun r hr => ?_
      obtain ⟨ok, lx, lz, K2⟩ := r
      obtain ⟨hlx, hlz, hK2⟩ := hr
      dsimp only at hlx hlz hK2 ⊢
      cases ok with
      | false =>
        simp only [Bool.not_false, ↓reduceIte]
        exact .pure hK2
      | true =>
        simp only [Bool.not_true, Bool.false_eq_true, ↓reduceIte]
        refine (copyInto_ok "x1" (hS.x1.trans hlx.symm)).bind fun x1 hx1 => ?_
        refine (copyInto_ok "z1" (hS.z1.trans hlz.symm)).bind fun z1 hz1 => ?_
        subst hx1 hz1
        refine (axpbyE_ok "ξ" (hrhs.x.trans hvars.x.symm)).bind fun ξ hξ => ?_
        have hξn : ξ.size = n := hξ.trans hrhs.x
        refine (OkAnd.of_exists (qf ξ x1 hξn hlx)).bind fun ξPx1 _ => ?_
        refine (axpbyE_ok "ξ_minus_x2" (hξn.trans hS.x2.symm)).bind fun ξm hξm => ?_
        have hξmn : ξm.size = n := hξm.trans hξn
        refine (OkAnd.of_exists (qf ξm ξm hξmn hξmn)).bind fun qfξm _ => ?_
        refine (OkAnd.of_exists (qf S.x2 S.x2 hS.x2 hS.x2)).bind fun qfx2 _ => ?_
        refine (waxpbyE_ok "lhs.x" (hlhs.x.trans hlx.symm) (hlhs.x.trans hS.x2.symm)).bind fun dx _ => ?_
        refine (waxpbyE_ok "lhs.z" (hlhs.z.trans hlz.symm) (hlhs.z.trans hS.z2.symm)).bind fun dz hdz => ?_
        have hmul : OkAnd (mulHs cones lhs.s dz) (fun o => o.size = m) := by
          obtain ⟨o, ho⟩ := CS.mulHs cones lhs.s dz hc (by rw [hm]; exact hlhs.s)
            (by rw [hm, hdz]; exact hlhs.z)
          exact ⟨o, ho, (mulHs_size hc.ok ho).trans hlhs.s⟩
        refine hmul.bind fun hs hhs => ?_
        refine (axpbyE_ok "lhs.s" (hhs.trans hdc.symm)).bind fun ds _ => ?_
        exact .pure hK2
    cases dir with
    | affine =>
      dsimp only
      refine (copyInto_ok "work_conic" (hS.workConic.trans hvars.s.symm)).bind fun v hv => ?_
      exact hjp v (by rw [hv]; exact hvars.s)
    | combined =>
      dsimp only
      obtain ⟨o, ho⟩ := CS.dsFromDzOffset cones S.workConic rhs.s vars.z hc (by rw [hm]; exact hS.workConic)
        (by rw [hm]; exact hrhs.s) (by rw [hm]; exact hvars.z)
      rw [bind_ok_of ho]
      exact hjp o ((dsFromDzOffset_size hc.ok ho).trans hS.workConic)
  obtain ⟨r, hr, hK'⟩ := key
  obtain ⟨h1, h2⟩ := kktSolve_shape hc.ok hr
  exact ⟨r, hr, hlhs.of_shape h1, hS.of_shape h2, hK'⟩

/-- [S] `solve_initial_point` -/
theorem solveInitialPoint_ok {KIw KIs : KktSolver α → Prop} {specs : List Kkt.ConeSpec} {n m : Nat}
    {st : LinSettings α} (T : KktTotal2 KIw KIs specs n m st) {S : KktSys α} {data : ProblemData α}
    {vars : Vars α} (hS : KSized n m S) (hK : KIs S.kktsolver) (hq : data.q.size = n)
    (hb : data.b.size = m) (hvars : VarsSized n m vars) :
    OkAnd (S.solveInitialPoint vars data st)
      (fun r => VarsSized n m r.2.1 ∧ KSized n m r.2.2 ∧ KIs r.2.2.kktsolver) := by
  have hneg : ∀ s : Array α, (Vec.negate s).size = s.size := fun s => Array.size_map ..
  have key : ∀ vars : Vars α, VarsSized n m vars →
      OkAnd (S.solveInitialPointCore vars data st) (fun r => KIs r.2.2.kktsolver) := by
    intro vars hvars
    unfold KktSys.solveInitialPointCore
    split
    · -- LP initialization
      dsimp only
      refine (copyInto_ok "workz" (hS.workz.trans hb.symm)).bind fun workz hwz => ?_
      subst hwz
      refine (T.solveOk hK (by rw [Array.size_map]; exact hS.workx) hb).bind fun K1 h1 => ?_
      refine h1.bind fun r hr => ?_
      obtain ⟨ok, lx, lz, K2⟩ := r
      obtain ⟨hlx, hlz, hK2⟩ := hr
      dsimp only at hlx hlz hK2 ⊢
      cases ok with
      | false =>
        simp only [Bool.false_eq_true, ↓reduceIte, Bool.not_false]
        refine (OkAnd.pure (Q := fun _ => True) trivial).bind fun p _ => ?_
        exact .pure hK2
      | true =>
        simp only [↓reduceIte, Bool.not_true, Bool.false_eq_true]
        refine (copyInto_ok "variables.x" (hvars.x.trans hlx.symm)).bind fun x hx => ?_
        refine (copyInto_ok "variables.s" (hvars.s.trans hlz.symm)).bind fun s hs => ?_
        subst hx hs
        simp only [pure_bind]
        -- since /repo 1706c1f: `workx.scalarop_from(|q| -q, &data.q)`
        refine (T.solveOk hK2 ((scalaropFrom_size _ _ _).trans (by rw [Array.size_map]; exact hS.workx))
          (by rw [Array.size_map]; exact hb)).bind fun K3 h3 => ?_
        refine h3.bind fun r2 hr2 => ?_
        obtain ⟨ok2, lx2, lz2, K4⟩ := r2
        obtain ⟨hlx2, hlz2, hK4⟩ := hr2
        dsimp only at hlx2 hlz2 hK4 ⊢
        cases ok2 with
        | false =>
          simp only [Bool.false_eq_true, ↓reduceIte]
          exact .pure hK4
        | true =>
          simp only [↓reduceIte]
          refine (copyInto_ok "variables.z" (hvars.z.trans hlz2.symm)).bind fun z _ => ?_
          exact .pure hK4
    · -- QP initialization
      rw [if_neg (by simp [hS.workx, hq])]
      refine (copyInto_ok "workz" (hS.workz.trans hb.symm)).bind fun workz hwz => ?_
      subst hwz
      refine (T.solveOk hK ((hneg _).trans hq) hb).bind fun K1 h1 => ?_
      refine h1.bind fun r hr => ?_
      obtain ⟨ok, lx, lz, K2⟩ := r
      obtain ⟨hlx, hlz, hK2⟩ := hr
      dsimp only at hlx hlz hK2 ⊢
      cases ok with
      | false =>
        simp only [Bool.false_eq_true, ↓reduceIte, pure_bind]
        rw [if_neg (by simp [hvars.s, hvars.z])]
        exact .pure hK2
      | true =>
        simp only [↓reduceIte]
        refine (copyInto_ok "variables.x" (hvars.x.trans hlx.symm)).bind fun x hx => ?_
        refine (copyInto_ok "variables.z" (hvars.z.trans hlz.symm)).bind fun z hz => ?_
        subst hx hz
        simp only [pure_bind]
        rw [if_neg (by simp [hvars.s, hlz])]
        exact .pure hK2
  obtain ⟨r, hr, hK'⟩ := key (zeroXSZ vars)
    ⟨(zeroXSZ_size_x vars).trans hvars.x, (zeroXSZ_size_s vars).trans hvars.s, (zeroXSZ_size_z vars).trans hvars.z⟩
  rw [← KktSys.solveInitialPoint_eq_core] at hr
  obtain ⟨h1, h2⟩ := solveInitialPoint_shape hr
  exact ⟨r, hr, hvars.of_shape h1, hS.of_shape h2, hK'⟩

end

end Clarabel.Solver
