/-
  C16, dense matrix model: `pack_triu` and the symmetric column "norms" (no absolute value).
-/
import ClarabelProofs.Lemmas.DenseSubs
import ClarabelProofs.Lemmas.ScalarInst

namespace Clarabel.Dense
open Clarabel

variable {α : Type}

theorem upperPositions_length_two (n : Nat) : 2 * (upperPositions n).length = n * (n + 1) := by
  induction n with
  | zero => rfl
  | succ n ih =>
    unfold upperPositions at ih ⊢
    rw [List.range_succ, List.flatMap_append, List.length_append]
    simp only [List.flatMap_cons, List.flatMap_nil, List.append_nil, List.length_map,
      List.length_range]
    rw [Nat.mul_add, ih]; ring

theorem upperPositions_length (n : Nat) : (upperPositions n).length = triangularNumber n := by
  unfold triangularNumber
  have := upperPositions_length_two n
  omega

theorem upperPositions_mem (n : Nat) (p : Nat × Nat) : p ∈ upperPositions n ↔ p.1 ≤ p.2 ∧ p.2 < n := by
  obtain ⟨r, c⟩ := p
  simp only [upperPositions, List.mem_flatMap, List.mem_range, List.mem_map, Prod.mk.injEq]
  constructor
  · rintro ⟨c', hc', r', hr', rfl, rfl⟩; omega
  · rintro ⟨h1, h2⟩; exact ⟨c, h2, r, by omega, rfl, rfl⟩

/-- [S] `pack_triu`: the target must have `triangular_number(n)` entries and receives the upper
triangle of the (square, well-formed) source column by column -/
theorem packTriu_spec (A : Dense α) (v : Array α) (hA : WF A) (hsq : A.m = A.n)
    (hv : v.size = triangularNumber A.m) :
    ∃ w, packTriu A v = .ok w ∧ w.size = triangularNumber A.m ∧
      ∀ k (hk : k < (upperPositions A.m).length),
        w[k]? = at? A (upperPositions A.m)[k].1 (upperPositions A.m)[k].2 := by
  obtain ⟨os, h1, h2, h3⟩ := mapM_exists (fun p : Nat × Nat => get .N A p.1 p.2) (upperPositions A.m) (by
    intro p hp
    obtain ⟨hp1, hp2⟩ := (upperPositions_mem _ _).mp hp
    obtain ⟨x, hx, _⟩ := get_ok .N A hA (by simp) (i := p.1) (j := p.2) (by simp only [nrowsV]; omega)
      (by simp only [ncolsV, ← hsq]; exact hp2)
    exact ⟨x, hx⟩)
  refine ⟨os.toArray, ?_, by simp [h2, upperPositions_length], ?_⟩
  · unfold packTriu
    have : (v.size != triangularNumber (ncolsV .S A)) = false := by simp [ncolsV, hv]
    simp only [this, Bool.false_eq_true, ↓reduceIte]
    show ((upperPositions A.m).mapM _ >>= fun l => pure l.toArray) = _
    rw [h1]; rfl
  · intro k hk
    obtain ⟨hk', hg⟩ := h3 k hk
    have hat : at? A (upperPositions A.m)[k].1 (upperPositions A.m)[k].2 = some os[k] :=
      (get_eq_ok_iff .N A _ _ _).mp hg
    rw [hat]
    simp [hk']

theorem packTriu_panic (A : Dense α) (v : Array α) (hv : v.size ≠ triangularNumber A.m) :
    packTriu A v = .error (.panic "pack_triu: assert len") := by
  unfold packTriu
  have : (v.size != triangularNumber (ncolsV .S A)) = true := by simp [ncolsV, hv]
  simp only [this, ↓reduceIte]
  rfl

/-- [F] the recorded observation on `col_norms_sym`: no absolute value is taken — the 1×1
matrix `[-3]` has "norm" `0` (its CSC twin returns `3`) -/
theorem colNormsSym_no_abs : colNormsSym (⟨1, 1, #[-3]⟩ : Dense ℝ) #[0] = .ok #[0] := by
  have h : max (0 : ℝ) (-3) = 0 := by norm_num
  simp [colNormsSym, colNormsSymNoReset, upperPositions, get, indexLinear, getE, setE, h]
  rfl

end Clarabel.Dense
