/-
  C01/C02 round 3 — from the ARRAY level of the executable model to the dense level.

  * `updateK_dense`     : `Residuals.updateK` (the residual update with C16's kernels) does not
                          panic on well-shaped input and returns `Dense.rx/rz/rxInf/rzInf`,
                          `P·x` and the three dot products of `problemOf P q A b`
                          (imports `C16.symv_spec`, `C16.gemvT_spec`, `C16.gemvN_spec`);
  * `info_update_dense` : what `Info.update` assigns *is* `resPrimal`, `resDual`, `costPrimal`,
                          `costDual`, `resPrimalInf`, `resDualInf` of `InfoCert.lean`;
  * `unscale_dense`     : what `Variables.unscale` returns *is* `unX`, `unS`, `unZ`.
-/
import ClarabelModel.ResidualsK
import ClarabelModel.Unscale
import ClarabelProofs.Lemmas.InfoUser
import ClarabelProofs.Lemmas.InfoCert
import ClarabelProofs.Lemmas.InfoConv
import ClarabelProofs.Lemmas.VecKernels
import ClarabelProofs.Lemmas.ScalarInst
import ClarabelProofs.Props.C16

set_option linter.unusedSectionVars false
set_option linter.unusedSimpArgs false

namespace Clarabel.InfoUser
open Clarabel Clarabel.Dense Finset Residuals Info

variable {α : Type}

/-! ### arrays as functions -/

theorem getD_eq_of_lt (x : Array α) (i : ℕ) (a b : α) (h : i < x.size) : x.getD i a = x.getD i b := by
  simp [Array.getD, h]

theorem getD_of_getElem? (x : Array α) (i : ℕ) (a v : α) (h : x[i]? = some v) : x.getD i a = v := by
  simp [Array.getD_eq_getD_getElem?, h]

theorem filterMap_range_eq_map {β : Type} (n : ℕ) (f : ℕ → Option β) (g : ℕ → β)
    (h : ∀ i, i < n → f i = some (g i)) :
    (List.range n).filterMap f = (List.range n).map g := by
  rw [← List.filterMap_eq_map]
  apply List.filterMap_congr
  intro i hi
  simp [h i (List.mem_range.mp hi)]

section hadamard
variable [Mul α] [OfNat α 0]

/-- `Unscale.hadamardInPlace` as a map over the index range -/
theorem unscale_hadamard_eq (x y : Array α) :
    Unscale.hadamardInPlace x y = ((List.range x.size).map (fun i =>
      match y[i]? with
      | some yi => x.getD i 0 * yi
      | none => x.getD i 0)).toArray := by
  unfold Unscale.hadamardInPlace
  congr 1
  apply filterMap_range_eq_map
  intro i hi
  rw [Array.getElem?_eq_getElem hi]
  cases hy : y[i]? <;> simp [Array.getD, hi]

theorem unscale_hadamard_size (x y : Array α) : (Unscale.hadamardInPlace x y).size = x.size := by
  rw [unscale_hadamard_eq]; simp

theorem unscale_hadamard_getD (x y : Array α) (i : ℕ) (d : α) (hx : i < x.size) (hy : i < y.size) :
    (Unscale.hadamardInPlace x y).getD i 0 = x.getD i 0 * y.getD i d := by
  rw [unscale_hadamard_eq]
  simp [Array.getD, hx, hy]
end hadamard


section resid
variable [Field α] [DecidableEq α]

theorem dot_vecFn (x y : Array α) (k : ℕ) (hx : x.size = k) (hy : y.size = k) :
    Vec.dot x y = dot (vecFn x k) (vecFn y k) := by
  rw [Vec.dot_eq_sum, hx, hy, Nat.min_self, Finset.sum_range]
  rfl

/-- **`Residuals.updateK` computes the dense residuals.**  On canonical `P` (n×n), `A` (m×n)
and vectors of matching lengths `updateK` does not panic, and what it returns is — read as
functions on `Fin n` / `Fin m` — exactly `Dense.rx`, `rz`, `rxInf`, `rzInf`, `P x` and the
three dot products of the dense problem `problemOf P q A b` (imports `C16.symv_spec`,
`C16.gemvT_spec`, `C16.gemvN_spec`). -/
theorem updateK_dense (r0 : Resid α) (v : Vars α) (P A : Csc α) (q b : Array α) (n m : ℕ)
    (hP : C16.Canonical P) (hA : C16.Canonical A)
    (hPn : P.n = n) (hPm : P.m = n) (hAn : A.n = n) (hAm : A.m = m)
    (hq : q.size = n) (hb : b.size = m)
    (hx : v.x.size = n) (hs : v.s.size = m) (hz : v.z.size = m)
    (h0Px : r0.Px.size = n) (h0rx : r0.rx.size = n) (h0rz : r0.rz.size = m)
    (h0rxi : r0.rx_inf.size = n) (h0rzi : r0.rz_inf.size = m) :
    ∃ r, Residuals.updateK r0 v { P := P, q := q, A := A, b := b } = .ok r
      ∧ r.rx.size = n ∧ r.rz.size = m ∧ r.rx_inf.size = n ∧ r.rz_inf.size = m ∧ r.Px.size = n
      ∧ vecFn r.rx n = rx (problemOf P q A b n m) (vecFn v.x n) (vecFn v.z m) v.τ
      ∧ vecFn r.rz m = rz (problemOf P q A b n m) (vecFn v.x n) (vecFn v.s m) v.τ
      ∧ vecFn r.rx_inf n = rxInf (problemOf P q A b n m) (vecFn v.z m)
      ∧ vecFn r.rz_inf m = rzInf (problemOf P q A b n m) (vecFn v.x n) (vecFn v.s m)
      ∧ vecFn r.Px n = mulV (problemOf P q A b n m).P (vecFn v.x n)
      ∧ r.dot_qx = dot (problemOf P q A b n m).q (vecFn v.x n)
      ∧ r.dot_bz = dot (problemOf P q A b n m).b (vecFn v.z m)
      ∧ r.dot_xPx = dot (vecFn v.x n) (mulV (problemOf P q A b n m).P (vecFn v.x n)) := by
  subst hPn
  obtain ⟨Px, e1, s1, g1⟩ := C16.symv_spec P r0.Px v.x 1 0 hP hPm hx h0Px
  obtain ⟨rxi, e2, s2, g2⟩ := C16.gemvT_spec A r0.rx_inf v.z (-1) 0 hA (by rw [hz, hAm]) (by rw [h0rxi, hAn])
  obtain ⟨rzi, e3, s3, g3⟩ := C16.gemvN_spec A v.s v.x 1 1 hA (by rw [hx, hAn]) (by rw [hs, hAm])
  rw [hAn] at s2 g2 g3
  rw [hAm] at s3 g2 g3
  -- pointwise values
  have vPx : ∀ i : Fin P.n, Px.getD i 0 = mulV (problemOf P q A b P.n m).P (vecFn v.x P.n) i := by
    intro i
    rw [getD_of_getElem? _ _ _ _ (g1 i i.2)]
    simp only [zero_mul, zero_add, one_mul, mulV, problemOf, symFn, vecFn]
    rw [Finset.sum_range (fun j => (if (i:ℕ) = j then P.toDense i i else P.toDense i j + P.toDense j i) * v.x.getD j 0)]
  have vrxi : ∀ j : Fin P.n, rxi.getD j 0 = rxInf (problemOf P q A b P.n m) (vecFn v.z m) j := by
    intro j
    rw [getD_of_getElem? _ _ _ _ (g2 j j.2)]
    simp only [zero_mul, zero_add, neg_mul, one_mul, rxInf, mulVT, problemOf, matFn, vecFn]
    rw [Finset.sum_range (fun i => A.toDense i j * v.z.getD i 0)]
  have vrzi : ∀ i : Fin m, rzi.getD i 0 = rzInf (problemOf P q A b P.n m) (vecFn v.x P.n) (vecFn v.s m) i := by
    intro i
    rw [getD_of_getElem? _ _ _ _ (g3 i i.2)]
    simp only [one_mul, rzInf, mulV, problemOf, matFn, vecFn]
    rw [Finset.sum_range (fun j => A.toDense i j * v.x.getD j 0), add_comm]
  have hsz0 : (Vec.waxpby (-1) Px (-v.τ) q).size = P.n := by rw [Vec.waxpby_size, s1, hq, Nat.min_self]
  refine ⟨{ rx := Vec.axpby 1 rxi 1 (Vec.waxpby (-1) Px (-v.τ) q)
            rz := Vec.waxpby 1 rzi (-v.τ) b
            rτ := Vec.dot q v.x + Vec.dot b v.z + v.κ + Vec.dot v.x Px / v.τ
            rx_inf := rxi, rz_inf := rzi, dot_qx := Vec.dot q v.x, dot_bz := Vec.dot b v.z,
            dot_sz := Vec.dot v.s v.z, dot_xPx := Vec.dot v.x Px, Px := Px }, ?_, ?_, ?_, s2, s3, s1,
          ?_, ?_, ?_, ?_, ?_, ?_, ?_, ?_⟩
  · unfold Residuals.updateK
    simp only [e1, e2, e3, bind, Except.bind, pure, Except.pure, waxpbyInto, axpbyInto, h0rzi, hs,
      h0rx, h0rz, s1, s2, s3, hq, hb, hsz0, bne_self_eq_false, Bool.or_self, Bool.false_eq_true,
      ↓reduceIte, throw, throwThe, MonadExceptOf.throw]
  · rw [Vec.axpby_size, hsz0, s2, Nat.min_self]
  · rw [Vec.waxpby_size, s3, hb, Nat.min_self]
  · funext j
    have h1 : (j:ℕ) < rxi.size := by rw [s2]; exact j.2
    have h2 : (j:ℕ) < (Vec.waxpby (-1) Px (-v.τ) q).size := by rw [hsz0]; exact j.2
    have h3 : (j:ℕ) < Px.size := by rw [s1]; exact j.2
    have h4 : (j:ℕ) < q.size := by rw [hq]; exact j.2
    show (Vec.axpby 1 rxi 1 (Vec.waxpby (-1) Px (-v.τ) q)).getD j 0 = _
    rw [getD_of_getElem? _ _ _ _ (Vec.axpby_get 1 1 rxi _ j h1 h2)]
    have e : (Vec.waxpby (-1) Px (-v.τ) q)[(j:ℕ)] = -1 * Px[(j:ℕ)] + -v.τ * q[(j:ℕ)] := by
      have := Vec.waxpby_get (-1) (-v.τ) Px q j h3 h4
      rw [Array.getElem?_eq_getElem h2] at this
      exact Option.some.inj this
    rw [e]
    have a1 : rxi[(j:ℕ)] = rxi.getD j 0 := by simp [Array.getD, h1]
    have a2 : Px[(j:ℕ)] = Px.getD j 0 := by simp [Array.getD, h3]
    have a3 : q[(j:ℕ)] = q.getD j 0 := by simp [Array.getD, h4]
    rw [a1, a2, a3, vrxi j, vPx j]
    simp only [rx, rxInf, problemOf, vecFn]
    ring
  · funext i
    have h1 : (i:ℕ) < rzi.size := by rw [s3]; exact i.2
    have h4 : (i:ℕ) < b.size := by rw [hb]; exact i.2
    show (Vec.waxpby 1 rzi (-v.τ) b).getD i 0 = _
    rw [getD_of_getElem? _ _ _ _ (Vec.waxpby_get 1 (-v.τ) rzi b i h1 h4)]
    have a1 : rzi[(i:ℕ)] = rzi.getD i 0 := by simp [Array.getD, h1]
    have a3 : b[(i:ℕ)] = b.getD i 0 := by simp [Array.getD, h4]
    rw [a1, a3, vrzi i]
    simp only [rz, rzInf, problemOf, vecFn]
    ring
  · funext j; exact vrxi j
  · funext i; exact vrzi i
  · funext i; exact vPx i
  · exact dot_vecFn q v.x P.n hq hx
  · exact dot_vecFn b v.z m hb hz
  · show Vec.dot v.x Px = _
    rw [dot_vecFn v.x Px P.n hx s1]
    congr 1
    funext i; exact vPx i

end resid

section real
variable {n m : ℕ}

theorem normScaled_vecFn (x w : Array ℝ) (k : ℕ) (hx : x.size = k) (hw : w.size = k) :
    Vec.normScaled x w = nrm (fun i : Fin k => vecFn x k i * vecFn w k i) := by
  rw [Vec.normScaled_real_eq, hx, hw, Nat.min_self, Finset.sum_range]
  rfl

/-- how an `Info.Equil` record (arrays) represents a dense `Scaling`: right lengths, the
entries of `d`, `e`, and `dinv = 1/d`, `einv = 1/e` entry by entry -/
structure Represents (eq : Info.Equil ℝ) (sc : Scaling ℝ n m) : Prop where
  szd : eq.d.size = n
  szdinv : eq.dinv.size = n
  sze : eq.e.size = m
  szeinv : eq.einv.size = m
  d : ∀ j : Fin n, eq.d.getD j 0 = sc.d j
  dinv : ∀ j : Fin n, eq.dinv.getD j 0 = 1 / sc.d j
  e : ∀ i : Fin m, eq.e.getD i 0 = sc.e i
  einv : ∀ i : Fin m, eq.einv.getD i 0 = 1 / sc.e i
  c : eq.c = sc.c

/-- the residual object holds the dense residuals of the problem `ph` (the internal one) -/
structure HoldsResiduals (r : Resid ℝ) (ph : Problem ℝ n m) (xh : Fin n → ℝ) (sh zh : Fin m → ℝ)
    (τ : ℝ) : Prop where
  szrx : r.rx.size = n
  szrz : r.rz.size = m
  szrxi : r.rx_inf.size = n
  szrzi : r.rz_inf.size = m
  szPx : r.Px.size = n
  rx : vecFn r.rx n = Dense.rx ph xh zh τ
  rz : vecFn r.rz m = Dense.rz ph xh sh τ
  rxi : vecFn r.rx_inf n = rxInf ph zh
  rzi : vecFn r.rz_inf m = rzInf ph xh sh
  Px : vecFn r.Px n = mulV ph.P xh
  qx : r.dot_qx = dot ph.q xh
  bz : r.dot_bz = dot ph.b zh
  xPx : r.dot_xPx = dot xh (mulV ph.P xh)

/-- **`Info.update` assigns the dense figures.**  If the arrays of `eq` represent the
scaling `sc` and the residual object holds the dense residuals of the internal problem
`p.scaled sc` at the iterate `v`, then the fields `Info.update` assigns are exactly
`resPrimal`, `resDual`, `costPrimal`, `costDual`, `resPrimalInf`, `resDualInf` of
`InfoCert.lean` (the quantities `C01.certificate`, `C02.primal_cert`, `C02.dual_cert` are
about), and `gap_abs`, `gap_rel` are formed from the costs as documented. -/
theorem info_update_dense (p : Problem ℝ n m) (sc : Scaling ℝ n m) (eq : Info.Equil ℝ)
    (hrep : Represents eq sc) (v : Vars ℝ) (r : Resid ℝ)
    (hx : v.x.size = n) (hs : v.s.size = m) (hz : v.z.size = m)
    (hres : HoldsResiduals r (p.scaled sc) (vecFn v.x n) (vecFn v.s m) (vecFn v.z m) v.τ)
    (i i' : InfoS ℝ) (normq normb : ℝ)
    (h : Info.update i eq normq normb v r = .ok i') :
    i'.res_primal = resPrimal p sc (vecFn v.x n) (vecFn v.s m) v.τ normb
    ∧ i'.res_dual = resDual p sc (vecFn v.x n) (vecFn v.z m) v.τ normq
    ∧ i'.cost_primal = costPrimal p sc (vecFn v.x n) v.τ
    ∧ i'.cost_dual = costDual p sc (vecFn v.x n) (vecFn v.z m) v.τ
    ∧ i'.res_primal_inf = resPrimalInf p sc (vecFn v.z m)
    ∧ i'.res_dual_inf = resDualInf p sc (vecFn v.x n) (vecFn v.s m)
    ∧ i'.gap_abs = |i'.cost_primal - i'.cost_dual|
    ∧ i'.gap_rel = i'.gap_abs / max 1 (min |i'.cost_primal| |i'.cost_dual|)
    ∧ i'.ktratio = v.κ * (1 / v.τ)
    ∧ i'.status = i.status := by
  have hf := Info.update_fields i i' eq normq normb v r h
  simp only at hf
  obtain ⟨f1, f2, f3, f4, f5, f6, f7, f8, f9, f10, -⟩ := hf
  -- the eight scaled norms
  have nx : Vec.normScaled v.x eq.d = nrm (fun j : Fin n => vecFn v.x n j * sc.d j) := by
    rw [normScaled_vecFn v.x eq.d n hx hrep.szd]
    congr 1; funext j; show _ * eq.d.getD j 0 = _; rw [hrep.d j]
  have nz : Vec.normScaled v.z eq.e = nrm (fun i : Fin m => vecFn v.z m i * sc.e i) := by
    rw [normScaled_vecFn v.z eq.e m hz hrep.sze]
    congr 1; funext i; show _ * eq.e.getD i 0 = _; rw [hrep.e i]
  have ns : Vec.normScaled v.s eq.einv = nrm (fun i : Fin m => vecFn v.s m i * (1 / sc.e i)) := by
    rw [normScaled_vecFn v.s eq.einv m hs hrep.szeinv]
    congr 1; funext i; show _ * eq.einv.getD i 0 = _; rw [hrep.einv i]
  have nrz : Vec.normScaled r.rz eq.einv
      = nrm (fun i : Fin m => Dense.rz (p.scaled sc) (vecFn v.x n) (vecFn v.s m) v.τ i * (1 / sc.e i)) := by
    rw [normScaled_vecFn r.rz eq.einv m hres.szrz hrep.szeinv, hres.rz]
    congr 1; funext i; show _ * eq.einv.getD i 0 = _; rw [hrep.einv i]
  have nrx : Vec.normScaled r.rx eq.dinv
      = nrm (fun j : Fin n => Dense.rx (p.scaled sc) (vecFn v.x n) (vecFn v.z m) v.τ j * (1 / sc.d j)) := by
    rw [normScaled_vecFn r.rx eq.dinv n hres.szrx hrep.szdinv, hres.rx]
    congr 1; funext j; show _ * eq.dinv.getD j 0 = _; rw [hrep.dinv j]
  have nrxi : Vec.normScaled r.rx_inf eq.dinv
      = nrm (fun j : Fin n => rxInf (p.scaled sc) (vecFn v.z m) j * (1 / sc.d j)) := by
    rw [normScaled_vecFn r.rx_inf eq.dinv n hres.szrxi hrep.szdinv, hres.rxi]
    congr 1; funext j; show _ * eq.dinv.getD j 0 = _; rw [hrep.dinv j]
  have nrzi : Vec.normScaled r.rz_inf eq.einv
      = nrm (fun i : Fin m => rzInf (p.scaled sc) (vecFn v.x n) (vecFn v.s m) i * (1 / sc.e i)) := by
    rw [normScaled_vecFn r.rz_inf eq.einv m hres.szrzi hrep.szeinv, hres.rzi]
    congr 1; funext i; show _ * eq.einv.getD i 0 = _; rw [hrep.einv i]
  have nPx : Vec.normScaled r.Px eq.dinv
      = nrm (fun j : Fin n => mulV (p.scaled sc).P (vecFn v.x n) j * (1 / sc.d j)) := by
    rw [normScaled_vecFn r.Px eq.dinv n hres.szPx hrep.szdinv, hres.Px]
    congr 1; funext j; show _ * eq.dinv.getD j 0 = _; rw [hrep.dinv j]
  refine ⟨?_, ?_, ?_, ?_, ?_, ?_, f7, f8, f9, f10⟩
  · rw [f5, nrz, nx, ns]; rfl
  · rw [f6, nrx, nx, nz, hrep.c]; rfl
  · rw [f1, hres.qx, hres.xPx, hrep.c]; rfl
  · rw [f2, hres.bz, hres.xPx, hrep.c]; rfl
  · rw [f3, nrxi, nz, hrep.c]; rfl
  · rw [f4, nPx, nx, nrzi, ns]; rfl

/-- **`Variables.unscale` returns the dense un-scaled point**: with `σ = κ` for an
infeasibility status and `σ = τ` otherwise, the arrays `unscale` returns are `unX`, `unS`,
`unZ` of `InfoDense.lean`. -/
theorem unscale_dense (sc : Scaling ℝ n m) (eq : Info.Equil ℝ) (hrep : Represents eq sc)
    (v : Vars ℝ) (hx : v.x.size = n) (hs : v.s.size = m) (hz : v.z.size = m) (inf : Bool) :
    let σ := if inf then v.κ else v.τ
    let out := Unscale.unscale v eq inf
    out.x.size = n ∧ out.s.size = m ∧ out.z.size = m
    ∧ vecFn out.x n = unX sc σ (vecFn v.x n)
    ∧ vecFn out.s m = unS sc σ (vecFn v.s m)
    ∧ vecFn out.z m = unZ sc σ (vecFn v.z m) := by
  intro σ out
  have hσ : (if inf then 1 / v.κ else 1 / v.τ) = 1 / σ := by
    cases inf <;> rfl
  refine ⟨?_, ?_, ?_, ?_, ?_, ?_⟩
  · show (Vec.scale (Unscale.hadamardInPlace v.x eq.d) _).size = n
    simp [Vec.scale, unscale_hadamard_size, hx]
  · show (Vec.scale (Unscale.hadamardInPlace v.s eq.einv) _).size = m
    simp [Vec.scale, unscale_hadamard_size, hs]
  · show (Vec.scale (Unscale.hadamardInPlace v.z eq.e) _).size = m
    simp [Vec.scale, unscale_hadamard_size, hz]
  · funext j
    have h1 : (j:ℕ) < v.x.size := by rw [hx]; exact j.2
    have h2 : (j:ℕ) < eq.d.size := by rw [hrep.szd]; exact j.2
    show (Vec.scale (Unscale.hadamardInPlace v.x eq.d) (if inf then 1 / v.κ else 1 / v.τ)).getD j 0 = _
    rw [hσ]
    have : (Vec.scale (Unscale.hadamardInPlace v.x eq.d) (1 / σ)).getD j 0
        = (Unscale.hadamardInPlace v.x eq.d).getD j 0 * (1 / σ) := by
      simp [Vec.scale, Array.getD, unscale_hadamard_size, h1]
    rw [this, unscale_hadamard_getD v.x eq.d j 0 h1 h2, hrep.d j]
    rfl
  · funext i
    have h1 : (i:ℕ) < v.s.size := by rw [hs]; exact i.2
    have h2 : (i:ℕ) < eq.einv.size := by rw [hrep.szeinv]; exact i.2
    show (Vec.scale (Unscale.hadamardInPlace v.s eq.einv) (if inf then 1 / v.κ else 1 / v.τ)).getD i 0 = _
    rw [hσ]
    have : (Vec.scale (Unscale.hadamardInPlace v.s eq.einv) (1 / σ)).getD i 0
        = (Unscale.hadamardInPlace v.s eq.einv).getD i 0 * (1 / σ) := by
      simp [Vec.scale, Array.getD, unscale_hadamard_size, h1]
    rw [this, unscale_hadamard_getD v.s eq.einv i 0 h1 h2, hrep.einv i]
    rfl
  · funext i
    have h1 : (i:ℕ) < v.z.size := by rw [hz]; exact i.2
    have h2 : (i:ℕ) < eq.e.size := by rw [hrep.sze]; exact i.2
    show (Vec.scale (Unscale.hadamardInPlace v.z eq.e) ((if inf then 1 / v.κ else 1 / v.τ) * (1 / eq.c))).getD i 0 = _
    rw [hσ]
    have : (Vec.scale (Unscale.hadamardInPlace v.z eq.e) (1 / σ * (1 / eq.c))).getD i 0
        = (Unscale.hadamardInPlace v.z eq.e).getD i 0 * (1 / σ * (1 / eq.c)) := by
      simp [Vec.scale, Array.getD, unscale_hadamard_size, h1]
    rw [this, unscale_hadamard_getD v.z eq.e i 0 h1 h2, hrep.e i, hrep.c]
    rfl

end real

end Clarabel.InfoUser
