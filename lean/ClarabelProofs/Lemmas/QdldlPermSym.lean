/-
  Helper lemmas for C12: the counting sort of `_permute_symmetric_inner`
  (`countInto`, `cumsum`, `assignPositions`, `scatter`).
-/
import ClarabelModel.Qdldl

namespace Clarabel.Qdldl

theorem getD_modify (rs : Array Nat) (d c : Nat) :
    (rs.modify d (· + 1)).getD c 0 =
      if c = d ∧ d < rs.size then rs.getD c 0 + 1 else rs.getD c 0 := by
  simp only [Array.getD_eq_getD_getElem?, Array.getElem?_modify]
  by_cases h : d = c
  · subst h
    by_cases hs : d < rs.size
    · simp [hs]
    · simp [hs]
  · have h' : ¬ c = d := fun e => h e.symm
    simp [h, h']

/-- the free blocks `[rs c, rs c + count c rest)` of different columns do not overlap -/
def BlocksDisjoint (rs : Array Nat) (rest : List Nat) : Prop :=
  ∀ c c' x, c ≠ c' → rs.getD c 0 ≤ x → x < rs.getD c 0 + rest.count c →
    rs.getD c' 0 ≤ x → x < rs.getD c' 0 + rest.count c' → False

/-- pass 3 of the counting sort hands out pairwise different slots, each inside the block
of its column -/
theorem assignPositions_spec (rest : List Nat) (rs : Array Nat)
    (hlt : ∀ d ∈ rest, d < rs.size) (hdis : BlocksDisjoint rs rest) :
    (assignPositions rest rs).Nodup ∧ (assignPositions rest rs).length = rest.length ∧
      ∀ k (hk : k < rest.length), ∀ p, (assignPositions rest rs)[k]? = some p →
        rs.getD rest[k] 0 ≤ p ∧ p < rs.getD rest[k] 0 + rest.count rest[k] := by
  induction rest generalizing rs with
  | nil => simp [assignPositions]
  | cons d r ih =>
    have hd : d < rs.size := hlt d (by simp)
    have hcnt : ∀ c, (d :: r).count c = r.count c + (if c = d then 1 else 0) := by
      intro c
      rw [List.count_cons]
      by_cases h : c = d
      · simp [h]
      · have : ¬ d = c := fun e => h e.symm
        simp [h, this]
    have hrs' : ∀ c, (rs.modify d (· + 1)).getD c 0 = if c = d then rs.getD c 0 + 1 else rs.getD c 0 := by
      intro c
      rw [getD_modify]
      by_cases h : c = d <;> simp [h, hd]
    -- the new blocks are sub-blocks of the old ones
    have hsub : ∀ c x, (rs.modify d (· + 1)).getD c 0 ≤ x →
        x < (rs.modify d (· + 1)).getD c 0 + r.count c →
        rs.getD c 0 ≤ x ∧ x < rs.getD c 0 + (d :: r).count c := by
      intro c x h1 h2
      rw [hrs'] at h1 h2
      rw [hcnt]
      by_cases h : c = d
      · simp only [h, ↓reduceIte] at h1 h2 ⊢; omega
      · simp only [h, ↓reduceIte] at h1 h2 ⊢; omega
    have hdis' : BlocksDisjoint (rs.modify d (· + 1)) r := by
      intro c c' x hne h1 h2 h3 h4
      have a := hsub c x h1 h2
      have b := hsub c' x h3 h4
      exact hdis c c' x hne a.1 a.2 b.1 b.2
    have hlt' : ∀ e ∈ r, e < (rs.modify d (· + 1)).size := by
      intro e he; simpa using hlt e (by simp [he])
    obtain ⟨ihnd, ihlen, ihblk⟩ := ih (rs.modify d (· + 1)) hlt' hdis'
    unfold assignPositions
    refine ⟨?_, by simp [ihlen], ?_⟩
    · refine List.nodup_cons.mpr ⟨?_, ihnd⟩
      intro hmem
      obtain ⟨k, hk, hkp⟩ := List.getElem_of_mem hmem
      have hk' : k < r.length := by rw [← ihlen]; exact hk
      have hb := ihblk k hk' (rs.getD d 0) (by rw [List.getElem?_eq_getElem hk, hkp])
      by_cases hc : r[k] = d
      · rw [hc, hrs'] at hb; simp only [↓reduceIte] at hb; omega
      · have hb' := hsub r[k] (rs.getD d 0) hb.1 hb.2
        have hd1 : (d :: r).count d ≥ 1 := by rw [hcnt]; simp
        exact hdis d r[k] (rs.getD d 0) (fun e => hc e.symm) (Nat.le_refl _) (by omega) hb'.1 hb'.2
    · intro k hk p hp
      cases k with
      | zero =>
        simp only [List.getElem?_cons_zero, Option.some.injEq] at hp
        subst hp
        simp only [List.getElem_cons_zero]
        have hd1 : (d :: r).count d ≥ 1 := by rw [hcnt]; simp
        omega
      | succ k =>
        simp only [List.getElem?_cons_succ] at hp
        simp only [List.getElem_cons_succ]
        have hk' : k < r.length := by simpa using hk
        have hb := ihblk k hk' p hp
        exact hsub r[k] p hb.1 hb.2

/-! ### pass 1 and pass 2 -/

theorem countInto_fold (dests : List Nat) (a : Array Nat) (c : Nat) :
    (dests.foldl (fun ne d => ne.modify d (· + 1)) a).getD c 0 =
      a.getD c 0 + (if c < a.size then dests.count c else 0) := by
  induction dests generalizing a with
  | nil => simp
  | cons d r ih =>
    rw [List.foldl_cons, ih, getD_modify, Array.size_modify, List.count_cons]
    by_cases hc : c < a.size
    · by_cases h : c = d
      · subst h; simp [hc]; omega
      · have : ¬ d = c := fun e => h e.symm
        simp [hc, h, this]
    · by_cases h : c = d
      · subst h; simp [hc]
      · simp [hc, h]

theorem countInto_getD (n : Nat) (dests : List Nat) (c : Nat) :
    (countInto n dests).getD c 0 = if c < n then dests.count c else 0 := by
  unfold countInto
  rw [countInto_fold]
  by_cases h : c < n <;> simp [h]

theorem countInto_size (n : Nat) (dests : List Nat) : (countInto n dests).size = n := by
  unfold countInto
  have : ∀ a : Array Nat, (dests.foldl (fun ne d => ne.modify d (· + 1)) a).size = a.size := by
    induction dests with
    | nil => intro a; rfl
    | cons d r ih => intro a; rw [List.foldl_cons, ih]; simp
  rw [this]; simp

theorem cumsum_fold (l : List Nat) (acc : Array Nat) (hne : 0 < acc.size) :
    (l.foldl (fun (acc : Array Nat) c => acc.push (acc.back! + c)) acc).size = acc.size + l.length ∧
    (∀ i, i < acc.size →
      (l.foldl (fun (acc : Array Nat) c => acc.push (acc.back! + c)) acc)[i]? = acc[i]?) ∧
    (∀ i (hi : i < l.length),
      (l.foldl (fun (acc : Array Nat) c => acc.push (acc.back! + c)) acc).getD (acc.size + i) 0 =
        (l.foldl (fun (acc : Array Nat) c => acc.push (acc.back! + c)) acc).getD (acc.size + i - 1) 0 + l[i]) := by
  induction l generalizing acc with
  | nil => simp
  | cons c r ih =>
    have hs : (acc.push (acc.back! + c)).size = acc.size + 1 := by simp
    obtain ⟨h1, h2, h3⟩ := ih (acc.push (acc.back! + c)) (by omega)
    rw [List.foldl_cons]
    refine ⟨by rw [h1, hs]; simp; omega, ?_, ?_⟩
    · intro i hi
      rw [h2 i (by omega), Array.getElem?_push_lt hi]
      simp [hi]
    · intro i hi
      cases i with
      | zero =>
        have e1 := h2 acc.size (by omega)
        have e2 := h2 (acc.size - 1) (by omega)
        have hb : acc.back! = acc[acc.size - 1]?.getD 0 := by
          simp [Array.back!, Array.getElem!_eq_getD, Array.getD_eq_getD_getElem?]
        have p1 : (acc.push (acc.back! + c))[acc.size]? = some (acc.back! + c) := by simp
        have p2 : (acc.push (acc.back! + c))[acc.size - 1]? = acc[acc.size - 1]? := by
          rw [Array.getElem?_push]; simp; omega
        simp only [Nat.add_zero, Array.getD_eq_getD_getElem?, List.getElem_cons_zero]
        rw [e1, e2, p1, p2, hb]; simp
      | succ i =>
        have := h3 i (by simpa using hi)
        rw [hs] at this
        simp only [List.getElem_cons_succ]
        have e : acc.size + (i + 1) = acc.size + 1 + i := by omega
        rw [e, this]

/-- `Pc = cumsum counts`: `Pc[0] = 0`, `Pc[c+1] = Pc[c] + counts[c]` -/
theorem cumsum_spec (counts : Array Nat) :
    (cumsum counts).size = counts.size + 1 ∧ (cumsum counts).getD 0 0 = 0 ∧
      ∀ c, c < counts.size → (cumsum counts).getD (c + 1) 0 = (cumsum counts).getD c 0 + counts.getD c 0 := by
  unfold cumsum
  obtain ⟨h1, h2, h3⟩ := cumsum_fold counts.toList #[0] (by simp)
  refine ⟨by rw [h1]; simp; omega, ?_, ?_⟩
  · have := h2 0 (by simp)
    rw [Array.getD_eq_getD_getElem?, this]; rfl
  · intro c hc
    have := h3 c (by simpa using hc)
    simp only [List.size_toArray, List.length_cons, List.length_nil, Nat.zero_add] at this
    have e : 1 + c = c + 1 := by omega
    rw [e] at this
    rw [this]
    simp [hc]

theorem cumsum_mono (counts : Array Nat) (c c' : Nat) (h : c ≤ c') (hc' : c' ≤ counts.size) :
    (cumsum counts).getD c 0 ≤ (cumsum counts).getD c' 0 := by
  induction c' with
  | zero => have : c = 0 := by omega
            subst this; exact Nat.le_refl _
  | succ k ih =>
    by_cases hk : c = k + 1
    · subst hk; exact Nat.le_refl _
    · have := ih (by omega) (by omega)
      rw [(cumsum_spec counts).2.2 k (by omega)]
      omega

/-- the blocks `[Pc[c], Pc[c] + count c)` handed to pass 3 are disjoint -/
theorem blocksDisjoint_init (n : Nat) (dests : List Nat) (hlt : ∀ d ∈ dests, d < n) :
    BlocksDisjoint ((cumsum (countInto n dests)).extract 0 n) dests := by
  have hsz := countInto_size n dests
  obtain ⟨hps, _, hrec⟩ := cumsum_spec (countInto n dests)
  rw [hsz] at hps hrec
  have hget : ∀ c, c < n → ((cumsum (countInto n dests)).extract 0 n).getD c 0 = (cumsum (countInto n dests)).getD c 0 := by
    intro c hc
    simp only [Array.getD_eq_getD_getElem?, Array.getElem?_extract]
    have : c < min n (cumsum (countInto n dests)).size := by rw [hps]; omega
    simp [this]
  have hpos : ∀ c, 0 < dests.count c → c < n := by
    intro c h
    exact hlt c (List.count_pos_iff.mp h)
  have hblock : ∀ c, c < n → (cumsum (countInto n dests)).getD c 0 + dests.count c = (cumsum (countInto n dests)).getD (c + 1) 0 := by
    intro c hc
    rw [hrec c hc, countInto_getD]; simp [hc]
  have main : ∀ c c' x, c < c' → c' < n →
      x < (cumsum (countInto n dests)).getD c 0 + dests.count c →
      (cumsum (countInto n dests)).getD c' 0 ≤ x → False := by
    intro c c' x hcc hc' h1 h2
    rw [hblock c (by omega)] at h1
    have := cumsum_mono (countInto n dests) (c + 1) c' (by omega) (by rw [hsz]; omega)
    omega
  intro c c' x hne h1 h2 h3 h4
  have hc : c < n := hpos c (by omega)
  have hc' : c' < n := hpos c' (by omega)
  rw [hget c hc] at h1 h2
  rw [hget c' hc'] at h3 h4
  rcases Nat.lt_or_gt_of_ne hne with h | h
  · exact main c c' x h hc' h2 h3
  · exact main c' c x h hc h4 h1

/-! ### scatter -/

theorem scatter_size {β : Type} (init : Array β) (pos : List Nat) (vals : List β) :
    (scatter init pos vals).size = init.size := by
  unfold scatter
  generalize pos.zip vals = l
  induction l generalizing init with
  | nil => rfl
  | cons x r ih => rw [List.foldl_cons, ih]; simp

/-- a slot that is not written keeps its value -/
theorem scatter_not_mem {β : Type} (init : Array β) (pos : List Nat) (vals : List β) (p : Nat)
    (h : p ∉ pos) : (scatter init pos vals)[p]? = init[p]? := by
  unfold scatter
  induction pos generalizing init vals with
  | nil => simp
  | cons q r ih =>
    cases vals with
    | nil => simp
    | cons v vs =>
      simp only [List.mem_cons, not_or] at h
      simp only [List.zip_cons_cons, List.foldl_cons]
      rw [ih _ _ h.2, Array.getElem?_setIfInBounds_ne (fun e => h.1 e.symm)]

/-- with pairwise different slots, slot `pos[k]` holds `vals[k]` -/
theorem scatter_get {β : Type} (init : Array β) (pos : List Nat) (vals : List β)
    (hnd : pos.Nodup) (hlen : pos.length = vals.length) (hlt : ∀ p ∈ pos, p < init.size)
    (k : Nat) (hk : k < pos.length) :
    (scatter init pos vals)[pos[k]]? = some (vals[k]'(by omega)) := by
  induction pos generalizing init vals k with
  | nil => simp at hk
  | cons q r ih =>
    cases vals with
    | nil => simp at hlen
    | cons v vs =>
      have hq := List.nodup_cons.mp hnd
      have e : scatter init (q :: r) (v :: vs) = scatter (init.setIfInBounds q v) r vs := by
        simp [scatter]
      rw [e]
      cases k with
      | zero =>
        simp only [List.getElem_cons_zero]
        rw [scatter_not_mem _ _ _ _ hq.1]
        have : q < init.size := hlt q (by simp)
        simp [this]
      | succ k =>
        simp only [List.getElem_cons_succ]
        exact ih _ vs hq.2 (by simpa using hlen) (by intro p hp; simpa using hlt p (by simp [hp])) k
          (by simpa using hk)

/-- two arrays of the same size that agree at every index are equal -/
theorem scatter_ext {β : Type} (a b : Array β) (hs : a.size = b.size) (h : ∀ i : Nat, a[i]? = b[i]?) : a = b := by
  apply Array.ext hs
  intro i h1 h2
  have := h i
  simpa [h1, h2] using this

/-- updating value `k` before the scatter = updating slot `pos[k]` after it -/
theorem scatter_set {β : Type} (init : Array β) (pos : List Nat) (vals : List β)
    (hnd : pos.Nodup) (hlen : pos.length = vals.length) (hlt : ∀ p ∈ pos, p < init.size)
    (k : Nat) (hk : k < pos.length) (v : β) :
    scatter init pos (vals.set k v) = (scatter init pos vals).setIfInBounds pos[k] v := by
  apply scatter_ext
  · simp [scatter_size]
  · intro i
    by_cases hi : i ∈ pos
    · obtain ⟨j, hj, hji⟩ := List.getElem_of_mem hi
      subst hji
      have hl' : pos.length = (vals.set k v).length := by simpa using hlen
      rw [scatter_get init pos (vals.set k v) hnd hl' hlt j hj]
      by_cases hjk : j = k
      · subst hjk
        have : pos[j] < (scatter init pos vals).size := by rw [scatter_size]; exact hlt _ (List.getElem_mem _)
        simp [this]
      · have hne : pos[k] ≠ pos[j] := by
          intro e
          exact hjk ((List.getElem_inj hnd).mp e.symm)
        rw [Array.getElem?_setIfInBounds_ne hne, scatter_get init pos vals hnd hlen hlt j hj]
        simp [Ne.symm hjk]
    · have hne : pos[k] ≠ i := fun e => hi (e ▸ List.getElem_mem _)
      rw [scatter_not_mem _ _ _ _ hi, Array.getElem?_setIfInBounds_ne hne, scatter_not_mem _ _ _ _ hi]

/-! ### the counting sort as a whole -/

theorem countP_lt_succ (l : List Nat) (c : Nat) :
    l.countP (fun d => decide (d < c + 1)) = l.countP (fun d => decide (d < c)) + l.count c := by
  induction l with
  | nil => simp
  | cons x r ih =>
    rw [List.countP_cons, List.countP_cons, List.count_cons, ih]
    by_cases h1 : x < c
    · have : x < c + 1 := by omega
      have h3 : ¬ x = c := by omega
      simp [h1, this, h3]; omega
    · by_cases h2 : x = c
      · subst h2; simp; omega
      · have : ¬ x < c + 1 := by omega
        simp [h1, this, h2]

theorem cumsum_countInto (n : Nat) (dests : List Nat) (c : Nat) (hc : c ≤ n) :
    (cumsum (countInto n dests)).getD c 0 = dests.countP (fun d => decide (d < c)) := by
  obtain ⟨_, h0, hrec⟩ := cumsum_spec (countInto n dests)
  rw [countInto_size] at hrec
  induction c with
  | zero => rw [h0]; simp
  | succ k ih =>
    rw [hrec k (by omega), ih (by omega), countP_lt_succ, countInto_getD]
    simp [show k < n by omega]

/-- the slots handed out by the counting sort: pairwise different, one per entry, all
inside `0 … N-1`, and slot `k` lies in the block `[Pc[d_k], Pc[d_k + 1])` of its column -/
theorem countingSort_spec (n : Nat) (dests : List Nat) (hlt : ∀ d ∈ dests, d < n) :
    let Pc := cumsum (countInto n dests)
    let pos := assignPositions dests (Pc.extract 0 n)
    pos.Nodup ∧ pos.length = dests.length ∧ (∀ p ∈ pos, p < dests.length) ∧
      ∀ k (hk : k < dests.length), ∀ p, pos[k]? = some p →
        Pc.getD dests[k] 0 ≤ p ∧ p < Pc.getD (dests[k] + 1) 0 := by
  intro Pc pos
  have hsz := countInto_size n dests
  obtain ⟨hps, _, hrec⟩ := cumsum_spec (countInto n dests)
  rw [hsz] at hps hrec
  have hsize : (Pc.extract 0 n).size = n := by
    simp only [Array.size_extract, Pc, hps]; omega
  obtain ⟨hnd, hlen, hblk⟩ := assignPositions_spec dests (Pc.extract 0 n)
    (by intro d hd; rw [hsize]; exact hlt d hd) (blocksDisjoint_init n dests hlt)
  have hget : ∀ c, c < n → (Pc.extract 0 n).getD c 0 = Pc.getD c 0 := by
    intro c hc
    simp only [Array.getD_eq_getD_getElem?, Array.getElem?_extract]
    have : c < min n Pc.size := by simp only [Pc, hps]; omega
    simp [this]
  have hblk' : ∀ k (hk : k < dests.length), ∀ p, pos[k]? = some p →
      Pc.getD dests[k] 0 ≤ p ∧ p < Pc.getD (dests[k] + 1) 0 := by
    intro k hk p hp
    have hd : dests[k] < n := hlt _ (List.getElem_mem _)
    have := hblk k hk p hp
    rw [hget _ hd] at this
    refine ⟨this.1, ?_⟩
    have e : Pc.getD (dests[k] + 1) 0 = Pc.getD dests[k] 0 + dests.count dests[k] := by
      simp only [Pc]; rw [hrec _ hd, countInto_getD]; simp [hd]
    omega
  refine ⟨hnd, hlen, ?_, hblk'⟩
  intro p hp
  obtain ⟨k, hk, hkp⟩ := List.getElem_of_mem hp
  have hk' : k < dests.length := by rw [← hlen]; exact hk
  have hd : dests[k] < n := hlt _ (List.getElem_mem _)
  have hb := (hblk' k hk' p (by rw [List.getElem?_eq_getElem hk, hkp])).2
  have hmono := cumsum_mono (countInto n dests) (dests[k] + 1) n (by omega) (by rw [hsz]; omega)
  have htot : Pc.getD n 0 = dests.length := by
    simp only [Pc]; rw [cumsum_countInto n dests n (Nat.le_refl _)]
    rw [List.countP_eq_length]
    intro d hd; simpa using hlt d hd
  simp only [Pc] at hb htot
  omega

/-- destination columns of the entries (as computed by `permutePattern`) -/
def destsOf (n : Nat) (colptr rowval iperm : Array Nat) : List Nat :=
  List.zipWith (fun r c => max (iperm.getD r 0) (iperm.getD c 0)) rowval.toList (colOf colptr n)

theorem permutePattern_ok (n : Nat) (colptr rowval iperm Pc Pr : Array Nat) (pos : List Nat)
    (h : permutePattern n colptr rowval iperm = .ok (Pc, Pr, pos)) :
    pos.Nodup ∧ pos.length = rowval.size ∧ (∀ p ∈ pos, p < rowval.size) ∧
      Pc = cumsum (countInto n (destsOf n colptr rowval iperm)) ∧
      (∀ k (hk : k < (destsOf n colptr rowval iperm).length), ∀ p, pos[k]? = some p →
        Pc.getD (destsOf n colptr rowval iperm)[k] 0 ≤ p ∧
          p < Pc.getD ((destsOf n colptr rowval iperm)[k] + 1) 0) := by
  unfold permutePattern at h
  simp only [bind, Except.bind, pure, Except.pure, throw, throwThe, MonadExceptOf.throw] at h
  split at h
  · cases h
  · split at h
    · cases h
    · rename_i h2
      have hlen : (colOf colptr n).length = rowval.size := by simpa using h2
      split at h
      · cases h
      · rename_i h3
        have hall : ∀ d ∈ destsOf n colptr rowval iperm, d < n := by
          intro d hd
          have : (destsOf n colptr rowval iperm).all (fun d => decide (d < n)) = true := by
            simpa [destsOf] using h3
          simpa using List.all_eq_true.mp this d hd
        have hdl : (destsOf n colptr rowval iperm).length = rowval.size := by
          simp [destsOf, hlen]
        obtain ⟨s1, s2, s3, s4⟩ := countingSort_spec n (destsOf n colptr rowval iperm) hall
        simp only [Except.ok.injEq, Prod.mk.injEq] at h
        obtain ⟨e1, _, e3⟩ := h
        subst e1 e3
        rw [hdl] at s2 s3
        exact ⟨s1, s2, s3, rfl, s4⟩

/-- unfolding of a successful `permute_symmetric` -/
theorem permuteSymmetric_ok {α : Type} [OfNat α 0] (A : Csc α) (iperm : Array Nat) (P : Csc α) (map : Array Nat)
    (h : permuteSymmetric A iperm = .ok (P, map)) :
    A.rowval.size = A.nzval.size ∧
    ∃ Pc Pr pos, permutePattern A.n A.colptr A.rowval iperm = .ok (Pc, Pr, pos) ∧
      P = { m := A.n, n := A.n, colptr := Pc, rowval := Pr,
            nzval := scatter (Array.replicate A.nzval.size 0) pos A.nzval.toList } ∧
      map = pos.toArray := by
  unfold permuteSymmetric at h
  simp only [bind, Except.bind, pure, Except.pure, throw, throwThe, MonadExceptOf.throw] at h
  split at h
  · cases h
  · rename_i hw
    split at h
    · cases h
    · split at h
      · cases h
      · rename_i r hr
        obtain ⟨Pc, Pr, pos⟩ := r
        simp only [Except.ok.injEq, Prod.mk.injEq] at h
        refine ⟨?_, Pc, Pr, pos, hr, h.1.symm, h.2.symm⟩
        have hw' : wellFormed A = true := by
          cases hwf : wellFormed A
          · simp [hwf] at hw
          · rfl
        simp only [wellFormed, Bool.and_eq_true, beq_iff_eq] at hw'
        exact hw'.2


end Clarabel.Qdldl
