/-
  C08 — the KKT assembly depends on the VALUES of `P` and `A` only through the entries it writes
  at the positions recorded in `map.P` / `map.A`.

  `assembleKktMatrix_values`: for canonical data (`KktInputs`), replacing the value arrays of `P`
  and `A` by arbitrary arrays of the same sizes makes `Kkt.assembleKktMatrix` return the same
  structure (`m`, `n`, `colptr`, `rowval`), the same index maps, and a value array that agrees with
  the old one at every position that is not an element of `map.P` or `map.A`.

  Proof: a relational walk through the fill engine (`Csc.place` / `Csc.placeAll`).  Two fill
  states are related (`SameOff D`) when they have the same structure and their value arrays agree
  off a ghost set `D`.  Schedules with the same pattern (`EntRel`) keep the relation with `D`
  enlarged by the destinations, which the engine records in the index vector (`placeAll_rel`);
  identical schedules (all the zero-valued ones) keep `D` (`placeAll_same`).  Everything that only
  reads the pattern is definitionally insensitive to `{ M with nzval := v }`.

  All statements are class [S]: no arithmetic law of the scalar type is used.
-/
import ClarabelModel.Kkt
import ClarabelProofs.Lemmas.KktFillRun
import ClarabelProofs.Lemmas.KktLength
import ClarabelProofs.Lemmas.KktTotal
import ClarabelProofs.Lemmas.KktSpec

set_option linter.unusedSectionVars false
set_option linter.unusedVariables false

namespace Clarabel.Lemmas.UpdateAsmValues
open Clarabel Clarabel.Csc Clarabel.Kkt
open Clarabel.Lemmas.KktPlace (getE_ok setE_ok addAt_ok)
open Clarabel.Lemmas.KktSorted (bind_eq_ok Canon IsTriu)
open Clarabel.Lemmas.KktFillBlock (BlockWF blockSchedule_map_k)
open Clarabel.Lemmas.KktFillLink (pure_ok coneStep coneDim1)
open Clarabel.Lemmas.KktFillRun (fillCones fillTail kktAssembleFill_eq)
open Clarabel.Lemmas.KktLength (blockWF_of_canon)
open Clarabel.Lemmas.KktSpec (KktInputs)

variable {α : Type}

-- ------------------------------------------------------------------ the relation

/-- two matrices under construction with the same structure whose value arrays agree at every
position outside the ghost set `D` -/
structure SameOff (D : Nat → Prop) (K K' : Csc α) : Prop where
  m_eq : K'.m = K.m
  n_eq : K'.n = K.n
  colptr_eq : K'.colptr = K.colptr
  rowval_eq : K'.rowval = K.rowval
  size_eq : K'.nzval.size = K.nzval.size
  off : ∀ i, ¬ D i → K'.nzval[i]? = K.nzval[i]?

theorem SameOff.mono {D D' : Nat → Prop} {K K' : Csc α} (S : SameOff D K K')
    (h : ∀ i, D i → D' i) : SameOff D' K K' :=
  ⟨S.m_eq, S.n_eq, S.colptr_eq, S.rowval_eq, S.size_eq, fun i hi => S.off i (fun hd => hi (h i hd))⟩

theorem SameOff.refl (D : Nat → Prop) (K : Csc α) : SameOff D K K :=
  ⟨rfl, rfl, rfl, rfl, rfl, fun _ _ => rfl⟩

/-- the second matrix is the first one with another value array -/
theorem SameOff.eq_with {D : Nat → Prop} {K K' : Csc α} (S : SameOff D K K') :
    K' = { K with nzval := K'.nzval } := by
  obtain ⟨a, b, c, d, e⟩ := K
  obtain ⟨a', b', c', d', e'⟩ := K'
  obtain ⟨s1, s2, s3, s4, _, _⟩ := S
  simp only at s1 s2 s3 s4
  subst s1 s2 s3 s4
  rfl

/-- two scheduled writes with the same pattern (possibly different values) -/
def EntRel (e e' : Entry α) : Prop :=
  e'.readCol = e.readCol ∧ e'.incCol = e.incCol ∧ e'.row = e.row ∧ e'.k = e.k

theorem EntRel.refl (e : Entry α) : EntRel e e := ⟨rfl, rfl, rfl, rfl⟩

-- ------------------------------------------------------------------ one write

/-- what the index vector looks like after one write to destination `d` -/
def mapAfter (m : Array Nat) (k : Option Nat) (d : Nat) (m1 : Array Nat) : Prop :=
  match k with
  | some j => j < m.size ∧ m1 = m.setIfInBounds j d
  | none => m1 = m

/-- `place` succeeds exactly in this way -/
theorem place_iff (K : Csc α) (m : Array Nat) (e : Entry α) (st1 : Csc α × Array Nat) :
    place (K, m) e = .ok st1 ↔
    ∃ d cp1 m1, K.colptr[e.readCol]? = some d ∧ d < K.rowval.size ∧ d < K.nzval.size ∧
      addAt K.colptr e.incCol 1 "fill: colptr" = .ok cp1 ∧ mapAfter m e.k d m1 ∧
      st1 = ({ K with colptr := cp1, rowval := K.rowval.setIfInBounds d e.row,
                      nzval := K.nzval.setIfInBounds d e.val }, m1) := by
  obtain ⟨rc, ic, r, v, k⟩ := e
  constructor
  · intro h
    unfold place at h
    obtain ⟨d, hd, h⟩ := bind_eq_ok h
    obtain ⟨rv1, hrv, h⟩ := bind_eq_ok h
    obtain ⟨nz1, hnz, h⟩ := bind_eq_ok h
    obtain ⟨cp1, hcp, h⟩ := bind_eq_ok h
    rw [getE_ok] at hd
    rw [setE_ok] at hrv hnz
    obtain ⟨h1, rfl⟩ := hrv
    obtain ⟨h2, rfl⟩ := hnz
    cases k with
    | none =>
      cases pure_ok h
      exact ⟨d, cp1, m, hd, h1, h2, hcp, rfl, rfl⟩
    | some j =>
      obtain ⟨m1, hm, h⟩ := bind_eq_ok h
      cases pure_ok h
      rw [setE_ok] at hm
      exact ⟨d, cp1, m1, hd, h1, h2, hcp, hm, rfl⟩
  · rintro ⟨d, cp1, m1, hd, h1, h2, hcp, hm, rfl⟩
    rw [← getE_ok (s := "fill: colptr")] at hd
    have hrv : setE K.rowval d r "fill: rowval" = .ok (K.rowval.setIfInBounds d r) :=
      (setE_ok ..).mpr ⟨h1, rfl⟩
    have hnz : setE K.nzval d v "fill: nzval" = .ok (K.nzval.setIfInBounds d v) :=
      (setE_ok ..).mpr ⟨h2, rfl⟩
    unfold place
    cases k with
    | none =>
      cases hm
      simp only [hd, hrv, hnz, hcp, bind, Except.bind]
      rfl
    | some j =>
      have hm' : setE m j d "fill: index map" = .ok m1 := (setE_ok ..).mpr hm
      simp only [hd, hrv, hnz, hcp, hm', bind, Except.bind]
      rfl

/-- one write on two related states: the same index vector comes out, the structure stays the
same, and the value arrays may newly differ only at the destination `d`, which is what the
index vector records at `e.k` -/
theorem place_rel {D : Nat → Prop} {K K' : Csc α} {m : Array Nat} {e e' : Entry α}
    {st1 : Csc α × Array Nat} (S : SameOff D K K') (he : EntRel e e')
    (h : place (K, m) e = .ok st1) :
    ∃ K1' d, place (K', m) e' = .ok (K1', st1.2) ∧
      SameOff (fun i => D i ∨ i = d) st1.1 K1' ∧
      (e'.val = e.val → SameOff D st1.1 K1') ∧
      (∀ j, e.k = some j → st1.2[j]? = some d) ∧
      (∀ j, e.k ≠ some j → st1.2[j]? = m[j]?) := by
  obtain ⟨e1, e2, e3, e4⟩ := he
  obtain ⟨d, cp1, m1, hd, h1, h2, hcp, hm, rfl⟩ := (place_iff ..).mp h
  have s5 := S.size_eq
  have s6 := S.off
  refine ⟨{ K' with colptr := cp1, rowval := K'.rowval.setIfInBounds d e'.row,
                    nzval := K'.nzval.setIfInBounds d e'.val }, d, ?_, ?_, ?_, ?_, ?_⟩
  · refine (place_iff ..).mpr ⟨d, cp1, m1, ?_, ?_, ?_, ?_, ?_, rfl⟩
    · rw [S.colptr_eq, e1]; exact hd
    · rw [S.rowval_eq]; exact h1
    · omega
    · rw [S.colptr_eq, e2]; exact hcp
    · rw [e4]; exact hm
  · refine ⟨S.m_eq, S.n_eq, rfl, ?_, ?_, ?_⟩
    · show K'.rowval.setIfInBounds d e'.row = K.rowval.setIfInBounds d e.row
      rw [S.rowval_eq, e3]
    · show (K'.nzval.setIfInBounds d e'.val).size = (K.nzval.setIfInBounds d e.val).size
      simp only [Array.size_setIfInBounds]; exact s5
    · intro i hi
      have hne : d ≠ i := fun hh => hi (Or.inr hh.symm)
      show (K'.nzval.setIfInBounds d e'.val)[i]? = (K.nzval.setIfInBounds d e.val)[i]?
      simp only [Array.getElem?_setIfInBounds_ne hne]
      exact s6 i (fun hh => hi (Or.inl hh))
  · intro hv
    refine ⟨S.m_eq, S.n_eq, rfl, ?_, ?_, ?_⟩
    · show K'.rowval.setIfInBounds d e'.row = K.rowval.setIfInBounds d e.row
      rw [S.rowval_eq, e3]
    · show (K'.nzval.setIfInBounds d e'.val).size = (K.nzval.setIfInBounds d e.val).size
      simp only [Array.size_setIfInBounds]; exact s5
    · intro i hi
      show (K'.nzval.setIfInBounds d e'.val)[i]? = (K.nzval.setIfInBounds d e.val)[i]?
      rw [hv]
      by_cases hne : d = i
      · subst hne
        simp only [Array.getElem?_setIfInBounds_self_of_lt h2,
          Array.getElem?_setIfInBounds_self_of_lt (show d < K'.nzval.size by omega)]
      · simp only [Array.getElem?_setIfInBounds_ne hne]
        exact s6 i hi
  · intro j hj
    rw [hj] at hm
    obtain ⟨hjlt, rfl⟩ := hm
    exact Array.getElem?_setIfInBounds_self_of_lt hjlt
  · intro j hj
    show m1[j]? = m[j]?
    cases hk : e.k with
    | none =>
      rw [hk] at hm
      cases hm
      rfl
    | some j' =>
      rw [hk] at hm
      obtain ⟨hjlt, rfl⟩ := hm
      have hne : j' ≠ j := fun hh => hj (by rw [hk, hh])
      exact Array.getElem?_setIfInBounds_ne hne

-- ------------------------------------------------------------------ whole schedules

/-- pointwise related lists (a local `List.Forall₂`; no Mathlib import needed) -/
inductive ListRel {β γ : Type} (R : β → γ → Prop) : List β → List γ → Prop
  | nil : ListRel R [] []
  | cons {a : β} {b : γ} {l : List β} {l' : List γ} : R a b → ListRel R l l' → ListRel R (a :: l) (b :: l')

/-- the index vector at `j` is not touched by writes recorded elsewhere -/
theorem foldlM_place_map_frame : ∀ (l : List (Entry α)) (st st1 : Csc α × Array Nat) (j : Nat),
    (∀ e ∈ l, e.k ≠ some j) → l.foldlM place st = .ok st1 → st1.2[j]? = st.2[j]? := by
  intro l
  induction l with
  | nil =>
    intro st st1 j _ h
    rw [List.foldlM_nil] at h
    cases pure_ok h
    rfl
  | cons e t ih =>
    intro st st1 j hk h
    rw [List.foldlM_cons] at h
    obtain ⟨st', h1, h⟩ := bind_eq_ok h
    rw [ih st' st1 j (fun e' he' => hk e' (List.mem_cons_of_mem _ he')) h]
    obtain ⟨K1', d, _, _, _, _, hfr⟩ := place_rel (SameOff.refl (fun _ => False) st.1)
      (EntRel.refl e) (show place (st.1, st.2) e = .ok st' from h1)
    exact hfr j (hk e (List.mem_cons_self ..))

/-- **schedules with the same pattern**, each write recorded at its own position of the index
vector: the same index vector comes out, and the value arrays may newly differ only at positions
that the final index vector contains -/
theorem foldlM_place_rel {l l' : List (Entry α)} (hl : ListRel EntRel l l') :
    ∀ (D : Nat → Prop) (K K' : Csc α) (m : Array Nat) (st1 : Csc α × Array Nat),
    SameOff D K K' → (l.map (·.k)).Pairwise (· ≠ ·) → (∀ e ∈ l, ∃ j, e.k = some j) →
    l.foldlM place (K, m) = .ok st1 →
    ∃ K1', l'.foldlM place (K', m) = .ok (K1', st1.2) ∧
      SameOff (fun i => D i ∨ i ∈ st1.2.toList) st1.1 K1' := by
  induction hl with
  | nil =>
    intro D K K' m st1 S _ _ h
    rw [List.foldlM_nil] at h
    cases pure_ok h
    exact ⟨K', by rw [List.foldlM_nil]; rfl, S.mono (fun i hi => Or.inl hi)⟩
  | @cons e e' t t' hee htt ih =>
    intro D K K' m st1 S hpw hk h
    rw [List.foldlM_cons] at h
    obtain ⟨st', h1, h⟩ := bind_eq_ok h
    obtain ⟨K1', d, hp', S1, _, hrec, _⟩ := place_rel S hee h1
    simp only [List.map_cons, List.pairwise_cons] at hpw
    obtain ⟨K2', hp2, S2⟩ := ih (fun i => D i ∨ i = d) st'.1 K1' st'.2 st1 S1 hpw.2
      (fun e'' he'' => hk e'' (List.mem_cons_of_mem _ he'')) h
    refine ⟨K2', ?_, S2.mono ?_⟩
    · rw [List.foldlM_cons, hp']
      exact hp2
    · intro i hi
      rcases hi with (hi | hi) | hi
      · exact Or.inl hi
      · right
        subst hi
        obtain ⟨j, hj⟩ := hk e (List.mem_cons_self ..)
        have hfr := foldlM_place_map_frame t st' st1 j (by
          intro e'' he'' hh
          exact hpw.1 e''.k (List.mem_map.mpr ⟨e'', he'', rfl⟩) (by rw [hj, hh])) h
        rw [hrec j hj] at hfr
        obtain ⟨hlt, hget⟩ := Array.getElem?_eq_some_iff.mp hfr
        rw [← hget]
        exact Array.getElem_mem_toList hlt
      · exact Or.inr hi

/-- **the same schedule** on two related states: same index vector, and the value arrays differ
no more than before -/
theorem foldlM_place_same : ∀ (l : List (Entry α)) (D : Nat → Prop) (K K' : Csc α) (m : Array Nat)
    (st1 : Csc α × Array Nat), SameOff D K K' → l.foldlM place (K, m) = .ok st1 →
    ∃ K1', l.foldlM place (K', m) = .ok (K1', st1.2) ∧ SameOff D st1.1 K1' := by
  intro l
  induction l with
  | nil =>
    intro D K K' m st1 S h
    rw [List.foldlM_nil] at h
    cases pure_ok h
    exact ⟨K', by rw [List.foldlM_nil]; rfl, S⟩
  | cons e t ih =>
    intro D K K' m st1 S h
    rw [List.foldlM_cons] at h
    obtain ⟨st', h1, h⟩ := bind_eq_ok h
    obtain ⟨K1', d, hp', _, S1, _, _⟩ := place_rel S (EntRel.refl e) h1
    obtain ⟨K2', hp2, S2⟩ := ih D st'.1 K1' st'.2 st1 (S1 rfl) h
    exact ⟨K2', by rw [List.foldlM_cons, hp']; exact hp2, S2⟩

theorem placeAll_same {D : Nat → Prop} {K K' : Csc α} {m : Array Nat} {l : List (Entry α)}
    {st1 : Csc α × Array Nat} (S : SameOff D K K') (h : placeAll K m l = .ok st1) :
    ∃ K1', placeAll K' m l = .ok (K1', st1.2) ∧ SameOff D st1.1 K1' :=
  foldlM_place_same l D K K' m st1 S h

-- ------------------------------------------------------------------ related lists

theorem ListRel.append {β γ : Type} {R : β → γ → Prop} {a : List β} {a' : List γ} {b : List β}
    {b' : List γ} (h1 : ListRel R a a') (h2 : ListRel R b b') : ListRel R (a ++ b) (a' ++ b') := by
  induction h1 with
  | nil => exact h2
  | cons r _ ih => exact .cons r ih

theorem ListRel.flatten {β γ : Type} {R : β → γ → Prop} {L : List (List β)} {L' : List (List γ)}
    (h : ListRel (ListRel R) L L') : ListRel R L.flatten L'.flatten := by
  induction h with
  | nil => exact .nil
  | cons r _ ih =>
    rw [List.flatten_cons, List.flatten_cons]
    exact r.append ih

/-- a successful `mapM` carries over to a pointwise related function -/
theorem mapM_rel {ι β γ ε : Type} (f : ι → Except ε β) (g : ι → Except ε γ) (R : β → γ → Prop) :
    ∀ (l : List ι) (ys : List β),
      (∀ x ∈ l, ∀ y, f x = .ok y → ∃ y', g x = .ok y' ∧ R y y') →
      l.mapM f = .ok ys → ∃ ys', l.mapM g = .ok ys' ∧ ListRel R ys ys' := by
  intro l
  induction l with
  | nil =>
    intro ys _ h
    rw [List.mapM_nil] at h
    cases pure_ok h
    exact ⟨[], by rw [List.mapM_nil]; rfl, .nil⟩
  | cons a t ih =>
    intro ys hstep h
    rw [List.mapM_cons] at h
    obtain ⟨y, hy, h⟩ := bind_eq_ok h
    obtain ⟨ys1, hys, h⟩ := bind_eq_ok h
    cases pure_ok h
    obtain ⟨y', hy', r⟩ := hstep a (List.mem_cons_self ..) y hy
    obtain ⟨ys', hys', rs⟩ := ih ys1 (fun x hx => hstep x (List.mem_cons_of_mem _ hx)) hys
    refine ⟨y' :: ys', ?_, .cons r rs⟩
    rw [List.mapM_cons, hy', hys']
    rfl

/-- a successful `foldlM` carries over to related start states -/
theorem foldlM_rel {σ σ' ι ε : Type} (f : σ → ι → Except ε σ) (g : σ' → ι → Except ε σ')
    (R : σ → σ' → Prop)
    (hstep : ∀ s s' x t, R s s' → f s x = .ok t → ∃ t', g s' x = .ok t' ∧ R t t') :
    ∀ (l : List ι) (s : σ) (s' : σ') (t : σ), R s s' → l.foldlM f s = .ok t →
      ∃ t', l.foldlM g s' = .ok t' ∧ R t t' := by
  intro l
  induction l with
  | nil =>
    intro s s' t r h
    rw [List.foldlM_nil] at h
    cases pure_ok h
    exact ⟨s', by rw [List.foldlM_nil]; rfl, r⟩
  | cons a l ih =>
    intro s s' t r h
    rw [List.foldlM_cons] at h
    obtain ⟨s1, h1, h⟩ := bind_eq_ok h
    obtain ⟨s1', h1', r1⟩ := hstep s s' a s1 r h1
    obtain ⟨t', ht', rt⟩ := ih s1 s1' t r1 h
    exact ⟨t', by rw [List.foldlM_cons, h1']; exact ht', rt⟩

-- ------------------------------------------------------------------ `fill_block`

/-- the scheduled write for stored entry `j` of column `i` -/
def entSched (M : Csc α) (initrow initcol : Nat) (shape : MatrixShape) (i j : Nat) :
    MErr (Entry α) := do
  let r ← getE M.rowval j "fill_block: M.rowval"
  let v ← getE M.nzval j "fill_block: M.nzval"
  pure (match shape with
    | .T => Entry.mk' (r + initcol) (i + initrow) v j
    | .N => Entry.mk' (i + initcol) (r + initrow) v j)

/-- the scheduled writes for column `i` -/
def colSched (M : Csc α) (initrow initcol : Nat) (shape : MatrixShape) (i : Nat) :
    MErr (List (Entry α)) := do
  let start ← getE M.colptr i "fill_block: M.colptr"
  let stop ← getE M.colptr (i + 1) "fill_block: M.colptr"
  (List.range' start (stop - start)).mapM (entSched M initrow initcol shape i)

theorem blockSchedule_eq (M : Csc α) (initrow initcol : Nat) (shape : MatrixShape) :
    blockSchedule M initrow initcol shape = (do
      let cols ← (List.range M.n).mapM (colSched M initrow initcol shape)
      pure cols.flatten) := rfl

theorem entSched_rel (M : Csc α) (v : Array α) (hv : v.size = M.nzval.size) (r0 c0 : Nat)
    (shape : MatrixShape) (i j : Nat) (e : Entry α) (h : entSched M r0 c0 shape i j = .ok e) :
    ∃ e', entSched { M with nzval := v } r0 c0 shape i j = .ok e' ∧ EntRel e e' := by
  unfold entSched at h ⊢
  obtain ⟨r, hr, h⟩ := bind_eq_ok h
  obtain ⟨x, hx, h⟩ := bind_eq_ok h
  have hj : j < v.size := by
    rw [getE_ok] at hx
    rw [hv]
    exact (Array.getElem?_eq_some_iff.mp hx).1
  have hx' : getE v j "fill_block: M.nzval" = .ok v[j] :=
    (getE_ok ..).mpr (Array.getElem?_eq_getElem hj)
  cases shape with
  | N =>
    cases pure_ok h
    refine ⟨Entry.mk' (i + c0) (r + r0) v[j] j, ?_, ⟨rfl, rfl, rfl, rfl⟩⟩
    simp only [hr, hx', bind, Except.bind]
    rfl
  | T =>
    cases pure_ok h
    refine ⟨Entry.mk' (r + c0) (i + r0) v[j] j, ?_, ⟨rfl, rfl, rfl, rfl⟩⟩
    simp only [hr, hx', bind, Except.bind]
    rfl

theorem colSched_rel (M : Csc α) (v : Array α) (hv : v.size = M.nzval.size) (r0 c0 : Nat)
    (shape : MatrixShape) (i : Nat) (l : List (Entry α)) (h : colSched M r0 c0 shape i = .ok l) :
    ∃ l', colSched { M with nzval := v } r0 c0 shape i = .ok l' ∧ ListRel EntRel l l' := by
  unfold colSched at h ⊢
  obtain ⟨start, hstart, h⟩ := bind_eq_ok h
  obtain ⟨stop, hstop, h⟩ := bind_eq_ok h
  obtain ⟨l', hl', hrel⟩ := mapM_rel _ (entSched { M with nzval := v } r0 c0 shape i) EntRel _ _
    (fun j _ e he => entSched_rel M v hv r0 c0 shape i j e he) h
  refine ⟨l', ?_, hrel⟩
  simp only [hstart, hstop, bind, Except.bind]
  exact hl'

/-- **`blockSchedule` reads the values only into the `val` fields** -/
theorem blockSchedule_rel (M : Csc α) (v : Array α) (hv : v.size = M.nzval.size) (r0 c0 : Nat)
    (shape : MatrixShape) (l : List (Entry α)) (h : blockSchedule M r0 c0 shape = .ok l) :
    ∃ l', blockSchedule { M with nzval := v } r0 c0 shape = .ok l' ∧ ListRel EntRel l l' := by
  rw [blockSchedule_eq] at h ⊢
  obtain ⟨cols, hcols, h⟩ := bind_eq_ok h
  cases pure_ok h
  obtain ⟨cols', hcols', hrel⟩ := mapM_rel _ (colSched { M with nzval := v } r0 c0 shape)
    (ListRel EntRel) _ _ (fun i _ l hl => colSched_rel M v hv r0 c0 shape i l hl) hcols
  refine ⟨cols'.flatten, ?_, hrel.flatten⟩
  show (List.range M.n).mapM _ >>= _ = _
  rw [hcols']
  rfl

/-- the index slots of a block schedule are pairwise different and all present -/
theorem blockSchedule_ks {M : Csc α} (hwf : BlockWF M) (r0 c0 : Nat) (shape : MatrixShape)
    (l : List (Entry α)) (h : blockSchedule M r0 c0 shape = .ok l) :
    (l.map (·.k)).Pairwise (· ≠ ·) ∧ ∀ e ∈ l, ∃ j, e.k = some j := by
  have hk := blockSchedule_map_k hwf r0 c0 shape l h
  refine ⟨?_, ?_⟩
  · rw [hk]
    exact List.Pairwise.map some (fun a b hab hh => by cases hh; omega) List.pairwise_lt_range
  · intro e he
    have : e.k ∈ l.map (·.k) := List.mem_map.mpr ⟨e, he, rfl⟩
    rw [hk] at this
    obtain ⟨j, _, hj⟩ := List.mem_map.mp this
    exact ⟨j, hj.symm⟩

/-- **`fill_block` with other values**: same index vector, same structure, and the value arrays
may newly differ only at positions that the index vector contains -/
theorem fillBlock_rel {D : Nat → Prop} {K K' : Csc α} (S : SameOff D K K') {M : Csc α}
    (hwf : BlockWF M) (v : Array α) (hv : v.size = M.nzval.size) (mp : Array Nat) (r0 c0 : Nat)
    (shape : MatrixShape) {st1 : Csc α × Array Nat} (h : fillBlock K M mp r0 c0 shape = .ok st1) :
    ∃ K1', fillBlock K' { M with nzval := v } mp r0 c0 shape = .ok (K1', st1.2) ∧
      SameOff (fun i => D i ∨ i ∈ st1.2.toList) st1.1 K1' := by
  unfold fillBlock at h ⊢
  obtain ⟨l, hl, h⟩ := bind_eq_ok h
  obtain ⟨l', hl', hrel⟩ := blockSchedule_rel M v hv r0 c0 shape l hl
  obtain ⟨hpw, hks⟩ := blockSchedule_ks hwf r0 c0 shape l hl
  obtain ⟨K1', hp, S1⟩ := foldlM_place_rel hrel D K K' mp st1 S hpw hks h
  refine ⟨K1', ?_, S1⟩
  rw [hl']
  exact hp

-- ------------------------------------------------------------------ the zero-valued fills

variable [OfNat α 0]

/-- `fill_missing_diag` reads only the pattern of `M` and writes zeros -/
theorem fillMissingDiag_same {D : Nat → Prop} {K K' : Csc α} (S : SameOff D K K') (M : Csc α)
    (v : Array α) (c0 : Nat) {K1 : Csc α} (h : fillMissingDiag K M c0 = .ok K1) :
    ∃ K1', fillMissingDiag K' { M with nzval := v } c0 = .ok K1' ∧ SameOff D K1 K1' := by
  have e : missingDiagSchedule { M with nzval := v } c0 = missingDiagSchedule M c0 := rfl
  unfold fillMissingDiag at h ⊢
  rw [e]
  obtain ⟨l, hl, h⟩ := bind_eq_ok h
  obtain ⟨r, hr, h⟩ := bind_eq_ok h
  cases pure_ok h
  obtain ⟨K1', hp, S1⟩ := placeAll_same S hr
  refine ⟨K1', ?_, S1⟩
  simp only [hl, hp, bind, Except.bind]
  rfl

/-- `csc_fill_sparsecone` writes zeros only -/
theorem fillSparsecone_same {D : Nat → Prop} {K K' : Csc α} (S : SameOff D K K') (mp : SparseMap)
    (dim1 row col : Nat) (shape : MatrixTriangle) {r : Csc α × SparseMap}
    (h : fillSparsecone mp dim1 K row col shape = .ok r) :
    ∃ K1', fillSparsecone mp dim1 K' row col shape = .ok (K1', r.2) ∧ SameOff D r.1 K1' := by
  cases mp with
  | soc u v Dm =>
    cases shape <;>
    · unfold fillSparsecone at h ⊢
      obtain ⟨⟨K1, v1⟩, h1, h⟩ := bind_eq_ok h
      obtain ⟨⟨K2, u2⟩, h2, h⟩ := bind_eq_ok h
      obtain ⟨x, hx, h⟩ := bind_eq_ok h
      cases pure_ok hx
      obtain ⟨⟨K3, D3⟩, h3, h⟩ := bind_eq_ok h
      cases pure_ok h
      obtain ⟨K1', h1', S1⟩ := placeAll_same S h1
      obtain ⟨K2', h2', S2⟩ := placeAll_same S1 h2
      obtain ⟨K3', h3', S3⟩ := placeAll_same S2 h3
      refine ⟨K3', ?_, S3⟩
      simp only [fillColvec, fillRowvec, fillDiag] at h1' h2' h3' ⊢
      simp only [h1', h2', h3', bind, Except.bind, pure, Except.pure]
  | genpow p q rr Dm =>
    cases shape <;>
    · unfold fillSparsecone at h ⊢
      obtain ⟨⟨K1, q1⟩, h1, h⟩ := bind_eq_ok h
      obtain ⟨⟨K2, r2⟩, h2, h⟩ := bind_eq_ok h
      obtain ⟨⟨K3, p3⟩, h3, h⟩ := bind_eq_ok h
      obtain ⟨x, hx, h⟩ := bind_eq_ok h
      cases pure_ok hx
      obtain ⟨⟨K4, D4⟩, h4, h⟩ := bind_eq_ok h
      cases pure_ok h
      obtain ⟨K1', h1', S1⟩ := placeAll_same S h1
      obtain ⟨K2', h2', S2⟩ := placeAll_same S1 h2
      obtain ⟨K3', h3', S3⟩ := placeAll_same S2 h3
      obtain ⟨K4', h4', S4⟩ := placeAll_same S3 h4
      refine ⟨K4', ?_, S4⟩
      simp only [fillColvec, fillRowvec, fillDiag] at h1' h2' h3' h4' ⊢
      simp only [h1', h2', h3', h4', bind, Except.bind, pure, Except.pure]

-- ------------------------------------------------------------------ the loop over the cones

/-- two loop states that differ only in the value array of the matrix -/
structure StRel (D : Nat → Prop) (st st' : FillState α) : Prop where
  K : SameOff D st.K st'.K
  hs : st'.Hsblocks = st.Hsblocks
  maps : st'.maps = st.maps
  pcol : st'.pcol = st.pcol
  next : st'.nextSparse = st.nextSparse

theorem coneStep_same {D : Nat → Prop} {n : Nat} {shape : MatrixTriangle} {st st' t : FillState α}
    {c : ConeSpec} {s b : Nat} (R : StRel D st st') (h : coneStep n shape st c s b = .ok t) :
    ∃ t', coneStep n shape st' c s b = .ok t' ∧ StRel D t t' := by
  obtain ⟨K', Hs', maps', pcol', next'⟩ := st'
  obtain ⟨S, e1, e2, e3, e4⟩ := R
  simp only at S e1 e2 e3 e4
  subst e1 e2 e3 e4
  unfold coneStep at h ⊢
  obtain ⟨Kb, hKb, h⟩ := bind_eq_ok h
  have hb : ∃ Kb', (if c.hsIsDiagonal = true then
        fillDiag K' (st.Hsblocks.extract b (b + c.blockLen)) (s + n) c.numel
      else fillDenseTriangle K' (st.Hsblocks.extract b (b + c.blockLen)) (s + n) c.numel shape)
        = .ok (Kb', Kb.2) ∧ SameOff D Kb.1 Kb' := by
    by_cases hd : c.hsIsDiagonal = true
    · rw [if_pos hd] at hKb ⊢
      exact placeAll_same S hKb
    · rw [if_neg hd] at hKb ⊢
      exact placeAll_same S hKb
  obtain ⟨Kb', hKb', Sb⟩ := hb
  by_cases hsp : c.isSparseExpandable = true
  · rw [if_pos hsp] at h
    obtain ⟨thismap, hthis, h⟩ := bind_eq_ok h
    obtain ⟨Kn, hKn, h⟩ := bind_eq_ok h
    obtain ⟨maps1, hmaps, h⟩ := bind_eq_ok h
    cases pure_ok h
    obtain ⟨Kn', hKn', Sn⟩ := fillSparsecone_same Sb thismap (coneDim1 c) (s + n) st.pcol shape hKn
    refine ⟨{ K := Kn', Hsblocks := spliceAt st.Hsblocks b Kb.2, maps := maps1,
              pcol := st.pcol + thismap.pdim, nextSparse := st.nextSparse + 1 }, ?_,
      ⟨Sn, rfl, rfl, rfl, rfl⟩⟩
    show (_ >>= _) = _
    rw [hKb']
    show (if c.isSparseExpandable = true then _ else _) = _
    rw [if_pos hsp]
    show (getE st.maps st.nextSparse "sparse_map_iter.next().unwrap()" >>= _) = _
    rw [hthis]
    show (fillSparsecone thismap (coneDim1 c) Kb' (s + n) st.pcol shape >>= _) = _
    rw [hKn']
    show (setE st.maps st.nextSparse Kn.2 >>= _) = _
    rw [hmaps]
    rfl
  · rw [if_neg hsp] at h
    cases pure_ok h
    refine ⟨{ K := Kb', Hsblocks := spliceAt st.Hsblocks b Kb.2, maps := st.maps,
              pcol := st.pcol, nextSparse := st.nextSparse }, ?_, ⟨Sb, rfl, rfl, rfl, rfl⟩⟩
    show (_ >>= _) = _
    rw [hKb']
    show (if c.isSparseExpandable = true then _ else _) = _
    rw [if_neg hsp]
    rfl

/-- body of the loop over the cones in `_kkt_assemble_fill` (verbatim) -/
def coneBody (A : Csc α) (shape : MatrixTriangle) (st : FillState α) (cs : ConeSpec × Nat × Nat) :
    MErr (FillState α) := do
  let (cone, start, bstart) := cs
  let row := start + A.n
  let blockdim := cone.numel
  let block := st.Hsblocks.extract bstart (bstart + cone.blockLen)
  let (K, block) ← if cone.hsIsDiagonal then fillDiag st.K block row blockdim
                   else fillDenseTriangle st.K block row blockdim shape
  let Hsblocks := spliceAt st.Hsblocks bstart block
  if cone.isSparseExpandable then
    let thismap ← getE st.maps st.nextSparse "sparse_map_iter.next().unwrap()"
    let dim1 := match cone with
      | .genpow a _ => a
      | _ => 0
    let (K, newmap) ← fillSparsecone thismap dim1 K row st.pcol shape
    let maps ← setE st.maps st.nextSparse newmap
    pure { K, Hsblocks, maps, pcol := st.pcol + thismap.pdim, nextSparse := st.nextSparse + 1 }
  else pure { st with K, Hsblocks }

theorem fillCones_eq (K A : Csc α) (cones : List ConeSpec) (map : LDLDataMap)
    (shape : MatrixTriangle) :
    fillCones K A cones map shape =
      (cones.zip ((rngConesStart cones).zip (rngBlocksStart cones))).foldlM (coneBody A shape)
        { K, Hsblocks := map.Hsblocks, maps := map.sparse_maps, pcol := A.m + A.n, nextSparse := 0 } :=
  rfl

theorem coneBody_eq (A : Csc α) (shape : MatrixTriangle) (st : FillState α) (c : ConeSpec)
    (s b : Nat) : coneBody A shape st (c, s, b) = coneStep A.n shape st c s b := by
  simp only [coneBody, coneStep]
  split <;> rfl

/-- the loop over the cones writes zeros only -/
theorem fillCones_same {D : Nat → Prop} {K K' : Csc α} (S : SameOff D K K') (A : Csc α)
    (cones : List ConeSpec) (map : LDLDataMap) (shape : MatrixTriangle) {st : FillState α}
    (h : fillCones K A cones map shape = .ok st) :
    ∃ st', fillCones K' A cones map shape = .ok st' ∧ StRel D st st' := by
  rw [fillCones_eq] at h ⊢
  have hstep : ∀ (s s' : FillState α) (x : ConeSpec × Nat × Nat) (t : FillState α),
      StRel D s s' → coneBody A shape s x = .ok t →
      ∃ t', coneBody A shape s' x = .ok t' ∧ StRel D t t' := by
    intro s s' x t R hx
    obtain ⟨c, start, bstart⟩ := x
    rw [coneBody_eq] at hx ⊢
    exact coneStep_same R hx
  exact foldlM_rel (coneBody A shape) (coneBody A shape) (StRel D) hstep _
    { K := K, Hsblocks := map.Hsblocks, maps := map.sparse_maps, pcol := A.m + A.n, nextSparse := 0 }
    { K := K', Hsblocks := map.Hsblocks, maps := map.sparse_maps, pcol := A.m + A.n, nextSparse := 0 }
    st ⟨S, rfl, rfl, rfl, rfl⟩ h

-- ------------------------------------------------------------------ the tail

/-- the diagonal index maps, a function of the final `colptr` only (verbatim from
`kktAssembleFill`) -/
def diagPart (n : Nat) (shape : MatrixTriangle) (map : LDLDataMap) (cp : List Nat) :
    MErr (Array Nat × Array Nat) :=
  match shape with
  | .triu => do
    let src := cp.drop 1
    if src.length != map.diag_full.size then throw (.panic "copy_from_slice: diag_full length")
    if src.any (· == 0) then throw (.panic "diag_full: subtraction underflows")
    let srcP := (cp.drop 1).take n
    if srcP.length != n || n != map.diagP.size then throw (.panic "copy_from_slice: diagP length")
    pure ((src.map (· - 1)).toArray, (srcP.map (· - 1)).toArray)
  | .tril => do
    let src := cp.dropLast
    if src.length != map.diag_full.size then throw (.panic "copy_from_slice: diag_full length")
    let srcP := cp.take n
    if srcP.length != n || n != map.diagP.size then throw (.panic "copy_from_slice: diagP length")
    pure (src.toArray, srcP.toArray)

omit [OfNat α 0] in
theorem fillTail_eq (n : Nat) (shape : MatrixTriangle) (map : LDLDataMap) (mapP mapA : Array Nat)
    (st : FillState α) :
    fillTail n shape map mapP mapA st = (do
      let K ← backshiftColptrs st.K
      let (diag_full, diagP) ← diagPart n shape map K.colptr.toList
      pure (K, { P := mapP, A := mapA, Hsblocks := st.Hsblocks, sparse_maps := st.maps, diagP,
                 diag_full })) := by
  cases shape <;>
  · unfold fillTail diagPart
    cases backshiftColptrs st.K with
    | error e => rfl
    | ok Kb =>
      simp only [bind, Except.bind]
      repeat' (first | rfl | split)

omit [OfNat α 0] in
theorem backshift_same {D : Nat → Prop} {K K' Kb : Csc α} (S : SameOff D K K')
    (h : backshiftColptrs K = .ok Kb) :
    ∃ Kb', backshiftColptrs K' = .ok Kb' ∧ SameOff D Kb Kb' := by
  unfold backshiftColptrs at h ⊢
  rw [S.colptr_eq]
  split at h
  · cases h
  · cases pure_ok h
    rename_i l hne
    refine ⟨{ K' with colptr := (0 :: K.colptr.toList.dropLast).toArray }, ?_,
      ⟨S.m_eq, S.n_eq, rfl, S.rowval_eq, S.size_eq, S.off⟩⟩
    rfl

omit [OfNat α 0] in
theorem fillTail_same {D : Nat → Prop} {n : Nat} {shape : MatrixTriangle} {map : LDLDataMap}
    {mapP mapA : Array Nat} {st st' : FillState α} {r : Csc α × LDLDataMap} (R : StRel D st st')
    (h : fillTail n shape map mapP mapA st = .ok r) :
    ∃ K1', fillTail n shape map mapP mapA st' = .ok (K1', r.2) ∧ SameOff D r.1 K1' ∧
      r.2.P = mapP ∧ r.2.A = mapA := by
  rw [fillTail_eq] at h ⊢
  obtain ⟨Kb, hKb, h⟩ := bind_eq_ok h
  obtain ⟨⟨df, dp⟩, hd, h⟩ := bind_eq_ok h
  cases pure_ok h
  obtain ⟨Kb', hKb', Sb⟩ := backshift_same R.K hKb
  refine ⟨Kb', ?_, Sb, rfl, rfl⟩
  rw [← Sb.colptr_eq] at hd
  simp only [hKb', hd, R.hs, R.maps, bind, Except.bind]
  rfl

-- ------------------------------------------------------------------ `_kkt_assemble_fill`

/-- **`_kkt_assemble_fill` with other values of `P`, `A`** (either target triangle): it succeeds
again, returns the same index maps and the same structure, and the value arrays agree at every
position that is neither in `map.P` nor in `map.A`. -/
theorem kktAssembleFill_values {Kc P A K : Csc α} {cones : List ConeSpec} {map0 map : LDLDataMap}
    {shape : MatrixTriangle} (hP : BlockWF P) (hA : BlockWF A) (vP vA : Array α)
    (hvP : vP.size = P.nzval.size) (hvA : vA.size = A.nzval.size)
    (h : kktAssembleFill Kc P A cones map0 shape = .ok (K, map)) :
    ∃ K', kktAssembleFill Kc { P with nzval := vP } { A with nzval := vA } cones map0 shape
        = .ok (K', map) ∧
      SameOff (fun i => i ∈ map.P.toList ∨ i ∈ map.A.toList) K K' := by
  rw [kktAssembleFill_eq] at h ⊢
  have S0 := SameOff.refl (fun _ => False) (colcountToColptr Kc)
  cases shape with
  | triu =>
    obtain ⟨⟨K1, mapP⟩, h1, h⟩ := bind_eq_ok h
    obtain ⟨K2, h2, h⟩ := bind_eq_ok h
    obtain ⟨⟨K3, mapA⟩, h3, h⟩ := bind_eq_ok h
    obtain ⟨x, hx, h⟩ := bind_eq_ok h
    cases pure_ok hx
    obtain ⟨st, h4, h⟩ := bind_eq_ok h
    obtain ⟨K1', h1', S1⟩ := fillBlock_rel S0 hP vP hvP map0.P 0 0 .N h1
    obtain ⟨K2', h2', S2⟩ := fillMissingDiag_same S1 P vP 0 h2
    obtain ⟨K3', h3', S3⟩ := fillBlock_rel S2 hA vA hvA map0.A 0 A.n .T h3
    obtain ⟨st', h4', R4⟩ := fillCones_same S3 A cones map0 .triu h4
    obtain ⟨K', h5', S5, eP, eA⟩ := fillTail_same R4 h
    simp only at eP eA
    refine ⟨K', ?_, S5.mono ?_⟩
    · have h4'' : fillCones K3' { A with nzval := vA } cones map0 .triu = .ok st' := h4'
      simp only [h1', h2', h3', h4'', bind, Except.bind, pure, Except.pure]
      exact h5'
    · rintro i ((hf | hi) | hi)
      · exact hf.elim
      · left; rw [eP]; exact hi
      · right; rw [eA]; exact hi
  | tril =>
    obtain ⟨K1, h1, h⟩ := bind_eq_ok h
    obtain ⟨⟨K2, mapP⟩, h2, h⟩ := bind_eq_ok h
    obtain ⟨⟨K3, mapA⟩, h3, h⟩ := bind_eq_ok h
    obtain ⟨x, hx, h⟩ := bind_eq_ok h
    cases pure_ok hx
    obtain ⟨st, h4, h⟩ := bind_eq_ok h
    obtain ⟨K1', h1', S1⟩ := fillMissingDiag_same S0 P vP 0 h1
    obtain ⟨K2', h2', S2⟩ := fillBlock_rel S1 hP vP hvP map0.P 0 0 .T h2
    obtain ⟨K3', h3', S3⟩ := fillBlock_rel S2 hA vA hvA map0.A A.n 0 .N h3
    obtain ⟨st', h4', R4⟩ := fillCones_same S3 A cones map0 .tril h4
    obtain ⟨K', h5', S5, eP, eA⟩ := fillTail_same R4 h
    simp only at eP eA
    refine ⟨K', ?_, S5.mono ?_⟩
    · have h4'' : fillCones K3' { A with nzval := vA } cones map0 .tril = .ok st' := h4'
      simp only [h1', h2', h3', h4'', bind, Except.bind, pure, Except.pure]
      exact h5'
    · rintro i ((hf | hi) | hi)
      · exact hf.elim
      · left; rw [eP]; exact hi
      · right; rw [eA]; exact hi

-- ------------------------------------------------------------------ `assemble_kkt_matrix`

/-- everything in `assemble_kkt_matrix` before the fill pass reads only the patterns of `P`, `A`
(projections of `{ M with nzval := v }` reduce definitionally) -/
theorem assembleKktMatrix_with (P A : Csc α) (vP vA : Array α) (cones : List ConeSpec)
    (shape : MatrixTriangle) :
    assembleKktMatrix { P with nzval := vP } { A with nzval := vA } cones shape = (do
      let nnzDiagP ← P.countDiagonalEntries .triu
      let _ ← getE P.colptr P.n "P.nnz()"
      let _ ← getE A.colptr A.n "A.nnz()"
      if P.nnz + A.n < nnzDiagP then throw (.panic "nnzKKT: subtraction underflows")
      let p := pdimAll (LDLDataMap.new P A cones).sparse_maps
      let K : Csc α := spalloc (A.m + A.n + p) (A.m + A.n + p) (nnzKKT P A cones nnzDiagP)
      let K ← kktAssembleColcounts K P A cones shape
      kktAssembleFill K { P with nzval := vP } { A with nzval := vA } cones
        (LDLDataMap.new P A cones) shape) := rfl

theorem assembleKktMatrix_unfold (P A : Csc α) (cones : List ConeSpec) (shape : MatrixTriangle) :
    assembleKktMatrix P A cones shape = (do
      let nnzDiagP ← P.countDiagonalEntries .triu
      let _ ← getE P.colptr P.n "P.nnz()"
      let _ ← getE A.colptr A.n "A.nnz()"
      if P.nnz + A.n < nnzDiagP then throw (.panic "nnzKKT: subtraction underflows")
      let p := pdimAll (LDLDataMap.new P A cones).sparse_maps
      let K : Csc α := spalloc (A.m + A.n + p) (A.m + A.n + p) (nnzKKT P A cones nnzDiagP)
      let K ← kktAssembleColcounts K P A cones shape
      kktAssembleFill K P A cones (LDLDataMap.new P A cones) shape) := rfl

/-- [S] **the assembly depends on the values of `P`, `A` only through the entries recorded in
`map.P`, `map.A`** — general form: `P`, `A` well-dimensioned (`BlockWF`: `colptr` monotone from
`0` to `nnz`), either target triangle.  Same structure and same index maps out; the value arrays
agree off the `P`/`A` positions. -/
theorem assembleKktMatrix_values_of_wf {P A K : Csc α} {cones : List ConeSpec} {map : LDLDataMap}
    {shape : MatrixTriangle} (hP : BlockWF P) (hA : BlockWF A)
    (h : assembleKktMatrix P A cones shape = .ok (K, map))
    (vP vA : Array α) (hvP : vP.size = P.nzval.size) (hvA : vA.size = A.nzval.size) :
    ∃ nz : Array α,
      assembleKktMatrix { P with nzval := vP } { A with nzval := vA } cones shape
        = .ok ({ K with nzval := nz }, map) ∧
      nz.size = K.nzval.size ∧
      (∀ i, i ∉ map.P.toList → i ∉ map.A.toList → nz[i]? = K.nzval[i]?) := by
  rw [assembleKktMatrix_unfold] at h
  rw [assembleKktMatrix_with]
  obtain ⟨nd, hnd, h⟩ := bind_eq_ok h
  obtain ⟨g1, hg1, h⟩ := bind_eq_ok h
  obtain ⟨g2, hg2, h⟩ := bind_eq_ok h
  by_cases g3 : P.nnz + A.n < nd
  · rw [if_pos g3] at h
    cases h
  · rw [if_neg g3] at h
    obtain ⟨Kc, hKc, h⟩ := bind_eq_ok h
    obtain ⟨K', h', S⟩ := kktAssembleFill_values hP hA vP vA hvP hvA h
    refine ⟨K'.nzval, ?_, S.size_eq, ?_⟩
    · rw [← S.eq_with]
      simp only [hnd, hg1, hg2, if_neg g3, hKc, bind, Except.bind]
      exact h'
    · intro i hi1 hi2
      exact S.off i (fun hh => hh.elim hi1 hi2)

/-- [S] the same for canonical data (`KktInputs`), either target triangle -/
theorem assembleKktMatrix_values_shape {P A K : Csc α} {cones : List ConeSpec} {map : LDLDataMap}
    {shape : MatrixTriangle} (hin : KktInputs P A cones)
    (h : assembleKktMatrix P A cones shape = .ok (K, map))
    (vP vA : Array α) (hvP : vP.size = P.nzval.size) (hvA : vA.size = A.nzval.size) :
    ∃ nz : Array α,
      assembleKktMatrix { P with nzval := vP } { A with nzval := vA } cones shape
        = .ok ({ K with nzval := nz }, map) ∧
      nz.size = K.nzval.size ∧
      (∀ i, i ∉ map.P.toList → i ∉ map.A.toList → nz[i]? = K.nzval[i]?) :=
  assembleKktMatrix_values_of_wf (blockWF_of_canon hin.P_canon) (blockWF_of_canon hin.A_canon) h
    vP vA hvP hvA

/-- [S] **`assemble_kkt_matrix` and the values of `P`, `A`** (the solver's layout `triu`): for
canonical data, running the assembly on the same patterns with other value arrays `vP`, `vA`
returns the same `colptr`/`rowval`/dimensions, the SAME index maps, and a value array that
agrees with the old one at every position that is neither in `map.P` nor in `map.A`.  (With
`Update.assembly_PA_maps_own` for the positions that ARE in the maps, the new value array is
fully determined: `nz[map.P[k]] = vP[k]`, `nz[map.A[k]] = vA[k]`, everything else as before.) -/
theorem assembleKktMatrix_values {P A K : Csc α} {cones : List ConeSpec} {map : LDLDataMap}
    (hin : KktInputs P A cones)
    (h : assembleKktMatrix P A cones .triu = .ok (K, map))
    (vP vA : Array α) (hvP : vP.size = P.nzval.size) (hvA : vA.size = A.nzval.size) :
    ∃ nz : Array α,
      assembleKktMatrix { P with nzval := vP } { A with nzval := vA } cones .triu
        = .ok ({ K with nzval := nz }, map) ∧
      nz.size = K.nzval.size ∧
      (∀ i, i ∉ map.P.toList → i ∉ map.A.toList → nz[i]? = K.nzval[i]?) :=
  assembleKktMatrix_values_shape hin h vP vA hvP hvA

/-- canonical inputs stay canonical when the value arrays are replaced (so every theorem about
`assembleKktMatrix` under `KktInputs`, e.g. `Update.assembly_PA_maps_own`, applies to the second
run as well) -/
theorem kktInputs_with {P A : Csc α} {cones : List ConeSpec} (hin : KktInputs P A cones)
    (vP vA : Array α) (hvP : vP.size = P.nzval.size) (hvA : vA.size = A.nzval.size) :
    KktInputs { P with nzval := vP } { A with nzval := vA } cones :=
  ⟨⟨hin.P_canon.colptr_size, hin.P_canon.colptr_zero, hin.P_canon.colptr_mono,
     hin.P_canon.colptr_last, (by show vP.size = P.rowval.size; rw [hvP, hin.P_canon.nzval_size]),
     hin.P_canon.rows_lt, hin.P_canon.rows_sorted⟩,
   hin.P_triu, hin.P_square,
   ⟨hin.A_canon.colptr_size, hin.A_canon.colptr_zero, hin.A_canon.colptr_mono,
     hin.A_canon.colptr_last, (by show vA.size = A.rowval.size; rw [hvA, hin.A_canon.nzval_size]),
     hin.A_canon.rows_lt, hin.A_canon.rows_sorted⟩,
   hin.n_eq, hin.m_eq⟩

/-- [S] the same with the second data given as matrices `P'`, `A'` of the same pattern -/
theorem assembleKktMatrix_values_pattern {P A P' A' K : Csc α} {cones : List ConeSpec}
    {map : LDLDataMap} {shape : MatrixTriangle} (hin : KktInputs P A cones)
    (h : assembleKktMatrix P A cones shape = .ok (K, map))
    (hPm : P'.m = P.m) (hPn : P'.n = P.n) (hPc : P'.colptr = P.colptr)
    (hPr : P'.rowval = P.rowval) (hPz : P'.nzval.size = P.nzval.size)
    (hAm : A'.m = A.m) (hAn : A'.n = A.n) (hAc : A'.colptr = A.colptr)
    (hAr : A'.rowval = A.rowval) (hAz : A'.nzval.size = A.nzval.size) :
    ∃ nz : Array α,
      assembleKktMatrix P' A' cones shape = .ok ({ K with nzval := nz }, map) ∧
      nz.size = K.nzval.size ∧
      (∀ i, i ∉ map.P.toList → i ∉ map.A.toList → nz[i]? = K.nzval[i]?) := by
  have eP : P' = { P with nzval := P'.nzval } := by
    obtain ⟨a, b, c, d, e⟩ := P'
    simp only at hPm hPn hPc hPr
    subst hPm hPn hPc hPr
    rfl
  have eA : A' = { A with nzval := A'.nzval } := by
    obtain ⟨a, b, c, d, e⟩ := A'
    simp only at hAm hAn hAc hAr
    subst hAm hAn hAc hAr
    rfl
  rw [eP, eA]
  exact assembleKktMatrix_values_shape hin h P'.nzval A'.nzval hPz hAz

-- ------------------------------------------------------------------ non-vacuity

section examples
open Clarabel.Lemmas.KktTotal (assembleKktMatrix_run)

/-- `P = [5]`, `A = [7]` (1×1), one zero cone: canonical inputs -/
theorem exInputs : KktInputs (⟨1, 1, #[0, 1], #[0], #[5]⟩ : Csc Int) ⟨1, 1, #[0, 1], #[0], #[7]⟩
    [.zero 1] := by
  refine ⟨⟨rfl, rfl, ?_, rfl, rfl, ?_, ?_⟩, ?_, rfl, ⟨rfl, rfl, ?_, rfl, rfl, ?_, ?_⟩, rfl, rfl⟩
  · intro i hi; match i, hi with
    | 0, _ => decide
  · intro j hj; match j, hj with
    | 0, _ => decide
  · intro i hi j h1 h2; match i, hi with
    | 0, _ => exact absurd h2 (by show ¬ j + 1 < 1; omega)
  · intro i hi j h1 h2; match i, hi with
    | 0, _ => have : j = 0 := by have : j < 1 := h2; omega
              subst this; decide
  · intro i hi; match i, hi with
    | 0, _ => decide
  · intro j hj; match j, hj with
    | 0, _ => decide
  · intro i hi j h1 h2; match i, hi with
    | 0, _ => exact absurd h2 (by show ¬ j + 1 < 1; omega)

/-- non-vacuity of `assembleKktMatrix_values`: all hypotheses hold on a concrete instance
(`P = [5]`, `A = [7]`, one zero cone; new values `[9]`, `[-3]`), and the conclusion follows -/
example : ∃ (P A K : Csc Int) (cones : List ConeSpec) (map : LDLDataMap) (vP vA : Array Int),
    KktInputs P A cones ∧ assembleKktMatrix P A cones .triu = .ok (K, map) ∧
    vP.size = P.nzval.size ∧ vA.size = A.nzval.size ∧ vP ≠ P.nzval ∧ vA ≠ A.nzval ∧
    ∃ nz : Array Int,
      assembleKktMatrix { P with nzval := vP } { A with nzval := vA } cones .triu
        = .ok ({ K with nzval := nz }, map) ∧ nz.size = K.nzval.size := by
  obtain ⟨K, map, sched, Kc, nd, R⟩ := assembleKktMatrix_run _ _ _ .triu exInputs.P_canon
    exInputs.P_triu exInputs.P_square exInputs.A_canon exInputs.n_eq exInputs.m_eq
  obtain ⟨nz, h1, h2, _⟩ := assembleKktMatrix_values exInputs R.ok #[9] #[-3] rfl rfl
  exact ⟨_, _, K, _, map, #[9], #[-3], exInputs, R.ok, rfl, rfl, by decide, by decide, nz, h1, h2⟩

end examples

end Clarabel.Lemmas.UpdateAsmValues
