/-
  Dense (operator level) counterpart of `KktSystem.solveAssemble`, built from the same scalar
  model functions `tauNum`, `tauDen`, `deltaKappa`, and the algebra behind
  `C06.reduced_solve_is_newton` / `C06.residual_contraction`.
-/
import ClarabelModel.KktSystem
import ClarabelProofs.Lemmas.Duality
import Mathlib.Tactic.FieldSimp

namespace Clarabel.Lemmas
open Matrix Clarabel

set_option linter.unusedSectionVars false

variable {α : Type} [Field α] {n m : ℕ}

structure DenseStep (α : Type) (n m : ℕ) where
  dx : Fin n → α
  ds : Fin m → α
  dz : Fin m → α
  dτ : α
  dκ : α

/-- `DefaultKKTSystem::solve` after the two linear solves, with `P`, `Hs` as dense operators
(the vector operations of `KktSystem.solveAssemble` written with `•`, `+`, `⬝ᵥ`, `*ᵥ`) -/
def assembleDense (P : Matrix (Fin n) (Fin n) α) (H : Matrix (Fin m) (Fin m) α)
    (q : Fin n → α) (b : Fin m → α) (x : Fin n → α) (τ κ rhsτ rhsκ : α) (c : Fin m → α)
    (x1 : Fin n → α) (z1 : Fin m → α) (x2 : Fin n → α) (z2 : Fin m → α) : DenseStep α n m :=
  let ξ := (1 / τ) • x
  let tn := KktSystem.tauNum rhsτ rhsκ τ (q ⬝ᵥ x1) (b ⬝ᵥ z1) (ξ ⬝ᵥ P *ᵥ x1)
  let ξm := (-1 : α) • x2 + (1 : α) • ξ
  let td := KktSystem.tauDen κ τ (q ⬝ᵥ x2) (b ⬝ᵥ z2) (ξm ⬝ᵥ P *ᵥ ξm) (x2 ⬝ᵥ P *ᵥ x2)
  let dτ := tn / td
  let dz := (1 : α) • z1 + dτ • z2
  { dx := (1 : α) • x1 + dτ • x2
    dz := dz
    ds := (-1 : α) • c + (-1 : α) • (H *ᵥ dz)
    dτ := dτ
    dκ := KktSystem.deltaKappa rhsκ κ τ dτ }

/-- the scalar heart of the τ elimination -/
theorem tau_row_scalar (rhsτ rhsκ τ κ a1 a2 b1 b2 p1 p2 pξ p22 dτ : α) (hτ : τ ≠ 0)
    (key : dτ * KktSystem.tauDen κ τ a2 b2 (pξ - 2 * p2 + p22) p22
      = KktSystem.tauNum rhsτ rhsκ τ a1 b1 p1) :
    (a1 + dτ * a2) + (b1 + dτ * b2) + KktSystem.deltaKappa rhsκ κ τ dτ + 2 * (p1 + dτ * p2) - pξ * dτ
      = -rhsτ := by
  unfold KktSystem.tauDen KktSystem.tauNum at key
  unfold KktSystem.deltaKappa
  field_simp
  field_simp at key
  linear_combination (-1 : α) * key

/-- the scalar heart of the τ-residual update: with `x = τξ`, old residual
`r = τ·qξ + bz + κ + τ²pξξ/τ`, the τ row of the Newton system and `τ' = τ + aΔτ ≠ 0` -/
theorem tau_residual_scalar (τ a dτ qξ qd bz bdz κ dκ σ pξξ pξd pdd : α) (hτ : τ ≠ 0)
    (hτ' : τ + a * dτ ≠ 0)
    (eτ : qd + bdz + dκ + 2 * pξd - pξξ * dτ = -((1 - σ) * (τ * qξ + bz + κ + τ ^ 2 * pξξ / τ))) :
    (τ * qξ + a * qd) + (bz + a * bdz) + (κ + a * dκ)
        + (τ ^ 2 * pξξ + 2 * a * τ * pξd + a ^ 2 * pdd) / (τ + a * dτ)
      = (1 - a * (1 - σ)) * (τ * qξ + bz + κ + τ ^ 2 * pξξ / τ)
        + a ^ 2 * (pdd - 2 * dτ * pξd + dτ ^ 2 * pξξ) / (τ + a * dτ) := by
  have hq : qd = -((1 - σ) * (τ * qξ + bz + κ + τ ^ 2 * pξξ / τ)) - bdz - dκ - 2 * pξd + pξξ * dτ := by
    linear_combination eτ
  rw [hq]
  field_simp
  ring

end Clarabel.Lemmas
