/-
  C06, generalised power cone: the `Δs` of the combined step.

  The generalised power cone has no third-order correction (`combined_ds_shift` is `σμ·grad`,
  C14 `genpow_combined_ds_shift`), `affine_ds` copies `s`, `Δs_from_Δz_offset` copies `rhs.s`.
  `genpowDs` reproduces the operation order of the code on arrays
  (`rhs.s ← 1·shift + 1·rhs.s`, `Δs ← −1·Δs_const + (−1)·mul_Hs(Δz)`), and `genpowDs_spec` shows
  that entrywise `Δs = −Hs Δz − (s + σμ·g(z))`, `Hs Δz` being whatever `GenPow.mulHs` returns.
-/
import ClarabelModel.Cones.GenPow
import ClarabelProofs.Lemmas.ScalarInst
import Mathlib.Tactic.Ring

namespace Clarabel.Lemmas

/-- size of `axpby` (`y ← a·x + b·y`): the shorter of the two -/
theorem size_axpby (a b : ℝ) (x y : Array ℝ) : (Vec.axpby a x b y).size = min y.size x.size := by
  simp [Vec.axpby]

/-- entry `i` of `axpby` -/
theorem getElem_axpby (a b : ℝ) (x y : Array ℝ) (i : Nat) (hx : i < x.size) (hy : i < y.size)
    (h : i < (Vec.axpby a x b y).size) :
    (Vec.axpby a x b y)[i] = a * x[i] + b * y[i] := by
  simp [Vec.axpby]

/-- `GenPow.mulHs` returns a vector of the length of `p` (the cone's dimension): the
`assert_eq!` of `axpby` -/
theorem genpow_mulHs_size (D : GenPow.Data ℝ) (mu : ℝ) (dim1 : Nat) (x h : Array ℝ)
    (hm : GenPow.mulHs D mu dim1 x = .ok h) : h.size = D.p.size := by
  unfold GenPow.mulHs at hm
  simp only [bind, Except.bind, pure, Except.pure] at hm
  split at hm
  · cases hm
  · split at hm
    · cases hm
    · rename_i hsz
      injection hm with hm
      subst hm
      simp only [bne_iff_ne, ne_eq, Decidable.not_not] at hsz
      simp only [Vec.scale, Array.size_map, size_axpby]
      omega

/-- the `Δs` of the combined step on a generalised power cone, in the order the code computes
it: `shift = combined_ds_shift(…, σμ)`; `rhs.s ← 1·shift + 1·rhs.s` with `rhs.s = affine_ds = s`
(`combined_step_rhs`); `Δs_const = Δs_from_Δz_offset(rhs.s)` is a copy;
`Δs ← −1·Δs_const + (−1)·h` with `h = mul_Hs(Δz)` (`DefaultKKTSystem::solve`). -/
noncomputable def genpowDs (D : GenPow.Data ℝ) (s dza dsa : Array ℝ) (σμ : ℝ) (h : Array ℝ) :
    Array ℝ :=
  let shift := GenPow.combinedDsShift D dza dsa σμ
  let rhsS := Vec.axpby 1 shift 1 s
  let dsConst := rhsS
  Vec.axpby (-1) dsConst (-1) h

/-- **generalised power cone**: `Δs = −Hs Δz − (s + σμ·g(z))`, entry by entry, for the `Hs Δz`
that `GenPow.mulHs` returns; there is no third-order term. -/
theorem genpowDs_spec (D : GenPow.Data ℝ) (mu : ℝ) (dim1 : Nat) (s dz dza dsa h : Array ℝ) (σμ : ℝ)
    (hm : GenPow.mulHs D mu dim1 dz = .ok h) (hs : s.size = D.grad.size)
    (hp : D.p.size = D.grad.size) :
    ∃ hsz : (genpowDs D s dza dsa σμ h).size = D.grad.size, ∃ hh : h.size = D.grad.size,
      ∀ i (hi : i < D.grad.size),
        (genpowDs D s dza dsa σμ h)[i]'(hsz ▸ hi)
          = -h[i]'(hh ▸ hi) - (s[i]'(hs ▸ hi) + σμ * D.grad[i]) := by
  have hh : h.size = D.grad.size := (genpow_mulHs_size D mu dim1 dz h hm).trans hp
  have hsh : (GenPow.combinedDsShift D dza dsa σμ).size = D.grad.size := by
    simp [GenPow.combinedDsShift]
  have hr : (Vec.axpby 1 (GenPow.combinedDsShift D dza dsa σμ) 1 s).size = D.grad.size := by
    rw [size_axpby, hsh, hs]; exact Nat.min_self _
  have hsz : (genpowDs D s dza dsa σμ h).size = D.grad.size := by
    unfold genpowDs
    rw [size_axpby, hr, hh]; exact Nat.min_self _
  refine ⟨hsz, hh, fun i hi => ?_⟩
  unfold genpowDs
  rw [getElem_axpby (-1) (-1) _ h i (hr ▸ hi) (hh ▸ hi),
    getElem_axpby 1 1 _ s i (hsh ▸ hi) (hs ▸ hi)]
  simp only [GenPow.combinedDsShift, Array.getElem_map]
  ring

end Clarabel.Lemmas
