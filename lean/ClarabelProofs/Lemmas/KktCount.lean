/-
  "The counting pass counts exactly the fill schedule."

  `Kkt.kktAssembleColcounts` (model of `_kkt_assemble_colcounts`) leaves in every counter
  `colptr[c]` exactly the number of entries that the global fill schedule `Kkt.kktSchedule`
  (the concatenation of the schedules of all `fill_*` calls of `_kkt_assemble_fill`) places in
  column `c`.  Every `colcount_*` utility is matched with the schedule of its `fill_*` twin
  (`CountSpec`), the pieces are composed along the cone list, and the main theorem is
  `kktAssembleColcounts_counts`.  No arithmetic law of the scalar type is used.
-/
import ClarabelModel.Kkt
import ClarabelProofs.Lemmas.KktPlace
import ClarabelProofs.Lemmas.KktSchedule

namespace Clarabel.Lemmas.KktCount
open Clarabel Clarabel.Csc Clarabel.Kkt Clarabel.Lemmas.KktPlace

-- ------------------------------------------------------------------ generic helpers

theorem bind_ok {ε β γ : Type} {x : Except ε β} {f : β → Except ε γ} {c : γ}
    (h : (x >>= f) = .ok c) : ∃ b, x = .ok b ∧ f b = .ok c := by
  cases x with
  | error e => cases h
  | ok b => exact ⟨b, rfl, h⟩

/-- effect of one counting step: counter `col` advanced by `amt`, nothing else touched -/
def StepSpec (cp cp' : Array Nat) (col amt : Nat) : Prop :=
  cp'.size = cp.size ∧ ∀ c, cp'[c]? = (cp[c]?).map (· + if col = c then amt else 0)

theorem stepSpec_addAt {cp cp' : Array Nat} {i a : Nat} {s : String}
    (h : addAt cp i a s = .ok cp') : StepSpec cp cp' i a := by
  rw [addAt_ok] at h
  obtain ⟨v, hv, rfl⟩ := h
  have hi : i < cp.size := (Array.getElem?_eq_some_iff.mp hv).1
  refine ⟨by simp, fun c => ?_⟩
  by_cases hc : i = c
  · subst hc
    rw [Array.getElem?_setIfInBounds_self_of_lt hi, hv]; simp
  · rw [Array.getElem?_setIfInBounds_ne hc]
    cases cp[c]? <;> simp [hc]

theorem stepSpec_pure (cp : Array Nat) (col : Nat) : StepSpec cp cp col 0 := by
  refine ⟨rfl, fun c => ?_⟩
  cases cp[c]? <;> simp

/-- a fold of counting steps adds, to counter `c`, the amounts of the steps aimed at `c` -/
theorem foldlM_stepSpec {ι : Type} (step : Array Nat → ι → MErr (Array Nat)) (f g : ι → Nat)
    (l : List ι)
    (hstep : ∀ k ∈ l, ∀ cp cp', step cp k = .ok cp' → StepSpec cp cp' (f k) (g k))
    (cp0 cp' : Array Nat) (h : l.foldlM step cp0 = .ok cp') :
    cp'.size = cp0.size ∧
      ∀ c, cp'[c]? = (cp0[c]?).map (· + (l.map (fun k => if f k = c then g k else 0)).sum) := by
  induction l generalizing cp0 with
  | nil =>
    simp [pure, Except.pure] at h
    subst h
    refine ⟨rfl, fun c => ?_⟩
    cases cp0[c]? <;> simp
  | cons k rest ih =>
    rw [List.foldlM_cons] at h
    obtain ⟨cp1, h1, h2⟩ := bind_ok h
    obtain ⟨hs1, hg1⟩ := hstep k (by simp) cp0 cp1 h1
    obtain ⟨hs2, hg2⟩ := ih (fun k' hk' => hstep k' (by simp [hk'])) cp1 h2
    refine ⟨by rw [hs2, hs1], fun c => ?_⟩
    rw [hg2 c, hg1 c]
    cases cp0[c]? <;> simp
    omega

theorem sum_filter_map_eq {ι : Type} (f g : ι → Nat) (c : Nat) (l : List ι) :
    ((l.filter (fun k => f k == c)).map g).sum
      = (l.map (fun k => if f k = c then g k else 0)).sum := by
  induction l with
  | nil => simp
  | cons k rest ih =>
    by_cases hk : f k = c <;> simp [hk, ih]

/-- item 1 of the plan, in the `filter` form -/
theorem foldlM_addAt {ι : Type} (f g : ι → Nat) (site : String) (l : List ι) (cp0 cp' : Array Nat)
    (h : l.foldlM (fun cp k => addAt cp (f k) (g k) site) cp0 = .ok cp') :
    cp'.size = cp0.size ∧
      ∀ c, cp'[c]? = (cp0[c]?).map (· + ((l.filter (fun k => f k == c)).map g).sum) := by
  obtain ⟨hs, hg⟩ := foldlM_stepSpec _ f g l (fun k _ cp cp' h => stepSpec_addAt h) cp0 cp' h
  exact ⟨hs, fun c => by rw [hg c, sum_filter_map_eq]⟩

theorem sum_range_single (g : Nat → Nat) (off c d : Nat) :
    ((List.range d).map (fun k => if off + k = c then g k else 0)).sum
      = if off ≤ c ∧ c - off < d then g (c - off) else 0 := by
  induction d with
  | zero => simp
  | succ d ih =>
    rw [List.range_succ, List.map_append, List.sum_append, ih]
    simp only [List.map_cons, List.map_nil, List.sum_cons, List.sum_nil, Nat.add_zero]
    by_cases h1 : off + d = c
    · have h2 : c - off = d := by omega
      have h3 : off ≤ c := by omega
      simp [h1, h2, h3]
    · by_cases h4 : off ≤ c ∧ c - off < d
      · have h5 : off ≤ c ∧ c - off < d + 1 := ⟨h4.1, by omega⟩
        simp [h1, h4, h5]
      · have h5 : ¬ (off ≤ c ∧ c - off < d + 1) := by omega
        simp [h1, h4, h5]

theorem countP_eq_sum {ι : Type} (p : ι → Bool) (l : List ι) :
    l.countP p = (l.map (fun k => if p k then 1 else 0)).sum := by
  induction l with
  | nil => simp
  | cons k rest ih =>
    rw [List.countP_cons, ih]
    cases h : p k <;> simp [h] <;> omega

theorem countP_range_eq (off c d : Nat) :
    (List.range d).countP (fun k => off + k == c) = if off ≤ c ∧ c - off < d then 1 else 0 := by
  rw [countP_eq_sum]
  simpa using sum_range_single (fun _ => 1) off c d

theorem sum_range_ge (off c d : Nat) :
    ((List.range d).map (fun r => if off ≤ c ∧ c - off < r + 1 then 1 else 0)).sum
      = if off ≤ c ∧ c - off < d then d - (c - off) else 0 := by
  induction d with
  | zero => simp
  | succ d ih =>
    rw [List.range_succ, List.map_append, List.sum_append, ih]
    simp only [List.map_cons, List.map_nil, List.sum_cons, List.sum_nil, Nat.add_zero]
    split <;> split <;> omega

-- ------------------------------------------------------------------ `cnt`

variable {α : Type}

theorem cnt_nil (c : Nat) : cnt c ([] : List (Entry α)) = 0 := rfl

theorem cnt_append (c : Nat) (l1 l2 : List (Entry α)) : cnt c (l1 ++ l2) = cnt c l1 + cnt c l2 :=
  List.countP_append

theorem cnt_map {ι : Type} (c : Nat) (l : List ι) (F : ι → Entry α) :
    cnt c (l.map F) = l.countP (fun i => (F i).readCol == c) := by
  unfold cnt
  rw [List.countP_map]
  rfl

theorem cnt_flatten (c : Nat) (L : List (List (Entry α))) :
    cnt c L.flatten = (L.map (cnt c)).sum := by
  unfold cnt
  rw [List.countP_flatten]

/-- a list all of whose entries sit in column `x` -/
theorem cnt_const_col (c x : Nat) (l : List (Entry α)) (h : ∀ e ∈ l, e.readCol = x) :
    cnt c l = if x = c then l.length else 0 := by
  unfold cnt
  split
  · rename_i hx
    rw [List.countP_eq_length]
    intro e he
    simp [h e he, hx]
  · rename_i hx
    rw [List.countP_eq_zero]
    intro e he
    simp [h e he, hx]

-- ------------------------------------------------------------------ `CountSpec`

/-- `K'` is `K` with every counter `c` advanced by the number of entries of `l` in column `c` -/
structure CountSpec (K K' : Csc α) (l : List (Entry α)) : Prop where
  colptr_size : K'.colptr.size = K.colptr.size
  m_eq : K'.m = K.m
  n_eq : K'.n = K.n
  rowval_eq : K'.rowval = K.rowval
  nzval_eq : K'.nzval = K.nzval
  colptr_get : ∀ c, K'.colptr[c]? = (K.colptr[c]?).map (· + cnt c l)

theorem CountSpec.refl (K : Csc α) : CountSpec K K [] := by
  refine ⟨rfl, rfl, rfl, rfl, rfl, fun c => ?_⟩
  cases K.colptr[c]? <;> simp [cnt]

theorem CountSpec.trans {K K1 K2 : Csc α} {l1 l2 : List (Entry α)}
    (h1 : CountSpec K K1 l1) (h2 : CountSpec K1 K2 l2) : CountSpec K K2 (l1 ++ l2) := by
  refine ⟨by rw [h2.colptr_size, h1.colptr_size], by rw [h2.m_eq, h1.m_eq],
    by rw [h2.n_eq, h1.n_eq], by rw [h2.rowval_eq, h1.rowval_eq],
    by rw [h2.nzval_eq, h1.nzval_eq], fun c => ?_⟩
  rw [h2.colptr_get c, h1.colptr_get c, cnt_append]
  cases K.colptr[c]? <;> simp
  omega

theorem CountSpec.congr {K K' : Csc α} {l l' : List (Entry α)} (h : CountSpec K K' l)
    (hl : l = l') : CountSpec K K' l' := hl ▸ h

theorem CountSpec.of_colptr {K : Csc α} {cp : Array Nat} {l : List (Entry α)}
    (hs : cp.size = K.colptr.size) (hg : ∀ c, cp[c]? = (K.colptr[c]?).map (· + cnt c l)) :
    CountSpec K { K with colptr := cp } l :=
  ⟨hs, rfl, rfl, rfl, rfl, hg⟩

/-- the conjunction form of `CountSpec` -/
theorem CountSpec.to_and {K K' : Csc α} {l : List (Entry α)} (h : CountSpec K K' l) :
    K'.colptr.size = K.colptr.size ∧
      (K'.m = K.m ∧ K'.n = K.n ∧ K'.rowval = K.rowval ∧ K'.nzval = K.nzval) ∧
      ∀ c, K'.colptr[c]? = (K.colptr[c]?).map (· + cnt c l) :=
  ⟨h.colptr_size, ⟨h.m_eq, h.n_eq, h.rowval_eq, h.nzval_eq⟩, h.colptr_get⟩

variable {α : Type} [OfNat α 0]

-- ------------------------------------------------------------------ diag / rowvec / colvec

theorem cnt_diagSchedule (c off d : Nat) :
    cnt c (diagSchedule (α := α) off d) = if off ≤ c ∧ c - off < d then 1 else 0 := by
  unfold diagSchedule
  rw [cnt_map]
  exact countP_range_eq off c d

theorem cnt_rowvecSchedule (c len row col : Nat) :
    cnt c (rowvecSchedule (α := α) len row col) = if col ≤ c ∧ c - col < len then 1 else 0 := by
  unfold rowvecSchedule
  rw [cnt_map]
  exact countP_range_eq col c len

theorem cnt_colvecSchedule (c len row col : Nat) :
    cnt c (colvecSchedule (α := α) len row col) = if col = c then len else 0 := by
  unfold colvecSchedule
  rw [cnt_const_col c col]
  · simp
  · intro e he
    simp only [List.mem_map] at he
    obtain ⟨i, _, rfl⟩ := he
    rfl

theorem colcountDiag_spec {K K' : Csc α} {off d : Nat} (h : colcountDiag K off d = .ok K') :
    CountSpec K K' (diagSchedule off d) := by
  unfold colcountDiag at h
  obtain ⟨_, _, h⟩ := bind_ok h
  obtain ⟨cp, hcp, h⟩ := bind_ok h
  simp only [pure, Except.pure] at h
  cases h
  obtain ⟨hs, hg⟩ := foldlM_stepSpec _ (fun k => off + k) (fun _ => 1) _
    (fun k _ cp cp' h => stepSpec_addAt h) _ _ hcp
  exact CountSpec.of_colptr hs (fun c => by rw [hg c, sum_range_single, cnt_diagSchedule])

theorem colcountRowvec_spec {K K' : Csc α} {len row col : Nat}
    (h : colcountRowvec K len row col = .ok K') :
    CountSpec K K' (rowvecSchedule len row col) := by
  unfold colcountRowvec at h
  obtain ⟨_, _, h⟩ := bind_ok h
  obtain ⟨cp, hcp, h⟩ := bind_ok h
  simp only [pure, Except.pure] at h
  cases h
  obtain ⟨hs, hg⟩ := foldlM_stepSpec _ (fun k => col + k) (fun _ => 1) _
    (fun k _ cp cp' h => stepSpec_addAt h) _ _ hcp
  exact CountSpec.of_colptr hs (fun c => by rw [hg c, sum_range_single, cnt_rowvecSchedule])

theorem colcountColvec_spec {K K' : Csc α} {len row col : Nat}
    (h : colcountColvec K len row col = .ok K') :
    CountSpec K K' (colvecSchedule len row col) := by
  unfold colcountColvec at h
  obtain ⟨cp, hcp, h⟩ := bind_ok h
  simp only [pure, Except.pure] at h
  cases h
  obtain ⟨hs, hg⟩ := stepSpec_addAt hcp
  exact CountSpec.of_colptr hs (fun c => by rw [hg c, cnt_colvecSchedule])

-- ------------------------------------------------------------------ dense triangles

theorem cnt_zipIdx_cells (c : Nat) (cells : List (Nat × Nat)) :
    cnt c (cells.zipIdx.map (fun p => Entry.mk' (α := α) p.1.1 p.1.2 0 p.2))
      = cells.countP (fun p => p.1 == c) := by
  rw [cnt_map]
  have : cells.countP (fun p => p.1 == c)
      = (cells.zipIdx.map Prod.fst).countP (fun p => p.1 == c) := by
    rw [List.zipIdx_map_fst]
  rw [this, List.countP_map]
  rfl

theorem countP_const {ι : Type} (b : Bool) (l : List ι) :
    l.countP (fun _ => b) = if b then l.length else 0 := by
  cases b <;> simp

theorem cnt_denseTriuSchedule (c off d : Nat) :
    cnt c (denseTriuSchedule (α := α) off d)
      = if off ≤ c ∧ c - off < d then (c - off) + 1 else 0 := by
  unfold denseTriuSchedule
  simp only []
  rw [cnt_zipIdx_cells, List.countP_flatMap, ← sum_range_single (fun k => k + 1) off c d]
  congr 1
  apply List.map_congr_left
  intro k _
  simp only [Function.comp, List.countP_map]
  rw [show ((fun p : Nat × Nat => p.1 == c) ∘ fun r => (off + k, off + r))
      = fun _ => (off + k == c) from rfl, countP_const]
  simp

theorem cnt_denseTrilSchedule (c off d : Nat) :
    cnt c (denseTrilSchedule (α := α) off d)
      = if off ≤ c ∧ c - off < d then d - (c - off) else 0 := by
  unfold denseTrilSchedule
  simp only []
  rw [cnt_zipIdx_cells, List.countP_flatMap, ← sum_range_ge off c d]
  congr 1
  apply List.map_congr_left
  intro r _
  simp only [Function.comp, List.countP_map]
  exact countP_range_eq off c (r + 1)

theorem colcountDenseTriangle_triu_spec {K K' : Csc α} {off d : Nat}
    (h : colcountDenseTriangle K off d .triu = .ok K') :
    CountSpec K K' (denseTriuSchedule off d) := by
  unfold colcountDenseTriangle at h
  obtain ⟨_, _, h⟩ := bind_ok h
  obtain ⟨cp, hcp, h⟩ := bind_ok h
  simp only [pure, Except.pure] at h
  cases h
  obtain ⟨hs, hg⟩ := foldlM_stepSpec _ (fun k => off + k) (fun k => k + 1) _
    (fun k _ cp cp' h => stepSpec_addAt h) _ _ hcp
  exact CountSpec.of_colptr hs (fun c => by rw [hg c, sum_range_single, cnt_denseTriuSchedule])

theorem colcountDenseTriangle_tril_spec {K K' : Csc α} {off d : Nat}
    (h : colcountDenseTriangle K off d .tril = .ok K') :
    CountSpec K K' (denseTrilSchedule off d) := by
  unfold colcountDenseTriangle at h
  obtain ⟨_, _, h⟩ := bind_ok h
  obtain ⟨cp, hcp, h⟩ := bind_ok h
  simp only [pure, Except.pure] at h
  cases h
  obtain ⟨hs, hg⟩ := foldlM_stepSpec _ (fun k => off + k) (fun k => d - k) _
    (fun k _ cp cp' h => stepSpec_addAt h) _ _ hcp
  exact CountSpec.of_colptr hs (fun c => by rw [hg c, sum_range_single, cnt_denseTrilSchedule])

end Clarabel.Lemmas.KktCount
