/-
  "The counting pass counts exactly the fill schedule."

  `Kkt.kktAssembleColcounts` (model of `_kkt_assemble_colcounts`) leaves in every counter
  `colptr[c]` exactly the number of entries that the global fill schedule `Kkt.kktSchedule`
  (the concatenation of the schedules of all `fill_*` calls of `_kkt_assemble_fill`) places in
  column `c`.  Every `colcount_*` utility is matched with the schedule of its `fill_*` twin
  (`CountSpec`), the pieces are composed along the cone list, and the main theorem is
  `kktAssembleColcounts_counts`.  No arithmetic law of the scalar type is used.
-/
import ClarabelModel.Kkt
import ClarabelProofs.Lemmas.KktPlace
import ClarabelProofs.Lemmas.KktSchedule

namespace Clarabel.Lemmas.KktCount
open Clarabel Clarabel.Csc Clarabel.Kkt Clarabel.Lemmas.KktPlace

-- ------------------------------------------------------------------ generic helpers

theorem bind_ok {ε β γ : Type} {x : Except ε β} {f : β → Except ε γ} {c : γ}
    (h : (x >>= f) = .ok c) : ∃ b, x = .ok b ∧ f b = .ok c := by
  cases x with
  | error e => cases h
  | ok b => exact ⟨b, rfl, h⟩

/-- effect of one counting step: counter `col` advanced by `amt`, nothing else touched -/
def StepSpec (cp cp' : Array Nat) (col amt : Nat) : Prop :=
  cp'.size = cp.size ∧ ∀ c, cp'[c]? = (cp[c]?).map (· + if col = c then amt else 0)

theorem stepSpec_addAt {cp cp' : Array Nat} {i a : Nat} {s : String}
    (h : addAt cp i a s = .ok cp') : StepSpec cp cp' i a := by
  rw [addAt_ok] at h
  obtain ⟨v, hv, rfl⟩ := h
  have hi : i < cp.size := (Array.getElem?_eq_some_iff.mp hv).1
  refine ⟨by simp, fun c => ?_⟩
  by_cases hc : i = c
  · subst hc
    rw [Array.getElem?_setIfInBounds_self_of_lt hi, hv]; simp
  · rw [Array.getElem?_setIfInBounds_ne hc]
    cases cp[c]? <;> simp [hc]

theorem stepSpec_pure (cp : Array Nat) (col : Nat) : StepSpec cp cp col 0 := by
  refine ⟨rfl, fun c => ?_⟩
  cases cp[c]? <;> simp

/-- a fold of counting steps adds, to counter `c`, the amounts of the steps aimed at `c` -/
theorem foldlM_stepSpec {ι : Type} (step : Array Nat → ι → MErr (Array Nat)) (f g : ι → Nat)
    (l : List ι)
    (hstep : ∀ k ∈ l, ∀ cp cp', step cp k = .ok cp' → StepSpec cp cp' (f k) (g k))
    (cp0 cp' : Array Nat) (h : l.foldlM step cp0 = .ok cp') :
    cp'.size = cp0.size ∧
      ∀ c, cp'[c]? = (cp0[c]?).map (· + (l.map (fun k => if f k = c then g k else 0)).sum) := by
  induction l generalizing cp0 with
  | nil =>
    simp [pure, Except.pure] at h
    subst h
    refine ⟨rfl, fun c => ?_⟩
    cases cp0[c]? <;> simp
  | cons k rest ih =>
    rw [List.foldlM_cons] at h
    obtain ⟨cp1, h1, h2⟩ := bind_ok h
    obtain ⟨hs1, hg1⟩ := hstep k (by simp) cp0 cp1 h1
    obtain ⟨hs2, hg2⟩ := ih (fun k' hk' => hstep k' (by simp [hk'])) cp1 h2
    refine ⟨by rw [hs2, hs1], fun c => ?_⟩
    rw [hg2 c, hg1 c]
    cases cp0[c]? <;> simp
    omega

theorem sum_filter_map_eq {ι : Type} (f g : ι → Nat) (c : Nat) (l : List ι) :
    ((l.filter (fun k => f k == c)).map g).sum
      = (l.map (fun k => if f k = c then g k else 0)).sum := by
  induction l with
  | nil => simp
  | cons k rest ih =>
    by_cases hk : f k = c <;> simp [hk, ih]

/-- item 1 of the plan, in the `filter` form -/
theorem foldlM_addAt {ι : Type} (f g : ι → Nat) (site : String) (l : List ι) (cp0 cp' : Array Nat)
    (h : l.foldlM (fun cp k => addAt cp (f k) (g k) site) cp0 = .ok cp') :
    cp'.size = cp0.size ∧
      ∀ c, cp'[c]? = (cp0[c]?).map (· + ((l.filter (fun k => f k == c)).map g).sum) := by
  obtain ⟨hs, hg⟩ := foldlM_stepSpec _ f g l (fun k _ cp cp' h => stepSpec_addAt h) cp0 cp' h
  exact ⟨hs, fun c => by rw [hg c, sum_filter_map_eq]⟩

theorem sum_range_single (g : Nat → Nat) (off c d : Nat) :
    ((List.range d).map (fun k => if off + k = c then g k else 0)).sum
      = if off ≤ c ∧ c - off < d then g (c - off) else 0 := by
  induction d with
  | zero => simp
  | succ d ih =>
    rw [List.range_succ, List.map_append, List.sum_append, ih]
    simp only [List.map_cons, List.map_nil, List.sum_cons, List.sum_nil, Nat.add_zero]
    by_cases h1 : off + d = c
    · have h2 : c - off = d := by omega
      have h3 : off ≤ c := by omega
      simp [h1, h2, h3]
    · by_cases h4 : off ≤ c ∧ c - off < d
      · have h5 : off ≤ c ∧ c - off < d + 1 := ⟨h4.1, by omega⟩
        simp [h1, h4, h5]
      · have h5 : ¬ (off ≤ c ∧ c - off < d + 1) := by omega
        simp [h1, h4, h5]

theorem countP_eq_sum {ι : Type} (p : ι → Bool) (l : List ι) :
    l.countP p = (l.map (fun k => if p k then 1 else 0)).sum := by
  induction l with
  | nil => simp
  | cons k rest ih =>
    rw [List.countP_cons, ih]
    cases h : p k <;> simp [h] <;> omega

theorem countP_range_eq (off c d : Nat) :
    (List.range d).countP (fun k => off + k == c) = if off ≤ c ∧ c - off < d then 1 else 0 := by
  rw [countP_eq_sum]
  simpa using sum_range_single (fun _ => 1) off c d

theorem sum_range_ge (off c d : Nat) :
    ((List.range d).map (fun r => if off ≤ c ∧ c - off < r + 1 then 1 else 0)).sum
      = if off ≤ c ∧ c - off < d then d - (c - off) else 0 := by
  induction d with
  | zero => simp
  | succ d ih =>
    rw [List.range_succ, List.map_append, List.sum_append, ih]
    simp only [List.map_cons, List.map_nil, List.sum_cons, List.sum_nil, Nat.add_zero]
    split <;> split <;> omega

-- ------------------------------------------------------------------ `cnt`

variable {α : Type}

theorem cnt_nil (c : Nat) : cnt c ([] : List (Entry α)) = 0 := rfl

theorem cnt_append (c : Nat) (l1 l2 : List (Entry α)) : cnt c (l1 ++ l2) = cnt c l1 + cnt c l2 :=
  List.countP_append

theorem cnt_map {ι : Type} (c : Nat) (l : List ι) (F : ι → Entry α) :
    cnt c (l.map F) = l.countP (fun i => (F i).readCol == c) := by
  unfold cnt
  rw [List.countP_map]
  rfl

theorem cnt_flatten (c : Nat) (L : List (List (Entry α))) :
    cnt c L.flatten = (L.map (cnt c)).sum := by
  unfold cnt
  rw [List.countP_flatten]

/-- a list all of whose entries sit in column `x` -/
theorem cnt_const_col (c x : Nat) (l : List (Entry α)) (h : ∀ e ∈ l, e.readCol = x) :
    cnt c l = if x = c then l.length else 0 := by
  unfold cnt
  split
  · rename_i hx
    rw [List.countP_eq_length]
    intro e he
    simp [h e he, hx]
  · rename_i hx
    rw [List.countP_eq_zero]
    intro e he
    simp [h e he, hx]

-- ------------------------------------------------------------------ `CountSpec`

/-- `K'` is `K` with every counter `c` advanced by the number of entries of `l` in column `c` -/
structure CountSpec (K K' : Csc α) (l : List (Entry α)) : Prop where
  colptr_size : K'.colptr.size = K.colptr.size
  m_eq : K'.m = K.m
  n_eq : K'.n = K.n
  rowval_eq : K'.rowval = K.rowval
  nzval_eq : K'.nzval = K.nzval
  colptr_get : ∀ c, K'.colptr[c]? = (K.colptr[c]?).map (· + cnt c l)

theorem CountSpec.refl (K : Csc α) : CountSpec K K [] := by
  refine ⟨rfl, rfl, rfl, rfl, rfl, fun c => ?_⟩
  cases K.colptr[c]? <;> simp [cnt]

theorem CountSpec.trans {K K1 K2 : Csc α} {l1 l2 : List (Entry α)}
    (h1 : CountSpec K K1 l1) (h2 : CountSpec K1 K2 l2) : CountSpec K K2 (l1 ++ l2) := by
  refine ⟨by rw [h2.colptr_size, h1.colptr_size], by rw [h2.m_eq, h1.m_eq],
    by rw [h2.n_eq, h1.n_eq], by rw [h2.rowval_eq, h1.rowval_eq],
    by rw [h2.nzval_eq, h1.nzval_eq], fun c => ?_⟩
  rw [h2.colptr_get c, h1.colptr_get c, cnt_append]
  cases K.colptr[c]? <;> simp
  omega

theorem CountSpec.congr {K K' : Csc α} {l l' : List (Entry α)} (h : CountSpec K K' l)
    (hl : l = l') : CountSpec K K' l' := hl ▸ h

theorem CountSpec.of_colptr {K : Csc α} {cp : Array Nat} {l : List (Entry α)}
    (hs : cp.size = K.colptr.size) (hg : ∀ c, cp[c]? = (K.colptr[c]?).map (· + cnt c l)) :
    CountSpec K { K with colptr := cp } l :=
  ⟨hs, rfl, rfl, rfl, rfl, hg⟩

/-- the conjunction form of `CountSpec` -/
theorem CountSpec.to_and {K K' : Csc α} {l : List (Entry α)} (h : CountSpec K K' l) :
    K'.colptr.size = K.colptr.size ∧
      (K'.m = K.m ∧ K'.n = K.n ∧ K'.rowval = K.rowval ∧ K'.nzval = K.nzval) ∧
      ∀ c, K'.colptr[c]? = (K.colptr[c]?).map (· + cnt c l) :=
  ⟨h.colptr_size, ⟨h.m_eq, h.n_eq, h.rowval_eq, h.nzval_eq⟩, h.colptr_get⟩

-- ------------------------------------------------------------------ `mapM` in `Except`

/-- pointwise relation of two lists (core has no `All₂`) -/
inductive All₂ {β γ : Type} (R : β → γ → Prop) : List β → List γ → Prop
  | nil : All₂ R [] []
  | cons {a b l r} : R a b → All₂ R l r → All₂ R (a :: l) (b :: r)

theorem All₂.length_eq {β γ : Type} {R : β → γ → Prop} {l : List β} {r : List γ}
    (h : All₂ R l r) : l.length = r.length := by
  induction h with
  | nil => rfl
  | cons _ _ ih => simp [ih]

/-- `if c then throw e; k` succeeded: the guard was false and the continuation ran -/
theorem ite_throw_ok {γ δ : Type} {c : Prop} [Decidable c] {e : ModelErr} {k : δ → MErr γ}
    {k' : MErr γ} {r : γ}
    (h : (if c then ((throw e : MErr δ) >>= k) else k') = .ok r) : ¬ c ∧ k' = .ok r := by
  split at h
  · cases h
  · exact ⟨by assumption, h⟩

theorem mapM_ok {β γ : Type} (f : β → MErr γ) :
    ∀ (l : List β) (r : List γ), l.mapM f = .ok r → All₂ (fun a b => f a = .ok b) l r
  | [], r, h => by
    simp [pure, Except.pure] at h
    subst h
    exact .nil
  | a :: l, r, h => by
    rw [List.mapM_cons] at h
    obtain ⟨b, hb, h⟩ := bind_ok h
    obtain ⟨bs, hbs, h⟩ := bind_ok h
    simp only [pure, Except.pure] at h
    cases h
    exact .cons hb (mapM_ok f l bs hbs)

theorem forall₂_map_eq {β γ δ : Type} {R : β → γ → Prop} (F : β → δ) (G : γ → δ)
    (hRG : ∀ a b, R a b → F a = G b) {l : List β} {r : List γ} (h : All₂ R l r) :
    l.map F = r.map G := by
  induction h with
  | nil => rfl
  | cons hab _ ih => simp [hRG _ _ hab, ih]

theorem forall₂_right_all {β γ : Type} {R : β → γ → Prop} (P : γ → Prop)
    (hRP : ∀ a b, R a b → P b) {l : List β} {r : List γ} (h : All₂ R l r) :
    ∀ b ∈ r, P b := by
  induction h with
  | nil => simp
  | cons hab _ ih =>
    intro b hb
    rcases List.mem_cons.mp hb with rfl | hb
    · exact hRP _ _ hab
    · exact ih b hb

theorem getD_of_getE {β : Type} {xs : Array β} {i : Nat} {s : String} {v : β} (d : β)
    (h : getE xs i s = .ok v) : xs.getD i d = v := by
  rw [getE_ok] at h
  simp [Array.getD_eq_getD_getElem?, h]

theorem sum_ite_eq_countP {ι : Type} (f : ι → Nat) (c : Nat) (l : List ι) :
    (l.map (fun k => if f k = c then 1 else 0)).sum = l.countP (fun k => f k == c) := by
  rw [countP_eq_sum]
  simp

-- ------------------------------------------------------------------ blocks

/-- well-formedness of the column pointers of a source block: the per-column storage ranges
`colptr[i] .. colptr[i+1]`, `i < n`, tile `0 .. rowval.len()` -/
structure WF (M : Csc α) : Prop where
  zero : M.colptr.getD 0 0 = 0
  mono : ∀ i, i < M.n → M.colptr.getD i 0 ≤ M.colptr.getD (i + 1) 0
  last : M.colptr.getD M.n 0 = M.rowval.size

theorem flatMap_ranges (cp : Array Nat) (h0 : cp.getD 0 0 = 0) (k : Nat)
    (hmono : ∀ i, i < k → cp.getD i 0 ≤ cp.getD (i + 1) 0) :
    (List.range k).flatMap (fun i => List.range' (cp.getD i 0) (cp.getD (i + 1) 0 - cp.getD i 0))
      = List.range' 0 (cp.getD k 0) := by
  induction k with
  | zero => simp [h0]
  | succ k ih =>
    rw [List.range_succ, List.flatMap_append, ih (fun i hi => hmono i (by omega))]
    simp only [List.flatMap_cons, List.flatMap_nil, List.append_nil]
    have := hmono k (by omega)
    have h1 : List.range' (cp.getD k 0) (cp.getD (k + 1) 0 - cp.getD k 0)
        = List.range' (0 + cp.getD k 0) (cp.getD (k + 1) 0 - cp.getD k 0) := by simp
    rw [h1, List.range'_append_1]
    congr 1
    omega

theorem map_getD_range' (xs : Array Nat) (ic : Nat) :
    (List.range' 0 xs.size).map (fun j => xs.getD j 0 + ic) = xs.toList.map (· + ic) := by
  apply List.ext_getElem
  · simp
  · intro i h1 h2
    simp at h1
    simp [Array.getD_eq_getD_getElem?, h1]

theorem cnt_eq_countP_readCol (c : Nat) (l : List (Entry α)) :
    cnt c l = (l.map (·.readCol)).countP (· == c) := by
  unfold cnt
  rw [List.countP_map]
  rfl

/-- the columns read by the transposed block schedule are the row indices of `M`, in storage
order, shifted by `initcol` -/
theorem blockSchedule_T_readCol {M : Csc α} {initrow initcol : Nat} {s : List (Entry α)}
    (hwf : WF M) (hs : blockSchedule M initrow initcol .T = .ok s) :
    s.map (·.readCol) = M.rowval.toList.map (· + initcol) := by
  unfold blockSchedule at hs
  obtain ⟨cols, hcols, hs⟩ := bind_ok hs
  simp only [pure, Except.pure] at hs
  cases hs
  have hF := mapM_ok _ _ _ hcols
  have key : (List.range M.n).map (fun i =>
        (List.range' (M.colptr.getD i 0) (M.colptr.getD (i + 1) 0 - M.colptr.getD i 0)).map
          (fun j => M.rowval.getD j 0 + initcol))
      = cols.map (fun col => col.map (·.readCol)) := by
    refine forall₂_map_eq _ _ ?_ hF
    intro i col hi
    obtain ⟨start, hstart, hi⟩ := bind_ok hi
    obtain ⟨stop, hstop, hi⟩ := bind_ok hi
    rw [getD_of_getE 0 hstart, getD_of_getE 0 hstop]
    refine forall₂_map_eq _ _ ?_ (mapM_ok _ _ _ hi)
    intro j e hj
    obtain ⟨r, hr, hj⟩ := bind_ok hj
    obtain ⟨v, hv, hj⟩ := bind_ok hj
    simp only [pure, Except.pure] at hj
    cases hj
    rw [getD_of_getE 0 hr]
    rfl
  rw [List.map_flatten, ← map_getD_range', ← hwf.last,
    ← flatMap_ranges M.colptr hwf.zero M.n hwf.mono, List.flatMap_def, List.map_flatten,
    List.map_map]
  exact congrArg List.flatten key.symm

theorem cnt_blockSchedule_T {M : Csc α} {initrow initcol : Nat} {s : List (Entry α)}
    (hwf : WF M) (hs : blockSchedule M initrow initcol .T = .ok s) (c : Nat) :
    cnt c s = M.rowval.toList.countP (fun r => initcol + r == c) := by
  rw [cnt_eq_countP_readCol, blockSchedule_T_readCol hwf hs, List.countP_map]
  apply List.countP_congr
  intro r _
  simp [Nat.add_comm]

theorem cnt_blockSchedule_N {M : Csc α} {initrow initcol : Nat} {s : List (Entry α)}
    (hs : blockSchedule M initrow initcol .N = .ok s) (c : Nat) :
    cnt c s = ((List.range M.n).map (fun i =>
      if initcol + i = c then M.colptr.getD (i + 1) 0 - M.colptr.getD i 0 else 0)).sum := by
  unfold blockSchedule at hs
  obtain ⟨cols, hcols, hs⟩ := bind_ok hs
  simp only [pure, Except.pure] at hs
  cases hs
  rw [cnt_flatten]
  congr 1
  refine (forall₂_map_eq _ _ ?_ (mapM_ok _ _ _ hcols)).symm
  intro i col hi
  obtain ⟨start, hstart, hi⟩ := bind_ok hi
  obtain ⟨stop, hstop, hi⟩ := bind_ok hi
  rw [getD_of_getE 0 hstart, getD_of_getE 0 hstop]
  have hF := mapM_ok _ _ _ hi
  have hall : ∀ e ∈ col, e.readCol = initcol + i := by
    refine forall₂_right_all _ ?_ hF
    intro j e hj
    obtain ⟨r, hr, hj⟩ := bind_ok hj
    obtain ⟨v, hv, hj⟩ := bind_ok hj
    simp only [pure, Except.pure] at hj
    cases hj
    exact Nat.add_comm _ _
  have hlen : col.length = stop - start := by
    rw [← hF.length_eq]; simp
  rw [cnt_const_col c (initcol + i) col hall, hlen]

theorem colcountBlock_T_spec {K K' M : Csc α} {initrow initcol : Nat} {s : List (Entry α)}
    (hwf : WF M) (h : colcountBlock K M initcol .T = .ok K')
    (hs : blockSchedule M initrow initcol .T = .ok s) : CountSpec K K' s := by
  unfold colcountBlock at h
  obtain ⟨cp, hcp, h⟩ := bind_ok h
  simp only [pure, Except.pure] at h
  cases h
  obtain ⟨hsz, hg⟩ := foldlM_stepSpec _ (fun r => initcol + r) (fun _ => 1) _
    (fun k _ cp cp' h => stepSpec_addAt h) _ _ hcp
  exact CountSpec.of_colptr hsz (fun c => by
    rw [hg c, sum_ite_eq_countP, cnt_blockSchedule_T hwf hs])

theorem colcountBlock_N_spec {K K' M : Csc α} {initrow initcol : Nat} {s : List (Entry α)}
    (h : colcountBlock K M initcol .N = .ok K')
    (hs : blockSchedule M initrow initcol .N = .ok s) : CountSpec K K' s := by
  unfold colcountBlock at h
  obtain ⟨cp, hcp, h⟩ := bind_ok h
  simp only [pure, Except.pure] at h
  cases h
  obtain ⟨hsz, hg⟩ := foldlM_stepSpec _ (fun i => initcol + i)
    (fun i => M.colptr.getD (i + 1) 0 - M.colptr.getD i 0) _ (by
      intro i _ cp cp' hi
      obtain ⟨lo, hlo, hi⟩ := bind_ok hi
      obtain ⟨hi', hhi, hi⟩ := bind_ok hi
      obtain ⟨_, hi⟩ := ite_throw_ok hi
      simp only [getD_of_getE 0 hlo, getD_of_getE 0 hhi]
      exact stepSpec_addAt hi) _ _ hcp
  exact CountSpec.of_colptr hsz (fun c => by rw [hg c, cnt_blockSchedule_N hs])

/-- `colcount_block` counts the schedule of `fill_block` (any `initrow`; the transposed
shape needs well-formed column pointers of the source) -/
theorem colcountBlock_spec {K K' M : Csc α} {initrow initcol : Nat} {shape : MatrixShape}
    {s : List (Entry α)} (hwf : WF M) (h : colcountBlock K M initcol shape = .ok K')
    (hs : blockSchedule M initrow initcol shape = .ok s) : CountSpec K K' s := by
  cases shape with
  | N => exact colcountBlock_N_spec h hs
  | T => exact colcountBlock_T_spec hwf h hs

variable [OfNat α 0]

-- ------------------------------------------------------------------ diag / rowvec / colvec

theorem cnt_diagSchedule (c off d : Nat) :
    cnt c (diagSchedule (α := α) off d) = if off ≤ c ∧ c - off < d then 1 else 0 := by
  unfold diagSchedule
  rw [cnt_map]
  exact countP_range_eq off c d

theorem cnt_rowvecSchedule (c len row col : Nat) :
    cnt c (rowvecSchedule (α := α) len row col) = if col ≤ c ∧ c - col < len then 1 else 0 := by
  unfold rowvecSchedule
  rw [cnt_map]
  exact countP_range_eq col c len

theorem cnt_colvecSchedule (c len row col : Nat) :
    cnt c (colvecSchedule (α := α) len row col) = if col = c then len else 0 := by
  unfold colvecSchedule
  rw [cnt_const_col c col]
  · simp
  · intro e he
    simp only [List.mem_map] at he
    obtain ⟨i, _, rfl⟩ := he
    rfl

theorem colcountDiag_spec {K K' : Csc α} {off d : Nat} (h : colcountDiag K off d = .ok K') :
    CountSpec K K' (diagSchedule off d) := by
  unfold colcountDiag at h
  obtain ⟨_, _, h⟩ := bind_ok h
  obtain ⟨cp, hcp, h⟩ := bind_ok h
  simp only [pure, Except.pure] at h
  cases h
  obtain ⟨hs, hg⟩ := foldlM_stepSpec _ (fun k => off + k) (fun _ => 1) _
    (fun k _ cp cp' h => stepSpec_addAt h) _ _ hcp
  exact CountSpec.of_colptr hs (fun c => by rw [hg c, sum_range_single, cnt_diagSchedule])

theorem colcountRowvec_spec {K K' : Csc α} {len row col : Nat}
    (h : colcountRowvec K len row col = .ok K') :
    CountSpec K K' (rowvecSchedule len row col) := by
  unfold colcountRowvec at h
  obtain ⟨_, _, h⟩ := bind_ok h
  obtain ⟨cp, hcp, h⟩ := bind_ok h
  simp only [pure, Except.pure] at h
  cases h
  obtain ⟨hs, hg⟩ := foldlM_stepSpec _ (fun k => col + k) (fun _ => 1) _
    (fun k _ cp cp' h => stepSpec_addAt h) _ _ hcp
  exact CountSpec.of_colptr hs (fun c => by rw [hg c, sum_range_single, cnt_rowvecSchedule])

theorem colcountColvec_spec {K K' : Csc α} {len row col : Nat}
    (h : colcountColvec K len row col = .ok K') :
    CountSpec K K' (colvecSchedule len row col) := by
  unfold colcountColvec at h
  obtain ⟨cp, hcp, h⟩ := bind_ok h
  simp only [pure, Except.pure] at h
  cases h
  obtain ⟨hs, hg⟩ := stepSpec_addAt hcp
  exact CountSpec.of_colptr hs (fun c => by rw [hg c, cnt_colvecSchedule])

-- ------------------------------------------------------------------ dense triangles

theorem cnt_zipIdx_cells (c : Nat) (cells : List (Nat × Nat)) :
    cnt c (cells.zipIdx.map (fun p => Entry.mk' (α := α) p.1.1 p.1.2 0 p.2))
      = cells.countP (fun p => p.1 == c) := by
  rw [cnt_map]
  have : cells.countP (fun p => p.1 == c)
      = (cells.zipIdx.map Prod.fst).countP (fun p => p.1 == c) := by
    rw [List.zipIdx_map_fst]
  rw [this, List.countP_map]
  rfl

theorem countP_const {ι : Type} (b : Bool) (l : List ι) :
    l.countP (fun _ => b) = if b then l.length else 0 := by
  cases b <;> simp

theorem cnt_denseTriuSchedule (c off d : Nat) :
    cnt c (denseTriuSchedule (α := α) off d)
      = if off ≤ c ∧ c - off < d then (c - off) + 1 else 0 := by
  unfold denseTriuSchedule
  simp only []
  rw [cnt_zipIdx_cells, List.countP_flatMap, ← sum_range_single (fun k => k + 1) off c d]
  congr 1
  apply List.map_congr_left
  intro k _
  simp only [Function.comp, List.countP_map]
  rw [show ((fun p : Nat × Nat => p.1 == c) ∘ fun r => (off + k, off + r))
      = fun _ => (off + k == c) from rfl, countP_const]
  simp

theorem cnt_denseTrilSchedule (c off d : Nat) :
    cnt c (denseTrilSchedule (α := α) off d)
      = if off ≤ c ∧ c - off < d then d - (c - off) else 0 := by
  unfold denseTrilSchedule
  simp only []
  rw [cnt_zipIdx_cells, List.countP_flatMap, ← sum_range_ge off c d]
  congr 1
  apply List.map_congr_left
  intro r _
  simp only [Function.comp, List.countP_map]
  exact countP_range_eq off c (r + 1)

theorem colcountDenseTriangle_triu_spec {K K' : Csc α} {off d : Nat}
    (h : colcountDenseTriangle K off d .triu = .ok K') :
    CountSpec K K' (denseTriuSchedule off d) := by
  unfold colcountDenseTriangle at h
  obtain ⟨_, _, h⟩ := bind_ok h
  obtain ⟨cp, hcp, h⟩ := bind_ok h
  simp only [pure, Except.pure] at h
  cases h
  obtain ⟨hs, hg⟩ := foldlM_stepSpec _ (fun k => off + k) (fun k => k + 1) _
    (fun k _ cp cp' h => stepSpec_addAt h) _ _ hcp
  exact CountSpec.of_colptr hs (fun c => by rw [hg c, sum_range_single, cnt_denseTriuSchedule])

theorem colcountDenseTriangle_tril_spec {K K' : Csc α} {off d : Nat}
    (h : colcountDenseTriangle K off d .tril = .ok K') :
    CountSpec K K' (denseTrilSchedule off d) := by
  unfold colcountDenseTriangle at h
  obtain ⟨_, _, h⟩ := bind_ok h
  obtain ⟨cp, hcp, h⟩ := bind_ok h
  simp only [pure, Except.pure] at h
  cases h
  obtain ⟨hs, hg⟩ := foldlM_stepSpec _ (fun k => off + k) (fun k => d - k) _
    (fun k _ cp cp' h => stepSpec_addAt h) _ _ hcp
  exact CountSpec.of_colptr hs (fun c => by rw [hg c, sum_range_single, cnt_denseTrilSchedule])

/-- `colcount_dense_triangle` counts the schedule of `fill_dense_triangle` -/
theorem colcountDenseTriangle_spec {K K' : Csc α} {off d : Nat} {shape : MatrixTriangle}
    (h : colcountDenseTriangle K off d shape = .ok K') :
    CountSpec K K' (match shape with
      | .triu => denseTriuSchedule off d
      | .tril => denseTrilSchedule off d) := by
  cases shape with
  | triu => exact colcountDenseTriangle_triu_spec h
  | tril => exact colcountDenseTriangle_tril_spec h

-- ------------------------------------------------------------------ missing diagonal

/-- `1` if column `i` of `M` lacks its diagonal entry -/
def missAmt (M : Csc α) (i : Nat) : Nat :=
  match missingDiagAt M i with
  | .ok true => 1
  | _ => 0

theorem cnt_missingDiagSchedule {M : Csc α} {initcol : Nat} {s : List (Entry α)}
    (hs : missingDiagSchedule M initcol = .ok s) (c : Nat) :
    cnt c s = ((List.range M.n).map (fun i => if i + initcol = c then missAmt M i else 0)).sum := by
  unfold missingDiagSchedule at hs
  obtain ⟨es, hes, hs⟩ := bind_ok hs
  simp only [pure, Except.pure] at hs
  cases hs
  rw [cnt_flatten]
  congr 1
  refine (forall₂_map_eq _ _ ?_ (mapM_ok _ _ _ hes)).symm
  intro i e hi
  obtain ⟨b, hb, hi⟩ := bind_ok hi
  cases b with
  | false =>
    simp only [pure, Except.pure, Bool.false_eq_true, if_false] at hi
    cases hi
    simp [missAmt, hb, cnt]
  | true =>
    simp only [pure, Except.pure, if_true] at hi
    cases hi
    simp [missAmt, hb, cnt]

theorem colcountMissingDiag_spec {K K' M : Csc α} {initcol : Nat} {s : List (Entry α)}
    (h : colcountMissingDiag K M initcol = .ok K')
    (hs : missingDiagSchedule M initcol = .ok s) : CountSpec K K' s := by
  unfold colcountMissingDiag at h
  obtain ⟨_, h⟩ := ite_throw_ok h
  obtain ⟨_, h⟩ := ite_throw_ok h
  obtain ⟨cp, hcp, h⟩ := bind_ok h
  simp only [pure, Except.pure] at h
  cases h
  obtain ⟨hsz, hg⟩ := foldlM_stepSpec _ (fun i => i + initcol) (missAmt M) _ (by
      intro i _ cp cp' hi
      obtain ⟨b, hb, hi⟩ := bind_ok hi
      cases b with
      | false =>
        simp only [pure, Except.pure, Bool.false_eq_true, if_false] at hi
        cases hi
        simpa [missAmt, hb] using stepSpec_pure cp (i + initcol)
      | true =>
        simp only [if_true] at hi
        simpa [missAmt, hb] using stepSpec_addAt hi) _ _ hcp
  exact CountSpec.of_colptr hsz (fun c => by rw [hg c, cnt_missingDiagSchedule hs])

-- ------------------------------------------------------------------ sparse expansions

/-- `csc_colcount_sparsecone` counts the schedule of `csc_fill_sparsecone` -/
theorem colcountSparsecone_spec {c : ConeSpec} {K K' : Csc α} {row col : Nat}
    {shape : MatrixTriangle} (h : colcountSparsecone c K row col shape = .ok K') :
    CountSpec K K' (sparseSchedule c row col shape) := by
  cases c with
  | soc nvars =>
    unfold colcountSparsecone at h
    cases shape with
    | triu =>
      simp only [] at h
      obtain ⟨Ka, ha, h⟩ := bind_ok h
      obtain ⟨Kb, hb, hd⟩ := bind_ok h
      exact ((colcountColvec_spec ha).trans (colcountColvec_spec hb)).trans
        (colcountDiag_spec hd)
    | tril =>
      simp only [] at h
      obtain ⟨Ka, ha, h⟩ := bind_ok h
      obtain ⟨Kb, hb, hd⟩ := bind_ok h
      exact ((colcountRowvec_spec ha).trans (colcountRowvec_spec hb)).trans
        (colcountDiag_spec hd)
  | genpow dim1 dim2 =>
    unfold colcountSparsecone at h
    cases shape with
    | triu =>
      simp only [] at h
      obtain ⟨Ka, ha, h⟩ := bind_ok h
      obtain ⟨Kb, hb, h⟩ := bind_ok h
      obtain ⟨Kc, hc, hd⟩ := bind_ok h
      exact (((colcountColvec_spec ha).trans (colcountColvec_spec hb)).trans
        (colcountColvec_spec hc)).trans (colcountDiag_spec hd)
    | tril =>
      simp only [] at h
      obtain ⟨Ka, ha, h⟩ := bind_ok h
      obtain ⟨Kb, hb, h⟩ := bind_ok h
      obtain ⟨Kc, hc, hd⟩ := bind_ok h
      exact (((colcountRowvec_spec ha).trans (colcountRowvec_spec hb)).trans
        (colcountRowvec_spec hc)).trans (colcountDiag_spec hd)
  | zero d => cases h
  | nonneg d => cases h
  | exp => cases h
  | pow => cases h
  | psd n => cases h

-- ------------------------------------------------------------------ one cone

/-- the sparse-expansion half of the body of the cone loop of `_kkt_assemble_colcounts` -/
def coneTail (shape : MatrixTriangle) (cone : ConeSpec) (row pcol : Nat) (K : Csc α) :
    MErr (Csc α × Nat) :=
  if cone.isSparseExpandable then
    colcountSparsecone cone K row pcol shape >>= fun K =>
      pure (K, pcol + (if let .soc _ := cone then 2 else 3))
  else pure (K, pcol)

/-- the body of the cone loop of `_kkt_assemble_colcounts` -/
def coneStep (n : Nat) (shape : MatrixTriangle) (st : Csc α × Nat) (cs : ConeSpec × Nat) :
    MErr (Csc α × Nat) :=
  match st with
  | (K, pcol) =>
    match cs with
    | (cone, start) =>
      if cone.hsIsDiagonal then
        colcountDiag K (start + n) cone.numel >>= coneTail shape cone (start + n) pcol
      else
        colcountDenseTriangle K (start + n) cone.numel shape >>= coneTail shape cone (start + n) pcol

omit [OfNat α 0] in
theorem kktAssembleColcounts_eq (K P A : Csc α) (cones : List ConeSpec) (shape : MatrixTriangle) :
    kktAssembleColcounts K P A cones shape = (do
      let K0 : Csc α := { K with colptr := Array.replicate K.colptr.size 0 }
      let K1 ← match shape with
        | .triu => do
          let K ← colcountBlock K0 P 0 .N
          let K ← colcountMissingDiag K P 0
          colcountBlock K A A.n .T
        | .tril => do
          let K ← colcountMissingDiag K0 P 0
          let K ← colcountBlock K P 0 .T
          colcountBlock K A 0 .N
      let r ← (cones.zip (rngConesStart cones)).foldlM (coneStep A.n shape) (K1, A.m + A.n)
      pure r.1) := rfl

theorem coneTail_spec {shape : MatrixTriangle} {K K' : Csc α} {row pcol pcol' : Nat}
    {c : ConeSpec} (h : coneTail shape c row pcol K = .ok (K', pcol')) :
    CountSpec K K' (if c.isSparseExpandable then sparseSchedule c row pcol shape else []) ∧
      pcol' = pcol + conePdim c := by
  unfold coneTail at h
  unfold conePdim
  by_cases hsp : c.isSparseExpandable = true
  · simp only [hsp, if_true] at h ⊢
    obtain ⟨K2, h3, h4⟩ := bind_ok h
    simp only [pure, Except.pure, Except.ok.injEq, Prod.mk.injEq] at h4
    obtain ⟨rfl, rfl⟩ := h4
    refine ⟨colcountSparsecone_spec h3, ?_⟩
    cases c <;> first | rfl | simp [ConeSpec.isSparseExpandable] at hsp
  · simp only [hsp, if_false, Bool.false_eq_true] at h ⊢
    simp only [pure, Except.pure, Except.ok.injEq, Prod.mk.injEq] at h
    obtain ⟨rfl, rfl⟩ := h
    exact ⟨CountSpec.refl K, rfl⟩

theorem coneStep_spec {n : Nat} {shape : MatrixTriangle} {K K' : Csc α} {pcol pcol' : Nat}
    {c : ConeSpec} {r : Nat} (h : coneStep n shape (K, pcol) (c, r) = .ok (K', pcol')) :
    CountSpec K K' (coneSchedule c (r + n) pcol shape) ∧ pcol' = pcol + conePdim c := by
  unfold coneStep at h
  simp only [] at h
  unfold coneSchedule
  split at h
  · rename_i hd
    obtain ⟨K1, h1, h2⟩ := bind_ok h
    obtain ⟨ht, hp⟩ := coneTail_spec h2
    exact ⟨((colcountDiag_spec h1).trans ht).congr (by simp [hd]), hp⟩
  · rename_i hd
    obtain ⟨K1, h1, h2⟩ := bind_ok h
    obtain ⟨ht, hp⟩ := coneTail_spec h2
    refine ⟨?_, hp⟩
    cases shape with
    | triu => exact ((colcountDenseTriangle_triu_spec h1).trans ht).congr (by simp [hd])
    | tril => exact ((colcountDenseTriangle_tril_spec h1).trans ht).congr (by simp [hd])

-- ------------------------------------------------------------------ the cone loop

/-- `starts` are the first rows of consecutive cones, the first cone starting at `r` -/
def Starts : Nat → List ConeSpec → List Nat → Prop
  | _, [], s => s = []
  | r, c :: rest, s => ∃ s', s = r :: s' ∧ Starts (r + c.numel) rest s'

theorem starts_range (r : Nat) (cones : List ConeSpec) :
    Starts r cones ((List.range cones.length).map
      (fun i => r + ((cones.map ConeSpec.numel).take i).sum)) := by
  induction cones generalizing r with
  | nil => simp [Starts]
  | cons c rest ih =>
    refine ⟨_, ?_, ih (r + c.numel)⟩
    rw [List.length_cons, List.range_succ_eq_map]
    simp only [List.map_cons, List.map_map, List.take_zero, List.sum_nil, Nat.add_zero]
    congr 1
    apply List.map_congr_left
    intro i _
    simp [List.take_succ_cons]
    omega

/-- `rng_cones` has the recursive characterisation `Starts` -/
theorem starts_rngConesStart (cones : List ConeSpec) : Starts 0 cones (rngConesStart cones) := by
  have := starts_range 0 cones
  unfold rngConesStart rangeStarts
  rw [exclusiveCumsum_eq]
  simpa using this

theorem conesSchedule_cons (c : ConeSpec) (rest : List ConeSpec) (row pcol : Nat)
    (shape : MatrixTriangle) :
    conesSchedule (α := α) (c :: rest) row pcol shape
      = coneSchedule c row pcol shape
        ++ conesSchedule rest (row + c.numel) (pcol + conePdim c) shape := rfl

/-- the cone loop of `_kkt_assemble_colcounts` counts `conesSchedule` -/
theorem conesFold_spec {n : Nat} {shape : MatrixTriangle} :
    ∀ (cones : List ConeSpec) (starts : List Nat) (r : Nat), Starts r cones starts →
    ∀ (K K' : Csc α) (pcol pcol' : Nat),
      (cones.zip starts).foldlM (coneStep n shape) (K, pcol) = .ok (K', pcol') →
      CountSpec K K' (conesSchedule cones (r + n) pcol shape)
  | [], starts, r, _, K, K', pcol, pcol', h => by
    simp only [List.zip_nil_left, List.foldlM_nil, pure, Except.pure, Except.ok.injEq,
      Prod.mk.injEq] at h
    obtain ⟨rfl, rfl⟩ := h
    exact CountSpec.refl K
  | c :: rest, starts, r, hst, K, K', pcol, pcol', h => by
    obtain ⟨s', rfl, hst'⟩ := hst
    rw [List.zip_cons_cons, List.foldlM_cons] at h
    obtain ⟨⟨K1, p1⟩, h1, h2⟩ := bind_ok h
    obtain ⟨hc, rfl⟩ := coneStep_spec h1
    have ih := conesFold_spec rest s' (r + c.numel) hst' K1 K' _ pcol' h2
    rw [conesSchedule_cons]
    exact (hc.trans ih).congr (by rw [Nat.add_right_comm])

-- ------------------------------------------------------------------ the whole pass

/-- the cone loop as it sits at the end of `_kkt_assemble_colcounts` -/
theorem conesLoop_spec {K1 K' : Csc α} {A : Csc α} {cones : List ConeSpec} {shape : MatrixTriangle}
    (h : ((cones.zip (rngConesStart cones)).foldlM (coneStep A.n shape) (K1, A.m + A.n)
      >>= fun r => pure r.1) = .ok K') :
    CountSpec K1 K' (conesSchedule cones A.n (A.m + A.n) shape) := by
  obtain ⟨⟨K2, p2⟩, hfold, h⟩ := bind_ok h
  simp only [pure, Except.pure, Except.ok.injEq] at h
  subst h
  exact (conesFold_spec cones _ 0 (starts_rngConesStart cones) K1 K2 _ p2 hfold).congr
    (by rw [Nat.zero_add])

/-- `_kkt_assemble_colcounts` (after the reset of the counters) counts `kktSchedule` -/
theorem kktAssembleColcounts_spec {K K' P A : Csc α} {cones : List ConeSpec}
    {shape : MatrixTriangle} {sched : List (Entry α)} (hP : WF P) (hA : WF A)
    (hc : kktAssembleColcounts K P A cones shape = .ok K')
    (hs : kktSchedule P A cones shape = .ok sched) :
    CountSpec { K with colptr := Array.replicate K.colptr.size 0 } K' sched := by
  rw [kktAssembleColcounts_eq] at hc
  unfold kktSchedule at hs
  cases shape with
  | triu =>
    simp only [] at hc hs
    obtain ⟨Ka, ha, hc⟩ := bind_ok hc
    obtain ⟨Kb, hb, hc⟩ := bind_ok hc
    obtain ⟨K1, hcA, hc⟩ := bind_ok hc
    obtain ⟨sP, hsP, hs⟩ := bind_ok hs
    obtain ⟨sD, hsD, hs⟩ := bind_ok hs
    obtain ⟨sA, hsA, hs⟩ := bind_ok hs
    obtain ⟨head, hh, hs⟩ := bind_ok hs
    simp only [pure, Except.pure, Except.ok.injEq] at hh hs
    subst hh
    subst hs
    exact (((colcountBlock_spec hP ha hsP).trans (colcountMissingDiag_spec hb hsD)).trans
      (colcountBlock_spec hA hcA hsA)).trans (conesLoop_spec hc)
  | tril =>
    simp only [] at hc hs
    obtain ⟨Ka, ha, hc⟩ := bind_ok hc
    obtain ⟨Kb, hb, hc⟩ := bind_ok hc
    obtain ⟨K1, hcA, hc⟩ := bind_ok hc
    obtain ⟨sD, hsD, hs⟩ := bind_ok hs
    obtain ⟨sP, hsP, hs⟩ := bind_ok hs
    obtain ⟨sA, hsA, hs⟩ := bind_ok hs
    obtain ⟨head, hh, hs⟩ := bind_ok hs
    simp only [pure, Except.pure, Except.ok.injEq] at hh hs
    subst hh
    subst hs
    exact (((colcountMissingDiag_spec ha hsD).trans (colcountBlock_spec hP hb hsP)).trans
      (colcountBlock_spec hA hcA hsA)).trans (conesLoop_spec hc)

/-- **The counting pass counts exactly the fill schedule**: after `_kkt_assemble_colcounts`
every counter `colptr[c]` holds the number of entries that the fill schedule places in
column `c`. -/
theorem kktAssembleColcounts_counts (K K' : Csc α) (P A : Csc α) (cones : List ConeSpec)
    (shape : MatrixTriangle) (sched : List (Entry α)) (hP : WF P) (hA : WF A)
    (hc : kktAssembleColcounts K P A cones shape = .ok K')
    (hs : kktSchedule P A cones shape = .ok sched) :
    K'.colptr.size = K.colptr.size ∧
      ∀ c, c < K.colptr.size → K'.colptr[c]? = some (cnt c sched) := by
  have S := kktAssembleColcounts_spec hP hA hc hs
  refine ⟨by simpa using S.colptr_size, fun c hlt => ?_⟩
  rw [S.colptr_get c]
  simp [hlt]

/-- the pass touches nothing but the counters -/
theorem kktAssembleColcounts_frame (K K' : Csc α) (P A : Csc α) (cones : List ConeSpec)
    (shape : MatrixTriangle) (sched : List (Entry α)) (hP : WF P) (hA : WF A)
    (hc : kktAssembleColcounts K P A cones shape = .ok K')
    (hs : kktSchedule P A cones shape = .ok sched) :
    K'.m = K.m ∧ K'.n = K.n ∧ K'.rowval = K.rowval ∧ K'.nzval = K.nzval := by
  have S := kktAssembleColcounts_spec hP hA hc hs
  exact ⟨S.m_eq, S.n_eq, S.rowval_eq, S.nzval_eq⟩

-- ------------------------------------------------------------------ total of the counters

omit [OfNat α 0] in
theorem countP_lt_succ (N : Nat) (l : List (Entry α)) :
    l.countP (fun e => decide (e.readCol < N + 1))
      = l.countP (fun e => decide (e.readCol < N)) + cnt N l := by
  induction l with
  | nil => simp [cnt]
  | cons e t ih =>
    rw [List.countP_cons, List.countP_cons, cnt_cons, ih]
    simp only [decide_eq_true_eq]
    split <;> split <;> split <;> omega

omit [OfNat α 0] in
theorem sum_cnt_range (N : Nat) (l : List (Entry α)) :
    ((List.range N).map (fun c => cnt c l)).sum = l.countP (fun e => decide (e.readCol < N)) := by
  induction N with
  | zero => simp
  | succ N ih =>
    rw [List.range_succ, List.map_append, List.sum_append, ih, countP_lt_succ]
    simp

/-- the counters add up to the number of scheduled entries whose column exists -/
theorem kktAssembleColcounts_total (K K' : Csc α) (P A : Csc α) (cones : List ConeSpec)
    (shape : MatrixTriangle) (sched : List (Entry α)) (hP : WF P) (hA : WF A)
    (hc : kktAssembleColcounts K P A cones shape = .ok K')
    (hs : kktSchedule P A cones shape = .ok sched) :
    K'.colptr.toList.sum = sched.countP (fun e => decide (e.readCol < K.colptr.size)) := by
  obtain ⟨hsz, hget⟩ := kktAssembleColcounts_counts K K' P A cones shape sched hP hA hc hs
  rw [← sum_cnt_range]
  congr 1
  apply List.ext_getElem?
  intro i
  by_cases hi : i < K.colptr.size
  · rw [Array.getElem?_toList, hget i hi]
    simp [hi]
  · have : K'.colptr.size ≤ i := by omega
    simp [hi, this]

/-- nnz closed form: if every scheduled column exists, the counters add up to the length of
the schedule -/
theorem kktAssembleColcounts_nnz (K K' : Csc α) (P A : Csc α) (cones : List ConeSpec)
    (shape : MatrixTriangle) (sched : List (Entry α)) (hP : WF P) (hA : WF A)
    (hc : kktAssembleColcounts K P A cones shape = .ok K')
    (hs : kktSchedule P A cones shape = .ok sched)
    (hcols : ∀ e ∈ sched, e.readCol < K.colptr.size) :
    K'.colptr.toList.sum = sched.length := by
  rw [kktAssembleColcounts_total K K' P A cones shape sched hP hA hc hs, List.countP_eq_length]
  intro e he
  simpa using hcols e he

end Clarabel.Lemmas.KktCount
