/-
  Composition on the whole-solver model WITH NONSYMMETRIC CONES — the model keeps `s = 0` on the rows
  of every ZERO cone (`s ∈ K` for `K = {0}`).  Counterpart of `Lemmas/SolverFullZero.lean`.

  * `zeroSN_stepHyp` : one accepted step of `solve()` keeps `ZeroSN`: the direction `Δs` the combined
                       `KKTSystem::solve` returns is `-(mul_Hs(Δz) + Δs_const_term)`, both terms are
                       written block by block and the zero cone writes zeros (`Zero.mulHs`,
                       `Zero.dsFromDzOffset`), so `Δs = 0` on the zero-cone rows and `add_step`
                       (`s ← a·Δs + 1·s`) keeps `s = 0` there.
  * `zeroSN_initHyp` : `default_start()` establishes `ZeroSN`: on the symmetric path
                       `symmetric_initialization` ends (in every branch of `_shift_to_cone_interior`)
                       with a `scaled_unit_shift(…, PrimalCone)`, which fills the zero-cone blocks with
                       zeros; with a nonsymmetric cone `unit_initialization` writes the zero cone's unit
                       `s` block, which is all zeros.

  The structural part (which rows are written by which cone) holds for any scalar type; only
  `a·0 + b·0 = 0` uses the field `ℝ`.
-/
import ClarabelProofs.Lemmas.SolverNSFullDefs
import ClarabelProofs.Lemmas.SolverNSNoPanicConesA
import ClarabelProofs.Lemmas.SolverNSNoPanicConesB
import ClarabelProofs.Lemmas.SolverFullZero
import ClarabelProofs.Lemmas.ScalarInst

namespace Clarabel.SolverNS
open Clarabel Info Residuals
open Clarabel.Solver (bind_ok_inv bind_ok_of OkAnd addStep axpbyE StepDirection KktSys LinSettings)
open Clarabel.Solver.ZeroKeep (foldl_append_toList drop_zip' take_zip')

set_option linter.unusedSectionVars false
set_option linter.unusedVariables false

variable {α : Type}

/- the auxiliary lemmas live in their own namespace -/
namespace ZeroKeepN

/-! ### lists -/

theorem forall2_map_both {β γ β' γ' : Type} {R : β → γ → Prop} {R' : β' → γ' → Prop} (f : β → β')
    (g : γ → γ') (h : ∀ a b, R a b → R' (f a) (g b)) : ∀ {l : List β} {l' : List γ},
      List.Forall₂ R l l' → List.Forall₂ R' (l.map f) (l'.map g) := by
  intro l l' hl
  induction hl with
  | nil => exact .nil
  | cons hab _ ih => exact .cons (h _ _ hab) ih

theorem forall2_map_right {β γ γ' : Type} {R : β → γ → Prop} {R' : β → γ' → Prop}
    (g : γ → γ') (h : ∀ a b, R a b → R' a (g b)) : ∀ {l : List β} {l' : List γ},
      List.Forall₂ R l l' → List.Forall₂ R' l (l'.map g) := by
  intro l l' hl
  induction hl with
  | nil => exact .nil
  | cons hab _ ih => exact .cons (h _ _ hab) ih

section generic
variable [Add α] [Sub α] [Mul α] [Div α] [Neg α] [LT α] [LE α] [DecidableLT α] [DecidableLE α]
  [BEq α] [OfNat α 0] [OfNat α 1] [OfNat α 2] [OfNat α 3] [OfNat α 4] [OfNat α 100] [OfNat α 1000]
  [OfScientific α] [FloatLike α]

/-! ### `ZeroRowsN` of a concatenation of blocks, entrywise combinations -/

theorem zeroRowsN_zero (n : Nat) (cs : List (ConeT α)) (s : List α) :
    ZeroRowsN (.zero n :: cs) s ↔ (∀ x ∈ s.take n, x = 0) ∧ ZeroRowsN cs (s.drop n) := Iff.rfl

theorem zeroRowsN_nonzero {c : ConeT α} (hc : ∀ n, c ≠ .zero n) (cs : List (ConeT α)) (s : List α) :
    ZeroRowsN (c :: cs) s ↔ ZeroRowsN cs (s.drop c.nvars) := by
  cases c with
  | zero n => exact absurd rfl (hc n)
  | nonneg n => exact Iff.rfl
  | soc n => exact Iff.rfl
  | exp => exact Iff.rfl
  | pow a => exact Iff.rfl
  | genpow al d2 => exact Iff.rfl
  | psd n => exact Iff.rfl

/-- the block `o` written for a cone of type `t` has the cone's dimension, and is all-zero when `t`
is a zero cone -/
def ZBlockN (t : ConeT α) (o : List α) : Prop :=
  o.length = t.nvars ∧ ∀ n, t = .zero n → ∀ x ∈ o, x = 0

/-- KEY LEMMA 1: a vector glued from per-cone blocks, all-zero on the zero cones, has `ZeroRowsN`
(whatever follows the last cone) -/
theorem zeroRowsN_of_blocks {ts : List (ConeT α)} {outs : List (List α)}
    (h : List.Forall₂ ZBlockN ts outs) (rest : List α) : ZeroRowsN ts (outs.flatten ++ rest) := by
  induction h with
  | nil => exact True.intro
  | @cons t o ts outs hb _ ih =>
    obtain ⟨hl, hz⟩ := hb
    have e : (o :: outs).flatten ++ rest = o ++ (outs.flatten ++ rest) := by
      rw [List.flatten_cons, List.append_assoc]
    have ht : (o ++ (outs.flatten ++ rest)).take t.nvars = o := List.take_left' hl
    have hd : (o ++ (outs.flatten ++ rest)).drop t.nvars = outs.flatten ++ rest := List.drop_left' hl
    rw [e]
    by_cases hc : ∃ n, t = .zero n
    · obtain ⟨n, rfl⟩ := hc
      rw [zeroRowsN_zero]
      have ht' : (o ++ (outs.flatten ++ rest)).take n = o := ht
      have hd' : (o ++ (outs.flatten ++ rest)).drop n = outs.flatten ++ rest := hd
      rw [ht', hd']
      exact ⟨hz n rfl, ih⟩
    · rw [zeroRowsN_nonzero (fun n hn => hc ⟨n, hn⟩), hd]
      exact ih

/-- KEY LEMMA 2: `ZeroRowsN` is kept by entrywise combinations that map `(0, 0)` to `0` -/
theorem zeroRowsN_zipMap (f : α × α → α) (hf : f (0, 0) = 0) :
    ∀ (ts : List (ConeT α)) (xs ys : List α), ZeroRowsN ts xs → ZeroRowsN ts ys →
      ZeroRowsN ts ((xs.zip ys).map f) := by
  intro ts
  induction ts with
  | nil => intro _ _ _ _; exact True.intro
  | cons t ts ih =>
    intro xs ys hx hy
    have hdrop : ∀ k, ((xs.zip ys).map f).drop k = ((xs.drop k).zip (ys.drop k)).map f := by
      intro k
      rw [← List.map_drop, drop_zip']
    by_cases hc : ∃ n, t = .zero n
    · obtain ⟨n, rfl⟩ := hc
      rw [zeroRowsN_zero] at hx hy ⊢
      obtain ⟨hx1, hx2⟩ := hx
      obtain ⟨hy1, hy2⟩ := hy
      refine ⟨?_, ?_⟩
      · intro x hxm
        rw [← List.map_take, take_zip'] at hxm
        obtain ⟨⟨a, b⟩, hp, rfl⟩ := List.mem_map.1 hxm
        obtain ⟨ha, hb⟩ := List.of_mem_zip hp
        rw [hx1 a ha, hy1 b hb]
        exact hf
      · rw [hdrop]; exact ih _ _ hx2 hy2
    · have hc' : ∀ n, t ≠ .zero n := fun n hn => hc ⟨n, hn⟩
      rw [zeroRowsN_nonzero hc'] at hx hy ⊢
      rw [hdrop]; exact ih _ _ hx hy

/-! ### the live composite cone: what the zero cones write -/

theorem typ_nvars (c : ConeSt α) : c.typ.nvars = c.numel := by
  cases c with
  | sym c => cases c <;> rfl
  | exp K => rfl
  | pow a K => rfl
  | genpow al d2 ψ K => rfl

/-- the block `o` written for the live cone `c` -/
def ZOutN (c : ConeSt α) (o : Array α) : Prop := ZBlockN c.typ o.toList

theorem zOutN_zeros (d : Nat) (p : Array α) (hp : p.size = d) :
    ZOutN (.sym (.zero d)) (p.map (fun _ => (0 : α))) := by
  refine ⟨?_, ?_⟩
  · show (p.map _).toList.length = d
    rw [Array.length_toList, Array.size_map]; exact hp
  · intro n _ x hx
    rw [Array.toList_map] at hx
    obtain ⟨_, _, rfl⟩ := List.mem_map.1 hx
    rfl

theorem zOutN_of_size {c : ConeSt α} {o : Array α} (hc : ∀ d, c.typ ≠ .zero d) (h : o.size = c.numel) :
    ZOutN c o := by
  refine ⟨?_, ?_⟩
  · rw [Array.length_toList, typ_nvars]; exact h
  · intro n hn
    exact absurd hn (hc n)

/-- `pasteBack` of per-cone blocks that are zero on the zero cones has `ZeroRowsN` -/
theorem zeroRowsN_pasteBack {cones : List (ConeSt α)} {outs : List (Array α)} (v : Array α)
    (h : List.Forall₂ ZOutN cones outs) :
    ZeroRowsN (cones.map ConeSt.typ) (pasteBack cones v outs).toList := by
  unfold pasteBack
  rw [Array.toList_append, foldl_append_toList]
  show ZeroRowsN _ ([] ++ _ ++ _)
  rw [List.nil_append]
  exact zeroRowsN_of_blocks (forall2_map_both ConeSt.typ Array.toList (fun _ _ h => h) h) _

/-- a per-cone map over `(cone, slices)`: a per-cone property of the results -/
theorem mapM_zip_rel {γ β : Type} (R : ConeSt α → γ → Prop) (Q : ConeSt α → β → Prop)
    (f : ConeSt α × γ → MErr β)
    (hf : ∀ c p, ConeFull c → R c p → OkAnd (f (c, p)) (Q c))
    {cones : List (ConeSt α)} {ps : List γ} (h : List.Forall₂ R cones ps) (hF : ConesFull cones)
    {outs : List β} (ho : (cones.zip ps).mapM f = .ok outs) : List.Forall₂ Q cones outs := by
  obtain ⟨outs', ho', hq⟩ := mapM_zip_okAnd R Q f hf h hF
  rw [ho] at ho'
  cases ho'
  exact hq

theorem typ_sym_nonneg_ne (K : Nonneg.Cone α) (d : Nat) :
    (ConeSt.sym (Solver.ConeSt.nonneg K)).typ ≠ ConeT.zero d := fun h => by cases h

theorem typ_sym_soc_ne (K : Soc.Cone α) (d : Nat) :
    (ConeSt.sym (Solver.ConeSt.soc K)).typ ≠ ConeT.zero d := fun h => by cases h

theorem typ_exp_ne (K : Exp.State α) (d : Nat) : (ConeSt.exp K).typ ≠ ConeT.zero d := fun h => by cases h

theorem typ_pow_ne (a : α) (K : Pow.State α) (d : Nat) : (ConeSt.pow a K).typ ≠ ConeT.zero d :=
  fun h => by cases h

theorem typ_genpow_ne (al : Array α) (d2 : Nat) (ψ : α) (K : GenPow.State α) (d : Nat) :
    (ConeSt.genpow al d2 ψ K).typ ≠ ConeT.zero d := fun h => by cases h

/-- `mul_Hs` writes zeros on the zero-cone rows -/
theorem mulHs_zeroRowsN {cones : List (ConeSt α)} {y x o : Array α} (hF : ConesFull cones)
    (h : mulHs cones y x = .ok o) : ZeroRowsN (cones.map ConeSt.typ) o.toList := by
  unfold mulHs at h
  obtain ⟨xs, hxs, h⟩ := bind_ok_inv h
  obtain ⟨ys, hys, h⟩ := bind_ok_inv h
  obtain ⟨outs, houts, h⟩ := bind_ok_inv h
  cases h
  refine zeroRowsN_pasteBack _ ?_
  refine mapM_zip_rel (fun c (p : Array α) => p.size = c.numel) ZOutN _ ?_ (cutE_forall2 hxs) hF houts
  intro c p hc hp
  cases c with
  | sym c =>
    cases c with
    | zero d => exact ⟨_, rfl, zOutN_zeros d p hp⟩
    | nonneg K =>
      obtain ⟨o, ho, hs⟩ := nn_mulHs_ok (K := K) hp
      exact ⟨o, ho, zOutN_of_size (typ_sym_nonneg_ne K) hs⟩
    | soc K =>
      obtain ⟨h2, hw, _, _, _⟩ := hc
      obtain ⟨o, ho⟩ := Solver.soc_mulHs_ok h2 hw hp
      exact ⟨o, ho, zOutN_of_size (typ_sym_soc_ne K) (Solver.soc_mulHs_size hw ho)⟩
  | exp K =>
    obtain ⟨v, hv⟩ := v3E_ok "mul_Hs" hp
    refine ⟨Nonsym.v3toArray (K.Hs.mul v), ?_, zOutN_of_size (typ_exp_ne K) rfl⟩
    show (v3E p "mul_Hs" >>= fun v => pure (Nonsym.v3toArray (K.Hs.mul v))) = _
    rw [bind_ok_of hv]
    rfl
  | pow a K =>
    obtain ⟨v, hv⟩ := v3E_ok "mul_Hs" hp
    refine ⟨Nonsym.v3toArray (K.Hs.mul v), ?_, zOutN_of_size (typ_pow_ne a K) rfl⟩
    show (v3E p "mul_Hs" >>= fun v => pure (Nonsym.v3toArray (K.Hs.mul v))) = _
    rw [bind_ok_of hv]
    rfl
  | genpow al d2 ψ K =>
    obtain ⟨_, hp', hq, hr, hd1, _⟩ := hc
    obtain ⟨o, ho, hs⟩ := genpow_mulHs_ok K.mu hp' hq hr hd1 hp
    exact ⟨o, ho, zOutN_of_size (typ_genpow_ne al d2 ψ K) hs⟩

/-- `Δs_from_Δz_offset` writes zeros on the zero-cone rows -/
theorem dsFromDzOffset_zeroRowsN {cones : List (ConeSt α)} {out ds z o : Array α} (hF : ConesFull cones)
    (h : dsFromDzOffset cones out ds z = .ok o) : ZeroRowsN (cones.map ConeSt.typ) o.toList := by
  unfold dsFromDzOffset at h
  obtain ⟨os, hos, h⟩ := bind_ok_inv h
  obtain ⟨dss, hdss, h⟩ := bind_ok_inv h
  obtain ⟨zs, hzs, h⟩ := bind_ok_inv h
  obtain ⟨outs, houts, h⟩ := bind_ok_inv h
  cases h
  refine zeroRowsN_pasteBack _ ?_
  refine mapM_zip_rel _ ZOutN _ ?_
    (forall2_zip (cutE_forall2 hos) (forall2_zip (cutE_forall2 hdss) (cutE_forall2 hzs))) hF houts
  intro c p hc hp
  obtain ⟨hp1, hp2, hp3⟩ := hp
  cases c with
  | sym c =>
    cases c with
    | zero d => exact ⟨_, rfl, zOutN_zeros d p.1 hp1⟩
    | nonneg K =>
      obtain ⟨o, ho⟩ := Solver.ConesB.nn_dsFromDzOffset_ok (hp2.trans hp3.symm)
      exact ⟨o, ho, zOutN_of_size (typ_sym_nonneg_ne K) ((Solver.nn_dsFromDzOffset_size ho).trans hp2)⟩
    | soc K =>
      obtain ⟨g1, g2, g3, _⟩ := hc
      obtain ⟨o, ho⟩ := Solver.ConesB.soc_dsFromDzOffset_ok g2 g3 (by omega) hp2 hp3
      exact ⟨o, ho, zOutN_of_size (typ_sym_soc_ne K) (Solver.soc_dsFromDzOffset_size g2 ho)⟩
  | exp K => exact ⟨_, rfl, zOutN_of_size (typ_exp_ne K) hp2⟩
  | pow a K => exact ⟨_, rfl, zOutN_of_size (typ_pow_ne a K) hp2⟩
  | genpow al d2 ψ K => exact ⟨_, rfl, zOutN_of_size (typ_genpow_ne al d2 ψ K) hp2⟩

/-- `axpby` keeps `ZeroRowsN` as soon as `a·0 + b·0 = 0` -/
theorem axpby_zeroRowsN (hz : ∀ a b : α, a * 0 + b * 0 = 0) (ts : List (ConeT α)) (a b : α)
    (x y : Array α) (hx : ZeroRowsN ts x.toList) (hy : ZeroRowsN ts y.toList) :
    ZeroRowsN ts (Vec.axpby a x b y).toList := by
  unfold Vec.axpby
  exact zeroRowsN_zipMap (fun p => a * p.2 + b * p.1) (hz a b) ts _ _ hy hx

theorem axpbyE_zeroRowsN (hz : ∀ a b : α, a * 0 + b * 0 = 0) (ts : List (ConeT α)) {a b : α}
    {x y r : Array α} {site : String} (h : axpbyE a x b y site = .ok r)
    (hx : ZeroRowsN ts x.toList) (hy : ZeroRowsN ts y.toList) : ZeroRowsN ts r.toList := by
  unfold axpbyE at h
  split at h
  · cases h
  · cases h
    exact axpby_zeroRowsN hz ts a b x y hx hy

/-- the `Δs` of a successful combined `KKTSystem::solve` is zero on the zero-cone rows -/
theorem kktSysSolve_combined_zeroRowsN (hz : ∀ a b : α, a * 0 + b * 0 = 0) {S : KktSys α}
    {lhs rhs vars : Vars α} {data : ProblemData α} {cones : List (ConeSt α)} {st : LinSettings α}
    {lhs' : Vars α} {S' : KktSys α} (hF : ConesFull cones)
    (h : kktSysSolve S lhs rhs data vars cones .combined st = .ok (true, lhs', S')) :
    ZeroRowsN (cones.map ConeSt.typ) lhs'.s.toList := by
  unfold kktSysSolve at h
  obtain ⟨workx, hwx, h⟩ := bind_ok_inv h
  dsimp only at h
  obtain ⟨dsConst, hdc, h⟩ := bind_ok_inv h
  obtain ⟨workz, hwz, h⟩ := bind_ok_inv h
  obtain ⟨K, _, h⟩ := bind_ok_inv h
  obtain ⟨⟨ok, lx, lz, K2⟩, _, h⟩ := bind_ok_inv h
  dsimp only at h
  split at h
  · cases h
  · obtain ⟨x1, hx1, h⟩ := bind_ok_inv h
    obtain ⟨z1, hz1, h⟩ := bind_ok_inv h
    obtain ⟨ξ, hξ, h⟩ := bind_ok_inv h
    obtain ⟨_, _, h⟩ := bind_ok_inv h
    obtain ⟨ξm, hξm, h⟩ := bind_ok_inv h
    obtain ⟨_, _, h⟩ := bind_ok_inv h
    obtain ⟨_, _, h⟩ := bind_ok_inv h
    obtain ⟨dx, hdx, h⟩ := bind_ok_inv h
    obtain ⟨dz, hdz, h⟩ := bind_ok_inv h
    obtain ⟨hs, hhs, h⟩ := bind_ok_inv h
    obtain ⟨ds, hds, h⟩ := bind_ok_inv h
    cases h
    exact axpbyE_zeroRowsN hz _ hds (dsFromDzOffset_zeroRowsN hF hdc) (mulHs_zeroRowsN hF hhs)

/-- the direction of a successful KKT stage of a pass is zero on the zero-cone rows -/
theorem kktNumerics_zeroRowsN (hz : ∀ a b : α, a * 0 + b * 0 = 0) {st : Settings α} {S : SolverSt α}
    {cones : List (ConeSt α)} {mu : α} {iter : Nat} {sc : Loop.Scaling} {k : KktOut α}
    (hF : ConesFull cones) (h : kktNumerics st S cones mu iter sc = .ok k) (hk : k.ok = true) :
    ZeroRowsN (cones.map ConeSt.typ) k.S.stepLhs.s.toList := by
  unfold kktNumerics at h
  dsimp only at h
  obtain ⟨⟨updOk, K0⟩, hupd, h⟩ := bind_ok_inv h
  obtain ⟨rhs1, hrhs1, h⟩ := bind_ok_inv h
  split at h
  · obtain ⟨⟨affOk, lhs1, K1⟩, _, h⟩ := bind_ok_inv h
    dsimp only at h
    split at h
    · obtain ⟨⟨aAff, nb⟩, _, h⟩ := bind_ok_inv h
      obtain ⟨⟨rhs2, lhs2⟩, hc, h⟩ := bind_ok_inv h
      obtain ⟨⟨combOk, lhs3, K3⟩, hs, h⟩ := bind_ok_inv h
      cases h
      have hk' : combOk = true := hk
      subst hk'
      exact kktSysSolve_combined_zeroRowsN hz hF hs
    · cases h
      cases hk
  · obtain ⟨⟨affOk, lhs1, K1⟩, hx, h⟩ := bind_ok_inv h
    cases hx
    simp only [Bool.false_eq_true, ↓reduceIte] at h
    cases h
    cases hk

/-- `add_step` keeps `s = 0` on the zero-cone rows when the direction is zero there -/
theorem addStep_zeroRowsN (hz : ∀ a b : α, a * 0 + b * 0 = 0) (ts : List (ConeT α))
    {v step v' : Vars α} {a : α} (h : addStep v step a = .ok v')
    (hv : ZeroRowsN ts v.s.toList) (hs : ZeroRowsN ts step.s.toList) : ZeroRowsN ts v'.s.toList := by
  unfold addStep at h
  obtain ⟨x, _, h⟩ := bind_ok_inv h
  obtain ⟨s, hs', h⟩ := bind_ok_inv h
  obtain ⟨z, _, h⟩ := bind_ok_inv h
  cases h
  exact axpbyE_zeroRowsN hz ts hs' hs hv

/-- one accepted step keeps `ZeroSN` (any scalar type with `a·0 + b·0 = 0`) -/
theorem zeroSN_stepHyp_of (hz : ∀ a b : α, a * 0 + b * 0 = 0) (st : Settings α) : StepHypN st ZeroSN := by
  intro S mu iter sc k a nbt v' hS hG hk hok ha hsmall hv
  have hd : ZeroRowsN (layoutN S) k.S.stepLhs.s.toList := kktNumerics_zeroRowsN hz hS.full hk hok
  exact addStep_zeroRowsN hz (layoutN S) hv hG hd

/-! ### `default_start`, symmetric path: the primal shift zeroes the zero-cone blocks -/

/-- the `Composite.Spec`s `symmetric_initialization` collects are the ones of the (symmetric) cones -/
theorem mapM_compSpec_rel : ∀ {cones : List (ConeSt α)} {specs : List Composite.Spec},
    cones.mapM (fun c => match c.compSpec? with
      | some sp => (pure sp : MErr Composite.Spec)
      | none => (throw (ModelErr.panic "unreachable: margins of a nonsymmetric cone") : MErr Composite.Spec))
        = .ok specs →
    List.Forall₂ (fun c sp => c.compSpec? = some sp) cones specs := by
  intro cones
  induction cones with
  | nil =>
    intro specs h
    cases h
    exact .nil
  | cons c cs ih =>
    intro specs h
    simp only [List.mapM_cons] at h
    obtain ⟨sp, h1, h⟩ := bind_ok_inv h
    obtain ⟨sps, h2, h⟩ := bind_ok_inv h
    cases h
    refine .cons ?_ (ih h2)
    split at h1
    · rename_i sp' he
      cases h1
      exact he
    · cases h1

/-- `ZeroRows` along the `Composite.Spec`s of symmetric cones is `ZeroRowsN` along their types -/
theorem zeroRows_toN : ∀ {cones : List (ConeSt α)} {specs : List Composite.Spec},
    List.Forall₂ (fun c sp => c.compSpec? = some sp) cones specs → ∀ l : List α,
      Solver.ZeroRows specs l → ZeroRowsN (cones.map ConeSt.typ) l := by
  intro cones specs h
  induction h with
  | nil => intro _ _; exact True.intro
  | @cons c sp cs sps hc _ ih =>
    intro l hl
    cases c with
    | sym c0 =>
      have e : sp = c0.compSpec := by
        have hc' : some c0.compSpec = some sp := hc
        cases hc'
        rfl
      subst e
      cases c0 with
      | zero d =>
        have hl' : (∀ x ∈ l.take d, x = 0) ∧ Solver.ZeroRows sps (l.drop d) := hl
        exact ⟨hl'.1, ih _ hl'.2⟩
      | nonneg K =>
        have hl' : Solver.ZeroRows sps (l.drop K.w.size) := hl
        exact ih _ hl'
      | soc K =>
        have hl' : Solver.ZeroRows sps (l.drop K.dim) := hl
        exact ih _ hl'
    | exp K => cases hc
    | pow a K => cases hc
    | genpow al d2 ψ K => cases hc

theorem symmetricInitialization_zeroSN {v v' : Vars α} {cones : List (ConeSt α)}
    (h : symmetricInitialization v cones = .ok v') : ZeroSN (cones.map ConeSt.typ) v' := by
  unfold symmetricInitialization at h
  obtain ⟨specs, hsp, h⟩ := bind_ok_inv h
  obtain ⟨s, hs, h⟩ := bind_ok_inv h
  obtain ⟨z, hz, h⟩ := bind_ok_inv h
  cases h
  exact zeroRows_toN (mapM_compSpec_rel hsp) _ (Solver.ZeroKeep.shiftToConeInterior_zeroRows hs)

/-! ### `default_start`, nonsymmetric path: the zero cone's unit `s` block is zeros -/

/-- `unit_initialization` of one cone: the `s` block is zeros for the zero cone -/
theorem unitInit1_zOutN {c : ConeSt α} {z s : Array α} (hc : ConeFull c) (hz : z.size = c.numel)
    (hs : s.size = c.numel) : OkAnd (unitInit1 c z s) (fun o => ZOutN c o.2) := by
  cases c with
  | sym c =>
    cases c with
    | zero d => exact ⟨_, rfl, zOutN_zeros d s hs⟩
    | nonneg K =>
      exact (ConesB.unitInit1_ok hc hz hs).mono fun o ho => zOutN_of_size (typ_sym_nonneg_ne K) ho.2
    | soc K =>
      exact (ConesB.unitInit1_ok hc hz hs).mono fun o ho => zOutN_of_size (typ_sym_soc_ne K) ho.2
  | exp K => exact (ConesB.unitInit1_ok hc hz hs).mono fun o ho => zOutN_of_size (typ_exp_ne K) ho.2
  | pow a K => exact (ConesB.unitInit1_ok hc hz hs).mono fun o ho => zOutN_of_size (typ_pow_ne a K) ho.2
  | genpow al d2 ψ K =>
    exact (ConesB.unitInit1_ok hc hz hs).mono fun o ho => zOutN_of_size (typ_genpow_ne al d2 ψ K) ho.2

/-- `CompositeCone::unit_initialization(z, s)` leaves zeros on the zero-cone rows of `s` -/
theorem unitInitialization_zeroRowsN {cones : List (ConeSt α)} {z s : Array α} {o : Array α × Array α}
    (hF : ConesFull cones) (h : unitInitialization cones z s = .ok o) :
    ZeroRowsN (cones.map ConeSt.typ) o.2.toList := by
  unfold unitInitialization at h
  obtain ⟨zs, hzs, h⟩ := bind_ok_inv h
  obtain ⟨ss, hss, h⟩ := bind_ok_inv h
  obtain ⟨outs, houts, h⟩ := bind_ok_inv h
  cases h
  refine zeroRowsN_pasteBack _ ?_
  refine forall2_map_right (fun o : Array α × Array α => o.2) (fun _ _ h => h) ?_
  refine mapM_zip_rel _ (fun c (o : Array α × Array α) => ZOutN c o.2) _ ?_
    (forall2_zip (cutE_forall2 hzs) (cutE_forall2 hss)) hF houts
  intro c p hc hp
  exact unitInit1_zOutN hc hp.1 hp.2

theorem varsUnitInitialization_zeroSN {v v' : Vars α} {cones : List (ConeSt α)} (hF : ConesFull cones)
    (h : varsUnitInitialization v cones = .ok v') : ZeroSN (cones.map ConeSt.typ) v' := by
  unfold varsUnitInitialization at h
  obtain ⟨⟨z, s⟩, hu, h⟩ := bind_ok_inv h
  cases h
  exact unitInitialization_zeroRowsN hF hu

/-- `default_start()` establishes `ZeroSN` (any scalar type) -/
theorem zeroSN_initHyp_gen (st : Settings α) (S : SolverSt α) (hS : SizedN S) : InitHypN st S ZeroSN := by
  intro S0 h
  unfold SolverSt.defaultStart at h
  split at h
  · obtain ⟨cones, hcs, h⟩ := bind_ok_inv h
    obtain ⟨⟨ok1, K1⟩, _, h⟩ := bind_ok_inv h
    dsimp only at h
    obtain ⟨⟨ok2, v2, K2⟩, _, h⟩ := bind_ok_inv h
    dsimp only at h
    obtain ⟨v3, hv3, h⟩ := bind_ok_inv h
    cases h
    exact symmetricInitialization_zeroSN hv3
  · obtain ⟨v, hv, h⟩ := bind_ok_inv h
    cases h
    exact varsUnitInitialization_zeroSN hS.full hv

end generic

end ZeroKeepN

/-! ### over `ℝ` -/

/-- one ACCEPTED step of `solve()` (model with nonsymmetric cones) keeps `s = 0` on the rows of every
zero cone: the `Δs` of the combined `KKTSystem::solve` is `0` there and `add_step` adds `a·0` -/
theorem zeroSN_stepHyp (st : Settings ℝ) : StepHypN st ZeroSN :=
  ZeroKeepN.zeroSN_stepHyp_of (fun a b => by simp only [mul_zero, add_zero]) st

/-- `default_start()` (model with nonsymmetric cones) leaves `s = 0` on the rows of every zero cone -/
theorem zeroSN_initHyp (st : Settings ℝ) (S : SolverSt ℝ) (hS : SizedN S) : InitHypN st S ZeroSN :=
  ZeroKeepN.zeroSN_initHyp_gen st S hS

/-- the predicate is not vacuous: it holds of `(0, 0 | 1, 2, 3 | 5)` on `[zero 2, exp, nonneg 1]` … -/
example : ZeroRowsN [.zero 2, .exp, .nonneg 1] ([0, 0, 1, 2, 3, 5] : List ℝ) := by
  refine ⟨?_, True.intro⟩
  intro x hx
  simp only [List.take_succ_cons, List.take_zero, List.mem_cons, List.not_mem_nil, or_false, or_self] at hx
  exact hx

/-- … and fails on `(1, 2, 3 | 1)` for `[exp, zero 1]` -/
example : ¬ ZeroRowsN [.exp, .zero 1] ([1, 2, 3, 1] : List ℝ) := by
  intro h
  have h' : (∀ x ∈ List.take 1 ([1] : List ℝ), x = 0) ∧ True := h
  exact one_ne_zero (h'.1 1 (by simp only [List.take_succ_cons, List.take_zero, List.mem_cons, List.not_mem_nil, or_false]))

end Clarabel.SolverNS
