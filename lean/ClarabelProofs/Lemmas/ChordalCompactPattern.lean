/-
  `add_entries_with_sparsity_pattern` of `augment_compact.rs` on a valid pattern: the row map
  of the cliques (`clique_rows_map`), one pass of the loop over the cliques, and the loop.
-/
import ClarabelProofs.Lemmas.ChordalCompactGeom

namespace Clarabel.Chordal

/-! ## `clique_rows_map` -/

private theorem find?_filter_ne (l : List (Nat × Nat)) (k c : Nat) (h : k ≠ c) :
    (l.filter (fun e => e.1 != c)).find? (fun e => e.1 == k) = l.find? (fun e => e.1 == k) := by
  induction l with
  | nil => rfl
  | cons a t ih =>
    by_cases hac : a.1 = c
    · have h1 : (a.1 != c) = false := by simp [hac]
      have h2 : (a.1 == k) = false := by simp [hac]; omega
      rw [List.filter_cons, h1, List.find?_cons, h2]
      simpa using ih
    · have h1 : (a.1 != c) = true := by simp [hac]
      rw [List.filter_cons, h1]
      simp only [↓reduceIte, List.find?_cons]
      rw [ih]

/-- `clique_rows_map` maps the tree index of every clique to the first row of its block -/
theorem cliqueRowsMap_spec (p : SPattern) (hp : ValidPattern p) (row0 : Nat) :
    ∃ m, cliqueRowsMap row0 p.sntree = .ok m ∧
      ∀ j, j < p.sntree.nCliques →
        m.find? (fun e => e.1 == p.sntree.postIdx j) = some (p.sntree.postIdx j, p.rowStart row0 j) := by
  have ht := hp.tree
  unfold cliqueRowsMap
  have key := foldlM_inv (fun (acc : List (Nat × Nat) × Nat) i => do
      let nb ← p.sntree.getNblk i
      let c ← getE p.sntree.snodePost i "clique_rows_map"
      pure ((c, acc.2) :: acc.1.filter (fun e => e.1 != c), acc.2 + triangularNumber nb))
    (List.range p.sntree.nCliques).reverse
    (fun d acc => d ≤ p.sntree.nCliques →
      (acc.2 = row0 + descSum p.blk p.sntree.nCliques d ∧
       ∀ d', d' < d → acc.1.find? (fun e => e.1 == p.sntree.postIdx (p.sntree.nCliques - 1 - d')) =
         some (p.sntree.postIdx (p.sntree.nCliques - 1 - d'),
               row0 + descSum p.blk p.sntree.nCliques d')))
    ([], row0)
    (fun _ => ⟨by simp [descSum_zero], fun d' h => by omega⟩)
    (by
      intro d hd acc hI
      simp only [List.length_reverse, List.length_range] at hd
      obtain ⟨l, r⟩ := acc
      obtain ⟨hr, hl⟩ := hI (by omega)
      simp only at hr hl
      simp only [List.getElem_reverse, List.getElem_range, List.length_range]
      have hi : p.sntree.nCliques - 1 - d < p.sntree.nCliques := by omega
      rw [getNblk_okV p.sntree _ ht _ hi]
      simp only [bind, Except.bind]
      rw [getE_ok p.sntree.snodePost _ _ 0 (by rw [ht.post_size]; exact hi)]
      simp only [pure, Except.pure]
      refine ⟨_, rfl, fun _ => ⟨?_, ?_⟩⟩
      · simp only
        rw [hr, descSum_succ]
        unfold SPattern.blk
        omega
      · intro d' hd'
        simp only
        rcases Nat.lt_succ_iff_lt_or_eq.1 hd' with h | h
        · have hne : p.sntree.postIdx (p.sntree.nCliques - 1 - d') ≠
              p.sntree.snodePost.getD (p.sntree.nCliques - 1 - d) 0 := by
            intro he
            have := ht.post_inj (p.sntree.nCliques - 1 - d') (p.sntree.nCliques - 1 - d) (by omega) hi he
            omega
          rw [List.find?_cons]
          have : ((p.sntree.snodePost.getD (p.sntree.nCliques - 1 - d) 0, r).1 ==
              p.sntree.postIdx (p.sntree.nCliques - 1 - d')) = false := by
            simp only [beq_eq_false_iff_ne, ne_eq]
            exact fun he => hne he.symm
          rw [this]
          simp only
          rw [find?_filter_ne _ _ _ hne]
          exact hl d' h
        · subst h
          rw [List.find?_cons]
          have : ((p.sntree.snodePost.getD (p.sntree.nCliques - 1 - d') 0, r).1 ==
              p.sntree.postIdx (p.sntree.nCliques - 1 - d')) = true := by
            simp [SuperNodeTree.postIdx]
          rw [this]
          simp only [hr]
          rfl)
  obtain ⟨⟨m, r⟩, hfold, hI⟩ := key
  simp only [List.length_reverse, List.length_range] at hI
  obtain ⟨_, hm⟩ := hI (Nat.le_refl _)
  refine ⟨m, by rw [hfold]; rfl, fun j hj => ?_⟩
  have := hm (p.sntree.nCliques - 1 - j) (by omega)
  rw [show p.sntree.nCliques - 1 - (p.sntree.nCliques - 1 - j) = j by omega] at this
  exact this

/-! ## the parent clique -/

theorem VSet.insert_nodup (s : VSet) (v : Nat) (h : s.toList.Nodup) : (VSet.insert s v).toList.Nodup := by
  unfold VSet.insert
  by_cases hc : s.contains v = true
  · rw [if_pos hc]; exact h
  · rw [if_neg hc]
    have hv : v ∉ s.toList := by
      intro hm
      exact hc (Array.contains_iff_mem.2 (Array.mem_toList_iff.1 hm))
    rw [Array.toList_push, List.nodup_append]
    exact ⟨h, List.nodup_singleton v, fun a ha b hb hab => by
      rw [List.mem_singleton] at hb; subst hb; subst hab; exact hv ha⟩

theorem VSet.extend_nodup (s : VSet) (vs : List Nat) (h : s.toList.Nodup) :
    (VSet.extend s vs).toList.Nodup := by
  unfold VSet.extend
  induction vs generalizing s with
  | nil => exact h
  | cons v t ih => rw [List.foldl_cons]; exact ih _ (VSet.insert_nodup s v h)

/-- `get_clique_by_index(parent)` mapped to original coordinates and sorted is `cliqueO` of the
parent -/
theorem parentClique_ok (p : SPattern) (hp : ValidPattern p) (j : Nat) (hj : j < p.sntree.nCliques) :
    mapSorted p.ordering ((p.sntree.snode.getD (p.sntree.postIdx j) #[]).extend
      (p.sntree.separators.getD (p.sntree.postIdx j) #[]).toList) = .ok (p.cliqueO j).toArray := by
  have ht := hp.tree
  have hnd := ht.clique_nodup j hj
  have hmem : ∀ x, x ∈ ((p.sntree.snode.getD (p.sntree.postIdx j) #[]).extend
      (p.sntree.separators.getD (p.sntree.postIdx j) #[]).toList).toList ↔ x ∈ p.sntree.cliqueAt j := by
    intro x
    rw [VSet.mem_extend_decomp]
    unfold SuperNodeTree.cliqueAt SuperNodeTree.snodeAt SuperNodeTree.sepAt
    rw [List.mem_append]
  have hlt : ∀ v ∈ ((p.sntree.snode.getD (p.sntree.postIdx j) #[]).extend
      (p.sntree.separators.getD (p.sntree.postIdx j) #[]).toList).toList, v < p.ordering.size :=
    fun v hv => ht.clique_lt j hj v ((hmem v).1 hv)
  rw [mapSorted_ok p _ hlt]
  congr 2
  have hnd1 : (p.sntree.snode.getD (p.sntree.postIdx j) #[]).toList.Nodup := by
    unfold SuperNodeTree.cliqueAt SuperNodeTree.snodeAt at hnd
    exact (List.nodup_append.1 hnd).1
  apply sorted_ext (p.sortO_sorted hp _ (VSet.extend_nodup _ _ hnd1) hlt) (cliqueFacts p hp j hj).clique_sorted
  intro v
  unfold SPattern.cliqueO
  rw [p.mem_sortO, p.mem_sortO]
  constructor
  · rintro ⟨u, hu, rfl⟩; exact ⟨u, (hmem u).1 hu, rfl⟩
  · rintro ⟨u, hu, rfl⟩; exact ⟨u, (hmem u).2 hu, rfl⟩

/-- a separator vertex (original coordinates) lies in the parent clique -/
theorem sepO_sub_parent (p : SPattern) (hp : ValidPattern p) (i j : Nat) (hi : i + 1 < p.sntree.nCliques)
    (hj : p.sntree.IsParent i j) (a : Nat) (ha : a ∈ p.sepO i) : a ∈ p.cliqueO j := by
  obtain ⟨j', _, hpar, hsep⟩ := hp.tree.parent i hi
  have : j = j' := hp.tree.parent_unique hj hpar
  subst this
  unfold SPattern.sepO at ha
  unfold SPattern.cliqueO
  rw [p.mem_sortO] at ha ⊢
  obtain ⟨u, hu, rfl⟩ := ha
  exact ⟨u, ((hsep u).1 hu).2, rfl⟩

/-! ## one pass of the loop over the cliques -/

theorem flag_false_of_not {P Q : Prop} [Decidable P] [Decidable Q] (h : ¬(P ∧ Q)) :
    (decide P && decide Q) = false := by
  by_cases hp : P
  · by_cases hq : Q
    · exact absurd ⟨hp, hq⟩ h
    · rw [decide_eq_false hq]; exact Bool.and_false _
  · rw [decide_eq_false hp]; exact Bool.false_and _


/-- legitimacy of the row writes of a pattern: the slot holding the original row of a
non-overlap entry `(x, y)` of clique `i` may receive the row of that entry in clique `i`'s block -/
def PatT (T : Nat → Nat → Prop) (rowval : Array Nat) (nnz rs re row0 : Nat) (p : SPattern) : Prop :=
  ∀ i x y, i < p.sntree.nCliques → x ≤ y → y < (p.cliqueO i).length →
    ¬((p.cliqueO i).getD x 0 ∈ p.sepO i ∧ (p.cliqueO i).getD y 0 ∈ p.sepO i) →
    ∀ slot, slot < nnz →
      rowval.getD slot 0 = rs + coordToUpperTriangularIndex ((p.cliqueO i).getD x 0, (p.cliqueO i).getD y 0) →
      rowval.getD slot 0 < re → T slot (p.blockRow row0 i x y)

/-- legitimacy of the overlap writes: the pair of slots of the overlap entry `(x, y)` of the
non-root clique `i` may receive the row of the entry in clique `i` and in its parent `j` -/
def PatTO (T : Nat → Nat → Prop) (row0 op0 : Nat) (p : SPattern) : Prop :=
  ∀ i j x y x' y', i + 1 < p.sntree.nCliques → p.sntree.IsParent i j →
    x ≤ y → y < (p.cliqueO i).length →
    (p.cliqueO i).getD x 0 ∈ p.sepO i → (p.cliqueO i).getD y 0 ∈ p.sepO i →
    x' ≤ y' → y' < (p.cliqueO j).length →
    (p.cliqueO j).getD x' 0 = (p.cliqueO i).getD x 0 → (p.cliqueO j).getD y' 0 = (p.cliqueO i).getD y 0 →
    T (p.ovStart op0 i + 2 * ovCount (p.blockList i) (coordToUpperTriangularIndex (x, y))) (p.blockRow row0 i x y) ∧
    T (p.ovStart op0 i + 2 * ovCount (p.blockList i) (coordToUpperTriangularIndex (x, y)) + 1)
      (p.blockRow row0 j x' y')

/-- the slots of the non-overlap entries of clique `i` hold `T`-values in `v` -/
def PatHit (T : Nat → Nat → Prop) (rowval : Array Nat) (nnz rs re : Nat) (p : SPattern) (i : Nat)
    (v : Array Nat) : Prop :=
  ∀ x y, x ≤ y → y < (p.cliqueO i).length →
    ¬((p.cliqueO i).getD x 0 ∈ p.sepO i ∧ (p.cliqueO i).getD y 0 ∈ p.sepO i) →
    ∀ slot, slot < nnz →
      rowval.getD slot 0 = rs + coordToUpperTriangularIndex ((p.cliqueO i).getD x 0, (p.cliqueO i).getD y 0) →
      rowval.getD slot 0 < re → T slot (v.getD slot 0)

theorem PatHit.keep {T : Nat → Nat → Prop} {rowval : Array Nat} {nnz rs re : Nat} {p : SPattern} {i : Nat}
    {v v' : Array Nat} (h : PatHit T rowval nnz rs re p i v) (hu : Upd T v v') :
    PatHit T rowval nnz rs re p i v' :=
  fun x y h1 h2 h3 slot h4 h5 h6 => hu.keep (h x y h1 h2 h3 slot h4 h5 h6)

theorem addCliqueStep_spec {α : Type} (TA TB : Nat → Nat → Prop) (A : Csc α) (hA : CscWF A)
    (bInd : Array Nat) (hb : StrictOn bInd 0 bInd.size) (rs re : Nat)
    (p : SPattern) (hp : ValidPattern p) (pIndex : Nat) (m : List (Nat × Nat)) (row0 op0 : Nat)
    (hm : ∀ j, j < p.sntree.nCliques →
      m.find? (fun e => e.1 == p.sntree.postIdx j) = some (p.sntree.postIdx j, p.rowStart row0 j))
    (hn : 0 < A.n) (i : Nat) (hi : i < p.sntree.nCliques) (st : CompactState)
    (hrow : st.rowPtr = p.rowStart row0 i) (hop : st.overlapPtr = p.ovStart op0 i)
    (hszA : A.colptr.getD A.n 0 ≤ st.AaI.size) (hszB : bInd.size ≤ st.baI.size)
    (hovsz : p.ovStart op0 i + 2 * p.ovl i ≤ st.AaI.size)
    (hTA : PatT TA A.rowval (A.colptr.getD A.n 0) rs re row0 p)
    (hTB : PatT TB bInd bInd.size rs re row0 p)
    (hTO : PatTO TA row0 op0 p) :
    ∃ st', addCliqueStep A bInd rs re p pIndex m st i = .ok st' ∧
      st'.rowPtr = p.rowStart row0 i + p.blk i ∧
      st'.overlapPtr = p.ovStart op0 i + 2 * p.ovl i ∧
      st'.conesNew = st.conesNew.push (.psd (p.sntree.cliqueAt i).length) ∧
      st'.coneMaps = st.coneMaps.push { origIndex := p.origIndex, treeAndClique := some (pIndex, i) } ∧
      Upd TA st.AaI st'.AaI ∧ Upd TB st.baI st'.baI ∧
      PatHit TA A.rowval (A.colptr.getD A.n 0) rs re p i st'.AaI ∧
      PatHit TB bInd bInd.size rs re p i st'.baI ∧
      (∀ y, p.ovStart op0 i ≤ y → y < p.ovStart op0 i + 2 * p.ovl i → TA y (st'.AaI.getD y 0)) := by
  have ht := hp.tree
  have hf := cliqueFacts p hp i hi
  obtain ⟨sp, hsp1, hsp2⟩ := getSeparators_okV p.sntree _ ht i hi
  obtain ⟨sn, hsn1, hsn2⟩ := getSnode_okV p.sntree _ ht i hi
  have hltsp : ∀ v ∈ sp.toList, v < p.ordering.size := by
    intro v hv; rw [hsp2] at hv
    exact ht.clique_lt i hi v (List.mem_append_right _ hv)
  have hltsn : ∀ v ∈ sn.toList, v < p.ordering.size := by
    intro v hv; rw [hsn2] at hv
    exact ht.clique_lt i hi v (List.mem_append_left _ hv)
  -- the block list
  have hbl : getBlockIndices (p.sortO sn.toList).toArray (p.sortO sp.toList).toArray p.ordering.size =
      p.blockList i := by
    rw [hsn2, hsp2]
    exact getBlockIndices_eq _ _ _ (p.cliqueO i) hf.snode_sorted hf.sep_sorted hf.disj hf.clique_sorted
      hf.mem_clique hf.clique_lt
  have hcount := blockList_countP p hp i hi
  -- parent data
  have hparent : ∃ ps pc, parentInfo p m i = .ok (ps, pc) ∧
      (i + 1 < p.sntree.nCliques → ∀ j, p.sntree.IsParent i j →
        ps = p.rowStart row0 j ∧ pc = (p.cliqueO j).toArray) := by
    by_cases hroot : i + 1 = p.sntree.nCliques
    · refine ⟨0, #[], ?_, fun h => by omega⟩
      unfold parentInfo
      have : (i + 1 != p.sntree.nCliques) = false := by simp [hroot]
      simp only [this]; rfl
    · have hlt : i + 1 < p.sntree.nCliques := by omega
      obtain ⟨j, hij, hpar, _⟩ := ht.parent i hlt
      refine ⟨p.rowStart row0 j, (p.cliqueO j).toArray, ?_, fun _ j' hj' => by
        rw [ht.parent_unique hj' hpar]; exact ⟨rfl, rfl⟩⟩
      have : (i + 1 != p.sntree.nCliques) = true := by simp [hroot]
      unfold parentInfo
      simp only [this, ↓reduceIte]
      rw [getCliqueParent_okV p.sntree _ ht i hi, hpar.2]
      simp only [bind, Except.bind]
      rw [hm j hpar.1]
      simp only [pure, Except.pure]
      rw [getE_ok p.sntree.snode _ _ #[] (ht.post_lt j hpar.1),
        getE_ok p.sntree.separators _ _ #[] (by rw [ht.sep_size]; exact ht.post_lt j hpar.1)]
      simp only
      rw [parentClique_ok p hp j hpar.1]
  obtain ⟨ps, pc, hpeq, hpfacts⟩ := hparent
  -- the column loop
  obtain ⟨AaI', baI', hcols, hUA, hUB, hHA, hHB, hHO⟩ := addCliqueCols_spec TA TB A hA bInd hb rs re
    (p.blockList i) pc ps st.rowPtr st.AaI st.baI st.overlapPtr hn hszA hszB
    (by rw [hcount, hop]; exact hovsz)
    (by
      intro q a b hL slot h1 h2 h3
      obtain ⟨x, y, hxy, hy, hq, hget⟩ := triPairs_getElem?_inv (p.cliqueO i) _ hf.clique_sorted q (by
        rcases Nat.lt_or_ge q (p.blockList i).length with h | h
        · exact h
        · rw [List.getElem?_eq_none h] at hL; cases hL)
      unfold SPattern.blockList at hL
      rw [hget] at hL
      simp only [Option.some.injEq, Prod.mk.injEq] at hL
      obtain ⟨rfl, rfl, hflag⟩ := hL
      have := hTA i x y hi hxy hy (by
        intro hh
        rw [decide_eq_true hh.1, decide_eq_true hh.2] at hflag
        exact absurd hflag (by decide)) slot h1 h2 h3
      rw [hrow, hq]
      exact this)
    (by
      intro q a b hL slot h1 h2 h3
      obtain ⟨x, y, hxy, hy, hq, hget⟩ := triPairs_getElem?_inv (p.cliqueO i) _ hf.clique_sorted q (by
        rcases Nat.lt_or_ge q (p.blockList i).length with h | h
        · exact h
        · rw [List.getElem?_eq_none h] at hL; cases hL)
      unfold SPattern.blockList at hL
      rw [hget] at hL
      simp only [Option.some.injEq, Prod.mk.injEq] at hL
      obtain ⟨rfl, rfl, hflag⟩ := hL
      have := hTB i x y hi hxy hy (by
        intro hh
        rw [decide_eq_true hh.1, decide_eq_true hh.2] at hflag
        exact absurd hflag (by decide)) slot h1 h2 h3
      rw [hrow, hq]
      exact this)
    (by
      intro q a b hL
      obtain ⟨x, y, hxy, hy, hq, hget⟩ := triPairs_getElem?_inv (p.cliqueO i) _ hf.clique_sorted q (by
        rcases Nat.lt_or_ge q (p.blockList i).length with h | h
        · exact h
        · rw [List.getElem?_eq_none h] at hL; cases hL)
      have hL' := hL
      unfold SPattern.blockList at hL'
      rw [hget] at hL'
      simp only [Option.some.injEq, Prod.mk.injEq] at hL'
      obtain ⟨rfl, rfl, hflag⟩ := hL'
      have hsepxy : (p.cliqueO i).getD x 0 ∈ p.sepO i ∧ (p.cliqueO i).getD y 0 ∈ p.sepO i := by
        simp only [Bool.and_eq_true, decide_eq_true_eq] at hflag
        exact hflag
      -- not the root: the root has no separator
      have hlt : i + 1 < p.sntree.nCliques := by
        rcases Nat.lt_or_ge (i + 1) p.sntree.nCliques with h | h
        · exact h
        · exfalso
          have hroot : i = p.sntree.nCliques - 1 := by omega
          have h0 := hsepxy.1
          unfold SPattern.sepO at h0
          rw [hroot, ht.root_sep] at h0
          simp [SPattern.sortO] at h0
      obtain ⟨j, hij, hpar, _⟩ := ht.parent i hlt
      obtain ⟨hps, hpc⟩ := hpfacts hlt j hpar
      have hfj := cliqueFacts p hp j hpar.1
      obtain ⟨x', hx', hx'e⟩ := exists_pos_of_mem (sepO_sub_parent p hp i j hlt hpar _ hsepxy.1)
      obtain ⟨y', hy', hy'e⟩ := exists_pos_of_mem (sepO_sub_parent p hp i j hlt hpar _ hsepxy.2)
      have hxy' : x' ≤ y' := by
        rw [← getD_le_iff_of_sorted hfj.clique_sorted hx' hy', hx'e, hy'e]
        exact (getD_le_iff_of_sorted hf.clique_sorted (by omega) hy).2 hxy
      have := hTO i j x y x' y' hlt hpar hxy hy hsepxy.1 hsepxy.2 hxy' hy' hx'e hy'e
      rw [hop, hrow, hq, hps, hpc, ← hx'e, ← hy'e,
        parentBlockIndices_spec (p.cliqueO j) hfj.clique_sorted x' y' hx' hy']
      exact this)
  rw [hcount] at hcols
  refine ⟨{ AaI := AaI', baI := baI', conesNew := st.conesNew.push (.psd (p.sntree.cliqueAt i).length),
            coneMaps := st.coneMaps.push { origIndex := p.origIndex, treeAndClique := some (pIndex, i) },
            rowPtr := st.rowPtr + triangularNumber (p.sntree.cliqueAt i).length,
            overlapPtr := st.overlapPtr + 2 * p.ovl i }, ?_, ?_, ?_, rfl, rfl, hUA, hUB, ?_, ?_, ?_⟩
  · unfold addCliqueStep
    dsimp only
    rw [hsp1]
    simp only [bind, Except.bind]
    rw [mapSorted_ok p sp hltsp, hsn1]
    simp only
    rw [mapSorted_ok p sn hltsn]
    simp only
    rw [hbl, hpeq]
    simp only
    rw [hcols]
    simp only
    rw [getNblk_okV p.sntree _ ht i hi]
    simp only [pure, Except.pure]
  · show st.rowPtr + _ = _
    rw [hrow]; rfl
  · show st.overlapPtr + _ = _
    rw [hop]
  · intro x y hxy hy hno slot h1 h2 h3
    have hget := triPairs_getElem? (p.cliqueO i)
      (fun a b => decide (a ∈ p.sepO i) && decide (b ∈ p.sepO i)) hf.clique_sorted x y hxy hy
    have hflag := flag_false_of_not hno
    rw [hflag] at hget
    exact hHA _ _ _ slot hget h1 h2 h3
  · intro x y hxy hy hno slot h1 h2 h3
    have hget := triPairs_getElem? (p.cliqueO i)
      (fun a b => decide (a ∈ p.sepO i) && decide (b ∈ p.sepO i)) hf.clique_sorted x y hxy hy
    have hflag := flag_false_of_not hno
    rw [hflag] at hget
    exact hHB _ _ _ slot hget h1 h2 h3
  · intro y h1 h2
    rw [hcount, hop] at hHO
    exact hHO y h1 h2

/-! ## the loop over the cliques -/

theorem addEntriesWithSparsityPattern_spec {α : Type} (TA TB : Nat → Nat → Prop) (A : Csc α) (hA : CscWF A)
    (bInd : Array Nat) (hb : StrictOn bInd 0 bInd.size) (rs re : Nat)
    (p : SPattern) (hp : ValidPattern p) (pIndex : Nat) (st : CompactState) (hn : 0 < A.n)
    (hszA : A.colptr.getD A.n 0 ≤ st.AaI.size) (hszB : bInd.size ≤ st.baI.size)
    (hovsz : st.overlapPtr + 2 * p.totalOverlaps ≤ st.AaI.size)
    (hTA : PatT TA A.rowval (A.colptr.getD A.n 0) rs re st.rowPtr p)
    (hTB : PatT TB bInd bInd.size rs re st.rowPtr p)
    (hTO : PatTO TA st.rowPtr st.overlapPtr p) :
    ∃ st', addEntriesWithSparsityPattern st A bInd rs re p pIndex = .ok st' ∧
      st'.rowPtr = st.rowPtr + p.totalRows ∧
      st'.overlapPtr = st.overlapPtr + 2 * p.totalOverlaps ∧
      st'.conesNew.toList = st.conesNew.toList ++ (List.range p.sntree.nCliques).map
        (fun d => Cone.psd (p.sntree.cliqueAt (p.sntree.nCliques - 1 - d)).length) ∧
      st'.coneMaps.toList = st.coneMaps.toList ++ (List.range p.sntree.nCliques).map
        (fun d => ({ origIndex := p.origIndex,
                     treeAndClique := some (pIndex, p.sntree.nCliques - 1 - d) } : ConeMapEntry)) ∧
      Upd TA st.AaI st'.AaI ∧ Upd TB st.baI st'.baI ∧
      (∀ i, i < p.sntree.nCliques → PatHit TA A.rowval (A.colptr.getD A.n 0) rs re p i st'.AaI) ∧
      (∀ i, i < p.sntree.nCliques → PatHit TB bInd bInd.size rs re p i st'.baI) ∧
      (∀ y, st.overlapPtr ≤ y → y < st.overlapPtr + 2 * p.totalOverlaps → TA y (st'.AaI.getD y 0)) := by
  obtain ⟨m, hm1, hm2⟩ := cliqueRowsMap_spec p hp st.rowPtr
  unfold addEntriesWithSparsityPattern
  rw [hm1]
  simp only [bind, Except.bind]
  have key := foldlM_inv (addCliqueStep A bInd rs re p pIndex m) (List.range p.sntree.nCliques).reverse
    (fun d s => d ≤ p.sntree.nCliques →
      (s.rowPtr = st.rowPtr + descSum p.blk p.sntree.nCliques d ∧
       s.overlapPtr = st.overlapPtr + 2 * descSum p.ovl p.sntree.nCliques d ∧
       s.conesNew.toList = st.conesNew.toList ++ (List.range d).map
         (fun d => Cone.psd (p.sntree.cliqueAt (p.sntree.nCliques - 1 - d)).length) ∧
       s.coneMaps.toList = st.coneMaps.toList ++ (List.range d).map
         (fun d => ({ origIndex := p.origIndex,
                      treeAndClique := some (pIndex, p.sntree.nCliques - 1 - d) } : ConeMapEntry)) ∧
       Upd TA st.AaI s.AaI ∧ Upd TB st.baI s.baI ∧
       (∀ d', d' < d → PatHit TA A.rowval (A.colptr.getD A.n 0) rs re p (p.sntree.nCliques - 1 - d') s.AaI) ∧
       (∀ d', d' < d → PatHit TB bInd bInd.size rs re p (p.sntree.nCliques - 1 - d') s.baI) ∧
       (∀ y, st.overlapPtr ≤ y → y < st.overlapPtr + 2 * descSum p.ovl p.sntree.nCliques d →
         TA y (s.AaI.getD y 0))))
    st
    (fun _ => ⟨by simp [descSum_zero], by simp [descSum_zero], by simp, by simp, Upd.refl _ _, Upd.refl _ _,
      fun d' h => by omega, fun d' h => by omega, fun y h1 h2 => by rw [descSum_zero] at h2; omega⟩)
    (by
      intro d hd s hI
      simp only [List.length_reverse, List.length_range] at hd
      obtain ⟨hr, ho, hc, hcm, hUA, hUB, hHA, hHB, hHO⟩ := hI (by omega)
      simp only [List.getElem_reverse, List.getElem_range, List.length_range]
      have hi : p.sntree.nCliques - 1 - d < p.sntree.nCliques := by omega
      have hdd : p.sntree.nCliques - 1 - (p.sntree.nCliques - 1 - d) = d := by omega
      have hmono := descSum_mono p.ovl p.sntree.nCliques (d + 1) p.sntree.nCliques (by omega)
      rw [descSum_succ] at hmono
      obtain ⟨s', hs', hr', ho', hc', hcm', hUA', hUB', hHA', hHB', hHO'⟩ := addCliqueStep_spec TA TB A hA bInd hb
        rs re p hp pIndex m st.rowPtr st.overlapPtr hm2 hn (p.sntree.nCliques - 1 - d) hi s
        (by unfold SPattern.rowStart; rw [hdd]; exact hr)
        (by unfold SPattern.ovStart; rw [hdd]; exact ho)
        (by rw [hUA.1]; exact hszA) (by rw [hUB.1]; exact hszB)
        (by
          unfold SPattern.ovStart; rw [hdd, hUA.1]
          unfold SPattern.totalOverlaps at hovsz
          omega)
        hTA hTB hTO
      unfold SPattern.rowStart at hr'
      unfold SPattern.ovStart at ho' hHO'
      rw [hdd] at hr' ho' hHO'
      refine ⟨s', hs', fun _ => ⟨?_, ?_, ?_, ?_, hUA.trans hUA', hUB.trans hUB', ?_, ?_, ?_⟩⟩
      · rw [hr', descSum_succ]; omega
      · rw [ho', descSum_succ]; omega
      · rw [hc', Array.toList_push, hc, List.range_succ, List.map_append, List.append_assoc]
        rfl
      · rw [hcm', Array.toList_push, hcm, List.range_succ, List.map_append, List.append_assoc]
        rfl
      · intro d' hd'
        rcases Nat.lt_succ_iff_lt_or_eq.1 hd' with h | h
        · exact (hHA d' h).keep hUA'
        · subst h; exact hHA'
      · intro d' hd'
        rcases Nat.lt_succ_iff_lt_or_eq.1 hd' with h | h
        · exact (hHB d' h).keep hUB'
        · subst h; exact hHB'
      · intro y h1 h2
        rw [descSum_succ] at h2
        rcases Nat.lt_or_ge y (st.overlapPtr + 2 * descSum p.ovl p.sntree.nCliques d) with h | h
        · exact hUA'.keep (hHO y h1 h)
        · exact hHO' y h (by omega))
  obtain ⟨s, hfold, hI⟩ := key
  simp only [List.length_reverse, List.length_range] at hI
  obtain ⟨hr, ho, hc, hcm, hUA, hUB, hHA, hHB, hHO⟩ := hI (Nat.le_refl _)
  refine ⟨s, hfold, hr, ho, hc, hcm, hUA, hUB, ?_, ?_, hHO⟩
  · intro i hi
    have := hHA (p.sntree.nCliques - 1 - i) (by omega)
    rwa [show p.sntree.nCliques - 1 - (p.sntree.nCliques - 1 - i) = i by omega] at this
  · intro i hi
    have := hHB (p.sntree.nCliques - 1 - i) (by omega)
    rwa [show p.sntree.nCliques - 1 - (p.sntree.nCliques - 1 - i) = i by omega] at this

end Clarabel.Chordal
