/-
  Helper lemmas for C16: block concatenation (row shifts, column lists placed side by
  side / on top of each other).
-/
import ClarabelProofs.Lemmas.CscScale

namespace Clarabel.Csc
open Clarabel.C16

variable {α : Type}

theorem colVals_shiftRows (off : Nat) (c : List (Nat × α)) (i : Nat) :
    colVals (shiftRows off c) i = if off ≤ i then colVals c (i - off) else [] := by
  unfold shiftRows
  induction c with
  | nil => simp
  | cons e t ih =>
    rw [List.map_cons, colVals_cons, ih, colVals_cons]
    by_cases h : off ≤ i
    · by_cases h2 : e.1 = i - off
      · have : e.1 + off = i := by omega
        simp [h, h2, this]
      · have : ¬ e.1 + off = i := by omega
        simp [h, h2, this]
    · have : ¬ e.1 + off = i := by omega
      simp [h, this]

theorem shiftRows_zero (c : List (Nat × α)) : shiftRows 0 c = c := by
  unfold shiftRows; simp

theorem colOK_shiftRows (m off : Nat) (c : List (Nat × α)) (h : ColOK m c) :
    ColOK (m + off) (shiftRows off c) := by
  unfold shiftRows
  refine ⟨?_, ?_⟩
  · rw [List.map_map, List.pairwise_map]
    have := h.1
    rw [List.pairwise_map] at this
    exact this.imp (fun hab => by simp only [Function.comp]; omega)
  · intro e he
    simp only [List.mem_map] at he
    obtain ⟨e', he', rfl⟩ := he
    have := h.2 e' he'
    simp only; omega

theorem colOK_mono (m m' : Nat) (c : List (Nat × α)) (h : ColOK m c) (hm : m ≤ m') : ColOK m' c :=
  ⟨h.1, fun e he => lt_of_lt_of_le (h.2 e he) hm⟩

/-- a column of rows `< m` on top of a column shifted by `m` -/
theorem colOK_append_shift (m m2 : Nat) (c d : List (Nat × α)) (hc : ColOK m c) (hd : ColOK m2 d) :
    ColOK (m + m2) (c ++ shiftRows m d) := by
  have hd' := colOK_shiftRows m2 m d hd
  refine ⟨?_, ?_⟩
  · rw [List.map_append, List.pairwise_append]
    refine ⟨hc.1, hd'.1, ?_⟩
    intro a ha b hb
    simp only [List.mem_map] at ha hb
    obtain ⟨e, he, rfl⟩ := ha
    obtain ⟨f, hf, rfl⟩ := hb
    have h1 := hc.2 e he
    unfold shiftRows at hf
    simp only [List.mem_map] at hf
    obtain ⟨f', _, rfl⟩ := hf
    simp only; omega
  · intro e he
    rcases List.mem_append.mp he with h | h
    · have := hc.2 e h; omega
    · have := hd'.2 e h; omega

theorem getElem?_flatten_offset {β : Type} (L : List (List β)) (k c : Nat) (hk : k < L.length)
    (hc : c < L[k].length) :
    L.flatten[((L.take k).map List.length).sum + c]? = some (L[k][c]) := by
  induction L generalizing k with
  | nil => simp at hk
  | cons a t ih =>
    cases k with
    | zero =>
      simp only [List.take_zero, List.map_nil, List.sum_nil, Nat.zero_add, List.flatten_cons,
        List.getElem_cons_zero] at hc ⊢
      rw [List.getElem?_append_left hc, List.getElem?_eq_getElem hc]
    | succ k =>
      simp only [List.take_succ_cons, List.map_cons, List.sum_cons, List.flatten_cons,
        List.getElem_cons_succ] at hc ⊢
      rw [List.getElem?_append_right (by omega)]
      have : a.length + ((t.take k).map List.length).sum + c - a.length
          = ((t.take k).map List.length).sum + c := by omega
      rw [this]
      exact ih k (by simpa using hk) hc

theorem foldl_add_eq_sum (l : List Nat) : l.foldl (· + ·) 0 = l.sum := by
  rw [List.sum_eq_foldl]

theorem take_sum_add_le (l : List Nat) (k : Nat) (hk : k < l.length) :
    (l.take k).sum + l[k] ≤ l.sum := by
  induction l generalizing k with
  | nil => simp at hk
  | cons a t ih =>
    cases k with
    | zero => simp
    | succ k =>
      have := ih k (by simpa using hk)
      simp only [List.take_succ_cons, List.sum_cons, List.getElem_cons_succ]
      omega


/-- the column lists `blockdiag` assembles, block by block -/
def bdBlocks (mats : List (Csc α)) : List (List (List (Nat × α))) :=
  (mats.zip ((List.range mats.length).map (fun k => ((mats.map (·.m)).take k).foldl (· + ·) 0))).map
    (fun (p : Csc α × Nat) => (List.range p.1.n).map (fun c => shiftRows p.2 (p.1.col c)))

theorem bdBlocks_length (mats : List (Csc α)) : (bdBlocks mats).length = mats.length := by
  simp [bdBlocks]

theorem bdBlocks_getElem (mats : List (Csc α)) (k : Nat) (hk : k < mats.length) :
    (bdBlocks mats)[k]'(by rw [bdBlocks_length]; exact hk) =
      (List.range mats[k].n).map (fun c =>
        shiftRows (((mats.take k).map (·.m)).sum) (mats[k].col c)) := by
  simp [bdBlocks, foldl_add_eq_sum, List.map_take]

theorem bdBlocks_map_length (mats : List (Csc α)) :
    (bdBlocks mats).map List.length = mats.map (·.n) := by
  apply List.ext_getElem
  · simp [bdBlocks]
  · intro k h1 h2
    have hk : k < mats.length := by simpa using h2
    rw [List.getElem_map, bdBlocks_getElem mats k hk]
    simp

end Clarabel.Csc
