/-
  Panic-freedom of the whole-solver model (C04) — stage "sparse kernels and top numerics":
  totality of `Residuals.gemvN / gemvT / symv`, `KktSystem.quadForm`, `Residuals.update`,
  `Info.getNormq / getNormb / update` and of `topNumerics` on well-formed state.

  All structural ([S]): the scalar type is polymorphic, no arithmetic law is used.
-/
import ClarabelProofs.Lemmas.SolverModelNoPanicDefs
import ClarabelProofs.Lemmas.InfoKernelBridge

namespace Clarabel.Solver
open Clarabel Info Residuals

set_option linter.unusedSectionVars false
set_option linter.unusedVariables false

variable {α : Type}

/-! ### generic totality lemmas for `for` loops in `MErr` -/

/-- [S] totality analogue of `forIn_list_inv`: a `for` loop over a list whose body returns `.ok`
and keeps `P` whenever `P` holds returns `.ok` with `P` -/
theorem forIn_list_total {σ β : Type} (P : σ → Prop) (body : β → σ → MErr (ForInStep σ)) :
    ∀ (l : List β), (∀ k ∈ l, ∀ s, P s → ∃ w, body k s = .ok w ∧ P (stepVal w)) →
      ∀ init, P init → ∃ out, forIn (m := MErr) l init body = .ok out ∧ P out := by
  intro l
  induction l with
  | nil => intro _ init h0; exact ⟨init, rfl, h0⟩
  | cons k t ih =>
    intro hstep init h0
    obtain ⟨w, hw, hP⟩ := hstep k (List.mem_cons_self ..) init h0
    rw [List.forIn_cons, hw]
    cases w with
    | done v => exact ⟨v, rfl, hP⟩
    | yield v => exact ih (fun k' hk' => hstep k' (List.mem_cons_of_mem _ hk')) v hP

/-- [S] totality analogue of `forIn_range_inv` for `for k in [lo:hi]` -/
theorem forIn_range_total {σ : Type} (P : σ → Prop) (lo hi : Nat) (body : Nat → σ → MErr (ForInStep σ))
    (hstep : ∀ k, lo ≤ k → k < hi → ∀ s, P s → ∃ w, body k s = .ok w ∧ P (stepVal w))
    {init : σ} (h0 : P init) : ∃ out, forIn (m := MErr) [lo:hi] init body = .ok out ∧ P out := by
  rw [Std.Legacy.Range.forIn_eq_forIn_range']
  simp only [Std.Legacy.Range.size, Nat.add_sub_cancel, Nat.div_one]
  refine forIn_list_total P body _ ?_ init h0
  intro k hk
  rw [List.mem_range'_1] at hk
  exact hstep k hk.1 (by omega)

/-- [S] `x >>= f` is `.ok` when `x` is and `f` is on its value -/
theorem bind_ok_exists {β γ : Type} {x : MErr β} {f : β → MErr γ} {Q : β → Prop}
    (hx : ∃ a, x = .ok a ∧ Q a) (hf : ∀ a, Q a → ∃ r, f a = .ok r) : ∃ r, (x >>= f) = .ok r := by
  obtain ⟨a, ha, hq⟩ := hx
  rw [bind_ok_of ha]
  exact hf a hq

/-- [S] `bind_ok_exists` with a postcondition -/
theorem bind_ok_post {β γ : Type} {x : MErr β} {f : β → MErr γ} {Q : β → Prop} {R : γ → Prop}
    (hx : ∃ a, x = .ok a ∧ Q a) (hf : ∀ a, Q a → ∃ r, f a = .ok r ∧ R r) :
    ∃ r, (x >>= f) = .ok r ∧ R r := by
  obtain ⟨a, ha, hq⟩ := hx
  rw [bind_ok_of ha]
  exact hf a hq

theorem setE_ok {β : Type} (xs : Array β) (i : Nat) (v : β) (s : String) (h : i < xs.size) :
    setE xs i v s = .ok (xs.set i v h) := by
  simp [setE, h]; rfl

/-- [S] the stored row indices of a canonical encoding are below `m` -/
theorem rowval_lt {A : Csc α} (hA : C16.Canonical A) (k : Nat) (hk : k < A.rowval.size) :
    A.rowval[k] < A.m := hA.rows_bound _ (by simp)

section
variable [Add α] [Sub α] [Mul α] [Div α] [Neg α] [OfNat α 0] [OfNat α 1] [OfNat α 2]
  [OfNat α 100] [OfNat α 1000] [LT α] [DecidableLT α] [LE α] [DecidableLE α] [BEq α] [FloatLike α]

/-- [S] `_csc_axpby_N` does not panic on a canonical encoding with correctly sized vectors -/
theorem gemvN_ok {A : Csc α} {x y : Array α} (a b : α) (hA : C16.Canonical A)
    (hx : x.size = A.n) (hy : y.size = A.m) : ∃ r, Residuals.gemvN A y x a b = .ok r := by
  unfold Residuals.gemvN
  by_cases ha0 : (a == 0) = true
  · simp only [ha0, if_true]
    exact ⟨_, rfl⟩
  · have hcs : (A.colptr.size == 0) = false := by
      have := hA.colptr_size
      rw [this]; rfl
    have hnz : (A.nzval.size != A.colptr.getD (A.colptr.size - 1) 0) = false := by
      rw [hA.colptr_size, Nat.add_sub_cancel, hA.colptr_last, hA.len_eq]; simp
    simp only [ha0, if_false, hcs, hnz, hx, bne_self_eq_false, Bool.false_eq_true]
    refine bind_ok_exists (Q := fun s => s.size = A.m)
      (forIn_range_total _ 0 A.n _ ?_ (by rw [scaleY_size, hy])) (fun a _ => ⟨a, rfl⟩)
    intro j _ hj s hs
    obtain ⟨hc, h1, h2, h3⟩ := Residuals.colptr_facts hA j hj
    rw [Csc.getE_eq_ok x j 0 _ (by omega), Csc.getE_eq_ok A.colptr j 0 _ (by omega),
      Csc.getE_eq_ok A.colptr (j+1) 0 _ (by omega)]
    simp only [Residuals.merr_ok_bind]
    refine bind_ok_post (Q := fun s => s.size = A.m)
      (forIn_range_total _ _ _ _ ?_ hs) (fun a ha => ⟨_, rfl, ha⟩)
    intro k hk1 hk2 s2 hs2
    have hr := rowval_lt hA k (by omega)
    rw [getE_ok_getElem A.rowval k _ (by omega), getE_ok_getElem A.nzval k _ (by omega)]
    simp only [Residuals.merr_ok_bind]
    rw [getE_ok_getElem s2 _ _ (by omega), Residuals.merr_ok_bind, setE_ok _ _ _ _ (by omega)]
    exact ⟨_, rfl, by simp only [stepVal, Array.size_set]; exact hs2⟩

/-- [S] `_csc_axpby_T` does not panic on a canonical encoding with correctly sized vectors -/
theorem gemvT_ok {A : Csc α} {x y : Array α} (a b : α) (hA : C16.Canonical A)
    (hx : x.size = A.m) (hy : y.size = A.n) : ∃ r, Residuals.gemvT A y x a b = .ok r := by
  unfold Residuals.gemvT
  by_cases ha0 : (a == 0) = true
  · simp only [ha0, if_true]
    exact ⟨_, rfl⟩
  · have hcs : (A.colptr.size == 0) = false := by
      have := hA.colptr_size
      rw [this]; rfl
    have hnz : (A.nzval.size != A.colptr.getD (A.colptr.size - 1) 0) = false := by
      rw [hA.colptr_size, Nat.add_sub_cancel, hA.colptr_last, hA.len_eq]; simp
    simp only [ha0, if_false, hcs, hnz, hx, bne_self_eq_false, Bool.false_eq_true]
    refine bind_ok_exists (Q := fun s => s.size = A.n)
      (forIn_range_total _ 0 _ _ ?_ (by rw [scaleY_size, hy])) (fun a _ => ⟨a, rfl⟩)
    intro j _ hj s hs
    have hj : j < A.n := by omega
    obtain ⟨hc, h1, h2, h3⟩ := Residuals.colptr_facts hA j hj
    rw [Csc.getE_eq_ok A.colptr j 0 _ (by omega), Csc.getE_eq_ok A.colptr (j+1) 0 _ (by omega),
      getE_ok_getElem s j _ (by omega)]
    simp only [Residuals.merr_ok_bind]
    refine bind_ok_post (Q := fun _ => True) (forIn_range_total _ _ _ _ ?_ trivial) ?_
    · intro k hk1 hk2 s2 _
      have hr := rowval_lt hA k (by omega)
      rw [getE_ok_getElem A.rowval k _ (by omega), getE_ok_getElem A.nzval k _ (by omega)]
      simp only [Residuals.merr_ok_bind]
      rw [getE_ok_getElem x _ _ (by omega), Residuals.merr_ok_bind]
      exact ⟨_, rfl, trivial⟩
    · intro yj _
      rw [setE_ok _ _ _ _ (by omega)]
      exact ⟨_, rfl, by simp only [stepVal, Array.size_set]; exact hs⟩

/-- [S] `_csc_symv` does not panic on a canonical square encoding with correctly sized vectors -/
theorem symv_ok {A : Csc α} {x y : Array α} (a b : α) (hA : C16.Canonical A) (hsq : A.m = A.n)
    (hx : x.size = A.n) (hy : y.size = A.n) : ∃ r, Residuals.symv A y x a b = .ok r := by
  unfold Residuals.symv
  -- since /repo 1706c1f the prologue is `if b == 0 { y.fill(0) } else { y.scale(b) }`
  have hsz' : (if b == 0 then Array.map (fun _ => (0 : α)) y else Array.map (fun v => v * b) y).size = A.n := by
    split <;> simp [hy]
  generalize (if b == 0 then Array.map (fun _ => (0 : α)) y else Array.map (fun v => v * b) y) = y0 at hsz' ⊢
  simp only [hx, hsz', hsq, bne_self_eq_false, Bool.false_eq_true, if_false]
  refine bind_ok_exists (Q := fun s => s.size = A.n)
    (forIn_range_total _ 0 A.n _ ?_ hsz') (fun a _ => ⟨a, rfl⟩)
  intro j _ hj s hs
  obtain ⟨hc, h1, h2, h3⟩ := Residuals.colptr_facts hA j hj
  rw [Csc.getE_eq_ok x j 0 _ (by omega), Csc.getE_eq_ok A.colptr j 0 _ (by omega),
    Csc.getE_eq_ok A.colptr (j+1) 0 _ (by omega)]
  simp only [Residuals.merr_ok_bind]
  have hlt : ¬ A.colptr.getD (j + 1) 0 < A.colptr.getD j 0 := by omega
  have hor : (decide (A.rowval.size < A.colptr.getD (j + 1) 0) ||
      decide (A.nzval.size < A.colptr.getD (j + 1) 0)) = false := by
    simp only [Bool.or_eq_false_iff, decide_eq_false_iff_not]; omega
  rw [if_neg hlt, hor]
  simp only [Bool.false_eq_true, ↓reduceIte]
  refine bind_ok_post (Q := fun s => s.size = A.n)
    (forIn_range_total _ _ _ _ ?_ hs) (fun a ha => ⟨_, rfl, ha⟩)
  intro k hk1 hk2 s2 hs2
  have hr := rowval_lt hA k (by omega)
  rw [getE_ok_getElem A.rowval k _ (by omega), getE_ok_getElem A.nzval k _ (by omega)]
  simp only [Residuals.merr_ok_bind]
  rw [getE_ok_getElem s2 _ _ (by omega), Residuals.merr_ok_bind, setE_ok _ _ _ _ (by omega)]
  simp only [Residuals.merr_ok_bind]
  split
  · rw [getE_ok_getElem x _ _ (by omega), Residuals.merr_ok_bind,
      getE_ok_getElem _ j _ (by rw [Array.size_set]; omega), Residuals.merr_ok_bind,
      setE_ok _ _ _ _ (by rw [Array.size_set]; omega)]
    exact ⟨_, rfl, by simp only [stepVal, Array.size_set]; exact hs2⟩
  · exact ⟨_, rfl, by simp only [stepVal, Array.size_set]; exact hs2⟩

theorem waxpbyInto_ok {len : Nat} (a b : α) {x y : Array α} (hx : x.size = len) (hy : y.size = len) :
    ∃ r, waxpbyInto len a x b y = .ok r := by
  unfold waxpbyInto
  rw [hx, hy]
  simp only [bne_self_eq_false, Bool.or_self, Bool.false_eq_true, if_false]
  exact ⟨_, rfl⟩

theorem axpbyInto_ok (a b : α) {x y : Array α} (h : y.size = x.size) :
    ∃ r, axpbyInto a x b y = .ok r := by
  unfold axpbyInto
  rw [h]
  simp only [bne_self_eq_false, Bool.false_eq_true, if_false]
  exact ⟨_, rfl⟩

/-- [S] `DefaultResiduals::update` does not panic: `P` canonical `n×n`, `A` canonical `m×n`,
`q`, `b`, the variables and the residual buffers of the problem's dimensions -/
theorem residUpdate_ok {P A : Csc α} {q b : Array α} {n m : Nat} {v : Vars α} {r : Resid α}
    (hP : C16.Canonical P) (hPm : P.m = n) (hPn : P.n = n)
    (hA : C16.Canonical A) (hAm : A.m = m) (hAn : A.n = n)
    (hq : q.size = n) (hb : b.size = m) (hv : VarsSized n m v) (hr : ResidSized n m r) :
    ∃ r', Residuals.update r v ⟨P, q, A, b⟩ = .ok r' := by
  unfold Residuals.update
  dsimp only
  obtain ⟨Px, hPx⟩ := symv_ok (A := P) (x := v.x) (y := r.Px) 1 0 hP (by omega)
    (by rw [hv.x, hPn]) (by rw [hr.Px, hPn])
  have hPxs := symv_size hPx
  obtain ⟨rxi, hrxi⟩ := gemvT_ok (A := A) (x := v.z) (y := r.rx_inf) (-1) 0 hA
    (by rw [hv.z, hAm]) (by rw [hr.rx_inf, hAn])
  have hrxis := gemvT_size hrxi
  obtain ⟨rzi, hrzi⟩ := gemvN_ok (A := A) (x := v.x) (y := v.s) 1 1 hA
    (by rw [hv.x, hAn]) (by rw [hv.s, hAm])
  have hrzis := gemvN_size hrzi
  obtain ⟨rx0, hrx0⟩ := waxpbyInto_ok (len := r.rx.size) (-1) (-v.τ) (x := Px) (y := q)
    (by rw [hPxs, hr.Px, hr.rx]) (by rw [hq, hr.rx])
  have hrx0s := waxpbyInto_size hrx0
  obtain ⟨rx, hrx⟩ := axpbyInto_ok 1 1 (x := rxi) (y := rx0)
    (by rw [hrx0s, hrxis, hr.rx, hr.rx_inf])
  obtain ⟨rz, hrz⟩ := waxpbyInto_ok (len := r.rz.size) 1 (-v.τ) (x := rzi) (y := b)
    (by rw [hrzis, hv.s, hr.rz]) (by rw [hb, hr.rz])
  have hne : (r.rz_inf.size != v.s.size) = false := by rw [hr.rz_inf, hv.s]; simp
  rw [hPx, Residuals.merr_ok_bind, hrxi, Residuals.merr_ok_bind]
  simp only [hne, Bool.false_eq_true, if_false]
  rw [hrzi, Residuals.merr_ok_bind, hrx0, Residuals.merr_ok_bind, hrx, Residuals.merr_ok_bind, hrz,
    Residuals.merr_ok_bind]
  exact ⟨_, rfl⟩

/-! ### `info.rs` -/

theorem normScaledE_ok {x v : Array α} (h : x.size = v.size) :
    Info.normScaledE x v = .ok (Vec.normScaled x v) := by
  unfold Info.normScaledE
  rw [h]
  simp only [bne_self_eq_false, Bool.false_eq_true, if_false]
  rfl

theorem normInfScaledE_ok {x v : Array α} (h : x.size = v.size) :
    Info.normInfScaledE x v = .ok (Vec.normInfScaled x v) := by
  unfold Info.normInfScaledE
  rw [h]
  simp only [bne_self_eq_false, Bool.false_eq_true, if_false]
  rfl

/-- [S] `get_normq` does not panic when `q` and `dinv` have the same length -/
theorem getNormq_ok (cache : Option α) {q dinv : Array α} (c : α) (h : q.size = dinv.size) :
    ∃ r, Info.getNormq cache q dinv c = .ok r := by
  unfold Info.getNormq
  cases cache with
  | some v => exact ⟨v, rfl⟩
  | none =>
    dsimp only
    rw [normInfScaledE_ok h]
    exact ⟨_, rfl⟩

/-- [S] `get_normb` does not panic when `b` and `einv` have the same length -/
theorem getNormb_ok (cache : Option α) {b einv : Array α} (h : b.size = einv.size) :
    ∃ r, Info.getNormb cache b einv = .ok r := by
  unfold Info.getNormb
  cases cache with
  | some v => exact ⟨v, rfl⟩
  | none =>
    dsimp only
    rw [normInfScaledE_ok h]
    exact ⟨_, rfl⟩

/-- [S] `DefaultInfo::update` does not panic when the variables, the residuals and the
equilibration vectors have the problem's dimensions -/
theorem infoUpdate_ok (i : InfoS α) {eq : Info.Equil α} (normq normb : α) {v : Vars α} {r : Resid α}
    {n m : Nat} (hv : VarsSized n m v) (hr : ResidSized n m r)
    (hd : eq.d.size = n) (hdinv : eq.dinv.size = n) (he : eq.e.size = m) (heinv : eq.einv.size = m) :
    ∃ i', Info.update i eq normq normb v r = .ok i' := by
  unfold Info.update
  dsimp only
  rw [normScaledE_ok (x := v.x) (v := eq.d) (by rw [hv.x, hd]), Residuals.merr_ok_bind,
    normScaledE_ok (x := v.z) (v := eq.e) (by rw [hv.z, he]), Residuals.merr_ok_bind,
    normScaledE_ok (x := v.s) (v := eq.einv) (by rw [hv.s, heinv]), Residuals.merr_ok_bind,
    normScaledE_ok (x := r.rx_inf) (v := eq.dinv) (by rw [hr.rx_inf, hdinv]), Residuals.merr_ok_bind,
    normScaledE_ok (x := r.Px) (v := eq.dinv) (by rw [hr.Px, hdinv]), Residuals.merr_ok_bind,
    normScaledE_ok (x := r.rz_inf) (v := eq.einv) (by rw [hr.rz_inf, heinv]), Residuals.merr_ok_bind,
    normScaledE_ok (x := r.rz) (v := eq.einv) (by rw [hr.rz, heinv]), Residuals.merr_ok_bind,
    normScaledE_ok (x := r.rx) (v := eq.dinv) (by rw [hr.rx, hdinv]), Residuals.merr_ok_bind]
  exact ⟨_, rfl⟩

/-! ### the top of a pass -/

/-- [S] **the numerics at the top of a pass do not panic** on well-formed data with correctly
sized variables and residual buffers -/
theorem topNumerics_ok {S : SolverSt α} (iter : Nat) (hd : DataOK S.data)
    (hv : VarsSized S.data.n S.data.m S.variables) (hr : ResidSized S.data.n S.data.m S.residuals) :
    ∃ r, topNumerics S iter = .ok r := by
  unfold topNumerics
  dsimp only
  obtain ⟨res, hres⟩ := residUpdate_ok (P := S.data.P) (A := S.data.A) (q := S.data.q) (b := S.data.b)
    hd.P_canon.canon hd.P_m hd.P_n hd.A_canon.canon hd.A_m hd.A_n hd.q hd.b hv hr
  obtain ⟨s1, s2, s3, s4, s5⟩ := residUpdate_shape hres
  have hr' : ResidSized S.data.n S.data.m res :=
    ⟨s1.trans hr.rx, s2.trans hr.rz, s3.trans hr.rx_inf, s4.trans hr.rz_inf, s5.trans hr.Px⟩
  obtain ⟨nq, hnq⟩ := getNormq_ok S.data.normq (q := S.data.q)
    (dinv := (equilView S.data.equilibration).dinv) (equilView S.data.equilibration).c
    (by rw [hd.q]; exact hd.eq_dinv.symm)
  obtain ⟨nb, hnb⟩ := getNormb_ok S.data.normb (b := S.data.b)
    (einv := (equilView S.data.equilibration).einv) (by rw [hd.b]; exact hd.eq_einv.symm)
  obtain ⟨i1, hi1⟩ := infoUpdate_ok { S.info with iterations := iter }
    (eq := equilView S.data.equilibration) nq nb hv hr' hd.eq_d hd.eq_dinv hd.eq_e hd.eq_einv
  rw [hres, Residuals.merr_ok_bind, hnq, Residuals.merr_ok_bind, hnb, Residuals.merr_ok_bind, hi1,
    Residuals.merr_ok_bind]
  exact ⟨_, rfl⟩

/-! ### `_csc_quad_form` -/

/-- [S] in an upper-triangular encoding every stored row index of column `j` is at most `j` -/
theorem rowval_le_of_isTriu {A : Csc α} (ht : A.isTriu = true) (j : Nat) (hj : j < A.n) (k : Nat)
    (hk1 : A.colptr.getD j 0 ≤ k) (hk2 : k < A.colptr.getD (j + 1) 0) (hk3 : k < A.rowval.size) :
    A.rowval[k] ≤ j := by
  unfold Csc.isTriu at ht
  rw [List.all_eq_true] at ht
  have h1 := ht j (List.mem_range.mpr hj)
  rw [List.all_eq_true] at h1
  have hmem : A.rowval[k] ∈ A.colRows j := by
    unfold Csc.colRows
    rw [Array.mem_toList_iff, Array.mem_iff_getElem]
    refine ⟨k - A.colptr.getD j 0, by simp only [Array.size_extract]; omega, ?_⟩
    rw [Array.getElem_extract]
    congr 1
    omega
  simpa using h1 _ hmem

/-- [S] `_csc_quad_form` does not panic on a canonical square upper-triangular encoding with
correctly sized vectors -/
theorem quadForm_ok {A : Csc α} {x y : Array α} (hA : C16.Canonical A) (hsq : A.m = A.n)
    (ht : A.isTriu = true) (hx : x.size = A.n) (hy : y.size = A.n) :
    ∃ v, KktSystem.quadForm A y x = .ok v := by
  unfold KktSystem.quadForm
  have hc : ¬ (A.n ≠ A.m ∨ x.size ≠ A.n ∨ y.size ≠ A.n ∨ A.colptr.size ≠ A.n + 1
      ∨ A.nzval.size ≠ A.rowval.size) := by
    have := hA.colptr_size
    have := hA.len_eq
    omega
  simp only [hc, if_false]
  refine bind_ok_exists (Q := fun _ => True)
    (forIn_range_total _ 0 A.n _ ?_ trivial) (fun a _ => ⟨a, rfl⟩)
  intro j _ hj s _
  obtain ⟨hcp, h1, h2, h3⟩ := Residuals.colptr_facts hA j hj
  rw [Csc.getE_eq_ok A.colptr j 0 _ (by omega), Csc.getE_eq_ok A.colptr (j+1) 0 _ (by omega),
    getE_ok_getElem x j _ (by omega), getE_ok_getElem y j _ (by omega)]
  simp only [Residuals.merr_ok_bind]
  refine bind_ok_post (Q := fun _ => True)
    (forIn_range_total _ _ _ _ ?_ trivial) (fun a _ => ⟨_, rfl, trivial⟩)
  intro k hk1 hk2 s2 _
  have hr := rowval_lt hA k (by omega)
  have hle := rowval_le_of_isTriu ht j hj k hk1 hk2 (by omega)
  rw [getE_ok_getElem A.nzval k _ (by omega), getE_ok_getElem A.rowval k _ (by omega)]
  simp only [Residuals.merr_ok_bind]
  split
  · rw [getE_ok_getElem x _ _ (by omega), Residuals.merr_ok_bind,
      getE_ok_getElem y _ _ (by omega), Residuals.merr_ok_bind]
    exact ⟨_, rfl, trivial⟩
  · rw [if_pos (by omega)]
    exact ⟨_, rfl, trivial⟩

end

/-! ### non-vacuity (on `Float`, the scalar type of the executable model) -/

/-- upper triangle of `[[2,1],[1,3]]` -/
def npExP : Csc Float := ⟨2, 2, #[0, 1, 3], #[0, 0, 1], #[2, 1, 3]⟩
/-- the `3 × 2` matrix `[[1,0],[4,5],[0,6]]` -/
def npExA : Csc Float := ⟨3, 2, #[0, 2, 4], #[0, 1, 1, 2], #[1, 4, 5, 6]⟩

theorem npExP_canonical : C16.Canonical npExP := ((Csc.checkFormat_iff0 npExP).mp (by rfl)).canon
theorem npExA_canonical : C16.Canonical npExA := ((Csc.checkFormat_iff0 npExA).mp (by rfl)).canon

example : ∃ r, Residuals.symv npExP #[1, 1] #[1, 2] 1 0 = .ok r :=
  symv_ok 1 0 npExP_canonical rfl rfl rfl
example : ∃ r, Residuals.gemvN npExA #[1, 1, 1] #[1, 2] 2 (-1) = .ok r :=
  gemvN_ok 2 (-1) npExA_canonical rfl rfl
example : ∃ r, Residuals.gemvT npExA #[1, 1] #[1, 2, 3] (-1) 0 = .ok r :=
  gemvT_ok (-1) 0 npExA_canonical rfl rfl
example : ∃ v, KktSystem.quadForm npExP #[1, 1] #[1, 2] = .ok v :=
  quadForm_ok npExP_canonical rfl (by rfl) rfl rfl
example : ∃ r', Residuals.update
    (⟨#[0, 0], #[0, 0, 0], 0, #[0, 0], #[0, 0, 0], 0, 0, 0, 0, #[0, 0]⟩ : Resid Float)
    ⟨#[1, 2], #[1, 1, 1], #[1, 2, 3], 1, 1⟩ ⟨npExP, #[1, 1], npExA, #[1, 1, 1]⟩ = .ok r' :=
  residUpdate_ok (n := 2) (m := 3) npExP_canonical rfl rfl npExA_canonical rfl rfl rfl rfl
    ⟨rfl, rfl, rfl⟩ ⟨rfl, rfl, rfl, rfl, rfl⟩

end Clarabel.Solver
