/-
  C01/C02 — reading statements about the REDUCED problem (after presolve dropped the rows
  with an "infinite" bound) as statements about the USER's full problem.

  Part A (`Clarabel.InfoPresolve`, abstract, `Fin`-indexed): with `emb : Fin mr → Fin m`
  the (injective) enumeration of the kept rows and `z = 0` on the dropped rows,
  `Aᵀz`, `bᵀz`, `‖z‖` are the same numbers for the full and the reduced problem, and the
  primal residual / `A x + s` / `s` restricted to the kept rows are the reduced ones.

  Part B: the enumeration `emb` built from the model's `keep : List Bool`
  (`nthTrue keep r` = position of the `r`-th `true`), its relation to `Unscale.rank` /
  `Csc.rankBefore`, and the hypotheses of Part A derived from the reversal facts of
  `C01.presolve_transparent` / `C09.reverse`.

  Part C: the packaged statements `solved_full_problem`, `primal_infeasible_full_problem`,
  `dual_infeasible_full_problem` over `ℝ`.
-/
import ClarabelModel.Csc
import ClarabelProofs.Lemmas.InfoCert
import ClarabelProofs.Lemmas.InfoUser
import ClarabelProofs.Lemmas.InfoLengths
import ClarabelProofs.Lemmas.Presolve
import ClarabelProofs.Lemmas.VecKernels
import Mathlib.Algebra.BigOperators.Group.Finset.Basic
import Mathlib.Data.Fintype.BigOperators

open Finset

namespace Clarabel.InfoPresolve
open Clarabel Clarabel.Dense

/-! ## Part A — abstract row selection -/

section partA
variable {α : Type} [Field α] {m mr n : ℕ}

/-- the set of kept rows is the image of the enumeration -/
theorem kept_eq_image (emb : Fin mr → Fin m) (keep : Fin m → Bool)
    (hkeep : ∀ i, keep i = true ↔ ∃ r, emb r = i) :
    (univ.filter (fun i => keep i = true)) = univ.image emb := by
  ext i
  simp only [mem_filter, mem_univ, true_and, mem_image]
  exact hkeep i

/-- [F] a sum over the kept rows is the sum over the reduced index set -/
theorem sum_kept (emb : Fin mr → Fin m) (keep : Fin m → Bool)
    (hinj : Function.Injective emb) (hkeep : ∀ i, keep i = true ↔ ∃ r, emb r = i)
    (f : Fin m → α) :
    ∑ i ∈ univ.filter (fun i => keep i = true), f i = ∑ r, f (emb r) := by
  rw [kept_eq_image emb keep hkeep, Finset.sum_image (fun a _ b _ h => hinj h)]

/-- [F] a full sum whose terms vanish on the dropped rows is the sum over the reduced
index set -/
theorem sum_full_of_dropped_zero (emb : Fin mr → Fin m) (keep : Fin m → Bool)
    (hinj : Function.Injective emb) (hkeep : ∀ i, keep i = true ↔ ∃ r, emb r = i)
    (f : Fin m → α) (hf : ∀ i, keep i = false → f i = 0) :
    ∑ i, f i = ∑ r, f (emb r) := by
  rw [← sum_kept emb keep hinj hkeep f]
  symm
  apply Finset.sum_subset (Finset.filter_subset _ _)
  intro i _ hi
  apply hf
  simp only [mem_filter, mem_univ, true_and] at hi
  cases h : keep i
  · rfl
  · exact absurd h hi

/-- [F] **`Aᵀz` is the same vector for the full and the reduced problem** (so are the dual
residual `P x + Aᵀz + q` and the Farkas quantity `Aᵀz`). -/
theorem mulVT_full_eq_reduced (emb : Fin mr → Fin m) (keep : Fin m → Bool)
    (hinj : Function.Injective emb) (hkeep : ∀ i, keep i = true ↔ ∃ r, emb r = i)
    (A : Fin m → Fin n → α) (z : Fin m → α) (hz : ∀ i, keep i = false → z i = 0) (j : Fin n) :
    mulVT A z j = mulVT (fun r j => A (emb r) j) (fun r => z (emb r)) j := by
  unfold mulVT
  exact sum_full_of_dropped_zero emb keep hinj hkeep (fun i => A i j * z i)
    (fun i hi => by simp only [hz i hi, mul_zero])

/-- [F] `bᵀz` is the same number for the full and the reduced problem -/
theorem dot_b_full_eq_reduced (emb : Fin mr → Fin m) (keep : Fin m → Bool)
    (hinj : Function.Injective emb) (hkeep : ∀ i, keep i = true ↔ ∃ r, emb r = i)
    (b z : Fin m → α) (hz : ∀ i, keep i = false → z i = 0) :
    dot b z = dot (fun r => b (emb r)) (fun r => z (emb r)) := by
  unfold dot
  exact sum_full_of_dropped_zero emb keep hinj hkeep (fun i => b i * z i)
    (fun i hi => by simp only [hz i hi, mul_zero])

/-- [F] `Σ zᵢ²` is the same number for the full and the reduced `z` -/
theorem sumsq_z_full_eq_reduced (emb : Fin mr → Fin m) (keep : Fin m → Bool)
    (hinj : Function.Injective emb) (hkeep : ∀ i, keep i = true ↔ ∃ r, emb r = i)
    (z : Fin m → α) (hz : ∀ i, keep i = false → z i = 0) :
    sumsq z = sumsq (fun r => z (emb r)) := by
  unfold sumsq
  exact sum_full_of_dropped_zero emb keep hinj hkeep (fun i => z i * z i)
    (fun i hi => by simp only [hz i hi, mul_zero])

/-- [R] `‖z‖₂` is the same number for the full and the reduced `z` -/
theorem nrm_z_full_eq_reduced (emb : Fin mr → Fin m) (keep : Fin m → Bool)
    (hinj : Function.Injective emb) (hkeep : ∀ i, keep i = true ↔ ∃ r, emb r = i)
    (z : Fin m → ℝ) (hz : ∀ i, keep i = false → z i = 0) :
    nrm z = nrm (fun r => z (emb r)) := by
  unfold nrm
  rw [sumsq_z_full_eq_reduced emb keep hinj hkeep z hz]

/-- [F] `A x` on a kept row is the reduced `A' x` on its reduced index (no hypothesis) -/
theorem mulV_kept (emb : Fin mr → Fin m) (A : Fin m → Fin n → α) (x : Fin n → α) (r : Fin mr) :
    mulV A x (emb r) = mulV (fun r j => A (emb r) j) x r := rfl

/-- [F] **the primal residual on a kept row is the reduced primal residual**, entry by
entry -/
theorem primal_rows_kept (emb : Fin mr → Fin m) (A : Fin m → Fin n → α) (b s : Fin m → α)
    (x : Fin n → α) (r : Fin mr) :
    mulV A x (emb r) + s (emb r) - b (emb r)
      = mulV (fun r j => A (emb r) j) x r + (fun r => s (emb r)) r - (fun r => b (emb r)) r := rfl

/-- [F] the sum of squares of the full primal residual **over the kept rows** is `sumsq`
of the reduced primal residual -/
theorem primal_sumsq_kept (emb : Fin mr → Fin m) (keep : Fin m → Bool)
    (hinj : Function.Injective emb) (hkeep : ∀ i, keep i = true ↔ ∃ r, emb r = i)
    (A : Fin m → Fin n → α) (b s : Fin m → α) (x : Fin n → α) :
    ∑ i ∈ univ.filter (fun i => keep i = true),
        (mulV A x i + s i - b i) * (mulV A x i + s i - b i)
      = sumsq (fun r => mulV (fun r j => A (emb r) j) x r + s (emb r) - b (emb r)) := by
  rw [sum_kept emb keep hinj hkeep]
  rfl

/-- [F] `A x + s` on a kept row is the reduced `A' x + s'` -/
theorem Axs_rows_kept (emb : Fin mr → Fin m) (A : Fin m → Fin n → α) (s : Fin m → α)
    (x : Fin n → α) (r : Fin mr) :
    mulV A x (emb r) + s (emb r)
      = mulV (fun r j => A (emb r) j) x r + (fun r => s (emb r)) r := rfl

/-- [F] the sum of squares of `A x + s` over the kept rows is `sumsq` of the reduced
`A' x + s'` (dual-infeasibility certificate) -/
theorem Axs_sumsq_kept (emb : Fin mr → Fin m) (keep : Fin m → Bool)
    (hinj : Function.Injective emb) (hkeep : ∀ i, keep i = true ↔ ∃ r, emb r = i)
    (A : Fin m → Fin n → α) (s : Fin m → α) (x : Fin n → α) :
    ∑ i ∈ univ.filter (fun i => keep i = true), (mulV A x i + s i) * (mulV A x i + s i)
      = sumsq (fun r => mulV (fun r j => A (emb r) j) x r + s (emb r)) := by
  rw [sum_kept emb keep hinj hkeep]
  rfl

/-- [F] the sum of squares of `s` over the kept rows is `sumsq` of the reduced `s'` (the
norm of `s` in the solver's normalisation is the one over the kept rows) -/
theorem sumsq_s_kept (emb : Fin mr → Fin m) (keep : Fin m → Bool)
    (hinj : Function.Injective emb) (hkeep : ∀ i, keep i = true ↔ ∃ r, emb r = i)
    (s : Fin m → α) :
    ∑ i ∈ univ.filter (fun i => keep i = true), s i * s i = sumsq (fun r => s (emb r)) := by
  rw [sum_kept emb keep hinj hkeep]
  rfl

/-- 2-norm of `v` restricted to the kept rows -/
noncomputable def nrmKept (keep : Fin m → Bool) (v : Fin m → ℝ) : ℝ :=
  Real.sqrt (∑ i ∈ univ.filter (fun i => keep i = true), v i * v i)

/-- [R] the norm over the kept rows is the norm of the reduced vector -/
theorem nrmKept_eq_reduced (emb : Fin mr → Fin m) (keep : Fin m → Bool)
    (hinj : Function.Injective emb) (hkeep : ∀ i, keep i = true ↔ ∃ r, emb r = i)
    (v : Fin m → ℝ) : nrmKept keep v = nrm (fun r => v (emb r)) := by
  unfold nrmKept nrm
  rw [sum_kept emb keep hinj hkeep]
  rfl

/-- [R] when nothing is dropped the norm over the kept rows is the plain norm -/
theorem nrmKept_all (keep : Fin m → Bool) (hall : ∀ i, keep i = true) (v : Fin m → ℝ) :
    nrmKept keep v = nrm v := by
  unfold nrmKept nrm sumsq
  congr 2
  ext i
  simp [hall i]

/-- [R] the norm over the kept rows never exceeds the full norm -/
theorem nrmKept_le (keep : Fin m → Bool) (v : Fin m → ℝ) : nrmKept keep v ≤ nrm v := by
  unfold nrmKept nrm sumsq
  apply Real.sqrt_le_sqrt
  exact Finset.sum_le_sum_of_subset_of_nonneg (Finset.filter_subset _ _)
    (fun i _ _ => mul_self_nonneg (v i))

end partA

/-! ## Part B — the enumeration of the kept rows built from the model's `keep` list -/

section partB
open Clarabel.InfoUser

/-- position of the `r`-th `true` flag (0-based; `0` past the end) -/
def nthTrue : List Bool → ℕ → ℕ
  | [], _ => 0
  | true :: _, 0 => 0
  | true :: t, r + 1 => nthTrue t r + 1
  | false :: t, r => nthTrue t r + 1

theorem nthTrue_true_zero (t : List Bool) : nthTrue (true :: t) 0 = 0 := by
  simp [nthTrue]
theorem nthTrue_true_succ (t : List Bool) (r : ℕ) : nthTrue (true :: t) (r + 1) = nthTrue t r + 1 := by
  simp [nthTrue]
theorem nthTrue_false (t : List Bool) (r : ℕ) : nthTrue (false :: t) r = nthTrue t r + 1 := by
  cases r <;> simp [nthTrue]

theorem rank_zero (l : List Bool) : Unscale.rank l 0 = 0 := by simp [Unscale.rank]
theorem rank_true_succ (t : List Bool) (k : ℕ) :
    Unscale.rank (true :: t) (k + 1) = Unscale.rank t k + 1 := by simp [Unscale.rank]
theorem rank_false_succ (t : List Bool) (k : ℕ) :
    Unscale.rank (false :: t) (k + 1) = Unscale.rank t k := by simp [Unscale.rank]

/-- [S] `Unscale.rank` (C01's reversal) and `Csc.rankBefore` (C09/C16's `select_rows`) are the
same numbering of the kept rows -/
theorem rank_eq_rankBefore (keep : List Bool) (k : ℕ) :
    Csc.rankBefore keep.toArray k = Unscale.rank keep k := rfl

theorem rankBefore_eq_rank (keep : Array Bool) (k : ℕ) :
    Csc.rankBefore keep k = Unscale.rank keep.toList k := rfl

/-- [S] the `r`-th `true` is in range, is a `true`, and has exactly `r` `true`s before it -/
theorem nthTrue_spec (l : List Bool) (r : ℕ) (hr : r < l.count true) :
    nthTrue l r < l.length ∧ l[nthTrue l r]? = some true ∧ Unscale.rank l (nthTrue l r) = r := by
  induction l generalizing r with
  | nil => simp at hr
  | cons b t ih =>
    cases b with
    | true =>
      cases r with
      | zero =>
        rw [nthTrue_true_zero]
        exact ⟨by simp, by simp, rank_zero _⟩
      | succ r =>
        obtain ⟨h1, h2, h3⟩ := ih r (by simpa using hr)
        rw [nthTrue_true_succ, rank_true_succ, h3]
        exact ⟨by simpa using h1, by simpa using h2, rfl⟩
    | false =>
      obtain ⟨h1, h2, h3⟩ := ih r (by simpa using hr)
      rw [nthTrue_false, rank_false_succ, h3]
      exact ⟨by simpa using h1, by simpa using h2, rfl⟩

/-- [S] a kept position `k` is the `rank k`-th `true` -/
theorem nthTrue_rank (l : List Bool) (k : ℕ) (hk : l[k]? = some true) :
    nthTrue l (Unscale.rank l k) = k := by
  induction l generalizing k with
  | nil => simp at hk
  | cons b t ih =>
    cases k with
    | zero =>
      simp only [List.getElem?_cons_zero, Option.some.injEq] at hk
      subst hk
      rw [rank_zero, nthTrue_true_zero]
    | succ k =>
      have hk' : t[k]? = some true := by simpa using hk
      cases b with
      | true => rw [rank_true_succ, nthTrue_true_succ, ih k hk']
      | false => rw [rank_false_succ, nthTrue_false, ih k hk']

/-- [S] the rank of a kept position is a valid reduced index -/
theorem rank_lt_count (l : List Bool) (k : ℕ) (hk : l[k]? = some true) :
    Unscale.rank l k < l.count true := by
  induction l generalizing k with
  | nil => simp at hk
  | cons b t ih =>
    cases k with
    | zero =>
      simp only [List.getElem?_cons_zero, Option.some.injEq] at hk
      subst hk
      rw [rank_zero]; simp
    | succ k =>
      have hk' : t[k]? = some true := by simpa using hk
      cases b with
      | true => rw [rank_true_succ]; simpa using ih k hk'
      | false => rw [rank_false_succ]; simpa using ih k hk'

/-- [S] the enumeration of the kept rows is strictly increasing -/
theorem nthTrue_strictMono (l : List Bool) (r r' : ℕ) (h : r < r') (hr' : r' < l.count true) :
    nthTrue l r < nthTrue l r' := by
  induction l generalizing r r' with
  | nil => simp at hr'
  | cons b t ih =>
    cases b with
    | true =>
      cases r' with
      | zero => omega
      | succ r' =>
        cases r with
        | zero => rw [nthTrue_true_zero, nthTrue_true_succ]; omega
        | succ r =>
          rw [nthTrue_true_succ, nthTrue_true_succ]
          have := ih r r' (by omega) (by simpa using hr')
          omega
    | false =>
      rw [nthTrue_false, nthTrue_false]
      have := ih r r' h (by simpa using hr')
      omega

variable {m mr n : ℕ}

/-- the model's keep flags as a function on `Fin m` -/
def keepFn (keepL : List Bool) (m : ℕ) : Fin m → Bool := fun i => keepL.getD i false

/-- the enumeration of the kept rows: `embFin r` = position of the `r`-th `true` -/
def embFin (keepL : List Bool) (hm : keepL.length = m) (hmr : keepL.count true = mr) :
    Fin mr → Fin m :=
  fun r => ⟨nthTrue keepL r, by
    have := (nthTrue_spec keepL r (by rw [hmr]; exact r.isLt)).1; omega⟩

theorem embFin_val (keepL : List Bool) (hm : keepL.length = m) (hmr : keepL.count true = mr)
    (r : Fin mr) : (embFin keepL hm hmr r : ℕ) = nthTrue keepL r := rfl

/-- [S] `rank (emb r) = r` (for both `Unscale.rank` and `Csc.rankBefore`, which coincide) -/
theorem rank_embFin (keepL : List Bool) (hm : keepL.length = m) (hmr : keepL.count true = mr)
    (r : Fin mr) :
    Unscale.rank keepL (embFin keepL hm hmr r) = r
    ∧ Csc.rankBefore keepL.toArray (embFin keepL hm hmr r) = r := by
  have := (nthTrue_spec keepL r (by rw [hmr]; exact r.isLt)).2.2
  exact ⟨this, this⟩

/-- [S] `emb r` is a kept row -/
theorem keep_embFin (keepL : List Bool) (hm : keepL.length = m) (hmr : keepL.count true = mr)
    (r : Fin mr) :
    keepL[(embFin keepL hm hmr r : ℕ)]? = some true
    ∧ keepFn keepL m (embFin keepL hm hmr r) = true := by
  have h := (nthTrue_spec keepL r (by rw [hmr]; exact r.isLt)).2.1
  refine ⟨h, ?_⟩
  simp only [keepFn, embFin_val, List.getD_eq_getElem?_getD, h, Option.getD_some]

/-- [S] `emb` is strictly increasing -/
theorem embFin_strictMono (keepL : List Bool) (hm : keepL.length = m)
    (hmr : keepL.count true = mr) : StrictMono (embFin keepL hm hmr) := by
  intro r r' h
  exact nthTrue_strictMono keepL r r' h (by rw [hmr]; exact r'.isLt)

/-- [S] `emb` is injective (Part A's `hinj`) -/
theorem embFin_injective (keepL : List Bool) (hm : keepL.length = m)
    (hmr : keepL.count true = mr) : Function.Injective (embFin keepL hm hmr) :=
  (embFin_strictMono keepL hm hmr).injective

/-- [S] the kept rows are exactly the range of `emb` (Part A's `hkeep`) -/
theorem embFin_keep_iff (keepL : List Bool) (hm : keepL.length = m)
    (hmr : keepL.count true = mr) (i : Fin m) :
    keepFn keepL m i = true ↔ ∃ r, embFin keepL hm hmr r = i := by
  constructor
  · intro hi
    have hk : keepL[(i : ℕ)]? = some true := by
      have hlt : (i : ℕ) < keepL.length := by rw [hm]; exact i.isLt
      simp only [keepFn, List.getD_eq_getElem?_getD, List.getElem?_eq_getElem hlt,
        Option.getD_some] at hi
      rw [List.getElem?_eq_getElem hlt, hi]
    refine ⟨⟨Unscale.rank keepL i, by rw [← hmr]; exact rank_lt_count keepL i hk⟩, ?_⟩
    apply Fin.ext
    exact nthTrue_rank keepL i hk
  · rintro ⟨r, rfl⟩
    exact (keep_embFin keepL hm hmr r).2

/-- [S] a kept row is `emb` of its rank -/
theorem embFin_rank (keepL : List Bool) (hm : keepL.length = m) (hmr : keepL.count true = mr)
    (i : Fin m) (hk : keepL[(i : ℕ)]? = some true) :
    embFin keepL hm hmr ⟨Unscale.rank keepL i, by rw [← hmr]; exact rank_lt_count keepL i hk⟩ = i :=
  Fin.ext (nthTrue_rank keepL i hk)

/-- [S] **from the reversal facts to Part A's hypotheses** (any scalar type).  Given the
conclusion of `C01.presolve_transparent` (`rs[k]? = vs[rank keep k]?` on kept rows,
`(rs[k]?, rz[k]?) = (infbound, 0)` on dropped rows), the full vectors read as functions
satisfy: `s = infbound`, `z = 0` on every dropped row, and `s (emb r) = s_red r`,
`z (emb r) = z_red r` for every reduced row `r`. -/
theorem reversal_fn_facts {α : Type} [OfNat α 0] (keepL : List Bool) (hm : keepL.length = m)
    (hmr : keepL.count true = mr) (ib : α) (rs rz vs vz : Array α)
    (hfacts : ∀ k, (hk : k < keepL.length) →
        (keepL[k] = true →
            rs[k]? = vs[Unscale.rank keepL k]? ∧ rz[k]? = vz[Unscale.rank keepL k]?)
        ∧ (keepL[k] = false → rs[k]? = some ib ∧ rz[k]? = some 0)) :
    (∀ i : Fin m, keepFn keepL m i = false → vecFn rs m i = ib ∧ vecFn rz m i = 0)
    ∧ (∀ r : Fin mr, vecFn rs m (embFin keepL hm hmr r) = vecFn vs mr r
        ∧ vecFn rz m (embFin keepL hm hmr r) = vecFn vz mr r) := by
  constructor
  · intro i hi
    have hlt : (i : ℕ) < keepL.length := by rw [hm]; exact i.isLt
    have hk : keepL[(i : ℕ)] = false := by
      simpa only [keepFn, List.getD_eq_getElem?_getD, List.getElem?_eq_getElem hlt,
        Option.getD_some] using hi
    obtain ⟨h1, h2⟩ := (hfacts i hlt).2 hk
    simp only [vecFn, Array.getD_eq_getD_getElem?, h1, h2, Option.getD_some, and_self]
  · intro r
    obtain ⟨hk, _⟩ := keep_embFin keepL hm hmr r
    have hlt : (embFin keepL hm hmr r : ℕ) < keepL.length := by
      rw [hm]; exact (embFin keepL hm hmr r).isLt
    have hk' : keepL[(embFin keepL hm hmr r : ℕ)] = true := by
      rw [List.getElem?_eq_getElem hlt] at hk
      exact Option.some.inj hk
    obtain ⟨h1, h2⟩ := (hfacts _ hlt).1 hk'
    rw [(rank_embFin keepL hm hmr r).1] at h1 h2
    simp only [vecFn, Array.getD_eq_getD_getElem?, h1, h2, and_self]

/-- [S] the same with the hypothesis in the exact shape of the conclusion of
`C01.presolve_transparent` (four conjuncts on kept rows) -/
theorem reversal_fn_facts_of_transparent {α : Type} [OfNat α 0] (keepL : List Bool)
    (hm : keepL.length = m) (hmr : keepL.count true = mr) (ib : α) (rs rz vs vz : Array α)
    (hfacts : ∀ k, (hk : k < keepL.length) →
        (keepL[k] = true →
            rs[k]? = vs[Unscale.rank keepL k]? ∧ rz[k]? = vz[Unscale.rank keepL k]?
            ∧ (vs[Unscale.rank keepL k]?).isSome ∧ (vz[Unscale.rank keepL k]?).isSome)
        ∧ (keepL[k] = false → rs[k]? = some ib ∧ rz[k]? = some 0)) :
    (∀ i : Fin m, keepFn keepL m i = false → vecFn rs m i = ib ∧ vecFn rz m i = 0)
    ∧ (∀ r : Fin mr, vecFn rs m (embFin keepL hm hmr r) = vecFn vs mr r
        ∧ vecFn rz m (embFin keepL hm hmr r) = vecFn vz mr r) :=
  reversal_fn_facts keepL hm hmr ib rs rz vs vz
    (fun k hk => ⟨fun h => ⟨((hfacts k hk).1 h).1, ((hfacts k hk).1 h).2.1⟩, (hfacts k hk).2⟩)

/-- [S] `selectL` read pointwise: the kept entry `k` of `rs` is entry `rank keep k` of
`selectL rs keep` -/
theorem selectL_getElem? {β : Type} (rs : List β) (keep : List Bool) (hl : rs.length = keep.length)
    (k : ℕ) (hk : keep[k]? = some true) :
    rs[k]? = (Presolve.selectL rs keep)[Unscale.rank keep k]? := by
  induction keep generalizing rs k with
  | nil => simp at hk
  | cons b t ih =>
    cases rs with
    | nil => simp at hl
    | cons x xs =>
      have hl' : xs.length = t.length := by simpa using hl
      cases k with
      | zero =>
        simp only [List.getElem?_cons_zero, Option.some.injEq] at hk
        subst hk
        simp [rank_zero, Presolve.selectL]
      | succ k =>
        have hk' : t[k]? = some true := by simpa using hk
        cases b with
        | true =>
          rw [rank_true_succ]
          simpa [Presolve.selectL] using ih xs hl' k hk'
        | false =>
          rw [rank_false_succ]
          simpa [Presolve.selectL] using ih xs hl' k hk'

/-- [S] Part A's hypotheses from the conclusion of `C09.reverse` (`selectL rs keep = s`,
dropped ↦ `(inf, 0)`) -/
theorem reversal_fn_facts_of_select {α : Type} [OfNat α 0] (keepL : List Bool)
    (hm : keepL.length = m) (hmr : keepL.count true = mr) (ib : α) (rs rz : List α)
    (vs vz : Array α) (hrs : rs.length = keepL.length) (hrz : rz.length = keepL.length)
    (hsel_s : Presolve.selectL rs keepL = vs.toList) (hsel_z : Presolve.selectL rz keepL = vz.toList)
    (hdrop : ∀ i : ℕ, keepL[i]? = some false → rs[i]? = some ib ∧ rz[i]? = some 0) :
    (∀ i : Fin m, keepFn keepL m i = false →
        vecFn rs.toArray m i = ib ∧ vecFn rz.toArray m i = 0)
    ∧ (∀ r : Fin mr, vecFn rs.toArray m (embFin keepL hm hmr r) = vecFn vs mr r
        ∧ vecFn rz.toArray m (embFin keepL hm hmr r) = vecFn vz mr r) := by
  apply reversal_fn_facts keepL hm hmr ib rs.toArray rz.toArray vs vz
  intro k hk
  constructor
  · intro hkt
    have hk' : keepL[k]? = some true := by rw [List.getElem?_eq_getElem hk, hkt]
    have e1 := selectL_getElem? rs keepL hrs k hk'
    have e2 := selectL_getElem? rz keepL hrz k hk'
    rw [hsel_s] at e1
    rw [hsel_z] at e2
    simpa using And.intro e1 e2
  · intro hkf
    have hk' : keepL[k]? = some false := by rw [List.getElem?_eq_getElem hk, hkf]
    simpa using hdrop k hk'

/-- [S] the reduced matrix of `C09.reduced_problem_dense` read densely: row `r` of `A'` is
row `emb r` of `A` -/
theorem matFn_reduced {α : Type} [Add α] [OfNat α 0] (keepL : List Bool) (hm : keepL.length = m)
    (hmr : keepL.count true = mr) (A A' : Csc α) (hAm : A.m = m) (hAn : A.n = n)
    (hdense : ∀ i j, i < A.m → j < A.n → keepL.toArray.getD i false = true →
        A'.toDense (Csc.rankBefore keepL.toArray i) j = A.toDense i j) :
    ∀ (r : Fin mr) (j : Fin n), matFn A' mr n r j = matFn A m n (embFin keepL hm hmr r) j := by
  intro r j
  have h := hdense (embFin keepL hm hmr r) j (by rw [hAm]; exact (embFin keepL hm hmr r).isLt)
    (by rw [hAn]; exact j.isLt)
    (by simpa [keepFn] using (keep_embFin keepL hm hmr r).2)
  rw [(rank_embFin keepL hm hmr r).2] at h
  exact h

/-- [S] the reduced `b' = select(b, keep)` read as a function: `b' r = b (emb r)` -/
theorem vecFn_select {α : Type} [OfNat α 0] (keepL : List Bool) (hm : keepL.length = m)
    (hmr : keepL.count true = mr) (b : Array α) (hb : b.size = m) :
    ∀ r : Fin mr, vecFn (Vec.select b keepL.toArray) mr r = vecFn b m (embFin keepL hm hmr r) := by
  intro r
  have h := Vec.select_get b keepL.toArray (by simp [hb, hm]) (embFin keepL hm hmr r)
    (by rw [hb]; exact (embFin keepL hm hmr r).isLt)
    (by simpa [keepFn] using (keep_embFin keepL hm hmr r).2)
  rw [(rank_embFin keepL hm hmr r).2] at h
  simp only [vecFn, Array.getD_eq_getD_getElem?, h]

end partB

/-! ## Part C — the packaged statements (over `ℝ`) -/

section partC
variable {m mr n : ℕ}

/-- [R] **every number of the termination test / of the certificates is the same for the
user's full problem and for the reduced problem**, the primal-side norms being taken over
the kept rows.  `A' b' s' z'` are the reduced data / vectors, tied to the full ones only
through `emb` (Part B supplies these equations from the model). -/
theorem full_eq_reduced_numbers (emb : Fin mr → Fin m) (keep : Fin m → Bool)
    (hinj : Function.Injective emb) (hkeep : ∀ i, keep i = true ↔ ∃ r, emb r = i)
    (A : Fin m → Fin n → ℝ) (b s z : Fin m → ℝ)
    (A' : Fin mr → Fin n → ℝ) (b' s' z' : Fin mr → ℝ)
    (hA' : ∀ r j, A' r j = A (emb r) j) (hb' : ∀ r, b' r = b (emb r))
    (hs' : ∀ r, s (emb r) = s' r) (hz' : ∀ r, z (emb r) = z' r)
    (hz : ∀ i, keep i = false → z i = 0) (x : Fin n → ℝ) :
    (∀ j, mulVT A z j = mulVT A' z' j)
    ∧ dot b z = dot b' z'
    ∧ nrm z = nrm z'
    ∧ nrmKept keep s = nrm s'
    ∧ nrmKept keep (fun i => mulV A x i + s i - b i) = nrm (fun r => mulV A' x r + s' r - b' r)
    ∧ nrmKept keep (fun i => mulV A x i + s i) = nrm (fun r => mulV A' x r + s' r) := by
  obtain rfl : A' = fun r j => A (emb r) j := funext (fun r => funext (hA' r))
  obtain rfl : b' = fun r => b (emb r) := funext hb'
  obtain rfl : s' = fun r => s (emb r) := (funext hs').symm
  obtain rfl : z' = fun r => z (emb r) := (funext hz').symm
  refine ⟨fun j => mulVT_full_eq_reduced emb keep hinj hkeep A z hz j,
    dot_b_full_eq_reduced emb keep hinj hkeep b z hz,
    nrm_z_full_eq_reduced emb keep hinj hkeep z hz,
    nrmKept_eq_reduced emb keep hinj hkeep s, ?_, ?_⟩
  · rw [nrmKept_eq_reduced emb keep hinj hkeep]; rfl
  · rw [nrmKept_eq_reduced emb keep hinj hkeep]; rfl

/-- [R] **`Solved` for the reduced problem is `Solved` for the user's problem, the dropped
rows excepted exactly as the property says.**  If the point `(x, s', z')` passes the
documented termination test on the reduced data `(P, q, A', b')` — primal residual
`‖A'x+s'−b'‖ / max(1, normb+‖x‖+‖s'‖) < tol`, dual residual
`‖Px+A'ᵀz'+q‖ / max(1, normq+‖x‖+‖z'‖) < tol`, and the gap test with
`pobj = xᵀPx/2+qᵀx`, `dobj = −b'ᵀz'−xᵀPx/2` — then for the full vectors `(x, s, z)` that
`reverse_presolve` returns, on the USER's full data `(P, q, A, b)`:
* the dual residual test holds verbatim (same numbers, `z` full);
* the gap test holds verbatim (same numbers, `b`, `z` full);
* the primal residual test holds with the residual and `‖s‖` taken over the kept rows;
* on every dropped row `s i = infbound ∧ z i = 0`.
(`normb`, `normq` are free parameters: the solver uses the cached `‖b'‖∞`, `‖q‖∞`.) -/
theorem solved_full_problem (emb : Fin mr → Fin m) (keep : Fin m → Bool)
    (hinj : Function.Injective emb) (hkeep : ∀ i, keep i = true ↔ ∃ r, emb r = i)
    (P : Fin n → Fin n → ℝ) (q : Fin n → ℝ) (A : Fin m → Fin n → ℝ) (b s z : Fin m → ℝ)
    (A' : Fin mr → Fin n → ℝ) (b' s' z' : Fin mr → ℝ)
    (hA' : ∀ r j, A' r j = A (emb r) j) (hb' : ∀ r, b' r = b (emb r))
    (hs' : ∀ r, s (emb r) = s' r) (hz' : ∀ r, z (emb r) = z' r)
    (infbound : ℝ) (hdrop : ∀ i, keep i = false → s i = infbound ∧ z i = 0)
    (x : Fin n → ℝ) (normb normq tolFeas tolGapAbs tolGapRel : ℝ)
    (hprim : nrm (fun r => mulV A' x r + s' r - b' r) / max 1 (normb + nrm x + nrm s') < tolFeas)
    (hdual : nrm (fun j => mulV P x j + mulVT A' z' j + q j) / max 1 (normq + nrm x + nrm z')
        < tolFeas)
    (hgap :
      let pobj := dot x (mulV P x) / 2 + dot q x
      let dobj := -dot b' z' - dot x (mulV P x) / 2
      |pobj - dobj| < tolGapAbs ∨ |pobj - dobj| / max 1 (min |pobj| |dobj|) < tolGapRel) :
    let pobj := dot x (mulV P x) / 2 + dot q x
    let dobj := -dot b z - dot x (mulV P x) / 2
    nrmKept keep (fun i => mulV A x i + s i - b i) / max 1 (normb + nrm x + nrmKept keep s)
        < tolFeas
    ∧ nrm (fun j => mulV P x j + mulVT A z j + q j) / max 1 (normq + nrm x + nrm z) < tolFeas
    ∧ (|pobj - dobj| < tolGapAbs ∨ |pobj - dobj| / max 1 (min |pobj| |dobj|) < tolGapRel)
    ∧ ∀ i, keep i = false → s i = infbound ∧ z i = 0 := by
  intro pobj dobj
  obtain ⟨e1, e2, e3, e4, e5, _⟩ := full_eq_reduced_numbers emb keep hinj hkeep A b s z A' b' s' z'
    hA' hb' hs' hz' (fun i hi => (hdrop i hi).2) x
  have e1' : (fun j => mulV P x j + mulVT A z j + q j) = fun j => mulV P x j + mulVT A' z' j + q j :=
    funext (fun j => by rw [e1 j])
  refine ⟨?_, ?_, ?_, hdrop⟩
  · rw [e5, e4]; exact hprim
  · rw [e1', e3]; exact hdual
  · simp only [dobj, pobj, e2]; exact hgap

/-- [R] **a primal-infeasibility (Farkas) certificate for the reduced problem is one for the
user's problem**: `b'ᵀz' < 0` and `‖A'ᵀz'‖ < bnd (b'ᵀz') ‖z'‖` give `bᵀz < 0` and
`‖Aᵀz‖ < bnd (bᵀz) ‖z‖` with the same numbers (`Aᵀz = A'ᵀz'`, `bᵀz = b'ᵀz'`, `‖z‖ = ‖z'‖`),
and `z = 0` on the dropped rows.  `bnd` is any function of `(bᵀz, ‖z‖)`, e.g. the
`trel·c·(−bᵀz)·max(1, κ‖z‖)` of `C02.primal_cert`. -/
theorem primal_infeasible_full_problem (emb : Fin mr → Fin m) (keep : Fin m → Bool)
    (hinj : Function.Injective emb) (hkeep : ∀ i, keep i = true ↔ ∃ r, emb r = i)
    (A : Fin m → Fin n → ℝ) (b z : Fin m → ℝ)
    (A' : Fin mr → Fin n → ℝ) (b' z' : Fin mr → ℝ)
    (hA' : ∀ r j, A' r j = A (emb r) j) (hb' : ∀ r, b' r = b (emb r))
    (hz' : ∀ r, z (emb r) = z' r) (hz : ∀ i, keep i = false → z i = 0)
    (bnd : ℝ → ℝ → ℝ)
    (hbz : dot b' z' < 0) (hAtz : nrm (mulVT A' z') < bnd (dot b' z') (nrm z')) :
    dot b z < 0 ∧ nrm (mulVT A z) < bnd (dot b z) (nrm z)
    ∧ (∀ j, mulVT A z j = mulVT A' z' j) ∧ dot b z = dot b' z' ∧ nrm z = nrm z' := by
  obtain ⟨e1, e2, e3, _⟩ := full_eq_reduced_numbers emb keep hinj hkeep A b (fun _ => 0) z A' b'
    (fun _ => 0) z' hA' hb' (fun _ => rfl) hz' hz (fun _ => 0)
  have e1' : mulVT A z = mulVT A' z' := funext e1
  refine ⟨by rw [e2]; exact hbz, by rw [e1', e2, e3]; exact hAtz, e1, e2, e3⟩

/-- [R] **a dual-infeasibility certificate for the reduced problem is one for the user's
problem, over the kept rows**: `qᵀx < 0` and `‖Px‖ < bndP` do not involve the rows at all;
`‖A'x+s'‖ < bnd ‖s'‖` gives `‖(Ax+s)|kept‖ < bnd ‖s|kept‖` with the same numbers; on the
dropped rows `s i = infbound`.  `bnd` is any function of `‖s‖` (it may mention `qᵀx`, `‖x‖`,
which are unchanged), e.g. `trel·c·(−qᵀx)·max(1, κ(‖x‖+‖s‖))` of `C02.dual_cert`. -/
theorem dual_infeasible_full_problem (emb : Fin mr → Fin m) (keep : Fin m → Bool)
    (hinj : Function.Injective emb) (hkeep : ∀ i, keep i = true ↔ ∃ r, emb r = i)
    (P : Fin n → Fin n → ℝ) (q : Fin n → ℝ) (A : Fin m → Fin n → ℝ) (s : Fin m → ℝ)
    (A' : Fin mr → Fin n → ℝ) (s' : Fin mr → ℝ)
    (hA' : ∀ r j, A' r j = A (emb r) j) (hs' : ∀ r, s (emb r) = s' r)
    (infbound : ℝ) (hdrop : ∀ i, keep i = false → s i = infbound)
    (x : Fin n → ℝ) (bndP : ℝ) (bnd : ℝ → ℝ)
    (hqx : dot q x < 0) (hPx : nrm (mulV P x) < bndP)
    (hAxs : nrm (fun r => mulV A' x r + s' r) < bnd (nrm s')) :
    dot q x < 0 ∧ nrm (mulV P x) < bndP
    ∧ nrmKept keep (fun i => mulV A x i + s i) < bnd (nrmKept keep s)
    ∧ nrmKept keep (fun i => mulV A x i + s i) = nrm (fun r => mulV A' x r + s' r)
    ∧ nrmKept keep s = nrm s'
    ∧ ∀ i, keep i = false → s i = infbound := by
  obtain ⟨_, _, _, e4, _, e6⟩ := full_eq_reduced_numbers emb keep hinj hkeep A (fun _ => 0) s
    (fun _ => 0) A' (fun _ => 0) s' (fun _ => 0) hA' (fun _ => rfl) hs' (fun _ => rfl)
    (fun _ _ => rfl) x
  exact ⟨hqx, hPx, by rw [e6, e4]; exact hAxs, e6, e4, hdrop⟩

/-- [R] when presolve drops nothing (`keep ≡ true`) the kept-row norms are the plain norms,
so `solved_full_problem` is then the unrestricted termination test -/
theorem nrmKept_all_rows (keep : Fin m → Bool) (hall : ∀ i, keep i = true) (v : Fin m → ℝ) :
    nrmKept keep v = nrm v := nrmKept_all keep hall v

end partC

/-! ## non-vacuity -/

section examples

/-- Part A's hypotheses are satisfiable: `m = 3`, `mr = 2`, `keep = [true,false,true]`,
`emb = ![0,2]`, a `z` vanishing on the dropped row -/
example :
    let emb : Fin 2 → Fin 3 := ![0, 2]
    let keep : Fin 3 → Bool := ![true, false, true]
    let z : Fin 3 → ℚ := ![5, 0, -7]
    Function.Injective emb ∧ (∀ i, keep i = true ↔ ∃ r, emb r = i)
      ∧ (∀ i, keep i = false → z i = 0) := by
  intro emb keep z
  refine ⟨by decide, by decide, ?_⟩
  intro i
  fin_cases i <;> simp [keep, z]

/-- the same instance produced by Part B from the model's list `[true,false,true]`:
`embFin` enumerates rows `0, 2` -/
example : (embFin [true, false, true] (m := 3) (mr := 2) rfl rfl 0 : ℕ) = 0
    ∧ (embFin [true, false, true] (m := 3) (mr := 2) rfl rfl 1 : ℕ) = 2
    ∧ Unscale.rank [true, false, true] 2 = 1 := by
  refine ⟨rfl, rfl, rfl⟩

/-- the hypotheses of `reversal_fn_facts` hold for the reversal `s' = (1,2) ↦ (1,7,2)`,
`z' = (3,4) ↦ (3,0,4)` of `C09`'s non-vacuity example -/
example : ∀ k, (hk : k < [true, false, true].length) →
    ([true, false, true][k] = true →
        (#[1, 7, 2] : Array ℚ)[k]? = (#[1, 2] : Array ℚ)[Unscale.rank [true, false, true] k]?
        ∧ (#[3, 0, 4] : Array ℚ)[k]? = (#[3, 4] : Array ℚ)[Unscale.rank [true, false, true] k]?)
    ∧ ([true, false, true][k] = false →
        (#[1, 7, 2] : Array ℚ)[k]? = some 7 ∧ (#[3, 0, 4] : Array ℚ)[k]? = some 0) := by
  intro k hk
  have : k = 0 ∨ k = 1 ∨ k = 2 := by simp at hk; omega
  rcases this with rfl | rfl | rfl <;> simp [Unscale.rank]

/-- `primal_infeasible_full_problem` is not vacuous: `A = (1,9,−1)ᵀ` (one column),
`b = (−1, 10²⁰, −1)`, row 1 dropped, `z = (1,0,1)`: `bᵀz = −2 < 0`, `Aᵀz = 0`. -/
example :
    let emb : Fin 2 → Fin 3 := ![0, 2]
    let A : Fin 3 → Fin 1 → ℝ := fun i _ => if i = 0 then 1 else if i = 1 then 9 else -1
    let b : Fin 3 → ℝ := fun i => if i = 1 then 1e20 else -1
    let z : Fin 3 → ℝ := fun i => if i = 1 then 0 else 1
    dot (fun r => b (emb r)) (fun r => z (emb r)) < 0
      ∧ nrm (mulVT (fun r j => A (emb r) j) (fun r => z (emb r))) < 1 := by
  intro emb A b z
  have h21 : (2 : Fin 3) ≠ 1 := by decide
  have h20 : (2 : Fin 3) ≠ 0 := by decide
  constructor
  · norm_num [dot, Fin.sum_univ_two, emb, b, z, h21]
  · have h0 : mulVT (fun r j => A (emb r) j) (fun r => z (emb r)) = fun _ => 0 := by
      funext j
      fin_cases j
      norm_num [mulVT, Fin.sum_univ_two, emb, A, z, h21, h20]
    rw [h0]
    simp [nrm, sumsq]

/-- `solved_full_problem` applied: zero `P, q, A`, `b = s = (0, 10²⁰, 0)` with row 1 dropped,
`x = 0`, `z = 0` — every hypothesis is discharged, so the theorem is not vacuous -/
example :
    let keep : Fin 3 → Bool := ![true, false, true]
    let s : Fin 3 → ℝ := fun i => if i = 1 then 1e20 else 0
    nrmKept keep (fun i => mulV (fun _ _ => (0:ℝ)) (fun _ : Fin 1 => (0:ℝ)) i + s i - s i)
        / max 1 (0 + nrm (fun _ : Fin 1 => (0:ℝ)) + nrmKept keep s) < 1
      ∧ ∀ i, keep i = false → s i = 1e20 ∧ (0:ℝ) = 0 := by
  intro keep s
  have hprim : nrm (fun r : Fin 2 => mulV (fun _ _ => (0:ℝ)) (fun _ : Fin 1 => (0:ℝ)) r
        + s (![0, 2] r) - s (![0, 2] r))
      / max 1 (0 + nrm (fun _ : Fin 1 => (0:ℝ)) + nrm (fun r : Fin 2 => s (![0, 2] r))) < 1 := by
    have : (fun r : Fin 2 => mulV (fun _ _ => (0:ℝ)) (fun _ : Fin 1 => (0:ℝ)) r
        + s (![0, 2] r) - s (![0, 2] r)) = fun _ => 0 := by
      funext r; simp [mulV]
    rw [this]
    simp [nrm, sumsq]
  have hdual : nrm (fun j : Fin 1 => mulV (fun _ _ => (0:ℝ)) (fun _ : Fin 1 => (0:ℝ)) j
        + mulVT (fun (_ : Fin 2) (_ : Fin 1) => (0:ℝ)) (fun _ => 0) j + 0)
      / max 1 (0 + nrm (fun _ : Fin 1 => (0:ℝ)) + nrm (fun _ : Fin 2 => (0:ℝ))) < 1 := by
    simp [nrm, sumsq, mulV, mulVT]
  have h := solved_full_problem (n := 1) ![0, 2] keep (by decide) (by decide)
    (fun _ _ => 0) (fun _ => 0) (fun _ _ => 0) s s (fun _ => 0)
    (fun _ _ => 0) (fun r => s (![0, 2] r)) (fun r => s (![0, 2] r)) (fun _ => 0)
    (fun _ _ => rfl) (fun _ => rfl) (fun _ => rfl) (fun _ => rfl) 1e20
    (by intro i; fin_cases i <;> simp [keep, s])
    (fun _ => 0) 0 0 1 1 1 hprim hdual
    (by left; simp [dot, mulV])
  exact ⟨h.1, h.2.2.2⟩

end examples

end Clarabel.InfoPresolve
