/-
  `pothen_sun` / `find_supernodes` (`ClarabelModel/Chordal/SuperNode.lean`; Rust
  `supernode_tree.rs`): the supernode membership computed by the Pothen–Sun pass.

  * `pothenSunStep_eq` : the loop body in closed form (definitional).
  * `PSInv` : the invariant of the pass over the vertices in post-order — every vertex `x`
    claimed for a supernode (`snode_index[x] ≥ 0`) was claimed by an already processed child
    `c` with `degree[c] = degree[x] + 1` that belongs to the same supernode, and the index it
    stores is a representative (`snode_index < 0`).
  * `pothen_sun_fold_spec` : the pass does not panic (all indices in range, `degree[v] - 1`
    does not underflow) and keeps `PSInv`.
  * `find_supernodes_spec` : on the elimination tree of a filled pattern `find_supernodes`
    returns non-empty vertex sets that partition `0..n`, each of which is a supernode
    (`SnodeOf`) with representative its smallest vertex.
-/
import ClarabelProofs.Lemmas.ChordalEtree
import Mathlib.Data.List.Perm.Lattice

namespace Clarabel.Chordal

/-! ### closed form of the loop body -/

/-- body of the inner loop `for &w in v_children` -/
def psBody (si : Array Int) (k : Nat) (w : Nat) (sp : Array Nat) : MErr (ForInStep (Array Nat)) := do
  let siw ← getE si w "pothen_sun"
  let l : Nat := if siw < 0 then w else siw.toNat
  if l != k then do
    let sp ← setE sp l k "pothen_sun"
    pure (ForInStep.yield sp)
  else pure (ForInStep.yield sp)

/-- the part of the loop body after the update of `snode_index` -/
def psTail (children : Array VSet) (v : Nat) (si : Array Int) (sp : Array Nat) : MErr PSState := do
  let siv ← getE si v "pothen_sun"
  let k : Nat := if siv < 0 then v else siv.toNat
  let vch ← getE children v "pothen_sun"
  let sp ← forIn vch.toList sp (psBody si k)
  pure { snodeIndex := si, snodeParent := sp, children := children }

/-- [S] the loop body of `pothen_sun`, with its join points named -/
theorem pothenSunStep_eq (parent degree : Array Nat) (rootIndex : Nat) (st : PSState) (v : Nat) :
    pothenSunStep parent degree rootIndex st v = (do
      let pv ← getE parent v "pothen_sun"
      let tgt := if pv == noParent then rootIndex else pv
      let ct ← getE st.children tgt "pothen_sun"
      let children ← setE st.children tgt (ct.insert v) "pothen_sun"
      if pv != noParent then do
        let dv ← getE degree v "pothen_sun"
        let dp ← getE degree pv "pothen_sun"
        if dv = 0 then throw (.panic "pothen_sun: underflow") else do
        let sipv ← getE st.snodeIndex pv "pothen_sun"
        let siv ← getE st.snodeIndex v "pothen_sun"
        if dv - 1 == dp && sipv == -1 then
          if siv < 0 then do
            let si ← setE st.snodeIndex pv (Int.ofNat v) "pothen_sun"
            let si ← setE si v (siv - 1) "pothen_sun"
            psTail children v si st.snodeParent
          else do
            let si ← setE st.snodeIndex pv siv "pothen_sun"
            let st' ← getE si siv.toNat "pothen_sun"
            let si ← setE si siv.toNat (st' - 1) "pothen_sun"
            psTail children v si st.snodeParent
        else if siv < 0 then do
          let sp ← setE st.snodeParent v v "pothen_sun"
          psTail children v st.snodeIndex sp
        else do
          let sp ← setE st.snodeParent siv.toNat siv.toNat "pothen_sun"
          psTail children v st.snodeIndex sp
      else psTail children v st.snodeIndex st.snodeParent) := by
  rfl

/-- representative of the supernode of `c` according to `snode_index` -/
def repOf (si : Array Int) (c : Nat) : Nat :=
  if si.getD c 0 < 0 then c else (si.getD c 0).toNat

/-- [S] one pass of the inner loop: no panic, the length of `snode_parent` is kept -/
theorem psBody_ok (si : Array Int) (k w : Nat) (sp : Array Nat) (hw : w < si.size)
    (hl : repOf si w < sp.size) :
    ∃ sp', psBody si k w sp = .ok (.yield sp') ∧ sp'.size = sp.size := by
  unfold psBody
  rw [getE_ok' si w _ 0 hw, ok_bind']
  show ∃ sp', (if (repOf si w != k) = true then _ else _) = _ ∧ _
  by_cases hne : (repOf si w != k) = true
  · rw [if_pos hne]
    show ∃ sp', (setE sp (repOf si w) k "pothen_sun" >>= _) = _ ∧ _
    rw [setE_ok' _ _ _ _ hl, ok_bind']
    exact ⟨_, rfl, by simp⟩
  · rw [if_neg hne]
    exact ⟨_, rfl, rfl⟩

/-- [S] the inner loop: no panic, the length of `snode_parent` is kept -/
theorem psInner_ok (si : Array Int) (k : Nat) : ∀ (ws : List Nat) (sp : Array Nat),
    (∀ w ∈ ws, w < si.size ∧ repOf si w < sp.size) →
    ∃ sp', forIn ws sp (psBody si k) = .ok sp' ∧ sp'.size = sp.size := by
  intro ws
  induction ws with
  | nil => intro sp _; exact ⟨sp, rfl, rfl⟩
  | cons w ws ih =>
    intro sp h
    obtain ⟨sp1, h1, hs1⟩ := psBody_ok si k w sp (h w (List.mem_cons_self ..)).1
      (h w (List.mem_cons_self ..)).2
    obtain ⟨sp2, h2, hs2⟩ := ih sp1 (fun x hx => by
      rw [hs1]; exact h x (List.mem_cons_of_mem _ hx))
    refine ⟨sp2, ?_, by omega⟩
    rw [List.forIn_cons, h1, ok_bind']
    exact h2

/-- [S] the tail of the loop body: no panic; only `snode_parent` changes, not its length -/
theorem psTail_ok (children : Array VSet) (v : Nat) (si : Array Int) (sp : Array Nat)
    (hv : v < si.size) (hcv : v < children.size)
    (hws : ∀ w ∈ (children.getD v #[]).toList, w < si.size ∧ repOf si w < sp.size) :
    ∃ sp', psTail children v si sp = .ok { snodeIndex := si, snodeParent := sp', children := children } ∧
      sp'.size = sp.size := by
  unfold psTail
  rw [getE_ok' si v _ 0 hv, ok_bind', getE_ok' children v _ #[] hcv, ok_bind']
  obtain ⟨sp', h1, h2⟩ := psInner_ok si (if si.getD v 0 < 0 then v else (si.getD v 0).toNat) _ sp hws
  refine ⟨sp', ?_, h2⟩
  show (forIn _ sp (psBody si (if si.getD v 0 < 0 then v else (si.getD v 0).toNat)) >>= _) = _
  rw [h1, ok_bind']
  rfl

/-! ### the invariant on `snode_index` -/

/-- what the pass has established about `snode_index` after processing the vertices `done` -/
structure PSCore (parent degree : Array Nat) (n : Nat) (done : List Nat) (si : Array Int) : Prop where
  /-- a claimed vertex was claimed by a processed child of the same supernode whose degree is
  one larger -/
  claimed : ∀ x, x < n → 0 ≤ si.getD x 0 →
    ∃ c ∈ done, c < n ∧ parent.getD c 0 = x ∧ degree.getD c 0 = degree.getD x 0 + 1 ∧
      repOf si c = (si.getD x 0).toNat
  /-- the index stored for a claimed vertex is a processed representative -/
  target : ∀ x, x < n → 0 ≤ si.getD x 0 →
    (si.getD x 0).toNat < n ∧ si.getD (si.getD x 0).toNat 0 < 0 ∧ (si.getD x 0).toNat ∈ done

namespace PSCore
variable {parent degree : Array Nat} {n : Nat} {done : List Nat} {si : Array Int}

/-- [S] the representative of an in-range vertex is in range -/
theorem repOf_lt (h : PSCore parent degree n done si) {w : Nat} (hw : w < n) : repOf si w < n := by
  unfold repOf
  by_cases hs : si.getD w 0 < 0
  · rw [if_pos hs]; exact hw
  · rw [if_neg hs]; exact (h.target w hw (by omega)).1

/-- [S] processing one more vertex without touching `snode_index` -/
theorem mono (h : PSCore parent degree n done si) (v : Nat) :
    PSCore parent degree n (v :: done) si where
  claimed := fun x hx h0 => by
    obtain ⟨c, hc, rest⟩ := h.claimed x hx h0
    exact ⟨c, List.mem_cons_of_mem _ hc, rest⟩
  target := fun x hx h0 => by
    obtain ⟨h1, h2, h3⟩ := h.target x hx h0
    exact ⟨h1, h2, List.mem_cons_of_mem _ h3⟩

/-- [S] case A of `pothen_sun`: the representative `v` claims its parent `p` -/
theorem caseA (h : PSCore parent degree n done si) (hsz : si.size = n) {v p : Nat} (hv : v < n)
    (hp : p < n) (hpv : p ≠ v) (hvd : v ∉ done) (hpd : p ∉ done) (hpar : parent.getD v 0 = p)
    (hdeg : degree.getD v 0 = degree.getD p 0 + 1) (hsiv : si.getD v 0 < 0) :
    PSCore parent degree n (v :: done)
      ((si.setIfInBounds p (Int.ofNat v)).setIfInBounds v (si.getD v 0 - 1)) := by
  have gv : ((si.setIfInBounds p (Int.ofNat v)).setIfInBounds v (si.getD v 0 - 1)).getD v 0 =
      si.getD v 0 - 1 := getD_set_self' _ _ _ _ (by simp; omega)
  have gp : ((si.setIfInBounds p (Int.ofNat v)).setIfInBounds v (si.getD v 0 - 1)).getD p 0 =
      Int.ofNat v := by
    rw [getD_set_ne' _ _ _ _ _ (Ne.symm hpv), getD_set_self' _ _ _ _ (by omega)]
  have go : ∀ x, x ≠ v → x ≠ p →
      ((si.setIfInBounds p (Int.ofNat v)).setIfInBounds v (si.getD v 0 - 1)).getD x 0 =
        si.getD x 0 := by
    intro x h1 h2
    rw [getD_set_ne' _ _ _ _ _ (Ne.symm h1), getD_set_ne' _ _ _ _ _ (Ne.symm h2)]
  have hrep : ∀ c, c ∈ done →
      repOf ((si.setIfInBounds p (Int.ofNat v)).setIfInBounds v (si.getD v 0 - 1)) c = repOf si c := by
    intro c hc
    unfold repOf
    rw [go c (fun e => hvd (e ▸ hc)) (fun e => hpd (e ▸ hc))]
  refine ⟨?_, ?_⟩
  · intro x hx h0
    by_cases exv : x = v
    · subst exv; rw [gv] at h0; omega
    by_cases exp : x = p
    · subst exp
      refine ⟨v, List.mem_cons_self .., hv, hpar, hdeg, ?_⟩
      rw [gp]
      unfold repOf
      rw [gv, if_pos (by omega)]
      simp
    · rw [go x exv exp] at h0 ⊢
      obtain ⟨c, hc, h1, h2, h3, h4⟩ := h.claimed x hx h0
      exact ⟨c, List.mem_cons_of_mem _ hc, h1, h2, h3, by rw [hrep c hc]; exact h4⟩
  · intro x hx h0
    by_cases exv : x = v
    · subst exv; rw [gv] at h0; omega
    by_cases exp : x = p
    · subst exp
      have e : (Int.ofNat v).toNat = v := rfl
      rw [gp, e]
      exact ⟨hv, by rw [gv]; omega, List.mem_cons_self ..⟩
    · rw [go x exv exp] at h0 ⊢
      obtain ⟨h1, h2, h3⟩ := h.target x hx h0
      refine ⟨h1, ?_, List.mem_cons_of_mem _ h3⟩
      rw [go _ (fun e => hvd (e ▸ h3)) (fun e => hpd (e ▸ h3))]
      exact h2

/-- [S] case B of `pothen_sun`: the member `v` of the supernode of `r` claims its parent `p` -/
theorem caseB (h : PSCore parent degree n done si) (hsz : si.size = n) {v p : Nat} (hv : v < n)
    (hp : p < n) (hpv : p ≠ v) (hvd : v ∉ done) (hpd : p ∉ done) (hpar : parent.getD v 0 = p)
    (hdeg : degree.getD v 0 = degree.getD p 0 + 1) (hsiv : 0 ≤ si.getD v 0) :
    PSCore parent degree n (v :: done)
      ((si.setIfInBounds p (si.getD v 0)).setIfInBounds (si.getD v 0).toNat
        (si.getD (si.getD v 0).toNat 0 - 1)) := by
  obtain ⟨hr, hsr, hrd⟩ := h.target v hv hsiv
  generalize hrdef : (si.getD v 0).toNat = r at hr hsr hrd ⊢
  have hrp : r ≠ p := fun e => hpd (e ▸ hrd)
  have hrv : r ≠ v := fun e => hvd (e ▸ hrd)
  have gr : ((si.setIfInBounds p (si.getD v 0)).setIfInBounds r (si.getD r 0 - 1)).getD r 0 =
      si.getD r 0 - 1 := getD_set_self' _ _ _ _ (by simp; omega)
  have gp : ((si.setIfInBounds p (si.getD v 0)).setIfInBounds r (si.getD r 0 - 1)).getD p 0 =
      si.getD v 0 := by
    rw [getD_set_ne' _ _ _ _ _ hrp, getD_set_self' _ _ _ _ (by omega)]
  have go : ∀ x, x ≠ r → x ≠ p →
      ((si.setIfInBounds p (si.getD v 0)).setIfInBounds r (si.getD r 0 - 1)).getD x 0 =
        si.getD x 0 := by
    intro x h1 h2
    rw [getD_set_ne' _ _ _ _ _ (Ne.symm h1), getD_set_ne' _ _ _ _ _ (Ne.symm h2)]
  have hrep : ∀ c, c ∈ done →
      repOf ((si.setIfInBounds p (si.getD v 0)).setIfInBounds r (si.getD r 0 - 1)) c = repOf si c := by
    intro c hc
    have hcp : c ≠ p := fun e => hpd (e ▸ hc)
    unfold repOf
    by_cases hcr : c = r
    · subst hcr
      rw [gr, if_pos (by omega), if_pos hsr]
    · rw [go c hcr hcp]
  refine ⟨?_, ?_⟩
  · intro x hx h0
    by_cases exr : x = r
    · subst exr; rw [gr] at h0; omega
    by_cases exp : x = p
    · subst exp
      refine ⟨v, List.mem_cons_self .., hv, hpar, hdeg, ?_⟩
      rw [gp]
      unfold repOf
      rw [go v (Ne.symm hrv) (Ne.symm hpv), if_neg (by omega)]
    · rw [go x exr exp] at h0 ⊢
      obtain ⟨c, hc, h1, h2, h3, h4⟩ := h.claimed x hx h0
      exact ⟨c, List.mem_cons_of_mem _ hc, h1, h2, h3, by rw [hrep c hc]; exact h4⟩
  · intro x hx h0
    by_cases exr : x = r
    · subst exr; rw [gr] at h0; omega
    by_cases exp : x = p
    · subst exp
      rw [gp, hrdef]
      exact ⟨hr, by rw [gr]; omega, List.mem_cons_of_mem _ hrd⟩
    · rw [go x exr exp] at h0 ⊢
      obtain ⟨h1, h2, h3⟩ := h.target x hx h0
      refine ⟨h1, ?_, List.mem_cons_of_mem _ h3⟩
      have hne : (si.getD x 0).toNat ≠ p := fun e => hpd (e ▸ h3)
      by_cases her : (si.getD x 0).toNat = r
      · rw [her, gr]; omega
      · rw [go _ her hne]; exact h2

end PSCore

/-! ### the invariant of the pass -/

/-- the loop invariant of `pothen_sun` after processing the vertices `done` -/
structure PSInv (parent degree : Array Nat) (n : Nat) (done : List Nat) (st : PSState) : Prop where
  sz_si : st.snodeIndex.size = n
  sz_sp : st.snodeParent.size = n
  sz_ch : st.children.size = n
  ch_lt : ∀ p, p < n → ∀ w ∈ (st.children.getD p #[]).toList, w < n
  core : PSCore parent degree n done st.snodeIndex

/-- [S] the tail of the loop body re-establishes the invariant -/
theorem ps_tail_inv {parent degree : Array Nat} {n : Nat} {done' : List Nat}
    (children : Array VSet) (v : Nat) (si : Array Int) (sp : Array Nat)
    (hv : v < n) (hsi : si.size = n) (hsp : sp.size = n) (hch : children.size = n)
    (hchlt : ∀ p, p < n → ∀ w ∈ (children.getD p #[]).toList, w < n)
    (hcore : PSCore parent degree n done' si) :
    ∃ st', psTail children v si sp = .ok st' ∧ PSInv parent degree n done' st' := by
  obtain ⟨sp', h1, h2⟩ := psTail_ok children v si sp (by omega) (by omega) (fun w hw => by
    have := hchlt v hv w hw
    exact ⟨by omega, by rw [hsp]; exact hcore.repOf_lt this⟩)
  exact ⟨_, h1, ⟨hsi, by rw [h2]; exact hsp, hch, hchlt, hcore⟩⟩

/-- [S] one pass of the loop of `pothen_sun` on a vertex `v` that has not been processed
and whose parent has not been processed: no panic, the invariant is kept -/
theorem ps_step {parent degree : Array Nat} {n rootIndex : Nat} {done : List Nat} {st : PSState}
    {v : Nat} (hpar : EtreeParent parent n) (hdsz : degree.size = n)
    (hdpos : ∀ v, v + 1 < n → 0 < degree.getD v 0) (hr : rootIndex < n)
    (hinv : PSInv parent degree n done st) (hv : v < n) (hvd : v ∉ done)
    (hpd : parent.getD v 0 ∉ done) :
    ∃ st', pothenSunStep parent degree rootIndex st v = .ok st' ∧
      PSInv parent degree n (v :: done) st' := by
  rw [pothenSunStep_eq, getE_ok' parent v _ 0 (by rw [hpar.size_eq]; exact hv), ok_bind']
  -- the children update
  have hch' : ∀ tgt, tgt < n →
      (st.children.setIfInBounds tgt ((st.children.getD tgt #[]).insert v)).size = n ∧
      ∀ p, p < n → ∀ w ∈ ((st.children.setIfInBounds tgt
        ((st.children.getD tgt #[]).insert v)).getD p #[]).toList, w < n := by
    intro tgt _
    refine ⟨by simpa using hinv.sz_ch, ?_⟩
    intro p hp w hw
    by_cases e : tgt = p
    · subst e
      rw [getD_set_self' _ _ _ _ (by rw [hinv.sz_ch]; exact hp), VSet.mem_insert] at hw
      rcases hw with hw | rfl
      · exact hinv.ch_lt tgt hp w hw
      · exact hv
    · rw [getD_set_ne' _ _ _ _ _ e] at hw
      exact hinv.ch_lt p hp w hw
  by_cases hroot : parent.getD v 0 = noParent
  · -- `v` is the root
    have hb1 : (parent.getD v 0 == noParent) = true := by simp [hroot]
    have hb2 : (parent.getD v 0 != noParent) = false := by simp [hroot]
    simp only [hb1, hb2, if_true, Bool.false_eq_true, if_false]
    rw [getE_ok' st.children rootIndex _ #[] (by rw [hinv.sz_ch]; exact hr), ok_bind',
      setE_ok' _ _ _ _ (by rw [hinv.sz_ch]; exact hr), ok_bind']
    obtain ⟨h1, h2⟩ := hch' rootIndex hr
    exact ps_tail_inv _ v _ _ hv hinv.sz_si hinv.sz_sp h1 h2 (hinv.core.mono v)
  · -- `v` has the parent `p`
    have hv1 : v + 1 < n := by
      by_cases hl : v + 1 < n
      · exact hl
      · have : v = n - 1 := by omega
        subst this
        exact absurd hpar.root hroot
    obtain ⟨hvp, hp⟩ := hpar.up v hv1
    generalize hpdef : parent.getD v 0 = p at hroot hvp hp hpd
    have hb1 : (p == noParent) = false := by simp [hroot]
    have hb2 : (p != noParent) = true := by simp [hroot]
    simp only [hb1, hb2, if_true, Bool.false_eq_true, if_false]
    rw [getE_ok' st.children p _ #[] (by rw [hinv.sz_ch]; exact hp), ok_bind',
      setE_ok' _ _ _ _ (by rw [hinv.sz_ch]; exact hp), ok_bind']
    obtain ⟨h1, h2⟩ := hch' p hp
    rw [getE_ok' degree v _ 0 (by omega), ok_bind', getE_ok' degree p _ 0 (by omega), ok_bind']
    have hd0 := hdpos v hv1
    rw [if_neg (by omega)]
    rw [getE_ok' st.snodeIndex p _ 0 (by rw [hinv.sz_si]; exact hp), ok_bind',
      getE_ok' st.snodeIndex v _ 0 (by rw [hinv.sz_si]; exact hv), ok_bind']
    by_cases hcond : (degree.getD v 0 - 1 == degree.getD p 0 && st.snodeIndex.getD p 0 == -1) = true
    · rw [if_pos hcond]
      have hdeg : degree.getD v 0 = degree.getD p 0 + 1 := by
        simp only [Bool.and_eq_true, beq_iff_eq] at hcond
        omega
      by_cases hsiv : st.snodeIndex.getD v 0 < 0
      · rw [if_pos hsiv, setE_ok' _ _ _ _ (by rw [hinv.sz_si]; exact hp), ok_bind',
          setE_ok' _ _ _ _ (by rw [Array.size_setIfInBounds, hinv.sz_si]; exact hv), ok_bind']
        exact ps_tail_inv _ v _ _ hv (by simp; exact hinv.sz_si) hinv.sz_sp h1 h2
          (hinv.core.caseA hinv.sz_si hv hp (by omega) hvd hpd hpdef hdeg hsiv)
      · rw [if_neg hsiv]
        have h0 : 0 ≤ st.snodeIndex.getD v 0 := by omega
        obtain ⟨hr', hsr, hrd⟩ := hinv.core.target v hv h0
        have hrp : (st.snodeIndex.getD v 0).toNat ≠ p := fun e => hpd (e ▸ hrd)
        rw [setE_ok' _ _ _ _ (by rw [hinv.sz_si]; exact hp), ok_bind',
          getE_ok' _ _ _ 0 (by rw [Array.size_setIfInBounds, hinv.sz_si]; exact hr'), ok_bind',
          setE_ok' _ _ _ _ (by rw [Array.size_setIfInBounds, hinv.sz_si]; exact hr'), ok_bind',
          getD_set_ne' _ _ _ _ _ (Ne.symm hrp)]
        exact ps_tail_inv _ v _ _ hv (by simp; exact hinv.sz_si) hinv.sz_sp h1 h2
          (hinv.core.caseB hinv.sz_si hv hp (by omega) hvd hpd hpdef hdeg h0)
    · rw [if_neg hcond]
      by_cases hsiv : st.snodeIndex.getD v 0 < 0
      · rw [if_pos hsiv, setE_ok' _ _ _ _ (by rw [hinv.sz_sp]; exact hv), ok_bind']
        exact ps_tail_inv _ v _ _ hv hinv.sz_si (by simp; exact hinv.sz_sp) h1 h2
          (hinv.core.mono v)
      · rw [if_neg hsiv]
        have h0 : 0 ≤ st.snodeIndex.getD v 0 := by omega
        obtain ⟨hr', _, _⟩ := hinv.core.target v hv h0
        rw [setE_ok' _ _ _ _ (by rw [hinv.sz_sp]; exact hr'), ok_bind']
        exact ps_tail_inv _ v _ _ hv hinv.sz_si (by simp; exact hinv.sz_sp) h1 h2
          (hinv.core.mono v)

/-! ### the whole pass -/

/-- [S] the pass over a list of vertices in which nobody is listed twice, nor before one of
its children -/
theorem ps_fold {parent degree : Array Nat} {n rootIndex : Nat} (hpar : EtreeParent parent n)
    (hdsz : degree.size = n) (hdpos : ∀ v, v + 1 < n → 0 < degree.getD v 0) (hr : rootIndex < n) :
    ∀ (todo done : List Nat) (st : PSState), PSInv parent degree n done st → todo.Nodup →
      (∀ v ∈ todo, v < n ∧ v ∉ done ∧ parent.getD v 0 ∉ done) →
      todo.Pairwise (fun a b => parent.getD b 0 ≠ a) →
      ∃ st', todo.foldlM (pothenSunStep parent degree rootIndex) st = .ok st' ∧
        PSInv parent degree n (todo.reverse ++ done) st' := by
  intro todo
  induction todo with
  | nil => intro done st h _ _ _; exact ⟨st, rfl, by simpa using h⟩
  | cons v rest ih =>
    intro done st hinv hnd hmem hpw
    obtain ⟨hv, hvd, hpd⟩ := hmem v (List.mem_cons_self ..)
    obtain ⟨st1, h1, hinv1⟩ := ps_step hpar hdsz hdpos hr hinv hv hvd hpd
    have hnd' := List.nodup_cons.1 hnd
    have hpw' := List.pairwise_cons.1 hpw
    obtain ⟨st2, h2, hinv2⟩ := ih (v :: done) st1 hinv1 hnd'.2 (fun w hw => by
      obtain ⟨a, b, c⟩ := hmem w (List.mem_cons_of_mem _ hw)
      refine ⟨a, ?_, ?_⟩
      · intro hm
        rcases List.mem_cons.1 hm with e | hm
        · exact hnd'.1 (e ▸ hw)
        · exact b hm
      · intro hm
        rcases List.mem_cons.1 hm with e | hm
        · exact hpw'.1 w hw e
        · exact c hm) hpw'.2
    refine ⟨st2, ?_, ?_⟩
    · rw [List.foldlM_cons, h1, ok_bind']; exact h2
    · have e : (v :: rest).reverse ++ done = rest.reverse ++ (v :: done) := by simp
      rw [e]; exact hinv2

/-- [S] the initial state of `pothen_sun` satisfies the invariant -/
theorem ps_init (parent degree : Array Nat) (n : Nat) :
    PSInv parent degree n []
      { snodeIndex := Array.replicate n (-1), snodeParent := Array.replicate n noParent,
        children := Array.replicate n #[] } where
  sz_si := by simp
  sz_sp := by simp
  sz_ch := by simp
  ch_lt := by
    intro p hp w hw
    simp [Array.getD_eq_getD_getElem?, hp] at hw
  core := by
    have hneg : ∀ x, x < n → (Array.replicate n (-1 : Int)).getD x 0 = -1 := by
      intro x hx
      simp [Array.getD_eq_getD_getElem?, hx]
    refine ⟨?_, ?_⟩ <;> intro x hx h0 <;> rw [hneg x hx] at h0 <;> omega

/-- [S] `pothen_sun` on the elimination tree `parent` (every non-root has a larger parent),
positive degrees of the non-roots and a post-order `post` (no repetition, children before
parents): no panic, and the returned `snode_index` satisfies `PSCore`. -/
theorem pothen_sun_spec {parent post degree : Array Nat} {n : Nat} (hpar : EtreeParent parent n)
    (hdsz : degree.size = n) (hdpos : ∀ v, v + 1 < n → 0 < degree.getD v 0)
    (hnd : post.toList.Nodup) (hlt : ∀ v ∈ post.toList, v < n)
    (hpw : post.toList.Pairwise (fun a b => parent.getD b 0 ≠ a)) :
    ∃ sp si, pothenSun parent post degree = .ok (sp, si) ∧ si.size = n ∧
      PSCore parent degree n post.toList.reverse si := by
  have hn := hpar.n_pos
  obtain ⟨st, hf, hinv⟩ := ps_fold hpar hdsz hdpos (show n - 1 < n by omega) post.toList [] _
    (ps_init parent degree n) hnd (fun v hv => ⟨hlt v hv, by simp, by simp⟩) hpw
  unfold pothenSun
  rw [hpar.findIdx_root]
  simp only [hpar.size_eq]
  show ∃ sp si, (List.foldlM (pothenSunStep parent degree (n - 1)) _ post.toList >>= _) = _ ∧ _
  rw [hf, ok_bind']
  refine ⟨_, _, rfl, hinv.sz_si, ?_⟩
  simpa using hinv.core

/-! ### `find_supernodes` -/

/-- the body of the bucket loop of `find_supernodes` -/
private def fsStep (si : Array Int) (sn : Array VSet) (i : Nat) : MErr (Array VSet) := do
  let s ← getE sn (repOf si i) "find_supernodes"
  setE sn (repOf si i) (s.insert i) "find_supernodes"

private theorem fs_fold (si : Array Int) (n : Nat) (hrep : ∀ i, i < n → repOf si i < n) :
    ∀ k, k ≤ n →
      ∃ b, (List.range k).foldlM (fsStep si) (Array.replicate n #[]) = .ok b ∧ b.size = n ∧
        ∀ r, r < n → (b.getD r #[]).toList.Nodup ∧
          ∀ i, i ∈ (b.getD r #[]).toList ↔ (i < k ∧ repOf si i = r) := by
  intro k
  induction k with
  | zero =>
    intro _
    refine ⟨_, rfl, by simp, ?_⟩
    intro r hr
    simp [Array.getD_eq_getD_getElem?, hr]
  | succ k ih =>
    intro hk
    obtain ⟨b, hf, hsz, hinv⟩ := ih (by omega)
    have hkn : k < n := by omega
    have ht := hrep k hkn
    rw [List.range_succ, List.foldlM_append, hf]
    simp only [bind, Except.bind, List.foldlM_cons, List.foldlM_nil]
    have hstep : fsStep si b k = .ok
        (b.setIfInBounds (repOf si k) ((b.getD (repOf si k) #[]).insert k)) := by
      unfold fsStep
      rw [getE_ok' b _ _ #[] (by omega), ok_bind', setE_ok' _ _ _ _ (by omega)]
    refine ⟨_, by rw [hstep]; rfl, by simpa using hsz, ?_⟩
    intro r hr
    by_cases e : repOf si k = r
    · subst e
      rw [getD_set_self' _ _ _ _ (by omega)]
      refine ⟨VSet.nodup_insert _ _ (hinv _ hr).1, fun i => ?_⟩
      rw [VSet.mem_insert, (hinv _ hr).2 i]
      constructor
      · rintro (⟨h1, h2⟩ | rfl)
        · exact ⟨by omega, h2⟩
        · exact ⟨by omega, rfl⟩
      · rintro ⟨h1, h2⟩
        rcases Nat.lt_succ_iff_lt_or_eq.1 h1 with h | h
        · exact Or.inl ⟨h, h2⟩
        · exact Or.inr h
    · rw [getD_set_ne' _ _ _ _ _ e]
      refine ⟨(hinv r hr).1, fun i => ?_⟩
      rw [(hinv r hr).2 i]
      constructor
      · rintro ⟨h1, h2⟩; exact ⟨by omega, h2⟩
      · rintro ⟨h1, h2⟩
        refine ⟨?_, h2⟩
        rcases Nat.lt_succ_iff_lt_or_eq.1 h1 with h | h
        · exact h
        · subst h; exact absurd h2 e

/-- what `find_supernodes` returns: non-empty, repetition-free vertex sets that partition
`0..n`, each collecting the vertices with one representative `r`; a vertex that is not the
representative of its set was claimed by a child in the same set with a degree one larger -/
structure Supernodes (parent degree : Array Nat) (n : Nat) (snode : Array VSet) : Prop where
  nonempty : ∀ sn ∈ snode.toList, sn.toList ≠ []
  nodup : ∀ sn ∈ snode.toList, sn.toList.Nodup
  lt : ∀ sn ∈ snode.toList, ∀ x ∈ sn.toList, x < n
  partition : (snode.toList.flatMap (fun sn => sn.toList)).Perm (List.range n)
  pred : ∀ sn ∈ snode.toList, ∃ r ∈ sn.toList, ∀ x ∈ sn.toList, x ≠ r →
    ∃ c ∈ sn.toList, c < n ∧ parent.getD c 0 = x ∧ degree.getD c 0 = degree.getD x 0 + 1

/-- [S] `find_supernodes` under the hypotheses of `pothen_sun_spec`: no panic, and the result
satisfies `Supernodes`. -/
theorem find_supernodes_spec {parent post degree : Array Nat} {n : Nat} (hpar : EtreeParent parent n)
    (hdsz : degree.size = n) (hdpos : ∀ v, v + 1 < n → 0 < degree.getD v 0)
    (hnd : post.toList.Nodup) (hlt : ∀ v ∈ post.toList, v < n)
    (hpw : post.toList.Pairwise (fun a b => parent.getD b 0 ≠ a)) :
    ∃ snode sp, findSupernodes parent post degree = .ok (snode, sp) ∧
      Supernodes parent degree n snode := by
  obtain ⟨sp, si, hps, hsz, hcore⟩ := pothen_sun_spec hpar hdsz hdpos hnd hlt hpw
  obtain ⟨b, hf, hbsz, hb⟩ := fs_fold si n (fun i hi => hcore.repOf_lt hi) n (Nat.le_refl _)
  refine ⟨(b.toList.filter (fun s => !s.isEmpty)).toArray, sp, ?_, ?_⟩
  · unfold findSupernodes
    rw [hps, ok_bind']
    simp only [hsz, hpar.size_eq]
    show ((List.range n).foldlM (fsStep si) (Array.replicate n #[]) >>= _) = _
    rw [hf, ok_bind']
    rfl
  · -- every returned set is a bucket
    have hbucket : ∀ sn ∈ (b.toList.filter (fun s => !s.isEmpty)), sn.toList ≠ [] ∧
        ∃ r, r < n ∧ sn = b.getD r #[] := by
      intro sn hsn
      obtain ⟨hm, hne⟩ := List.mem_filter.1 hsn
      refine ⟨?_, ?_⟩
      · intro e
        have : sn = #[] := by apply Array.ext'; simpa using e
        subst this
        simp at hne
      · obtain ⟨r, hr, e⟩ := List.getElem_of_mem hm
        have hr' : r < b.size := by simpa using hr
        refine ⟨r, by omega, ?_⟩
        rw [← e]
        simp [Array.getD_eq_getD_getElem?, hr']
    have hrepneg : ∀ i, i < n → si.getD (repOf si i) 0 < 0 := by
      intro i hi
      unfold repOf
      by_cases h : si.getD i 0 < 0
      · rw [if_pos h]; exact h
      · rw [if_neg h]; exact (hcore.target i hi (by omega)).2.1
    refine ⟨fun sn hsn => (hbucket sn (by simpa using hsn)).1, ?_, ?_, ?_, ?_⟩
    · intro sn hsn
      obtain ⟨_, r, hr, e⟩ := hbucket sn (by simpa using hsn)
      rw [e]; exact (hb r hr).1
    · intro sn hsn x hx
      obtain ⟨_, r, hr, e⟩ := hbucket sn (by simpa using hsn)
      rw [e] at hx
      exact (((hb r hr).2 x).1 hx).1
    · -- partition
      rw [List.perm_ext_iff_of_nodup _ List.nodup_range]
      · intro a
        simp only [List.mem_flatMap, List.mem_range]
        constructor
        · rintro ⟨sn, hsn, ha⟩
          obtain ⟨_, r, hr, e⟩ := hbucket sn (by simpa using hsn)
          rw [e] at ha
          exact (((hb r hr).2 a).1 ha).1
        · intro ha
          have hr := hcore.repOf_lt ha
          have hmem : a ∈ (b.getD (repOf si a) #[]).toList := ((hb _ hr).2 a).2 ⟨ha, rfl⟩
          refine ⟨b.getD (repOf si a) #[], ?_, hmem⟩
          simp only [List.mem_filter]
          have hlt' : repOf si a < b.size := by omega
          refine ⟨?_, ?_⟩
          · have : b.getD (repOf si a) #[] = b[repOf si a] := by
              simp [Array.getD_eq_getD_getElem?, hlt']
            rw [this]; exact Array.getElem_mem_toList hlt'
          · cases hc : (b.getD (repOf si a) #[]).isEmpty with
            | false => rfl
            | true =>
              rw [Array.isEmpty_iff] at hc
              rw [hc] at hmem
              simp at hmem
      · rw [List.nodup_flatMap]
        refine ⟨?_, ?_⟩
        · intro sn hsn
          obtain ⟨_, r, hr, e⟩ := hbucket sn (by simpa using hsn)
          rw [e]; exact (hb r hr).1
        · apply List.Pairwise.filter
          rw [List.pairwise_iff_getElem]
          intro i j hi hj hij
          have hi' : i < n := by simpa [hbsz] using hi
          have hj' : j < n := by simpa [hbsz] using hj
          show List.Disjoint _ _
          intro x hx1 hx2
          have e1 : b.toList[i] = b.getD i #[] := by
            simp [Array.getD_eq_getD_getElem?, hbsz, hi']
          have e2 : b.toList[j] = b.getD j #[] := by
            simp [Array.getD_eq_getD_getElem?, hbsz, hj']
          rw [e1] at hx1
          rw [e2] at hx2
          have := (((hb i hi').2 x).1 hx1).2
          have := (((hb j hj').2 x).1 hx2).2
          omega
    · intro sn hsn
      obtain ⟨hne, r, hr, e⟩ := hbucket sn (by simpa using hsn)
      subst e
      -- the bucket is non-empty, so `r` is a representative and belongs to it
      obtain ⟨i, hi⟩ := List.exists_mem_of_ne_nil _ hne
      obtain ⟨hin, hir⟩ := ((hb r hr).2 i).1 hi
      have hrneg : si.getD r 0 < 0 := hir ▸ hrepneg i hin
      have hrr : repOf si r = r := by unfold repOf; rw [if_pos hrneg]
      refine ⟨r, ((hb r hr).2 r).2 ⟨hr, hrr⟩, ?_⟩
      intro x hx hxr
      obtain ⟨hxn, hxrep⟩ := ((hb r hr).2 x).1 hx
      have hx0 : 0 ≤ si.getD x 0 := by
        by_contra hneg
        have : repOf si x = x := by unfold repOf; rw [if_pos (by omega)]
        omega
      obtain ⟨c, _, hcn, hcp, hcd, hcr⟩ := hcore.claimed x hxn hx0
      have : repOf si x = (si.getD x 0).toNat := by unfold repOf; rw [if_neg (by omega)]
      exact ⟨c, ((hb r hr).2 c).2 ⟨hcn, by omega⟩, hcn, hcp, hcd⟩

end Clarabel.Chordal
