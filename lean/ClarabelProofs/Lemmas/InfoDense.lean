/-
  Dense (mathematical) counterparts of the quantities computed by
  `Residuals.update`, `Info.update` and `Variables.unscale`, over a field, as functions
  `Fin n → α`.  The sparse kernels of the executable model are related to these dense
  forms by C16 (gemv/symv = matrix-vector product); here only exact field identities are
  proved.
-/
import Mathlib.Algebra.BigOperators.Field
import Mathlib.Algebra.Order.Field.Basic
import Mathlib.Algebra.Order.BigOperators.Ring.Finset
import Mathlib.Tactic.FieldSimp
import Mathlib.Tactic.Ring
import Mathlib.Tactic.Linarith
import Mathlib.Tactic.Positivity

open Finset

namespace Clarabel.Dense

variable {α : Type} [Field α] {n m : ℕ}

/-- `A·x` -/
def mulV (A : Fin m → Fin n → α) (x : Fin n → α) (i : Fin m) : α := ∑ j, A i j * x j
/-- `Aᵀ·z` -/
def mulVT (A : Fin m → Fin n → α) (z : Fin m → α) (j : Fin n) : α := ∑ i, A i j * z i
/-- `⟨u,v⟩` -/
def dot {k : ℕ} (u v : Fin k → α) : α := ∑ i, u i * v i
/-- `Σ vᵢ²` -/
def sumsq {k : ℕ} (v : Fin k → α) : α := ∑ i, v i * v i

/-- the user's problem data -/
structure Problem (α : Type) (n m : ℕ) where
  P : Fin n → Fin n → α
  q : Fin n → α
  A : Fin m → Fin n → α
  b : Fin m → α

/-- equilibration `D = diag d`, `E = diag e`, cost scaling `c` -/
structure Scaling (α : Type) (n m : ℕ) where
  d : Fin n → α
  e : Fin m → α
  c : α

/-- the internal data `P̂ = cDPD, q̂ = cDq, Â = EAD, b̂ = Eb` (C10) -/
def Problem.scaled (p : Problem α n m) (sc : Scaling α n m) : Problem α n m where
  P := fun i j => sc.c * sc.d i * p.P i j * sc.d j
  q := fun j => sc.c * sc.d j * p.q j
  A := fun i j => sc.e i * p.A i j * sc.d j
  b := fun i => sc.e i * p.b i

/-- `rz` of `Residuals.update`: `rz = (A x + s) − τ b` -/
def rz (p : Problem α n m) (x : Fin n → α) (s : Fin m → α) (τ : α) (i : Fin m) : α :=
  (mulV p.A x i + s i) - τ * p.b i
/-- `rx` of `Residuals.update`: `rx = (−Aᵀ z) + (−P x − τ q)` -/
def rx (p : Problem α n m) (x : Fin n → α) (z : Fin m → α) (τ : α) (j : Fin n) : α :=
  -(mulVT p.A z j) + (-(mulV p.P x j) - τ * p.q j)
/-- `rx_inf = −Aᵀ z` -/
def rxInf (p : Problem α n m) (z : Fin m → α) (j : Fin n) : α := -(mulVT p.A z j)
/-- `rz_inf = A x + s` -/
def rzInf (p : Problem α n m) (x : Fin n → α) (s : Fin m → α) (i : Fin m) : α := mulV p.A x i + s i

/-- `Variables.unscale` with normaliser `σ` (`τ` or `κ`): `x = D x̂ σ⁻¹` -/
def unX (sc : Scaling α n m) (σ : α) (xh : Fin n → α) (j : Fin n) : α := xh j * sc.d j * (1 / σ)
/-- `s = E⁻¹ ŝ σ⁻¹` -/
def unS (sc : Scaling α n m) (σ : α) (sh : Fin m → α) (i : Fin m) : α := sh i * (1 / sc.e i) * (1 / σ)
/-- `z = E ẑ (σ⁻¹ c⁻¹)` -/
def unZ (sc : Scaling α n m) (σ : α) (zh : Fin m → α) (i : Fin m) : α := zh i * sc.e i * (1 / σ * (1 / sc.c))

theorem mulV_scaled (p : Problem α n m) (sc : Scaling α n m) (xh : Fin n → α) (i : Fin m) :
    mulV (p.scaled sc).A xh i = sc.e i * mulV p.A (fun j => sc.d j * xh j) i := by
  unfold mulV Problem.scaled
  rw [Finset.mul_sum]
  exact Finset.sum_congr rfl (fun j _ => by ring)

theorem mulVT_scaled (p : Problem α n m) (sc : Scaling α n m) (zh : Fin m → α) (j : Fin n) :
    mulVT (p.scaled sc).A zh j = sc.d j * mulVT p.A (fun i => sc.e i * zh i) j := by
  unfold mulVT Problem.scaled
  rw [Finset.mul_sum]
  exact Finset.sum_congr rfl (fun i _ => by ring)

theorem mulVP_scaled (p : Problem α n m) (sc : Scaling α n m) (xh : Fin n → α) (j : Fin n) :
    mulV (p.scaled sc).P xh j = sc.c * sc.d j * mulV p.P (fun k => sc.d k * xh k) j := by
  unfold mulV Problem.scaled
  rw [Finset.mul_sum]
  exact Finset.sum_congr rfl (fun k _ => by ring)

theorem mulV_smul (A : Fin m → Fin n → α) (x : Fin n → α) (k : α) (i : Fin m) :
    mulV A (fun j => x j * k) i = mulV A x i * k := by
  unfold mulV
  rw [Finset.sum_mul]
  exact Finset.sum_congr rfl (fun j _ => by ring)

theorem mulVT_smul (A : Fin m → Fin n → α) (z : Fin m → α) (k : α) (j : Fin n) :
    mulVT A (fun i => z i * k) j = mulVT A z j * k := by
  unfold mulVT
  rw [Finset.sum_mul]
  exact Finset.sum_congr rfl (fun i _ => by ring)

theorem dot_smul {k : ℕ} (u v : Fin k → α) (a : α) : dot u (fun i => v i * a) = dot u v * a := by
  unfold dot
  rw [Finset.sum_mul]
  exact Finset.sum_congr rfl (fun i _ => by ring)

theorem sumsq_smul {k : ℕ} (v : Fin k → α) (a : α) : sumsq (fun i => v i * a) = sumsq v * (a * a) := by
  unfold sumsq
  rw [Finset.sum_mul]
  exact Finset.sum_congr rfl (fun i _ => by ring)

end Clarabel.Dense
