/-
  C05: a concrete cone list containing one cone of each of the seven kinds, a point of the
  product cone and a point of its dual — the non-vacuity witness of
  `C05.cone_pairing_nonneg_all`, `C05.weak_duality_slack_all_cones`,
  `C05.weak_duality_slack_tol_all_cones`.
-/
import ClarabelProofs.Lemmas.DualityAllCones
import Mathlib.Tactic.NormNum
import Mathlib.Tactic.IntervalCases

namespace Clarabel.Lemmas
open Finset

/-- zero(1) × nonneg(2) × soc(3) × exp × pow(½) × genpow([½,¼,¼]; 2) × psd(2): 20 rows -/
noncomputable def exCones : List ConeSpec7 :=
  [.zero 1, .nonneg 2, .soc 3, .exp, .pow (1 / 2), .genpow [1 / 2, 1 / 4, 1 / 4] 2, .psd 2]

/-- a point of `K` -/
noncomputable def exS : List ℝ :=
  [0, 1, 2, 2, 1, 1, 0, 1, 1, 1, 1, 1 / 2, 1, 1, 1, 1 / 2, 1 / 2, 1, 1, 1]

/-- a point of `K*` -/
noncomputable def exZ : List ℝ :=
  [5, 3, 0, 3, -2, 1, -1, 0, 1, 1 / 2, 1 / 2, -1, 1 / 2, 1 / 4, 1 / 4, -1 / 2, 1 / 2, 1, -1, 1]

theorem exCones_valid : ∀ c ∈ exCones, c.Valid := by
  intro c hc
  simp only [exCones, List.mem_cons, List.not_mem_nil, or_false] at hc
  rcases hc with rfl | rfl | rfl | rfl | rfl | rfl | rfl
  · trivial
  · trivial
  · trivial
  · trivial
  · exact ⟨by norm_num, by norm_num⟩
  · refine ⟨?_, by norm_num⟩
    intro x hx
    simp only [List.mem_cons, List.not_mem_nil, or_false] at hx
    rcases hx with rfl | rfl | rfl <;> norm_num
  · trivial

/-- `[[1, t/√2], [t/√2, 1]] ⪰ 0` for `t = ±1`: the svec `(1, t, 1)` -/
theorem ex_psd2 (t : ℝ) (ht : t ^ 2 = 1) (x : ℕ → ℝ) :
    0 ≤ qfN 2 (PsdTri.svecToMat ([1, t, 1] : List ℝ).toArray) x := by
  have h := PsdTri.isqrt2_sq
  have e : qfN 2 (PsdTri.svecToMat ([1, t, 1] : List ℝ).toArray) x
      = x 0 * 1 * x 0 + x 0 * (t * PsdTri.isqrt2) * x 1
        + (x 1 * (t * PsdTri.isqrt2) * x 0 + x 1 * 1 * x 1) := by
    simp [qfN, sum_range_succ, PsdTri.svecToMat, PsdIndex.triangularNumber]
  have hc : (t * PsdTri.isqrt2) ^ 2 = 1 / 2 := by rw [mul_pow, ht, sq, h]; norm_num
  have e2 : x 0 * 1 * x 0 + x 0 * (t * PsdTri.isqrt2) * x 1
        + (x 1 * (t * PsdTri.isqrt2) * x 0 + x 1 * 1 * x 1)
      = (x 0 + t * PsdTri.isqrt2 * x 1) ^ 2 + 1 / 2 * x 1 ^ 2 := by
    linear_combination (-(x 1) ^ 2) * hc
  rw [e, e2]
  positivity

theorem exS_mem : InK7 exCones exS := by
  simp only [exCones, exS, InK7, ConeSpec7.dim, List.length_cons, List.length_nil,
    PsdIndex.triangularNumber, List.take_succ_cons, List.take_zero, List.drop_succ_cons,
    List.drop_zero, Nat.reduceAdd, Nat.reduceMul, Nat.reduceDiv]
  refine ⟨?_, ?_, ?_, ?_, ?_, ?_, ?_, trivial⟩
  · refine ⟨rfl, ?_⟩
    intro i hi; interval_cases i; simp
  · refine ⟨rfl, ?_⟩
    intro i hi; interval_cases i <;> simp
  · refine ⟨rfl, by simp, ?_⟩
    simp [sum_range_succ]; norm_num
  · refine ⟨rfl, Or.inl ⟨by simp, by simp⟩⟩
  · refine ⟨rfl, by simp, by simp, ?_⟩
    simp [Real.one_rpow]; norm_num
  · refine ⟨rfl, ?_, ?_⟩
    · intro i hi; simp at hi; interval_cases i <;> simp
    · simp [sum_range_succ, prod_range_succ, Real.one_rpow]; norm_num
  · refine ⟨by simp [PsdIndex.triangularNumber], ?_⟩
    exact ex_psd2 1 (by norm_num)

theorem exZ_mem : InKdual7 exCones exZ := by
  simp only [exCones, exZ, InKdual7, ConeSpec7.dim, List.length_cons, List.length_nil,
    PsdIndex.triangularNumber, List.take_succ_cons, List.take_zero, List.drop_succ_cons,
    List.drop_zero, Nat.reduceAdd, Nat.reduceMul, Nat.reduceDiv]
  refine ⟨?_, ?_, ?_, ?_, ?_, ?_, ?_, trivial⟩
  · rfl
  · refine ⟨rfl, ?_⟩
    intro i hi; interval_cases i <;> simp
  · refine ⟨rfl, by simp, ?_⟩
    simp [sum_range_succ]; norm_num
  · refine ⟨rfl, Or.inl ⟨by simp, ?_⟩⟩
    simp
  · refine ⟨rfl, ?_⟩
    show PowKdual (1 / 2) (1 / 2) (1 / 2) (-1)
    refine ⟨by norm_num, by norm_num, ?_⟩
    rw [show ((1 : ℝ) / 2 / (1 / 2)) = 1 by norm_num,
      show ((1 : ℝ) / 2 / (1 - 1 / 2)) = 1 by norm_num, Real.one_rpow, Real.one_rpow]
    norm_num
  · refine ⟨rfl, ?_, ?_⟩
    · intro i hi; simp at hi; interval_cases i <;> simp
    · simp [sum_range_succ, prod_range_succ, Real.one_rpow]; norm_num
  · refine ⟨by simp [PsdIndex.triangularNumber], ?_⟩
    exact ex_psd2 (-1) (by norm_num)

/-- the same two points as vectors `Fin 20 → ℝ` -/
noncomputable def exSv : Fin 20 → ℝ := fun i => exS.getD i 0
noncomputable def exZv : Fin 20 → ℝ := fun i => exZ.getD i 0

theorem exSv_mem : InK7 exCones (List.ofFn exSv) := by
  unfold exSv; rw [ofFn_getD exS 20 rfl]; exact exS_mem

theorem exZv_mem : InKdual7 exCones (List.ofFn exZv) := by
  unfold exZv; rw [ofFn_getD exZ 20 rfl]; exact exZ_mem

end Clarabel.Lemmas
