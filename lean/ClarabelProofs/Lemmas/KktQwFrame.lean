/-
  C05 (iv) "`KKTSolver::update` forgets" — part 5: every call of the linear-solver interface changes
  the object only in what the next `update` rewrites.

  `KInv K`: the QDLDL object satisfies C12's history invariant (`LdlInv`) and the four work vectors
  have one common length.  `KInv` is kept by `update`, `setrhs`, `solve`; the object afterwards is
  `Upd st`-related to the one before (`update_upd`, `setrhs_solve_upd`).
-/
import ClarabelProofs.Lemmas.KktQwUpdate
import ClarabelProofs.Lemmas.KktRestore
import ClarabelProofs.Lemmas.SolverStaleFrame

namespace Clarabel.Solver
open Clarabel Clarabel.Qdldl Residuals

set_option linter.unusedSectionVars false
set_option linter.unusedVariables false

variable {α : Type}

section
variable [Add α] [Sub α] [Mul α] [Div α] [Neg α] [OfNat α 0] [OfNat α 1] [OfNat α 2]
  [OfNat α 100] [OfNat α 1000] [LT α] [DecidableLT α] [LE α] [DecidableLE α] [BEq α] [FloatLike α]

/-- invariant of the linear-solver object: C12's history invariant for the engine, one common
length for `x, b, work1, work2` -/
structure KInv (K : KktSolver α) : Prop where
  ldl : LdlInv K.ldl
  x : K.x.size = K.b.size
  work1 : K.work1.size = K.b.size
  work2 : K.work2.size = K.b.size

/-! ### value writes (single run) -/

theorem Upd.of_writes {st : LinSettings α} {K : KktSolver α} {nz : Array α} {F : Factorisation α}
    (hnz : AgreeOn (fun i => ¬ WK K.map i) K.KKT.nzval nz) (hS : SameButNz K.ldl F)
    (hF : AgreeOn (fun j => ¬ slotsOfSet K.ldl.AtoPAPt (WL st K.map) j) K.ldl.triuA.nzval F.triuA.nzval) :
    Upd st K { K with KKT := { K.KKT with nzval := nz }, ldl := F } :=
  { m := rfl, n := rfl, p := rfl, map := rfl, dsigns := rfl, hsz := rfl, km := rfl, kn := rfl, kcol := rfl,
    krow := rfl, nz := hnz, ldl := hS.ls hF, dr := fun _ => rfl, x := rfl, b := rfl, work1 := rfl, work2 := rfl }

theorem updateValues_upd {st : LinSettings α} {K G : KktSolver α} {index : Array Nat} {values : Array α}
    (h : K.updateValues index values = .ok G) (hW : ∀ i ∈ index.toList, WK K.map i) (hI : KInv K) :
    Upd st K G ∧ KInv G ∧ G.Hsblocks = K.Hsblocks := by
  unfold KktSolver.updateValues at h
  obtain ⟨nz, hnz, h⟩ := bind_ok_inv h
  obtain ⟨F, hF, h⟩ := bind_ok_inv h
  cases h
  obtain ⟨hS, hA⟩ := updateValues_frame hF
  refine ⟨Upd.of_writes ((updateValuesKKT_frame hnz).mono ?_) hS (hA.mono ?_),
    ⟨hI.ldl.updateValues hF, hI.x, hI.work1, hI.work2⟩, rfl⟩
  · intro i hi hm
    exact hi (hW i hm)
  · rintro j hj ⟨i, hi, hm⟩
    exact hj ⟨i, Or.inl (hW i hi), hm⟩

theorem scaleValues_upd {st : LinSettings α} {K G : KktSolver α} {index : Array Nat} {scale : α}
    (h : K.scaleValues index scale = .ok G) (hW : ∀ i ∈ index.toList, WK K.map i) (hI : KInv K) :
    Upd st K G ∧ KInv G ∧ G.Hsblocks = K.Hsblocks := by
  unfold KktSolver.scaleValues at h
  obtain ⟨nz, hnz, h⟩ := bind_ok_inv h
  obtain ⟨F, hF, h⟩ := bind_ok_inv h
  cases h
  obtain ⟨hS, hA⟩ := scaleValues_frame hF
  refine ⟨Upd.of_writes ((scaleValuesKKT_frame hnz).mono ?_) hS (hA.mono ?_),
    ⟨hI.ldl.scaleValues hF, hI.x, hI.work1, hI.work2⟩, rfl⟩
  · intro i hi hm
    exact hi (hW i hm)
  · rintro j hj ⟨i, hi, hm⟩
    exact hj ⟨i, Or.inl (hW i hi), hm⟩

theorem updateSparseSoc_upd {st : LinSettings α} {K G : KktSolver α} {mp : Kkt.SparseMap} {c : Soc.Cone α}
    (h : K.updateSparseSoc mp c = .ok G) (hW : ∀ i ∈ sparseIdx mp, WK K.map i) (hI : KInv K) :
    Upd st K G ∧ KInv G ∧ G.Hsblocks = K.Hsblocks := by
  unfold KktSolver.updateSparseSoc at h
  split at h
  · rename_i mu mv mD sp _
    have hu : ∀ i ∈ mu.toList, WK K.map i := fun i hi => hW i (by simp [sparseIdx, hi])
    have hv : ∀ i ∈ mv.toList, WK K.map i := fun i hi => hW i (by simp [sparseIdx, hi])
    have hD : ∀ i ∈ mD.toList, WK K.map i := fun i hi => hW i (by simp [sparseIdx, hi])
    obtain ⟨K1, h1, h⟩ := bind_ok_inv h
    obtain ⟨K2, h2, h⟩ := bind_ok_inv h
    obtain ⟨K3, h3, h⟩ := bind_ok_inv h
    obtain ⟨K4, h4, h⟩ := bind_ok_inv h
    obtain ⟨u1, i1, b1⟩ := updateValues_upd (st := st) h1 hu hI
    obtain ⟨u2, i2, b2⟩ := updateValues_upd (st := st) h2 (by rw [← u1.map]; exact hv) i1
    obtain ⟨u3, i3, b3⟩ := scaleValues_upd (st := st) h3 (by rw [← u2.map, ← u1.map]; exact hu) i2
    obtain ⟨u4, i4, b4⟩ := scaleValues_upd (st := st) h4 (by rw [← u3.map, ← u2.map, ← u1.map]; exact hv) i3
    obtain ⟨u5, i5, b5⟩ := updateValues_upd (st := st) h
      (by rw [← u4.map, ← u3.map, ← u2.map, ← u1.map]; exact hD) i4
    exact ⟨(((u1.trans u2).trans u3).trans u4).trans u5, i5, by rw [b5, b4, b3, b2, b1]⟩
  · cases h

/-- the sparse-cone loop of `update` (single run) -/
theorem spFold_upd {st : LinSettings α} {K0 : KktSolver α} :
    ∀ (cones : List (ConeSt α)) (K : KktSolver α) (t : Nat) (r : KktSolver α × Nat),
      cones.foldlM spStep (K, t) = .ok r → Upd st K0 K → KInv K →
      Upd st K0 r.1 ∧ KInv r.1 ∧ r.1.Hsblocks = K.Hsblocks
  | [], K, t, r, h, hU, hI => by
    cases h
    exact ⟨hU, hI, rfl⟩
  | c :: cs, K, t, r, h, hU, hI => by
    rw [List.foldlM_cons] at h
    obtain ⟨⟨K1, t1⟩, h1, h⟩ := bind_ok_inv h
    have key : Upd st K0 K1 ∧ KInv K1 ∧ K1.Hsblocks = K.Hsblocks := by
      cases c with
      | zero d => cases h1; exact ⟨hU, hI, rfl⟩
      | nonneg Kn => cases h1; exact ⟨hU, hI, rfl⟩
      | soc sc =>
        by_cases hsp : sc.sparse.isSome = true
        · simp only [spStep, hsp, if_true] at h1
          obtain ⟨mp, hmp, h1⟩ := bind_ok_inv h1
          obtain ⟨K2, h2, h1⟩ := bind_ok_inv h1
          cases h1
          have hmp' := getE_ok_iff.mp hmp
          have hlt : t < K.map.sparse_maps.size := by
            by_contra hc
            rw [Array.getElem?_eq_none (by omega)] at hmp'
            cases hmp'
          obtain ⟨u, i, b⟩ := updateSparseSoc_upd (st := st) h2
            (fun i hi => Or.inr ⟨t, Nat.zero_le _, hlt, mp, hmp', hi⟩) hI
          exact ⟨hU.trans u, i, b⟩
        · simp only [spStep, hsp, if_false, Bool.false_eq_true] at h1
          cases h1
          exact ⟨hU, hI, rfl⟩
    obtain ⟨a1, a2, a3⟩ := key
    obtain ⟨b1, b2, b3⟩ := spFold_upd cs K1 t1 r h a1 a2
    exact ⟨b1, b2, b3.trans a3⟩

/-- a successful gather has one entry per index -/
theorem mapM_getE_length {β : Type} (a : Array β) (site : String) :
    ∀ (l : List Nat) (r : List β), l.mapM (fun i => getE a i site) = .ok r → r.length = l.length
  | [], r, h => by cases h; rfl
  | i :: l, r, h => by
    rw [List.mapM_cons] at h
    obtain ⟨v, _, h⟩ := bind_ok_inv h
    obtain ⟨vs, hvs, h⟩ := bind_ok_inv h
    cases h
    simp [mapM_getE_length a site l vs hvs]

/-- `regularize_and_refactor` (single run) -/
theorem regularizeAndRefactor_upd {st : LinSettings α} {K : KktSolver α} {r : Bool × KktSolver α}
    (h : K.regularizeAndRefactor st = .ok r) (hI : KInv K) :
    Upd st K r.2 ∧ KInv r.2 ∧ r.2.Hsblocks = K.Hsblocks := by
  unfold KktSolver.regularizeAndRefactor at h
  by_cases hst : st.staticRegEnable = true
  · simp only [hst, if_true] at h
    obtain ⟨⟨rg, nzF⟩, hr, h⟩ := bind_ok_inv h
    dsimp only at h
    split at h
    · cases h
    · rename_i hsz
      obtain ⟨F1, hF1, h⟩ := bind_ok_inv h
      obtain ⟨F2, hF2, h⟩ := bind_ok_inv h
      cases h
      have hw : K.work1.size = rg.diagKkt.size ∧ K.work2.size = rg.diagShifted.size := by
        simpa using hsz
      have hrest : rg.nzval = K.KKT.nzval := Kkt.regularizeAndRestore_restores hr
      obtain ⟨hS, hA⟩ := updateValues_frame hF1
      have hI1 := hI.ldl.updateValues hF1
      have hF2' : Qdldl.refactor F1 = .ok F2 := by
        cases hq : Qdldl.refactor F1 with
        | error e =>
          rw [hq] at hF2
          cases e <;> cases hF2
        | ok F =>
          rw [hq] at hF2
          cases hF2
          rfl
      obtain ⟨hL, hT⟩ := refactor_frame hI1 hF2'
        (fun j => ¬ slotsOfSet K.ldl.AtoPAPt (WL st K.map) j)
      refine ⟨?_, ⟨hI1.refactor hF2', ?_, ?_, ?_⟩, rfl⟩
      · exact
          { m := rfl, n := rfl, p := rfl, map := rfl, dsigns := rfl, hsz := rfl, km := rfl, kn := rfl,
            kcol := rfl, krow := rfl
            nz := by show AgreeOn _ K.KKT.nzval rg.nzval; rw [hrest]; exact AgreeOn.rfl' _ _
            ldl := (hS.ls (hA.mono (by
              rintro j hj ⟨i, hi, hm⟩
              exact hj ⟨i, Or.inr ⟨hst, hi⟩, hm⟩))).trans hL
            dr := fun e => by rw [hst] at e; cases e
            x := rfl, b := rfl, work1 := hw.1, work2 := hw.2 }
      · exact hI.x
      · show rg.diagKkt.size = K.b.size
        rw [← hw.1]; exact hI.work1
      · show rg.diagShifted.size = K.b.size
        rw [← hw.2]; exact hI.work2
  · have hst' : st.staticRegEnable = false := by simpa using hst
    simp only [hst', Bool.false_eq_true, if_false] at h
    obtain ⟨F2, hF2, h⟩ := bind_ok_inv h
    cases h
    have hF2' : Qdldl.refactor K.ldl = .ok F2 := by
      cases hq : Qdldl.refactor K.ldl with
      | error e =>
        rw [hq] at hF2
        cases e <;> cases hF2
      | ok F =>
        rw [hq] at hF2
        cases hF2
        rfl
    obtain ⟨hL, hT⟩ := refactor_frame hI.ldl hF2' (fun j => ¬ slotsOfSet K.ldl.AtoPAPt (WL st K.map) j)
    exact ⟨{ m := rfl, n := rfl, p := rfl, map := rfl, dsigns := rfl, hsz := rfl, km := rfl, kn := rfl,
             kcol := rfl, krow := rfl, nz := AgreeOn.rfl' _ _, ldl := hL, dr := fun _ => rfl, x := rfl, b := rfl,
             work1 := rfl, work2 := rfl },
      ⟨hI.ldl.refactor hF2', hI.x, hI.work1, hI.work2⟩, rfl⟩

/-- **`KKTSolver::update` (single run)**: the object afterwards is the object before up to what the
next `update` rewrites; the invariant is kept -/
theorem update_upd {st : LinSettings α} {K : KktSolver α} {cones : List (ConeSt α)} {r : Bool × KktSolver α}
    (h : K.update cones st = .ok r) (hI : KInv K) : Upd st K r.2 ∧ KInv r.2 := by
  rw [update_eq] at h
  obtain ⟨hs, _, h⟩ := bind_ok_inv h
  split at h
  · cases h
  · rename_i hsz
    have hsz' : hs.size = K.Hsblocks.size := by simpa using hsz
    obtain ⟨K1, h1, h⟩ := bind_ok_inv h
    obtain ⟨r2, h2, h⟩ := bind_ok_inv h
    have hU0 : Upd st K ({ K with Hsblocks := Vec.negate hs } : KktSolver α) :=
      { m := rfl, n := rfl, p := rfl, map := rfl, dsigns := rfl
        hsz := by show K.Hsblocks.size = (Vec.negate hs).size; unfold Vec.negate; rw [Array.size_map, hsz']
        km := rfl, kn := rfl, kcol := rfl, krow := rfl, nz := AgreeOn.rfl' _ _, ldl := LS.rfl' _ _,
        dr := fun _ => rfl, x := rfl, b := rfl, work1 := rfl, work2 := rfl }
    have hI0 : KInv ({ K with Hsblocks := Vec.negate hs } : KktSolver α) := ⟨hI.ldl, hI.x, hI.work1, hI.work2⟩
    obtain ⟨u1, i1, _⟩ := updateValues_upd (st := st) h1 (fun i hi => Or.inl hi) hI0
    obtain ⟨u2, i2, _⟩ := spFold_upd (st := st) cones K1 0 r2 h2 (hU0.trans u1) i1
    obtain ⟨u3, i3, _⟩ := regularizeAndRefactor_upd h i2
    exact ⟨u2.trans u3, i3⟩

/-! ### `setrhs`, `solve` (single run): only the four work vectors change, their lengths are kept -/

theorem foldlM_setE_size {β : Type} (site : String) : ∀ (ps : List (Nat × β)) (a a' : Array β),
    ps.foldlM (fun (a : Array β) p => setE a p.1 p.2 site) a = .ok a' → a'.size = a.size :=
  fun ps a a' h => (Kkt.foldlM_setE_ok site ps a a' h).1

theorem qdldl_solve_size {F : Factorisation α} {b x : Array α} (h : Qdldl.solve F b = .ok x) :
    x.size = b.size := by
  unfold Qdldl.solve at h
  extract_lets jpA jpB at h
  obtain ⟨c1, h⟩ := ite_throw_jp h
  unfold jpB at h
  obtain ⟨c2, h⟩ := ite_throw_jp h
  unfold jpA at h
  obtain ⟨t1, _, h⟩ := bind_ok_inv h
  obtain ⟨t2, _, h⟩ := bind_ok_inv h
  unfold Perm.ipermute at h
  exact foldlM_setE_size _ _ _ _ h

theorem refineError_size {b : Array α} {KKT : Csc α} {ξ : Array α} {r : α × Array α}
    (h : refineError b KKT ξ = .ok r) : r.2.size = b.size := by
  unfold refineError at h
  obtain ⟨e, he, h⟩ := bind_ok_inv h
  cases h
  exact symv_size he

/-- the refinement loop keeps the lengths of `x`, `dx`, `e` -/
theorem irLoop_sizes (ldl : Factorisation α) (KKT : Csc α) (b : Array α) (normb : α) (st : LinSettings α) :
    ∀ (k : Nat) (s : IRState α) (r : Bool × IRState α), irLoop ldl KKT b normb st k s = .ok r →
      s.x.size = b.size → s.dx.size = b.size → s.e.size = b.size →
      r.2.x.size = b.size ∧ r.2.dx.size = b.size ∧ r.2.e.size = b.size
  | 0, s, r, h, hx, hd, he => by
    unfold irLoop at h
    cases h
    exact ⟨hx, hd, he⟩
  | k + 1, s, r, h, hx, hd, he => by
    unfold irLoop at h
    split at h
    · cases h
      exact ⟨hx, hd, he⟩
    · obtain ⟨dx, hdx, h⟩ := bind_ok_inv h
      have hdxs := qdldl_solve_size hdx
      extract_lets dx2 jpA at h
      obtain ⟨hg, h⟩ := ite_throw_jp h
      unfold jpA dx2 at h
      have hg' : dx.size = s.x.size := by simpa using hg
      have hax : (Vec.axpby 1 s.x 1 dx).size = b.size := by
        rw [axpby_size _ _ _ _ hg', hg', hx]
      obtain ⟨⟨norme, e⟩, hre, h⟩ := bind_ok_inv h
      have hes := refineError_size hre
      dsimp only at h hes
      split at h
      · cases h
        exact ⟨hx, hax, hes⟩
      · split at h
        · split at h
          · cases h
            exact ⟨hax, hx, hes⟩
          · cases h
            exact ⟨hx, hax, hes⟩
        · exact irLoop_sizes ldl KKT b normb st k _ r h hax hx hes

theorem setrhs_inv {K K1 : KktSolver α} {rx rz : Array α} (h1 : K.setrhs rx rz = .ok K1) :
    K1 = { K with b := rx ++ rz ++ Array.replicate K.p (0 : α) } ∧
      (rx ++ rz ++ Array.replicate K.p (0 : α)).size = K.b.size := by
  unfold KktSolver.setrhs at h1
  extract_lets jpA jpB jpC at h1
  obtain ⟨g1, h1⟩ := ite_throw_jp h1
  unfold jpC at h1
  obtain ⟨g2, h1⟩ := ite_throw_jp h1
  unfold jpB at h1
  obtain ⟨g3, h1⟩ := ite_throw_jp h1
  unfold jpA at h1
  cases h1
  have e1 : rx.size = K.n := by simpa using g1
  have e2 : rz.size = K.m := by simpa using g2
  have e3 : K.b.size = K.n + K.m + K.p := by simpa using g3
  refine ⟨rfl, ?_⟩
  rw [Array.size_append, Array.size_append, Array.size_replicate, e1, e2, e3]

/-- an object that differs from `K` in the four work vectors only (same lengths) -/
theorem Upd.of_vecs (st : LinSettings α) (K : KktSolver α) {x b w1 w2 : Array α} (hx : K.x.size = x.size)
    (hb : K.b.size = b.size) (h1 : K.work1.size = w1.size) (h2 : K.work2.size = w2.size) :
    Upd st K { K with x := x, b := b, work1 := w1, work2 := w2 } :=
  { m := rfl, n := rfl, p := rfl, map := rfl, dsigns := rfl, hsz := rfl, km := rfl, kn := rfl,
    kcol := rfl, krow := rfl, nz := AgreeOn.rfl' _ _, ldl := LS.rfl' _ _, dr := fun _ => rfl,
    x := hx, b := hb, work1 := h1, work2 := h2 }

/-- `solve` (single run): only `x`, `work1`, `work2` change; all three end up with the length of `b` -/
theorem solve_vecs {st : LinSettings α} {K1 : KktSolver α} {r : Bool × Array α × Array α × KktSolver α}
    (h : K1.solve st = .ok r) (hw2 : K1.work2.size = K1.b.size) :
    ∃ x w1 w2, r.2.2.2 = { K1 with x := x, work1 := w1, work2 := w2 } ∧ x.size = K1.b.size ∧
      (w1 = K1.work1 ∨ w1.size = K1.b.size) ∧ w2.size = K1.b.size := by
  unfold KktSolver.solve at h
  extract_lets at h
  obtain ⟨g1, h⟩ := ite_throw_jp h
  dsimp +zetaDelta only at h
  obtain ⟨x1, hx1, h⟩ := bind_ok_inv h
  have hx1s := qdldl_solve_size hx1
  have tail : ∀ q : Bool × KktSolver α,
      ((if q.2.x.size < q.2.n + q.2.m then do
          throw (ModelErr.panic "getlhs: range")
          pure (q.1, q.2.getlhs.1, q.2.getlhs.2, q.2)
        else pure (q.1, q.2.getlhs.1, q.2.getlhs.2, q.2)) : MErr (Bool × Array α × Array α × KktSolver α))
          = Except.ok r → r.2.2.2 = q.2 := by
    intro q hq
    split at hq
    · cases hq
    · cases hq
      rfl
  split at h
  · obtain ⟨q, hq, h⟩ := bind_ok_inv h
    rw [tail q h]
    unfold KktSolver.iterativeRefinement at hq
    dsimp only at hq
    obtain ⟨⟨norme, e⟩, hre, hq⟩ := bind_ok_inv hq
    have hes := refineError_size hre
    dsimp only at hq hes
    split at hq
    · cases hq
      exact ⟨x1, e, K1.work2, rfl, hx1s, Or.inr hes, hw2⟩
    · obtain ⟨⟨ok, s⟩, hl, hq⟩ := bind_ok_inv hq
      cases hq
      obtain ⟨s1, s2, s3⟩ := irLoop_sizes _ _ _ _ _ _ _ _ hl hx1s hw2 hes
      exact ⟨s.x, s.e, s.dx, rfl, s1, Or.inr s3, s2⟩
  · obtain ⟨q, hq, h⟩ := bind_ok_inv h
    rw [tail q h]
    cases hq
    exact ⟨x1, K1.work1, K1.work2, rfl, hx1s, Or.inl rfl, hw2⟩

/-- `setrhs` followed by `solve` (single run) -/
theorem setrhs_solve_upd {st : LinSettings α} {K K1 : KktSolver α} {rx rz : Array α}
    {r : Bool × Array α × Array α × KktSolver α} (h1 : K.setrhs rx rz = .ok K1) (h : K1.solve st = .ok r)
    (hI : KInv K) (st' : LinSettings α) : Upd st' K r.2.2.2 ∧ KInv r.2.2.2 := by
  obtain ⟨hK1, hb⟩ := setrhs_inv h1
  have eb : K1.b.size = K.b.size := by rw [hK1]; exact hb
  obtain ⟨x, w1, w2, e, a1, a2, a3⟩ := solve_vecs h (by rw [eb, hK1]; exact hI.work2)
  have a2' : w1.size = K.b.size := by
    rcases a2 with a2 | a2
    · rw [a2, hK1]; exact hI.work1
    · rw [a2, eb]
  rw [eb] at a1 a3
  rw [e, hK1]
  exact ⟨Upd.of_vecs st' K (by rw [a1]; exact hI.x) hb.symm (by rw [a2']; exact hI.work1)
      (by rw [a3]; exact hI.work2),
    ⟨hI.ldl, by show x.size = _; rw [a1, hb], by show w1.size = _; rw [a2', hb],
      by show w2.size = _; rw [a3, hb]⟩⟩
end

end Clarabel.Solver
