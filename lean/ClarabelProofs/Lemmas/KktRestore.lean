/-
  Structural lemmas about the value writes of the KKT model (`ClarabelModel/Kkt.lean`):

  * `updateValuesKKT` : size preservation and read-back;
  * `regularizeAndRestore_restores` : the solver's own KKT values are restored exactly
    (property "refinement_copy_clean");
  * `regularizeAndRestore_factor` : what the LDL engine sees in between;
  * `fillSigns_eq` : the sign vector (property "signs").

  No algebraic law on the scalar type is used: everything holds for `Float` as well.
-/
import ClarabelModel.Kkt

namespace Clarabel.Kkt
open Clarabel

variable {α : Type}

-- ------------------------------------------------------------------------------------
-- A. `updateValuesKKT`

/-- the fold of `setE` over a list of `(index, value)` pairs: size and read-back -/
theorem foldlM_setE_ok {β : Type} (site : String) :
    ∀ (ps : List (Nat × β)) (a a' : Array β),
      ps.foldlM (fun (a : Array β) p => setE a p.1 p.2 site) a = .ok a' →
      a'.size = a.size ∧
      ∀ j, a'[j]? = match ps.reverse.find? (fun p => p.1 == j) with
                     | some p => some p.2
                     | none => a[j]? := by
  intro ps
  induction ps with
  | nil =>
    intro a a' h
    simp only [List.foldlM_nil] at h
    cases h
    simp
  | cons p ps ih =>
    intro a a' h
    rw [List.foldlM_cons] at h
    unfold setE at h
    split at h
    · rename_i hp
      simp only [pure_bind] at h
      obtain ⟨hs, hr⟩ := ih _ _ h
      refine ⟨by simpa using hs, fun j => ?_⟩
      rw [hr j, List.reverse_cons, List.find?_append]
      cases hf : ps.reverse.find? (fun p => p.1 == j) with
      | some q => simp
      | none =>
        by_cases hj : p.1 = j
        · subst hj
          simp [hp]
        · simp [hj]
    · cases h

/-- `_update_values_KKT` preserves the length of `nzval`. -/
theorem updateValuesKKT_size {nz nz' : Array α} {index : Array Nat} {values : Array α}
    (h : updateValuesKKT nz index values = .ok nz') : nz'.size = nz.size :=
  (foldlM_setE_ok _ _ _ _ h).1

/-- read-back: position `j` holds the value of the LAST pair `(i, v)` of
`zip index values` with `i = j` if there is one, else the old value. -/
theorem updateValuesKKT_getElem? {nz nz' : Array α} {index : Array Nat} {values : Array α}
    (h : updateValuesKKT nz index values = .ok nz') (j : Nat) :
    nz'[j]? = match (index.toList.zip values.toList).reverse.find? (fun p => p.1 == j) with
              | some p => some p.2
              | none => nz[j]? :=
  (foldlM_setE_ok _ _ _ _ h).2 j

-- ------------------------------------------------------------------------------------
-- B / C. `regularizeAndRestore`

/-- a successful gather `xs[l]` -/
theorem mapM_getE_ok {β : Type} (a : Array β) (site : String) :
    ∀ (l : List Nat) (r : List β), l.mapM (fun i => getE a i site) = .ok r →
      r.length = l.length ∧
      ∀ k (h1 : k < l.length) (h2 : k < r.length), a[l[k]]? = some r[k] := by
  intro l
  induction l with
  | nil =>
    intro r h
    simp only [List.mapM_nil] at h
    cases h
    simp
  | cons i l ih =>
    intro r h
    rw [List.mapM_cons] at h
    have hg : getE a i site = (match a[i]? with
        | some v => pure v
        | none => throw (.panic site)) := rfl
    rw [hg] at h
    cases hi : a[i]? with
    | none => rw [hi] at h; cases h
    | some v =>
      rw [hi] at h
      simp only [pure_bind] at h
      cases hm : l.mapM (fun i => getE a i site) with
      | error e => rw [hm] at h; cases h
      | ok r' =>
        rw [hm] at h
        cases h
        obtain ⟨hl, hr⟩ := ih _ hm
        refine ⟨by simp [hl], fun k h1 h2 => ?_⟩
        cases k with
        | zero => simpa using hi
        | succ k => simpa using hr k (by simpa using h1) (by simpa using h2)

theorem except_bind_eq_ok {ε β γ : Type} {x : Except ε β} {f : β → Except ε γ} {c : γ}
    (h : (x >>= f) = .ok c) : ∃ b, x = .ok b ∧ f b = .ok c := by
  cases x with
  | error e => cases h
  | ok b => exact ⟨b, rfl, h⟩

theorem zip_find_some {β : Type} {l : List Nat} {vs : List β} {j : Nat} {q : Nat × β}
    (h : (l.zip vs).reverse.find? (fun p => p.1 == j) = some q) :
    ∃ k, ∃ (h1 : k < l.length) (h2 : k < vs.length), l[k] = j ∧ vs[k] = q.2 := by
  have hmem := List.mem_reverse.1 (List.mem_of_find?_eq_some h)
  have hq : q.1 = j := by simpa using List.find?_some h
  obtain ⟨k, hk, hkq⟩ := List.mem_iff_getElem.1 hmem
  have hk' : k < l.length ∧ k < vs.length := by
    rw [List.length_zip] at hk; omega
  refine ⟨k, hk'.1, hk'.2, ?_, ?_⟩
  · rw [← hq, ← hkq, List.getElem_zip]
  · rw [← hkq, List.getElem_zip]

theorem zip_find_none_of_not_mem {β : Type} {l : List Nat} {vs : List β} {j : Nat}
    (h : j ∉ l) : (l.zip vs).reverse.find? (fun p => p.1 == j) = none := by
  rw [List.find?_eq_none]
  intro x hx hxj
  have hx' := List.mem_reverse.1 hx
  have : x.1 ∈ l := (List.of_mem_zip (a := x.1) (b := x.2) hx').1
  have hxj' : x.1 = j := by simpa using hxj
  exact h (hxj' ▸ this)

theorem not_mem_of_zip_find_none {β : Type} {l : List Nat} {vs : List β} {j : Nat}
    (hlen : l.length ≤ vs.length)
    (h : (l.zip vs).reverse.find? (fun p => p.1 == j) = none) : j ∉ l := by
  rw [List.find?_eq_none] at h
  intro hj
  obtain ⟨k, hk, hkj⟩ := List.mem_iff_getElem.1 hj
  have hk2 : k < vs.length := by omega
  have hz : k < (l.zip vs).length := by simp [List.length_zip]; omega
  have hmem : (l.zip vs)[k] ∈ (l.zip vs).reverse := List.mem_reverse.2 (List.getElem_mem hz)
  have := h _ hmem
  simp [List.getElem_zip, hkj] at this

section values
variable [OfNat α 0] [Add α] [Sub α] [Mul α] [FloatLike α]

/-- the shifted diagonal (`work2`) -/
def shiftedDiag (diagKkt : Array α) (dsigns : Array Int) (eps : α) : Array α :=
  ((diagKkt.toList.zipIdx).map (fun p =>
      match dsigns[p.2]? with
      | some s => if s == 1 then p.1 + eps else p.1 - eps
      | none => p.1)).toArray

/-- inversion of a successful `regularizeAndRestore` with `enable = true` -/
theorem regularizeAndRestore_inv {nz : Array α} {diagFull : Array Nat} {dsigns : Array Int}
    {c p : α} {r : Regularized α} {nzF : Array α}
    (h : regularizeAndRestore nz diagFull dsigns true c p = .ok (r, nzF)) :
    ∃ dk : List α,
      diagFull.toList.mapM (fun i => getE nz i "KKT.nzval[diag_full]") = .ok dk ∧
      r.diagKkt = dk.toArray ∧
      r.eps = computeRegularizer dk.toArray c p ∧
      r.diagShifted = shiftedDiag dk.toArray dsigns r.eps ∧
      updateValuesKKT nz diagFull r.diagShifted = .ok nzF ∧
      updateValuesKKT nzF diagFull dk.toArray = .ok r.nzval := by
  unfold regularizeAndRestore at h
  simp only [Bool.not_true, Bool.false_eq_true, ↓reduceIte] at h
  obtain ⟨dk, hdk, h⟩ := except_bind_eq_ok h
  obtain ⟨nzF', hF, h⟩ := except_bind_eq_ok h
  obtain ⟨nzv, hv, h⟩ := except_bind_eq_ok h
  cases h
  exact ⟨dk, hdk, rfl, rfl, rfl, hF, hv⟩

/-- **refinement_copy_clean**: after `regularize_and_refactor` the solver's own KKT values are
exactly what they were before (for ALL inputs, no `Nodup` assumption). -/
theorem regularizeAndRestore_restores {nz : Array α} {diagFull : Array Nat} {dsigns : Array Int}
    {enable : Bool} {c p : α} {r : Regularized α} {nzF : Array α}
    (h : regularizeAndRestore nz diagFull dsigns enable c p = .ok (r, nzF)) :
    r.nzval = nz := by
  cases enable with
  | false =>
    unfold regularizeAndRestore at h
    simp only [Bool.not_false, ↓reduceIte] at h
    cases h
    rfl
  | true =>
    obtain ⟨dk, hdk, hK, he, hS, hF, hv⟩ := regularizeAndRestore_inv h
    obtain ⟨hlen, hget⟩ := mapM_getE_ok _ _ _ _ hdk
    apply Array.ext_getElem?
    intro j
    rw [updateValuesKKT_getElem? hv j]
    cases hf : (diagFull.toList.zip dk.toArray.toList).reverse.find? (fun p => p.1 == j) with
    | some q =>
      obtain ⟨k, h1, h2, hkj, hkq⟩ := zip_find_some hf
      have := hget k h1 (by simpa using h2)
      simp only at hkq
      rw [hkj] at this
      rw [this]
      simp [← hkq]
    | none =>
      have hj : j ∉ diagFull.toList := not_mem_of_zip_find_none (by simp [hlen]) hf
      simp only
      rw [updateValuesKKT_getElem? hF j, zip_find_none_of_not_mem hj]

omit [OfNat α 0] [Mul α] [FloatLike α] in
theorem shiftedDiag_size (dk : Array α) (dsigns : Array Int) (eps : α) :
    (shiftedDiag dk dsigns eps).size = dk.size := by
  simp [shiftedDiag]

omit [OfNat α 0] [Mul α] [FloatLike α] in
theorem shiftedDiag_getElem (dk : Array α) (dsigns : Array Int) (eps : α) (k : Nat)
    (hk : k < (shiftedDiag dk dsigns eps).toList.length) (hk' : k < dk.size) :
    (shiftedDiag dk dsigns eps).toList[k] =
      (match dsigns[k]? with
       | some s => if s == 1 then dk[k] + eps else dk[k] - eps
       | none => dk[k]) := by
  simp [shiftedDiag, List.getElem_zipIdx]

/-- What the LDL engine sees between the two writes — the part that needs no `Nodup`:
sizes, the untouched positions, the gathered diagonal `work1` and the regulariser. -/
theorem regularizeAndRestore_factor_basic {nz : Array α} {diagFull : Array Nat}
    {dsigns : Array Int} {c p : α} {r : Regularized α} {nzF : Array α}
    (h : regularizeAndRestore nz diagFull dsigns true c p = .ok (r, nzF)) :
    nzF.size = nz.size ∧
    (∀ j, j ∉ diagFull.toList → nzF[j]? = nz[j]?) ∧
    r.diagKkt.size = diagFull.size ∧
    (∀ k (hk : k < diagFull.size), r.diagKkt[k]? = nz[diagFull[k]]?) ∧
    r.eps = computeRegularizer r.diagKkt c p ∧
    r.diagShifted = shiftedDiag r.diagKkt dsigns r.eps := by
  obtain ⟨dk, hdk, hK, he, hS, hF, hv⟩ := regularizeAndRestore_inv h
  obtain ⟨hlen, hget⟩ := mapM_getE_ok _ _ _ _ hdk
  refine ⟨updateValuesKKT_size hF, fun j hj => ?_, by simp [hK, hlen], fun k hk => ?_,
    by rw [hK]; exact he, by rw [hK]; exact hS⟩
  · rw [updateValuesKKT_getElem? hF j, zip_find_none_of_not_mem hj]
  · have hk' : k < dk.length := by simpa [hlen] using hk
    have := hget k (by simpa using hk) hk'
    simp only [Array.getElem_toList] at this
    rw [this, hK]
    simp [hk']

/-- What the LDL engine sees between the two writes (`enable = true`, the diagonal index
`diag_full` has no repetition): off the diagonal positions nothing changes, the `k`-th
diagonal position holds `d ± ε` according to the sign `dsigns[k]`. -/
theorem regularizeAndRestore_factor {nz : Array α} {diagFull : Array Nat}
    {dsigns : Array Int} {c p : α} {r : Regularized α} {nzF : Array α}
    (h : regularizeAndRestore nz diagFull dsigns true c p = .ok (r, nzF))
    (hnd : diagFull.toList.Nodup) :
    nzF.size = nz.size ∧
    (∀ j, j ∉ diagFull.toList → nzF[j]? = nz[j]?) ∧
    (∀ k (hk : k < diagFull.size), ∃ d, nz[diagFull[k]]? = some d ∧
        nzF[diagFull[k]]? = some (match dsigns[k]? with
          | some s => if s == 1 then d + r.eps else d - r.eps
          | none => d)) ∧
    r.diagKkt.size = diagFull.size ∧
    (∀ k (hk : k < diagFull.size), r.diagKkt[k]? = nz[diagFull[k]]?) ∧
    r.eps = computeRegularizer r.diagKkt c p := by
  obtain ⟨h1, h2, h3, h4, h5, h6⟩ := regularizeAndRestore_factor_basic h
  refine ⟨h1, h2, fun k hk => ?_, h3, h4, h5⟩
  obtain ⟨dk, hdk, hK, he, hS, hF, hv⟩ := regularizeAndRestore_inv h
  obtain ⟨hlen, hget⟩ := mapM_getE_ok _ _ _ _ hdk
  have hk' : k < dk.length := by simpa [hlen] using hk
  have hnz := hget k (by simpa using hk) hk'
  simp only [Array.getElem_toList] at hnz
  refine ⟨dk[k], hnz, ?_⟩
  have hSlen : r.diagShifted.toList.length = dk.length := by
    rw [hS]; simp [shiftedDiag_size]
  rw [updateValuesKKT_getElem? hF]
  cases hf : (diagFull.toList.zip r.diagShifted.toList).reverse.find?
      (fun p => p.1 == diagFull[k]) with
  | none =>
    exact absurd (by simp) (not_mem_of_zip_find_none (by simp only [hSlen, hlen]; omega) hf)
  | some q =>
    obtain ⟨k', hk1, hk2, hkj, hkq⟩ := zip_find_some hf
    have hkk : k' = k := by
      have := (List.getElem_inj (h₀ := hk1) (h₁ := by simpa using hk) hnd).1
        (by simpa using hkj)
      exact this
    subst hkk
    simp only [← hkq]
    congr 1
    have := shiftedDiag_getElem dk.toArray dsigns r.eps k' (by rw [← hS]; exact hk2)
      (by simpa using hk')
    simp only [hS]
    rw [this]
    simp

end values

-- ------------------------------------------------------------------------------------
-- D. `fillSigns`

theorem SparseMap.dsigns_length (mp : SparseMap) : mp.dsigns.length = mp.pdim := by
  cases mp <;> rfl

theorem foldl_pdim (l : List SparseMap) (acc : Nat) :
    l.foldl (fun acc mp => acc + mp.pdim) acc
      = acc + ((l.map SparseMap.dsigns).flatten).length := by
  induction l generalizing acc with
  | nil => simp
  | cons mp l ih =>
    simp only [List.foldl_cons, ih, List.map_cons, List.flatten_cons, List.length_append,
      SparseMap.dsigns_length]
    omega

theorem pdimAll_eq (maps : Array SparseMap) :
    pdimAll maps = ((maps.toList.map SparseMap.dsigns).flatten).length := by
  unfold pdimAll
  rw [foldl_pdim]
  omega

/-- overwrite a block in the middle of an array -/
theorem foldl_set_block (p : Nat) : ∀ (ds : List Int) (k : Nat) (X Y Z : List Int),
    Y.length = ds.length → X.length = p + k →
    (ds.zipIdx k).foldl (fun (s : Array Int) q => s.set! (p + q.2) q.1) (X ++ Y ++ Z).toArray
      = (X ++ ds ++ Z).toArray := by
  intro ds
  induction ds with
  | nil =>
    intro k X Y Z hY hX
    have : Y = [] := List.length_eq_zero_iff.1 hY
    simp [this]
  | cons d ds ih =>
    intro k X Y Z hY hX
    cases Y with
    | nil => simp at hY
    | cons y Y =>
      rw [List.zipIdx_cons, List.foldl_cons]
      have h1 : (X ++ y :: Y ++ Z).toArray.set! (p + k) d = ((X ++ [d]) ++ Y ++ Z).toArray := by
        simp [← hX]
      simp only at h1 ⊢
      rw [h1, ih (k + 1) (X ++ [d]) Y Z (by simpa using hY) (by simp [hX]; omega)]
      simp

/-- negate a block of ones in the middle of an array -/
theorem foldl_negate_block : ∀ (m n : Nat) (X Z : List Int), X.length = n →
    (List.range m).foldl (fun (s : Array Int) i => s.set! (n + i) (-(s.getD (n + i) 0)))
        (X ++ List.replicate m 1 ++ Z).toArray
      = (X ++ List.replicate m (-1) ++ Z).toArray := by
  intro m
  induction m with
  | zero => intro n X Z _; simp
  | succ m ih =>
    intro n X Z hX
    rw [List.range_succ_eq_map, List.foldl_cons, List.foldl_map]
    have h1 : (X ++ List.replicate (m + 1) 1 ++ Z).toArray.set! (n + 0)
          (-((X ++ List.replicate (m + 1) 1 ++ Z).toArray.getD (n + 0) 0))
        = ((X ++ [-1]) ++ List.replicate m 1 ++ Z).toArray := by
      simp [← hX, List.replicate_succ]
    have h2 : (fun (s : Array Int) (i : Nat) =>
          s.set! (n + i.succ) (-(s.getD (n + i.succ) 0)))
        = (fun (s : Array Int) (i : Nat) => s.set! (n + 1 + i) (-(s.getD (n + 1 + i) 0))) := by
      funext s i
      rw [show n + i.succ = n + 1 + i by omega]
    rw [h1, h2, ih (n + 1) (X ++ [-1]) Z (by simp [hX])]
    simp [List.replicate_succ]

/-- the fold of `_fill_signs` over the sparse maps never panics and writes the sign blocks
one after the other -/
theorem foldlM_fillSigns : ∀ (maps : List SparseMap) (X Z : List Int) (p : Nat),
    X.length = p →
    ∃ p', maps.foldlM (fun (st : Array Int × Nat) mp => do
        let (s, p) := st
        if p + mp.pdim > s.size then throw (ModelErr.panic "_fill_signs: range")
        let s := (mp.dsigns.zipIdx).foldl (fun (s : Array Int) q => s.set! (p + q.2) q.1) s
        pure (s, p + mp.pdim))
        ((X ++ List.replicate ((maps.map SparseMap.dsigns).flatten).length 1 ++ Z).toArray, p)
      = (.ok ((X ++ (maps.map SparseMap.dsigns).flatten ++ Z).toArray, p') : MErr _) := by
  intro maps
  induction maps with
  | nil => intro X Z p _; exact ⟨p, by simp [pure, Except.pure]⟩
  | cons mp maps ih =>
    intro X Z p hX
    obtain ⟨p', hp'⟩ := ih (X ++ mp.dsigns) Z (p + mp.pdim)
      (by simp [hX, SparseMap.dsigns_length])
    refine ⟨p', ?_⟩
    rw [List.foldlM_cons]
    have hsz : ¬ (p + mp.pdim > (X ++ List.replicate
        (((mp :: maps).map SparseMap.dsigns).flatten).length 1 ++ Z).toArray.size) := by
      simp [hX, SparseMap.dsigns_length]; omega
    have hblk := foldl_set_block p mp.dsigns 0 X (List.replicate mp.dsigns.length 1)
      (List.replicate ((maps.map SparseMap.dsigns).flatten).length 1 ++ Z) (by simp) (by simpa using hX)
    have hsplit : X ++ List.replicate (((mp :: maps).map SparseMap.dsigns).flatten).length 1 ++ Z
        = X ++ List.replicate mp.dsigns.length 1
            ++ (List.replicate ((maps.map SparseMap.dsigns).flatten).length 1 ++ Z) := by
      rw [List.map_cons, List.flatten_cons, List.length_append,
        ← List.replicate_append_replicate]
      simp only [List.append_assoc]
    simp only [hsz, ↓reduceIte, pure_bind]
    rw [hsplit, hblk]
    simpa [List.append_assoc] using hp'

/-- **signs**: `_fill_signs` never panics and the sign vector is `(+1)ⁿ (−1)ᵐ` followed by
`[-1,+1]` per SOC expansion and `[-1,-1,+1]` per generalised-power expansion, in order. -/
theorem fillSigns_eq (m n : Nat) (maps : Array SparseMap) :
    fillSigns m n maps = .ok ((List.replicate n (1 : Int) ++ List.replicate m (-1)
      ++ (maps.toList.map SparseMap.dsigns).flatten).toArray) := by
  unfold fillSigns
  have h0 : (Array.replicate (n + m + pdimAll maps) (1 : Int))
      = (List.replicate n (1 : Int) ++ List.replicate m 1
          ++ List.replicate ((maps.toList.map SparseMap.dsigns).flatten).length 1).toArray := by
    rw [pdimAll_eq]
    apply Array.ext'
    simp
  have h1 := foldl_negate_block m n (List.replicate n (1 : Int))
    (List.replicate ((maps.toList.map SparseMap.dsigns).flatten).length 1) (by simp)
  obtain ⟨p', h2⟩ := foldlM_fillSigns maps.toList
    (List.replicate n (1 : Int) ++ List.replicate m (-1)) [] (m + n) (by simp; omega)
  simp only [List.append_nil] at h2
  simp only [h0, h1, h2]
  rfl

-- non-vacuity / sanity
example : fillSigns 2 1 #[.soc #[0,0,0,0,0] #[0,0,0,0,0] #[0,0], .genpow #[0,0,0] #[0,0] #[0] #[0,0,0]]
    = .ok #[1, -1, -1, -1, 1, -1, -1, 1] := by
  rw [fillSigns_eq]; rfl

example : updateValuesKKT (#[1, 2, 3] : Array Nat) #[0, 2, 0] #[7, 8, 9] = .ok #[9, 2, 8] := by
  rfl

/-- a toy scalar instance, only to show that the hypotheses of the `regularizeAndRestore`
theorems are satisfiable (success, `Nodup`) -/
@[reducible] private def toyFloatLike : FloatLike Int where
  sqrt := id
  exp := id
  log := id
  powf := fun a _ => a
  fmax := max
  fmin := min
  fabs := fun a => (a.natAbs : Int)
  isNaN := fun _ => false
  isFinite := fun _ => true
  eps := 0
  ofNat := Int.ofNat

example :
    (match @regularizeAndRestore Int _ _ _ _ toyFloatLike #[10, 20, -30, 40] #[0, 2] #[1, -1]
        true 1 2 with
     | .ok (r, nzF) => some (r.nzval, nzF, r.eps, r.diagKkt, r.diagShifted)
     | .error _ => none)
      = some (#[10, 20, -30, 40], #[71, 20, -91, 40], 61, #[10, -30], #[71, -91]) := by
  decide

end Clarabel.Kkt
