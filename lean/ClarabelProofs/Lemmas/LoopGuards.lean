/-
  Construction guards of `DefaultSolver::new` (`ClarabelModel/NewGuards.lean`): which panics can
  fire, in which order, and on which inputs exactly.
-/
import ClarabelModel.NewGuards
import ClarabelModel.Solver.Solve
import ClarabelProofs.Props.C09

namespace Clarabel.NewGuards
open Clarabel Clarabel.Cones

variable {α : Type}
set_option linter.unusedSectionVars false

/-! ### `new_collapsed` and the cones whose constructor asserts -/

/-- a generalized power cone survives `new_collapsed` exactly when it owns rows -/
theorem mem_collapseGo_genpow (al : Array α) (d : Nat) (cs : List (ConeT α)) :
    ∀ acc, ConeT.genpow al d ∈ collapseGo acc cs ↔ (ConeT.genpow al d ∈ cs ∧ al.size + d ≠ 0) := by
  induction cs with
  | nil =>
    intro acc
    simp only [collapseGo, flush]
    split <;> simp
  | cons c rest ih =>
    intro acc
    rw [collapseGo]
    split
    · rename_i h0
      rw [ih]
      constructor
      · rintro ⟨h1, h2⟩; exact ⟨List.mem_cons_of_mem _ h1, h2⟩
      · rintro ⟨h1, h2⟩
        rcases List.mem_cons.mp h1 with h | h
        · subst h; exact absurd h0 h2
        · exact ⟨h, h2⟩
    · rename_i h0
      split
      · rename_i dd hd
        rw [ih]
        constructor
        · rintro ⟨h1, h2⟩; exact ⟨List.mem_cons_of_mem _ h1, h2⟩
        · rintro ⟨h1, h2⟩
          rcases List.mem_cons.mp h1 with h | h
          · subst h; simp [ConeT.collapsibleDim?] at hd
          · exact ⟨h, h2⟩
      · rename_i hd
        simp only [List.mem_append, List.mem_cons, ih, flush]
        constructor
        · rintro (h | h | ⟨h1, h2⟩)
          · split at h <;> simp at h
          · subst h; exact ⟨Or.inl rfl, h0⟩
          · exact ⟨Or.inr h1, h2⟩
        · rintro ⟨h1 | h1, h2⟩
          · exact Or.inr (Or.inl h1)
          · exact Or.inr (Or.inr ⟨h1, h2⟩)

theorem mem_newCollapsed_genpow (al : Array α) (d : Nat) (cs : List (ConeT α)) :
    ConeT.genpow al d ∈ newCollapsed cs ↔ (ConeT.genpow al d ∈ cs ∧ al.size + d ≠ 0) :=
  mem_collapseGo_genpow al d cs 0

/-- presolve (`reduce_cones`) neither removes nor creates a generalized power cone -/
theorem mem_reduceConesWith_genpow (al : Array α) (d : Nat) (cs : List (ConeT α)) :
    ∀ keep, ConeT.genpow al d ∈ Presolve.reduceConesWith keep cs ↔ ConeT.genpow al d ∈ cs := by
  induction cs with
  | nil => intro keep; simp [Presolve.reduceConesWith]
  | cons c rest ih =>
    intro keep
    cases c with
    | nonneg n =>
      simp only [Presolve.reduceConesWith]
      split <;> simp [ih]
    | _ => simp [Presolve.reduceConesWith, ih]

section
variable [Add α] [Sub α] [Mul α] [Div α] [OfNat α 0] [OfNat α 1] [OfScientific α]
  [LT α] [DecidableLT α] [FloatLike α]

/-! ### the guard functions -/

theorem coneGuard_ok_iff (c : ConeT α) :
    coneGuard c = .ok () ↔
      (∀ n, c = .soc n → 2 ≤ n) ∧ (∀ al d, c = .genpow al d → ∃ ψ, GenPow.new al = .ok ψ) := by
  cases c with
  | soc n =>
    simp only [coneGuard]
    constructor
    · intro h
      refine ⟨fun m hm => ?_, fun _ _ h' => nomatch h'⟩
      cases hm
      split at h
      · cases h
      · omega
    · rintro ⟨h, _⟩
      have := h n rfl
      rw [if_neg (by omega)]; rfl
  | genpow al d =>
    simp only [coneGuard]
    constructor
    · intro h
      refine ⟨fun _ h' => (nomatch h'), fun al' d' h' => ?_⟩
      cases h'
      cases hg : GenPow.new al with
      | ok ψ => exact ⟨ψ, rfl⟩
      | error e => rw [hg] at h; cases h
    · rintro ⟨_, h⟩
      obtain ⟨ψ, hψ⟩ := h al d rfl
      rw [hψ]; rfl
  | zero n => exact ⟨fun _ => ⟨fun _ h => (nomatch h), fun _ _ h => (nomatch h)⟩, fun _ => rfl⟩
  | nonneg n => exact ⟨fun _ => ⟨fun _ h => (nomatch h), fun _ _ h => (nomatch h)⟩, fun _ => rfl⟩
  | exp => exact ⟨fun _ => ⟨fun _ h => (nomatch h), fun _ _ h => (nomatch h)⟩, fun _ => rfl⟩
  | pow a => exact ⟨fun _ => ⟨fun _ h => (nomatch h), fun _ _ h => (nomatch h)⟩, fun _ => rfl⟩
  | psd n => exact ⟨fun _ => ⟨fun _ h => (nomatch h), fun _ _ h => (nomatch h)⟩, fun _ => rfl⟩

/-- the only panics a cone constructor raises -/
theorem coneGuard_error (c : ConeT α) (e : ModelErr) (h : coneGuard c = .error e) :
    (e = .panic "assert dim >= 2" ∧ ∃ n, c = .soc n ∧ n < 2)
      ∨ ((e = .panic "assert: powers > 0" ∨ e = .panic "assert: powers sum to 1")
          ∧ ∃ al d, c = .genpow al d ∧ GenPow.new al = .error e) := by
  cases c with
  | soc n =>
    simp only [coneGuard] at h
    split at h
    · cases h; exact Or.inl ⟨rfl, n, rfl, by assumption⟩
    · cases h
  | genpow al d =>
    simp only [coneGuard] at h
    cases hg : GenPow.new al with
    | ok ψ => rw [hg] at h; cases h
    | error e' =>
      rw [hg] at h
      cases h
      refine Or.inr ⟨?_, al, d, rfl, hg⟩
      unfold GenPow.new at hg
      split at hg
      · cases hg; exact Or.inl rfl
      · split at hg
        · cases hg; exact Or.inr rfl
        · cases hg
  | zero n => cases h
  | nonneg n => cases h
  | exp => cases h
  | pow a => cases h
  | psd n => cases h

theorem coneGuards_ok_iff (l : List (ConeT α)) :
    coneGuards l = .ok () ↔ ∀ c ∈ l, coneGuard c = .ok () := by
  induction l with
  | nil => simp [coneGuards, pure, Except.pure]
  | cons c rest ih =>
    simp only [coneGuards, List.mem_cons, forall_eq_or_imp]
    cases hc : coneGuard c with
    | ok u => simp [bind, Except.bind, ih]
    | error e => simp [bind, Except.bind]

/-- the reported panic is the one of the FIRST cone whose constructor asserts -/
theorem coneGuards_error (l : List (ConeT α)) (e : ModelErr) (h : coneGuards l = .error e) :
    ∃ pre c post, l = pre ++ c :: post ∧ (∀ d ∈ pre, coneGuard d = .ok ()) ∧ coneGuard c = .error e := by
  induction l with
  | nil => simp [coneGuards, pure, Except.pure] at h
  | cons c rest ih =>
    simp only [coneGuards] at h
    cases hc : coneGuard c with
    | ok u =>
      rw [hc] at h
      obtain ⟨pre, c', post, h1, h2, h3⟩ := ih h
      refine ⟨c :: pre, c', post, by rw [h1]; rfl, ?_, h3⟩
      intro d hd
      rcases List.mem_cons.mp hd with rfl | hd
      · exact hc
      · exact h2 d hd
    | error e' =>
      rw [hc] at h
      cases h
      exact ⟨[], c, rest, rfl, by simp, hc⟩

/-- `new_collapsed` leaves no second-order cone whose constructor could assert, so the cone guards
of the internal list are exactly the generalized-power-cone assertions of the cones that own rows -/
theorem coneGuards_newCollapsed_ok_iff (cones : List (ConeT α)) :
    coneGuards (newCollapsed cones) = .ok () ↔
      ∀ al d, ConeT.genpow al d ∈ cones → al.size + d ≠ 0 → ∃ ψ, GenPow.new al = .ok ψ := by
  rw [coneGuards_ok_iff]
  constructor
  · intro h al d hm hne
    have := h _ ((mem_newCollapsed_genpow al d cones).mpr ⟨hm, hne⟩)
    exact ((coneGuard_ok_iff _).mp this).2 al d rfl
  · intro h c hc
    rw [coneGuard_ok_iff]
    refine ⟨fun n hn => ?_, fun al d hg => ?_⟩
    · subst hn; exact (C09.collapse_soc_dim cones).1 n hc
    · subst hg
      obtain ⟨h1, h2⟩ := (mem_newCollapsed_genpow al d cones).mp hc
      exact h al d h1 h2

/-- [S] `new_guards_ok_iff`: `DefaultSolver::new` gets past all its documented panics exactly when
the five dimension equalities hold and every generalized power cone that owns rows passes the two
assertions of `GenPowerConeData::new`. -/
theorem newGuards_ok_iff (Pm Pn qlen Am An blen : Nat) (cones : List (ConeT α)) :
    newGuards Pm Pn qlen Am An blen cones = .ok () ↔
      (blen = Am ∧ (cones.map ConeT.nvars).foldl (· + ·) 0 = blen ∧ qlen = An ∧ qlen = Pn ∧ Pm = Pn)
      ∧ ∀ al d, ConeT.genpow al d ∈ cones → al.size + d ≠ 0 → ∃ ψ, GenPow.new al = .ok ψ := by
  unfold newGuards
  have hd : ∀ (x : MErr Unit), x = .ok () ∨ ∃ e, x = .error e := by
    intro x; cases x with
    | ok u => exact Or.inl rfl
    | error e => exact Or.inr ⟨e, rfl⟩
  have hcd : Loop.checkDimensions Pm Pn qlen Am An blen (cones.map ConeT.nvars) = .ok () ↔
      (blen = Am ∧ (cones.map ConeT.nvars).foldl (· + ·) 0 = blen ∧ qlen = An ∧ qlen = Pn ∧ Pm = Pn) := by
    unfold Loop.checkDimensions
    simp only
    constructor
    · intro h
      split at h
      · cases h
      · split at h
        · cases h
        · split at h
          · cases h
          · split at h
            · cases h
            · split at h
              · cases h
              · simp_all
    · rintro ⟨h1, h2, h3, h4, h5⟩
      subst h1 h3 h5
      subst h4
      simp [h2]
      rfl
  rcases hd (Loop.checkDimensions Pm Pn qlen Am An blen (cones.map ConeT.nvars)) with h | ⟨e, h⟩
  · rw [h]
    show coneGuards (newCollapsed cones) = .ok () ↔ _
    rw [coneGuards_newCollapsed_ok_iff]
    exact ⟨fun hg => ⟨hcd.mp h, hg⟩, fun hg => hg.2⟩
  · rw [h]
    constructor
    · intro h'; cases h'
    · rintro ⟨h1, _⟩
      rw [hcd.mpr h1] at h; cases h

/-- the five panics of `_check_dimensions` -/
theorem checkDimensions_error (Pm Pn qlen Am An blen : Nat) (ns : List Nat) (e : ModelErr)
    (h : Loop.checkDimensions Pm Pn qlen Am An blen ns = .error e) :
    (e = .panic "assert:A-and-b-incompatible-dimensions" ∧ blen ≠ Am)
    ∨ (e = .panic "assert:constraint-dimensions-inconsistent-with-size-of-cones" ∧ blen = Am
        ∧ ns.foldl (· + ·) 0 ≠ blen)
    ∨ (e = .panic "assert:A-and-q-incompatible-dimensions" ∧ blen = Am ∧ ns.foldl (· + ·) 0 = blen
        ∧ qlen ≠ An)
    ∨ (e = .panic "assert:P-and-q-incompatible-dimensions" ∧ blen = Am ∧ ns.foldl (· + ·) 0 = blen
        ∧ qlen = An ∧ qlen ≠ Pn)
    ∨ (e = .panic "assert:P-not-square" ∧ blen = Am ∧ ns.foldl (· + ·) 0 = blen ∧ qlen = An
        ∧ qlen = Pn ∧ Pm ≠ Pn) := by
  unfold Loop.checkDimensions at h
  simp only at h
  split at h
  · cases h; exact Or.inl ⟨rfl, by assumption⟩
  · split at h
    · cases h; exact Or.inr (Or.inl ⟨rfl, by simp_all, by assumption⟩)
    · split at h
      · cases h; exact Or.inr (Or.inr (Or.inl ⟨rfl, by simp_all, by simp_all, by assumption⟩))
      · split at h
        · cases h
          exact Or.inr (Or.inr (Or.inr (Or.inl ⟨rfl, by simp_all, by simp_all, by simp_all, by assumption⟩)))
        · split at h
          · cases h
            exact Or.inr (Or.inr (Or.inr (Or.inr ⟨rfl, by simp_all, by simp_all, by simp_all, by simp_all,
              by assumption⟩)))
          · cases h

/-- [S] `new_guards_error_list`: the exact list of construction panics.  A failure of the guards
is one of the five dimension panics (the first violated equality, in the documented order) or — the
dimensions being consistent — one of the two assertions of `GenPowerConeData::new`, raised for the
first generalized power cone of the (collapsed) list that violates one.  The assertion
`dim >= 2` of `SecondOrderCone::new` is not in the list: it is unreachable from `new`. -/
theorem newGuards_error (Pm Pn qlen Am An blen : Nat) (cones : List (ConeT α)) (e : ModelErr)
    (h : newGuards Pm Pn qlen Am An blen cones = .error e) :
    Loop.checkDimensions Pm Pn qlen Am An blen (cones.map ConeT.nvars) = .error e
    ∨ (Loop.checkDimensions Pm Pn qlen Am An blen (cones.map ConeT.nvars) = .ok ()
        ∧ (e = .panic "assert: powers > 0" ∨ e = .panic "assert: powers sum to 1")
        ∧ ∃ pre al d post, newCollapsed cones = pre ++ ConeT.genpow al d :: post
            ∧ (∀ c ∈ pre, coneGuard c = .ok ()) ∧ GenPow.new al = .error e
            ∧ ConeT.genpow al d ∈ cones ∧ al.size + d ≠ 0) := by
  unfold newGuards at h
  cases hc : Loop.checkDimensions Pm Pn qlen Am An blen (cones.map ConeT.nvars) with
  | error e' =>
    rw [hc] at h; cases h; exact Or.inl rfl
  | ok u =>
    rw [hc] at h
    refine Or.inr ⟨rfl, ?_⟩
    obtain ⟨pre, c, post, h1, h2, h3⟩ := coneGuards_error _ e h
    rcases coneGuard_error c e h3 with ⟨_, n, hn, hlt⟩ | ⟨he, al, d, hcg, hnew⟩
    · subst hn
      have : ConeT.soc n ∈ newCollapsed cones := by rw [h1]; simp
      have := (C09.collapse_soc_dim cones).1 n this
      omega
    · subst hcg
      have hm : ConeT.genpow al d ∈ newCollapsed cones := by rw [h1]; simp
      obtain ⟨hm1, hm2⟩ := (mem_newCollapsed_genpow al d cones).mp hm
      exact ⟨he, pre, al, d, post, h1, h2, hnew, hm1, hm2⟩

end

/-! ### the composed model: `Solver.new` runs no stage before the guards have passed -/
section solver
open Clarabel.Solver
variable [Add α] [Sub α] [Mul α] [Div α] [Neg α] [OfNat α 0] [OfNat α 1] [OfNat α 2]
  [OfNat α 100] [OfNat α 1000] [LT α] [DecidableLT α] [LE α] [DecidableLE α] [BEq α] [FloatLike α]

/-- a failing dimension guard is the result of `new`: no internal stage is evaluated -/
theorem solverNew_of_checkDimensions_error (P : Csc α) (q : Array α) (A : Csc α) (b : Array α)
    (cones : List (ConeT α)) (st : Settings α) (perm : Array Nat) (e : ModelErr)
    (h : Loop.checkDimensions P.m P.n q.size A.m A.n b.size (cones.map ConeT.nvars) = .error e) :
    Solver.new P q A b cones st perm = .error e := by
  unfold Solver.new
  rw [h]; rfl

/-- a solver object exists only if the dimension guard passed -/
theorem checkDimensions_of_solverNew {P : Csc α} {q : Array α} {A : Csc α} {b : Array α}
    {cones : List (ConeT α)} {st : Settings α} {perm : Array Nat} {S : Solver α}
    (h : Solver.new P q A b cones st perm = .ok S) :
    Loop.checkDimensions P.m P.n q.size A.m A.n b.size (cones.map ConeT.nvars) = .ok ()
      ∧ ∃ S0, SolverSt.new P q A b cones st perm = .ok S0 ∧ S.st = S0 := by
  unfold Solver.new at h
  cases hc : Loop.checkDimensions P.m P.n q.size A.m A.n b.size (cones.map ConeT.nvars) with
  | error e => rw [hc] at h; cases h
  | ok u =>
    rw [hc] at h
    refine ⟨rfl, ?_⟩
    cases hs : SolverSt.new P q A b cones st perm with
    | error e => rw [hs] at h; cases h
    | ok S0 =>
      rw [hs] at h
      cases h
      exact ⟨S0, rfl, rfl⟩

end solver

end Clarabel.NewGuards
