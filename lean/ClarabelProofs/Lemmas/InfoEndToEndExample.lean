/-
  Non-vacuity of the end-to-end theorems of C01/C02 (round 3): a concrete instance on which
  ALL hypotheses of `C01.solved_certifies_user_problem` hold simultaneously — user data,
  the model's own `equilibrate`, `Residuals.update`, `Info.update`, and a `Solved` verdict.
  (The 1×1 problem with no stored entries, `q = b = 0`, cone `ℝ₊`, the iterate `0`, `τ = 1`.)
  Also: `Info.update` is total on well-shaped input.
-/
import ClarabelProofs.Lemmas.InfoEndToEnd
import Mathlib.Tactic.NormNum

set_option linter.unusedSectionVars false

namespace Clarabel.InfoUser
open Clarabel Clarabel.Dense Finset Residuals Info

/-- `Info.update` does not panic when the lengths agree -/
theorem info_update_total {n m : ℕ} (sc : Scaling ℝ n m) (eq : Info.Equil ℝ) (hrep : Represents eq sc)
    (v : Vars ℝ) (r : Resid ℝ) (hx : v.x.size = n) (hs : v.s.size = m) (hz : v.z.size = m)
    (h1 : r.rx.size = n) (h2 : r.rz.size = m) (h3 : r.rx_inf.size = n) (h4 : r.rz_inf.size = m)
    (h5 : r.Px.size = n) (i : InfoS ℝ) (normq normb : ℝ) :
    ∃ i', Info.update i eq normq normb v r = .ok i' := by
  unfold Info.update normScaledE
  simp only [hx, hs, hz, h1, h2, h3, h4, h5, hrep.szd, hrep.szdinv, hrep.sze, hrep.szeinv,
    bne_self_eq_false, Bool.false_eq_true, ↓reduceIte, bind, Except.bind, pure, Except.pure]
  exact ⟨_, rfl⟩

/-- a 1×1 problem over ℝ with no stored entries, `q = b = 0`, fresh equilibration data -/
noncomputable def zData : ProblemData ℝ :=
  { P := ⟨1, 1, #[0, 0], #[], #[]⟩, q := #[0], A := ⟨1, 1, #[0, 0], #[], #[]⟩, b := #[0],
    cones := [.nonneg 1], n := 1, m := 1, equilibration := EquilData.new 1 1,
    normq := some 0, normb := some 0, presolver := none }

noncomputable def zEs : Equil.Settings ℝ := ⟨false, 10, 1e-4, 1e4⟩
noncomputable def zVars : Vars ℝ := { x := #[0], s := #[0], z := #[0], τ := 1, κ := 0 }
noncomputable def zVarsK : Vars ℝ := { x := #[0], s := #[0], z := #[0], τ := 1, κ := 1 }
noncomputable def zRes0 : Resid ℝ :=
  { rx := #[0], rz := #[0], rτ := 0, rx_inf := #[0], rz_inf := #[0], dot_qx := 0, dot_bz := 0,
    dot_sz := 0, dot_xPx := 0, Px := #[0] }
noncomputable def zInfo : InfoS ℝ :=
  { cost_primal := 0, cost_dual := 0, res_primal := 0, res_dual := 0, res_primal_inf := 0,
    res_dual_inf := 0, gap_abs := 0, gap_rel := 0, ktratio := 0, prev_cost_primal := 0,
    prev_cost_dual := 0, prev_res_primal := 0, prev_res_dual := 0, prev_gap_abs := 0,
    prev_gap_rel := 0, iterations := 1, status := .unsolved }
noncomputable def zTols : Tols ℝ :=
  { gap_abs := 1, gap_rel := 1, feas := 1, infeas_abs := 1, infeas_rel := 1, ktratio := 1 }
noncomputable def zSettings : Settings ℝ := { full := zTols, reduced := zTols, max_iter := 5 }

theorem zData_user : UserData zData [.nonneg 1] zEs := by
  refine ⟨rfl, ?_, ?_, ?_, rfl, by norm_num [zEs], by norm_num [zEs]⟩
  · simp [Equil.shapesOk, Csc.wellFormed, Csc.colIdx, Csc.anyAdjacent, zData, EquilData.new]
  · exact C16.check_format_canonical _ (by rfl)
  · exact C16.check_format_canonical _ (by rfl)

theorem zData_equil : Equil.equilibrate zData [.nonneg 1] zEs = .ok zData :=
  C10.disabled_is_identity _ _ _ rfl

theorem zShapes : StateShapes zData.n zData.m zVars zRes0 := ⟨rfl, rfl, rfl, rfl, rfl, rfl, rfl, rfl⟩
theorem zShapesK : StateShapes zData.n zData.m zVarsK zRes0 := ⟨rfl, rfl, rfl, rfl, rfl, rfl, rfl, rfl⟩

theorem vecFn_zero1 (i : Fin 1) : vecFn (#[0] : Array ℝ) 1 i = 0 := by
  simp [vecFn, Array.getD]

/-- **all hypotheses of `C01.solved_certifies_user_problem` hold on a concrete instance** -/
theorem chain_example : ∃ (r : Resid ℝ) (i' : InfoS ℝ),
    UserData zData [.nonneg 1] zEs
    ∧ Equil.equilibrate zData [.nonneg 1] zEs = .ok zData
    ∧ StateShapes zData.n zData.m zVars zRes0 ∧ 0 < zVars.τ
    ∧ Residuals.update zRes0 zVars (toResidData zData) = .ok r
    ∧ Info.update zInfo (toInfoEquil zData.equilibration) 0 0 zVars r = .ok i'
    ∧ i'.status ≠ .solved
    ∧ (checkConvergenceFull i' r.dot_bz r.dot_qx zSettings).status = .solved := by
  obtain ⟨r, hr, hres⟩ := residuals_of_equilibrate zData zData _ zEs zData_user zData_equil zVars zRes0 zShapes
  have hrep := represents_of_equilibrate zData zData _ zEs zData_user zData_equil
  obtain ⟨i', hi⟩ := info_update_total _ _ hrep zVars r zShapes.x zShapes.s zShapes.z hres.szrx hres.szrz
    hres.szrxi hres.szrzi hres.szPx zInfo 0 0
  have cf := chain_facts zData zData _ zEs zData_user zData_equil zVars zRes0 r zShapes hr zInfo i' 0 0 hi false
  have hst : i'.status = .unsolved := cf.status
  have hx0 : vecFn zVars.x zData.n = fun _ => 0 := funext vecFn_zero1
  have hs0 : vecFn zVars.s zData.m = fun _ => 0 := funext vecFn_zero1
  have hz0 : vecFn zVars.z zData.m = fun _ => 0 := funext vecFn_zero1
  have hb0 : (problemOf zData.P zData.q zData.A zData.b zData.n zData.m).b = fun _ => 0 :=
    funext vecFn_zero1
  have hq0 : (problemOf zData.P zData.q zData.A zData.b zData.n zData.m).q = fun _ => 0 :=
    funext vecFn_zero1
  have hrp : i'.res_primal = 0 := by
    rw [cf.res_primal, hx0, hs0]
    simp [resPrimal, nrm, sumsq, rz, mulV, Problem.scaled, hb0]
  have hrd : i'.res_dual = 0 := by
    rw [cf.res_dual, hx0, hz0]
    simp [resDual, nrm, sumsq, rx, mulV, mulVT, Problem.scaled, hq0]
  have hcp : i'.cost_primal = 0 := by
    rw [cf.cost_primal, hx0]
    simp [costPrimal, dot, mulV]
  have hcd : i'.cost_dual = 0 := by
    rw [cf.cost_dual, hx0, hz0]
    simp [costDual, dot, mulV]
  have hkt : i'.ktratio = 0 := by rw [cf.ktratio]; simp [zVars]
  have hf := Info.update_fields _ _ _ _ _ _ _ hi
  simp only at hf
  obtain ⟨-, -, -, -, -, -, hga, hgr, -, -, -⟩ := hf
  have hga0 : i'.gap_abs = 0 := by rw [hga, hcp, hcd]; simp
  have hgr0 : i'.gap_rel = 0 := by rw [hgr, hga0]; simp
  refine ⟨r, i', zData_user, zData_equil, zShapes, by norm_num [zVars], hr, hi, by rw [hst]; decide, ?_⟩
  unfold checkConvergenceFull checkConvergence isSolved
  rw [hkt, hga0, hgr0, hrp, hrd]
  simp [zSettings, zTols]

/-! ### an infeasible instance for C02's end-to-end theorems -/

/-- `0·x + s = −1, s ≥ 0` (primal infeasible; Farkas vector `z = 1`), and with `q = −1`,
`x ≥ …` unbounded below (dual infeasible direction `x = 1`) -/
noncomputable def iData : ProblemData ℝ :=
  { P := ⟨1, 1, #[0, 0], #[], #[]⟩, q := #[-1], A := ⟨1, 1, #[0, 0], #[], #[]⟩, b := #[-1],
    cones := [.nonneg 1], n := 1, m := 1, equilibration := EquilData.new 1 1,
    normq := some 1, normb := some 1, presolver := none }
/-- iterate `ẑ = 1`, `κ/τ = 2000` -/
noncomputable def iVarsP : Vars ℝ := { x := #[0], s := #[0], z := #[1], τ := 1, κ := 2000 }
/-- iterate `x̂ = 1`, `κ/τ = 2000` -/
noncomputable def iVarsD : Vars ℝ := { x := #[1], s := #[0], z := #[0], τ := 1, κ := 2000 }
noncomputable def iTols : Tols ℝ :=
  { gap_abs := 1, gap_rel := 1, feas := 1, infeas_abs := 1/2, infeas_rel := 1, ktratio := 1 }
noncomputable def iSettings : Settings ℝ := { full := iTols, reduced := iTols, max_iter := 5 }

theorem iData_user : UserData iData [.nonneg 1] zEs := by
  refine ⟨rfl, ?_, ?_, ?_, rfl, by norm_num [zEs], by norm_num [zEs]⟩
  · simp [Equil.shapesOk, Csc.wellFormed, Csc.colIdx, Csc.anyAdjacent, iData, EquilData.new]
  · exact C16.check_format_canonical _ (by rfl)
  · exact C16.check_format_canonical _ (by rfl)

theorem iData_equil : Equil.equilibrate iData [.nonneg 1] zEs = .ok iData :=
  C10.disabled_is_identity _ _ _ rfl

theorem iShapesP : StateShapes iData.n iData.m iVarsP zRes0 := ⟨rfl, rfl, rfl, rfl, rfl, rfl, rfl, rfl⟩
theorem iShapesD : StateShapes iData.n iData.m iVarsD zRes0 := ⟨rfl, rfl, rfl, rfl, rfl, rfl, rfl, rfl⟩

theorem vecFn_one1 (i : Fin 1) : vecFn (#[1] : Array ℝ) 1 i = 1 := by simp [vecFn, Array.getD]
theorem vecFn_negone1 (i : Fin 1) : vecFn (#[-1] : Array ℝ) 1 i = -1 := by simp [vecFn, Array.getD]
theorem iScaling : scalingOf iData.equilibration 1 1
    = { d := fun _ => 1, e := fun _ => 1, c := 1 } := by
  have h1 : vecFnD (1:ℝ) (#[1] : Array ℝ) 1 = fun _ => 1 := by
    funext i; simp [vecFnD, Array.getD]
  simp [scalingOf, iData, EquilData.new, h1]
theorem iMatA (i j : Fin 1) : (problemOf iData.P iData.q iData.A iData.b 1 1).A i j = 0 := by
  simp [problemOf, matFn, iData, Csc.toDense, Csc.col]
theorem iMatP (i j : Fin 1) : (problemOf iData.P iData.q iData.A iData.b 1 1).P i j = 0 := by
  simp [problemOf, symFn, iData, Csc.toDense, Csc.col]

/-- **all hypotheses of `C02.primal_infeasible_certifies_user_problem` (`almost = false`)
hold on a concrete instance** -/
theorem chain_example_pinf : ∃ (r : Resid ℝ) (i' : InfoS ℝ),
    UserData iData [.nonneg 1] zEs
    ∧ Equil.equilibrate iData [.nonneg 1] zEs = .ok iData
    ∧ StateShapes iData.n iData.m iVarsP zRes0 ∧ 0 < iVarsP.κ
    ∧ Residuals.update zRes0 iVarsP (toResidData iData) = .ok r
    ∧ Info.update zInfo (toInfoEquil iData.equilibration) 1 1 iVarsP r = .ok i'
    ∧ (0:ℝ) ≤ iSettings.full.infeas_abs
    ∧ i'.status ≠ .primalInfeasible
    ∧ (checkConvergenceFull i' r.dot_bz r.dot_qx iSettings).status = .primalInfeasible := by
  obtain ⟨r, hr, hres⟩ := residuals_of_equilibrate iData iData _ zEs iData_user iData_equil iVarsP zRes0 iShapesP
  have hrep := represents_of_equilibrate iData iData _ zEs iData_user iData_equil
  obtain ⟨i', hi⟩ := info_update_total _ _ hrep iVarsP r iShapesP.x iShapesP.s iShapesP.z hres.szrx hres.szrz
    hres.szrxi hres.szrzi hres.szPx zInfo 1 1
  have cf : ChainFacts (problemOf iData.P iData.q iData.A iData.b 1 1) (scalingOf iData.equilibration 1 1)
      iVarsP r zInfo i' 1 1 (Unscale.unscale iVarsP (toInfoEquil iData.equilibration) true) iVarsP.κ :=
    chain_facts iData iData _ zEs iData_user iData_equil iVarsP zRes0 r iShapesP hr zInfo i' 1 1 hi true
  have hst : i'.status = .unsolved := cf.status
  have hz1 : vecFn iVarsP.z 1 = fun _ => 1 := funext vecFn_one1
  have hb1 : (problemOf iData.P iData.q iData.A iData.b 1 1).b = fun _ => -1 :=
    funext vecFn_negone1
  have hbz : r.dot_bz = -1 := by
    rw [cf.dot_bz, hz1, iScaling]
    simp [dot, Problem.scaled, hb1]
  have hpi : i'.res_primal_inf = 0 := by
    rw [cf.res_primal_inf, hz1, iScaling]
    simp [resPrimalInf, nrm, sumsq, rxInf, mulVT, Problem.scaled, iMatA]
  have hkt : i'.ktratio = 2000 := by rw [cf.ktratio]; norm_num [iVarsP]
  refine ⟨r, i', iData_user, iData_equil, iShapesP, by norm_num [iVarsP], hr, hi,
    by norm_num [iSettings, iTols], by rw [hst]; decide, ?_⟩
  unfold checkConvergenceFull checkConvergence isSolved isPrimalInfeasible
  rw [hkt, hpi, hbz]
  norm_num [iSettings, iTols]

/-- **all hypotheses of `C02.dual_infeasible_certifies_user_problem` (`almost = false`) hold
on a concrete instance** -/
theorem chain_example_dinf : ∃ (r : Resid ℝ) (i' : InfoS ℝ),
    UserData iData [.nonneg 1] zEs
    ∧ Equil.equilibrate iData [.nonneg 1] zEs = .ok iData
    ∧ StateShapes iData.n iData.m iVarsD zRes0 ∧ 0 < iVarsD.κ
    ∧ Residuals.update zRes0 iVarsD (toResidData iData) = .ok r
    ∧ Info.update zInfo (toInfoEquil iData.equilibration) 1 1 iVarsD r = .ok i'
    ∧ (0:ℝ) ≤ iSettings.full.infeas_abs
    ∧ i'.status ≠ .dualInfeasible
    ∧ (checkConvergenceFull i' r.dot_bz r.dot_qx iSettings).status = .dualInfeasible := by
  obtain ⟨r, hr, hres⟩ := residuals_of_equilibrate iData iData _ zEs iData_user iData_equil iVarsD zRes0 iShapesD
  have hrep := represents_of_equilibrate iData iData _ zEs iData_user iData_equil
  obtain ⟨i', hi⟩ := info_update_total _ _ hrep iVarsD r iShapesD.x iShapesD.s iShapesD.z hres.szrx hres.szrz
    hres.szrxi hres.szrzi hres.szPx zInfo 1 1
  have cf : ChainFacts (problemOf iData.P iData.q iData.A iData.b 1 1) (scalingOf iData.equilibration 1 1)
      iVarsD r zInfo i' 1 1 (Unscale.unscale iVarsD (toInfoEquil iData.equilibration) true) iVarsD.κ :=
    chain_facts iData iData _ zEs iData_user iData_equil iVarsD zRes0 r iShapesD hr zInfo i' 1 1 hi true
  have hst : i'.status = .unsolved := cf.status
  have hx1 : vecFn iVarsD.x 1 = fun _ => 1 := funext vecFn_one1
  have hs0 : vecFn iVarsD.s 1 = fun _ => 0 := funext vecFn_zero1
  have hz0 : vecFn iVarsD.z 1 = fun _ => 0 := funext vecFn_zero1
  have hq1 : (problemOf iData.P iData.q iData.A iData.b 1 1).q = fun _ => -1 :=
    funext vecFn_negone1
  have hqx : r.dot_qx = -1 := by
    rw [cf.dot_qx, hx1, iScaling]
    simp [dot, Problem.scaled, hq1]
  have hbz : r.dot_bz = 0 := by
    rw [cf.dot_bz, hz0, iScaling]
    simp [dot, Problem.scaled]
  have hdi : i'.res_dual_inf = 0 := by
    rw [cf.res_dual_inf, hx1, hs0, iScaling]
    simp [resDualInf, nrm, sumsq, rzInf, mulV, Problem.scaled, iMatA, iMatP]
  have hkt : i'.ktratio = 2000 := by rw [cf.ktratio]; norm_num [iVarsD]
  refine ⟨r, i', iData_user, iData_equil, iShapesD, by norm_num [iVarsD], hr, hi,
    by norm_num [iSettings, iTols], by rw [hst]; decide, ?_⟩
  unfold checkConvergenceFull checkConvergence isSolved isPrimalInfeasible isDualInfeasible
  rw [hkt, hdi, hqx, hbz]
  norm_num [iSettings, iTols]

end Clarabel.InfoUser
