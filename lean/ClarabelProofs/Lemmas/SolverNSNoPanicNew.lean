/-
  Panic-freedom of the whole-solver model WITH NONSYMMETRIC CONES (`ClarabelModel/SolverNS/*`, C04) —
  the CONSTRUCTION stage `DefaultSolver::new`:
  `internalData` (= `ProblemData.new` → NS `makeCones` + `assert_eq!(cones.numel, data.m)` →
  `Equil.equilibrate`), `SolverSt.new`, `Solver.new` of `ClarabelModel/SolverNS/Solve.lean`.

  * `InputOKN P q A b cones`  : well-formed user input (`Solver.InputOK` + the construction guard of
                                every generalised power cone).
  * `makeCones_fullN`         : `CompositeCone::new` builds consistently sized cone objects.
  * `makeCones_numelN`        : `cones.numel = Σ nvars`.
  * `internalData_noPanicN`   : no panic site of `internalData` is reachable.
  * `internalData_dataOKN`    : what `internalData` returns is `DataOK`, has `n = A.n`, and its cone
                                list builds a composite cone of exactly `m` rows.
  * `internalData_rowsN`      : rows of the user's `A` (sizes of `DefaultSolution::new`).
  * `solverNew_noPanicN`      : `DefaultSolver::new` never panics (relative to `kktSolverNew`).
  * `solverNew_invN`          : `DefaultSolver::new` establishes the invariant of `solve()`.

  All structural ([S]): no law of the scalar type is used.
-/
import ClarabelProofs.Lemmas.SolverNSNoPanicDefs
import ClarabelProofs.Lemmas.SolverModelNoPanicNew
import ClarabelProofs.Lemmas.SolverModelNoPanicConesA

namespace Clarabel.SolverNS
open Clarabel Info Residuals
open Clarabel.Solver (NoPanic OkAnd FmaxOK VarsSized ResidSized DataOK KSized KktSolver LinSettings
  StepDirection KktSys SolutionSized bind_ok_of bind_ok_inv presolveMap varsNew residNew infoNew)

set_option linter.unusedSectionVars false
set_option linter.unusedVariables false

variable {α : Type} [Add α] [Sub α] [Mul α] [Div α] [Neg α] [LT α] [LE α] [DecidableLT α] [DecidableLE α]
  [BEq α] [OfNat α 0] [OfNat α 1] [OfNat α 2] [OfNat α 3] [OfNat α 4] [OfNat α 100] [OfNat α 1000]
  [OfScientific α] [FloatLike α]

/-- well-formed user input: `Solver.InputOK` (canonical CSC `P`, `A`, consistent dimensions,
`Σ nvars = m`) and the construction guard of every generalised power cone
(`GenPowerConeData::new`: all exponents `> 0`, `|1 − Σα| < ε·len/2` — `GenPow.new`,
`NewGuards.coneGuard`).  The power cone's exponent is NOT checked by the code. -/
structure InputOKN (P : Csc α) (q : Array α) (A : Csc α) (b : Array α) (cones : List (ConeT α)) :
    Prop where
  base : Solver.InputOK P q A b cones
  genpow : ∀ al d2, ConeT.genpow al d2 ∈ cones → ∃ ψ, GenPow.new al = .ok ψ

/-! ### `make_cone` / `CompositeCone::new` -/

theorem zeros_size (n : Nat) : ((List.replicate n (0 : α)).toArray).size = n := by
  simp

/-- [S] `GenPowerConeData::new` builds vectors of the cone's dimensions -/
theorem genpowInit_full (al : Array α) (d2 : Nat) (ψ : α) :
    ConeFull (ConeSt.genpow al d2 ψ (GenPow.State.init al.size d2)) :=
  ⟨zeros_size _, zeros_size _, zeros_size _, zeros_size _, zeros_size _, zeros_size _⟩

/-- [S] `make_cone` builds consistently sized cone objects -/
theorem makeCone_fullN {t : ConeT α} {c : ConeSt α} (h : makeCone t = .ok c) : ConeFull c := by
  cases t with
  | exp => cases h; trivial
  | pow a => cases h; trivial
  | genpow al d2 =>
    unfold makeCone at h
    obtain ⟨ψ, _, h⟩ := bind_ok_inv h
    cases h
    exact genpowInit_full al d2 ψ
  | zero n =>
    unfold makeCone at h
    obtain ⟨c0, hc0, h⟩ := bind_ok_inv h
    cases h
    exact Solver.makeCone_full hc0
  | nonneg n =>
    unfold makeCone at h
    obtain ⟨c0, hc0, h⟩ := bind_ok_inv h
    cases h
    exact Solver.makeCone_full hc0
  | soc n =>
    unfold makeCone at h
    obtain ⟨c0, hc0, h⟩ := bind_ok_inv h
    cases h
    exact Solver.makeCone_full hc0
  | psd n =>
    unfold makeCone at h
    obtain ⟨c0, hc0, h⟩ := bind_ok_inv h
    cases h
    exact Solver.makeCone_full hc0

/-- [S] `CompositeCone::new` builds consistently sized cone objects -/
theorem makeCones_fullN : ∀ {ts : List (ConeT α)} {cs : List (ConeSt α)},
    makeCones ts = .ok cs → ConesFull cs := by
  intro ts
  induction ts with
  | nil => intro cs h; cases h; exact ConesFull.nil
  | cons t ts ih =>
    intro cs h
    unfold makeCones at h
    simp only [List.mapM_cons] at h
    obtain ⟨c, hc, h⟩ := bind_ok_inv h
    obtain ⟨cs', hcs, h⟩ := bind_ok_inv h
    cases h
    exact ConesFull.cons (makeCone_fullN hc) (ih hcs)

theorem makeCone_numelN {t : ConeT α} {c : ConeSt α} (h : makeCone t = .ok c) : c.numel = t.nvars := by
  cases t with
  | exp => cases h; rfl
  | pow a => cases h; rfl
  | genpow al d2 =>
    unfold makeCone at h
    obtain ⟨ψ, _, h⟩ := bind_ok_inv h
    cases h
    rfl
  | zero n =>
    unfold makeCone at h
    obtain ⟨c0, hc0, h⟩ := bind_ok_inv h
    cases h
    exact Solver.makeCone_numel hc0
  | nonneg n =>
    unfold makeCone at h
    obtain ⟨c0, hc0, h⟩ := bind_ok_inv h
    cases h
    exact Solver.makeCone_numel hc0
  | soc n =>
    unfold makeCone at h
    obtain ⟨c0, hc0, h⟩ := bind_ok_inv h
    cases h
    exact Solver.makeCone_numel hc0
  | psd n =>
    unfold makeCone at h
    obtain ⟨c0, hc0, h⟩ := bind_ok_inv h
    cases h
    exact Solver.makeCone_numel hc0

/-- [S] `cones.numel` of the composite cone is `Σ nvars` of the cone list it was built from -/
theorem makeCones_numelN : ∀ {ts : List (ConeT α)} {K : List (ConeSt α)}, makeCones ts = .ok K →
    numelAll K = Cones.numel ts := by
  intro ts
  induction ts with
  | nil => intro K h; cases h; rfl
  | cons t ts ih =>
    intro K h
    unfold makeCones at h
    simp only [List.mapM_cons] at h
    obtain ⟨c, hc, h⟩ := bind_ok_inv h
    obtain ⟨cs', hcs, h⟩ := bind_ok_inv h
    cases h
    rw [numelAll_cons, makeCone_numelN hc, ih hcs]
    rfl

/-- [S] `make_cone` does not panic unless it is a second-order cone of dimension `< 2` or a
generalised power cone whose exponents fail the guard of `GenPowerConeData::new` -/
theorem makeCone_noPanicN (t : ConeT α) (h : ∀ d, t = .soc d → 2 ≤ d)
    (hg : ∀ al d2, t = .genpow al d2 → ∃ ψ, GenPow.new al = .ok ψ) : NoPanic (makeCone t) := by
  have hsym : NoPanic (Solver.makeCone t >>= fun c => (pure (ConeSt.sym c) : MErr (ConeSt α))) :=
    NoPanic.bind (Solver.makeCone_noPanic t h) fun c _ => NoPanic.ok _
  cases t with
  | exp => exact NoPanic.ok _
  | pow a => exact NoPanic.ok _
  | genpow al d2 =>
    obtain ⟨ψ, hψ⟩ := hg al d2 rfl
    show NoPanic (GenPow.new al >>= fun ψ =>
      (pure (ConeSt.genpow al d2 ψ (GenPow.State.init al.size d2)) : MErr (ConeSt α)))
    rw [bind_ok_of hψ]
    exact NoPanic.ok _
  | zero n => exact hsym
  | nonneg n => exact hsym
  | soc n => exact hsym
  | psd n => exact hsym

theorem makeCones_noPanicN (ts : List (ConeT α)) (h : ∀ d, ConeT.soc d ∈ ts → 2 ≤ d)
    (hg : ∀ al d2, ConeT.genpow al d2 ∈ ts → ∃ ψ, GenPow.new al = .ok ψ) :
    NoPanic (makeCones ts) := by
  induction ts with
  | nil => exact NoPanic.ok _
  | cons t ts ih =>
    unfold makeCones
    simp only [List.mapM_cons]
    refine NoPanic.bind (makeCone_noPanicN t
      (fun d hd => h d (by rw [hd]; exact List.mem_cons_self ..))
      (fun al d2 hd => hg al d2 (by rw [hd]; exact List.mem_cons_self ..))) ?_
    intro c _
    refine NoPanic.bind (ih (fun d hd => h d (List.mem_cons_of_mem _ hd))
      (fun al d2 hd => hg al d2 (List.mem_cons_of_mem _ hd))) ?_
    intro cs _
    exact NoPanic.ok _

/-! ### `internalData` -/

/-- the generalised-power guard of the user's cone list carries over to the internal cone list of
`DefaultProblemData::new` (whose cones are nonnegative cones or cones of the user's list) -/
theorem genpow_guard_internal {P : Csc α} {q : Array α} {A : Csc α} {b : Array α}
    {cones : List (ConeT α)} {pe ch : Bool} {inf : α} {d : ProblemData α}
    (hg : ∀ al d2, ConeT.genpow al d2 ∈ cones → ∃ ψ, GenPow.new al = .ok ψ)
    (h : ProblemData.new P q A b cones pe ch inf = .ok d) :
    ∀ al d2, ConeT.genpow al d2 ∈ d.cones → ∃ ψ, GenPow.new al = .ok ψ := by
  intro al d2 hm
  rcases Solver.problemDataNew_cones h _ hm with h1 | h1
  · cases h1
  · exact hg al d2 h1

/-- [S] **no panic site of `internalData` is reachable on well-formed input** (the sites of the
symmetric model plus `GenPowerConeData::new`'s two asserts).  The result may still be `.err`
(PSD cone: "cone-not-modelled"): that is "outside the model", not a panic. -/
theorem internalData_noPanicN {P : Csc α} {q : Array α} {A : Csc α} {b : Array α}
    {cones : List (ConeT α)} {st : Settings α} (h : InputOKN P q A b cones) :
    NoPanic (internalData P q A b cones st) := by
  obtain ⟨d0, hd0, hpre⟩ := Solver.problemDataNew_spec h.base st.presolveEnable st.infbound
  unfold internalData
  rw [bind_ok_of hd0]
  refine NoPanic.bind (makeCones_noPanicN _ (Solver.soc_ge_two_of_normal hpre.normal)
    (genpow_guard_internal h.genpow hd0)) ?_
  intro K hK
  have hm : numelAll K = d0.m := by rw [makeCones_numelN hK, hpre.numel]
  rw [if_neg (by simp [hm])]
  exact Solver.equilibrate_noPanic _ _ _ hpre.numel

/-- [S] **what `internalData` returns is well formed**: `DataOK`, the `n` of the user's `A`, and
its cone list builds a composite cone of exactly `m` rows -/
theorem internalData_dataOKN {P : Csc α} {q : Array α} {A : Csc α} {b : Array α}
    {cones : List (ConeT α)} {st : Settings α} (h : InputOKN P q A b cones) {d : ProblemData α}
    (hd : internalData P q A b cones st = .ok d) :
    DataOK d ∧ d.n = A.n ∧ ∃ K, makeCones d.cones = .ok K ∧ numelAll K = d.m := by
  obtain ⟨d0, hd0, hpre⟩ := Solver.problemDataNew_spec h.base st.presolveEnable st.infbound
  unfold internalData at hd
  rw [bind_ok_of hd0] at hd
  obtain ⟨K, hK, hd⟩ := bind_ok_inv hd
  have hm : numelAll K = d0.m := by rw [makeCones_numelN hK, hpre.numel]
  rw [if_neg (by simp [hm])] at hd
  obtain ⟨e1, e2, e3⟩ := Solver.equilibrate_dim hd
  exact ⟨Solver.equilibrate_dataOK hpre.data hd, by rw [e3, hpre.n], K, by rw [e1]; exact hK,
    by rw [e2]; exact hm⟩

/-- [S] **rows of the user's `A`** (what sizes `DefaultSolution::new(A.n, A.m)` for
`solution.post_process`): without a row map the internal problem has the `m` of the user's `A`;
with one, the map has one flag per row of the user's `A` -/
theorem internalData_rowsN {P : Csc α} {q : Array α} {A : Csc α} {b : Array α}
    {cones : List (ConeT α)} {st : Settings α} (h : InputOKN P q A b cones) {d : ProblemData α}
    (hd : internalData P q A b cones st = .ok d) :
    (presolveMap d = none → d.m = A.m) ∧ (∀ p, presolveMap d = some p → p.keep.size = A.m) := by
  obtain ⟨d0, hd0, hpre⟩ := Solver.problemDataNew_spec h.base st.presolveEnable st.infbound
  unfold internalData at hd
  rw [bind_ok_of hd0] at hd
  obtain ⟨K, hK, hd⟩ := bind_ok_inv hd
  have hm : numelAll K = d0.m := by rw [makeCones_numelN hK, hpre.numel]
  rw [if_neg (by simp [hm])] at hd
  obtain ⟨_, e2, _⟩ := Solver.equilibrate_dim hd
  have hp : presolveMap d = presolveMap d0 := by
    unfold Solver.presolveMap; rw [Solver.equilibrate_presolver hd]
  rw [hp, e2]
  exact ⟨hpre.rows_none, hpre.rows_some⟩

/-! ### `DefaultSolver::new` -/

/-- [S] `DefaultSolver::new` never panics on well-formed input, provided `kktSolverNew` does not
on the internal data (`hk`).  (It may return `.err`: PSD cone.) -/
theorem solverNew_noPanicN {P : Csc α} {q : Array α} {A : Csc α} {b : Array α}
    {cones : List (ConeT α)} {st : Settings α} {perm : Array Nat} (hin : InputOKN P q A b cones)
    (hk : ∀ d K, internalData P q A b cones st = .ok d → makeCones d.cones = .ok K → DataOK d →
      ConesFull K → numelAll K = d.m → NoPanic (kktSolverNew d.P d.A K d.m d.n st.lin perm)) :
    NoPanic (Solver.new P q A b cones st perm) := by
  unfold Solver.new
  rw [bind_ok_of (Solver.checkDimensions_ok hin.base)]
  refine NoPanic.bind ?_ fun S _ => NoPanic.ok _
  unfold SolverSt.new
  refine NoPanic.bind (internalData_noPanicN hin) fun d hd => ?_
  obtain ⟨hdok, _, K, hK, hnum⟩ := internalData_dataOKN hin hd
  rw [bind_ok_of hK]
  refine NoPanic.bind ?_ fun ks _ => NoPanic.ok _
  unfold kktSysNew
  dsimp only
  exact NoPanic.bind (hk d K hd hK hdok (makeCones_fullN hK) hnum) fun Ks _ => NoPanic.ok _

/-- [S] **`DefaultSolver::new` establishes the invariant of `solve()`**: whatever solver object it
returns satisfies `SolverInv` (shapes of every vector, consistently sized cones covering `m` rows,
well-formed data, solution object sized for the user's problem), with the linear solver object
in the state `KIw` that `kktSolverNew` establishes (`hk`). -/
theorem solverNew_invN {KIw : List Kkt.ConeSpec → Nat → Nat → KktSolver α → Prop}
    {P : Csc α} {q : Array α} {A : Csc α} {b : Array α} {cones : List (ConeT α)}
    {st : Settings α} {perm : Array Nat} (hin : InputOKN P q A b cones)
    (hk : ∀ d K Ks, internalData P q A b cones st = .ok d → makeCones d.cones = .ok K → DataOK d →
      ConesFull K → numelAll K = d.m →
      kktSolverNew d.P d.A K d.m d.n st.lin perm = .ok Ks → KIw (K.map ConeSt.kktSpec) d.n d.m Ks)
    {S : Solver α} (h : Solver.new P q A b cones st perm = .ok S) :
    SolverInv (KIw (S.st.cones.map ConeSt.kktSpec) S.st.data.n S.st.data.m) S.st.data
      (S.st.cones.map ConeSt.kktSpec) S := by
  unfold Solver.new at h
  obtain ⟨_, _, h⟩ := bind_ok_inv h
  obtain ⟨S0, hS0, h⟩ := bind_ok_inv h
  cases h
  unfold SolverSt.new at hS0
  obtain ⟨d, hd, hS0⟩ := bind_ok_inv hS0
  obtain ⟨K, hK, hS0⟩ := bind_ok_inv hS0
  obtain ⟨ks, hks, hS0⟩ := bind_ok_inv hS0
  cases hS0
  unfold kktSysNew at hks
  dsimp only at hks
  obtain ⟨Ks, hKs, hks⟩ := bind_ok_inv hks
  cases hks
  obtain ⟨hdok, hn, K', hK', hnum⟩ := internalData_dataOKN hin hd
  rw [hK] at hK'
  cases hK'
  obtain ⟨hrow1, hrow2⟩ := internalData_rowsN hin hd
  have hfull := makeCones_fullN hK
  have hv : VarsSized d.n d.m (varsNew d.n d.m : Vars α) :=
    ⟨Array.size_replicate .., Array.size_replicate .., Array.size_replicate ..⟩
  refine ⟨⟨⟨hdok, hv, ⟨Array.size_replicate .., Array.size_replicate .., Array.size_replicate ..,
    Array.size_replicate .., Array.size_replicate ..⟩, hv, hv, hv, hfull, hnum,
    ⟨Array.size_replicate .., Array.size_replicate .., Array.size_replicate .., Array.size_replicate ..,
    Array.size_replicate .., Array.size_replicate .., Array.size_replicate ..⟩,
    hk d K Ks hd hK hdok hfull hnum hKs⟩, rfl, rfl⟩, ?_⟩
  refine ⟨?_, ?_, ?_, ?_, ?_⟩
  · show (Array.replicate A.n (0 : α)).size = d.n
    rw [Array.size_replicate, hn]
  · intro hp
    show (Array.replicate A.m (0 : α)).size = d.m
    rw [Array.size_replicate, hrow1 hp]
  · intro hp
    show (Array.replicate A.m (0 : α)).size = d.m
    rw [Array.size_replicate, hrow1 hp]
  · intro p hp
    show (Array.replicate A.m (0 : α)).size = p.keep.size
    rw [Array.size_replicate, hrow2 p hp]
  · intro p hp
    show (Array.replicate A.m (0 : α)).size = p.keep.size
    rw [Array.size_replicate, hrow2 p hp]

/-! ### the kinds of cones of the solver object come from the user's list -/

/-- the user's cone list has an exponential / a nonsymmetric cone -/
def userHasExp (cones : List (ConeT α)) : Prop := ConeT.exp ∈ cones
def userHasNonsym (cones : List (ConeT α)) : Prop :=
  ∃ c ∈ cones, (c = ConeT.exp ∨ (∃ a, c = ConeT.pow a) ∨ ∃ al d2, c = ConeT.genpow al d2)

/-- the KKT view of a symmetric cone object is never a nonsymmetric kind -/
theorem sym_kktSpec_kind (c : Solver.ConeSt α) :
    c.kktSpec ≠ Kkt.ConeSpec.exp ∧ c.kktSpec ≠ Kkt.ConeSpec.pow ∧
      ∀ a b, c.kktSpec ≠ Kkt.ConeSpec.genpow a b := by
  cases c <;> exact ⟨fun h => (by cases h), fun h => (by cases h), fun a b h => (by cases h)⟩

/-- [S] `make_cone` keeps the kind of the cone -/
theorem makeCone_kind {t : ConeT α} {c : ConeSt α} (h : makeCone t = .ok c) :
    (c.kktSpec = Kkt.ConeSpec.exp → t = ConeT.exp) ∧
    (c.kktSpec = Kkt.ConeSpec.pow → ∃ a, t = ConeT.pow a) ∧
    (∀ a b, c.kktSpec = Kkt.ConeSpec.genpow a b → ∃ al d2, t = ConeT.genpow al d2) := by
  have hsym : ∀ c0 : Solver.ConeSt α, (ConeSt.sym c0).kktSpec = c0.kktSpec := fun _ => rfl
  cases t with
  | exp =>
    cases h
    exact ⟨fun _ => rfl, fun e => (by cases e), fun a b e => (by cases e)⟩
  | pow a =>
    cases h
    exact ⟨fun e => (by cases e), fun _ => ⟨a, rfl⟩, fun a b e => (by cases e)⟩
  | genpow al d2 =>
    unfold makeCone at h
    obtain ⟨ψ, _, h⟩ := bind_ok_inv h
    cases h
    exact ⟨fun e => (by cases e), fun e => (by cases e), fun _ _ _ => ⟨al, d2, rfl⟩⟩
  | zero n =>
    unfold makeCone at h
    obtain ⟨c0, hc0, h⟩ := bind_ok_inv h
    cases h
    obtain ⟨h1, h2, h3⟩ := sym_kktSpec_kind c0
    exact ⟨fun e => absurd e h1, fun e => absurd e h2, fun a b e => absurd e (h3 a b)⟩
  | nonneg n =>
    unfold makeCone at h
    obtain ⟨c0, hc0, h⟩ := bind_ok_inv h
    cases h
    obtain ⟨h1, h2, h3⟩ := sym_kktSpec_kind c0
    exact ⟨fun e => absurd e h1, fun e => absurd e h2, fun a b e => absurd e (h3 a b)⟩
  | soc n =>
    unfold makeCone at h
    obtain ⟨c0, hc0, h⟩ := bind_ok_inv h
    cases h
    obtain ⟨h1, h2, h3⟩ := sym_kktSpec_kind c0
    exact ⟨fun e => absurd e h1, fun e => absurd e h2, fun a b e => absurd e (h3 a b)⟩
  | psd n =>
    unfold makeCone at h
    obtain ⟨c0, hc0, h⟩ := bind_ok_inv h
    cases h
    obtain ⟨h1, h2, h3⟩ := sym_kktSpec_kind c0
    exact ⟨fun e => absurd e h1, fun e => absurd e h2, fun a b e => absurd e (h3 a b)⟩

/-- every cone object of `CompositeCone::new` was built by `make_cone` from a cone of the list -/
theorem makeCones_mem : ∀ {ts : List (ConeT α)} {K : List (ConeSt α)}, makeCones ts = .ok K →
    ∀ c ∈ K, ∃ t ∈ ts, makeCone t = .ok c := by
  intro ts
  induction ts with
  | nil => intro K h; cases h; intro c hc; cases hc
  | cons t ts ih =>
    intro K h
    unfold makeCones at h
    simp only [List.mapM_cons] at h
    obtain ⟨c0, hc0, h⟩ := bind_ok_inv h
    obtain ⟨cs', hcs, h⟩ := bind_ok_inv h
    cases h
    intro c hc
    rcases List.mem_cons.mp hc with e | e
    · subst e; exact ⟨t, List.mem_cons_self .., hc0⟩
    · obtain ⟨t', ht', h'⟩ := ih hcs c e
      exact ⟨t', List.mem_cons_of_mem _ ht', h'⟩

/-- the cone objects of the solver object `DefaultSolver::new` returns are built from nonnegative
cones and cones of the user's list -/
theorem solverNew_cones_mem {P : Csc α} {q : Array α} {A : Csc α} {b : Array α}
    {cones : List (ConeT α)} {st : Settings α} {perm : Array Nat} {S : Solver α}
    (h : Solver.new P q A b cones st perm = .ok S) :
    ∀ c ∈ S.st.cones, ∃ t, (t.isNonneg = true ∨ t ∈ cones) ∧ makeCone t = .ok c := by
  unfold Solver.new at h
  obtain ⟨_, _, h⟩ := bind_ok_inv h
  obtain ⟨S0, hS0, h⟩ := bind_ok_inv h
  cases h
  unfold SolverSt.new at hS0
  obtain ⟨d, hd, hS0⟩ := bind_ok_inv hS0
  obtain ⟨K, hK, hS0⟩ := bind_ok_inv hS0
  obtain ⟨ks, hks, hS0⟩ := bind_ok_inv hS0
  cases hS0
  unfold internalData at hd
  obtain ⟨d0, hd0, hd⟩ := bind_ok_inv hd
  obtain ⟨K0, hK0, hd⟩ := bind_ok_inv hd
  split at hd
  · cases hd
  · obtain ⟨e1, _, _⟩ := Solver.equilibrate_dim hd
    intro c hc
    obtain ⟨t, ht, hc'⟩ := makeCones_mem hK c hc
    rw [e1] at ht
    exact ⟨t, Solver.problemDataNew_cones hd0 t ht, hc'⟩

/-- [S] **the composite cone of the solver object has an exponential (nonsymmetric) cone only if
the user's cone list has one** (collapse / presolve only add nonnegative cones; `make_cone` keeps
the kind).  No well-formedness hypothesis is needed. -/
theorem new_cone_kinds {P : Csc α} {q : Array α} {A : Csc α} {b : Array α}
    {cones : List (ConeT α)} {st : Settings α} {perm : Array Nat} {S : Solver α}
    (h : Solver.new P q A b cones st perm = .ok S) :
    (hasExp (S.st.cones.map ConeSt.kktSpec) → userHasExp cones) ∧
    (hasNonsym (S.st.cones.map ConeSt.kktSpec) → userHasNonsym cones) := by
  have hmem := solverNew_cones_mem h
  constructor
  · intro he
    obtain ⟨c, hc, e⟩ := List.mem_map.mp he
    obtain ⟨t, ht, hmk⟩ := hmem c hc
    have := (makeCone_kind hmk).1 e
    subst this
    rcases ht with ht | ht
    · cases ht
    · exact ht
  · rintro ⟨sp, hsp, hk⟩
    obtain ⟨c, hc, e⟩ := List.mem_map.mp hsp
    subst e
    obtain ⟨t, ht, hmk⟩ := hmem c hc
    obtain ⟨k1, k2, k3⟩ := makeCone_kind hmk
    have hkind : t = ConeT.exp ∨ (∃ a, t = ConeT.pow a) ∨ ∃ al d2, t = ConeT.genpow al d2 := by
      rcases hk with hk | hk | ⟨a, b, hk⟩
      · exact Or.inl (k1 hk)
      · exact Or.inr (Or.inl (k2 hk))
      · exact Or.inr (Or.inr (k3 a b hk))
    refine ⟨t, ?_, hkind⟩
    rcases ht with ht | ht
    · rcases hkind with rfl | ⟨a, rfl⟩ | ⟨al, d2, rfl⟩ <;> cases ht
    · exact ht

/-! ### non-vacuity -/

section Example

/-- integer arithmetic as a scalar type, with `eps = 1` so that the guard of
`GenPowerConeData::new` can pass (local to this section) -/
@[reducible] private def intFloatLikeN : FloatLike Int where
  sqrt := id
  exp := id
  log := id
  powf := fun a _ => a
  fmax := max
  fmin := min
  fabs := fun a => a.natAbs
  isNaN := fun _ => false
  isFinite := fun _ => true
  eps := 1
  ofNat := Int.ofNat

@[reducible] private def intSciN : OfScientific Int := ⟨fun m _ _ => Int.ofNat m⟩

attribute [local instance] intFloatLikeN intSciN

/-- `InputOKN` is inhabited by an input with a generalised power cone (exponent vector `[1]`,
`dim2 = 2`) on a canonical 3×3 `P = A` -/
example : InputOKN (α := Int) C16.exM #[1, 2, 3] C16.exM #[4, 5, 6] [ConeT.genpow #[1] 2] := by
  refine ⟨⟨C16.exM_canonical0, rfl, C16.exM_canonical0, rfl, rfl, rfl, rfl⟩, ?_⟩
  intro al d2 hm
  simp only [List.mem_singleton, ConeT.genpow.injEq] at hm
  obtain ⟨rfl, rfl⟩ := hm
  exact ⟨1, by decide⟩

end Example

end Clarabel.SolverNS
