/-
  Exact identities relating the internal (equilibrated, homogeneous) quantities to the
  user-space point returned by `Variables.unscale` — the algebra behind C01–C03.
-/
import ClarabelProofs.Lemmas.InfoDense

open Finset

namespace Clarabel.Dense

variable {α : Type} [Field α] {n m : ℕ}

theorem unX_eq (sc : Scaling α n m) (σ : α) (xh : Fin n → α) :
    unX sc σ xh = fun j => (fun j => sc.d j * xh j) j * (1 / σ) := by
  funext j; unfold unX; ring

theorem unZ_eq (sc : Scaling α n m) (σ : α) (zh : Fin m → α) :
    unZ sc σ zh = fun i => (fun i => sc.e i * zh i) i * (1 / σ * (1 / sc.c)) := by
  funext i; unfold unZ; ring

/-- `A x + s − b = E⁻¹ r̂z / σ` when `r̂z` is taken with homogenising scalar `σ` -/
theorem primal_residual_unscale (p : Problem α n m) (sc : Scaling α n m)
    (xh : Fin n → α) (sh : Fin m → α) (σ : α) (he : ∀ i, sc.e i ≠ 0) (hσ : σ ≠ 0) (i : Fin m) :
    mulV p.A (unX sc σ xh) i + unS sc σ sh i - p.b i
      = rz (p.scaled sc) xh sh σ i * (1 / sc.e i) * (1 / σ) := by
  unfold rz
  rw [mulV_scaled, unX_eq, mulV_smul]
  unfold unS
  simp only [Problem.scaled]
  have := he i
  field_simp

/-- `P x + Aᵀ z + q = −D⁻¹ r̂x / (c σ)` -/
theorem dual_residual_unscale (p : Problem α n m) (sc : Scaling α n m)
    (xh : Fin n → α) (zh : Fin m → α) (σ : α) (hd : ∀ j, sc.d j ≠ 0) (hc : sc.c ≠ 0)
    (hσ : σ ≠ 0) (j : Fin n) :
    mulV p.P (unX sc σ xh) j + mulVT p.A (unZ sc σ zh) j + p.q j
      = -(rx (p.scaled sc) xh zh σ j * (1 / sc.d j) * (1 / σ) * (1 / sc.c)) := by
  unfold rx
  rw [mulVT_scaled, mulVP_scaled, unX_eq, unZ_eq, mulV_smul, mulVT_smul]
  simp only [Problem.scaled]
  have := hd j
  field_simp
  ring

/-- `−Aᵀ z = D⁻¹ r̂x_inf /(c σ)` -/
theorem rxInf_unscale (p : Problem α n m) (sc : Scaling α n m) (zh : Fin m → α) (σ : α)
    (hd : ∀ j, sc.d j ≠ 0) (hc : sc.c ≠ 0) (hσ : σ ≠ 0) (j : Fin n) :
    -(mulVT p.A (unZ sc σ zh) j) = rxInf (p.scaled sc) zh j * (1 / sc.d j) * (1 / sc.c) * (1 / σ) := by
  unfold rxInf
  rw [mulVT_scaled, unZ_eq, mulVT_smul]
  have := hd j
  field_simp

/-- `A x + s = E⁻¹ r̂z_inf / σ` -/
theorem rzInf_unscale (p : Problem α n m) (sc : Scaling α n m) (xh : Fin n → α) (sh : Fin m → α)
    (σ : α) (he : ∀ i, sc.e i ≠ 0) (hσ : σ ≠ 0) (i : Fin m) :
    mulV p.A (unX sc σ xh) i + unS sc σ sh i = rzInf (p.scaled sc) xh sh i * (1 / sc.e i) * (1 / σ) := by
  unfold rzInf
  rw [mulV_scaled, unX_eq, mulV_smul]
  unfold unS
  have := he i
  field_simp

/-- `P x = D⁻¹ (P̂ x̂) / (c σ)` -/
theorem Px_unscale (p : Problem α n m) (sc : Scaling α n m) (xh : Fin n → α) (σ : α)
    (hd : ∀ j, sc.d j ≠ 0) (hc : sc.c ≠ 0) (hσ : σ ≠ 0) (j : Fin n) :
    mulV p.P (unX sc σ xh) j = mulV (p.scaled sc).P xh j * (1 / sc.d j) * (1 / sc.c) * (1 / σ) := by
  rw [mulVP_scaled, unX_eq, mulV_smul]
  have := hd j
  field_simp

/-- `q̂ᵀx̂ = c σ · qᵀx` -/
theorem dot_qx_unscale (p : Problem α n m) (sc : Scaling α n m) (xh : Fin n → α) (σ : α)
    (hσ : σ ≠ 0) :
    dot (p.scaled sc).q xh = sc.c * σ * dot p.q (unX sc σ xh) := by
  unfold dot unX
  rw [Finset.mul_sum]
  refine Finset.sum_congr rfl (fun j _ => ?_)
  simp only [Problem.scaled]
  field_simp

/-- `b̂ᵀẑ = c σ · bᵀz` -/
theorem dot_bz_unscale (p : Problem α n m) (sc : Scaling α n m) (zh : Fin m → α) (σ : α)
    (hc : sc.c ≠ 0) (hσ : σ ≠ 0) :
    dot (p.scaled sc).b zh = sc.c * σ * dot p.b (unZ sc σ zh) := by
  unfold dot unZ
  rw [Finset.mul_sum]
  refine Finset.sum_congr rfl (fun j _ => ?_)
  simp only [Problem.scaled]
  field_simp

/-- `x̂ᵀP̂x̂ = c σ² · xᵀPx` -/
theorem dot_xPx_unscale (p : Problem α n m) (sc : Scaling α n m) (xh : Fin n → α) (σ : α)
    (hσ : σ ≠ 0) :
    dot xh (mulV (p.scaled sc).P xh) = sc.c * (σ * σ) * dot (unX sc σ xh) (mulV p.P (unX sc σ xh)) := by
  unfold dot
  rw [Finset.mul_sum]
  refine Finset.sum_congr rfl (fun j _ => ?_)
  rw [mulVP_scaled, unX_eq, mulV_smul]
  field_simp

end Clarabel.Dense
